import QV.Model.Server
import QV.Proofs.Wire
import QV.Proofs.Tsig
namespace QV.ServerTsig
open QV QV.Server QV.Writer

theorem rc_noerror : RC "NOERROR" = 0 := by decide
theorem rc_formerr : RC "FORMERR" = 1 := by decide
theorem rc_notauth : RC "NOTAUTH" = 9 := by decide
theorem xrc_badkey : XRC "BADKEY" = 17 := by decide
theorem xrc_badsig : XRC "BADVERSBADSIG" = 16 := by decide
theorem xrc_badtime : XRC "BADTIME" = 18 := by decide
theorem xrc_noerror : XRC "NOERROR" = 0 := by decide
theorem xr_badtime : XR_BADTIME = 18 := by decide

theorem rcode_bits (rc : Nat) (h : rc < 16) : ∀ b : UInt8,
    (((b &&& ~~~ (UInt8.ofNat Gen.RCODE_MASK)) ||| UInt8.ofNat rc) &&& UInt8.ofNat Gen.RCODE_MASK).toNat = rc := by
  have : rc = 0 ∨ rc = 1 ∨ rc = 2 ∨ rc = 3 ∨ rc = 4 ∨ rc = 5 ∨ rc = 6 ∨ rc = 7 ∨ rc = 8 ∨ rc = 9 ∨ rc = 10 ∨ rc = 11 ∨ rc = 12 ∨ rc = 13 ∨ rc = 14 ∨ rc = 15 := by omega
  rcases this with h|h|h|h|h|h|h|h|h|h|h|h|h|h|h|h <;> subst h <;> (apply QV.Wire.forall_uint8; decide +kernel)

theorem tc_bits : ∀ b : UInt8, ((b ||| UInt8.ofNat Gen.TC_MASK) &&& UInt8.ofNat Gen.TC_MASK != 0) = true := by
  apply QV.Wire.forall_uint8; decide +kernel

/-- the writer state changed in the header octets only (and possibly the stored upper RCODE bits) -/
structure HeaderOnly (s s' : State) : Prop where
  cursor : s'.cursor = s.cursor
  available : s'.available = s.available
  limit : s'.limit = s.limit
  rrStart : s'.rrStart = s.rrStart
  sect : s'.sect = s.sect
  qdcount : s'.qdcount = s.qdcount
  ancount : s'.ancount = s.ancount
  nscount : s'.nscount = s.nscount
  arcount : s'.arcount = s.arcount
  tsig : s'.tsig = s.tsig
  edns : s'.edns.isSome = s.edns.isSome
  size : s'.octets.size = s.octets.size

theorem HeaderOnly.refl (s : State) : HeaderOnly s s := ⟨rfl, rfl, rfl, rfl, rfl, rfl, rfl, rfl, rfl, rfl, rfl, rfl⟩

theorem HeaderOnly.trans {a b c : State} (h1 : HeaderOnly a b) (h2 : HeaderOnly b c) : HeaderOnly a c :=
  ⟨h2.cursor.trans h1.cursor, h2.available.trans h1.available, h2.limit.trans h1.limit, h2.rrStart.trans h1.rrStart,
   h2.sect.trans h1.sect, h2.qdcount.trans h1.qdcount, h2.ancount.trans h1.ancount, h2.nscount.trans h1.nscount,
   h2.arcount.trans h1.arcount, h2.tsig.trans h1.tsig, h2.edns.trans h1.edns, h2.size.trans h1.size⟩

/-- `set_rcode` on a buffer that holds a header: never fails, header-only, and the RCODE reads back -/
theorem setRcode_spec (rc : Nat) (hrc : rc < 16) (s : State) (hs : 12 ≤ s.octets.size) :
    ∃ s', setRcode rc s = (.ok (), s') ∧ HeaderOnly s s' ∧ getRcode s' = rc ∧
      (∀ i, i ≠ Gen.RCODE_BYTE → hdr s' i = hdr s i) := by
  have h3 : Gen.RCODE_BYTE < s.octets.size := by simp [Gen.RCODE_BYTE]; omega
  unfold setRcode setHdr
  simp only [bind, h3, dite_true, M.modify]
  refine ⟨_, rfl, ?_, ?_, ?_⟩
  · cases he : s.edns <;> constructor <;> simp [he]
  · cases he : s.edns <;> simp [getRcode, hdr, Gen.RCODE_BYTE] <;>
      simpa [Gen.RCODE_BYTE] using rcode_bits rc hrc _
  · intro i hi
    cases he : s.edns <;> simp [hdr, Ne.symm hi]

/-- `set_tc(true)` -/
theorem setTc_spec (s : State) (hs : 12 ≤ s.octets.size) :
    ∃ s', setTc true s = (.ok (), s') ∧ HeaderOnly s s' ∧ getBit s' Gen.TC_BYTE Gen.TC_MASK = true ∧
      s'.edns = s.edns ∧ (∀ i, i ≠ Gen.TC_BYTE → hdr s' i = hdr s i) := by
  have h2 : Gen.TC_BYTE < s.octets.size := by simp [Gen.TC_BYTE]; omega
  unfold setTc setBit setHdr
  simp only [h2, dite_true]
  refine ⟨_, rfl, ?_, ?_, rfl, ?_⟩
  · constructor <;> simp
  · simp [getBit, hdr, Gen.TC_BYTE]
    simpa [Gen.TC_BYTE] using tc_bits _
  · intro i hi
    simp [hdr, Ne.symm hi]

/-- what `set_tsig` reserves: `signed_len` / `unsigned_len` -/
def reservedLen : TsigMode → TsigRr → Nat
  | .request a _, rr => signedLen rr a
  | .response a _ _, rr => signedLen rr a
  | .subsequent a _ _, rr => signedLen rr a
  | .unsigned n, rr => unsignedLen rr n

/-- the state after a successful `set_tsig` -/
def withTsig (s : State) (mode : TsigMode) (rr : TsigRr) : State :=
  { s with arcount := s.arcount + 1, available := s.available - reservedLen mode rr,
           tsig := some ⟨mode, reservedLen mode rr, rr⟩ }

/-- the condition under which `set_tsig` succeeds -/
def TsigFits (s : State) (mode : TsigMode) (rr : TsigRr) : Prop :=
  s.tsig = none ∧ s.cursor + reservedLen mode rr ≤ s.available ∧ s.arcount + 1 ≤ 65535

instance (s : State) (mode : TsigMode) (rr : TsigRr) : Decidable (TsigFits s mode rr) := by
  unfold TsigFits; infer_instance

theorem setTsig_eq (mode : TsigMode) (rr : TsigRr) (s : State) :
    setTsig mode rr s =
      if s.tsig.isSome then (.err .AlreadyTsig, s)
      else if s.cursor + reservedLen mode rr > s.available then (.err .Truncation, s)
      else if s.arcount + 1 > 65535 then (.err .CountOverflow, s)
      else (.ok (), withTsig s mode rr) := by
  cases mode <;> rfl

theorem setTsig_fits (mode : TsigMode) (rr : TsigRr) (s : State) (h : TsigFits s mode rr) :
    setTsig mode rr s = (.ok (), withTsig s mode rr) := by
  obtain ⟨h0, h1, h2⟩ := h
  rw [setTsig_eq, if_neg (by simp [h0]), if_neg (by omega), if_neg (by omega)]

theorem setTsig_nofit (mode : TsigMode) (rr : TsigRr) (s : State) (h : ¬ TsigFits s mode rr) :
    ∃ e, setTsig mode rr s = (.err e, s) := by
  rw [setTsig_eq]
  by_cases h0 : s.tsig.isSome
  · exact ⟨.AlreadyTsig, by simp [h0]⟩
  · by_cases h1 : s.cursor + reservedLen mode rr > s.available
    · exact ⟨.Truncation, by simp [h0, h1]⟩
    · by_cases h2 : s.arcount + 1 > 65535
      · exact ⟨.CountOverflow, by simp [h0, h1, h2]⟩
      · exfalso; apply h
        refine ⟨?_, by omega, by omega⟩
        cases ht : s.tsig <;> simp_all

/-- **`set_tsig_or_truncate`, the RR fits**: it is recorded, ARCOUNT counts it, its room is reserved -/
theorem setTsigOrTruncate_fits (mode : TsigMode) (rr : TsigRr) (s : State) (h : TsigFits s mode rr) :
    setTsigOrTruncate mode rr s = (.ok true, withTsig s mode rr) := by
  unfold setTsigOrTruncate; rw [setTsig_fits mode rr s h]

/-- **`set_tsig_or_truncate`, the RR does not fit** (the repair of D03): no panic, no TSIG, TC set,
    RCODE NOERROR; nothing but the header changes -/
theorem setTsigOrTruncate_nofit (mode : TsigMode) (rr : TsigRr) (s : State) (hs : 12 ≤ s.octets.size)
    (h : ¬ TsigFits s mode rr) :
    ∃ s', setTsigOrTruncate mode rr s = (.ok false, s') ∧ HeaderOnly s s' ∧ getRcode s' = 0 ∧
      getBit s' Gen.TC_BYTE Gen.TC_MASK = true := by
  obtain ⟨e, he⟩ := setTsig_nofit mode rr s h
  obtain ⟨s1, h1, f1, r1, _⟩ := setRcode_spec 0 (by omega) s hs
  obtain ⟨s2, h2, f2, t2, _, k2⟩ := setTc_spec s1 (by rw [f1.size]; exact hs)
  refine ⟨s2, ?_, f1.trans f2, ?_, t2⟩
  · unfold setTsigOrTruncate; rw [he]
    simp only [rc_noerror, bind, h1, h2]; rfl
  · have := k2 Gen.RCODE_BYTE (by decide)
    unfold getRcode at *; rw [this]; exact r1

/-- `set_tsig_or_truncate` never panics on a writer whose buffer holds a header -/
theorem setTsigOrTruncate_no_panic (mode : TsigMode) (rr : TsigRr) (s : State) (hs : 12 ≤ s.octets.size) :
    (setTsigOrTruncate mode rr s).1 ≠ .panic := by
  by_cases h : TsigFits s mode rr
  · rw [setTsigOrTruncate_fits mode rr s h]; simp
  · obtain ⟨s', h', _⟩ := setTsigOrTruncate_nofit mode rr s hs h
    rw [h']; simp

/-! ### the decision table of the TSIG branch -/

/-- what `PreparedTsigRr::new_from_read(tsig_rr, now, TSIG_FUDGE, error)` yields for key name `kn` -/
def prepOf (kn : WName) (r : Tsig.ReadTsigRr) (nowT : Tsig.TimeSigned) (error : Nat) : TsigRr :=
  ⟨kn, if error = 18 then (Tsig.ReadTsigRr.timeSigned r).asSlice else nowT.asSlice, 300,
   (Tsig.ReadTsigRr.originalId r).toNat, error, nowT.asSlice⟩

theorem preparedFromRead_eq (kn : WName) (r : Tsig.ReadTsigRr) (nowT : Tsig.TimeSigned) (error : Nat)
    (hkn : WName.parse r.keyName = some (kn, [])) :
    preparedFromRead r nowT error = some (prepOf kn r nowT error) := by
  unfold preparedFromRead prepOf
  rw [hkn]; simp [xrc_badtime, Gen.TSIG_FUDGE]

/-- the observable effect of one TSIG reply on the writer: RCODE `rc` is set; then either the TSIG RR
    (`mode`, `rr`) is recorded and the step returns `res`, or — it does not fit — the response
    degrades to TC / NOERROR without TSIG and the step returns `none` (stop) -/
def Responds (s : State) (rc : Nat) (mode : TsigMode) (rr : TsigRr) (res : Option Reader.Reader)
    (out : Out WriterErr (Option Reader.Reader) × State) : Prop :=
  ∃ s1, HeaderOnly s s1 ∧ getRcode s1 = rc ∧
    ((TsigFits s mode rr ∧ out = (.ok res, withTsig s1 mode rr)) ∨
     (¬ TsigFits s mode rr ∧ ∃ s', out = (.ok none, s') ∧ HeaderOnly s s' ∧ getRcode s' = 0 ∧
        getBit s' Gen.TC_BYTE Gen.TC_MASK = true))

theorem tsigFits_congr {s s1 : State} (h : HeaderOnly s s1) (mode : TsigMode) (rr : TsigRr) :
    TsigFits s1 mode rr ↔ TsigFits s mode rr := by
  unfold TsigFits; rw [h.tsig, h.cursor, h.available, h.arcount]

theorem respond_tail (s : State) (hs : 12 ≤ s.octets.size) (rc : Nat) (hrc : rc < 16) (mode : TsigMode)
    (rr : TsigRr) (b : Bool) (r' : Reader.Reader) :
    Responds s rc mode rr (if b then some r' else none)
      ((do setRcode rc
           let added ← setTsigOrTruncate mode rr
           if added && b then pure (some r') else pure none : M (Option Reader.Reader)) s) := by
  obtain ⟨s1, h1, f1, r1, _⟩ := setRcode_spec rc hrc s hs
  refine ⟨s1, f1, r1, ?_⟩
  by_cases hf : TsigFits s mode rr
  · left
    refine ⟨hf, ?_⟩
    have hf1 := (tsigFits_congr f1 mode rr).mpr hf
    simp only [bind, h1, setTsigOrTruncate_fits mode rr s1 hf1]
    cases b <;> rfl
  · right
    refine ⟨hf, ?_⟩
    have hf1 : ¬ TsigFits s1 mode rr := fun h => hf ((tsigFits_congr f1 mode rr).mp h)
    obtain ⟨s', h', f', r0, tc⟩ := setTsigOrTruncate_nofit mode rr s1 (by rw [f1.size]; exact hs) hf1
    refine ⟨s', ?_, f1.trans f', r0, tc⟩
    simp only [bind, h1, h']
    rfl

theorem tsigBadKey_spec (s : State) (hs : 12 ≤ s.octets.size) (r : Tsig.ReadTsigRr) (nowT : Tsig.TimeSigned)
    (kn an : WName) (hkn : WName.parse r.keyName = some (kn, [])) (han : WName.parse r.algorithm = some (an, [])) :
    Responds s 9 (.unsigned an) (prepOf kn r nowT 17) none (tsigBadKey r nowT s) := by
  unfold tsigBadKey
  rw [rc_notauth, xrc_badkey]
  obtain ⟨s1, h1, f1, r1, _⟩ := setRcode_spec 9 (by omega) s hs
  refine ⟨s1, f1, r1, ?_⟩
  by_cases hf : TsigFits s (.unsigned an) (prepOf kn r nowT 17)
  · left
    refine ⟨hf, ?_⟩
    have hf1 := (tsigFits_congr f1 _ _).mpr hf
    simp only [bind, h1, han, preparedFromRead_eq kn r nowT _ hkn, setTsigOrTruncate_fits _ _ s1 hf1]
    rfl
  · right
    refine ⟨hf, ?_⟩
    have hf1 : ¬ TsigFits s1 (.unsigned an) (prepOf kn r nowT 17) := fun h => hf ((tsigFits_congr f1 _ _).mp h)
    obtain ⟨s', h', f', r0, tc⟩ := setTsigOrTruncate_nofit _ _ s1 (by rw [f1.size]; exact hs) hf1
    refine ⟨s', ?_, f1.trans f', r0, tc⟩
    simp only [bind, h1, han, preparedFromRead_eq kn r nowT _ hkn, h']
    rfl

/-- `verify_tsig_and_write_tsig_rr` for each outcome of `verify_request` -/
theorem tsigVerifyAndWrite_spec (hm : Tsig.Algorithm → Tsig.Octets → Tsig.Octets → Tsig.Octets)
    (s : State) (hs : 12 ≤ s.octets.size) (r : Tsig.ReadTsigRr) (msg : List UInt8) (alg : Hmac.Alg)
    (secret : List UInt8) (nowT : Tsig.TimeSigned) (r' : Reader.Reader) (kn : WName)
    (hkn : WName.parse r.keyName = some (kn, [])) :
    match Tsig.verifyRequest hm r msg alg secret nowT with
    | .ok () => Responds s 0 (.response (toWriterAlg alg) (Tsig.ReadTsigRr.mac r) secret) (prepOf kn r nowT 0) (some r')
                  (tsigVerifyAndWrite hm r msg alg secret nowT r' s)
    | .err .FormErr => Responds s 1 (.unsigned (algName (toWriterAlg alg))) (prepOf kn r nowT 16) none
                  (tsigVerifyAndWrite hm r msg alg secret nowT r' s)
    | .err .BadSig => Responds s 9 (.unsigned (algName (toWriterAlg alg))) (prepOf kn r nowT 16) none
                  (tsigVerifyAndWrite hm r msg alg secret nowT r' s)
    | .err .BadTime => Responds s 9 (.response (toWriterAlg alg) (Tsig.ReadTsigRr.mac r) secret) (prepOf kn r nowT 18) none
                  (tsigVerifyAndWrite hm r msg alg secret nowT r' s)
    | .panic => (tsigVerifyAndWrite hm r msg alg secret nowT r' s).1 = .panic := by
  unfold tsigVerifyAndWrite
  rcases hv : Tsig.verifyRequest hm r msg alg secret nowT with u | e | _
  · cases u
    simp only [tsigReply, preparedFromRead_eq kn r nowT _ hkn, rc_noerror, xrc_noerror]
    have := respond_tail s hs 0 (by omega) (.response (toWriterAlg alg) (Tsig.ReadTsigRr.mac r) secret) (prepOf kn r nowT 0) true r'
    simpa using this
  · cases e
    · simp only [tsigReply, preparedFromRead_eq kn r nowT _ hkn, rc_noerror, rc_notauth, xrc_badsig]
      have := respond_tail s hs 9 (by omega) (.unsigned (algName (toWriterAlg alg))) (prepOf kn r nowT 16) false r'
      simpa using this
    · simp only [tsigReply, preparedFromRead_eq kn r nowT _ hkn, rc_noerror, rc_notauth, xrc_badtime]
      have := respond_tail s hs 9 (by omega) (.response (toWriterAlg alg) (Tsig.ReadTsigRr.mac r) secret) (prepOf kn r nowT 18) false r'
      simpa using this
    · simp only [tsigReply, preparedFromRead_eq kn r nowT _ hkn, rc_noerror, rc_formerr, xrc_badsig]
      have := respond_tail s hs 1 (by omega) (.unsigned (algName (toWriterAlg alg))) (prepOf kn r nowT 16) false r'
      simpa using this
  · simp [tsigReply]

/-- **The decision table of the TSIG branch**, in the code's precedence: unknown algorithm ⇒
    BADKEY; key unknown or configured for another algorithm ⇒ BADKEY; then whatever
    `verify_request` says: FORMERR (MAC size), BADSIG, BADTIME, or authenticated. -/
theorem tsigProcess_table (hm : Tsig.Algorithm → Tsig.Octets → Tsig.Octets → Tsig.Octets) (keys : List Key)
    (s : State) (hs : 12 ≤ s.octets.size) (r : Tsig.ReadTsigRr) (msg : List UInt8)
    (nowT : Tsig.TimeSigned) (r' : Reader.Reader) (kn an : WName)
    (hkn : WName.parse r.keyName = some (kn, [])) (han : WName.parse r.algorithm = some (an, [])) :
    let out := tsigProcess hm keys nowT r msg r' s
    match Tsig.Algorithm.fromName r.algorithm with
    | none => Responds s 9 (.unsigned an) (prepOf kn r nowT 17) none out
    | some alg =>
      match findKey keys r.keyName alg with
      | none => Responds s 9 (.unsigned an) (prepOf kn r nowT 17) none out
      | some key =>
        match Tsig.verifyRequest hm r msg alg key.secret nowT with
        | .ok () => Responds s 0 (.response (toWriterAlg alg) (Tsig.ReadTsigRr.mac r) key.secret) (prepOf kn r nowT 0) (some r') out
        | .err .FormErr => Responds s 1 (.unsigned (algName (toWriterAlg alg))) (prepOf kn r nowT 16) none out
        | .err .BadSig => Responds s 9 (.unsigned (algName (toWriterAlg alg))) (prepOf kn r nowT 16) none out
        | .err .BadTime => Responds s 9 (.response (toWriterAlg alg) (Tsig.ReadTsigRr.mac r) key.secret) (prepOf kn r nowT 18) none out
        | .panic => out.1 = .panic := by
  intro out
  unfold out tsigProcess
  cases ha : Tsig.Algorithm.fromName r.algorithm with
  | none => exact tsigBadKey_spec s hs r nowT kn an hkn han
  | some alg =>
    dsimp only
    cases hk : findKey keys r.keyName alg with
    | none => exact tsigBadKey_spec s hs r nowT kn an hkn han
    | some key => exact tsigVerifyAndWrite_spec hm s hs r msg alg key.secret nowT r' kn hkn

open QV.Tsig in
theorem fromName_some (n : Octets) (alg : Algorithm) (h : Algorithm.fromName n = some alg) : lowerName n = alg.name := by
  unfold Algorithm.fromName at h
  by_cases h1 : lowerName n = hmacSha1Name
  · rw [if_pos h1] at h; cases h; exact h1
  · by_cases h2 : lowerName n = hmacSha256Name
    · rw [if_neg h1, if_pos h2] at h; cases h; exact h2
    · rw [if_neg h1, if_neg h2] at h; cases h

/-- `findKey`: the key map has an entry under that name, and it is for that algorithm -/
theorem findKey_some_iff (keys : List Key) (kn : List UInt8) (alg : Hmac.Alg) (key : Key) :
    findKey keys kn alg = some key ↔ keys.find? (fun k => k.name == kn) = some key ∧ key.alg = alg := by
  unfold findKey
  cases h : keys.find? (fun k => k.name == kn) with
  | none => simp
  | some k =>
    by_cases ha : k.alg = alg
    · simp [ha]; intro e; subst e; exact ha
    · simp [ha]; intro e; subst e; exact ha

theorem Responds.some_inv {s : State} {rc : Nat} {mode : TsigMode} {rr : TsigRr} {res : Option Reader.Reader}
    {out : Out WriterErr (Option Reader.Reader) × State} (h : Responds s rc mode rr res out)
    {x : Reader.Reader} {s' : State} (ho : out = (.ok (some x), s')) :
    res = some x ∧ TsigFits s mode rr ∧ ∃ s1, HeaderOnly s s1 ∧ getRcode s1 = rc ∧ s' = withTsig s1 mode rr := by
  obtain ⟨s1, f1, r1, h⟩ := h
  rcases h with ⟨hf, h⟩ | ⟨_, s2, h, _⟩
  · rw [ho] at h
    injection h with ha hb
    injection ha with ha
    exact ⟨ha.symm, hf, s1, f1, r1, hb⟩
  · rw [ho] at h
    injection h with ha _
    injection ha with ha
    cases ha

theorem Responds.none_out {s : State} {rc : Nat} {mode : TsigMode} {rr : TsigRr}
    {out : Out WriterErr (Option Reader.Reader) × State} (h : Responds s rc mode rr none out) :
    ∃ s', out = (.ok none, s') := by
  obtain ⟨s1, _, _, h⟩ := h
  rcases h with ⟨_, h⟩ | ⟨_, s2, h, _⟩
  · exact ⟨_, h⟩
  · exact ⟨_, h⟩

/-! ### the response MAC -/

open QV.Tsig

theorem asSlice_ofList (l : Octets) (h : l.length = 6) : (TimeSigned.ofList l).asSlice = l := by
  match l, h with
  | [a, b, c, d, e, f], _ => rfl

theorem toUnix_ofList (l : Octets) (h : l.length = 6) : (TimeSigned.ofList l).toUnix = Spec.Tsig.nat48 l := by
  match l, h with
  | [a, b, c, d, e, f], _ =>
    simp [TimeSigned.ofList, TimeSigned.toUnix, Spec.Tsig.nat48]
    omega

theorem canonName_lower (kl : List Octets) (h : ∀ l ∈ kl, l.map Spec.Tsig.lower = l) :
    Spec.Tsig.canonName kl = (⟨kl⟩ : WName).wire := by
  unfold Spec.Tsig.canonName WName.wire
  congr 1
  induction kl with
  | nil => rfl
  | cons a t ih =>
    simp only [List.flatMap_cons]
    rw [ih (fun l hl => h l (List.mem_cons_of_mem _ hl)), h a (List.mem_cons_self ..)]
    rfl

/-- labels of the algorithm's name (RFC 8945 §6) -/
def algLabels : Hmac.Alg → List Octets
  | .HmacSha1 => (Spec.Tsig.algorithms.getD 0 ([], 0)).1
  | .HmacSha256 => (Spec.Tsig.algorithms.getD 1 ([], 0)).1

theorem canonName_algLabels (alg : Hmac.Alg) : Spec.Tsig.canonName (algLabels alg) = Algorithm.name alg := by
  cases alg <;> decide

theorem ofNat16_eq_iff (a b : Nat) (ha : a < 65536) (hb : b < 65536) : UInt16.ofNat a = UInt16.ofNat b ↔ a = b := by
  constructor
  · intro h
    have := congrArg UInt16.toNat h
    simp [UInt16.toNat_ofNat'] at this
    omega
  · intro h; rw [h]

/-- the RFC 8945 variables of the response TSIG recorded in the writer -/
def respVars (rr : TsigRr) (alg : Hmac.Alg) : Spec.Tsig.Vars :=
  { keyName := rr.keyName.labels, algName := algLabels alg, timeSigned := Spec.Tsig.nat48 rr.timeSigned,
    fudge := rr.fudge, error := rr.error, other := if rr.error = 18 then rr.serverTime else [] }

def ofWriterAlg : Writer.Alg → Hmac.Alg
  | .hmacSha1 => .HmacSha1
  | .hmacSha256 => .HmacSha256

/-- a prepared TSIG RR as `new_from_read` builds it: lower-case key name, 48-bit times, 16-bit fields -/
structure RrWF (rr : TsigRr) : Prop where
  lower : ∀ l ∈ rr.keyName.labels, l.map Spec.Tsig.lower = l
  time : rr.timeSigned.length = 6
  server : rr.serverTime.length = 6
  fudge : rr.fudge < 65536
  origId : rr.originalId < 65536
  error : rr.error < 65536

/-- the `PreparedTsigRr` the writer hands to `sign_response` -/
def prepW (rr : TsigRr) : PreparedTsigRr :=
  { keyName := rr.keyName.wire, timeSigned := TimeSigned.ofList rr.timeSigned,
    fudge := UInt16.ofNat rr.fudge, originalId := UInt16.ofNat rr.originalId,
    error := UInt16.ofNat rr.error, serverTime := TimeSigned.ofList rr.serverTime }

theorem macFnWith_response (hm : Algorithm → Octets → Octets → Octets) (ts : Writer.Tsig) (message : List UInt8)
    (alg : Writer.Alg) (requestMac key : List UInt8) (hmode : ts.mode = .response alg requestMac key) :
    macFnWith hm ts message =
      match signResponse (ε := Unit) hm (prepW ts.rr) message requestMac (ofWriterAlg alg) key with
      | .ok (_, mac) => mac
      | _ => [] := by
  unfold macFnWith
  rw [hmode]
  cases alg <;> rfl

theorem prepW_abstracts (rr : TsigRr) (wf : RrWF rr) (alg : Hmac.Alg) :
    Abstracts ((prepW rr).vars (Algorithm.name alg)) (respVars rr alg) := by
  constructor
  · show rr.keyName.wire = _
    rw [respVars, canonName_lower _ wf.lower]
  · show Algorithm.name _ = _
    rw [respVars, canonName_algLabels]
  · rfl
  · rfl
  · show (TimeSigned.ofList rr.timeSigned).toUnix = _
    rw [toUnix_ofList _ wf.time]; rfl
  · show (UInt16.ofNat rr.fudge).toNat = _
    simp [respVars, UInt16.toNat_ofNat']; have := wf.fudge; omega
  · show (UInt16.ofNat rr.error).toNat = _
    simp [respVars, UInt16.toNat_ofNat']; have := wf.error; omega
  · show PreparedTsigRr.other _ = _
    unfold PreparedTsigRr.other respVars BADTIME prepW
    dsimp only
    have h18 : Gen.XRCODE_BADTIME = 18 := by decide
    rw [h18]
    by_cases he : rr.error = 18
    · rw [if_pos he, if_pos (by rw [he]), asSlice_ofList _ wf.server]
    · rw [if_neg he, if_neg]
      intro h
      exact he ((ofNat16_eq_iff _ _ wf.error (by omega)).mp h)

theorem macFnWith_eq_rfc (hm : Algorithm → Octets → Octets → Octets) (ts : Writer.Tsig) (message : List UInt8)
    (alg : Writer.Alg) (requestMac key : List UInt8) (hmode : ts.mode = .response alg requestMac key)
    (wf : RrWF ts.rr) (hreq : requestMac.length ≤ 65535) (hmsg : MsgOk message)
    (hlen : ∀ d, (hm (ofWriterAlg alg) key d).length ≤ 65000) :
    macFnWith hm ts message =
      hm (ofWriterAlg alg) key
        (Spec.Tsig.digestInput .response message ts.rr.originalId (respVars ts.rr (ofWriterAlg alg)) requestMac) := by
  rw [macFnWith_response hm ts message alg requestMac key hmode]
  have hid : (prepW ts.rr).originalId.toNat = ts.rr.originalId := by
    simp [prepW, UInt16.toNat_ofNat']; have := wf.origId; omega
  have := signMode_eq (ε := Unit) hm .response (prepW ts.rr) message requestMac (ofWriterAlg alg) key
    (respVars ts.rr (ofWriterAlg alg)) (prepW_abstracts ts.rr wf _) (hlen _)
  have hs : signMode (ε := Unit) hm .response (prepW ts.rr) message requestMac (ofWriterAlg alg) key =
      signResponse hm (prepW ts.rr) message requestMac (ofWriterAlg alg) key := rfl
  rw [hs, if_pos ⟨hreq, hmsg⟩] at this
  rw [this, hid]

/-! ### the scan writes no record -/

/-- what the scan of the request never touches: the record area of the response -/
structure ScanFrame (s s' : State) : Prop where
  cursor : s'.cursor = s.cursor
  rrStart : s'.rrStart = s.rrStart
  sect : s'.sect = s.sect
  qdcount : s'.qdcount = s.qdcount
  ancount : s'.ancount = s.ancount
  nscount : s'.nscount = s.nscount
  size : s'.octets.size = s.octets.size

theorem ScanFrame.refl (s : State) : ScanFrame s s := ⟨rfl, rfl, rfl, rfl, rfl, rfl, rfl⟩
theorem ScanFrame.trans {a b c : State} (h1 : ScanFrame a b) (h2 : ScanFrame b c) : ScanFrame a c :=
  ⟨h2.cursor.trans h1.cursor, h2.rrStart.trans h1.rrStart, h2.sect.trans h1.sect, h2.qdcount.trans h1.qdcount,
   h2.ancount.trans h1.ancount, h2.nscount.trans h1.nscount, h2.size.trans h1.size⟩
theorem HeaderOnly.scanFrame {s s' : State} (h : HeaderOnly s s') : ScanFrame s s' :=
  ⟨h.cursor, h.rrStart, h.sect, h.qdcount, h.ancount, h.nscount, h.size⟩

/-- a writer operation that leaves the record area alone, whatever its outcome -/
def Fr {α} (m : M α) : Prop := ∀ s, ScanFrame s (m s).2

theorem Fr.pure {α} (a : α) : Fr (pure a : M α) := fun s => ScanFrame.refl s

theorem Fr.bind {α β} {x : M α} {f : α → M β} (hx : Fr x) (hf : ∀ a, Fr (f a)) : Fr (x >>= f) := by
  intro s
  show ScanFrame s ((match x s with
    | (.ok a, s') => f a s'
    | (.err e, s') => (.err e, s')
    | (.panic, s') => (.panic, s')).2)
  have h1 := hx s
  rcases hxs : x s with ⟨r, s1⟩
  rw [hxs] at h1
  cases r with
  | ok a => exact h1.trans (hf a s1)
  | err e => exact h1
  | panic => exact h1

theorem Fr.setHdr (i : Nat) (f : UInt8 → UInt8) : Fr (setHdr i f) := by
  intro s; unfold Writer.setHdr
  split
  · constructor <;> simp
  · exact ScanFrame.refl s

theorem Fr.modify (f : State → State) (h : ∀ s, ScanFrame s (f s)) : Fr (M.modify f) := fun s => h s

theorem Fr.setRcode (rc : Nat) : Fr (setRcode rc) := by
  unfold Writer.setRcode
  apply Fr.bind (Fr.setHdr _ _)
  intro _
  apply Fr.modify
  intro s; cases h : s.edns <;> constructor <;> simp

theorem Fr.setTc (v : Bool) : Fr (setTc v) := Fr.setHdr _ _

theorem Fr.setEdns (p : Nat) : Fr (setEdns p) := by
  intro s; unfold Writer.setEdns
  split
  · exact ScanFrame.refl s
  · split
    · exact ScanFrame.refl s
    · split
      · exact ScanFrame.refl s
      · constructor <;> simp

theorem Fr.setLimit (n : Nat) : Fr (setLimit n) := by
  intro s; unfold Writer.setLimit
  dsimp only
  repeat' split
  all_goals first | exact ScanFrame.refl s | (constructor <;> simp)

theorem Fr.setExtendedRcode (raw : Nat) : Fr (setExtendedRcode raw) := by
  intro s; unfold Writer.setExtendedRcode
  split
  · split
    · exact ScanFrame.refl s
    · have h := Fr.setHdr Gen.RCODE_BYTE (fun b => (b &&& ~~~ (UInt8.ofNat Gen.RCODE_MASK)) |||
              (UInt8.ofNat (raw % 256) &&& UInt8.ofNat Gen.RCODE_MASK)) s
      split
      · rename_i s' heq
        rw [heq] at h
        exact ⟨h.cursor, h.rrStart, h.sect, h.qdcount, h.ancount, h.nscount, h.size⟩
      · rename_i r hne
        exact h
  · exact ScanFrame.refl s

theorem Fr.unwrap {α} {m : M α} (h : Fr m) : Fr (Writer.unwrap m) := by
  intro s; unfold Writer.unwrap
  have := h s
  split
  · rename_i e s' heq; rw [heq] at this; exact this
  · exact this

theorem Fr.setTsig (mode : TsigMode) (rr : TsigRr) : Fr (setTsig mode rr) := by
  intro s; rw [setTsig_eq]
  repeat' split
  all_goals first | exact ScanFrame.refl s | (constructor <;> simp [withTsig])

theorem Fr.setTsigOrTruncate (mode : TsigMode) (rr : TsigRr) : Fr (setTsigOrTruncate mode rr) := by
  intro s; unfold Server.setTsigOrTruncate
  have h := Fr.setTsig mode rr s
  split
  · rename_i s' heq; rw [heq] at h; exact h
  · rename_i e s' heq; rw [heq] at h
    refine h.trans ?_
    exact (Fr.bind (Fr.setRcode _) (fun _ => Fr.bind (Fr.setTc _) (fun _ => Fr.pure _))) s'
  · rename_i s' heq; rw [heq] at h; exact h

theorem Fr.panic {α} : Fr (M.panic : M α) := fun s => ScanFrame.refl s

theorem Fr.const {α} (r : Out WriterErr α) : Fr (fun s => (r, s)) := fun s => ScanFrame.refl s

theorem Fr.tsigBadKey (r : ReadTsigRr) (nowT : TimeSigned) : Fr (tsigBadKey r nowT) := by
  unfold Server.tsigBadKey
  apply Fr.bind (Fr.setRcode _)
  intro _
  split
  · exact Fr.bind (Fr.setTsigOrTruncate _ _) (fun _ => Fr.pure _)
  · exact Fr.panic

theorem Fr.tsigVerifyAndWrite (hm : Algorithm → Octets → Octets → Octets) (r : ReadTsigRr) (msg : List UInt8)
    (alg : Hmac.Alg) (secret : List UInt8) (nowT : TimeSigned) (r' : Reader.Reader) :
    Fr (tsigVerifyAndWrite hm r msg alg secret nowT r') := by
  intro s
  unfold Server.tsigVerifyAndWrite
  split
  · split
    · refine (Fr.bind (Fr.setRcode _) (fun _ => Fr.bind (Fr.setTsigOrTruncate _ _) (fun added => ?_))) s
      split
      · exact Fr.pure _
      · exact Fr.pure _
    · exact ScanFrame.refl s
  · exact ScanFrame.refl s

theorem Fr.tsigProcess (hm : Algorithm → Octets → Octets → Octets) (keys : List Key) (nowT : TimeSigned)
    (r : ReadTsigRr) (msg : List UInt8) (r' : Reader.Reader) : Fr (tsigProcess hm keys nowT r msg r') := by
  unfold Server.tsigProcess
  split
  · exact Fr.tsigBadKey _ _
  · split
    · exact Fr.tsigBadKey _ _
    · exact Fr.tsigVerifyAndWrite _ _ _ _ _ _ _

theorem Fr.formErr {α} (a : α) : Fr (Writer.setRcode (RC "FORMERR") >>= fun _ => (Pure.pure a : M α)) :=
  Fr.bind (Fr.setRcode _) (fun _ => Fr.pure _)

theorem Fr.handleTsig (cfg : Cfg) (now : Nat) (p : Reader.PeekRr) (raw : Nat) : Fr (handleTsig cfg now p raw) := by
  intro s
  unfold Server.handleTsig
  repeat' split
  all_goals first
    | exact ScanFrame.refl s
    | exact Fr.formErr _ s
    | exact Fr.tsigProcess _ _ _ _ _ _ s

/-- the tail of the OPT arm of the scan (`set_limit`, `validate_opt`, continue) -/
theorem Fr.optTail (tr : Transport) (lim : Nat) (c1 c2 : Prop) [Decidable c1] [Decidable c2]
    (k : M (Option ScanSt)) (hk : Fr k) :
    Fr (do
      if tr = Transport.udp then Writer.setLimit lim else Pure.pure ()
      if c1 then do
        Writer.unwrap (Writer.setExtendedRcode (XRC "FORMERR"))
        Pure.pure none
      else if c2 then do
        Writer.unwrap (Writer.setExtendedRcode (XRC "BADVERSBADSIG"))
        Pure.pure none
      else k : M (Option ScanSt)) := by
  by_cases htr : tr = Transport.udp <;> by_cases h1 : c1 <;> by_cases h2 : c2 <;>
    simp only [htr, h1, h2, if_true, if_false] <;>
    first
      | exact Fr.bind (Fr.setLimit _) (fun _ => Fr.bind (Fr.unwrap (Fr.setExtendedRcode _)) (fun _ => Fr.pure _))
      | exact Fr.bind (Fr.pure _) (fun _ => Fr.bind (Fr.unwrap (Fr.setExtendedRcode _)) (fun _ => Fr.pure _))
      | exact Fr.bind (Fr.unwrap (Fr.setExtendedRcode _)) (fun _ => Fr.pure _)
      | exact Fr.bind (Fr.setLimit _) (fun _ => hk)
      | exact Fr.bind (Fr.pure _) (fun _ => hk)
      | exact hk

/-- **the scan of the additional section writes no record**, whatever it finds and however it ends -/
theorem Fr.scanAr (cfg : Cfg) (tr : Transport) (now arcount : Nat) :
    ∀ (n index : Nat) (st : ScanSt), Fr (scanAr cfg tr now arcount n index st) := by
  intro n
  induction n with
  | zero => intro index st; unfold Server.scanAr; exact Fr.pure _
  | succ n ih =>
    intro index st s
    unfold Server.scanAr
    split
    · rename_i p hp
      split
      · split
        · split
          · exact Fr.formErr _ s
          · have hE := Fr.setEdns cfg.payload s
            split
            · rename_i s1 heq; rw [heq] at hE
              split
              · split
                · exact hE.trans (Fr.optTail tr _ _ _ _ (ih _ _) s1)
                · exact hE.trans (Fr.formErr _ s1)
                · exact hE
              · exact hE
            · rename_i e s1 heq; rw [heq] at hE
              exact hE.trans ((Fr.bind (Fr.setRcode _) (fun _ => Fr.pure _)) s1)
            · rename_i s1 heq; rw [heq] at hE; exact hE
        · split
          · split
            · exact Fr.formErr _ s
            · split
              · rename_i raw hraw
                have hT := Fr.handleTsig cfg now p raw s
                split
                · rename_i r' s1 heq; rw [heq] at hT; exact hT.trans (ih _ _ s1)
                · rename_i s1 heq; rw [heq] at hT; exact hT
                · rename_i e s1 heq; rw [heq] at hT; exact hT
                · rename_i s1 heq; rw [heq] at hT; exact hT
              · exact ScanFrame.refl s
          · exact ih _ _ s
      · exact ScanFrame.refl s
    · exact Fr.formErr _ s
    · exact ScanFrame.refl s


/-! ### scan phase and dispatch -/

/-- `handle_message_with_context` up to (not including) the opcode dispatch: question, pre-scan of
    answer + authority, scan of the additional section (OPT, TSIG), end-of-message test.
    Same text as the first part of `Server.handleWithContext`; `handleWithContext_eq` ties them. -/
def scanPhase (cfg : Cfg) (tr : Transport) (now : Nat) (r0 : Reader.Reader) : M ScanEnd := fun s =>
  match Reader.qdcount r0, Reader.ancount r0, Reader.nscount r0, Reader.arcount r0, Reader.opcode r0 with
  | .ok qd, .ok an, .ok ns, .ok ar, .ok _ =>
    let qres : Option (Option (WName × Nat × Nat) × Reader.Reader) × Bool × Option Nat :=
      if qd = 0 then (some (none, r0), true, none)
      else if qd = 1 then
        match Reader.readQuestion r0 with
        | (.ok q, r1) =>
          match WName.parse q.qname with
          | some (qn, []) => (some (some (qn, q.qtype, q.qclass), r1), true, none)
          | _ => (none, true, some 255)
        | (.err _, _) => (none, true, some (RC "FORMERR"))
        | (.panic, _) => (none, true, some 255)
      else (none, false, none)
    match qres with
    | (none, false, _) => (.ok ScanEnd.noResponse, s)
    | (none, true, some 255) => (.panic, s)
    | (none, true, rc) => (do setRcode (rc.getD 0); pure ScanEnd.stop) s
    | (some (question, r1), _, _) =>
      let addQ : M Bool := match question with
        | some (qn, qt, qc) => fun s =>
          match addQuestion qn qt qc s with
          | (.ok (), s') => (.ok true, s')
          | (.err _, s') => (do setRcode (RC "SERVFAIL"); pure false) s'
          | (.panic, s') => (.panic, s')
        | none => pure true
      (do
        let okQ ← addQ
        if !okQ then pure ScanEnd.stop
        else
          let r2 := Reader.setMark r1
          match scanAnNs (an + ns) r2 with
          | none => do setRcode (RC "FORMERR"); pure ScanEnd.stop
          | some r3 => do
            let st ← scanAr cfg tr now ar ar 0 { r := r3 }
            match st with
            | none => pure ScanEnd.stop
            | some st' =>
              if !Reader.atEom st'.r then do setRcode (RC "FORMERR"); pure ScanEnd.stop
              else pure (ScanEnd.proceed question)) s
  | _, _, _, _, _ => (.panic, s)

/-- the opcode dispatch of `handle_message_with_context`; result = `send_response` -/
def dispatch (cfg : Cfg) (tr : Transport) (opcode : Nat) : ScanEnd → M Bool
  | .stop => pure true
  | .noResponse => pure false
  | .proceed question => do
    if opcode = 0 then handleQuery cfg question tr else setRcode (RC "NOTIMP")
    pure true

/-- sequencing of the two phases (the `bind` of the writer monad, spelled out) -/
def andThen {α β} (r : Out WriterErr α × State) (f : α → M β) : Out WriterErr β × State :=
  match r with
  | (.ok a, s') => f a s'
  | (.err e, s') => (.err e, s')
  | (.panic, s') => (.panic, s')

theorem tail_eq (cfg : Cfg) (tr : Transport) (now an ns ar opcode : Nat) (question : Option (WName × Nat × Nat))
    (r1 : Reader.Reader) (addQ : M Bool) (s : State) :
    (do
        let okQ ← addQ
        if !okQ then pure true
        else
          let r2 := Reader.setMark r1
          match scanAnNs (an + ns) r2 with
          | none => do setRcode (RC "FORMERR"); pure true
          | some r3 => do
            let st ← scanAr cfg tr now ar ar 0 { r := r3 }
            match st with
            | none => pure true
            | some st' =>
              if !Reader.atEom st'.r then do setRcode (RC "FORMERR"); pure true
              else do
                if opcode = 0 then handleQuery cfg question tr else setRcode (RC "NOTIMP")
                pure true : M Bool) s =
      andThen ((do
        let okQ ← addQ
        if !okQ then pure ScanEnd.stop
        else
          let r2 := Reader.setMark r1
          match scanAnNs (an + ns) r2 with
          | none => do setRcode (RC "FORMERR"); pure ScanEnd.stop
          | some r3 => do
            let st ← scanAr cfg tr now ar ar 0 { r := r3 }
            match st with
            | none => pure ScanEnd.stop
            | some st' =>
              if !Reader.atEom st'.r then do setRcode (RC "FORMERR"); pure ScanEnd.stop
              else pure (ScanEnd.proceed question) : M ScanEnd) s) (dispatch cfg tr opcode) := by
  simp only [bind]
  rcases hq : addQ s with ⟨rq, s1⟩
  rcases rq with okQ | e | _
  · cases okQ
    · simp [andThen, dispatch, pure]
    · simp only [Bool.not_true, Bool.false_eq_true, if_false]
      rcases hs : scanAnNs (an + ns) (Reader.setMark r1) with _ | r3
      · simp only [bind]
        rcases hr : setRcode (RC "FORMERR") s1 with ⟨rr, s2⟩
        rcases rr with u | e | _ <;> simp [andThen, dispatch, pure]
      · simp only [bind]
        rcases hsc : scanAr cfg tr now ar ar 0 { r := r3 } s1 with ⟨rs, s2⟩
        rcases rs with st | e | _
        · cases st with
          | none => simp [andThen, dispatch, pure]
          | some st' =>
            by_cases he : Reader.atEom st'.r
            · simp [he, andThen, dispatch, pure, bind]
            · rcases hr : setRcode (RC "FORMERR") s2 with ⟨rr, s3⟩
              rcases rr with u | e | _ <;> simp [he, hr, andThen, dispatch, pure, bind]
        · simp [andThen]
        · simp [andThen]
  · simp [andThen]
  · simp [andThen]

theorem handleWithContext_eq (cfg : Cfg) (tr : Transport) (now : Nat) (r0 : Reader.Reader) (s : State) :
    handleWithContext cfg tr now r0 s =
      andThen (scanPhase cfg tr now r0 s) (dispatch cfg tr ((Reader.opcode r0).toOption.getD 0)) := by
  unfold handleWithContext scanPhase
  rcases hqd : Reader.qdcount r0 with qd | e | _
  · rcases han : Reader.ancount r0 with an | e | _
    · rcases hns : Reader.nscount r0 with ns | e | _
      · rcases har : Reader.arcount r0 with ar | e | _
        · rcases hop : Reader.opcode r0 with opcode | e | _
          · simp only [Out.toOption, Option.getD]
            by_cases h0 : qd = 0
            · simp only [h0, if_true]
              exact tail_eq cfg tr now an ns ar opcode none r0 _ s
            · by_cases h1 : qd = 1
              · simp only [h0, h1, if_true, if_false]
                rcases hrq : Reader.readQuestion r0 with ⟨rq, r1⟩
                rcases rq with q | e | _
                · rcases hp : WName.parse q.qname with _ | ⟨qn, rest⟩
                  · simp [hp, andThen]
                  · cases rest with
                    | nil =>
                      simp only [hp]
                      exact tail_eq cfg tr now an ns ar opcode (some (qn, q.qtype, q.qclass)) r1 _ s
                    | cons a t => simp [hp, andThen]
                · simp only [bind]
                  rcases hr : setRcode 1 s with ⟨rr, s3⟩
                  rcases rr with u | e | _ <;> simp [hr, andThen, dispatch, pure, rc_formerr]
                · simp [andThen]
              · simp [h0, h1, andThen, dispatch, pure]
          · simp [andThen]
          · simp [andThen]
        · simp [andThen]
        · simp [andThen]
      · simp [andThen]
      · simp [andThen]
    · simp [andThen]
    · simp [andThen]
  · simp [andThen]
  · simp [andThen]

end QV.ServerTsig
