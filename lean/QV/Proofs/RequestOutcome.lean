/-
  QV.Proofs.RequestOutcome — C10 (1c): the specification's decision `specTsigOutcome` on the audit's
  view of the request is the decision of the model's TSIG step on `t`, `mw`.
-/
import QV.Proofs.RequestFields
import QV.Properties.C11

namespace QV.ServerScan
open QV QV.Wire QV.Reader QV.Writer

/-! ### names: wire form in lower case = canonical form of the labels -/

theorem lower_eq : ∀ b : UInt8, Spec.Tsig.lower b = lowerU8 b := by
  apply Wire.forall_uint8; decide +kernel

theorem lowerU8_len (n : Nat) (h : n ≤ 63) : lowerU8 (UInt8.ofNat n) = UInt8.ofNat n := by
  unfold lowerU8
  rw [if_neg]
  simp only [UInt8.toNat_ofNat', Nat.reducePow]
  omega

theorem lowerName_flat (ls : List Label) (h : ∀ l ∈ ls, l.length ≤ 63) :
    (ls.flatMap WName.encLabel).map lowerU8 = ls.flatMap (fun l => UInt8.ofNat l.length :: l.map Spec.Tsig.lower) := by
  induction ls with
  | nil => rfl
  | cons a t ih =>
    simp only [List.flatMap_cons, List.map_append, WName.encLabel, List.map_cons]
    rw [ih (fun l hl => h l (List.mem_cons_of_mem _ hl)), lowerU8_len _ (h a List.mem_cons_self)]
    have : a.map lowerU8 = a.map Spec.Tsig.lower := List.map_congr_left (fun b _ => (lower_eq b).symm)
    rw [this]

/-- the wire form of a name, lower-cased octet by octet, is the canonical form of its labels -/
theorem lowerName_wire (n : WName) (h : n.WF) : Tsig.lowerName n.wire = Spec.Tsig.canonName n.labels := by
  unfold Tsig.lowerName WName.wire Spec.Tsig.canonName
  rw [List.map_append, lowerName_flat n.labels (fun l hl => (h.1 l hl).2)]
  rfl

/-- the canonical form determines the labels up to case -/
theorem canonName_inj : ∀ (a b : List (List UInt8)), (∀ l ∈ a, 1 ≤ l.length ∧ l.length ≤ 63) →
    (∀ l ∈ b, 1 ≤ l.length ∧ l.length ≤ 63) → Spec.Tsig.canonName a = Spec.Tsig.canonName b →
    a.map (·.map Spec.Tsig.lower) = b.map (·.map Spec.Tsig.lower) := by
  intro a
  induction a with
  | nil =>
    intro b _ hb h
    cases b with
    | nil => rfl
    | cons y ys =>
      exfalso
      have hy := hb y List.mem_cons_self
      simp only [Spec.Tsig.canonName, List.flatMap_nil, List.nil_append, List.flatMap_cons, List.cons_append,
        List.cons.injEq] at h
      have := congrArg UInt8.toNat h.1
      simp only [UInt8.toNat_ofNat', Nat.reducePow] at this
      have : (0 : UInt8).toNat = 0 := rfl
      omega
  | cons x xs ih =>
    intro b ha hb h
    have hx := ha x List.mem_cons_self
    cases b with
    | nil =>
      exfalso
      simp only [Spec.Tsig.canonName, List.flatMap_nil, List.nil_append, List.flatMap_cons, List.cons_append,
        List.cons.injEq] at h
      have := congrArg UInt8.toNat h.1
      simp only [UInt8.toNat_ofNat', Nat.reducePow] at this
      have : (0 : UInt8).toNat = 0 := rfl
      omega
    | cons y ys =>
      have hy := hb y List.mem_cons_self
      simp only [Spec.Tsig.canonName, List.flatMap_cons, List.cons_append, List.append_assoc, List.cons.injEq] at h
      obtain ⟨hlen, hrest⟩ := h
      have hl : x.length = y.length := by
        have := congrArg UInt8.toNat hlen
        simp only [UInt8.toNat_ofNat', Nat.reducePow] at this
        omega
      have hsplit := List.append_inj hrest (by simp [hl])
      have := ih ys (fun l hl' => ha l (List.mem_cons_of_mem _ hl')) (fun l hl' => hb l (List.mem_cons_of_mem _ hl'))
        (by simp only [Spec.Tsig.canonName]; exact hsplit.2)
      simp only [List.map_cons, hsplit.1, this]

/-! ### `verify_request` on the model's record = the specification's verdict on the audit's fields -/

/-- the TSIG variables of the audit's view -/
def viewVars (kn alg : WName) (rest : List UInt8) : Spec.Tsig.Vars :=
  { keyName := kn.labels, algName := alg.labels, timeSigned := (fieldsOf alg.labels rest).timeSigned,
    fudge := (fieldsOf alg.labels rest).fudge, error := (fieldsOf alg.labels rest).error,
    other := (fieldsOf alg.labels rest).other }

/-- the model's record, as `C10_request_view` gives it -/
def viewRr (kn alg : WName) (rest : List UInt8) : Tsig.ReadTsigRr :=
  ⟨Tsig.lowerName kn.wire, Tsig.lowerName alg.wire, (Tsig.rd16 (alg.wire ++ rest) (alg.wire.length + 8)).toNat,
    alg.wire ++ rest⟩

theorem abstracts_view (kn alg : WName) (hkn : kn.WF) (halg : alg.WF) (rest : List UInt8) (h10 : 10 ≤ rest.length) :
    Tsig.Abstracts (viewRr kn alg rest).vars (viewVars kn alg rest) := by
  have hf := fieldsAgree_of (Tsig.lowerName kn.wire) alg rest h10
  exact ⟨lowerName_wire kn hkn, lowerName_wire alg halg, rfl, rfl, hf.time.symm, hf.fudge.symm, hf.error.symm,
    hf.other.symm⟩

theorem lowerName_idem (w : List UInt8) : Tsig.lowerName (Tsig.lowerName w) = Tsig.lowerName w := by
  unfold Tsig.lowerName
  rw [List.map_map]
  apply List.map_congr_left
  intro b _
  have : ∀ x : UInt8, lowerU8 (lowerU8 x) = lowerU8 x := by apply Wire.forall_uint8; decide +kernel
  exact this b

/-- **`verify_request` = RFC 8945 §5.2 on the audit's fields** (C11's `C11_verify_decision`): for the
    algorithm the request names and any key, on the request prefix `mw` -/
theorem verifyRequest_view (kn alg : WName) (hkn : kn.WF) (halg : alg.WF) (rest : List UInt8)
    (h10 : 10 ≤ rest.length) (hms : Spec.Tsig.field16 rest 8 + 16 ≤ rest.length)
    (a : Tsig.Algorithm) (ha : Tsig.Algorithm.fromName (Tsig.lowerName alg.wire) = some a)
    (secret : List UInt8) (nowT : Tsig.TimeSigned) (mw : List UInt8) (hmsg : Tsig.MsgOk mw) :
    Tsig.verifyRequest Tsig.realHmac (viewRr kn alg rest) mw a secret nowT =
      Tsig.verdictOut (Spec.Tsig.verdict a.outputSize
        (Tsig.realHmac a secret (Spec.Tsig.digestInput .request mw (fieldsOf alg.labels rest).originalId
          (viewVars kn alg rest) []))
        (fieldsOf alg.labels rest).mac nowT.toUnix (fieldsOf alg.labels rest).timeSigned
        (fieldsOf alg.labels rest).fudge) := by
  have hf := fieldsAgree_of (Tsig.lowerName kn.wire) alg rest h10
  have hmsz : (Tsig.rd16 (alg.wire ++ rest) (alg.wire.length + 8)).toNat = Spec.Tsig.field16 rest 8 := by
    have hget : ∀ k, (alg.wire ++ rest).getD (alg.wire.length + k) 0 = rest.getD k 0 := by
      intro k
      have := getD_drop' (alg.wire ++ rest) alg.wire.length k
      rw [List.drop_left' rfl] at this
      exact this.symm
    rw [rd16_toNat, hget 8, show alg.wire.length + 8 + 1 = alg.wire.length + 9 by omega, hget 9]; rfl
  have hv : (viewRr kn alg rest).mac.length = (viewRr kn alg rest).macSize := by
    apply C11.C11_mac_length_of_valid
    show (Tsig.lowerName alg.wire).length + (Tsig.rd16 (alg.wire ++ rest) (alg.wire.length + 8)).toNat + 16 ≤
      (alg.wire ++ rest).length
    rw [hmsz, List.length_append]
    simp only [Tsig.lowerName, List.length_map]
    omega
  have hname : (viewRr kn alg rest).algorithm = a.name := by
    have := ServerTsig.fromName_some _ _ ha
    rw [lowerName_idem] at this
    exact this
  have hdec := C11.C11_verify_decision Tsig.realHmac .request (viewRr kn alg rest) mw [] a secret nowT
    (viewVars kn alg rest) hv (abstracts_view kn alg hkn halg rest h10)
  have hvm : Tsig.verifyMode Tsig.realHmac .request (viewRr kn alg rest) mw [] a secret nowT =
      Tsig.verifyRequest Tsig.realHmac (viewRr kn alg rest) mw a secret nowT := rfl
  rw [hvm] at hdec
  rw [hdec]
  rw [if_neg (by intro h; rcases h with h | h; exact h (by simp [Tsig.verifyAsserts]); exact h hname)]
  have e1 : (viewRr kn alg rest).originalId.toNat = (fieldsOf alg.labels rest).originalId := hf.origId.symm
  have e2 : (viewRr kn alg rest).mac = (fieldsOf alg.labels rest).mac := hf.mac.symm
  have e3 : (viewVars kn alg rest).timeSigned = (fieldsOf alg.labels rest).timeSigned := rfl
  have e4 : (viewVars kn alg rest).fudge = (fieldsOf alg.labels rest).fudge := rfl
  rw [e1, e2, e3, e4]
  by_cases hs : Spec.Tsig.MacSizeAllowed a.outputSize (viewRr kn alg rest).macSize
  · rw [if_neg (fun h => h hs), if_neg (fun h => h hmsg)]
  · rw [if_pos hs]
    unfold Spec.Tsig.verdict
    rw [← e2, hv, if_pos hs]
    rfl

/-! ### the clock, the algorithm table, the key map -/

theorem toUnix_tryFromUnix (now : Nat) (nowT : Tsig.TimeSigned) (h : Tsig.TimeSigned.tryFromUnix now = some nowT) :
    nowT.toUnix = now := by
  unfold Tsig.TimeSigned.tryFromUnix at h
  split at h
  · simp only [Option.some.injEq] at h
    rw [← h]
    simp only [Tsig.TimeSigned.toUnix, UInt8.toNat_ofNat', Nat.reducePow]
    omega
  · cases h

theorem canonName_congr (a b : List (List UInt8)) (h : a.map (·.map Spec.Tsig.lower) = b.map (·.map Spec.Tsig.lower)) :
    Spec.Tsig.canonName a = Spec.Tsig.canonName b := by
  unfold Spec.Tsig.canonName
  congr 1
  induction a generalizing b with
  | nil =>
    cases b with
    | nil => rfl
    | cons _ _ => simp at h
  | cons x xs ih =>
    cases b with
    | nil => simp at h
    | cons y ys =>
      simp only [List.map_cons, List.cons.injEq] at h
      simp only [List.flatMap_cons]
      rw [ih ys h.2, h.1]
      have : x.length = y.length := by
        have := congrArg List.length h.1
        simpa using this
      rw [this]

theorem lower_idem : ∀ b : UInt8, Spec.Tsig.lower (Spec.Tsig.lower b) = Spec.Tsig.lower b := by
  apply Wire.forall_uint8; decide +kernel

theorem map_lower_idem (a : List (List UInt8)) :
    (a.map (·.map Spec.Tsig.lower)).map (·.map Spec.Tsig.lower) = a.map (·.map Spec.Tsig.lower) := by
  rw [List.map_map]
  apply List.map_congr_left
  intro l _
  simp only [Function.comp, List.map_map]
  apply List.map_congr_left
  intro b _
  exact lower_idem b

/-- two well-formed names: same labels up to case ⇔ same wire form in lower case -/
theorem labels_lower_iff (n m : WName) (hn : n.WF) (hm : m.WF) :
    n.labels.map (·.map Spec.Tsig.lower) = m.labels.map (·.map Spec.Tsig.lower) ↔
      Tsig.lowerName n.wire = Tsig.lowerName m.wire := by
  rw [lowerName_wire n hn, lowerName_wire m hm]
  exact ⟨canonName_congr _ _, canonName_inj _ _ (fun l hl => hn.1 l hl) (fun l hl => hm.1 l hl)⟩

/-- the specification's algorithm table (labels, ignoring case) is the model's (wire form, lower case) -/
theorem outputSizeOf_view (alg : WName) (h : alg.WF) :
    Spec.Tsig.outputSizeOf alg.labels =
      (Tsig.Algorithm.fromName (Tsig.lowerName alg.wire)).map Hmac.Alg.outputSize := by
  have hwf1 : ∀ l ∈ ServerTsig.algLabels .HmacSha1, 1 ≤ l.length ∧ l.length ≤ 63 := by decide
  have hwf2 : ∀ l ∈ ServerTsig.algLabels .HmacSha256, 1 ≤ l.length ∧ l.length ≤ 63 := by decide
  have hlow1 : (ServerTsig.algLabels .HmacSha1).map (·.map Spec.Tsig.lower) = ServerTsig.algLabels .HmacSha1 := by decide
  have hlow2 : (ServerTsig.algLabels .HmacSha256).map (·.map Spec.Tsig.lower) = ServerTsig.algLabels .HmacSha256 := by decide
  have hne : ServerTsig.algLabels .HmacSha1 ≠ ServerTsig.algLabels .HmacSha256 := by decide
  have hn1 : Tsig.hmacSha1Name = Spec.Tsig.canonName (ServerTsig.algLabels .HmacSha1) :=
    (ServerTsig.canonName_algLabels .HmacSha1).symm
  have hn2 : Tsig.hmacSha256Name = Spec.Tsig.canonName (ServerTsig.algLabels .HmacSha256) :=
    (ServerTsig.canonName_algLabels .HmacSha256).symm
  have htab : Spec.Tsig.algorithms = [(ServerTsig.algLabels .HmacSha1, 20), (ServerTsig.algLabels .HmacSha256, 32)] := rfl
  generalize hX : alg.labels.map (·.map Spec.Tsig.lower) = X
  have hXwf : ∀ l ∈ X, 1 ≤ l.length ∧ l.length ≤ 63 := by
    intro l hl
    rw [← hX] at hl
    obtain ⟨l0, hl0, rfl⟩ := List.mem_map.mp hl
    have := h.1 l0 hl0
    have c : Gen.MAX_LABEL_LEN = 63 := rfl
    simp only [List.length_map]
    omega
  have hXlow : X.map (·.map Spec.Tsig.lower) = X := by rw [← hX]; exact map_lower_idem _
  have hc : Tsig.lowerName (Tsig.lowerName alg.wire) = Spec.Tsig.canonName X := by
    rw [lowerName_idem, lowerName_wire alg h]
    exact canonName_congr _ _ (by rw [hXlow, hX])
  have hinj : ∀ a : Hmac.Alg, Spec.Tsig.canonName X = Spec.Tsig.canonName (ServerTsig.algLabels a) →
      X = ServerTsig.algLabels a := by
    intro a he
    have := canonName_inj X (ServerTsig.algLabels a) hXwf (by cases a <;> assumption) he
    rw [hXlow] at this
    rw [this]; cases a <;> assumption
  unfold Spec.Tsig.outputSizeOf Tsig.Algorithm.fromName
  rw [hX, hc, htab, hn1, hn2]
  by_cases h1 : X = ServerTsig.algLabels .HmacSha1
  · subst h1
    simp [List.find?_cons]
    rfl
  · have hc1 : Spec.Tsig.canonName X ≠ Spec.Tsig.canonName (ServerTsig.algLabels .HmacSha1) := fun he => h1 (hinj _ he)
    rw [if_neg hc1]
    by_cases h2 : X = ServerTsig.algLabels .HmacSha256
    · subst h2
      simp [List.find?_cons, Ne.symm h1]
      rfl
    · have hc2 : Spec.Tsig.canonName X ≠ Spec.Tsig.canonName (ServerTsig.algLabels .HmacSha256) := fun he => h2 (hinj _ he)
      rw [if_neg hc2]
      simp [List.find?_cons, Ne.symm h1, Ne.symm h2]

theorem find?_congr' {α : Type} (p q : α → Bool) : ∀ (l : List α), (∀ x ∈ l, p x = q x) → l.find? p = l.find? q := by
  intro l
  induction l with
  | nil => intro _; rfl
  | cons a t ih =>
    intro h
    simp only [List.find?_cons, h a List.mem_cons_self]
    rw [ih (fun x hx => h x (List.mem_cons_of_mem _ hx))]

/-- the key set as the specification sees it (`C10.specKeys`) -/
def keyCfgOf (k : Server.Key) : Spec.ServerTsig.KeyCfg := ⟨k.name, k.alg = .HmacSha256, k.secret⟩

/-- what the library API guarantees about configured keys: their names are `LowercaseName`s -/
def KeysOK (keys : List Server.Key) : Prop :=
  ∀ k ∈ keys, ∃ n : WName, n.WF ∧ n.wire = k.name ∧ Tsig.lowerName k.name = k.name

/-- the specification's key lookup (by labels, ignoring case) is the model's (by octets) -/
theorem findKey_view (keys : List Server.Key) (hk : KeysOK keys) (kn : WName) (hkn : kn.WF) :
    Spec.ServerTsig.findKey (keys.map keyCfgOf) kn.labels =
      (keys.find? (fun k => k.name == Tsig.lowerName kn.wire)).map keyCfgOf := by
  unfold Spec.ServerTsig.findKey
  rw [List.find?_map]
  congr 1
  apply find?_congr'
  intro k hkm
  obtain ⟨n, hnwf, hnw, hlow⟩ := hk k hkm
  simp only [Function.comp, keyCfgOf]
  have hl : Spec.Tsig.labelsOf k.name = some n.labels := by rw [← hnw]; exact labelsOf_wire n hnwf
  have hiff : (Option.map (fun x => List.map (fun x => List.map Spec.Tsig.lower x) x) (Spec.Tsig.labelsOf k.name) =
      some (List.map (fun x => List.map Spec.Tsig.lower x) kn.labels)) ↔ k.name = Tsig.lowerName kn.wire := by
    rw [hl]
    simp only [Option.map_some, Option.some.injEq]
    have := labels_lower_iff n kn hnwf hkn
    rw [hnw, hlow] at this
    exact this
  rw [Bool.eq_iff_iff]
  simp only [beq_iff_eq]
  exact ⟨fun h => hiff.mp (of_decide_eq_true h), fun h => decide_eq_true (hiff.mpr h)⟩

/-! ### (1c) the decision -/

/-- the HMAC as the specification uses it (`C10.hmSpec`) -/
def hmS : Spec.ServerTsig.Hm := fun sha256 key data =>
  (Hmac.hmac (if sha256 then .HmacSha256 else .HmacSha1) key.toArray data.toArray).toList

/-- the decision of the model's TSIG step, read off `tsigProcess`: algorithm table, key map,
    `verify_request` -/
def modelOutcome (keys : List Server.Key) (nowT : Tsig.TimeSigned) (kn alg : WName) (rest mw : List UInt8) :
    Spec.ServerTsig.Outcome :=
  match Tsig.Algorithm.fromName (Tsig.lowerName alg.wire) with
  | none => .badKey
  | some a =>
    match Server.findKey keys (Tsig.lowerName kn.wire) a with
    | none => .badKey
    | some key =>
      match Tsig.verifyRequest Tsig.realHmac (viewRr kn alg rest) mw a key.secret nowT with
      | .ok () => .authenticated
      | .err .FormErr => .formErr
      | .err .BadSig => .badSig
      | .err .BadTime => .badTime
      | .panic => .badKey

/-- **C10 (1c): `specTsigOutcome` on the audit's view = the model's decision.** -/
theorem outcome_view (keys : List Server.Key) (hk : KeysOK keys) (kn alg : WName) (hkn : kn.WF) (halg : alg.WF)
    (rest : List UInt8) (h10 : 10 ≤ rest.length) (hms : Spec.Tsig.field16 rest 8 + 16 ≤ rest.length)
    (now : Nat) (nowT : Tsig.TimeSigned) (hnow : Tsig.TimeSigned.tryFromUnix now = some nowT)
    (mw : List UInt8) (hmsg : Tsig.MsgOk mw) :
    Spec.ServerTsig.specTsigOutcome (keys.map keyCfgOf) kn.labels (fieldsOf alg.labels rest)
      (fun k => hmS k.sha256 k.secret (Spec.Tsig.digestInput .request mw (fieldsOf alg.labels rest).originalId
        (viewVars kn alg rest) [])) now = modelOutcome keys nowT kn alg rest mw := by
  unfold Spec.ServerTsig.specTsigOutcome modelOutcome
  have e0 : (fieldsOf alg.labels rest).algName = alg.labels := rfl
  rw [e0, outputSizeOf_view alg halg]
  cases hfrom : Tsig.Algorithm.fromName (Tsig.lowerName alg.wire) with
  | none => rfl
  | some a =>
    simp only [Option.map_some]
    rw [findKey_view keys hk kn hkn]
    unfold Server.findKey
    cases hfind : keys.find? (fun k => k.name == Tsig.lowerName kn.wire) with
    | none => rfl
    | some key =>
      simp only [Option.map_some, keyCfgOf]
      by_cases hal : key.alg = a
      · rw [if_pos hal]
        simp only
        have hout : Spec.ServerTsig.outSize (decide (key.alg = Hmac.Alg.HmacSha256)) = a.outputSize := by
          rw [hal]; cases a <;> rfl
        rw [if_neg (fun h => h hout)]
        rw [verifyRequest_view kn alg hkn halg rest h10 hms a hfrom key.secret nowT mw hmsg]
        have hhm : hmS (decide (key.alg = Hmac.Alg.HmacSha256)) key.secret
            (Spec.Tsig.digestInput .request mw (fieldsOf alg.labels rest).originalId (viewVars kn alg rest) []) =
            Tsig.realHmac a key.secret (Spec.Tsig.digestInput .request mw (fieldsOf alg.labels rest).originalId
              (viewVars kn alg rest) []) := by
          rw [hal]; cases a <;> rfl
        rw [hhm, toUnix_tryFromUnix now nowT hnow]
        cases Spec.Tsig.verdict a.outputSize _ _ _ _ _ <;> rfl
      · rw [if_neg hal]
        simp only
        have hout : Spec.ServerTsig.outSize (decide (key.alg = Hmac.Alg.HmacSha256)) ≠ a.outputSize := by
          cases hka : key.alg <;> cases a <;> simp_all [Spec.ServerTsig.outSize, Hmac.Alg.outputSize]
        rw [if_pos hout]

theorem msgOk_prefix (req : Bytes) (p : Nat) (h12 : 12 ≤ p) (hp : p ≤ req.size) (har : 1 ≤ Spec.Server.hdr req 10) :
    Tsig.MsgOk (req.extract 0 p).toList := by
  unfold Tsig.MsgOk
  refine ⟨by simp; omega, ?_⟩
  have : Spec.Tsig.field16 (req.extract 0 p).toList 10 = Spec.Server.hdr req 10 := by
    unfold Spec.Tsig.field16 Spec.Server.hdr
    simp only [List.getD_eq_getElem?_getD, Array.getElem?_toList, Array.getElem?_extract, Array.getD_eq_getD_getElem?]
    rw [if_pos (by omega), if_pos (by omega)]
  rw [this]; exact har

/-- how the model's decision shows in the decision table of the TSIG step (`tsigStopReply`) -/
theorem modelOutcome_stopReply (keys : List Server.Key) (nowT : Tsig.TimeSigned) (kn alg : WName)
    (rest mw : List UInt8) (kn' an : WName) (rc : Nat) (mode : TsigMode) (rr : TsigRr)
    (h : tsigStopReply Tsig.realHmac keys nowT (viewRr kn alg rest) mw kn' an = some (rc, mode, rr)) :
    (modelOutcome keys nowT kn alg rest mw = .badKey ∧ rc = 9 ∧ rr.error = 17) ∨
    (modelOutcome keys nowT kn alg rest mw = .formErr ∧ rc = 1 ∧ rr.error = 16) ∨
    (modelOutcome keys nowT kn alg rest mw = .badSig ∧ rc = 9 ∧ rr.error = 16) ∨
    (modelOutcome keys nowT kn alg rest mw = .badTime ∧ rc = 9 ∧ rr.error = 18) := by
  unfold tsigStopReply at h
  unfold modelOutcome
  have e1 : (viewRr kn alg rest).algorithm = Tsig.lowerName alg.wire := rfl
  have e2 : (viewRr kn alg rest).keyName = Tsig.lowerName kn.wire := rfl
  rw [e1, e2] at h
  cases hfrom : Tsig.Algorithm.fromName (Tsig.lowerName alg.wire) with
  | none =>
    rw [hfrom] at h
    simp only [Option.some.injEq, Prod.mk.injEq] at h
    obtain ⟨rfl, _, rfl⟩ := h
    exact Or.inl ⟨rfl, rfl, rfl⟩
  | some a =>
    rw [hfrom] at h
    simp only at h ⊢
    cases hfind : Server.findKey keys (Tsig.lowerName kn.wire) a with
    | none =>
      rw [hfind] at h
      simp only [Option.some.injEq, Prod.mk.injEq] at h
      obtain ⟨rfl, _, rfl⟩ := h
      exact Or.inl ⟨rfl, rfl, rfl⟩
    | some key =>
      rw [hfind] at h
      simp only at h ⊢
      rcases hv : Tsig.verifyRequest Tsig.realHmac (viewRr kn alg rest) mw a key.secret nowT with u | e | _
      · rw [hv] at h; cases h
      · rw [hv] at h
        cases e with
        | FormErr =>
          simp only [Option.some.injEq, Prod.mk.injEq] at h
          obtain ⟨rfl, _, rfl⟩ := h
          exact Or.inr (Or.inl ⟨rfl, rfl, rfl⟩)
        | BadSig =>
          simp only [Option.some.injEq, Prod.mk.injEq] at h
          obtain ⟨rfl, _, rfl⟩ := h
          exact Or.inr (Or.inr (Or.inl ⟨rfl, rfl, rfl⟩))
        | BadTime =>
          simp only [Option.some.injEq, Prod.mk.injEq] at h
          obtain ⟨rfl, _, rfl⟩ := h
          exact Or.inr (Or.inr (Or.inr ⟨rfl, rfl, rfl⟩))
      · rw [hv] at h; cases h

/-- … and when the step authenticates -/
theorem modelOutcome_authenticated (keys : List Server.Key) (nowT : Tsig.TimeSigned) (kn alg : WName)
    (rest mw : List UInt8) (a : Tsig.Algorithm) (key : Server.Key)
    (h1 : Tsig.Algorithm.fromName (Tsig.lowerName alg.wire) = some a)
    (h2 : Server.findKey keys (Tsig.lowerName kn.wire) a = some key)
    (h3 : Tsig.verifyRequest Tsig.realHmac (viewRr kn alg rest) mw a key.secret nowT = .ok ()) :
    modelOutcome keys nowT kn alg rest mw = .authenticated := by
  unfold modelOutcome
  rw [h1]; simp only
  rw [h2]; simp only
  rw [h3]

/-- (extended form: also the bounds the later clauses need) **C10 (1a) + (1c)**: the audit's view of a request whose scan reaches a TSIG record, with its
    outcome evaluated: it is the model's decision on the record of the same `TsigRun` -/
theorem request_outcome_ext (cfg : Server.Cfg) (tr : Server.Transport) (now bufLen : Nat) (req : Bytes)
    (hbuf : minBuf tr cfg.payload ≤ bufLen) (hpay : 512 ≤ cfg.payload) (hreq : req.size ≤ Rdata.USIZE_MAX)
    (hr : (Spec.Server.specScanWith (catKind cfg) cfg.payload req).respond = true)
    (hv : (Spec.Server.specScanWith (catKind cfg) cfg.payload req).verdict = .tsigReached)
    (hk : KeysOK cfg.keys) (nowT : Tsig.TimeSigned) (hnow : Tsig.TimeSigned.tryFromUnix now = some nowT) :
    ∃ (t : Tsig.ReadTsigRr) (mw : Bytes) (r' : Reader) (question : Option (WName × Nat × Nat))
      (d : Spec.Server.Delim) (kn alg : WName) (rest : List UInt8),
      ServerContent.TsigRun cfg tr now bufLen req t mw r' question ∧
      Spec.ServerTsig.findTsig req = some d ∧ kn.WF ∧ alg.WF ∧
      mw = req.extract 0 d.pos ∧ r'.cursor = d.next ∧ t = viewRr kn alg rest ∧
      Spec.ServerTsig.viewRequest hmS (cfg.keys.map keyCfgOf) req now =
        some ⟨kn.labels, fieldsOf alg.labels rest, mw.toList, modelOutcome cfg.keys nowT kn alg rest mw.toList,
          Spec.ServerTsig.findKey (cfg.keys.map keyCfgOf) kn.labels⟩ ∧
      10 ≤ rest.length ∧ 12 ≤ d.pos ∧ d.pos ≤ req.size ∧ Tsig.MsgOk mw.toList ∧ d.pos ≤ d.next ∧ d.next ≤ req.size := by
  obtain ⟨t, mw, r', question, d, owner, nl, fl, kn, alg, rest, hrun, hfind, _, _, _, hdn, hknwf, hknw, halgwf, _,
    h10, hms, hpos12, har1, hmw, hr', ht, _, hview⟩ :=
    request_view cfg tr now bufLen req hbuf hpay hreq hr hv hmS (cfg.keys.map keyCfgOf)
  have hdsz : d.pos ≤ req.size ∧ d.pos ≤ d.next ∧ d.next ≤ req.size := by
    have := hrun.2.1
    rw [hr'] at this
    obtain ⟨d0, _, _, hf0, _, _, _, _, _, hdel, _⟩ := findTsig_of_tsigReached _ _ req hr hv
    rw [hfind] at hf0; cases hf0
    obtain ⟨_, e2, e3⟩ := delim_extent req d.pos d hdel
    have : d.ownerEnd ≥ d.pos := by
      rw [specDelimit_eq] at hdel
      split at hdel
      · split at hdel
        · simp only [Option.some.injEq] at hdel; rw [← hdel]; simp
        · cases hdel
      · cases hdel
    omega
  obtain ⟨hdsz, hdn1, hdn2⟩ := hdsz
  have hmsg : Tsig.MsgOk mw.toList := by rw [hmw]; exact msgOk_prefix req d.pos hpos12 hdsz har1
  have hout := outcome_view cfg.keys hk kn alg hknwf halgwf rest h10 hms now nowT hnow mw.toList hmsg
  refine ⟨t, mw, r', question, d, kn, alg, rest, hrun, hfind, hknwf, halgwf, hmw, hr', ?_, ?_, h10, hpos12, hdsz, hmsg, hdn1, hdn2⟩
  · rw [ht, ← hknw]; rfl
  · rw [hview]
    have hout' : Spec.ServerTsig.specTsigOutcome (cfg.keys.map keyCfgOf) kn.labels (fieldsOf alg.labels rest)
        (fun k => hmS k.sha256 k.secret (Spec.Tsig.digestInput .request mw.toList (fieldsOf alg.labels rest).originalId
          { keyName := kn.labels, algName := alg.labels, timeSigned := (fieldsOf alg.labels rest).timeSigned,
            fudge := (fieldsOf alg.labels rest).fudge, error := (fieldsOf alg.labels rest).error,
            other := (fieldsOf alg.labels rest).other } [])) now =
        modelOutcome cfg.keys nowT kn alg rest mw.toList := hout
    rw [hout']

/-- **C10 (1a) + (1c)**: the audit's view of a request whose scan reaches a TSIG record, with its
    outcome evaluated: it is the model's decision on the record of the same `TsigRun` -/
theorem request_outcome (cfg : Server.Cfg) (tr : Server.Transport) (now bufLen : Nat) (req : Bytes)
    (hbuf : minBuf tr cfg.payload ≤ bufLen) (hpay : 512 ≤ cfg.payload) (hreq : req.size ≤ Rdata.USIZE_MAX)
    (hr : (Spec.Server.specScanWith (catKind cfg) cfg.payload req).respond = true)
    (hv : (Spec.Server.specScanWith (catKind cfg) cfg.payload req).verdict = .tsigReached)
    (hk : KeysOK cfg.keys) (nowT : Tsig.TimeSigned) (hnow : Tsig.TimeSigned.tryFromUnix now = some nowT) :
    ∃ (t : Tsig.ReadTsigRr) (mw : Bytes) (r' : Reader) (question : Option (WName × Nat × Nat))
      (d : Spec.Server.Delim) (kn alg : WName) (rest : List UInt8),
      ServerContent.TsigRun cfg tr now bufLen req t mw r' question ∧
      Spec.ServerTsig.findTsig req = some d ∧ kn.WF ∧ alg.WF ∧
      mw = req.extract 0 d.pos ∧ r'.cursor = d.next ∧ t = viewRr kn alg rest ∧
      Spec.ServerTsig.viewRequest hmS (cfg.keys.map keyCfgOf) req now =
        some ⟨kn.labels, fieldsOf alg.labels rest, mw.toList, modelOutcome cfg.keys nowT kn alg rest mw.toList,
          Spec.ServerTsig.findKey (cfg.keys.map keyCfgOf) kn.labels⟩ := by
  obtain ⟨t, mw, r', question, d, kn, alg, rest, h1, h2, h3, h4, h5, h6, h7, h8, _⟩ :=
    request_outcome_ext cfg tr now bufLen req hbuf hpay hreq hr hv hk nowT hnow
  exact ⟨t, mw, r', question, d, kn, alg, rest, h1, h2, h3, h4, h5, h6, h7, h8⟩

end QV.ServerScan
