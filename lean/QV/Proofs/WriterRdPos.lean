/-
  QV.Proofs.WriterRdPos — where the parts of one RDATA are, in every compression mode.

  `RdAt s m ts rd p e`: between `p` and `e` the buffer holds the RDATA `rd`, split along the
  component list `ts` exactly as `write_components` splits it: fixed-length parts, names that must
  not be compressed and the rest as the octets given; a compressible name as an *item* (a name the
  independent decoder reads, C13) whose content is the name given (`NameIs`, up to ASCII case in
  `Standard` mode, octet for octet otherwise).

  `writeComponents_pos`: a successful `write_components` leaves exactly that; `addRr_rd`: so does
  `add_rr`, after RDLENGTH was written back.
-/
import QV.Proofs.WriterShape

namespace QV.Writer
open QV QV.Wire QV.Spec

def RdAt (s : State) (m : CMode) : List CompType → List UInt8 → Nat → Nat → List Nat → Prop
  | [], rd, p, e, ps => BytesAt s.octets p rd ∧ e = p + rd.length ∧ ps = []
  | .compressibleName :: ts, rd, p, e, ps =>
    ∃ n rest k, WName.parse rd = some (n, rest) ∧ Item s p k ∧ NameIs s p m n ∧
      ∃ ps', ps = p :: ps' ∧ RdAt s m ts rest (p + k) e ps'
  | .uncompressibleName :: ts, rd, p, e, ps =>
    ∃ n rest, WName.parse rd = some (n, rest) ∧ BytesAt s.octets p n.wire ∧
      ∃ ps', ps = p :: ps' ∧ RdAt s m ts rest (p + n.wire.length) e ps'
  | .fixedLen k :: ts, rd, p, e, ps =>
    k ≤ rd.length ∧ BytesAt s.octets p (rd.take k) ∧ RdAt s m ts (rd.drop k) (p + k) e ps

theorem rdAt_le {s : State} {m : CMode} : ∀ {ts : List CompType} {rd : List UInt8} {p e : Nat} {ps : List Nat},
    RdAt s m ts rd p e ps → p ≤ e := by
  intro ts
  induction ts with
  | nil => intro rd p e ps h; have := h.2.1; omega
  | cons t ts ih =>
    intro rd p e ps h
    cases t with
    | compressibleName => obtain ⟨n, rest, k, _, _, _, _, _, h4⟩ := h; have := ih h4; omega
    | uncompressibleName => obtain ⟨n, rest, _, _, _, _, h4⟩ := h; have := ih h4; omega
    | fixedLen k => obtain ⟨_, _, h4⟩ := h; have := ih h4; omega

theorem wire_chunk {oct : Bytes} {a : Nat} {n : WName} (hn : n.WF) (h : BytesAt oct a n.wire) :
    ChunkAt oct a n.wire.length :=
  ⟨n.labels, 0, fun l hl => hn.1 l hl, by simpa [WName.wire] using h,
    Or.inl ⟨rfl, by simp [WName.wire, encLen]⟩⟩

theorem chunkAt_pos {oct : Bytes} {a k : Nat} (h : ChunkAt oct a k) : 1 ≤ k := by
  obtain ⟨_, _, _, _, hk⟩ := h
  rcases hk with ⟨_, e⟩ | ⟨_, e⟩ <;> omega

/-- every name position of an RDATA lies inside it, and a name chunk lies there -/
theorem rdAt_chunk {s : State} {m : CMode} : ∀ {ts : List CompType} {rd : List UInt8} {p e : Nat} {ps : List Nat},
    RdAt s m ts rd p e ps → ∀ a ∈ ps, p ≤ a ∧ ∃ k, ChunkAt s.octets a k ∧ a + k ≤ e := by
  intro ts
  induction ts with
  | nil => intro rd p e ps h a ha; rw [h.2.2] at ha; cases ha
  | cons t ts ih =>
    intro rd p e ps h a ha
    cases t with
    | compressibleName =>
      obtain ⟨n, rest, k, _, hit, _, ps', hps, h4⟩ := h
      subst hps
      rcases List.mem_cons.mp ha with rfl | ha
      · exact ⟨Nat.le_refl _, k, hit.2.1, rdAt_le h4⟩
      · obtain ⟨h1, h2⟩ := ih h4 a ha
        exact ⟨by omega, h2⟩
    | uncompressibleName =>
      obtain ⟨n, rest, hp, hb, ps', hps, h4⟩ := h
      subst hps
      rcases List.mem_cons.mp ha with rfl | ha
      · exact ⟨Nat.le_refl _, _, wire_chunk (parse_wf hp) hb, rdAt_le h4⟩
      · obtain ⟨h1, h2⟩ := ih h4 a ha
        exact ⟨by omega, h2⟩
    | fixedLen k =>
      obtain ⟨_, _, h4⟩ := h
      obtain ⟨h1, h2⟩ := ih h4 a ha
      exact ⟨by omega, h2⟩

/-- the name positions of an RDATA are listed in ascending order -/
theorem rdAt_sorted {s : State} {m : CMode} : ∀ {ts : List CompType} {rd : List UInt8} {p e : Nat} {ps : List Nat},
    RdAt s m ts rd p e ps → ps.Pairwise (· < ·) := by
  intro ts
  induction ts with
  | nil => intro rd p e ps h; rw [h.2.2]; exact List.Pairwise.nil
  | cons t ts ih =>
    intro rd p e ps h
    cases t with
    | compressibleName =>
      obtain ⟨n, rest, k, _, hit, _, ps', hps, h4⟩ := h
      subst hps
      refine List.Pairwise.cons (fun a ha => ?_) (ih h4)
      have := (rdAt_chunk h4 a ha).1
      have := chunkAt_pos hit.2.1
      omega
    | uncompressibleName =>
      obtain ⟨n, rest, hp, hb, ps', hps, h4⟩ := h
      subst hps
      refine List.Pairwise.cons (fun a ha => ?_) (ih h4)
      have := (rdAt_chunk h4 a ha).1
      have := chunkAt_pos (wire_chunk (parse_wf hp) hb)
      omega
    | fixedLen k =>
      obtain ⟨_, _, h4⟩ := h
      exact ih h4

/-- the parts move along any change of state that keeps items, names and octets from `lo` on -/
theorem rdAt_map {s s' : State} {m : CMode} {e lo : Nat}
    (hi : ∀ a k, lo ≤ a → a + k ≤ e → Item s a k → Item s' a k)
    (hn : ∀ a n, lo ≤ a → NameIs s a m n → NameIs s' a m n)
    (hb : ∀ a d, lo ≤ a → a + d.length ≤ e → BytesAt s.octets a d → BytesAt s'.octets a d) :
    ∀ {ts : List CompType} {rd : List UInt8} {p : Nat} {ps : List Nat}, lo ≤ p → RdAt s m ts rd p e ps →
      RdAt s' m ts rd p e ps := by
  intro ts
  induction ts with
  | nil =>
    intro rd p ps hp h
    exact ⟨hb p rd hp (by have := h.2.1; omega) h.1, h.2⟩
  | cons t ts ih =>
    intro rd p ps hp h
    cases t with
    | compressibleName =>
      obtain ⟨n, rest, k, h1, h2, h3, ps', hps, h4⟩ := h
      exact ⟨n, rest, k, h1, hi p k hp (rdAt_le h4) h2, hn p n hp h3, ps', hps, ih (by omega) h4⟩
    | uncompressibleName =>
      obtain ⟨n, rest, h1, h2, ps', hps, h4⟩ := h
      exact ⟨n, rest, h1, hb p _ hp (rdAt_le h4) h2, ps', hps, ih (by omega) h4⟩
    | fixedLen k =>
      obtain ⟨h1, h2, h4⟩ := h
      refine ⟨h1, hb p _ hp ?_ h2, ih (by omega) h4⟩
      have := rdAt_le h4
      rw [List.length_take]; omega

theorem rdAt_frame {s s' : State} {m : CMode} {ts : List CompType} {rd : List UInt8} {p e lo : Nat}
    {ps : List Nat} (h : RdAt s m ts rd p e ps) (hlo : lo ≤ p) (hend : e ≤ s.cursor) (hg12 : ∀ g ∈ s.gLabels, lo ≤ g)
    (hpre : ∀ i, lo ≤ i → i < s.cursor → s'.octets[i]? = s.octets[i]?) (hc : s.cursor ≤ s'.cursor)
    (hg : ∀ g ∈ s.gLabels, g ∈ s'.gLabels) : RdAt s' m ts rd p e ps :=
  rdAt_map (lo := lo)
    (fun a k _ hk it => item_move (lo := lo) it hg12 (fun i h1 h2 => hpre i h1 (by omega)) (by omega)
      (fun g hgm _ => hg g hgm))
    (fun a n _ hnm => nameIs_frame hnm hg12 hpre hc hg)
    (fun a d ha hk hbb => bytesAt_frame hbb (fun i h1 h2 => hpre i (by omega) (by omega))) hlo h

theorem rdAt_ext {s s' : State} {m : CMode} {ts : List CompType} {rd : List UInt8} {p e : Nat} {ps : List Nat}
    (h : RdAt s m ts rd p e ps) (hend : e ≤ s.cursor) (x : Ext s s') : RdAt s' m ts rd p e ps :=
  rdAt_frame (lo := 0) h (Nat.zero_le _) hend (fun _ _ => Nat.zero_le _) (fun i _ hi => x.pre i hi) x.cur
    (fun g hg => x.glab g hg)

theorem rdAt_fields {s s' : State} {m : CMode} {ts : List CompType} {rd : List UInt8} {p e : Nat} {ps : List Nat}
    (h : RdAt s m ts rd p e ps) (ho : s'.octets = s.octets) (hc : s'.cursor = s.cursor)
    (hg : s'.gLabels = s.gLabels) : RdAt s' m ts rd p e ps :=
  rdAt_map (lo := 0) (fun _ _ _ _ it => item_fields it ho hc hg) (fun _ _ _ hnm => nameIs_fields hnm ho hc hg)
    (fun _ _ _ _ hbb => by rw [ho]; exact hbb) (Nat.zero_le _) h

/-- RDATA without compressible names is stored as the octets given -/
theorem rdAt_literal {s : State} {m : CMode} : ∀ {ts : List CompType} {rd : List UInt8} {p e : Nat} {ps : List Nat},
    RdAt s m ts rd p e ps → CompType.compressibleName ∉ ts → BytesAt s.octets p rd ∧ e = p + rd.length := by
  intro ts
  induction ts with
  | nil => intro rd p e ps h _; exact ⟨h.1, h.2.1⟩
  | cons t ts ih =>
    intro rd p e ps h hn
    have hn' : CompType.compressibleName ∉ ts := fun hx => hn (List.mem_cons_of_mem _ hx)
    cases t with
    | compressibleName => exact absurd List.mem_cons_self hn
    | uncompressibleName =>
      obtain ⟨n, rest, hp, hb, _, _, h4⟩ := h
      obtain ⟨hb2, he⟩ := ih h4 hn'
      have hc := parse_content hp
      subst hc
      exact ⟨bytesAt_append_intro hb hb2, by rw [he, List.length_append]; omega⟩
    | fixedLen k =>
      obtain ⟨hk, hb, h4⟩ := h
      obtain ⟨hb2, he⟩ := ih h4 hn'
      have hl : (rd.take k).length = k := by rw [List.length_take]; omega
      refine ⟨?_, by rw [he, List.length_drop]; omega⟩
      have := bytesAt_append_intro hb (by rw [hl]; exact hb2)
      rw [List.take_append_drop] at this
      exact this

/-- the types whose RDATA holds no compressible name are not those of RFC 1035 §3.3 that do -/
theorem literal_types {cls ty : Nat} {ts : List CompType} (h : componentTypes cls ty = some ts)
    (hn : CompType.compressibleName ∉ ts) :
    ¬(ty = 2 ∨ ty = 3 ∨ ty = 4 ∨ ty = 5 ∨ ty = 7 ∨ ty = 8 ∨ ty = 9 ∨ ty = 12) ∧ ty ≠ 6 ∧ ty ≠ 14 ∧ ty ≠ 15 := by
  rw [componentTypes_layout] at h
  simp only [Option.some.injEq] at h
  subst h
  unfold QV.Spec.Message.layoutOf at hn
  refine ⟨fun h1 => ?_, fun h1 => ?_, fun h1 => ?_, fun h1 => ?_⟩
  · rw [if_pos h1] at hn; exact hn (by simp [layToComp])
  · subst h1; simp [layToComp] at hn
  · subst h1; simp [layToComp] at hn
  · subst h1; simp [layToComp] at hn

/-! ### RDLENGTH written back below the RDATA -/

theorem hop_patch {o : Bytes} {c a q g : Nat} (d : List UInt8) (hd : d.length = 2) (h : Hop o c a q)
    (ha : g + 2 ≤ a) (hq : q < g ∨ g + 2 ≤ q) : Hop (writeAt o g d) c a q := by
  have hout : ∀ i, i < g ∨ g + 2 ≤ i → (writeAt o g d)[i]? = o[i]? := by
    intro i hi
    rcases hi with hi | hi
    · exact writeAt_get_lt _ _ _ _ hi
    · exact writeAt_get_ge _ _ _ _ (by omega)
  cases h with
  | here hq' hb hnp => exact .here hq' (by rw [hout _ (Or.inr ha)]; exact hb) hnp
  | jump hq' h1 h2 hp hlt h3 hnp =>
    exact .jump hq' (by rw [hout _ (Or.inr ha)]; exact h1) (by rw [hout _ (Or.inr (by omega))]; exact h2) hp hlt
      (by rw [hout _ hq]; exact h3) hnp

theorem rdAt_patch {s sH : State} {m : CMode} {ts : List CompType} {rd : List UInt8} {p en : Nat} {ps : List Nat}
    (hw : WInv s) (d : List UInt8) (hd : d.length = 2) (e : Ext { s with cursor := s.cursor + 2 } sH)
    (h : RdAt sH m ts rd p en ps) (hp : s.cursor + 2 ≤ p) :
    RdAt { sH with octets := writeAt sH.octets s.cursor d } m ts rd p en ps := by
  have hlab : ∀ q, q ∈ sH.gLabels → q < s.cursor ∨ s.cursor + 2 ≤ q := by
    intro q hq
    rcases e.gnew q hq with h1 | h1
    · obtain ⟨ls', hl⟩ := hw.labs q h1
      exact Or.inl (nameAt_start hl).2.1
    · exact Or.inr h1
  refine rdAt_map (lo := s.cursor + 2) ?_ ?_ ?_ hp h
  · intro a k ha _ it
    obtain ⟨⟨q, hop, hq⟩, hck, hk⟩ := it
    refine ⟨⟨q, hop_patch d hd hop ha (hlab q hq), hq⟩, ?_, hk⟩
    exact chunkAt_frame hck (fun i h1 _ => writeAt_get_ge _ _ _ _ (by omega))
  · intro a n ha hnm
    obtain ⟨⟨q, ls, hop, hst, hmm⟩, hdis⟩ := hnm
    have hq : q ∈ sH.gLabels := (nameAt_start hst).1
    exact ⟨⟨q, ls, hop_patch d hd hop ha (hlab q hq), storedAt_patch hw d hd e q ls hst, hmm⟩,
      fun hm' => rootEndB_frame (hdis hm') (fun i h1 _ => writeAt_get_ge _ _ _ _ (by omega)) (Nat.le_refl _)⟩
  · intro a dd ha _ hbb
    exact bytesAt_frame hbb (fun i h1 _ => writeAt_get_ge _ _ _ _ (by omega))

/-! ### one name component -/

theorem nameBlock_inv (c : NameCtx) (wr : M (Option Prior)) (hfr : Frame wr) {s s1 : State} {u : Unit}
    (h : (do setCtx c
             let p ← wr
             setCtx .none
             M.modify fun s => { s with mostRecentNameInRdata := p }
             hvPush (p.map fun (q : Prior) => q.ptr)) s = (.ok u, s1)) :
    ∃ p s2, wr { s with gCtx := c } = (.ok p, s2) ∧ s1.octets = s2.octets ∧ s1.cursor = s2.cursor ∧
      s1.gLabels = s2.gLabels ∧ Ext s s1 := by
  simp only [M.bind_apply, setCtx, M.modify_apply] at h
  have hf := hfr { s with gCtx := c }
  cases hw : wr { s with gCtx := c } with
  | mk r s2 =>
    rw [hw] at h hf
    cases r with
    | err e => cases h
    | panic => cases h
    | ok p =>
      simp only [] at h
      generalize hs4 : ({ s2 with gCtx := NameCtx.none, mostRecentNameInRdata := p } : State) = s4 at h
      have e24 : Ext s2 s4 := by rw [← hs4]; constructor <;> simp
      have hs1 : s1 = (hvPush (p.map (·.ptr)) s4).2 := by rw [h]
      obtain ⟨f1, f2, f3, _, _, _⟩ := hvPush_fields s4 (p.map (·.ptr))
      have e41 : Ext s4 s1 := by rw [hs1]; exact ext_hvPush _ _
      refine ⟨p, s2, rfl, ?_, ?_, ?_, Ext.trans (ext_setCtx s c) (Ext.trans hf (Ext.trans e24 e41))⟩
      · rw [hs1, f2, ← hs4]
      · rw [hs1, f3, ← hs4]
      · rw [hs1, f1, ← hs4]

/-- after one name component the name given sits at the old cursor as an item; the label starts
    recorded are label starts of that name -/
theorem nameComp_pos (c : NameCtx) (wr : M (Option Prior)) (n : WName) (hwf : n.WF)
    (hspec : ∀ s, WInv s → NameSpec s n (wr s)) (hfr : Frame wr) {s s1 : State} {u : Unit} (hw : WInv s)
    (h : (do setCtx c
             let p ← wr
             setCtx .none
             M.modify fun s => { s with mostRecentNameInRdata := p }
             hvPush (p.map fun (q : Prior) => q.ptr)) s = (.ok u, s1)) :
    Ext s s1 ∧ Item s1 s.cursor (s1.cursor - s.cursor) ∧ NameIs s1 s.cursor s.mode n ∧
      (∀ g, g ∈ s1.gLabels → g ∈ s.gLabels ∨ PhysLab s1.octets s.cursor g) := by
  obtain ⟨p, s2, hwr, ho, hc, hg, hext⟩ := nameBlock_inv c wr hfr h
  have hwA : WInv { s with gCtx := c } := winv_ext hw (ext_setCtx s c) rfl rfl rfl rfl
  have hs := hspec _ hwA
  have hf := hfr { s with gCtx := c }
  rw [hwr] at hs hf
  obtain ⟨_, _, _, _, _, ⟨ls, hrd, hmt⟩, hck, hprov, hdis⟩ := hs.ok p rfl
  have hcur : s.cursor ≤ s2.cursor := hf.cur
  simp only at hck hrd hmt hprov hdis
  have it2 : Item s2 s.cursor (s2.cursor - s.cursor) := item_of_reads hrd hck (by omega)
  have nm2 : NameIs s2 s.cursor s.mode n := nameIs_of_reads hrd hmt
    (fun hm => rootEndB_of_wire hwf (hdis hm).1 (by have := (hdis hm).2; omega))
  refine ⟨hext, ?_, nameIs_fields nm2 ho hc hg, ?_⟩
  · rw [hc]
    exact item_fields it2 ho hc hg
  · intro g hgm
    rw [hg] at hgm
    rw [ho]
    exact hprov g hgm

/-- a name written without compression: its wire form, verbatim -/
theorem uncompressed_bytes (n : WName) {s s2 : State} {p : Option Prior} (hw : WInv s)
    (h : writeUncompressedName n s = (.ok p, s2)) :
    s2.cursor = s.cursor + n.wire.length ∧ BytesAt s2.octets s.cursor n.wire := by
  rw [writeUncompressedName_eq n s hw.cur_av hw.av_size] at h
  split at h
  · rename_i hfit
    simp only [Prod.mk.injEq, Out.ok.injEq] at h
    obtain ⟨_, hs2⟩ := h
    subst hs2
    refine ⟨rfl, ?_⟩
    show BytesAt (writeAt s.octets s.cursor n.wire) s.cursor n.wire
    exact bytesAt_writeAt _ _ _ (by have := hw.cur_av; have := hw.av_size; omega)
  · cases h

theorem uncompComp_pos (c : NameCtx) (n : WName) {s s1 : State} {u : Unit} (hw : WInv s)
    (h : (do setCtx c
             let p ← writeUncompressedName n
             setCtx .none
             M.modify fun s => { s with mostRecentNameInRdata := p }
             hvPush (p.map fun (q : Prior) => q.ptr)) s = (.ok u, s1)) :
    Ext s s1 ∧ s1.cursor = s.cursor + n.wire.length ∧ BytesAt s1.octets s.cursor n.wire := by
  obtain ⟨p, s2, hwr, ho, hc, hg, hext⟩ := nameBlock_inv c _ (frame_writeUncompressedName n) h
  have hwA : WInv { s with gCtx := c } := winv_ext hw (ext_setCtx s c) rfl rfl rfl rfl
  obtain ⟨h1, h2⟩ := uncompressed_bytes n hwA hwr
  exact ⟨hext, by rw [hc]; exact h1, by rw [ho]; exact h2⟩

/-! ### all components -/

theorem writeComponents_pos {track : Prop} {s0 : State} :
    ∀ (ts : List CompType) (rd : List UInt8) (names loc : List WName) (o : Option Prior) (on : Option WName)
      (s s' : State) (u : Unit), RecSt track s0 s names loc o on → writeComponents ts rd s = (.ok u, s') →
      Ext s s' ∧ ∃ ps, RdAt s' s.mode ts rd s.cursor s'.cursor ps ∧
        (∀ g, g ∈ s'.gLabels → g ∈ s.gLabels ∨ ∃ a ∈ ps, PhysLab s'.octets a g) := by
  intro ts
  induction ts with
  | nil =>
    intro rd names loc o on s s' u hrec h
    unfold writeComponents at h
    split at h
    · rename_i hemp
      cases h
      have : rd = [] := by cases rd with
        | nil => rfl
        | cons _ _ => simp at hemp
      subst this
      exact ⟨Ext.refl s, [], ⟨fun i hi => by simp at hi, rfl, rfl⟩, fun g hg => Or.inl hg⟩
    · obtain ⟨hs', hsz⟩ := tryPush_ok_inv h
      have hroom : rd.length ≤ s.available - s.cursor := by
        unfold tryPush at h
        split at h
        · cases h
        · split at h
          · rename_i hh; exact hh
          · cases h
      have hca := hrec.winv.cur_av
      subst hs'
      exact ⟨ext_push s rd (by omega), [], ⟨bytesAt_writeAt _ _ _ hsz, rfl, rfl⟩, fun g hg => Or.inl hg⟩
  | cons t ts ih =>
    intro rd names loc o on s s' u hrec h
    cases t with
    | compressibleName =>
      unfold writeComponents at h
      cases hp : WName.parse rd with
      | none => rw [hp] at h; cases h
      | some pr =>
        obtain ⟨n, rest⟩ := pr
        rw [hp] at h
        simp only [] at h
        rw [nameBlock_assoc] at h
        obtain ⟨_, s1, h1, h2⟩ := M.bind_ok_inv h
        have r1 := ((sp_nameComp (track := track) (s0 := s0) (names := names) (loc := loc) (o := o) (on := on)
          (writeUnhintedName n) n _ (fun s hw => writeUnhintedName_spec n s hw (parse_wf hp))
          (frame_writeUnhintedName n) (keepsHv_writeUnhintedName n)) s hrec).2 _ s1 h1
        obtain ⟨e1, it1, nm1, pv1⟩ := nameComp_pos _ (writeUnhintedName n) n (parse_wf hp)
          (fun s hw => writeUnhintedName_spec n s hw (parse_wf hp)) (frame_writeUnhintedName n) hrec.winv h1
        obtain ⟨e2, ps', hrest, pv2⟩ := ih rest _ _ _ _ s1 s' _ r1 h2
        refine ⟨Ext.trans e1 e2, s.cursor :: ps', ⟨n, rest, s1.cursor - s.cursor, hp, item_ext it1 e2,
          nameIs_ext nm1 e2, ps', rfl, ?_⟩, ?_⟩
        · rw [show s.cursor + (s1.cursor - s.cursor) = s1.cursor by have := e1.cur; omega, ← e1.mode]
          exact hrest
        · intro g hg
          rcases pv2 g hg with h3 | ⟨a, ha, h3⟩
          · rcases pv1 g h3 with h4 | h4
            · exact Or.inl h4
            · exact Or.inr ⟨s.cursor, List.mem_cons_self, physLab_frame it1.2.1 h4 (fun i _ hi => e2.pre i (by
                have := e1.cur; omega))⟩
          · exact Or.inr ⟨a, List.mem_cons_of_mem _ ha, h3⟩
    | uncompressibleName =>
      unfold writeComponents at h
      cases hp : WName.parse rd with
      | none => rw [hp] at h; cases h
      | some pr =>
        obtain ⟨n, rest⟩ := pr
        rw [hp] at h
        simp only [] at h
        rw [nameBlock_assoc] at h
        obtain ⟨_, s1, h1, h2⟩ := M.bind_ok_inv h
        have r1 := ((sp_nameComp (track := track) (s0 := s0) (names := names) (loc := loc) (o := o) (on := on)
          (writeUncompressedName n) n _ (fun s hw => writeUncompressedName_spec n s hw (parse_wf hp))
          (frame_writeUncompressedName n) (keepsHv_writeUncompressedName n)) s hrec).2 _ s1 h1
        obtain ⟨e1, hc1, hb1⟩ := uncompComp_pos _ n hrec.winv h1
        obtain ⟨_, it1, _, pv1⟩ := nameComp_pos _ (writeUncompressedName n) n (parse_wf hp)
          (fun s hw => writeUncompressedName_spec n s hw (parse_wf hp)) (frame_writeUncompressedName n)
          hrec.winv h1
        obtain ⟨e2, ps', hrest, pv2⟩ := ih rest _ _ _ _ s1 s' _ r1 h2
        refine ⟨Ext.trans e1 e2, s.cursor :: ps', ⟨n, rest, hp, ?_, ps', rfl, ?_⟩, ?_⟩
        · exact bytesAt_frame hb1 (fun i _ h2 => e2.pre i (by omega))
        · rw [← hc1, ← e1.mode]; exact hrest
        · intro g hg
          rcases pv2 g hg with h3 | ⟨a, ha, h3⟩
          · rcases pv1 g h3 with h4 | h4
            · exact Or.inl h4
            · exact Or.inr ⟨s.cursor, List.mem_cons_self, physLab_frame it1.2.1 h4 (fun i _ hi => e2.pre i (by
                have := e1.cur; omega))⟩
          · exact Or.inr ⟨a, List.mem_cons_of_mem _ ha, h3⟩
    | fixedLen k =>
      unfold writeComponents at h
      split at h
      · cases h
      · rename_i hk
        obtain ⟨_, s1, h1, h2⟩ := M.bind_ok_inv h
        have r1 := ((sp_tryPush_rec (track := track) (s0 := s0) (names := names) (loc := loc) (o := o) (on := on)
          (rd.take k)) s hrec).2 _ s1 h1
        obtain ⟨hs1, hsz⟩ := tryPush_ok_inv h1
        have hroom : (rd.take k).length ≤ s.available - s.cursor := by
          unfold tryPush at h1
          split at h1
          · cases h1
          · split at h1
            · rename_i hh; exact hh
            · cases h1
        have hca := hrec.winv.cur_av
        have e1 : Ext s s1 := by rw [hs1]; exact ext_push s _ (by omega)
        have hb1 : BytesAt s1.octets s.cursor (rd.take k) := by rw [hs1]; exact bytesAt_writeAt _ _ _ hsz
        have hc1 : s1.cursor = s.cursor + k := by
          rw [hs1]; show s.cursor + (rd.take k).length = _; rw [List.length_take]; omega
        have hg1 : s1.gLabels = s.gLabels := by rw [hs1]; rfl
        obtain ⟨e2, ps', hrest, pv2⟩ := ih (rd.drop k) _ _ _ _ s1 s' _ r1 h2
        refine ⟨Ext.trans e1 e2, ps', ⟨by omega, ?_, ?_⟩, ?_⟩
        · refine bytesAt_frame hb1 (fun i _ h2 => e2.pre i ?_)
          rw [List.length_take] at h2; omega
        · rw [← hc1, ← e1.mode]; exact hrest
        · intro g hg
          rcases pv2 g hg with h3 | h3
          · exact Or.inl (hg1 ▸ h3)
          · exact Or.inr h3

/-! ### one record -/

/-- RDLENGTH reserved, the RDATA written, RDLENGTH written back: the RDATA lies after the two
    RDLENGTH octets, part by part -/
theorem rdataBlock_pos {track : Prop} {s0 : State} {names : List WName} {o : Option Prior} {on : Option WName}
    (cls ty : Nat) (rd : List UInt8) {s s' : State} {u : Unit} (h : RecSt track s0 s names [] o on)
    (hrun : (do let av ← M.gets (·.available)
                let rdlengthStart ← M.gets (·.cursor)
                if av < rdlengthStart then M.panic
                else if av - rdlengthStart < 2 then M.fail .Truncation
                else do
                  M.modify fun s => { s with cursor := s.cursor + 2 }
                  writeRdata cls ty rd
                  let cur' ← M.gets (·.cursor)
                  if cur' < rdlengthStart + 2 then M.panic
                  else write rdlengthStart (u16be ((cur' - rdlengthStart - 2) % 65536))) s = (.ok u, s')) :
    ∃ ts ps, componentTypes cls ty = some ts ∧ RdAt s' s.mode ts rd (s.cursor + 2) s'.cursor ps ∧
      (∀ g, g ∈ s'.gLabels → g ∈ s.gLabels ∨ ∃ a ∈ ps, PhysLab s'.octets a g) ∧
      (∀ i, i < s.cursor → s'.octets[i]? = s.octets[i]?) := by
  simp only [M.bind_apply, M.gets_apply] at hrun
  have hav := h.winv.cur_av; have hsz := h.winv.av_size
  split at hrun
  · cases hrun
  · split at hrun
    · cases hrun
    · rename_i hfit
      simp only [M.bind_apply, M.modify_apply] at hrun
      have e1 : Ext s { s with cursor := s.cursor + 2 } := by
        constructor <;> simp
        omega
      have w1 : WInv { s with cursor := s.cursor + 2 } := by
        have w := winv_ext h.winv e1 rfl rfl rfl rfl
        exact ⟨w.c12, by show s.cursor + 2 ≤ s.available; omega, w.av_size, w.g12, w.labs, w.qn, w.ow, w.rd, w.clabs⟩
      have h1 : RecSt track s0 { s with cursor := s.cursor + 2 } names [] o on := recSt_step h e1 w1 rfl rfl rfl
      cases hw : writeRdata cls ty rd { s with cursor := s.cursor + 2 } with
      | mk r s2 =>
        rw [hw] at hrun
        cases r with
        | err e => cases hrun
        | panic => cases hrun
        | ok u2 =>
          simp only [M.gets_apply] at hrun
          split at hrun
          · cases hrun
          · obtain ⟨_, hs'⟩ := write_ok_inv _ _ _ _ _ hrun
            unfold writeRdata at hw
            cases hct : componentTypes cls ty with
            | none => rw [hct] at hw; cases hw
            | some ts =>
              rw [hct] at hw
              simp only [] at hw
              obtain ⟨e2, ps, hrd, pv⟩ := writeComponents_pos ts rd names [] o on _ s2 u2 h1 hw
              refine ⟨ts, ps, rfl, ?_, ?_, ?_⟩
              · rw [hs']
                exact rdAt_patch h.winv _ rfl e2 hrd (Nat.le_refl _)
              · intro g hg
                rw [hs'] at hg
                rcases pv g hg with h3 | ⟨a, ha, h3⟩
                · exact Or.inl h3
                · refine Or.inr ⟨a, ha, ?_⟩
                  obtain ⟨hpa, k, hck, _⟩ := rdAt_chunk hrd a ha
                  rw [hs']
                  exact physLab_frame hck h3 (fun i h4 _ => writeAt_get_ge _ _ _ _ (by
                    show s.cursor + (u16be _).length ≤ i
                    have : ∀ x, (u16be x).length = 2 := fun _ => rfl
                    rw [this]
                    have : s.cursor + 2 ≤ a := hpa
                    omega))
              · intro i hi
                rw [hs']
                show (writeAt s2.octets s.cursor _)[i]? = _
                rw [writeAt_get_lt _ _ _ _ hi]
                exact e2.pre i (by show i < s.cursor + 2; omega)

/-- **where the RDATA of one record is**: after a successful `add_rr`, behind the owner (`k`
    octets), the fixed fields and RDLENGTH, the RDATA given lies part by part; and the label starts
    recorded meanwhile are label starts of the owner or of the names inside the RDATA -/
theorem addRr_rd (hint : Hint) (owner : WName) (ty cls ttl : Nat) (rd : List UInt8) (s s' : State)
    (hw : WInv s) (hl : PtrLogOK s) (hwf : owner.WF) (hh : HintOK s hint owner)
    (h : addRr hint owner ty cls ttl rd s = (.ok (), s')) :
    ∃ ts k ps, componentTypes cls ty = some ts ∧ RdAt s' s.mode ts rd (s.cursor + k + 10) s'.cursor ps ∧
      (∃ p sB, writeHintedName hint owner { s with gCtx := .owner } = (.ok p, sB) ∧ sB.cursor = s.cursor + k) ∧
      (∀ g, g ∈ s'.gLabels → g ∈ s.gLabels ∨ ∃ a ∈ s.cursor :: ps, PhysLab s'.octets a g) := by
  rw [addRr_eq] at h
  obtain ⟨_, s1, h1, h⟩ := M.bind_ok_inv h
  obtain ⟨_, s2, h2, h⟩ := M.bind_ok_inv h
  obtain ⟨_, s3, h3, h⟩ := M.bind_ok_inv h
  obtain ⟨_, s4, h4, h⟩ := M.bind_ok_inv h
  have r0 := recSt_init hw hl
  obtain ⟨po, r1⟩ := ((sp_ownerBlock hint owner hwf) s ⟨r0, hh⟩).2 _ s1 h1
  unfold tryPushU16 at h2 h3
  unfold tryPushU32 at h4
  have r2 := ((sp_tryPush_rec (u16be ty)) s1 r1).2 _ s2 h2
  have r3 := ((sp_tryPush_rec (u16be cls)) s2 r2).2 _ s3 h3
  have r4 := ((sp_tryPush_rec (u32be ttl)) s3 r3).2 _ s4 h4
  obtain ⟨ts, ps, hct, hrd, pv, hpre4⟩ := rdataBlock_pos cls ty rd r4 h
  obtain ⟨e2, _⟩ := tryPush_ok_inv h2
  obtain ⟨e3, _⟩ := tryPush_ok_inv h3
  obtain ⟨e4, _⟩ := tryPush_ok_inv h4
  -- the owner block
  simp only [M.bind_apply, setCtx, M.modify_apply] at h1
  have e0 := ext_setCtx s .owner
  have hwA : WInv { s with gCtx := .owner } := winv_ext hw e0 rfl rfl rfl rfl
  have hhA : HintOK { s with gCtx := .owner } hint owner := hintOK_ext hh e0 rfl rfl rfl rfl
  have hs := writeHintedName_spec hint owner _ hwA hwf hhA
  have hf := frame_writeHintedName hint owner { s with gCtx := .owner }
  cases hwn : writeHintedName hint owner { s with gCtx := .owner } with
  | mk r sB =>
    rw [hwn] at h1 hf hs
    cases r with
    | err e => cases h1
    | panic => cases h1
    | ok p =>
      simp only [Prod.mk.injEq, true_and] at h1
      obtain ⟨_, _, _, _, _, _, hck, hprovB, _⟩ := hs.ok p rfl
      simp only at hck hprovB
      have hcurB : s.cursor ≤ sB.cursor := hf.cur
      have c1 : s1.cursor = sB.cursor := by rw [← h1]
      have g1 : s1.gLabels = sB.gLabels := by rw [← h1]
      have o1 : s1.octets = sB.octets := by rw [← h1]
      have hl2 : ∀ x, (u16be x).length = 2 := fun _ => rfl
      have hl4 : ∀ x, (u32be x).length = 4 := fun _ => rfl
      have c2 : s2.cursor = sB.cursor + 2 := by rw [e2]; simp [pushed, hl2, c1]
      have c3 : s3.cursor = sB.cursor + 4 := by rw [e3]; simp [pushed, hl2, c2]
      have c4 : s4.cursor = sB.cursor + 8 := by rw [e4]; simp [pushed, hl4, c3]
      have g4 : s4.gLabels = sB.gLabels := by rw [e4, e3, e2]; simp [pushed, g1]
      have pre4 : ∀ i, i < sB.cursor → s4.octets[i]? = sB.octets[i]? := by
        intro i hi
        rw [e4, pushed_get_lt _ _ _ (by omega), e3, pushed_get_lt _ _ _ (by omega), e2,
          pushed_get_lt _ _ _ (by omega), o1]
      refine ⟨ts, sB.cursor - s.cursor, ps, hct, ?_, ⟨p, sB, rfl, by omega⟩, ?_⟩
      · rw [show s.cursor + (sB.cursor - s.cursor) + 10 = s4.cursor + 2 by omega, ← r4.ext.mode]
        exact hrd
      · intro g hg
        rcases pv g hg with h5 | ⟨a, ha, h5⟩
        · rw [g4] at h5
          rcases hprovB g h5 with h6 | h6
          · exact Or.inl h6
          · refine Or.inr ⟨s.cursor, List.mem_cons_self, physLab_frame hck h6 (fun i _ hi => ?_)⟩
            rw [hpre4 i (by omega), pre4 i (by omega)]
        · exact Or.inr ⟨a, List.mem_cons_of_mem _ ha, h5⟩

end QV.Writer
