/-
  QV.Proofs.NameWireExec — the executable RFC 1035 §4.1.4 decoder of the specification
  (`QV.Spec.specDecodeName`, fuel-based, used as oracle by every message-level audit) is *exactly*
  the declarative relation `DecodesName`:

      specDecodeName msg s = some (w, n, k)  ↔  DecodesName msg s w n k

  Soundness is an induction on the fuel; completeness needs that the fuel the decoder gives itself
  (`size² + size + 2`) always suffices: every step either advances inside the message or moves to a
  strictly earlier chunk, so a derivation at `(pos, cs)` has at most
  `cs·(size+1) + (size − pos) + 1` steps.

  Corollary: the executable spec decoder and the model of the Rust parser (C14) agree everywhere.
-/
import QV.Spec.NameWire
import QV.Properties.C14

namespace QV.Spec
open QV

theorem getElem?_some_iff (msg : Bytes) (pos : Nat) (b : UInt8) :
    msg[pos]? = some b ↔ ∃ h : pos < msg.size, msg[pos] = b := by
  constructor
  · intro h
    have hlt : pos < msg.size := by
      by_cases hc : pos < msg.size
      · exact hc
      · rw [Array.getElem?_eq_none (by omega)] at h; cases h
    rw [Array.getElem?_eq_getElem hlt] at h
    exact ⟨hlt, Option.some.inj h⟩
  · intro ⟨hlt, e⟩
    rw [Array.getElem?_eq_getElem hlt, e]

/-- **soundness**: whatever the executable walk returns is a derivation of the RFC relation -/
theorem specWalk_sound (msg : Bytes) : ∀ (fuel pos cs : Nat) (ls : List (List UInt8)) (k : Nat),
    specWalk msg fuel pos cs = some (ls, k) → Decodes msg pos cs ls.flatten ls.length k := by
  intro fuel
  induction fuel with
  | zero => intro pos cs ls k h; simp [specWalk] at h
  | succ f ih =>
    intro pos cs ls k h
    unfold specWalk at h
    cases hb : msg[pos]? with
    | none => rw [hb] at h; cases h
    | some b =>
      rw [hb] at h
      obtain ⟨hlt, hbe⟩ := (getElem?_some_iff msg pos b).mp hb
      simp only at h
      by_cases h0 : b = 0
      · simp only [h0, if_true] at h
        cases h
        exact Decodes.null hlt (by rw [hbe, h0])
      · simp only [h0, if_false] at h
        by_cases h63 : b.toNat ≤ 63
        · simp only [h63, if_true] at h
          by_cases hin : pos + b.toNat + 1 ≤ msg.size
          · simp only [hin, if_true] at h
            cases hr : specWalk msg f (pos + b.toNat + 1) cs with
            | none => rw [hr] at h; cases h
            | some r =>
              obtain ⟨ls', k'⟩ := r
              rw [hr] at h
              cases h
              have hd := ih _ _ _ _ hr
              subst hbe
              simp only [List.flatten_cons, List.length_cons]
              exact Decodes.label hlt h0 h63 hin hd
          · simp only [hin, if_false] at h; cases h
        · simp only [h63, if_false] at h
          by_cases hp : 192 ≤ b.toNat
          · simp only [hp, if_true] at h
            cases hb2 : msg[pos + 1]? with
            | none => rw [hb2] at h; cases h
            | some b2 =>
              rw [hb2] at h
              obtain ⟨hlt2, hbe2⟩ := (getElem?_some_iff msg (pos + 1) b2).mp hb2
              simp only at h
              by_cases ht : (b.toNat - 192) * 256 + b2.toNat < cs
              · simp only [ht, if_true] at h
                cases hr : specWalk msg f ((b.toNat - 192) * 256 + b2.toNat) ((b.toNat - 192) * 256 + b2.toNat) with
                | none => rw [hr] at h; cases h
                | some r =>
                  obtain ⟨ls', k'⟩ := r
                  rw [hr] at h
                  cases h
                  have hd := ih _ _ _ _ hr
                  subst hbe hbe2
                  exact Decodes.ptr hlt2 hp ht hd
              · simp only [ht, if_false] at h; cases h
          · simp only [hp, if_false] at h; cases h

/-- **completeness with fuel**: a derivation at `(pos, cs)` is found by the walk as soon as the fuel
    covers `cs·(size+1) + (size − pos) + 1` steps -/
theorem specWalk_complete (msg : Bytes) {pos cs : Nat} {w : List UInt8} {n k : Nat}
    (hd : Decodes msg pos cs w n k) :
    ∀ fuel, cs ≤ msg.size → cs * (msg.size + 1) + (msg.size - pos) + 1 ≤ fuel →
      ∃ ls, specWalk msg fuel pos cs = some (ls, k) ∧ ls.flatten = w ∧ ls.length = n := by
  induction hd with
  | @null pos cs h h0 =>
    intro fuel hcs hf
    obtain ⟨f, rfl⟩ : ∃ f, fuel = f + 1 := ⟨fuel - 1, by omega⟩
    refine ⟨[[0]], ?_, rfl, rfl⟩
    unfold specWalk
    rw [Array.getElem?_eq_getElem h]
    simp [h0]
  | @label pos cs w n k h h0 h63 hin rest ih =>
    intro fuel hcs hf
    obtain ⟨f, rfl⟩ : ∃ f, fuel = f + 1 := ⟨fuel - 1, by omega⟩
    obtain ⟨ls, hw, hfl, hlen⟩ := ih f hcs (by omega)
    refine ⟨(msg.extract pos (pos + msg[pos].toNat + 1)).toList :: ls, ?_, by simp [hfl], by simp [hlen]⟩
    unfold specWalk
    rw [Array.getElem?_eq_getElem h]
    simp only [h0, if_false, h63, if_true, hin, hw]
  | @ptr pos cs w n k h hp hb rest ih =>
    intro fuel hcs hf
    obtain ⟨f, rfl⟩ : ∃ f, fuel = f + 1 := ⟨fuel - 1, by omega⟩
    have hlt : pos < msg.size := by omega
    unfold specIsPtr at hp
    unfold specPtr at hb ih
    have hmul : (((msg[pos]'hlt).toNat - 192) * 256 + (msg[pos + 1]'h).toNat + 1) * (msg.size + 1) ≤ cs * (msg.size + 1) :=
      Nat.mul_le_mul_right _ (by omega)
    rw [Nat.add_mul, Nat.one_mul] at hmul
    obtain ⟨ls, hw, hfl, hlen⟩ := ih f (by omega) (by omega)
    refine ⟨ls, ?_, hfl, hlen⟩
    unfold specWalk
    rw [Array.getElem?_eq_getElem hlt, Array.getElem?_eq_getElem h]
    have e0 : ¬ (msg[pos]'hlt) = 0 := by
      intro e
      have : (msg[pos]'hlt).toNat = 0 := by rw [e]; rfl
      omega
    have e63 : ¬ (msg[pos]'hlt).toNat ≤ 63 := by omega
    simp only [e0, if_false, e63, hp, if_true, hb, hw]

theorem decodes_pos_lt {msg : Bytes} {pos cs : Nat} {w : List UInt8} {n k : Nat}
    (hd : Decodes msg pos cs w n k) : pos < msg.size := by
  cases hd <;> omega

/-- **the executable spec decoder is exactly the RFC relation** -/
theorem specDecodeName_iff (msg : Bytes) (start : Nat) (w : List UInt8) (n k : Nat) :
    specDecodeName msg start = some (w, n, k) ↔ DecodesName msg start w n k := by
  unfold specDecodeName DecodesName
  constructor
  · intro h
    cases hr : specWalk msg (msg.size * msg.size + msg.size + 2) start start with
    | none => rw [hr] at h; cases h
    | some r =>
      obtain ⟨ls, k'⟩ := r
      rw [hr] at h
      simp only at h
      by_cases hl : ls.flatten.length ≤ 255
      · simp only [hl, if_true, Option.some.injEq, Prod.mk.injEq] at h
        obtain ⟨rfl, rfl, rfl⟩ := h
        exact ⟨specWalk_sound _ _ _ _ _ _ hr, hl⟩
      · simp only [hl, if_false] at h; cases h
  · intro ⟨hd, hl⟩
    have hlt := decodes_pos_lt hd
    have hm : start * msg.size ≤ msg.size * msg.size := Nat.mul_le_mul_right _ (by omega)
    have hs : start * (msg.size + 1) = start * msg.size + start := Nat.mul_succ _ _
    obtain ⟨ls, hw, hfl, hlen⟩ := specWalk_complete msg hd (msg.size * msg.size + msg.size + 2) (by omega)
      (by omega)
    rw [hw]
    simp only [hfl, hl, if_true, hlen]

/-- … hence it agrees with the model of the Rust parser on every buffer and offset (C14) -/
theorem specDecodeName_eq_parse (msg : Bytes) (s : Nat) :
    specDecodeName msg s =
      match Wire.parseCompressed msg s with
      | .ok p => some (p.wire, p.nlabels, p.len)
      | _ => none := by
  cases hp : Wire.parseCompressed msg s with
  | ok p =>
    exact (specDecodeName_iff _ _ _ _ _).mpr ((C14.C14_parse_ok_iff msg s p).mp hp)
  | err e =>
    cases hs : specDecodeName msg s with
    | none => rfl
    | some r =>
      obtain ⟨w, n, k⟩ := r
      have := (C14.C14_parse_ok_iff msg s ⟨w, n, k⟩).mpr ((specDecodeName_iff _ _ _ _ _).mp hs)
      rw [hp] at this; cases this
  | panic => exact absurd hp (C14.C14_no_panic _ _)

end QV.Spec
