/-
  QV.Proofs.ServerSignedOwner — the writer that `handle_message` hands to `finish` satisfies the
  writer's invariant `I` for *every* request (srvsafe's `prog_safe`, instantiated with the writer's
  own interface instance); hence, by C13's `finish_tsig_owner_decodes`, the owner of the TSIG record
  of every signed response — answers from loaded zones included — decodes, at the position where
  the record starts, to the key name.
-/
import QV.Proofs.ServerSigned
import QV.Proofs.FinishTsigOwner
import QV.Proofs.ServerEcho

namespace QV.ServerScan
open QV QV.Wire QV.Reader QV.Writer

/-- the final writer of `handle_message` (any request with a full header that is not a response) -/
theorem final_writer_I (cfg : Server.Cfg) (hcfg : ServerSafety.CfgWF cfg) (tr : Server.Transport)
    (now bufLen : Nat) (req : Bytes) (hbuf : minBuf tr cfg.payload ≤ bufLen) (hnow : now < 2^48)
    (hpay : 512 ≤ cfg.payload) (hreq : req.size ≤ Rdata.USIZE_MAX) (h12 : 12 ≤ req.size) (id opc : Nat) (rdv : Bool) :
    Writer.I (Server.handleWithContext cfg tr now ⟨req, 12, none⟩ (hdrSt (w0 bufLen (lim0 tr)) id opc rdv)).2 := by
  have hmin : 12 ≤ min (lim0 tr) bufLen := by
    cases tr <;> simp only [lim0, minBuf] at hbuf ⊢ <;> omega
  have hl : lim0 tr ≤ 65535 := by cases tr <;> simp [lim0]
  have hnew := new_eq bufLen (lim0 tr) hmin
  have hsz : 3 < (w0 bufLen (lim0 tr)).octets.size := by
    rw [w0_size]; cases tr <;> simp only [minBuf] at hbuf <;> omega
  have hr0 : ServerSafety.RInv (⟨req, 12, none⟩ : Reader) :=
    ⟨⟨h12, h12⟩, Nat.le_refl _, by unfold Rdata.USIZE_MAX at hreq; show req.size < 2^64; omega⟩
  have := (ServerSafety.prog_safe Writer.writerSafe cfg hcfg tr now hnow ⟨req, 12, none⟩ hr0 id opc rdv
    (w0 bufLen (lim0 tr)) (Writer.writerSafe.new_I _ _ _ hl hnew) rfl rfl).1.2
  have e : ServerSafety.prog cfg tr now ⟨req, 12, none⟩ id opc rdv (w0 bufLen (lim0 tr)) =
      Server.handleWithContext cfg tr now ⟨req, 12, none⟩ (hdrSt (w0 bufLen (lim0 tr)) id opc rdv) := by
    unfold ServerSafety.prog
    simp only []
    rw [hdr_prog _ _ _ _ _ hsz]
  rw [e] at this
  exact this

/-- **every signed response, answers included: the TSIG record is last and its owner decodes to the
    key name.**  With `w1` the writer `handle_message` hands to `finish` (`answerState`) and `ts` its
    pending TSIG: the response is `pre ++ TSIG record` with `pre` = `w1`'s content and the OPT (iff
    its EDNS slot is set), the MAC is `macFn ts pre` (none if unsigned), and at position `|pre|` the
    independent name decoder reads, on the response, the key name — up to ASCII case, with its label
    count — whatever compression did to it. -/
theorem response_tsig_owner_decodes (cfg : Server.Cfg) (hcfg : ServerSafety.CfgWF cfg) (tr : Server.Transport)
    (now bufLen : Nat) (req : Bytes) (hbuf : minBuf tr cfg.payload ≤ bufLen) (hpay : 512 ≤ cfg.payload)
    (hnow : now < 2^48) (hreq : req.size ≤ Rdata.USIZE_MAX) (b : Bytes)
    (hb : Server.handleMessage cfg tr now bufLen req = .ok (some b))
    (ts : Writer.Tsig) (hts : (answerState cfg tr now bufLen req).tsig = some ts) :
    ∃ oe mac w k,
      mac = finishMac Server.macFn ts (finishPrefix (answerState cfg tr now bufLen req) ++
        optEnc (answerState cfg tr now bufLen req).edns) ∧
      b.toList = finishPrefix (answerState cfg tr now bufLen req) ++
        optEnc (answerState cfg tr now bufLen req).edns ++ tsigRecordOctets oe ts mac ∧
      NameShape ts.rr.keyName oe ∧
      Spec.specDecodeName b (finishPrefix (answerState cfg tr now bufLen req) ++
        optEnc (answerState cfg tr now bufLen req).edns).length = some (w, ts.rr.keyName.len, k) ∧
      w.map lowerU8 = ts.rr.keyName.wire.map lowerU8 := by
  have h12 : 12 ≤ req.size := by
    by_cases hc : req.size < 12
    · rw [handleMessage_short cfg tr now bufLen req hbuf hc] at hb; cases hb
    · omega
  have hqr : (req.getD 2 0).toNat < 128 := by
    by_cases hc : (req.getD 2 0).toNat ≥ 128
    · rw [handleMessage_qr cfg tr now bufLen req hbuf h12 hc] at hb; cases hb
    · omega
  have hI := final_writer_I cfg hcfg tr now bufLen req hbuf hnow hpay hreq h12 (Spec.Server.hdr req 0)
    (((req.getD 2 0).toNat &&& 120) >>> 3) (((req.getD 2 0).toNat &&& 1) != 0)
  rw [handleMessage_eq cfg tr now bufLen req hbuf hpay h12 hqr] at hb
  unfold answerState at hts ⊢
  generalize Server.handleWithContext cfg tr now ⟨req, 12, none⟩
      (hdrSt (w0 bufLen (lim0 tr)) (Spec.Server.hdr req 0) (((req.getD 2 0).toNat &&& 120) >>> 3)
        (((req.getD 2 0).toNat &&& 1) != 0)) = R at hb hI hts ⊢
  obtain ⟨o, w1⟩ := R
  cases o with
  | err e => cases hb
  | panic => cases hb
  | ok bb =>
    cases bb with
    | false => cases hb
    | true =>
      simp only at hb hI hts ⊢
      rcases hf : Writer.finish w1 Server.macFn with ⟨bytes, mac⟩ | e | _
      · rw [hf] at hb
        simp only [Out.ok.injEq, Option.some.injEq] at hb
        subst hb
        obtain ⟨_, hmac, oe, sT, hoe, _, _, _, hbl⟩ := finish_octets_tsig Server.macFn w1 hI.inv.hdr ts hts bytes mac hf
        obtain ⟨w, k, hd, _, hcase, _⟩ := finish_tsig_owner_decodes Server.macFn
          (ServerSafety.macLenOK_server ServerSafety.hmacLenOK) w1 hI ts hts bytes mac hf
        exact ⟨oe, mac, w, k, hmac, hbl, nameEnc_none_shape hoe, hd, hcase⟩
      · rw [hf] at hb; cases hb
      · rw [hf] at hb; cases hb

end QV.ServerScan
