import QV.Proofs.ServerSignedTable
import QV.Proofs.WriterExtents

/-!
# Where `finish` puts the TSIG record

`finish_tsig_pos`: in the decoded response of a writer with a pending TSIG, the last record of the
additional section starts where the writer's content plus the OPT record (iff the EDNS slot is set)
end — so the octets before it are exactly what `finish` hands to the MAC (`finish_octets_tsig`).
-/

namespace QV.Writer
open QV QV.Spec

theorem rchainC_split {s : State} : ∀ (rs1 rs2 : List RItC) (p e : Nat), RChainC s (rs1 ++ rs2) p e →
    ∃ mid, RChainC s rs1 p mid ∧ RChainC s rs2 mid e := by
  intro rs1
  induction rs1 with
  | nil => intro rs2 p e h; exact ⟨p, rfl, h⟩
  | cons x r ih =>
    intro rs2 p e h
    obtain ⟨h1, h2, h3⟩ := h
    obtain ⟨mid, m1, m2⟩ := ih rs2 _ e h3
    exact ⟨mid, ⟨h1, h2, m1⟩, m2⟩

/-- the end of a chain is determined by its items -/
theorem rchainC_end_indep {s s' : State} : ∀ (rs : List RItC) (p e e' : Nat), RChainC s rs p e →
    RChainC s' rs p e' → e = e' := by
  intro rs
  induction rs with
  | nil => intro p e e' h h'; exact h.symm.trans h'
  | cons x r ih =>
    intro p e e' h h'
    exact ih _ e e' h.2.2 h'.2.2

/-- two chains over the same octets between the same positions have the same length -/
theorem rchainC_length_unique {s : State} (hw : WInv s) (rs rs' : List RItC) (p e : Nat)
    (h : RChainC s rs p e) (h' : RChainC s rs' p e) : rs.length = rs'.length := by
  have a := rchainC_prefix hw rs rs' p e e h h' (Nat.le_refl _)
  have b := rchainC_prefix hw rs' rs p e e h' h (Nat.le_refl _)
  have la := congrArg List.length a
  have lb := congrArg List.length b
  simp only [List.length_take, List.length_map] at la lb
  omega

/-- a name chunk that starts with the root label is one octet long -/
theorem chunkAt_root {oct : Bytes} {a k : Nat} (h : ChunkAt oct a k) (h0 : oct[a]? = some 0) : k = 1 := by
  obtain ⟨pre, b, hwf, hb, hk⟩ := h
  cases pre with
  | nil =>
    have := hb 0 (by simp)
    simp only [List.flatMap_nil, List.nil_append, Nat.add_zero, List.getElem?_cons_zero] at this
    rw [h0] at this
    simp only [Option.some.injEq] at this
    subst this
    rcases hk with ⟨_, rfl⟩ | ⟨hp, _⟩
    · rfl
    · exact absurd hp (by decide)
  | cons l ls =>
    exfalso
    have := hb 0 (by simp [WName.encLabel])
    simp only [List.flatMap_cons, WName.encLabel, List.cons_append, Nat.add_zero, List.getElem?_cons_zero] at this
    rw [h0] at this
    simp only [Option.some.injEq] at this
    have hl := hwf l List.mem_cons_self
    have := congrArg UInt8.toNat this
    simp only [UInt8.toNat_ofNat', Nat.reducePow] at this
    have : (0 : UInt8).toNat = 0 := rfl
    omega

/-- **the TSIG record starts where the MAC input ends.**  Whatever `finish` returns from a valid writer
    with a pending TSIG: in its decoding, the last additional record is at position
    `cursor + (11 if the EDNS slot is set)` -/
theorem finish_tsig_pos (macFn : Tsig → List UInt8 → List UInt8) (s : State) (b : Body) (mb : MBody)
    (hI : I s) (hL : CLay (fun _ => True) s b mb) (ts : Tsig) (hts : s.tsig = some ts)
    (m : Bytes) (mac : Option (List UInt8)) (hf : finish s macFn = .ok (m, mac)) (hsz : m.size ≤ 65535)
    (d : DMsg) (hd : specDecodeMsg m = some d) :
    ∃ rest o, d.ar = rest ++ [o] ∧ o.pos = s.cursor + (if s.edns.isSome then 11 else 0) := by
  obtain ⟨hcs, _, oe, sT, _, _, _, _, hlist⟩ := finish_octets_tsig macFn s hI.inv.hdr ts hts m mac hf
  unfold finish at hf
  cases hw : finishWithMac macFn s with
  | mk r sF =>
    rw [hw] at hf
    cases r with
    | err e => cases hf
    | panic => cases hf
    | ok p =>
      obtain ⟨len, mc⟩ := p
      simp only [Out.ok.injEq, Prod.mk.injEq] at hf
      obtain ⟨hm, hmc⟩ := hf
      subst hmc
      obtain ⟨hlim, hlc, hszF⟩ := finishWithMac_len macFn s hI.inv len mc sF hw
      have hls := hI.inv.lim_size
      have hcF : sF.cursor ≤ sF.octets.size := by omega
      have hmsz : m.size = sF.cursor := by rw [← hm, hlc]; exact extract_size _ _ hcF
      have hle : sF.cursor ≤ 65535 := by omega
      obtain ⟨wF, _, hhdr, hcnt, qs, rs, hq, hr, hqm, hrm, hqP, hrP, _, _, rs0, ex, hrs, _, hr0, _⟩ :=
        finishWithMac_finLayC (P := fun _ => True) macFn s b mb hI hL len mc sF hw hle
      rw [hlc] at hm
      subst hm
      have hsz' := extract_size sF.octets sF.cursor hcF
      have h12 : 12 ≤ sF.cursor := wF.c12
      have hl2 : ∀ x, (u16be x).length = 2 := fun _ => rfl
      obtain ⟨c123, c4⟩ := bytesAt_append hcnt
      obtain ⟨c12, c3⟩ := bytesAt_append c123
      obtain ⟨c1, c2⟩ := bytesAt_append c12
      simp only [List.length_append, hl2] at c2 c3 c4
      have e4 : be16 (sF.octets.extract 0 sF.cursor) 4 = s.qdcount := by
        rw [be16_extract _ _ _ hcF (by omega)]; exact be16_of_bytesAt c1 (by have := hI.inv.qd; omega)
      have e6 : be16 (sF.octets.extract 0 sF.cursor) 6 = s.ancount := by
        rw [be16_extract _ _ _ hcF (by omega)]; exact be16_of_bytesAt c2 (by have := hI.inv.an; omega)
      have e8 : be16 (sF.octets.extract 0 sF.cursor) 8 = s.nscount := by
        rw [be16_extract _ _ _ hcF (by omega)]; exact be16_of_bytesAt c3 (by have := hI.inv.ns; omega)
      have e10 : be16 (sF.octets.extract 0 sF.cursor) 10 = s.arcount := by
        rw [be16_extract _ _ _ hcF (by omega)]; exact be16_of_bytesAt c4 (by have := hI.inv.ar; omega)
      have hql : qs.length = s.qdcount := by
        have := congrArg List.length hqm; rw [List.length_map] at this; rw [this, hL.qd]
      have hpl : (optRecs' s.edns ++ tsigRecs s.tsig mc).length = pend s := by
        unfold pend
        cases s.edns <;> cases s.tsig <;> simp [optRecs', tsigRecs]
      have hrl : rs.length = s.ancount + s.nscount + s.arcount := by
        have := congrArg List.length hrm
        rw [List.length_map] at this
        rw [this, hL.an, hL.ns, hL.ar]
        simp only [List.length_append] at hpl ⊢
        omega
      have hrrle : s.rrStart ≤ sF.cursor := rchainC_le hr
      obtain ⟨lq, hdq, hmq⟩ := decodeQuestions_chainC sF wF qs 12 s.rrStart hq hrrle
      rw [hql] at hdq
      obtain ⟨la, p2, hda, hma, hch2⟩ := decodeRrs_chainC sF wF _ _ _ hr (Nat.le_refl _) s.ancount (by omega)
      obtain ⟨ln, p3, hdn, hmn, hch3⟩ := decodeRrs_chainC sF wF _ _ _ hch2 (Nat.le_refl _) s.nscount
        (by rw [List.length_drop]; omega)
      obtain ⟨lr, p4, hdr, hmr, hch4⟩ := decodeRrs_chainC sF wF _ _ _ hch3 (Nat.le_refl _) s.arcount
        (by rw [List.length_drop, List.length_drop]; omega)
      have hnil : (((rs.drop s.ancount).drop s.nscount).drop s.arcount) = [] := by
        apply List.eq_nil_of_length_eq_zero
        rw [List.length_drop, List.length_drop, List.length_drop]; omega
      rw [hnil] at hch4
      have hp4 : p4 = sF.cursor := hch4
      have htk : ((rs.drop s.ancount).drop s.nscount).take s.arcount = (rs.drop s.ancount).drop s.nscount := by
        apply List.take_of_length_le
        rw [List.length_drop, List.length_drop]; omega
      rw [htk] at hmr
      -- the decoding is this one
      have hdar : d.ar = lr := by
        unfold specDecodeMsg at hd
        rw [if_neg (by rw [hsz']; omega)] at hd
        rw [specField16_some (by rw [hsz']; omega), specField16_some (by rw [hsz']; omega),
          specField16_some (by rw [hsz']; omega), specField16_some (by rw [hsz']; omega),
          specField16_some (by rw [hsz']; omega), specField16_some (by rw [hsz']; omega)] at hd
        simp only [e4, e6, e8, e10, hdq, hda, hdn, hdr] at hd
        rw [if_pos (by rw [hp4, hsz'])] at hd
        simp only [Option.some.injEq] at hd
        rw [← hd]
      rw [hdar]
      -- the items: those of the state before `finish`, then the pseudo-records
      have hmid : s.cursor ≤ sF.cursor := by
        rw [hrs] at hr
        obtain ⟨mid, hm1, hm2⟩ := rchainC_split rs0 ex _ _ hr
        have := rchainC_end_indep rs0 _ _ _ hm1 hr0
        have := rchainC_le hm2
        omega
      obtain ⟨rs', hr', hrm', _⟩ := hL.r (by omega)
      have hl0 : rs0.length = b.an.length + b.ns.length + b.ar.length := by
        rw [rchainC_length_unique hI.winv rs0 rs' _ _ hr0 hr']
        have := congrArg List.length hrm'
        simp only [List.length_map, List.length_append] at this
        exact this
      subst hrs
      obtain ⟨mid, hm1, hm2⟩ := rchainC_split rs0 ex _ _ hr
      have emid : mid = s.cursor := rchainC_end_indep rs0 _ _ _ hm1 hr0
      subst emid
      have hexl : ex.length = (if s.edns.isSome then 1 else 0) + 1 := by
        rw [List.length_append] at hrl
        rw [hL.an, hL.ns, hL.ar] at hrl
        unfold pend at hrl
        rw [hts] at hrl
        simp only [Option.isSome_some, if_true] at hrl
        omega
      have hdrop : ((rs0 ++ ex).drop s.ancount).drop s.nscount = rs0.drop (s.ancount + s.nscount) ++ ex := by
        rw [List.drop_drop, List.drop_append_of_le_length (by rw [hl0, hL.an, hL.ns]; omega)]
      rw [hdrop] at hmr
      -- the octets of the OPT record
      have hpl' : (finishPrefix s).length = s.cursor := by
        have := hI.inv.hdr
        simp only [finishPrefix, List.length_append, List.length_take, Array.length_toList, Array.size_extract]
        have : ∀ x, (u16be x).length = 2 := fun _ => rfl
        simp only [this]
        omega
      have hopt : ∀ j, j < (optEnc s.edns).length → sF.octets[s.cursor + j]? = (optEnc s.edns)[j]? := by
        intro j hj
        have hlen := congrArg List.length hlist
        simp only [Array.length_toList, List.length_append] at hlen
        have h1 : (sF.octets.extract 0 sF.cursor).toList[s.cursor + j]? = sF.octets[s.cursor + j]? := by
          rw [Array.getElem?_toList, Array.getElem?_extract, if_pos (by rw [hsz'] at hlen; omega)]
          simp
        rw [← h1, hlist, List.append_assoc, List.getElem?_append_right (by omega), hpl',
          show s.cursor + j - s.cursor = j by omega, List.getElem?_append_left hj]
      cases hed : s.edns with
      | none =>
        rw [hed] at hexl
        simp only [Option.isSome_none, Bool.false_eq_true, if_false, Nat.zero_add] at hexl ⊢
        match ex, hexl with
        | [it], _ =>
          obtain ⟨rest, o, hlr, _, hro⟩ := QV.ServerScan.all2_snoc hmr
          exact ⟨rest, o, hlr, by rw [hro.2.2.2.2.2.1, hm2.1]; rfl⟩
      | some e =>
        rw [hed] at hexl hopt
        simp only [Option.isSome_some, if_true] at hexl ⊢
        match ex, hexl with
        | [x, it], _ =>
          rw [show rs0.drop (s.ancount + s.nscount) ++ [x, it] = (rs0.drop (s.ancount + s.nscount) ++ [x]) ++ [it] by simp]
            at hmr
          obtain ⟨rest, o, hlr, _, hro⟩ := QV.ServerScan.all2_snoc hmr
          refine ⟨rest, o, hlr, ?_⟩
          rw [hro.2.2.2.2.2.1]
          obtain ⟨hxa, hxf, hit⟩ := hm2
          obtain ⟨hita, _, _⟩ := hit
          rw [hita]
          obtain ⟨⟨_, hchunk, _⟩, _, _, hrd, _⟩ := hxf
          have hol : (optEnc (some e)).length = 11 := rfl
          have hb0 : sF.octets[x.a]? = some 0 := by
            rw [hxa]; have := hopt 0 (by rw [hol]; omega); rw [Nat.add_zero] at this; rw [this]; rfl
          have hk := chunkAt_root hchunk hb0
          have hr9 : sF.octets[s.cursor + 9]? = some 0 := by
            have := hopt 9 (by rw [hol]; omega); rw [this]; rfl
          have hr10 : sF.octets[s.cursor + 10]? = some 0 := by
            have := hopt 10 (by rw [hol]; omega); rw [this]; rfl
          have : x.rdlen = 0 := by
            rw [← hrd, hk, hxa]
            unfold be16
            rw [Array.getD_eq_getD_getElem?, Array.getD_eq_getD_getElem?,
              show s.cursor + 1 + 8 = s.cursor + 9 by omega, show s.cursor + 9 + 1 = s.cursor + 10 by omega, hr9, hr10]
            rfl
          rw [hk, this, hxa]


theorem finishPrefix_length (s : State) (h12 : 12 ≤ s.cursor) (hcs : s.cursor ≤ s.octets.size) :
    (finishPrefix s).length = s.cursor := by
  simp only [finishPrefix, List.length_append, List.length_take, Array.length_toList, Array.size_extract]
  have : ∀ x, (u16be x).length = 2 := fun _ => rfl
  simp only [this]
  omega

end QV.Writer

namespace QV.ServerContent
open QV QV.Writer QV.Spec QV.ServerScan

/-- **the MAC of a response is over exactly the octets before its TSIG record**, the position being
    the one the independent decoder reports for the last additional record -/
theorem tsig_prefix_of_good (macFn : Writer.Tsig → List UInt8 → List UInt8) (F : State) (bd : Body) (hG : Good F bd)
    (ts : Writer.Tsig) (hts : F.tsig = some ts) (b : Bytes) (mac : Option (List UInt8))
    (hf : Writer.finish F macFn = .ok (b, mac)) (d : DMsg) (hd : specDecodeMsg b = some d) :
    ∃ rest o, d.ar = rest ++ [o] ∧ mac = finishMac macFn ts (b.extract 0 o.pos).toList ∧
      Tsig.MsgOk (b.extract 0 o.pos).toList := by
  obtain ⟨hI, hlim, mb, hL⟩ := hG
  have hsz : b.size ≤ 65535 := Nat.le_trans (finish_size_le_limit macFn F hI.inv b mac hf) hlim
  obtain ⟨rest, o, hdar, hpos⟩ := finish_tsig_pos macFn F bd mb hI hL ts hts b mac hf hsz d hd
  obtain ⟨hcs, hmac, oe, sT, _, _, _, _, hlist⟩ := finish_octets_tsig macFn F hI.inv.hdr ts hts b mac hf
  have hpl := finishPrefix_length F hI.inv.hdr hcs
  have hol : (optEnc F.edns).length = (if F.edns.isSome then 11 else 0) := by
    cases F.edns <;> rfl
  have hex : (b.extract 0 o.pos).toList = finishPrefix F ++ optEnc F.edns := by
    have : (b.extract 0 o.pos).toList = b.toList.take o.pos := by
      simp [Array.toList_extract, List.extract]
    rw [this, hlist, List.take_left' (by rw [List.length_append, hpl, hol, hpos])]
  refine ⟨rest, o, hdar, by rw [hmac, hex], ?_⟩
  rw [hex]
  have h12 := hI.inv.hdr
  refine ⟨by rw [List.length_append, hpl]; omega, ?_⟩
  -- ARCOUNT counts the pending TSIG record
  have har : 1 ≤ F.arcount := by
    have := hL.ar; unfold pend at this; rw [hts] at this; simp at this; omega
  have har2 := hI.inv.ar
  have h4 : (F.octets.toList.take 4).length = 4 := by
    rw [List.length_take, Array.length_toList]; omega
  have e10 : (finishPrefix F ++ optEnc F.edns).getD 10 0 = UInt8.ofNat (F.arcount / 256 % 256) := by
    obtain ⟨x0, x1, x2, x3, hx⟩ : ∃ x0 x1 x2 x3, F.octets.toList.take 4 = [x0, x1, x2, x3] := by
      match h : F.octets.toList.take 4, h4 with
      | [x0, x1, x2, x3], _ => exact ⟨x0, x1, x2, x3, rfl⟩
    simp [finishPrefix, hx, u16be]
  have e11 : (finishPrefix F ++ optEnc F.edns).getD 11 0 = UInt8.ofNat (F.arcount % 256) := by
    obtain ⟨x0, x1, x2, x3, hx⟩ : ∃ x0 x1 x2 x3, F.octets.toList.take 4 = [x0, x1, x2, x3] := by
      match h : F.octets.toList.take 4, h4 with
      | [x0, x1, x2, x3], _ => exact ⟨x0, x1, x2, x3, rfl⟩
    simp [finishPrefix, hx, u16be]
  unfold Spec.Tsig.field16
  rw [e10, e11]
  simp only [UInt8.toNat_ofNat', Nat.reducePow]
  omega

end QV.ServerContent
