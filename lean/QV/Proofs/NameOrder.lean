/-
  QV.Proofs.NameOrder — lemmas for C16, part 2: equality, hash input, canonical order, hierarchy,
  accessors, lower-casing, the executable well-formedness check, `finish_with_suffix`.

  All model functions are evaluated on `toWire n` and shown equal to the spec's list-level
  definitions; `lexCmp` is shown to be a total order whenever the element comparison is
  (`OrdLaws`), which gives the laws of RFC 4034 §6.1's comparison.
-/
import QV.Proofs.Name
namespace QV.Name
open QV QV.Spec.NameText
open QV.Codes (Text eqIgnoreAsciiCase isDigit forall_uint8 eqIgnoreAsciiCase_iff lowerByte_eq)

/-! ### lower-casing -/

theorem lowerOctet_eq (b : UInt8) : lowerOctet b = lowerU8 b := lowerByte_eq b

theorem lowerLabel_eq (l : Label) : lowerLabel l = l.map lowerU8 := by
  unfold lowerLabel; apply List.map_congr_left; intro b _; exact lowerOctet_eq b

theorem lowerLabel_length (l : Label) : (lowerLabel l).length = l.length := by simp [lowerLabel]

theorem labelEq_iff (a b : Label) : labelEq a b = true ↔ lowerLabel a = lowerLabel b := by
  rw [lowerLabel_eq, lowerLabel_eq]; exact eqIgnoreAsciiCase_iff a b

theorem LabelsOK_lower {n : DName} (h : LabelsOK n) : LabelsOK (lowerName n) := by
  intro l hl
  simp only [lowerName, List.mem_map] at hl
  obtain ⟨x, hx, rfl⟩ := hl
  rw [lowerLabel_length]; exact h x hx

theorem toWire_injective {a b : DName} (ha : LabelsOK a) (hb : LabelsOK b) (h : toWire a = toWire b) : a = b := by
  have := congrArg labelsOf h
  rw [labelsOf_toWire a ha, labelsOf_toWire b hb] at this
  exact List.append_cancel_right this

theorem lowerU8_idem (b : UInt8) : lowerU8 (lowerU8 b) = lowerU8 b := by
  revert b; apply forall_uint8; unfold lowerU8; decide +kernel

theorem lowerName_idem (n : DName) : lowerName (lowerName n) = lowerName n := by
  unfold lowerName
  simp only [List.map_map]
  apply List.map_congr_left
  intro l _
  simp only [Function.comp, lowerLabel_eq, List.map_map]
  apply List.map_congr_left
  intro b _
  exact lowerU8_idem b

theorem wireLength_lower (n : DName) : wireLength (lowerName n) = wireLength n := by
  unfold wireLength lowerName
  simp only [List.map_map]
  congr 2
  apply List.map_congr_left
  intro l _
  simp [lowerLabel_length]

/-! ### equality -/

theorem zip_all_labelEq (xs ys : List Label) (hl : xs.length = ys.length) :
    (xs.zip ys).all (fun p => labelEq p.1 p.2) = true ↔ xs.map lowerLabel = ys.map lowerLabel := by
  induction xs generalizing ys with
  | nil => cases ys <;> simp at hl ⊢
  | cons x xs ih =>
    cases ys with
    | nil => simp at hl
    | cons y ys =>
      simp only [List.length_cons, Nat.add_right_cancel_iff] at hl
      simp only [List.zip_cons_cons, List.all_cons, Bool.and_eq_true, List.map_cons, List.cons.injEq,
        labelEq_iff, ih ys hl]

theorem nameEq_toWire (a b : DName) (ha : LabelsOK a) (hb : LabelsOK b) :
    nameEq (toWire a) (toWire b) = true ↔ SameName a b := by
  unfold nameEq SameName lowerName
  rw [nLabels_toWire a ha, nLabels_toWire b hb, labelsOf_toWire a ha, labelsOf_toWire b hb]
  simp only [Bool.and_eq_true, beq_iff_eq, Nat.add_right_cancel_iff]
  constructor
  · intro ⟨hl, hz⟩
    rw [zip_all_labelEq _ _ (by simp [hl])] at hz
    simpa using hz
  · intro h
    have hl : a.length = b.length := by simpa using congrArg List.length h
    refine ⟨hl, ?_⟩
    rw [zip_all_labelEq _ _ (by simp [hl])]
    simp [h]

/-! ### hash input -/

theorem hashInput_toWire (n : DName) (h : LabelsOK n) : hashInput (toWire n) = toWire (lowerName n) := by
  unfold hashInput
  rw [labelsOf_toWire n h]
  simp only [List.flatMap_append, List.flatMap_cons, List.flatMap_nil, List.append_nil]
  have : labelHashInput [] = [0] := by simp [labelHashInput]
  rw [this, toWire_eq]
  congr 1
  induction n with
  | nil => rfl
  | cons l n ih =>
    simp only [List.flatMap_cons, lowerName, List.map_cons, body_cons]
    rw [ih h.tail]
    simp [labelHashInput, lowerLabel_eq, lowerName]

theorem lowerU8_len (k : Nat) (h : k ≤ 63) : lowerU8 (UInt8.ofNat k) = UInt8.ofNat k := by
  have : ∀ b : UInt8, b.toNat ≤ 63 → lowerU8 b = b := by
    apply forall_uint8; unfold lowerU8; decide +kernel
  apply this
  simp [UInt8.toNat_ofNat']; omega

theorem map_lower_toWire (n : DName) (h : LabelsOK n) : (toWire n).map lowerU8 = toWire (lowerName n) := by
  rw [toWire_eq, toWire_eq, List.map_append]
  congr 1
  induction n with
  | nil => rfl
  | cons l n ih =>
    have hl := h l (by simp)
    simp only [body_cons, List.map_cons, List.map_append, lowerName, lowerLabel_length]
    rw [lowerU8_len _ hl.2]
    have := ih h.tail
    simp only [lowerName] at this
    rw [this, lowerLabel_eq]

/-! ### ordering -/

theorem nat_compare_succ (a b : Nat) : compare (a + 1) (b + 1) = compare a b := by
  simp only [compare, compareOfLessAndEq]
  by_cases h : a < b
  · simp [h]
  · by_cases h2 : a = b
    · simp [h2]
    · simp [h, h2]

theorem zipFindNe_lexCmp {α : Type} (cmp : α → α → Ordering) (xs ys : List α) :
    (zipFindNe cmp xs ys).getD (compare xs.length ys.length) = lexCmp cmp xs ys := by
  induction xs generalizing ys with
  | nil =>
    cases ys with
    | nil => simp [zipFindNe, lexCmp]
    | cons y ys => simp [zipFindNe, lexCmp, compare, compareOfLessAndEq]
  | cons x xs ih =>
    cases ys with
    | nil => simp [zipFindNe, lexCmp, compare, compareOfLessAndEq]
    | cons y ys =>
      simp only [zipFindNe, lexCmp]
      cases hc : cmp x y with
      | eq =>
        simp only [bne_self_eq_false, Bool.false_eq_true, ↓reduceIte, List.length_cons, nat_compare_succ]
        exact ih ys
      | lt => simp
      | gt => simp

theorem lexCmp_map {α β : Type} (c : β → β → Ordering) (f : α → β) (a b : List α) :
    lexCmp (fun x y => c (f x) (f y)) a b = lexCmp c (a.map f) (b.map f) := by
  induction a generalizing b with
  | nil => cases b <;> simp [lexCmp]
  | cons x xs ih =>
    cases b with
    | nil => simp [lexCmp]
    | cons y ys => simp only [lexCmp, List.map_cons]; rw [ih]

theorem labelCmp_eq (a b : Label) : labelCmp a b = cmpOctetString (lowerLabel a) (lowerLabel b) := by
  unfold labelCmp cmpOctetString
  rw [zipFindNe_lexCmp, lowerLabel_eq, lowerLabel_eq, ← lexCmp_map]
  rfl

theorem nameCmp_toWire (a b : DName) (ha : LabelsOK a) (hb : LabelsOK b) :
    nameCmp (toWire a) (toWire b) = canonicalCmp a b := by
  unfold nameCmp canonicalCmp
  rw [nLabels_toWire a ha, nLabels_toWire b hb, labelsOf_toWire a ha, labelsOf_toWire b hb]
  have h1 : (a ++ [[]]).reverse.length = a.length + 1 := by simp
  have h2 : (b ++ [[]]).reverse.length = b.length + 1 := by simp
  rw [← h1, ← h2, zipFindNe_lexCmp]
  simp only [List.reverse_append, List.reverse_cons, List.reverse_nil, List.nil_append, List.cons_append]
  have : labelCmp [] [] = .eq := by simp [labelCmp, zipFindNe]
  simp only [lexCmp, this]
  have hf : labelCmp = fun x y => cmpOctetString (lowerLabel x) (lowerLabel y) := by
    funext x y; exact labelCmp_eq x y
  rw [hf, lexCmp_map, lowerName, lowerName, List.map_reverse, List.map_reverse]



/-! ### `lexCmp` is a total order whenever the element comparison is -/

structure OrdLaws {α : Type} (cmp : α → α → Ordering) : Prop where
  eq_iff : ∀ x y, cmp x y = .eq ↔ x = y
  swap : ∀ x y, cmp x y = (cmp y x).swap
  trans : ∀ x y z, cmp x y = .lt → cmp y z = .lt → cmp x z = .lt

theorem natOrdLaws : OrdLaws (fun x y : UInt8 => compare x.toNat y.toNat) where
  eq_iff x y := by
    simp only [compare, compareOfLessAndEq]
    constructor
    · intro h
      by_cases h1 : x.toNat < y.toNat
      · simp [h1] at h
      · by_cases h2 : x.toNat = y.toNat
        · exact UInt8.toNat_inj.mp h2
        · simp [h1, h2] at h
    · intro h; subst h; simp
  swap x y := by
    simp only [compare, compareOfLessAndEq]
    by_cases h1 : x.toNat < y.toNat
    · have : ¬ y.toNat < x.toNat := by omega
      have : ¬ y.toNat = x.toNat := by omega
      simp [*]
    · by_cases h2 : x.toNat = y.toNat
      · simp [h2]
      · have : y.toNat < x.toNat := by omega
        simp [*]
  trans x y z := by
    simp only [compare, compareOfLessAndEq]
    intro h1 h2
    have a : x.toNat < y.toNat := by
      by_cases h : x.toNat < y.toNat
      · exact h
      · by_cases h' : x.toNat = y.toNat <;> simp [h, h'] at h1
    have b : y.toNat < z.toNat := by
      by_cases h : y.toNat < z.toNat
      · exact h
      · by_cases h' : y.toNat = z.toNat <;> simp [h, h'] at h2
    have : x.toNat < z.toNat := by omega
    simp [this]

theorem lexCmp_laws {α : Type} {cmp : α → α → Ordering} (L : OrdLaws cmp) : OrdLaws (lexCmp cmp) where
  eq_iff a b := by
    induction a generalizing b with
    | nil => cases b <;> simp [lexCmp]
    | cons x xs ih =>
      cases b with
      | nil => simp [lexCmp]
      | cons y ys =>
        simp only [lexCmp, List.cons.injEq]
        cases hc : cmp x y with
        | eq => simp only [(L.eq_iff x y).mp hc, true_and]; exact ih ys
        | lt =>
          have : x ≠ y := fun e => by rw [(L.eq_iff x y).mpr e] at hc; cases hc
          simp [this]
        | gt =>
          have : x ≠ y := fun e => by rw [(L.eq_iff x y).mpr e] at hc; cases hc
          simp [this]
  swap a b := by
    induction a generalizing b with
    | nil => cases b <;> simp [lexCmp, Ordering.swap]
    | cons x xs ih =>
      cases b with
      | nil => simp [lexCmp, Ordering.swap]
      | cons y ys =>
        simp only [lexCmp]
        rw [L.swap x y]
        cases cmp y x <;> simp [Ordering.swap, ih ys]
  trans a b c := by
    induction a generalizing b c with
    | nil =>
      cases b with
      | nil => simp [lexCmp]
      | cons y ys => cases c <;> simp [lexCmp]
    | cons x xs ih =>
      cases b with
      | nil => simp [lexCmp]
      | cons y ys =>
        cases c with
        | nil =>
          simp only [lexCmp]
          intro _ h2
          cases hyz : cmp y (y) <;> simp at h2
        | cons z zs =>
          simp only [lexCmp]
          intro h1 h2
          cases hxy : cmp x y with
          | gt => simp [hxy] at h1
          | lt =>
            cases hyz : cmp y z with
            | gt => simp [hyz] at h2
            | lt => simp [L.trans x y z hxy hyz]
            | eq =>
              have := (L.eq_iff y z).mp hyz; subst this
              simp [hxy]
          | eq =>
            have := (L.eq_iff x y).mp hxy; subst this
            cases hyz : cmp x z with
            | gt => simp [hyz] at h2
            | lt => simp
            | eq =>
              simp only [hxy] at h1
              simp only [hyz] at h2
              simp only
              exact ih ys zs h1 h2

theorem cmpOctetString_laws : OrdLaws cmpOctetString := lexCmp_laws natOrdLaws

theorem labelListCmp_laws : OrdLaws (lexCmp cmpOctetString) := lexCmp_laws cmpOctetString_laws

/-- laws of the RFC 4034 §6.1 comparison, on names -/
theorem canonicalCmp_eq_iff (a b : DName) : canonicalCmp a b = .eq ↔ SameName a b := by
  unfold canonicalCmp SameName
  rw [labelListCmp_laws.eq_iff]
  exact List.reverse_inj

theorem canonicalCmp_swap (a b : DName) : canonicalCmp a b = (canonicalCmp b a).swap :=
  labelListCmp_laws.swap _ _

theorem canonicalCmp_trans (a b c : DName) (h1 : canonicalCmp a b = .lt) (h2 : canonicalCmp b c = .lt) :
    canonicalCmp a c = .lt :=
  labelListCmp_laws.trans _ _ _ h1 h2

/-- equal names compare alike against any third name (congruence) -/
theorem canonicalCmp_congr (a b c : DName) (h : SameName a b) : canonicalCmp a c = canonicalCmp b c := by
  unfold canonicalCmp; unfold SameName at h; rw [h]



/-! ### hierarchy -/

theorem zip_all_prefix (xs ys : List Label) :
    (ys.length ≤ xs.length ∧ (xs.zip ys).all (fun p => labelEq p.1 p.2) = true) ↔
      ys.map lowerLabel <+: xs.map lowerLabel := by
  induction xs generalizing ys with
  | nil =>
    cases ys with
    | nil => simp
    | cons y ys => simp
  | cons x xs ih =>
    cases ys with
    | nil => simp
    | cons y ys =>
      simp only [List.length_cons, Nat.add_le_add_iff_right, List.zip_cons_cons, List.all_cons,
        Bool.and_eq_true, List.map_cons, List.cons_prefix_cons, labelEq_iff]
      rw [← ih ys]
      constructor
      · intro ⟨h1, h2, h3⟩; exact ⟨h2.symm, h1, h3⟩
      · intro ⟨h1, h2, h3⟩; exact ⟨h2, h1.symm, h3⟩

theorem eqOrSubdomainOf_toWire (a b : DName) (ha : LabelsOK a) (hb : LabelsOK b) :
    eqOrSubdomainOf (toWire a) (toWire b) = true ↔ IsSubdomainOrEq a b := by
  unfold eqOrSubdomainOf IsSubdomainOrEq
  rw [nLabels_toWire a ha, nLabels_toWire b hb, labelsOf_toWire a ha, labelsOf_toWire b hb]
  simp only [Bool.and_eq_true, decide_eq_true_eq, ge_iff_le]
  have h := zip_all_prefix (a ++ [[]]).reverse (b ++ [[]]).reverse
  simp only [List.length_reverse, List.length_append, List.length_cons, List.length_nil] at h
  rw [h]
  simp only [List.reverse_append, List.reverse_cons, List.reverse_nil, List.nil_append, List.cons_append,
    List.map_cons, List.cons_prefix_cons, true_and]
  simp only [lowerName]
  rw [List.map_reverse, List.map_reverse, List.reverse_prefix]

theorem superdomain_toWire (n : DName) (h : LabelsOK n) (k : Nat) :
    Name.superdomain (toWire n) k = (Spec.NameText.superdomain n k).map toWire := by
  unfold Name.superdomain Spec.NameText.superdomain
  rw [nLabels_toWire n h]
  by_cases hk : k ≤ n.length
  · have : k < n.length + 1 := by omega
    simp [hk, this, drop_labelOffset_toWire n h k hk]
  · have : ¬ k < n.length + 1 := by omega
    simp [hk, this]

theorem isRoot_toWire (n : DName) (h : LabelsOK n) : isRoot (toWire n) = true ↔ n = [] := by
  unfold isRoot; rw [nLabels_toWire n h]; simp

theorem index_toWire (n : DName) (h : LabelsOK n) (i : Nat) :
    index (toWire n) i = if i ≤ n.length then .ok ((allLabels n)[i]?.getD []) else .panic := by
  unfold index allLabels
  rw [nLabels_toWire n h, labelsOf_toWire n h]
  by_cases hi : i ≤ n.length
  · have h1 : i < n.length + 1 := by omega
    simp [hi, h1]
  · have h1 : ¬ i < n.length + 1 := by omega
    simp [hi, h1]

theorem isWildcard_toWire (n : DName) (h : LabelsOK n) :
    Name.isWildcard (toWire n) = .ok (Spec.NameText.isWildcard n) := by
  unfold Name.isWildcard Spec.NameText.isWildcard
  rw [index_toWire n h 0]
  simp only [Nat.zero_le, ↓reduceIte, allLabels]
  cases n with
  | nil => simp [labelEq, eqIgnoreAsciiCase]
  | cons l n =>
    simp only [List.cons_append, List.getElem?_cons_zero, Option.getD_some, List.head?_cons, Out.ok.injEq]
    have : (labelEq l [42] = true) ↔ l = [42] := by
      rw [labelEq_iff]
      constructor
      · intro e
        match l, e with
        | [x], e =>
          simp [lowerLabel] at e
          have : ∀ b : UInt8, lowerOctet b = lowerOctet 42 → b = 42 := by
            apply forall_uint8; unfold lowerOctet; decide +kernel
          rw [this x e]
        | [], e => simp [lowerLabel] at e
        | _ :: _ :: _, e => simp [lowerLabel] at e
      · intro e; subst e; rfl
    by_cases hl : l = [42]
    · subst hl; simp [this.mpr rfl]
    · have : labelEq l [42] = false := by
        cases hc : labelEq l [42] with
        | false => rfl
        | true => exact absurd (this.mp hc) hl
      simp [this, hl]

theorem wireReprTo_toWire (n : DName) (h : LabelsOK n) (k : Nat) :
    wireReprTo (toWire n) k =
      if k = n.length + 1 then .ok (toWire n) else if k ≤ n.length then .ok (body (n.take k)) else .panic := by
  unfold wireReprTo
  rw [nLabels_toWire n h]
  by_cases h1 : k = n.length + 1
  · simp [h1]
  · by_cases h2 : k ≤ n.length
    · have : k < n.length + 1 := by omega
      simp [h1, h2, this, take_labelOffset_toWire n h k h2]
    · have : ¬ k < n.length + 1 := by omega
      simp [h1, h2, this]

theorem wireReprFrom_toWire (n : DName) (h : LabelsOK n) (k : Nat) :
    wireReprFrom (toWire n) k =
      if k = n.length + 1 then .ok [] else if k ≤ n.length then .ok (toWire (n.drop k)) else .panic := by
  unfold wireReprFrom
  rw [nLabels_toWire n h]
  by_cases h1 : k = n.length + 1
  · simp [h1]
  · by_cases h2 : k ≤ n.length
    · have : k < n.length + 1 := by omega
      simp [h1, h2, this, drop_labelOffset_toWire n h k h2]
    · have : ¬ k < n.length + 1 := by omega
      simp [h1, h2, this]

theorem makeAsciiLowercase_toWire (n : DName) (h : LabelsOK n) :
    makeAsciiLowercase (toWire n) = toWire (lowerName n) := by
  induction n with
  | nil => simp [toWire, makeAsciiLowercase, lowerName]
  | cons l n ih =>
    have hl := h l (by simp)
    rw [toWire_cons, List.cons_append, makeAsciiLowercase]
    simp only [ofNat_len_ne_zero hl.1 hl.2, ↓reduceIte, ofNat_len_toNat hl.2]
    simp only [List.take_left', List.drop_left', ih h.tail, lowerName, List.map_cons, toWire_cons,
      lowerLabel_eq]
    simp



/-! ### the executable well-formedness check decides `IsName` -/

theorem wfAux_toWire (n : DName) (h : LabelsOK n) : wfAux (toWire n) = true := by
  obtain ⟨c1, _, _⟩ := consts
  induction n with
  | nil => simp [toWire, wfAux]
  | cons l n ih =>
    have hl := h l (by simp)
    rw [toWire_cons, List.cons_append, wfAux]
    simp only [ofNat_len_ne_zero hl.1 hl.2, ↓reduceIte, ofNat_len_toNat hl.2, c1]
    simp [hl.2, ih h.tail]

theorem wfAux_sound (w : List UInt8) (h : wfAux w = true) : ∃ n, LabelsOK n ∧ w = toWire n := by
  obtain ⟨c1, _, _⟩ := consts
  induction hn : w.length using Nat.strongRecOn generalizing w with
  | _ k ih =>
    cases w with
    | nil => simp [wfAux] at h
    | cons l rest =>
      rw [wfAux] at h
      by_cases h0 : l = 0
      · subst h0
        simp only [↓reduceIte, List.isEmpty_iff] at h
        subst h
        exact ⟨[], (by intro l hl; simp at hl), rfl⟩
      · simp only [h0, ↓reduceIte, c1, Bool.and_eq_true, decide_eq_true_eq] at h
        obtain ⟨⟨h63, hlen⟩, hrest⟩ := h
        obtain ⟨n', hok, hd⟩ := ih (rest.drop l.toNat).length (by subst hn; simp; omega) _ hrest rfl
        have hpos : 1 ≤ l.toNat := by
          have : l.toNat ≠ 0 := fun e => h0 (UInt8.toNat_inj.mp (by simpa using e))
          omega
        have htl : (rest.take l.toNat).length = l.toNat := by simp; omega
        refine ⟨rest.take l.toNat :: n', ?_, ?_⟩
        · intro x hx
          simp at hx
          rcases hx with hx | hx
          · subst hx; rw [htl]; exact ⟨hpos, h63⟩
          · exact hok x hx
        · rw [toWire_cons, htl, ← hd]
          simp

theorem wfb_iff (w : List UInt8) : wfb w = true ↔ IsName w := by
  obtain ⟨_, c2, _⟩ := consts
  unfold wfb IsName
  simp only [Bool.and_eq_true, decide_eq_true_eq, c2]
  constructor
  · intro ⟨h1, h2⟩
    obtain ⟨n, hok, rfl⟩ := wfAux_sound w h1
    exact ⟨n, ⟨hok, by rw [← toWire_length]; exact h2⟩, rfl⟩
  · intro ⟨n, hv, e⟩
    subst e
    exact ⟨wfAux_toWire n hv.1, by rw [toWire_length]; exact hv.2⟩

/-! ### try_push_slice and finish_with_suffix against the reference builder -/

theorem refSize_eq (done : DName) (cur : Label) :
    (RefBuilder.mk done cur).size = (body done).length + 1 + cur.length := by
  simp [RefBuilder.size, body_length]

theorem pushSuffixLabels_eq (w : List UInt8) (sfx : DName) :
    pushSuffixLabels w (sfx ++ [[]]) =
      if w.length + wireLength sfx ≤ 255 then .ok (w ++ toWire sfx) else .err .NameTooLong := by
  obtain ⟨_, c2, _⟩ := consts
  induction sfx generalizing w with
  | nil =>
    simp only [List.nil_append, pushSuffixLabels, c2, wireLength, List.map_nil, List.sum_nil, Nat.zero_add,
      List.length_nil, Nat.add_zero]
    by_cases h : w.length < 255
    · have : w.length + 1 ≤ 255 := by omega
      simp [h, this, toWire]
    · have : ¬ w.length + 1 ≤ 255 := by omega
      simp [h, this]
  | cons l sfx ih =>
    simp only [List.cons_append, pushSuffixLabels, c2]
    have hwl := wireLength_pos sfx
    rw [wireLength_cons]
    by_cases h1 : w.length < 255
    · by_cases h2 : w.length + 1 + l.length ≤ 255
      · simp only [h1, h2, ↓reduceIte]
        rw [ih]
        simp only [List.length_append, List.length_cons, List.length_nil]
        by_cases h3 : w.length + (l.length + 1 + wireLength sfx) ≤ 255
        · have : w.length + (0 + 1) + l.length + wireLength sfx ≤ 255 := by omega
          simp [h3, this, toWire_cons]
        · have : ¬ w.length + (0 + 1) + l.length + wireLength sfx ≤ 255 := by omega
          simp [h3, this]
      · have : ¬ w.length + (l.length + 1 + wireLength sfx) ≤ 255 := by omega
        simp [h1, h2, this]
    · have : ¬ w.length + (l.length + 1 + wireLength sfx) ≤ 255 := by omega
      simp [h1, this]

theorem pushSuffixOffsets_eq (offs : List Nat) (base : Nat) (os : List Nat)
    (h1 : ∀ o ∈ os, o + base ≤ 255) (h2 : offs.length + os.length ≤ 128) :
    pushSuffixOffsets offs base os = .ok (offs ++ os.map (· + base)) := by
  obtain ⟨_, _, c3⟩ := consts
  induction os generalizing offs with
  | nil => simp [pushSuffixOffsets]
  | cons o os ih =>
    have ho := h1 o (by simp)
    simp only [List.length_cons] at h2
    rw [pushSuffixOffsets, if_neg (by omega), c3, if_neg (by omega)]
    rw [ih (offs ++ [o + base]) (fun x hx => h1 x (List.mem_cons_of_mem _ hx)) (by simp; omega)]
    simp

theorem body_take_length_le (n : DName) (i : Nat) : (body (n.take i)).length ≤ (body n).length := by
  conv => rhs; rw [← List.take_append_drop i n, body_append]
  simp

theorem offsetsList_append (a b : DName) :
    offsetsList (a ++ b) = (offsetsList a).dropLast ++ (offsetsList b).map (· + (body a).length) := by
  unfold offsetsList
  have e : (a ++ b).length + 1 = a.length + (b.length + 1) := by simp; omega
  rw [e, List.range_add, List.map_append, List.range_succ (n := a.length), List.map_append]
  simp only [List.map_cons, List.map_nil, List.dropLast_concat, List.map_map]
  congr 1
  · apply List.map_congr_left
    intro i hi
    simp at hi
    rw [List.take_append_of_le_length (by omega)]
  · apply List.map_congr_left
    intro j _
    simp only [Function.comp]
    rw [List.take_length_add_append, body_append]
    simp; omega

theorem finishWithSuffix_stateOf (done : DName) (cur : Label) (hinv : InvDC done cur) (sfx : DName)
    (hs : ValidName sfx) :
    (stateOf done cur).finishWithSuffix (toWire sfx) =
      if cur = [] then .err .NullNonTerminal
      else if wireLength (done ++ [cur] ++ sfx) > 255 then .err .NameTooLong
      else .ok ⟨toWire (done ++ [cur] ++ sfx), offsetsList (done ++ [cur] ++ sfx)⟩ := by
  have hq : (stateOf done cur).isFullyQualified = decide (cur = []) := by
    cases cur <;> simp [Builder.isFullyQualified, stateOf]
  unfold Builder.finishWithSuffix
  rw [hq]
  by_cases hc : cur = []
  · simp [hc]
  · have hpos : 0 < cur.length := List.length_pos_iff.mpr hc
    simp only [hc, decide_false, Bool.false_eq_true, ↓reduceIte]
    have hup : (stateOf done cur).updateLabelLen = some (body (done ++ [cur])) := by
      unfold Builder.updateLabelLen
      have : (stateOf done cur).labelStart < (stateOf done cur).wire.length := by simp [stateOf]
      rw [if_pos this]
      simp only [stateOf]
      rw [List.set_append_right _ _ (by omega)]
      simp
    rw [hup]
    simp only
    rw [labelsOf_toWire sfx hs.1, pushSuffixLabels_eq, labelOffsets_toWire sfx hs.1]
    have hwl : (body (done ++ [cur])).length + wireLength sfx = wireLength (done ++ [cur] ++ sfx) := by
      rw [wireLength_append]
    rw [hwl]
    by_cases hsz : wireLength (done ++ [cur] ++ sfx) > 255
    · have : ¬ wireLength (done ++ [cur] ++ sfx) ≤ 255 := by omega
      rw [if_neg this, if_pos hsz]
    · have hle : wireLength (done ++ [cur] ++ sfx) ≤ 255 := by omega
      rw [if_pos hle, if_neg hsz]
      have hok : LabelsOK (done ++ [cur] ++ sfx) := by
        refine LabelsOK_append.mpr ⟨LabelsOK_append.mpr ⟨hinv.ok, ?_⟩, hs.1⟩
        intro l hl; simp at hl; subst hl; exact ⟨hpos, hinv.cl⟩
      have h2 := two_mul_length_le_body _ hok
      have hbl : (body (done ++ [cur] ++ sfx)).length + 1 = wireLength (done ++ [cur] ++ sfx) := by
        rw [← toWire_length, toWire_eq]; simp only [List.length_append, List.length_cons, List.length_nil]
      have hB : (body (done ++ [cur] ++ sfx)).length = (body done).length + (cur.length + 1) + (body sfx).length := by
        simp only [body_append, List.length_append, body_cons, body_nil, List.length_cons, List.append_nil]
      have hL : (done ++ [cur] ++ sfx).length = done.length + 1 + sfx.length := by simp; omega
      have hW : (body (done ++ [cur])).length = (body done).length + (cur.length + 1) := by
        simp only [body_append, List.length_append, body_cons, body_nil, List.length_cons, List.append_nil]
      simp only
      rw [pushSuffixOffsets_eq]
      · simp only [stateOf]
        rw [offsetsList_append (done ++ [cur]) sfx, offsetsList_snoc, List.dropLast_concat, toWire_eq, toWire_eq]
        simp only [body_append, List.append_assoc]
      · intro o ho
        simp only [offsetsList, List.mem_map, List.mem_range] at ho
        obtain ⟨i, _, rfl⟩ := ho
        have := body_take_length_le sfx i
        rw [hW]
        omega
      · simp only [stateOf, offsetsList, List.length_map, List.length_range]
        omega

end QV.Name
