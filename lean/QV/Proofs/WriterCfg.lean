/-
  QV.Proofs.WriterCfg — the abstract state's EDNS / TSIG configuration is the writer's (`AbsCfg`),
  call after call.
-/
import QV.Proofs.WriterAbsStep

namespace QV.Writer
open QV QV.Wire QV.Spec QV.ServerSafety

/-- the remaining argument types of the Rust API that `Op.Typed` does not list: the EDNS payload size
    and the TSIG `fudge` / original ID / error are `u16` -/
def ApiBounds : Op → Prop
  | .setEdns p => p < 65536
  | .setTsig _ rr => rr.fudge < 65536 ∧ rr.originalId < 65536 ∧ rr.error < 65536
  | _ => True

/-- the TSIG configuration as the specification records it -/
def toATsig (ts : Tsig) : Message.ATsig :=
  ⟨(match ts.mode with
      | .request a _ | .response a _ _ | .subsequent a _ _ =>
        (some (Message.algOutputSize (Driver.algNum a)), Message.algWireName (Driver.algNum a))
      | .unsigned n => ((none : Option Nat), n.wire)).1,
   (match ts.mode with
      | .request a _ | .response a _ _ | .subsequent a _ _ =>
        (some (Message.algOutputSize (Driver.algNum a)), Message.algWireName (Driver.algNum a))
      | .unsigned n => ((none : Option Nat), n.wire)).2,
   ts.rr.keyName.wire, ts.rr.timeSigned, ts.rr.fudge, ts.rr.originalId, ts.rr.error, ts.rr.serverTime⟩

/-- the abstract state records the EDNS and TSIG configuration of the writer -/
structure AbsCfg (s : State) (a : Message.AState) : Prop where
  edns : a.edns = s.edns.map fun e => (e.payload, e.upper)
  tsig : a.tsig = s.tsig.map toATsig
  /-- the stored values are those of the API's types -/
  eb : ∀ e, s.edns = some e → e.payload < 65536 ∧ e.upper < 256
  tb : ∀ ts, s.tsig = some ts → ts.rr.fudge < 65536 ∧ ts.rr.originalId < 65536 ∧ ts.rr.error < 65536

theorem absCfg_same {s s' : State} {a : Message.AState} (h : AbsCfg s a) (e : Same s s') : AbsCfg s' a :=
  ⟨by rw [e.edns]; exact h.edns, by rw [e.tsig]; exact h.tsig, by rw [e.edns]; exact h.eb, by rw [e.tsig]; exact h.tb⟩

theorem absCfg_of {s s' : State} {a a' : Message.AState} (h : AbsCfg s a) (he : s'.edns = s.edns)
    (ht : s'.tsig = s.tsig) (ae : a'.edns = a.edns) (at' : a'.tsig = a.tsig) : AbsCfg s' a' :=
  ⟨by rw [ae, he]; exact h.edns, by rw [at', ht]; exact h.tsig, by rw [he]; exact h.eb, by rw [ht]; exact h.tb⟩

theorem write_cfg (pos : Nat) (d : List UInt8) (s : State) :
    (write pos d s).2.edns = s.edns ∧ (write pos d s).2.tsig = s.tsig := by
  unfold write; split <;> exact ⟨rfl, rfl⟩

theorem setHdr_cfg (i : Nat) (f : UInt8 → UInt8) (s : State) :
    (setHdr i f s).2.edns = s.edns ∧ (setHdr i f s).2.tsig = s.tsig := by
  unfold setHdr; split <;> exact ⟨rfl, rfl⟩

theorem setLimit_cfg (v : Nat) (s : State) :
    (setLimit v s).2.edns = s.edns ∧ (setLimit v s).2.tsig = s.tsig := by
  unfold setLimit
  simp only
  repeat' split
  all_goals exact ⟨rfl, rfl⟩


theorem template_cfg {s s' : State} {t : Template} (buf : Bytes) (ts : Option Tsig) (hI : I s)
    (ht : intoTemplate s = .ok t) (h' : tryFromTemplateImpl buf t ts = .ok s') :
    s'.edns = s.edns ∧ s'.tsig = ts := by
  have hi := hI.inv
  have h1 := hi.hdr; have h2 := hi.cur_av; have h3 := hi.av_lim; have h4 := hi.lim_size
  unfold intoTemplate at ht
  rw [if_neg (by omega), if_neg (by omega)] at ht
  cases ht
  unfold tryFromTemplateImpl at h'
  simp only at h'
  split at h'
  · cases h'
  · split at h'
    · cases h'
    · cases h'; exact ⟨rfl, rfl⟩

/-- the EDNS / TSIG configuration the specification records is the writer's, call after call -/
theorem cfg_step (ss : Session) (op : Op) (a a' : Message.AState) (d : Message.Decoded) (hI : I ss.w)
    (hC : AbsCfg ss.w a) (hb : ApiBounds op) (hok : (step ss op).1 = .ok ())
    (habs : Message.absOk a d (Driver.toSpecOp op) = .ok a') : AbsCfg (step ss op).2.w a' := by
  have lw : ∀ (f : M Unit), (step ss op).2.w = (liftW ss f).2.w →
      ((f ss.w).2.edns = ss.w.edns ∧ (f ss.w).2.tsig = ss.w.tsig) → a'.edns = a.edns → a'.tsig = a.tsig →
      AbsCfg (step ss op).2.w a' := fun f h1 k e1 e2 => by
    rw [h1, liftW_w]; exact absCfg_of hC k.1 k.2 e1 e2
  cases op with
  | setId v =>
    simp only [Driver.toSpecOp, Message.absOk, Except.ok.injEq] at habs; subst habs
    exact lw (setId v) rfl (write_cfg _ _ _) rfl rfl
  | setQr b =>
    simp only [Driver.toSpecOp, Message.absOk, Except.ok.injEq] at habs; subst habs
    exact lw (setQr b) rfl (setHdr_cfg _ _ _) rfl rfl
  | setAa b =>
    simp only [Driver.toSpecOp, Message.absOk, Except.ok.injEq] at habs; subst habs
    exact lw (setAa b) rfl (setHdr_cfg _ _ _) rfl rfl
  | setTc b =>
    simp only [Driver.toSpecOp, Message.absOk, Except.ok.injEq] at habs; subst habs
    exact lw (setTc b) rfl (setHdr_cfg _ _ _) rfl rfl
  | setRd b =>
    simp only [Driver.toSpecOp, Message.absOk, Except.ok.injEq] at habs; subst habs
    exact lw (setRd b) rfl (setHdr_cfg _ _ _) rfl rfl
  | setRa b =>
    simp only [Driver.toSpecOp, Message.absOk, Except.ok.injEq] at habs; subst habs
    exact lw (setRa b) rfl (setHdr_cfg _ _ _) rfl rfl
  | setOpcode v =>
    simp only [Driver.toSpecOp, Message.absOk, Except.ok.injEq] at habs; subst habs
    exact lw (setOpcode v) rfl (setHdr_cfg _ _ _) rfl rfl
  | setLimit v =>
    simp only [Driver.toSpecOp, Message.absOk, Except.ok.injEq] at habs; subst habs
    exact lw (setLimit v) rfl (setLimit_cfg _ _) rfl rfl
  | setMode m =>
    simp only [Driver.toSpecOp, Message.absOk, Except.ok.injEq] at habs; subst habs
    exact lw (setCompressionMode m) rfl ⟨rfl, rfl⟩ rfl rfl
  | getters =>
    simp only [Driver.toSpecOp, Message.absOk, Except.ok.injEq] at habs; subst habs
    exact hC
  | clearRrs =>
    simp only [Driver.toSpecOp, Message.absOk, Except.ok.injEq] at habs; subst habs
    exact lw clearRrs rfl ⟨rfl, rfl⟩ rfl rfl
  | setRcode v =>
    simp only [Driver.toSpecOp, Message.absOk, Except.ok.injEq] at habs; subst habs
    have hok' : (setRcode v ss.w).1 = .ok () := by rw [← liftW_fst]; exact hok
    show AbsCfg (liftW ss (setRcode v)).2.w _
    rw [liftW_w]
    unfold setRcode at hok' ⊢
    simp only [M.bind_apply] at hok' ⊢
    have h1 := setHdr_cfg Gen.RCODE_BYTE (fun b => (b &&& ~~~ (UInt8.ofNat Gen.RCODE_MASK)) ||| UInt8.ofNat v) ss.w
    cases hs : setHdr Gen.RCODE_BYTE (fun b => (b &&& ~~~ (UInt8.ofNat Gen.RCODE_MASK)) ||| UInt8.ofNat v) ss.w with
    | mk r s1 =>
      rw [hs] at h1 hok'
      cases r with
      | err e => cases hok'
      | panic => cases hok'
      | ok u =>
        simp only [M.modify_apply]
        refine ⟨?_, ?_, ?_, ?_⟩
        · show a.edns.map _ = _
          rw [hC.edns, ← h1.1]
          cases he : s1.edns <;> simp [he]
        · show a.tsig = _
          rw [hC.tsig, ← h1.2]
          cases he : s1.edns <;> simp [he]
        · intro e he'
          cases he : s1.edns with
          | none => simp only [he] at he'; first | cases he' | (rw [he] at he'; cases he')
          | some e0 =>
            simp only [he] at he'
            simp only [Option.some.injEq] at he'
            subst he'
            exact ⟨(hC.eb e0 (by rw [← h1.1]; exact he)).1, by show 0 < 256; omega⟩
        · intro ts hts
          have : s1.tsig = some ts := by cases he : s1.edns <;> simp only [he] at hts <;> exact hts
          exact hC.tb ts (by rw [← h1.2]; exact this)
  | setExtendedRcode v =>
    have hok' : (setExtendedRcode v ss.w).1 = .ok () := by rw [← liftW_fst]; exact hok
    show AbsCfg (liftW ss (setExtendedRcode v)).2.w _
    rw [liftW_w]
    simp only [Driver.toSpecOp, Message.absOk] at habs
    unfold setExtendedRcode at hok' ⊢
    simp only [M.bind_apply, M.gets_apply] at hok' ⊢
    cases he : ss.w.edns with
    | none => rw [he] at hok'; cases hok'
    | some ed =>
      rw [he] at hok'
      simp only [] at hok' ⊢
      have hae := hC.edns
      rw [he] at hae
      simp only [Option.map_some] at hae
      rw [hae] at habs
      simp only at habs
      split at hok'
      · cases hok'
      · rename_i hv
        rw [if_neg hv] at habs ⊢
        simp only [Except.ok.injEq] at habs; subst habs
        simp only [M.bind_apply] at hok' ⊢
        generalize hf : (fun b : UInt8 => (b &&& ~~~ (UInt8.ofNat Gen.RCODE_MASK)) |||
              (UInt8.ofNat (v % 256) &&& UInt8.ofNat Gen.RCODE_MASK)) = f at hok' ⊢
        have h1 := setHdr_cfg Gen.RCODE_BYTE f ss.w
        cases hs : setHdr Gen.RCODE_BYTE f ss.w with
        | mk r s1 =>
          rw [hs] at h1 hok'
          cases r with
          | err e => cases hok'
          | panic => cases hok'
          | ok u =>
            simp only [M.modify_apply]
            refine ⟨?_, by show a.tsig = _; rw [hC.tsig, ← h1.2], ?_, by
              intro ts hts; exact hC.tb ts (by rw [← h1.2]; exact hts)⟩
            · show some (ed.payload, v / 16) = some (ed.payload, v / 16 % 256)
              rw [Nat.mod_eq_of_lt (by omega)]
            · intro e he'
              simp only [Option.some.injEq] at he'
              subst he'
              exact ⟨(hC.eb ed he).1, Nat.mod_lt _ (by omega)⟩
  | addQuestion n t c =>
    have hok' : (addQuestion n t c ss.w).1 = .ok () := by rw [← liftW_fst]; exact hok
    show AbsCfg (liftW ss (addQuestion n t c)).2.w _
    rw [liftW_w]
    have hc := addQuestion_cases n t c ss.w
    cases hq : addQuestion n t c ss.w with
    | mk r s' =>
      rw [hq] at hok' hc; simp only at hok'; subst hok'
      obtain ⟨s1, e, _, rfl⟩ := hc
      simp only [Driver.toSpecOp, Message.absOk] at habs
      cases he : Message.endOf d a.itemIdx with
      | none => rw [he] at habs; cases habs
      | some en =>
        rw [he] at habs
        simp only [Except.ok.injEq] at habs; subst habs
        exact absCfg_of hC e.edns e.tsig rfl rfl
  | addRr sec hn o ty cls ttl rd hv =>
    have hok' : (addRrOp sec (resolveHint ss.hvs hn) o ty cls ttl rd { ss.w with hv := hv.map (hvGet ss.hvs) }).1 =
        .ok () := by rw [← withHv_fst]; exact hok
    simp only [step]
    rw [withHv_w]
    obtain ⟨g1, g2, _⟩ := absOk_addRrs_inv habs
    have hc := addRrOp_cases sec (resolveHint ss.hvs hn) o ty cls ttl rd { ss.w with hv := hv.map (hvGet ss.hvs) }
    cases hq : addRrOp sec (resolveHint ss.hvs hn) o ty cls ttl rd { ss.w with hv := hv.map (hvGet ss.hvs) } with
    | mk r s' =>
      rw [hq] at hok' hc; simp only at hok'; subst hok'
      simp only at hc
      obtain ⟨s1, e, _, rfl⟩ := hc
      refine absCfg_of hC ?_ ?_ g1 g2
      · show (setCount sec _ s1).2.edns = _
        have : (setCount sec (getCount sec s1 + 1) s1).2.edns = s1.edns := by cases sec <;> rfl
        rw [this, e.edns]
      · show (setCount sec _ s1).2.tsig = _
        have : (setCount sec (getCount sec s1 + 1) s1).2.tsig = s1.tsig := by cases sec <;> rfl
        rw [this, e.tsig]
  | addRrset sec hn o ty cls ttl rds hv =>
    have hok' : (addRrsetOp sec (resolveHint ss.hvs hn) o ty cls ttl rds { ss.w with hv := hv.map (hvGet ss.hvs) }).1 =
        .ok () := by rw [← withHv_fst]; exact hok
    simp only [step]
    rw [withHv_w]
    obtain ⟨g1, g2, _⟩ := absOk_addRrs_inv habs
    have hc := addRrsetOp_cases sec (resolveHint ss.hvs hn) o ty cls ttl rds { ss.w with hv := hv.map (hvGet ss.hvs) }
    cases hq : addRrsetOp sec (resolveHint ss.hvs hn) o ty cls ttl rds { ss.w with hv := hv.map (hvGet ss.hvs) } with
    | mk r s' =>
      rw [hq] at hok' hc; simp only at hok'; subst hok'
      simp only at hc
      obtain ⟨s1, n, e, _, rfl⟩ := hc
      refine absCfg_of hC ?_ ?_ g1 g2
      · show (setCount sec _ s1).2.edns = _
        have : (setCount sec (getCount sec s1 + n) s1).2.edns = s1.edns := by cases sec <;> rfl
        rw [this, e.edns]
      · show (setCount sec _ s1).2.tsig = _
        have : (setCount sec (getCount sec s1 + n) s1).2.tsig = s1.tsig := by cases sec <;> rfl
        rw [this, e.tsig]
  | setEdns p =>
    have hok' : (setEdns p ss.w).1 = .ok () := by rw [← liftW_fst]; exact hok
    show AbsCfg (liftW ss (setEdns p)).2.w _
    rw [liftW_w]
    simp only [Driver.toSpecOp, Message.absOk] at habs
    split at habs
    · cases habs
    · simp only [Except.ok.injEq] at habs; subst habs
      unfold setEdns at hok' ⊢
      split at hok'
      · cases hok'
      · rename_i h1; rw [if_neg h1]
        split at hok'
        · cases hok'
        · rename_i h2; rw [if_neg h2]
          split at hok'
          · cases hok'
          · rename_i h3; rw [if_neg h3]
            exact ⟨rfl, hC.tsig, fun e he' => by
              simp only [Option.some.injEq] at he'; subst he'; exact ⟨hb, by show 0 < 256; omega⟩, hC.tb⟩
  | setTsig m rr =>
    have hok' : (setTsig m rr ss.w).1 = .ok () := by rw [← liftW_fst]; exact hok
    show AbsCfg (liftW ss (setTsig m rr)).2.w _
    rw [liftW_w]
    simp only [Driver.toSpecOp, Message.absOk] at habs
    split at habs
    · cases habs
    · simp only [Except.ok.injEq] at habs; subst habs
      unfold setTsig at hok' ⊢
      split at hok'
      · cases hok'
      · rename_i h1; rw [if_neg h1]
        split at hok'
        · cases hok'
        · rename_i h2; rw [if_neg h2]
          split at hok'
          · cases hok'
          · rename_i h3; rw [if_neg h3]
            exact ⟨hC.edns, rfl, hC.eb, fun ts hts => by
              simp only [Option.some.injEq] at hts; subst hts; exact hb⟩
  | updateTimeSigned t =>
    have hok' : (updateTimeSigned t ss.w).1 = .ok () := by rw [← liftW_fst]; exact hok
    show AbsCfg (liftW ss (updateTimeSigned t)).2.w _
    rw [liftW_w]
    simp only [Driver.toSpecOp, Message.absOk] at habs
    unfold updateTimeSigned at hok' ⊢
    cases hts : ss.w.tsig with
    | none => rw [hts] at hok'; cases hok'
    | some ts =>
      have hat := hC.tsig
      rw [hts] at hat
      simp only [Option.map_some] at hat
      rw [hat] at habs
      simp only [Except.ok.injEq] at habs; subst habs
      simp only []
      exact ⟨hC.edns, rfl, hC.eb, fun ts' hts' => by
        simp only [Option.some.injEq] at hts'; subst hts'; exact hC.tb ts hts⟩
  | template n fill =>
    obtain ⟨t, s', ht, hm, hw⟩ := retemplate_ok hok
    have hw' : (step ss (.template n fill)).2.w = s' := hw
    rw [hw']
    simp only [Driver.toSpecOp, Message.absOk] at habs
    split at habs
    · cases habs
    · simp only [Except.ok.injEq] at habs; subst habs
      obtain ⟨c1, c2⟩ := template_cfg _ _ hI ht hm
      exact absCfg_of hC c1 (by rw [c2]; exact intoTemplate_tsig ht) rfl rfl
  | templateSubsequent n fill mac =>
    obtain ⟨t, s', ht, hm, hw⟩ := retemplate_ok hok
    have hw' : (step ss (.templateSubsequent n fill mac)).2.w = s' := hw
    rw [hw']
    have hts := intoTemplate_tsig ht
    simp only [tryFromTemplateAsTsigSubsequent] at hm
    rw [hts] at hm
    have ha' : a'.edns = a.edns ∧ a'.tsig = a.tsig := by
      simp only [Driver.toSpecOp, Message.absOk] at habs
      (repeat' split at habs) <;> first
        | (simp only [Except.ok.injEq] at habs; subst habs; exact ⟨rfl, rfl⟩)
        | cases habs
    cases hs0 : ss.w.tsig with
    | none => rw [hs0] at hm; cases hm
    | some ts0 =>
      rw [hs0] at hm
      simp only at hm
      have fin : ∀ al pm k, tryFromTemplateImpl (Array.replicate n fill) t
          (some { mode := .subsequent al pm k, reservedLen := ts0.reservedLen, rr := ts0.rr }) = .ok s' →
          toATsig { mode := .subsequent al pm k, reservedLen := ts0.reservedLen, rr := ts0.rr } = toATsig ts0 →
          AbsCfg s' a' := by
        intro al pm k hx heq
        obtain ⟨c1, c2⟩ := template_cfg _ _ hI ht hx
        refine ⟨by rw [ha'.1, c1]; exact hC.edns, ?_, by rw [c1]; exact hC.eb, ?_⟩
        · rw [ha'.2, c2, hC.tsig, hs0]
          simp only [Option.map_some, heq]
        · intro ts hts
          rw [c2] at hts
          simp only [Option.some.injEq] at hts; subst hts
          exact hC.tb ts0 hs0
      cases hmode : ts0.mode with
      | request al k => rw [hmode] at hm; exact fin _ _ _ hm (by simp only [toATsig, hmode])
      | response al x k => rw [hmode] at hm; exact fin _ _ _ hm (by simp only [toATsig, hmode])
      | subsequent al x k => rw [hmode] at hm; exact fin _ _ _ hm (by simp only [toATsig, hmode])
      | unsigned nm => rw [hmode] at hm; cases hm

end QV.Writer
