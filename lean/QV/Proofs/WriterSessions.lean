/-
  C12 — sessions with `clear_rrs`: the walk of `Spec.Message.checkSession` over several segments.
  At every `clear_rrs` the specification judges the message finished just before the call against
  the abstract state (`checkSegment`), then continues from the questions alone on the next message.
-/
import QV.Proofs.WriterCheckSession

namespace QV.Writer
open QV QV.Wire QV.Spec QV.ServerSafety

/-- the abstract state `a` describes the writer of the session `ss`, whose layout holds `b` / `mb` -/
structure Desc (ss : Session) (a : Message.AState) (b : Body) (mb : MBody) : Prop where
  i : I ss.w
  lay : CLay (fun _ => True) ss.w b mb
  num : AbsNum ss.w a
  idx : IdxOK a
  len : a.itemIdx = bodyLen b
  hdr : a.hdr = specHeader ss.w.octets
  z : a.hdr.z = 0
  content : AbsContent a b mb
  cfg : AbsCfg ss.w a
  typed : b.Typed

/-- the session after the calls `ops` (as `run`, when no call panics) -/
def after (ss : Session) : List Op → Session
  | [] => ss
  | op :: ops => after (step ss op).2 ops

theorem after_append (ss : Session) (o1 o2 : List Op) : after ss (o1 ++ o2) = after (after ss o1) o2 := by
  induction o1 generalizing ss with
  | nil => rfl
  | cons op o1 ih => exact ih _

theorem after_eq_run (ss : Session) (ops : List Op) (h : ∀ r ∈ (run ss ops).2, r ≠ .panic) :
    (run ss ops).1 = after ss ops := by
  induction ops generalizing ss with
  | nil => rfl
  | cons op ops ih =>
    unfold run at h ⊢
    cases hs : step ss op with
    | mk r ss' =>
      rw [hs] at h
      have hss : (step ss op).2 = ss' := by rw [hs]
      cases r with
      | panic => exact absurd rfl (h _ (by simp))
      | ok u =>
        simp only at h ⊢
        cases hrun : run ss' ops with
        | mk ss'' rs =>
          rw [hrun] at h
          have := ih ss' (by rw [hrun]; exact fun r hr => h r (List.mem_cons_of_mem _ hr))
          rw [hrun] at this
          show ss'' = after (step ss op).2 ops
          rw [hss]; exact this
      | err e =>
        simp only at h ⊢
        cases hrun : run ss' ops with
        | mk ss'' rs =>
          rw [hrun] at h
          have := ih ss' (by rw [hrun]; exact fun r hr => h r (List.mem_cons_of_mem _ hr))
          rw [hrun] at this
          show ss'' = after (step ss op).2 ops
          rw [hss]; exact this

theorem respects_append (ss : Session) (o1 o2 : List Op) :
    Respects ss (o1 ++ o2) ↔ Respects ss o1 ∧ Respects (after ss o1) o2 := by
  induction o1 generalizing ss with
  | nil => simp [Respects, after]
  | cons op o1 ih =>
    simp only [List.cons_append, Respects, after]
    rw [ih]
    exact and_assoc.symm

theorem obs_append (ss : Session) (o1 o2 : List Op) : obs ss (o1 ++ o2) = obs ss o1 ++ obs (after ss o1) o2 := by
  induction o1 generalizing ss with
  | nil => rfl
  | cons op o1 ih =>
    simp only [List.cons_append, obs, after]
    rw [ih]

/-- what `finish` returns (the empty message if it fails, as the observer records it) -/
def finMsg (macFn : Tsig → List UInt8 → List UInt8) (s : State) : Bytes :=
  match finish s macFn with
  | .ok (m, _) => m
  | _ => #[]

/-- the message the observer records before a call: the finished message, before `clear_rrs` -/
def preOf (macFn : Tsig → List UInt8 → List UInt8) (ss : Session) : Op → List Bytes
  | .clearRrs => [finMsg macFn ss.w]
  | _ => []

/-- the messages finished before each `clear_rrs` of a session -/
def preMsgs (macFn : Tsig → List UInt8 → List UInt8) : Session → List Op → List Bytes
  | _, [] => []
  | ss, op :: ops => preOf macFn ss op ++ preMsgs macFn (step ss op).2 ops

theorem preMsgs_append (macFn : Tsig → List UInt8 → List UInt8) (ss : Session) (o1 o2 : List Op) :
    preMsgs macFn ss (o1 ++ o2) = preMsgs macFn ss o1 ++ preMsgs macFn (after ss o1) o2 := by
  induction o1 generalizing ss with
  | nil => rfl
  | cons op o1 ih =>
    simp only [List.cons_append, preMsgs, after]
    rw [ih, List.append_assoc]

theorem preMsgs_noclear (macFn : Tsig → List UInt8 → List UInt8) (ss : Session) (ops : List Op)
    (h : ∀ op ∈ ops, op ≠ .clearRrs) : preMsgs macFn ss ops = [] := by
  induction ops generalizing ss with
  | nil => rfl
  | cons op ops ih =>
    have h1 := h op List.mem_cons_self
    simp only [preMsgs]
    rw [ih _ (fun o ho => h o (List.mem_cons_of_mem _ ho))]
    cases op <;> first | exact absurd rfl h1 | rfl

theorem split_clear : ∀ ops : List Op, (∀ op ∈ ops, op ≠ .clearRrs) ∨
    ∃ o1 o2, ops = o1 ++ .clearRrs :: o2 ∧ ∀ op ∈ o1, op ≠ .clearRrs := by
  intro ops
  induction ops with
  | nil => exact Or.inl (fun _ h => by cases h)
  | cons op ops ih =>
    by_cases hc : op = .clearRrs
    · subst hc
      exact Or.inr ⟨[], ops, rfl, fun _ h => by cases h⟩
    · rcases ih with h | ⟨o1, o2, h1, h2⟩
      · left
        intro o ho
        rcases List.mem_cons.mp ho with rfl | ho
        · exact hc
        · exact h o ho
      · right
        refine ⟨op :: o1, o2, by rw [h1]; rfl, fun o ho => ?_⟩
        rcases List.mem_cons.mp ho with rfl | ho
        · exact hc
        · exact h2 o ho

/-! ### `clear_rrs` on the abstract state -/

theorem step_clear_ok (ss : Session) : (step ss .clearRrs).1 = .ok () := by
  simp [step, liftW, clearRrs, M.modify]

theorem clear_w (ss : Session) : (step ss .clearRrs).2.w = (clearRrs ss.w).2 := liftW_w ss _

/-- after `clear_rrs` the abstract state the specification continues with (`absOk … clearRrs` on
    the next message `d2`) describes the writer again — provided the next message's last question
    ends where the writer's records start -/
theorem desc_clear {ss : Session} {a a' : Message.AState} {b : Body} {mb : MBody} (h : Desc ss a b mb)
    (d2 : Message.Decoded) (habs : Message.absOk a d2 .clearRrs = .ok a')
    (hend : b.qs ≠ [] → Message.endOf d2 (b.qs.length - 1) = some ss.w.rrStart) :
    Desc (step ss .clearRrs).2 a' { qs := b.qs } { qs := mb.qs } := by
  have hok := step_clear_ok ss
  have hop : OpOK ss .clearRrs := trivial
  obtain ⟨hnp, hI'⟩ := step_I ss .clearRrs h.i hop
  have hL' := clay_step ss .clearRrs b mb h.i h.lay hop (fun m hm => by cases hm)
  rw [hok] at hL'
  simp only [if_true, bodyStep, mbodyStep] at hL'
  have hnq : a.questions.length = b.qs.length := by
    have := congrArg List.length h.content.qs
    simpa using this
  obtain ⟨qs, hq, hqm, _, hqM, _⟩ := h.lay.q
  have hmq : mb.qs.length = b.qs.length := by rw [← hqM, ← hqm]; simp
  have habs' : Message.absOk a d2 (Driver.toSpecOp .clearRrs) = .ok a' := habs
  have hcw := clear_w ss
  have hcur : a'.cur = (step ss .clearRrs).2.w.cursor := by
    rw [hcw]
    simp only [clearRrs, M.modify_apply]
    simp only [Message.absOk, Except.ok.injEq] at habs
    subst habs
    show (if a.questions.length = 0 then 12 else (Message.endOf d2 (a.questions.length - 1)).getD 12) = ss.w.rrStart
    rw [hnq]
    by_cases h0 : b.qs.length = 0
    · rw [if_pos h0]
      have : qs = [] := by
        have := congrArg List.length hqm
        rw [List.length_map, h0] at this
        exact List.eq_nil_of_length_eq_zero this
      subst this
      exact hq
    · rw [if_neg h0, hend (fun hn => h0 (by rw [hn]; rfl))]
      rfl
  have hA' := absNum_step ss .clearRrs a a' d2 h.i hop h.num hok habs' (fun _ => hcur)
  have hG' := cfg_step ss .clearRrs a a' d2 h.i h.cfg trivial hok habs'
  have hhs := hdr_step ss .clearRrs h.i.inv trivial hnp
  rw [hok] at hhs
  simp only [if_true] at hhs
  have hah := absOk_hdr .clearRrs a a' d2 habs'
  simp only [Message.absOk, Except.ok.injEq] at habs
  subst habs
  refine ⟨hI', hL', hA', ?_, ?_, ?_, ?_, ?_, hG', ⟨h.typed.qs, (fun _ hx => by cases hx), (fun _ hx => by cases hx),
    (fun _ hx => by cases hx)⟩⟩
  · show a.questions.length = a.questions.length + 0 + 0 + 0
    omega
  · show a.questions.length = bodyLen { qs := b.qs }
    rw [hnq]; simp [bodyLen]
  · rw [hhs, hah, h.hdr]
  · rw [hah, hdrStep_z]; exact h.z
  · refine ⟨h.content.qs, rfl, rfl, rfl, ?_⟩
    show (a.itemModes.drop (a.itemModes.length - a.questions.length)).reverse = _
    rw [List.reverse_drop, h.content.modes, hnq]
    have : a.itemModes.length - (a.itemModes.length - b.qs.length) = b.qs.length := by
      have hl := congrArg List.length h.content.modes
      simp only [List.length_reverse, List.length_map, List.length_append] at hl
      omega
    rw [this]
    simp only [List.map_append, List.append_nil]
    rw [List.append_assoc, List.append_assoc, List.take_left' (by rw [List.length_map]; exact hmq)]

/-! ### the end of the current segment -/

/-- the session at the next `clear_rrs` (or at the end) -/
def segEnd (ss : Session) : List Op → Session
  | [] => ss
  | op :: ops =>
    match op with
    | .clearRrs => ss
    | _ => segEnd (step ss op).2 ops

theorem segEnd_noclear (ss : Session) (ops : List Op) (h : ∀ op ∈ ops, op ≠ .clearRrs) :
    segEnd ss ops = after ss ops := by
  induction ops generalizing ss with
  | nil => rfl
  | cons op ops ih =>
    have h1 := h op List.mem_cons_self
    have := ih (step ss op).2 (fun o ho => h o (List.mem_cons_of_mem _ ho))
    cases op <;> first | exact absurd rfl h1 | exact this

theorem segEnd_split (ss : Session) (o1 o2 : List Op) (h : ∀ op ∈ o1, op ≠ .clearRrs) :
    segEnd ss (o1 ++ .clearRrs :: o2) = after ss o1 := by
  induction o1 generalizing ss with
  | nil => rfl
  | cons op o1 ih =>
    have h1 := h op List.mem_cons_self
    have := ih (step ss op).2 (fun o ho => h o (List.mem_cons_of_mem _ ho))
    cases op <;> first | exact absurd rfl h1 | exact this

theorem msgs_head (macFn : Tsig → List UInt8 → List UInt8) (ss : Session) (ops : List Op) :
    ∃ tl, preMsgs macFn ss ops ++ [finMsg macFn (after ss ops).w] = finMsg macFn (segEnd ss ops).w :: tl := by
  induction ops generalizing ss with
  | nil => exact ⟨[], rfl⟩
  | cons op ops ih =>
    obtain ⟨tl, htl⟩ := ih (step ss op).2
    by_cases hc : op = .clearRrs
    · subst hc
      exact ⟨_, rfl⟩
    · refine ⟨tl, ?_⟩
      have e1 : preMsgs macFn ss (op :: ops) = preMsgs macFn (step ss op).2 ops := by
        cases op <;> first | exact absurd rfl hc | rfl
      have e2 : segEnd ss (op :: ops) = segEnd (step ss op).2 ops := by
        cases op <;> first | exact absurd rfl hc | rfl
      rw [e1, e2]
      exact htl

theorem finMsg_eq {macFn : Tsig → List UInt8 → List UInt8} {s : State} {m : Bytes} {mac : Option (List UInt8)}
    (h : finish s macFn = .ok (m, mac)) : finMsg macFn s = m := by
  unfold finMsg; rw [h]

/-- what is known at the end of a clear-free run: invariant, layout, limits, and `finish` -/
theorem run_facts (macFn : Tsig → List UInt8 → List UInt8) (hmac : MacLenOK macFn) (ss : Session) (b : Body)
    (mb : MBody) (hI : I ss.w) (hL : CLay (fun _ => True) ss.w b mb) (hT : b.Typed) (ops : List Op)
    (ht : ∀ op ∈ ops, op.Typed) (hr : Respects ss ops) (hl : ss.w.limit ≤ 65535)
    (hv : ∀ v, Op.setLimit v ∈ ops → v ≤ 65535) :
    (run ss ops).1 = after ss ops ∧ I (after ss ops).w ∧
      CLay (fun _ => True) (after ss ops).w (bodyRun b ops (run ss ops).2) (mrun ss mb ops) ∧
      (bodyRun b ops (run ss ops).2).Typed ∧ (after ss ops).w.limit ≤ 65535 ∧
      ∃ m mac, finish (after ss ops).w macFn = .ok (m, mac) ∧ m.size ≤ 65535 := by
  obtain ⟨hnp, hIR⟩ := run_I ss ops hI hr
  have hrun := after_eq_run ss ops hnp
  have hLR := clay_run ss ops b mb hI hL hr (fun _ _ => trivial)
  have hTR := typed_run ops ss b hT ht
  have hlR := run_limit ss ops hI hr hl hv
  rw [hrun] at hIR hLR hlR
  obtain ⟨m, mac, hf⟩ := finish_ok macFn hmac _ hIR
  have := finish_size_le_limit macFn _ hIR.inv m mac hf
  exact ⟨hrun, hIR, hLR, hTR, hlR, m, mac, hf, by omega⟩

theorem layoutStable_typed {B : Body} (hT : B.Typed) : ∀ r ∈ B.an ++ B.ns ++ B.ar, LayoutStable r := by
  intro r hx
  have hr : r.Typed := by
    rcases List.mem_append.mp hx with h1 | h1
    · rcases List.mem_append.mp h1 with h2 | h2
      · exact hT.an r h2
      · exact hT.ns r h2
    · exact hT.ar r h1
  exact layoutStable_of_lt hr.2.1 hr.2.2.1

/-- the message finished at the end of the current segment decodes, and its extents begin with
    the ends of the questions and records the writer holds now -/
theorem segEnd_facts (macFn : Tsig → List UInt8 → List UInt8) (hmac : MacLenOK macFn) (ss : Session) (b : Body)
    (mb : MBody) (hI : I ss.w) (hL : CLay (fun _ => True) ss.w b mb) (hT : b.Typed) (ops : List Op)
    (ht : ∀ op ∈ ops, op.Typed) (hr : Respects ss ops) (hl : ss.w.limit ≤ 65535)
    (hv : ∀ v, Op.setLimit v ∈ ops → v ≤ 65535) :
    ∃ d2, Message.specDecodeMsg (finMsg macFn (segEnd ss ops).w) = some d2 ∧
      ∀ qs rs, QChainC ss.w qs 12 ss.w.rrStart → RChainC ss.w rs ss.w.rrStart ss.w.cursor →
        (d2.extents.map (·.2)).take (qs.length + rs.length) = qs.map qEnd ++ rs.map rEnd := by
  have key : ∀ o1 : List Op, (∀ op ∈ o1, op ≠ .clearRrs) → (∀ op ∈ o1, op.Typed) → Respects ss o1 →
      (∀ v, Op.setLimit v ∈ o1 → v ≤ 65535) →
      ∃ d2, Message.specDecodeMsg (finMsg macFn (after ss o1).w) = some d2 ∧
        ∀ qs rs, QChainC ss.w qs 12 ss.w.rrStart → RChainC ss.w rs ss.w.rrStart ss.w.cursor →
          (d2.extents.map (·.2)).take (qs.length + rs.length) = qs.map qEnd ++ rs.map rEnd := by
    intro o1 hnc ht1 hr1 hv1
    obtain ⟨hrun, hIR, hLR, hTR, hlR, m, mac, hf, hsz⟩ := run_facts macFn hmac ss b mb hI hL hT o1 ht1 hr1 hl hv1
    have hseg : Seg ss.w (after ss o1).w := by
      have := run_seg ss o1 hI hL hr1 (fun hx => hnc _ hx rfl)
      rw [hrun] at this; exact this
    obtain ⟨d2, hd2, hp⟩ := extents_prefix macFn hI.winv hI.inv.rr_hi hseg hIR hLR (layoutStable_typed hTR) m mac hf hsz
    exact ⟨d2, by rw [finMsg_eq hf]; exact hd2, hp⟩
  rcases split_clear ops with hnc | ⟨o1, o2, hsplit, hnc⟩
  · rw [segEnd_noclear ss ops hnc]
    exact key ops hnc ht hr hv
  · subst hsplit
    rw [segEnd_split ss o1 o2 hnc]
    exact key o1 hnc (fun op h => ht op (List.mem_append_left _ h)) ((respects_append ss o1 _).mp hr).1
      (fun v h => hv v (List.mem_append_left _ h))

/-! ### the walk over all segments -/

theorem statusStr_ok : Driver.statusStr (.ok ()) = "ok" := by decide

theorem obs_clear (ss : Session) (ops : List Op) :
    obs ss (.clearRrs :: ops) = "ok" :: obs (step ss .clearRrs).2 ops := by
  rw [obs_ne ss .clearRrs ops (fun h => by cases h), step_clear_ok, statusStr_ok]

/-- **the walk of the specification accepts every session**, segment by segment: from a writer
    state the abstract state describes, on the statuses the model reports, the messages finished
    before each `clear_rrs` and the final message -/
theorem walk_sessions (macFn : Tsig → List UInt8 → List UInt8) (hmac : MacLenOK macFn)
    (mac' : Option (List UInt8)) :
    ∀ (n : Nat) (ops : List Op), ops.length ≤ n → ∀ (ss : Session) (a : Message.AState) (b : Body) (mb : MBody),
      Desc ss a b mb → (∀ op ∈ ops, ApiTyped op) → Respects ss ops → ss.w.limit ≤ 65535 →
      (∀ v, Op.setLimit v ∈ ops → v ≤ 65535) →
      (∀ o1 o2, ops = o1 ++ o2 → ∀ m mac ts, finish (after ss o1).w macFn = .ok (m, mac) →
        (after ss o1).w.tsig = some ts → (mac.getD []).length = (toATsig ts).macLen) →
      (∀ m mac, finish (after ss ops).w macFn = .ok (m, mac) → mac' = none ∨ mac' = some (mac.getD [])) →
      ∀ d, Message.specDecodeMsg (finMsg macFn (segEnd ss ops).w) = some d →
      Message.walk false a (ops.map Driver.toSpecOp) (obs ss ops ++ ["ok"])
        (preMsgs macFn ss ops ++ [finMsg macFn (after ss ops).w]) (some d) mac' = .ok () := by
  intro n
  induction n with
  | zero =>
    intro ops hlen ss a b mb hD ht hr hl hv hml hmac' d hd
    have : ops = [] := List.eq_nil_of_length_eq_zero (by omega)
    subst this
    -- a session without calls: the final check alone
    obtain ⟨m, mac, hf⟩ := finish_ok macFn hmac _ hD.i
    have hsz : m.size ≤ 65535 := by have := finish_size_le_limit macFn _ hD.i.inv m mac hf; omega
    obtain ⟨d', hd', hck⟩ := segment_check_ok macFn ss.w b mb a hD.i hD.lay hD.typed hD.num hD.hdr hD.z hD.content
      hD.cfg m mac hf hsz (fun ts hts => hml [] [] rfl m mac ts hf hts) mac' (hmac' m mac hf)
    simp only [segEnd, after, preMsgs, List.nil_append, obs, List.map_nil] at hd ⊢
    rw [finMsg_eq hf] at hd ⊢
    rw [hd'] at hd
    cases hd
    simp only [Message.walk]
    exact hck
  | succ n ih =>
    intro ops hlen ss a b mb hD ht hr hl hv hml hmac' d hd
    rcases split_clear ops with hnc | ⟨o1, o2, hsplit, hnc⟩
    · -- one segment
      obtain ⟨hrun, hIR, hLR, hTR, hlR, m, mac, hf, hsz⟩ := run_facts macFn hmac ss b mb hD.i hD.lay hD.typed ops
        (fun op h => (ht op h).1) hr hl hv
      rw [segEnd_noclear ss ops hnc, finMsg_eq hf] at hd
      rw [preMsgs_noclear macFn ss ops hnc, finMsg_eq hf, List.nil_append]
      have hcurR : (after ss ops).w.cursor ≤ 65535 := by
        have := hIR.inv.cur_av; have := hIR.inv.av_lim; omega
      have hpre : ∀ s, WInv s → s.rrStart ≤ s.cursor → Seg s (after ss ops).w → ∀ qs rs, QChainC s qs 12 s.rrStart →
          RChainC s rs s.rrStart s.cursor →
          (d.extents.map (·.2)).take (qs.length + rs.length) = qs.map qEnd ++ rs.map rEnd := by
        intro s hw hrr hseg qs rs hq hr'
        obtain ⟨d', hd', h⟩ := extents_prefix macFn hw hrr hseg hIR hLR (layoutStable_typed hTR) m mac hf hsz
        rw [hd] at hd'
        cases hd'
        exact h qs rs hq hr'
      obtain ⟨aF, hAF, hF1, hF2, hF3, hF4, hw⟩ := walk_segment hcurR d m mac' hpre ops ss b mb a hD.i hD.lay hD.num
        hD.idx hD.len hD.hdr hD.z hD.content hD.cfg (fun op h => ⟨(ht op h).1, (ht op h).2.1⟩) hr
        (fun op h => ⟨hnc op h, (ht op h).2.2⟩) (by rw [hrun])
      rw [hw]
      obtain ⟨d', hd', hck⟩ := segment_check_ok macFn _ _ _ aF hIR hLR hTR hAF hF1 hF2 hF3 hF4 m mac hf hsz
        (fun ts hts => hml ops [] (by simp) m mac ts hf hts) mac' (hmac' m mac hf)
      rw [hd] at hd'
      cases hd'
      exact hck
    · -- a segment, `clear_rrs`, the rest
      subst hsplit
      obtain ⟨hr1, hr2⟩ := (respects_append ss o1 _).mp hr
      have ht1 : ∀ op ∈ o1, ApiTyped op := fun op h => ht op (List.mem_append_left _ h)
      have ht2 : ∀ op ∈ o2, ApiTyped op :=
        fun op h => ht op (List.mem_append_right _ (List.mem_cons_of_mem _ h))
      have hv1 : ∀ v, Op.setLimit v ∈ o1 → v ≤ 65535 := fun v h => hv v (List.mem_append_left _ h)
      have hv2 : ∀ v, Op.setLimit v ∈ o2 → v ≤ 65535 :=
        fun v h => hv v (List.mem_append_right _ (List.mem_cons_of_mem _ h))
      obtain ⟨hrun, hIR, hLR, hTR, hlR, m, mac, hf, hsz⟩ := run_facts macFn hmac ss b mb hD.i hD.lay hD.typed o1
        (fun op h => (ht1 op h).1) hr1 hl hv1
      rw [segEnd_split ss o1 o2 hnc, finMsg_eq hf] at hd
      have hcurR : (after ss o1).w.cursor ≤ 65535 := by
        have := hIR.inv.cur_av; have := hIR.inv.av_lim; omega
      have hpre : ∀ s, WInv s → s.rrStart ≤ s.cursor → Seg s (after ss o1).w → ∀ qs rs, QChainC s qs 12 s.rrStart →
          RChainC s rs s.rrStart s.cursor →
          (d.extents.map (·.2)).take (qs.length + rs.length) = qs.map qEnd ++ rs.map rEnd := by
        intro s hw hrr hseg qs rs hq hr'
        obtain ⟨d', hd', h⟩ := extents_prefix macFn hw hrr hseg hIR hLR (layoutStable_typed hTR) m mac hf hsz
        rw [hd] at hd'
        cases hd'
        exact h qs rs hq hr'
      -- the messages
      generalize hssR : after ss o1 = ssR at hr2 hIR hLR hlR hf hcurR hpre
      have hafter : after ss (o1 ++ .clearRrs :: o2) = after (step ssR .clearRrs).2 o2 := by
        rw [after_append, hssR]; rfl
      obtain ⟨tl, htl⟩ := msgs_head macFn (step ssR .clearRrs).2 o2
      have hmsgs : preMsgs macFn ss (o1 ++ .clearRrs :: o2) ++ [finMsg macFn (after ss (o1 ++ .clearRrs :: o2)).w] =
          m :: finMsg macFn (segEnd (step ssR .clearRrs).2 o2).w :: tl := by
        rw [preMsgs_append, preMsgs_noclear macFn ss o1 hnc, hssR, hafter, List.nil_append]
        show (finMsg macFn ssR.w :: preMsgs macFn (step ssR .clearRrs).2 o2) ++ _ = _
        rw [finMsg_eq hf, List.cons_append, htl]
      -- the first segment
      obtain ⟨aF, hAF, hF1, hF2, hF3, hF4, hw, hF5, hF6⟩ := walk_segment_k hcurR d mac'
        ((Op.clearRrs :: o2).map Driver.toSpecOp) (obs ssR (.clearRrs :: o2) ++ ["ok"])
        (m :: finMsg macFn (segEnd (step ssR .clearRrs).2 o2).w :: tl) hpre o1 ss b mb a hD.i hD.lay hD.num
        hD.idx hD.len hD.hdr hD.z hD.content hD.cfg (fun op h => ⟨(ht1 op h).1, (ht1 op h).2.1⟩) hr1
        (fun op h => ⟨hnc op h, (ht1 op h).2.2⟩) (by rw [hrun, hssR])
      rw [hmsgs, List.map_append, obs_append, hssR, List.append_assoc, hw]
      -- the final check of the first segment, without a MAC
      obtain ⟨d', hd', hck⟩ := segment_check_ok macFn _ _ _ aF hIR hLR hTR hAF hF1 hF2 hF3 hF4 m mac hf hsz
        (fun ts hts => hml o1 (.clearRrs :: o2) rfl m mac ts (by rw [hssR]; exact hf) (by rw [hssR]; exact hts))
        none (Or.inl rfl)
      rw [hd] at hd'
      cases hd'
      -- the state after `clear_rrs`
      have hDR : Desc ssR aF (bodyRun b o1 (run ss o1).2) (mrun ss mb o1) :=
        ⟨hIR, hLR, hAF, hF5, hF6, hF1, hF2, hF3, hF4, hTR⟩
      generalize bodyRun b o1 (run ss o1).2 = B1 at hLR hTR hF3 hF6 hDR hck
      generalize mrun ss mb o1 = MB1 at hLR hF3 hDR hck
      obtain ⟨_, hIC⟩ := step_I ssR .clearRrs hIR trivial
      have hLC := clay_step ssR .clearRrs B1 MB1 hIR hLR trivial (fun m hm => by cases hm)
      rw [step_clear_ok] at hLC
      simp only [if_true, bodyStep, mbodyStep] at hLC
      have hTC : Body.Typed { qs := B1.qs } :=
        ⟨hTR.qs, (fun _ hx => by cases hx), (fun _ hx => by cases hx), (fun _ hx => by cases hx)⟩
      have hlC : (step ssR .clearRrs).2.w.limit ≤ 65535 :=
        step_limit ssR .clearRrs hIR trivial hlR (fun v hx => by cases hx)
      obtain ⟨d2, hd2, hp2⟩ := segEnd_facts macFn hmac (step ssR .clearRrs).2 { qs := B1.qs } { qs := MB1.qs } hIC hLC
        hTC o2 (fun op h => (ht2 op h).1) hr2.2 hlC hv2
      have hcC : (step ssR .clearRrs).2.w.cursor = ssR.w.rrStart := by rw [clear_w]; rfl
      have hrrC : (step ssR .clearRrs).2.w.rrStart = ssR.w.rrStart := by rw [clear_w]; rfl
      have hend : B1.qs ≠ [] → Message.endOf d2 (B1.qs.length - 1) = some ssR.w.rrStart := by
        intro hne
        obtain ⟨qsC, hqC, hqmC, _⟩ := hLC.q
        have hlen : qsC.length = B1.qs.length := by
          have := congrArg List.length hqmC
          simpa using this
        have hpos : 0 < B1.qs.length := List.length_pos_iff.mpr hne
        have hrC : RChainC (step ssR .clearRrs).2.w [] (step ssR .clearRrs).2.w.rrStart
            (step ssR .clearRrs).2.w.cursor := by
          show _ = _
          rw [hcC, hrrC]
        have := endOf_last hqC hrC (by simp; omega) (hp2 qsC [] hqC hrC)
        simp only [List.length_nil, Nat.add_zero] at this
        rw [hlen, hcC] at this
        exact this
      obtain ⟨a', habs⟩ : ∃ a', Message.absOk aF d2 .clearRrs = .ok a' := ⟨_, rfl⟩
      have hDC := desc_clear hDR d2 habs hend
      have hIH := ih o2 (by simp at hlen; omega) (step ssR .clearRrs).2 a' _ _ hDC ht2 hr2.2 hlC hv2
        (fun p q hpq m0 mac0 ts hf0 hts0 => by
          have hpre' : after ss (o1 ++ .clearRrs :: p) = after (step ssR .clearRrs).2 p := by
            rw [after_append, hssR]; rfl
          refine hml (o1 ++ .clearRrs :: p) q (by rw [hpq]; simp) m0 mac0 ts ?_ ?_
          · rw [hpre']; exact hf0
          · rw [hpre']; exact hts0)
        (fun m0 mac0 hf0 => hmac' m0 mac0 (by rw [hafter]; exact hf0)) d2 hd2
      rw [htl] at hIH
      rw [obs_clear]
      simp only [List.map_cons, Driver.toSpecOp, List.cons_append, Message.walk]
      simp only [bne_self_eq_false, Bool.false_eq_true, if_false, hck, hd2, habs]
      exact hIH

/-! ### what the driver's observer records, for every session that does not panic -/

theorem preOf_reverse (macFn : Tsig → List UInt8 → List UInt8) (ss : Session) (op : Op) :
    (preOf macFn ss op).reverse = preOf macFn ss op := by cases op <;> rfl

theorem go_all (macFn : Tsig → List UInt8 → List UInt8) : ∀ (ops : List Op) (ss : Session) (acc : List String)
    (pre : List Bytes), (∀ r ∈ (run ss ops).2, r ≠ .panic) →
    Driver.runModel.go true macFn ss ops acc pre =
      match finish (after ss ops).w macFn with
      | .ok (m, mc) => ⟨acc.reverse ++ obs ss ops ++ ["ok"], some m, mc, pre.reverse ++ preMsgs macFn ss ops⟩
      | _ => ⟨acc.reverse ++ obs ss ops ++ ["panic"], none, none, pre.reverse ++ preMsgs macFn ss ops⟩ := by
  intro ops
  induction ops with
  | nil =>
    intro ss acc pre _
    simp only [Driver.runModel.go, after, obs, preMsgs, List.append_nil, if_true]
    cases finish ss.w macFn with
    | ok p => obtain ⟨m, mc⟩ := p; simp
    | err e => simp
    | panic => simp
  | cons op ops ih =>
    intro ss acc pre hnp
    by_cases hg : op = .getters
    · subst hg
      have hstep : step ss .getters = (.ok (), ss) := rfl
      have hgo : Driver.runModel.go true macFn ss (.getters :: ops) acc pre =
          Driver.runModel.go true macFn ss ops (Driver.gettersStr ss.w :: acc) pre := rfl
      rw [hgo]
      unfold run at hnp
      simp only [hstep] at hnp
      cases hrun : run ss ops with
      | mk ss'' rs =>
        rw [hrun] at hnp
        have := ih ss (Driver.gettersStr ss.w :: acc) pre
          (by rw [hrun]; exact fun r hr => hnp r (List.mem_cons_of_mem _ hr))
        rw [this]
        simp [obs, after, preMsgs, preOf, hstep, List.reverse_cons, List.append_assoc]
    · have hgo : Driver.runModel.go true macFn ss (op :: ops) acc pre =
          match step ss op with
          | (.panic, _) => ⟨(("panic" :: acc).reverse), none, none,
              (preOf macFn ss op ++ pre).reverse⟩
          | (r, ss') => Driver.runModel.go true macFn ss' ops (Driver.statusStr r :: acc)
              (preOf macFn ss op ++ pre) := by
        cases op <;> first
          | exact absurd rfl hg
          | rfl
          | (simp only [Driver.runModel.go, finMsg, preOf]
             cases finish ss.w macFn with
             | ok p => obtain ⟨m, mc⟩ := p; rfl
             | err e => rfl
             | panic => rfl)
      rw [hgo, obs_ne ss op ops hg]
      unfold run at hnp
      cases hs : step ss op with
      | mk r ss' =>
        rw [hs] at hnp
        have hss : (step ss op).2 = ss' := by rw [hs]
        cases r with
        | panic => exact absurd rfl (hnp _ (by simp))
        | ok u =>
          simp only [] at hnp ⊢
          cases hrun : run ss' ops with
          | mk ss'' rs =>
            rw [hrun] at hnp
            have := ih ss' (Driver.statusStr (.ok u) :: acc)
              (preOf macFn ss op ++ pre)
              (by rw [hrun]; exact fun r hr => hnp r (List.mem_cons_of_mem _ hr))
            rw [this]
            simp only [after, preMsgs, hss]
            cases finish (after ss' ops).w macFn with
            | ok p => obtain ⟨m, mc⟩ := p; simp [List.reverse_cons, List.append_assoc, preOf_reverse]
            | err e => simp [List.reverse_cons, List.append_assoc, preOf_reverse]
            | panic => simp [List.reverse_cons, List.append_assoc, preOf_reverse]
        | err e =>
          simp only [] at hnp ⊢
          cases hrun : run ss' ops with
          | mk ss'' rs =>
            rw [hrun] at hnp
            have := ih ss' (Driver.statusStr (.err e) :: acc)
              (preOf macFn ss op ++ pre)
              (by rw [hrun]; exact fun r hr => hnp r (List.mem_cons_of_mem _ hr))
            rw [this]
            simp only [after, preMsgs, hss]
            cases finish (after ss' ops).w macFn with
            | ok p => obtain ⟨m, mc⟩ := p; simp [List.reverse_cons, List.append_assoc, preOf_reverse]
            | err e => simp [List.reverse_cons, List.append_assoc, preOf_reverse]
            | panic => simp [List.reverse_cons, List.append_assoc, preOf_reverse]

/-! ### `checkSession` accepts every session -/

/-- **`checkSession` accepts every session of typed calls**, with any number of `clear_rrs`: on
    what the driver's observer records from the model — the status strings, the messages finished
    before each `clear_rrs`, the final message, the MAC — the specification's judge returns `"ok"`.
    `hsz`: whenever a signing TSIG mode is configured (at any point of the session), the MAC given
    has the output size of its algorithm. -/
theorem checkSession_all (buf : Bytes) (limit : Nat) (mode : CMode) (s : State) (ops : List Op)
    (mac : Option (List UInt8)) (hnew : Writer.new buf limit = .ok s)
    (hr : Respects { w := { s with mode := mode } } ops) (ht : ∀ op ∈ ops, ApiTyped op) (hlim : limit ≤ 65535)
    (hv : ∀ v, Op.setLimit v ∈ ops → v ≤ 65535) (hmac : MacLenOK (fun _ _ => mac.getD []))
    (hsz : ∀ o1 o2, ops = o1 ++ o2 → ∀ ts, (run { w := { s with mode := mode } } o1).1.w.tsig = some ts →
      isUnsigned ts.mode = false → (mac.getD []).length = (toATsig ts).macLen) :
    ∃ m, (Driver.runModel { w := { s with mode := mode } } ops mac true).msg = some m ∧
      Message.checkSession buf.size limit (Driver.toSpecMode mode) (ops.map Driver.toSpecOp)
        (Driver.runModel { w := { s with mode := mode } } ops mac true).statuses
        ((Driver.runModel { w := { s with mode := mode } } ops mac true).pre ++ [m])
        (Driver.runModel { w := { s with mode := mode } } ops mac true).mac = "ok" := by
  generalize hss0 : ({ w := { s with mode := mode } } : Session) = ss0 at hr hsz ⊢
  have hI0 : I ss0.w := by rw [← hss0]; exact (safe_setMode mode s (new_i buf limit s hnew)).2
  obtain ⟨hnp, hIR⟩ := run_I ss0 ops hI0 hr
  have hrunA := after_eq_run ss0 ops hnp
  rw [hrunA] at hIR
  obtain ⟨m0, mc0, hf0⟩ := finish_ok (fun _ _ => mac.getD []) hmac _ hIR
  have hrunM : Driver.runModel ss0 ops mac true =
      ⟨obs ss0 ops ++ ["ok"], some m0, mc0, preMsgs (fun _ _ => mac.getD []) ss0 ops⟩ := by
    unfold Driver.runModel
    simp only
    rw [go_all _ ops _ [] [] hnp, hf0]
    simp
  -- the initial abstract state
  have hL0 : CLay (fun _ => True) ss0.w {} {} := by rw [← hss0]; exact clay_new buf limit s hnew mode trivial
  have hA0 : AbsNum ss0.w { mode := Driver.toSpecMode mode, buflen := buf.size, limit := min limit buf.size } := by
    rw [← hss0]; exact absNum_new buf limit s hnew mode
  have hG0 : AbsCfg ss0.w { mode := Driver.toSpecMode mode, buflen := buf.size, limit := min limit buf.size } := by
    rw [← hss0]
    have he : s.edns = none ∧ s.tsig = none := by
      unfold Writer.new at hnew
      dsimp only at hnew
      split at hnew
      · cases hnew
      · have hs := Out.ok.inj hnew
        constructor <;> (rw [← hs])
    exact ⟨by show none = Option.map _ s.edns; rw [he.1]; rfl, by show none = Option.map _ s.tsig; rw [he.2]; rfl,
      (fun e h => by have h' : s.edns = some e := h; rw [he.1] at h'; cases h'),
      (fun ts h => by have h' : s.tsig = some ts := h; rw [he.2] at h'; cases h')⟩
  have hT0 : Body.Typed {} :=
    ⟨(fun _ h => by cases h), (fun _ h => by cases h), (fun _ h => by cases h), (fun _ h => by cases h)⟩
  have hD0 : Desc ss0 { mode := Driver.toSpecMode mode, buflen := buf.size, limit := min limit buf.size } {} {} :=
    ⟨hI0, hL0, hA0, rfl, rfl, by rw [← hss0]; show _ = specHeader s.octets; rw [hdr_new buf limit s hnew], rfl,
      ⟨rfl, rfl, rfl, rfl, rfl⟩, hG0, hT0⟩
  have hl0 : ss0.w.limit ≤ 65535 := by rw [← hss0]; exact new_limit buf limit s hnew hlim
  obtain ⟨d, hd, _⟩ := segEnd_facts (fun _ _ => mac.getD []) hmac ss0 {} {} hI0 hL0 hT0 ops (fun op h => (ht op h).1) hr
    hl0 hv
  -- the MAC has the size the specification expects, at every `finish`
  have hml : ∀ o1 o2, ops = o1 ++ o2 → ∀ m mac1 ts, finish (after ss0 o1).w (fun _ _ => mac.getD []) = .ok (m, mac1) →
      (after ss0 o1).w.tsig = some ts → (mac1.getD []).length = (toATsig ts).macLen := by
    intro o1 o2 hsplit m mac1 ts hf hts
    have hr1 : Respects ss0 o1 := by rw [hsplit] at hr; exact ((respects_append ss0 o1 o2).mp hr).1
    have hrun1 := after_eq_run ss0 o1 (run_I ss0 o1 hI0 hr1).1
    obtain ⟨h1, h2⟩ := finish_mac_shape _ _ ts hts m mac1 hf
    cases hu : isUnsigned ts.mode with
    | true =>
      rw [h1 hu]
      cases hm : ts.mode with
      | unsigned n => simp [toATsig, hm, Message.ATsig.macLen]
      | request a k => rw [hm] at hu; cases hu
      | response a x k => rw [hm] at hu; cases hu
      | subsequent a x k => rw [hm] at hu; cases hu
    | false =>
      obtain ⟨msg, hmc⟩ := h2 hu
      rw [hmc]
      exact hsz o1 o2 hsplit ts (by rw [hrun1]; exact hts) hu
  have hmac' : ∀ m mac1, finish (after ss0 ops).w (fun _ _ => mac.getD []) = .ok (m, mac1) →
      mc0 = none ∨ mc0 = some (mac1.getD []) := by
    intro m mac1 hf
    rw [hf0] at hf
    simp only [Out.ok.injEq, Prod.mk.injEq] at hf
    rw [← hf.2]
    cases mc0 with
    | none => exact Or.inl rfl
    | some x => exact Or.inr rfl
  have hwalk := walk_sessions (fun _ _ => mac.getD []) hmac mc0 ops.length ops (Nat.le_refl _) ss0 _ {} {} hD0 ht hr hl0
    hv hml hmac' d hd
  obtain ⟨tl, htl⟩ := msgs_head (fun _ _ => mac.getD []) ss0 ops
  rw [finMsg_eq hf0] at hwalk htl
  refine ⟨m0, by rw [hrunM], ?_⟩
  rw [hrunM]
  simp only
  rw [htl] at hwalk ⊢
  unfold Message.checkSession
  simp only [contains_panic_false ops _ hnp, Bool.false_eq_true, if_false, hd, hwalk]

/-! ### a TSIG configuration keeps its algorithm -/

/-- `s'` still has a TSIG configuration of the same kind: signed with a MAC of the same size, or
    unsigned -/
def SigKept (s s' : State) : Prop :=
  ∀ ts, s.tsig = some ts → ∃ ts', s'.tsig = some ts' ∧ (toATsig ts').signed = (toATsig ts).signed

theorem sigKept_of_eq {s s' : State} (h : s'.tsig = s.tsig) : SigKept s s' :=
  fun ts hts => ⟨ts, by rw [h, hts], rfl⟩

theorem setCount_tsig (sec : RrSection) (n : Nat) (s : State) : (setCount sec n s).2.tsig = s.tsig := by
  cases sec <;> rfl

theorem rolled_tsig {f : M Unit} (h : Rolled f) (s : State) : (f s).2.tsig = s.tsig := by
  have := h s
  cases hf : f s with
  | mk r s' =>
    rw [hf] at this
    cases r with
    | ok u =>
      obtain ⟨s1, sec, n, e, _, hs'⟩ := this
      show s'.tsig = _
      rw [hs', setCount_tsig, e.tsig]
    | err e => exact this.tsig
    | panic => exact this.tsig

theorem retemplate_sig (ss : Session) (n : Nat) (fill : UInt8) (mk : Bytes → Template → Out WriterErr State)
    (hI : I ss.w) (hmk : ∀ buf t s', intoTemplate ss.w = .ok t → mk buf t = .ok s' → SigKept ss.w s') :
    SigKept ss.w (retemplate ss n fill mk).2.w := by
  obtain ⟨t, ht⟩ := intoTemplate_ok hI.inv
  obtain ⟨sf, hsf⟩ := tryFromTemplate_fallback_ok fill hI.inv ht
  have hsfk : SigKept ss.w sf := by
    apply sigKept_of_eq
    unfold tryFromTemplate at hsf
    rw [tryFromTemplateImpl_tsig _ _ hsf, intoTemplate_tsig ht]
  unfold retemplate
  rw [ht]
  simp only []
  cases hm : mk (Array.replicate n fill) t with
  | ok s' => simp only []; exact hmk _ _ _ ht hm
  | err e => simp only []; rw [hsf]; exact hsfk
  | panic => simp only []; rw [hsf]; exact hsfk

theorem step_sig (ss : Session) (op : Op) (hI : I ss.w) : SigKept ss.w (step ss op).2.w := by
  have lw : ∀ f : M Unit, (f ss.w).2.tsig = ss.w.tsig → SigKept ss.w (liftW ss f).2.w := fun f h => by
    rw [liftW_w]; exact sigKept_of_eq h
  cases op with
  | setId v => exact lw (setId v) (keepN_write _ _ _).tsig
  | setQr b => exact lw (setQr b) (keepN_setHdr _ _ _).tsig
  | setAa b => exact lw (setAa b) (keepN_setHdr _ _ _).tsig
  | setTc b => exact lw (setTc b) (keepN_setHdr _ _ _).tsig
  | setRd b => exact lw (setRd b) (keepN_setHdr _ _ _).tsig
  | setRa b => exact lw (setRa b) (keepN_setHdr _ _ _).tsig
  | setOpcode v => exact lw (setOpcode v) (keepN_setHdr _ _ _).tsig
  | setRcode v => exact lw (setRcode v) (keepN_setRcode _ _).tsig
  | setExtendedRcode v => exact lw (setExtendedRcode v) (keepN_setExtendedRcode _ _).tsig
  | setLimit v => exact lw (setLimit v) (setLimit_cfg _ _).2
  | setMode m => exact lw (setCompressionMode m) rfl
  | addQuestion n t c =>
    refine lw (addQuestion n t c) ?_
    have := addQuestion_cases n t c ss.w
    cases hf : addQuestion n t c ss.w with
    | mk r s' =>
      rw [hf] at this
      cases r with
      | ok u => obtain ⟨s1, e, _, hs'⟩ := this; show s'.tsig = _; rw [hs']; exact e.tsig
      | err e => exact this.tsig
      | panic => exact this.tsig
  | addRr sec hn o ty cls ttl rd hv =>
    apply sigKept_of_eq
    show (withHv ss hv _).2.w.tsig = _
    rw [withHv_w]
    exact rolled_tsig (rolled_addRrOp sec _ o ty cls ttl rd) _
  | addRrset sec hn o ty cls ttl rds hv =>
    apply sigKept_of_eq
    show (withHv ss hv _).2.w.tsig = _
    rw [withHv_w]
    exact rolled_tsig (rolled_addRrsetOp sec _ o ty cls ttl rds) _
  | clearRrs => exact lw clearRrs rfl
  | setEdns p =>
    refine lw (setEdns p) ?_
    unfold setEdns
    repeat' split
    all_goals rfl
  | setTsig m rr =>
    intro ts hts
    refine ⟨ts, ?_, rfl⟩
    show (liftW ss (setTsig m rr)).2.w.tsig = _
    rw [liftW_w]
    unfold setTsig
    rw [if_pos (by rw [hts]; rfl)]
    exact hts
  | updateTimeSigned t =>
    intro ts hts
    refine ⟨{ ts with rr := { ts.rr with timeSigned := t } }, ?_, rfl⟩
    show (liftW ss (updateTimeSigned t)).2.w.tsig = _
    rw [liftW_w]
    unfold updateTimeSigned
    rw [hts]
  | template n fill =>
    refine retemplate_sig ss n fill _ hI (fun buf t s' ht hm => ?_)
    apply sigKept_of_eq
    unfold tryFromTemplate at hm
    rw [tryFromTemplateImpl_tsig _ _ hm, intoTemplate_tsig ht]
  | templateSubsequent n fill mac =>
    refine retemplate_sig ss n fill _ hI (fun buf t s' ht hm => ?_)
    intro ts0 hts0
    have hts := intoTemplate_tsig ht
    simp only [tryFromTemplateAsTsigSubsequent] at hm
    rw [hts, hts0] at hm
    simp only at hm
    cases hmode : ts0.mode with
    | request al k =>
      rw [hmode] at hm
      exact ⟨_, tryFromTemplateImpl_tsig _ _ hm, by simp only [toATsig, hmode]⟩
    | response al x k =>
      rw [hmode] at hm
      exact ⟨_, tryFromTemplateImpl_tsig _ _ hm, by simp only [toATsig, hmode]⟩
    | subsequent al x k =>
      rw [hmode] at hm
      exact ⟨_, tryFromTemplateImpl_tsig _ _ hm, by simp only [toATsig, hmode]⟩
    | unsigned nm => rw [hmode] at hm; cases hm
  | getters => exact sigKept_of_eq rfl

theorem SigKept.trans {a b c : State} (h1 : SigKept a b) (h2 : SigKept b c) : SigKept a c := by
  intro ts hts
  obtain ⟨ts1, e1, s1⟩ := h1 ts hts
  obtain ⟨ts2, e2, s2⟩ := h2 ts1 e1
  exact ⟨ts2, e2, by rw [s2, s1]⟩

theorem after_sig (ss : Session) (ops : List Op) (hI : I ss.w) (hr : Respects ss ops) :
    SigKept ss.w (after ss ops).w := by
  induction ops generalizing ss with
  | nil => exact sigKept_of_eq rfl
  | cons op ops ih =>
    obtain ⟨hop, hrest⟩ := hr
    exact SigKept.trans (step_sig ss op hI) (ih _ (step_I ss op hI hop).2 hrest)

theorem unsigned_iff (ts : Tsig) : isUnsigned ts.mode = (toATsig ts).signed.isNone := by
  cases hm : ts.mode <;> simp [toATsig, hm, isUnsigned]

/-- **`C12_full`**, as (amended) stated: the MAC-size hypothesis for the final state alone suffices,
    because a TSIG configuration keeps its algorithm for the rest of the session -/
theorem checkSession_full (buf : Bytes) (limit : Nat) (mode : CMode) (s : State) (ops : List Op)
    (mac : Option (List UInt8)) (hnew : Writer.new buf limit = .ok s)
    (hr : Respects { w := { s with mode := mode } } ops) (ht : ∀ op ∈ ops, ApiTyped op) (hlim : limit ≤ 65535)
    (hv : ∀ v, Op.setLimit v ∈ ops → v ≤ 65535) (hmac : MacLenOK (fun _ _ => mac.getD []))
    (hsz : ∀ ts, (run { w := { s with mode := mode } } ops).1.w.tsig = some ts → isUnsigned ts.mode = false →
      (mac.getD []).length = (toATsig ts).macLen) :
    ∃ m, (Driver.runModel { w := { s with mode := mode } } ops mac true).msg = some m ∧
      Message.checkSession buf.size limit (Driver.toSpecMode mode) (ops.map Driver.toSpecOp)
        (Driver.runModel { w := { s with mode := mode } } ops mac true).statuses
        ((Driver.runModel { w := { s with mode := mode } } ops mac true).pre ++ [m])
        (Driver.runModel { w := { s with mode := mode } } ops mac true).mac = "ok" := by
  refine checkSession_all buf limit mode s ops mac hnew hr ht hlim hv hmac (fun o1 o2 hsplit ts hts hu => ?_)
  have hI0 : I ({ w := { s with mode := mode } } : Session).w := (safe_setMode mode s (new_i buf limit s hnew)).2
  subst hsplit
  obtain ⟨hr1, hr2⟩ := (respects_append _ o1 o2).mp hr
  obtain ⟨hnp1, hI1⟩ := run_I _ o1 hI0 hr1
  have hrun1 := after_eq_run _ o1 hnp1
  have hrunA := after_eq_run _ (o1 ++ o2) (run_I _ (o1 ++ o2) hI0 hr).1
  rw [hrun1] at hts hI1
  obtain ⟨ts', hts', hsig⟩ := after_sig _ o2 hI1 hr2 ts hts
  rw [← after_append, ← hrunA] at hts'
  have hu' : isUnsigned ts'.mode = false := by rw [unsigned_iff, hsig, ← unsigned_iff]; exact hu
  have := hsz ts' hts' hu'
  rw [this]
  unfold Message.ATsig.macLen
  rw [hsig]

end QV.Writer
