/-
  QV.Proofs.ServerSignedPlain — towards "answered normally" for answered requests (C10 row 3): the
  request without its TSIG record, under the audit's guard `plainComparable`, is answered by
  `handle_query` run on *the same scan state* as the signed request's pre-TSIG state: same ID, opcode,
  RD, question, EDNS state and UDP limit.  (The analogue of `plain_nodata_of_comparable` in
  Proofs/AuditPlain.lean for the verdict `answer`.)
-/
import QV.Proofs.AuditPlain
import QV.Proofs.ServerSignedTable
import QV.Proofs.ServerAnswerFields
import QV.Proofs.ServerAnswerMono
import QV.Proofs.ServerAnswerTwoRun
import QV.Proofs.ServerAnswerTwoRunI

namespace QV.ServerContent
open QV QV.Wire QV.Reader QV.Writer QV.Server QV.ServerSafety QV.ServerScan QV.ServerAnswer QV.Spec QV.ServerTsig
open QV.Spec.Server QV.Spec.ServerTsig

/-- taking the TSIG record out leaves the first ten octets of the header alone -/
theorem strip_header (req : Bytes) (d : Delim) (hfind : findTsig req = some d) (h12 : 12 ≤ d.pos)
    (hdsz : d.pos ≤ req.size) (hnext : d.pos ≤ d.next) (hnsz : d.next ≤ req.size) :
    ∃ p, stripTsigRr req = some p ∧ (∀ i, i < 10 → p.getD i 0 = req.getD i 0) ∧ p.size ≤ req.size ∧ 12 ≤ p.size := by
  unfold stripTsigRr
  rw [hfind]
  have hl : ((req.extract 0 d.pos).toList ++ (req.extract d.next req.size).toList).length =
      d.pos + (req.size - d.next) := by
    simp only [List.length_append, Array.length_toList, Array.size_extract]; omega
  refine ⟨_, rfl, fun i hi => ?_, ?_, ?_⟩
  · rw [Array.getD_eq_getD_getElem?, Array.getD_eq_getD_getElem?]
    congr 1
    simp only [bump, List.getElem?_toArray]
    rw [List.append_assoc, List.getElem?_append_left (by rw [List.length_take, hl]; omega),
      List.getElem?_take_of_lt (by omega), List.getElem?_append_left (by simp; omega)]
    simp only [Array.getElem?_toList, Array.getElem?_extract]
    rw [if_pos (by omega), Nat.zero_add]
  · simp only [bump, List.size_toArray, List.length_append, List.length_take, List.length_drop,
      Array.length_toList, Array.size_extract, Spec.Tsig.u16, List.length_cons, List.length_nil]
    omega
  · simp only [bump, List.size_toArray, List.length_append, List.length_take, List.length_drop,
      Array.length_toList, Array.size_extract, Spec.Tsig.u16, List.length_cons, List.length_nil]
    omega

theorem hdr_of_getD (a b : Bytes) (i : Nat) (h0 : a.getD i 0 = b.getD i 0) (h1 : a.getD (i + 1) 0 = b.getD (i + 1) 0) :
    Spec.Server.hdr a i = Spec.Server.hdr b i := by
  unfold Spec.Server.hdr; rw [h0, h1]

/-- **the plain run**: under `plainComparable`, when the decision table after the TSIG record says "a
    loaded zone answers", the request without its TSIG record is answered by `handle_query` on the scan
    state of the signed request (before the TSIG step), for the same question -/
theorem plain_answer_run (cfg : Cfg) (cat : List ZoneCfg) (tr : Transport) (now : Nat)
    (req : Bytes) (hpay : 512 ≤ cfg.payload) (hp16 : cfg.payload ≤ 65535) (hreq : req.size ≤ Rdata.USIZE_MAX)
    (d : Delim) (hfind : findTsig req = some d) (h12 : 12 ≤ d.pos)
    (hdsz : d.pos ≤ req.size) (hnext : d.pos ≤ d.next) (hnsz : d.next ≤ req.size)
    (iq : (specScan cat cfg.payload req).question = (specScanWith (catKind cfg) cfg.payload req).question)
    (ie : (specScan cat cfg.payload req).edns = (specScanWith (catKind cfg) cfg.payload req).edns)
    (il : (specScan cat cfg.payload req).limitUdp = (specScanWith (catKind cfg) cfg.payload req).limitUdp)
    (hev : endVerdict (catKind cfg) req.size (specScanWith (catKind cfg) cfg.payload req).question d.next
      ((req.getD 2 0).toNat / 8 % 16) = .answer)
    (hcmp : plainComparable cat cfg.payload req = true)
    (hrq : (specScanWith (catKind cfg) cfg.payload req).respond = true) :
    ∃ p q qn, stripTsigRr req = some p ∧ (specScanWith (catKind cfg) cfg.payload req).question = some q ∧
      WName.parse q.qname = some (qn, []) ∧
      Server.handleMessage cfg tr now 65535 p =
        match (Server.handleQuery cfg (some (qn, q.qtype, q.qclass)) tr >>= fun _ => (pure true : M Bool))
            (scanState cfg tr 65535 req (Spec.Server.hdr req 0) (((req.getD 2 0).toNat &&& 120) >>> 3)
              (((req.getD 2 0).toNat &&& 1) != 0) q) with
        | (.ok true, w1) =>
          (match Writer.finish w1 Server.macFn with
           | .ok (bytes, _) => .ok (some bytes)
           | _ => .panic)
        | (.ok false, _) => .ok none
        | _ => .panic := by
  obtain ⟨p, hstrip, hp10, hpsz, hp12⟩ := strip_header req d hfind h12 hdsz hnext hnsz
  have hp2 := hp10 2 (by omega)
  unfold plainComparable at hcmp
  rw [hfind, hstrip] at hcmp
  simp only [Bool.and_eq_true, decide_eq_true_eq] at hcmp
  obtain ⟨⟨⟨⟨c1, c2⟩, c3⟩, c4⟩, c5⟩ := hcmp
  rw [postVerdict_eq] at c5
  obtain ⟨r1, r2, r3, r4, rv⟩ := specScanWith_lookup_indep
    (fun qn qc => (specCatalogLookup cat qn qc).map (·.kind)) (catKind cfg) cfg.payload p
  have c1' : (specScanWith (fun qn qc => (specCatalogLookup cat qn qc).map (·.kind)) cfg.payload p).respond = true := c1
  have c2' : (specScanWith (fun qn qc => (specCatalogLookup cat qn qc).map (·.kind)) cfg.payload p).question =
      (specScan cat cfg.payload req).question := c2
  have c3' : (specScanWith (fun qn qc => (specCatalogLookup cat qn qc).map (·.kind)) cfg.payload p).edns =
      (specScan cat cfg.payload req).edns := c3
  have c4' : (specScanWith (fun qn qc => (specCatalogLookup cat qn qc).map (·.kind)) cfg.payload p).limitUdp =
      (specScan cat cfg.payload req).limitUdp := c4
  have c5' : (specScanWith (fun qn qc => (specCatalogLookup cat qn qc).map (·.kind)) cfg.payload p).verdict =
      endVerdict (fun qn qc => (specCatalogLookup cat qn qc).map (·.kind)) req.size (specScan cat cfg.payload req).question
        d.next ((req.getD 2 0).toNat / 8 % 16) := c5
  have hrP : (specScanWith (catKind cfg) cfg.payload p).respond = true := by rw [← r1]; exact c1'
  have hqP : (specScanWith (catKind cfg) cfg.payload p).question = (specScanWith (catKind cfg) cfg.payload req).question := by
    rw [← r2, c2', iq]
  have heP : (specScanWith (catKind cfg) cfg.payload p).edns = (specScanWith (catKind cfg) cfg.payload req).edns := by
    rw [← r3, c3', ie]
  have hlP : (specScanWith (catKind cfg) cfg.payload p).limitUdp = (specScanWith (catKind cfg) cfg.payload req).limitUdp := by
    rw [← r4, c4', il]
  have hvP : (specScanWith (catKind cfg) cfg.payload p).verdict = .answer := by
    rw [← hev, ← iq]
    rcases rv with ⟨e1, e2⟩ | ⟨p3, e1, e2⟩
    · rw [← e1]
      rw [c5'] at e2 ⊢
      have hf : endVerdict (fun qn qc => (specCatalogLookup cat qn qc).map (·.kind)) req.size
          (specScan cat cfg.payload req).question d.next ((req.getD 2 0).toNat / 8 % 16) = .formErr := by
        rcases e2 with e2 | e2 | e2
        · exact e2
        · rcases endVerdict_range (fun qn qc => (specCatalogLookup cat qn qc).map (·.kind)) req.size
            (specScan cat cfg.payload req).question d.next ((req.getD 2 0).toNat / 8 % 16) with h | h | h | h | h <;>
            rw [h] at e2 <;> cases e2
        · rcases endVerdict_range (fun qn qc => (specCatalogLookup cat qn qc).map (·.kind)) req.size
            (specScan cat cfg.payload req).question d.next ((req.getD 2 0).toNat / 8 % 16) with h | h | h | h | h <;>
            rw [h] at e2 <;> cases e2
      rw [hf, endVerdict_formErr_indep _ (catKind cfg) _ _ _ _ hf]
    · rw [e2, c2', hp2]
      rw [e1, c2', hp2] at c5'
      exact endVerdict_transfer _ (catKind cfg) _ _ _ _ _ _ c5'
  -- the scan of `p` in `specBody` form
  have hqr : (p.getD 2 0).toNat < 128 := by
    by_cases hc : (p.getD 2 0).toNat ≥ 128
    · rw [specScanWith_eq] at hrP
      simp only [show ¬ p.size < 12 by omega, hc, if_false, if_true] at hrP; cases hrP
    · omega
  have hsb : specScanWith (catKind cfg) cfg.payload p = specBody (catKind cfg) cfg.payload p := by
    rw [specScanWith_eq]
    simp only [show ¬ p.size < 12 by omega, show ¬ (p.getD 2 0).toNat ≥ 128 by omega, if_false]
  rw [hsb] at hvP hqP heP hlP
  have hbuf : minBuf tr cfg.payload ≤ 65535 := by cases tr <;> simp only [minBuf] <;> omega
  obtain ⟨q, qn, nx, hq0, hsq, hqn, hqw, hwl, _, _, _, heq⟩ :=
    hwc_answer_state cfg tr now 65535 p hbuf hpay hp12 (Nat.le_trans hpsz hreq) (Spec.Server.hdr p 0)
      (((p.getD 2 0).toNat &&& 120) >>> 3) (((p.getD 2 0).toNat &&& 1) != 0) hvP
  refine ⟨p, q, qn, hstrip, by rw [← hqP, hq0], hqn, ?_⟩
  rw [handleMessage_eq cfg tr now 65535 p hbuf hpay hp12 hqr, heq]
  have hid : Spec.Server.hdr p 0 = Spec.Server.hdr req 0 := hdr_of_getD p req 0 (hp10 0 (by omega)) (hp10 1 (by omega))
  unfold scanState
  rw [heP, hlP, hid, hp2]
  have hsr : specScanWith (catKind cfg) cfg.payload req = specBody (catKind cfg) cfg.payload req :=
    (specScanWith_respond _ _ _ hrq).2.2
  rw [hsr]
  rfl

/-! ### (a): the two runs coincide when the plain run accepted everything and fits -/

theorem setIfInBounds_same (a : Bytes) (i : Nat) (v : UInt8) (h : a.getD i 0 = v) (_hi : i < a.size) :
    a.setIfInBounds i v = a := by
  apply Array.ext
  · simp
  · intro j h1 h2
    rw [Array.getElem_setIfInBounds]
    split
    · rename_i hij
      subst hij
      rw [← h, Array.getD_eq_getD_getElem?, Array.getElem?_eq_getElem h2]; rfl
    · rfl

/-- **more room changes nothing when everything was accepted and fits** (model level, for the
    answering logic): if the run on `s` accepts every call and its result still leaves `R` octets of
    room (and ARCOUNT below its maximum), the run on `withTsig s mode rr` — ARCOUNT + 1, `R` octets
    reserved, TSIG pending — makes the same calls with the same results: same log, and the final
    writers differ exactly by those three fields -/
theorem signed_run_eq_plain_run_allok (z : Zone.Zone) (qname : WName) (qtype : Nat) (s : State)
    (mode : TsigMode) (rr : TsigRr) (hR : reservedLen mode rr ≤ s.available) (pt : PS)
    (h : inner z qname qtype ⟨s, []⟩ = (.ok (), pt)) (hok : ∀ e ∈ pt.log, OkEv e)
    (hfit : pt.w.cursor + reservedLen mode rr ≤ s.available) (hcnt : pt.w.arcount + 1 ≤ 65535) :
    ∃ ps', inner z qname qtype ⟨withTsig s mode rr, []⟩ = (.ok (), ps') ∧ ps'.log = pt.log ∧
      lift (reservedLen mode rr) ps'.w =
        modS (s.limit + reservedLen mode rr) (some ⟨mode, reservedLen mode rr, rr⟩) pt.w := by
  have h1 := (comPF_inner z qname qtype).1 (s.limit + reservedLen mode rr) (some ⟨mode, reservedLen mode rr, rr⟩)
    ⟨s, []⟩ (by rw [h]; exact hcnt)
  rw [h] at h1
  simp only at h1
  have e : modS (s.limit + reservedLen mode rr) (some ⟨mode, reservedLen mode rr, rr⟩) s =
      lift (reservedLen mode rr) (withTsig s mode rr) := by
    unfold modS lift withTsig
    simp only
    congr 1
    omega
  rw [e] at h1
  obtain ⟨ps', g1, g2, g3⟩ := inner_limit_independent z qname qtype (reservedLen mode rr) (withTsig s mode rr) _ h1
    hok (by show pt.w.cursor ≤ s.available - reservedLen mode rr; omega)
  exact ⟨ps', g1, g2, g3.symm⟩


theorem handle_of_inner_ok (z : Zone.Zone) (qname : WName) (qtype : Nat) (tr : Transport) (ps pt : PS)
    (h : inner z qname qtype ps = (.ok (), pt)) : handleNonAxfrQueryL z qname qtype tr ps = (.ok (), pt) := by
  have hin : (if qtype = QT "ANY" then answerAny z qname ps else Server.answer z qname qtype ps)
      = inner z qname qtype ps := by
    unfold inner; split <;> rfl
  unfold handleNonAxfrQueryL
  simp only [hin, h]

/-- the scan state already has RCODE 0 and extended-RCODE octet 0: `set_rcode(NOERROR)` changes nothing -/
theorem stRcode0_scanState (cfg : Cfg) (tr : Transport) (bufLen : Nat) (req : Bytes)
    (hbuf : minBuf tr cfg.payload ≤ bufLen) (hpay : 512 ≤ cfg.payload) (id opcode : Nat) (rd : Bool)
    (q : Spec.DQuestion) (nx : Nat) (hsq : Spec.specQuestionAt req 12 = some (q.qname, q.qtype, q.qclass, nx)) :
    stRcode 0 (scanState cfg tr bufLen req id opcode rd q) = scanState cfg tr bufLen req id opcode rd q := by
  have hq : ∀ x, (some q) = some x → ∃ nx, Spec.specQuestionAt req 12 = some (x.qname, x.qtype, x.qclass, nx) := by
    intro x hx; cases hx; exact ⟨nx, hsq⟩
  obtain ⟨hbase, _, _, _, _, h30, hs3, _⟩ := s1_facts bufLen tr cfg.payload id opcode rd hbuf hpay req (some q) hq
  obtain ⟨f1, _, _, _, _, _, _, f8⟩ := arSt_fields (qSt (hdrSt (w0 bufLen (lim0 tr)) id opcode rd) (some q)) tr cfg.payload
    (specBody (catKind cfg) cfg.payload req).edns (specBody (catKind cfg) cfg.payload req).limitUdp
  unfold scanState
  generalize arSt (qSt (hdrSt (w0 bufLen (lim0 tr)) id opcode rd) (some q)) tr cfg.payload
    (specBody (catKind cfg) cfg.payload req).edns (specBody (catKind cfg) cfg.payload req).limitUdp = S at f1 f8
  have h3 : S.octets.getD 3 0 = 0 := by rw [f1]; exact h30
  have hsz : 3 < S.octets.size := by rw [f1]; exact hs3
  have ho : (stHdr 3 (fun b => (b &&& ~~~ (15 : UInt8)) ||| UInt8.ofNat 0) S) = S := by
    unfold stHdr
    rw [h3]
    have : (fun b : UInt8 => (b &&& ~~~ (15 : UInt8)) ||| UInt8.ofNat 0) 0 = 0 := by decide
    rw [this, setIfInBounds_same S.octets 3 0 h3 hsz]
  have hed : S.edns = none ∨ S.edns = some ⟨cfg.payload, 0⟩ := by
    rw [f8, hbase.edns]; cases (specBody (catKind cfg) cfg.payload req).edns <;> simp
  unfold stRcode
  simp only [ho]
  rcases hed with h | h
  · rw [h]
  · cases S with | mk a1 a2 a3 a4 a5 a6 a7 a8 a9 a10 a11 a12 a13 a14 a15 a16 a17 a18 a19 a20 =>
      simp only at h
      subst h
      rfl


/-- **(a), model level: the signed run equals the plain run when the plain run accepted every call and
    its result leaves room for the TSIG record.**  `SS` is the scan state both requests share
    (`plain_answer_run`, `signed_answer_state_of_run`); the signed run starts from
    `withTsig (stRcode 0 SS) mode rr`.  If the answering logic on `SS` succeeds with every logged call
    accepted, ends with `reservedLen mode rr` octets to spare and ARCOUNT below its maximum, then
    `handle_non_axfr_query` logs exactly the same operations in both runs — hence the same view: RCODE,
    AA, TC and the three sections (`Proofs/ServerAnswerFields`: the run does not look at `limit`, the
    TSIG slot or ARCOUNT + 1; `inner_limit_independent`: nor at room it does not need). -/
theorem signed_handler_eq_plain_allok (cfg : Cfg) (tr : Transport) (bufLen : Nat) (req : Bytes)
    (hbuf : minBuf tr cfg.payload ≤ bufLen) (hpay : 512 ≤ cfg.payload) (id opcode : Nat) (rd : Bool)
    (q : Spec.DQuestion) (nx : Nat) (hsq : Spec.specQuestionAt req 12 = some (q.qname, q.qtype, q.qclass, nx))
    (z : Zone.Zone) (qn : WName) (mode : TsigMode) (rr : TsigRr)
    (hR : reservedLen mode rr ≤ (scanState cfg tr bufLen req id opcode rd q).available) (pt : PS)
    (h : inner z qn q.qtype ⟨scanState cfg tr bufLen req id opcode rd q, []⟩ = (.ok (), pt))
    (hok : ∀ e ∈ pt.log, OkEv e)
    (hfit : pt.w.cursor + reservedLen mode rr ≤ (scanState cfg tr bufLen req id opcode rd q).available)
    (hcnt : pt.w.arcount + 1 ≤ 65535) :
    (handleNonAxfrQueryL z qn q.qtype tr ⟨scanState cfg tr bufLen req id opcode rd q, []⟩).1 = .ok () ∧
    (handleNonAxfrQueryL z qn q.qtype tr
      ⟨withTsig (stRcode 0 (scanState cfg tr bufLen req id opcode rd q)) mode rr, []⟩).1 = .ok () ∧
    (handleNonAxfrQueryL z qn q.qtype tr
      ⟨withTsig (stRcode 0 (scanState cfg tr bufLen req id opcode rd q)) mode rr, []⟩).2.log =
      (handleNonAxfrQueryL z qn q.qtype tr ⟨scanState cfg tr bufLen req id opcode rd q, []⟩).2.log := by
  rw [stRcode0_scanState cfg tr bufLen req hbuf hpay id opcode rd q nx hsq]
  obtain ⟨ps', g1, g2, _⟩ := signed_run_eq_plain_run_allok z qn q.qtype _ mode rr hR pt h hok hfit hcnt
  rw [handle_of_inner_ok z qn q.qtype tr _ _ h, handle_of_inner_ok z qn q.qtype tr _ _ g1]
  exact ⟨rfl, rfl, g2⟩


/-! ### (b): the plain run may have dropped optional calls, or failed — modulo `ScratchIndep` -/

/-- **the signed run logs the same operations as the plain run** whenever the plain run succeeds
    (optional calls possibly dropped) and leaves room for the TSIG record — modulo the named
    hypothesis `ScratchIndepI` (Proofs/ServerAnswerTwoRunI.lean; the plain run starts from a state
    that satisfies the writer's invariant, with a valid question hint).  The final writers agree up to the
    room, the TSIG slot, ARCOUNT + 1 and the octets at and above the cursor. -/
theorem signed_run_eq_plain_run (hSI : ScratchIndepI) (z : Zone.Zone) (hz : ZoneOK z) (qname : WName)
    (hq : qname.WF) (qtype : Nat) (hsub : z.apex <:+ fold qname) (s : State) (hi : Writer.I s)
    (hh : HintOK Writer.Den s .qname qname)
    (mode : TsigMode) (rr : TsigRr) (hR : reservedLen mode rr ≤ s.available) (pt : PS)
    (h : inner z qname qtype ⟨s, []⟩ = (.ok (), pt))
    (hfit : pt.w.cursor + reservedLen mode rr ≤ s.available) (hcnt : pt.w.arcount + 1 ≤ 65535)
    (hnp : (inner z qname qtype ⟨withTsig s mode rr, []⟩).1 ≠ .panic) :
    ∃ ps' t0, inner z qname qtype ⟨withTsig s mode rr, []⟩ = (.ok (), ps') ∧ ps'.log = pt.log ∧
      modS (s.limit + reservedLen mode rr) (some ⟨mode, reservedLen mode rr, rr⟩) pt.w =
        lift (reservedLen mode rr) t0 ∧ Same ps'.w t0 := by
  have e : modS (s.limit + reservedLen mode rr) (some ⟨mode, reservedLen mode rr, rr⟩) s =
      lift (reservedLen mode rr) (withTsig s mode rr) := by
    unfold modS lift withTsig
    simp only
    congr 1
    omega
  obtain ⟨ps', t0, g1, g2, g3, g4, _⟩ := (inner_safeX hSI z hz qname hq qtype hsub ⟨s, []⟩ hi hh).2.2
    (s.limit + reservedLen mode rr) (some ⟨mode, reservedLen mode rr, rr⟩) (reservedLen mode rr)
    (withTsig s mode rr) (withTsig s mode rr) () pt e.symm (Same.refl _) rfl h
    (by show pt.w.cursor ≤ s.available - reservedLen mode rr; omega) hcnt hnp
  exact ⟨ps', t0, g1, g2, g3.symm, g4⟩

/-- the view of a successful answering run: TC clear, RCODE 0 or 3 -/
theorem view_inner_ok (z : Zone.Zone) (qname : WName) (qtype : Nat) (w : State) (r : Out PErr Unit) (pt : PS)
    (h : inner z qname qtype ⟨w, []⟩ = (r, pt)) :
    (view pt.log).tc = false ∧ ((view pt.log).rcode = 0 ∨ (view pt.log).rcode = 3) := by
  obtain ⟨evs, hl, hP, _⟩ := LogsH.inner z qname qtype ⟨w, []⟩
  rw [h] at hl
  simp only [List.nil_append] at hl
  rw [hl]
  exact foldl_innerEv evs {} hP

/-- the view after `handle_non_axfr_query` when the answering logic failed and TC is not set:
    SERVFAIL, AA clear, no records -/
theorem view_handle_err (z : Zone.Zone) (qname : WName) (qtype : Nat) (tr : Transport) (w : State) (e : PErr)
    (pt : PS) (h : inner z qname qtype ⟨w, []⟩ = (.err e, pt))
    (hnp : (handleNonAxfrQueryL z qname qtype tr ⟨w, []⟩).1 ≠ .panic)
    (htc : (view (handleNonAxfrQueryL z qname qtype tr ⟨w, []⟩).2.log).tc = false) :
    view (handleNonAxfrQueryL z qname qtype tr ⟨w, []⟩).2.log =
      { rcode := 2, aa := false, tc := false, answer := [], authority := [], additional := [] } := by
  obtain ⟨hlog, _⟩ := handle_log_np z qname qtype tr ⟨w, []⟩ hnp
  obtain ⟨f1, _⟩ := view_inner_ok z qname qtype w _ pt h
  rw [hlog] at htc ⊢
  rw [h] at htc ⊢
  simp only at htc ⊢
  unfold view at htc f1 ⊢
  rw [List.foldl_append] at htc ⊢
  generalize pt.log.foldl View.step {} = v0 at htc f1 ⊢
  obtain ⟨rc, aa, tc, an, ns, ar⟩ := v0
  simp only at f1
  subst f1
  cases e with
  | servFail => simp [tailEvs, View.step, Resolve.SERVFAIL]
  | truncation =>
    by_cases htr : tr = Transport.tcp
    · simp [tailEvs, htr, View.step, Resolve.SERVFAIL]
    · simp [tailEvs, htr, View.step] at htc

/-- **(b), model level: the signed run shows the same view as the plain run** — RCODE, AA, TC and the
    three sections — whenever neither response is truncated, the plain result (when the answering logic
    succeeds) leaves room for the TSIG record, and a plain SERVFAIL is a signed SERVFAIL (the three
    guards of the audit's comparison clause).  Modulo `ScratchIndepI`.  When the plain answering logic
    succeeded, so did the signed one, with the same log, and the final writers agree up to the room,
    the TSIG slot, ARCOUNT + 1 and the octets at and above the cursor. -/
theorem signed_handler_eq_plain (hSI : ScratchIndepI) (cfg : Cfg) (tr : Transport) (bufLen : Nat) (req : Bytes)
    (hbuf : minBuf tr cfg.payload ≤ bufLen) (hpay : 512 ≤ cfg.payload) (id opcode : Nat) (rd : Bool)
    (q : Spec.DQuestion) (nx : Nat) (hsq : Spec.specQuestionAt req 12 = some (q.qname, q.qtype, q.qclass, nx))
    (z : Zone.Zone) (hz : ZoneOK z) (qn : WName) (hqwf : qn.WF) (hsub : z.apex <:+ fold qn)
    (hiS : Writer.I (scanState cfg tr bufLen req id opcode rd q))
    (hhS : HintOK Writer.Den (scanState cfg tr bufLen req id opcode rd q) .qname qn)
    (mode : TsigMode) (rr : TsigRr)
    (hR : reservedLen mode rr ≤ (scanState cfg tr bufLen req id opcode rd q).available)
    (hnpP : (handleNonAxfrQueryL z qn q.qtype tr ⟨scanState cfg tr bufLen req id opcode rd q, []⟩).1 ≠ .panic)
    (hnpS : (handleNonAxfrQueryL z qn q.qtype tr
      ⟨withTsig (stRcode 0 (scanState cfg tr bufLen req id opcode rd q)) mode rr, []⟩).1 ≠ .panic)
    (htcP : (view (handleNonAxfrQueryL z qn q.qtype tr ⟨scanState cfg tr bufLen req id opcode rd q, []⟩).2.log).tc = false)
    (htcS : (view (handleNonAxfrQueryL z qn q.qtype tr
      ⟨withTsig (stRcode 0 (scanState cfg tr bufLen req id opcode rd q)) mode rr, []⟩).2.log).tc = false)
    (hrc2 : (view (handleNonAxfrQueryL z qn q.qtype tr ⟨scanState cfg tr bufLen req id opcode rd q, []⟩).2.log).rcode = 2 →
      (view (handleNonAxfrQueryL z qn q.qtype tr
        ⟨withTsig (stRcode 0 (scanState cfg tr bufLen req id opcode rd q)) mode rr, []⟩).2.log).rcode = 2)
    (hfit : ∀ pt, inner z qn q.qtype ⟨scanState cfg tr bufLen req id opcode rd q, []⟩ = (.ok (), pt) →
      pt.w.cursor + reservedLen mode rr ≤ (scanState cfg tr bufLen req id opcode rd q).available ∧
      pt.w.arcount + 1 ≤ 65535) :
    view (handleNonAxfrQueryL z qn q.qtype tr
      ⟨withTsig (stRcode 0 (scanState cfg tr bufLen req id opcode rd q)) mode rr, []⟩).2.log =
      view (handleNonAxfrQueryL z qn q.qtype tr ⟨scanState cfg tr bufLen req id opcode rd q, []⟩).2.log ∧
    (∀ pt, inner z qn q.qtype ⟨scanState cfg tr bufLen req id opcode rd q, []⟩ = (.ok (), pt) →
      handleNonAxfrQueryL z qn q.qtype tr ⟨scanState cfg tr bufLen req id opcode rd q, []⟩ = (.ok (), pt) ∧
      ∃ ps' t0, handleNonAxfrQueryL z qn q.qtype tr
          ⟨withTsig (stRcode 0 (scanState cfg tr bufLen req id opcode rd q)) mode rr, []⟩ = (.ok (), ps') ∧
        ps'.log = pt.log ∧
        modS ((scanState cfg tr bufLen req id opcode rd q).limit + reservedLen mode rr)
          (some ⟨mode, reservedLen mode rr, rr⟩) pt.w = lift (reservedLen mode rr) t0 ∧ Same ps'.w t0) := by
  rw [stRcode0_scanState cfg tr bufLen req hbuf hpay id opcode rd q nx hsq] at hnpS htcS hrc2 ⊢
  generalize scanState cfg tr bufLen req id opcode rd q = SS at *
  have hnpSi := (handle_log_np z qn q.qtype tr ⟨withTsig SS mode rr, []⟩ hnpS).2
  have hok : ∀ pt, inner z qn q.qtype ⟨SS, []⟩ = (.ok (), pt) →
      handleNonAxfrQueryL z qn q.qtype tr ⟨SS, []⟩ = (.ok (), pt) ∧
      ∃ ps' t0, handleNonAxfrQueryL z qn q.qtype tr ⟨withTsig SS mode rr, []⟩ = (.ok (), ps') ∧
        ps'.log = pt.log ∧
        modS (SS.limit + reservedLen mode rr) (some ⟨mode, reservedLen mode rr, rr⟩) pt.w =
          lift (reservedLen mode rr) t0 ∧ Same ps'.w t0 := by
    intro pt h
    obtain ⟨hf1, hf2⟩ := hfit pt h
    obtain ⟨ps', t0, g1, g2, g3, g4⟩ := signed_run_eq_plain_run hSI z hz qn hqwf q.qtype hsub SS hiS hhS mode rr hR pt h hf1 hf2 hnpSi
    exact ⟨handle_of_inner_ok z qn q.qtype tr _ _ h, ps', t0, handle_of_inner_ok z qn q.qtype tr _ _ g1, g2, g3, g4⟩
  refine ⟨?_, hok⟩
  rcases hr : inner z qn q.qtype ⟨SS, []⟩ with ⟨(u | e | _), pt⟩
  · obtain ⟨k1, ps', t0, k2, k3, _⟩ := hok pt hr
    rw [k1, k2]
    simp only
    rw [k3]
  · have vP := view_handle_err z qn q.qtype tr SS e pt hr hnpP htcP
    have hS2 := hrc2 (by rw [vP])
    rcases hrS : inner z qn q.qtype ⟨withTsig SS mode rr, []⟩ with ⟨(u | e' | _), ptS⟩
    · have := view_inner_ok z qn q.qtype _ _ ptS hrS
      rw [handle_of_inner_ok z qn q.qtype tr _ _ hrS] at hS2
      simp only at hS2
      rw [hS2] at this
      rcases this.2 with h' | h' <;> cases h'
    · rw [vP, view_handle_err z qn q.qtype tr _ e' ptS hrS hnpS htcS]
    · rw [hrS] at hnpSi; exact absurd rfl hnpSi
  · have := (handle_log_np z qn q.qtype tr ⟨SS, []⟩ hnpP).2
    rw [hr] at this; exact absurd rfl this


end QV.ServerContent
