/-
  QV.Proofs.ServerSignedNoFit — the reply to a signed request whose response TSIG record does not
  fit (`set_tsig_or_truncate`, the repair of D03; RFC 8945 §5.3): the writer handed to `finish` is
  the scan state with RCODE 0 and TC set and no TSIG pending; it is `Good`, so every decoding of the
  response has TC set, RCODE 0, empty answer and authority sections, and an additional section that
  is the OPT record iff the scan reached one — no TSIG record.
-/
import QV.Proofs.ServerAnswerDecode

namespace QV.ServerContent
open QV QV.Writer QV.Server QV.ServerSafety QV.ServerScan QV.ServerAnswer QV.Spec.Resolve QV.Spec QV.ServerTsig

/-- what `set_tsig_or_truncate` does when the RR does not fit: `set_rcode(NOERROR)`, `set_tc(true)` -/
def truncSt (s : State) : State := stHdr Gen.TC_BYTE (bitF Gen.TC_MASK true) (stRcode 0 s)

theorem stRcode_size (rc : Nat) (s : State) : (stRcode rc s).octets.size = s.octets.size := by
  unfold stRcode stHdr; cases s.edns <;> simp

theorem setTsigOrTruncate_nofit_eq (mode : TsigMode) (rr : TsigRr) (s : State) (h3 : 3 < s.octets.size)
    (h : ¬ TsigFits s mode rr) : Server.setTsigOrTruncate mode rr s = (.ok false, truncSt s) := by
  obtain ⟨e, he⟩ := setTsig_nofit mode rr s h
  unfold Server.setTsigOrTruncate
  rw [he]
  simp only
  rw [rc_noerror, bind_ok (setRcode_eq 0 s h3)]
  have : Writer.setTc true (stRcode 0 s) = (.ok (), truncSt s) :=
    setBit_eq Gen.TC_BYTE Gen.TC_MASK true _ (by rw [stRcode_size]; show 2 < _; omega)
  rw [bind_ok this]
  rfl

/-- `set_rcode(rc); set_tsig_or_truncate(mode, rr)` when the RR does not fit -/
theorem tsigStep_nofit (rc : Nat) (mode : TsigMode) (rr : TsigRr) (b : Bool) (r' : Reader.Reader) (s : State)
    (h3 : 3 < s.octets.size) (hf : ¬ TsigFits s mode rr) :
    (do setRcode rc
        let added ← Server.setTsigOrTruncate mode rr
        if added && b then pure (some r') else pure none : M (Option Reader.Reader)) s =
      (.ok none, truncSt (stRcode rc s)) := by
  rw [bind_ok (setRcode_eq rc s h3)]
  rw [bind_ok (setTsigOrTruncate_nofit_eq mode rr _ (by rw [stRcode_size]; exact h3)
    (fun h => hf ((stRcode_fits rc s mode rr).mp h)))]
  rfl

theorem tsigBadKey_nofit (s : State) (h3 : 3 < s.octets.size) (r : Tsig.ReadTsigRr) (nowT : Tsig.TimeSigned)
    (kn an : WName) (hkn : WName.parse r.keyName = some (kn, [])) (han : WName.parse r.algorithm = some (an, []))
    (hf : ¬ TsigFits s (.unsigned an) (prepOf kn r nowT 17)) :
    Server.tsigBadKey r nowT s = (.ok none, truncSt (stRcode 9 s)) := by
  unfold Server.tsigBadKey
  rw [rc_notauth, xrc_badkey, bind_ok (setRcode_eq 9 s h3)]
  simp only [han, preparedFromRead_eq kn r nowT _ hkn]
  rw [bind_ok (setTsigOrTruncate_nofit_eq _ _ _ (by rw [stRcode_size]; exact h3)
    (fun h => hf ((stRcode_fits 9 s _ _).mp h)))]
  rfl

/-- the writer after the TSIG step on a request that is not authenticated, when the reply's TSIG
    does not fit -/
theorem tsigProcess_nofit_stop (hm : Tsig.Algorithm → Tsig.Octets → Tsig.Octets → Tsig.Octets) (keys : List Server.Key)
    (s : State) (h3 : 3 < s.octets.size) (r : Tsig.ReadTsigRr) (msg : List UInt8) (nowT : Tsig.TimeSigned)
    (r' : Reader.Reader) (kn an : WName) (hkn : WName.parse r.keyName = some (kn, []))
    (han : WName.parse r.algorithm = some (an, [])) (rc : Nat) (mode : TsigMode) (rr : TsigRr)
    (hrep : tsigStopReply hm keys nowT r msg kn an = some (rc, mode, rr)) (hf : ¬ TsigFits s mode rr) :
    Server.tsigProcess hm keys nowT r msg r' s = (.ok none, truncSt (stRcode rc s)) := by
  unfold tsigStopReply at hrep
  unfold Server.tsigProcess
  cases ha : Tsig.Algorithm.fromName r.algorithm with
  | none =>
    rw [ha] at hrep
    simp only [Option.some.injEq, Prod.mk.injEq] at hrep
    obtain ⟨rfl, rfl, rfl⟩ := hrep
    exact tsigBadKey_nofit s h3 r nowT kn an hkn han hf
  | some alg =>
    rw [ha] at hrep
    simp only at hrep ⊢
    cases hk : Server.findKey keys r.keyName alg with
    | none =>
      rw [hk] at hrep
      simp only [Option.some.injEq, Prod.mk.injEq] at hrep
      obtain ⟨rfl, rfl, rfl⟩ := hrep
      exact tsigBadKey_nofit s h3 r nowT kn an hkn han hf
    | some key =>
      rw [hk] at hrep
      simp only at hrep ⊢
      unfold Server.tsigVerifyAndWrite
      rcases hv : Tsig.verifyRequest hm r msg alg key.secret nowT with u | e | _
      · rw [hv] at hrep; cases hrep
      · rw [hv] at hrep
        cases e with
        | BadSig =>
          simp only [Option.some.injEq, Prod.mk.injEq] at hrep
          obtain ⟨rfl, rfl, rfl⟩ := hrep
          simp only [Server.tsigReply, preparedFromRead_eq kn r nowT _ hkn, rc_noerror, rc_notauth, xrc_badsig]
          exact tsigStep_nofit 9 _ _ _ r' s h3 hf
        | BadTime =>
          simp only [Option.some.injEq, Prod.mk.injEq] at hrep
          obtain ⟨rfl, rfl, rfl⟩ := hrep
          simp only [Server.tsigReply, preparedFromRead_eq kn r nowT _ hkn, rc_noerror, rc_notauth, xrc_badtime]
          exact tsigStep_nofit 9 _ _ _ r' s h3 hf
        | FormErr =>
          simp only [Option.some.injEq, Prod.mk.injEq] at hrep
          obtain ⟨rfl, rfl, rfl⟩ := hrep
          simp only [Server.tsigReply, preparedFromRead_eq kn r nowT _ hkn, rc_noerror, rc_formerr, xrc_badsig]
          exact tsigStep_nofit 1 _ _ _ r' s h3 hf
      · rw [hv] at hrep; cases hrep

/-- … and on a request that *is* authenticated, when the response TSIG does not fit -/
theorem tsigProcess_nofit_ok (hm : Tsig.Algorithm → Tsig.Octets → Tsig.Octets → Tsig.Octets) (keys : List Server.Key)
    (s : State) (h3 : 3 < s.octets.size) (r : Tsig.ReadTsigRr) (msg : List UInt8) (nowT : Tsig.TimeSigned)
    (r' : Reader.Reader) (kn : WName) (hkn : WName.parse r.keyName = some (kn, []))
    (alg : Hmac.Alg) (key : Server.Key) (ha : Tsig.Algorithm.fromName r.algorithm = some alg)
    (hk : Server.findKey keys r.keyName alg = some key)
    (hv : Tsig.verifyRequest hm r msg alg key.secret nowT = .ok ())
    (hf : ¬ TsigFits s (.response (Server.toWriterAlg alg) r.mac key.secret) (prepOf kn r nowT 0)) :
    Server.tsigProcess hm keys nowT r msg r' s = (.ok none, truncSt (stRcode 0 s)) := by
  unfold Server.tsigProcess
  simp only [ha, hk]
  unfold Server.tsigVerifyAndWrite
  rw [hv]
  simp only [Server.tsigReply, preparedFromRead_eq kn r nowT _ hkn, rc_noerror, xrc_noerror]
  exact tsigStep_nofit 0 _ _ _ r' s h3 hf

/-! ### the final writer -/

theorem good_truncSt (s : State) (b : Body) (h : Good s b) (h3 : 3 < s.octets.size) : Good (truncSt s) b := by
  have g1 := good_stRcode 0 s b h h3
  exact good_liftW (.setTc true) (Writer.setTc true) _ _ b g1 (fun _ => rfl)
    (setBit_eq Gen.TC_BYTE Gen.TC_MASK true _ (by rw [stRcode_size]; show 2 < _; omega)) trivial
    (by show (stRcode 0 s).limit ≤ _; rw [stRcode_limit]; exact h.2.1)

theorem truncSt_fields (s : State) : (truncSt s).tsig = s.tsig ∧
    (truncSt s).edns.map (·.payload) = s.edns.map (·.payload) ∧ (truncSt s).octets.size = s.octets.size := by
  unfold truncSt stRcode stHdr
  cases s.edns <;> simp

theorem stRcode_fields (rc : Nat) (s : State) : (stRcode rc s).tsig = s.tsig ∧
    (stRcode rc s).edns.map (·.payload) = s.edns.map (·.payload) := by
  unfold stRcode stHdr
  cases s.edns <;> simp

/-- after the truncating reply the header shows RCODE 0, AA clear, TC set -/
theorem hdrView_truncSt (rc : Nat) (s : State) (h3 : 3 < s.octets.size) (h : HdrView s {}) :
    HdrView (truncSt (stRcode rc s)) { tc := true } := by
  have h1 := ((hdrStep_setRcode rc) s {} h).1
  rw [setRcode_eq rc s h3] at h1
  have h1' := h1 rfl
  have h2 := ((hdrStep_setRcode 0) _ _ h1').1
  rw [setRcode_eq 0 _ (by rw [stRcode_size]; exact h3)] at h2
  have h2' := h2 rfl
  have h4 := ((hdrStep_setTc true) _ _ h2').1
  have e : Writer.setTc true (stRcode 0 (stRcode rc s)) = (.ok (), truncSt (stRcode rc s)) :=
    setBit_eq Gen.TC_BYTE Gen.TC_MASK true _ (by rw [stRcode_size, stRcode_size]; show 2 < _; omega)
  rw [e] at h4
  exact h4 rfl

/-- the reply's TSIG record does not fit: the request is rejected by the decision table and the
    prescribed reply does not fit, or it is authenticated and the response TSIG does not fit -/
def NoFit (cfg : Cfg) (nowT : Tsig.TimeSigned) (t : Tsig.ReadTsigRr) (mw : Bytes) (kn : WName) (S0 : State) : Prop :=
  (∃ an rc mode rr, WName.parse t.algorithm = some (an, []) ∧
    tsigStopReply Tsig.realHmac cfg.keys nowT t mw.toList kn an = some (rc, mode, rr) ∧ ¬ TsigFits S0 mode rr) ∨
  (∃ alg key, Tsig.Algorithm.fromName t.algorithm = some alg ∧ Server.findKey cfg.keys t.keyName alg = some key ∧
    Tsig.verifyRequest Tsig.realHmac t mw.toList alg key.secret nowT = .ok () ∧
    ¬ TsigFits S0 (.response (Server.toWriterAlg alg) t.mac key.secret) (prepOf kn t nowT 0))

/-- **signed requests whose reply TSIG does not fit**: the writer handed to `finish` is `Good` with
    the question as its body, has no TSIG pending, its EDNS slot as the scan left it, and a header
    with RCODE 0, AA clear and TC set -/
theorem signed_nofit_final (cfg : Cfg) (tr : Transport) (now bufLen : Nat) (req : Bytes)
    (hbuf : minBuf tr cfg.payload ≤ bufLen) (hpay : 512 ≤ cfg.payload) (hp16 : cfg.payload ≤ 65535)
    (hreq : req.size ≤ Rdata.USIZE_MAX)
    (hr : (Spec.Server.specScanWith (catKind cfg) cfg.payload req).respond = true)
    (hv : (Spec.Server.specScanWith (catKind cfg) cfg.payload req).verdict = .tsigReached) :
    ∃ (t : Tsig.ReadTsigRr) (mw : Bytes) (r' : Reader.Reader), r'.octets = req ∧ r'.cursor ≤ req.size ∧
      ∀ nowT kn, Tsig.TimeSigned.tryFromUnix now = some nowT → WName.parse t.keyName = some (kn, []) →
        NoFit cfg nowT t mw kn (preTsigState cfg tr bufLen req) →
        ∀ b, Server.handleMessage cfg tr now bufLen req = .ok (some b) →
          ∃ F mac, Writer.finish F Server.macFn = .ok (b, mac) ∧
            Good F (qBody (Spec.Server.specScanWith (catKind cfg) cfg.payload req).question) ∧
            F.tsig = none ∧
            F.edns.map (·.payload) =
              (if (Spec.Server.specScanWith (catKind cfg) cfg.payload req).edns then some cfg.payload else none) ∧
            HdrView F { tc := true } := by
  obtain ⟨t, mw, r', question, h1, h2, _, h4⟩ := handleMessage_tsig_eq cfg tr now bufLen req hbuf hpay hreq hr hv
  refine ⟨t, mw, r', h1, h2, fun nowT kn hnow hkn hnf b hb => ?_⟩
  obtain ⟨_, _, hsce⟩ := specScanWith_respond _ _ _ hr
  unfold preTsigState at hnf h4
  rw [hsce] at hnf h4 ⊢
  generalize hsc : specBody (catKind cfg) cfg.payload req = sc at *
  obtain ⟨_, p2, p3⟩ := specBody_props (catKind cfg) cfg.payload req
  rw [hsc] at p2 p3
  have hq : ∀ x, sc.question = some x → ∃ nx, Spec.specQuestionAt req 12 = some (x.qname, x.qtype, x.qclass, nx) :=
    fun x hx => specBody_question (catKind cfg) cfg.payload req x (by rw [hsc]; exact hx)
  obtain ⟨hbase, _, _, _, _, _, hs3, _⟩ :=
    s1_facts bufLen tr cfg.payload (Spec.Server.hdr req 0) (((req.getD 2 0).toNat &&& 120) >>> 3)
      (((req.getD 2 0).toNat &&& 1) != 0) hbuf hpay req sc.question hq
  have g1 := good_s1 bufLen tr cfg.payload (Spec.Server.hdr req 0) (((req.getD 2 0).toNat &&& 120) >>> 3)
      (((req.getD 2 0).toNat &&& 1) != 0) hbuf hpay req sc.question hq
  have hv0 := hdrView_scan_state bufLen tr cfg.payload (Spec.Server.hdr req 0) (((req.getD 2 0).toNat &&& 120) >>> 3)
      (((req.getD 2 0).toNat &&& 1) != 0) hbuf hpay req sc.question hq sc.edns sc.limitUdp
  generalize qSt (hdrSt (w0 bufLen (lim0 tr)) (Spec.Server.hdr req 0) (((req.getD 2 0).toNat &&& 120) >>> 3)
      (((req.getD 2 0).toNat &&& 1) != 0)) sc.question = s1 at *
  have h3s : 3 < (arSt s1 tr cfg.payload sc.edns sc.limitUdp).octets.size := by rw [arSt_size]; exact hs3
  have gA := good_arSt s1 tr cfg.payload sc.edns sc.limitUdp _ g1 hbase p2 p3 hp16
  obtain ⟨_, _, f3, _, _, _, _, f8⟩ := arSt_fields s1 tr cfg.payload sc.edns sc.limitUdp
  -- the state the TSIG step leaves
  have hT : ∃ rc, Server.tsigAfter cfg now t mw r' (arSt s1 tr cfg.payload sc.edns sc.limitUdp) =
      (.ok none, truncSt (stRcode rc (arSt s1 tr cfg.payload sc.edns sc.limitUdp))) := by
    unfold Server.tsigAfter
    rw [hnow]
    rcases hnf with ⟨an, rc, mode, rr, han, hrep, hf⟩ | ⟨alg, key, ha, hk, hver, hf⟩
    · exact ⟨rc, tsigProcess_nofit_stop Tsig.realHmac cfg.keys _ h3s t mw.toList nowT r' kn an hkn han rc mode rr hrep hf⟩
    · exact ⟨0, tsigProcess_nofit_ok Tsig.realHmac cfg.keys _ h3s t mw.toList nowT r' kn hkn alg key ha hk hver hf⟩
  obtain ⟨rc, hT⟩ := hT
  rw [hT, hb] at h4
  simp only [afterTsig] at h4
  have gB := good_stRcode rc _ _ gA h3s
  have gC := good_truncSt _ _ gB (by rw [stRcode_size]; exact h3s)
  obtain ⟨t1, t2, _⟩ := truncSt_fields (stRcode rc (arSt s1 tr cfg.payload sc.edns sc.limitUdp))
  obtain ⟨u1, u2⟩ := stRcode_fields rc (arSt s1 tr cfg.payload sc.edns sc.limitUdp)
  rcases hfin : Writer.finish (truncSt (stRcode rc (arSt s1 tr cfg.payload sc.edns sc.limitUdp))) Server.macFn
    with ⟨bytes, mac⟩ | e | _
  · rw [hfin] at h4
    simp only [Out.ok.injEq, Option.some.injEq] at h4
    subst h4
    refine ⟨_, mac, hfin, gC, by rw [t1, u1, f3]; exact hbase.tsig, ?_, hdrView_truncSt rc _ h3s hv0⟩
    rw [t2, u2, f8, hbase.edns]
    cases sc.edns <;> rfl
  · rw [hfin] at h4; cases h4
  · rw [hfin] at h4; cases h4

/-- **the truncating reply, decoded**: TC set, RCODE 0, AA clear, no answer or authority data, and
    an additional section that is exactly the OPT record iff the scan reached one — in particular no
    TSIG record -/
theorem decoded_nofit (F : State) (qb : Body) (hq : qb.an = [] ∧ qb.ns = [] ∧ qb.ar = []) (hG : Good F qb)
    (hts : F.tsig = none) (hh : HdrView F { tc := true }) (b : Bytes) (mac : Option (List UInt8))
    (hf : Writer.finish F Server.macFn = .ok (b, mac)) (d : DMsg) (hd : specDecodeMsg b = some d) :
    d.tc = true ∧ d.rcode = 0 ∧ d.aa = false ∧ d.an = [] ∧ d.ns = [] ∧
    d.ar.length = (if F.edns.isSome then 1 else 0) ∧ ∀ o ∈ d.ar, o.ty = 41 := by
  have hbv : BodyView qb { tc := true } := ⟨by rw [hq.1]; rfl, by rw [hq.2.1]; rfl, by rw [hq.2.2]; rfl⟩
  obtain ⟨r1, r2, r3, r4, r5, ar', opt, r6, r7, r8, r9⟩ := decoded_of_good_view F qb _ hG hbv hts hh b mac hf d hd
  have e1 : d.an = [] := List.length_eq_zero_iff.mp r4.length.symm
  have e2 : d.ns = [] := List.length_eq_zero_iff.mp r5.length.symm
  have e3 : ar' = [] := List.length_eq_zero_iff.mp r7.length.symm
  subst e3
  rw [List.nil_append] at r6
  exact ⟨r3, r1, r2, e1, e2, by rw [r6]; exact r8, by rw [r6]; exact r9⟩

/-! ### every outcome of the TSIG step keeps `Good` and the EDNS payload -/

theorem withTsig_edns (s : State) (mode : TsigMode) (rr : TsigRr) : (withTsig s mode rr).edns = s.edns := rfl

/-- `set_rcode(rc); set_tsig_or_truncate(mode, rr)`, fitting or not -/
theorem tsigStep_good (rc : Nat) (mode : TsigMode) (rr : TsigRr) (s : State) (bd : Body) (hG : Good s bd)
    (h3 : 3 < s.octets.size) (hk : rr.keyName.WF) (ha : (tsigAlgName mode).WF) (l1 : rr.timeSigned.length = 6)
    (l2 : rr.serverTime.length = 6) :
    (TsigFits s mode rr → Good (withTsig (stRcode rc s) mode rr) bd ∧
      (withTsig (stRcode rc s) mode rr).edns.map (·.payload) = s.edns.map (·.payload)) ∧
    (Good (truncSt (stRcode rc s)) bd ∧ (truncSt (stRcode rc s)).edns.map (·.payload) = s.edns.map (·.payload)) := by
  have gB := good_stRcode rc s bd hG h3
  obtain ⟨_, u2⟩ := stRcode_fields rc s
  refine ⟨fun hf => ⟨good_withTsig mode rr _ _ gB ((stRcode_fits rc s mode rr).mpr hf) hk ha l1 l2, ?_⟩,
    good_truncSt _ _ gB (by rw [stRcode_size]; exact h3), ?_⟩
  · rw [withTsig_edns, u2]
  · rw [(truncSt_fields _).2.1, u2]

theorem tsigBadKey_good (s : State) (bd : Body) (hG : Good s bd) (h3 : 3 < s.octets.size) (r : Tsig.ReadTsigRr)
    (nowT : Tsig.TimeSigned) (o : Option Reader.Reader) (S : State) (h : Server.tsigBadKey r nowT s = (.ok o, S)) :
    Good S bd ∧ S.edns.map (·.payload) = s.edns.map (·.payload) := by
  rcases hP : WName.parse r.algorithm with _ | ⟨an, rest⟩
  · exfalso
    unfold Server.tsigBadKey at h
    obtain ⟨_, s1, _, h⟩ := bind_ok_inv h
    rw [hP] at h; cases h
  · cases rest with
    | cons x y =>
      exfalso
      unfold Server.tsigBadKey at h
      obtain ⟨_, s1, _, h⟩ := bind_ok_inv h
      rw [hP] at h
      rcases Server.preparedFromRead r nowT (Server.XRC "BADKEY") with _ | prep <;> cases h
    | nil =>
      by_cases hk : ∃ kn, WName.parse r.keyName = some (kn, [])
      · obtain ⟨kn, hkn⟩ := hk
        obtain ⟨l1, l2⟩ := prepOf_lengths kn r nowT 17
        obtain ⟨g1, g2⟩ := tsigStep_good 9 (.unsigned an) (prepOf kn r nowT 17) s bd hG h3 (parse_wf hkn)
          (parse_wf hP) l1 l2
        by_cases hf : TsigFits s (.unsigned an) (prepOf kn r nowT 17)
        · rw [tsigBadKey_fits s h3 r nowT kn an hkn hP hf] at h
          cases h; exact g1 hf
        · rw [tsigBadKey_nofit s h3 r nowT kn an hkn hP hf] at h
          cases h; exact g2
      · exfalso
        have hn : ∀ kn, WName.parse r.keyName ≠ some (kn, []) := fun kn hkn => hk ⟨kn, hkn⟩
        unfold Server.tsigBadKey at h
        obtain ⟨_, s1, _, h⟩ := bind_ok_inv h
        rw [hP, preparedFromRead_none r nowT _ hn] at h
        cases h

theorem tsigVerifyAndWrite_good (hm : Tsig.Algorithm → Tsig.Octets → Tsig.Octets → Tsig.Octets)
    (s : State) (bd : Body) (hG : Good s bd) (h3 : 3 < s.octets.size) (r : Tsig.ReadTsigRr) (msg : List UInt8)
    (alg : Hmac.Alg) (secret : List UInt8) (nowT : Tsig.TimeSigned) (r' : Reader.Reader)
    (o : Option Reader.Reader) (S : State)
    (h : Server.tsigVerifyAndWrite hm r msg alg secret nowT r' s = (.ok o, S)) :
    Good S bd ∧ S.edns.map (·.payload) = s.edns.map (·.payload) := by
  by_cases hk : ∃ kn, WName.parse r.keyName = some (kn, [])
  · obtain ⟨kn, hkn⟩ := hk
    have key : ∀ (rc e : Nat) (mode : TsigMode) (b : Bool), (tsigAlgName mode).WF →
        (do setRcode rc
            let added ← Server.setTsigOrTruncate mode (prepOf kn r nowT e)
            if added && b then pure (some r') else pure none : M (Option Reader.Reader)) s = (.ok o, S) →
        Good S bd ∧ S.edns.map (·.payload) = s.edns.map (·.payload) := by
      intro rc e mode b hwf hrun
      obtain ⟨l1, l2⟩ := prepOf_lengths kn r nowT e
      obtain ⟨g1, g2⟩ := tsigStep_good rc mode (prepOf kn r nowT e) s bd hG h3 (parse_wf hkn) hwf l1 l2
      by_cases hf : TsigFits s mode (prepOf kn r nowT e)
      · rw [tsigStep_fits rc mode _ b r' s h3 hf] at hrun
        cases hrun; exact g1 hf
      · rw [tsigStep_nofit rc mode _ b r' s h3 hf] at hrun
        cases hrun; exact g2
    unfold Server.tsigVerifyAndWrite at h
    rcases hv : Tsig.verifyRequest hm r msg alg secret nowT with u | e | _
    · rw [hv] at h
      simp only [Server.tsigReply, preparedFromRead_eq kn r nowT _ hkn] at h
      refine key _ _ _ _ ?_ h; exact algName_wf _
    · rw [hv] at h
      cases e with
      | BadSig =>
        simp only [Server.tsigReply, preparedFromRead_eq kn r nowT _ hkn] at h
        refine key _ _ _ _ ?_ h; exact algName_wf _
      | BadTime =>
        simp only [Server.tsigReply, preparedFromRead_eq kn r nowT _ hkn] at h
        refine key _ _ _ _ ?_ h; exact algName_wf _
      | FormErr =>
        simp only [Server.tsigReply, preparedFromRead_eq kn r nowT _ hkn] at h
        refine key _ _ _ _ ?_ h; exact algName_wf _
    · rw [hv] at h
      simp only [Server.tsigReply] at h
      cases h
  · exfalso
    have hn : ∀ kn, WName.parse r.keyName ≠ some (kn, []) := fun kn hkn => hk ⟨kn, hkn⟩
    unfold Server.tsigVerifyAndWrite at h
    split at h
    · rw [preparedFromRead_none r nowT _ hn] at h
      cases h
    · cases h

/-- **whatever the TSIG step decides** (unknown algorithm or key, bad MAC, bad time, authenticated;
    reply TSIG fitting or not): if it does not panic, the writer it leaves is `Good` with the body it
    found, and the EDNS payload size is the one it found -/
theorem tsigAfter_good (cfg : Cfg) (now : Nat) (t : Tsig.ReadTsigRr) (mw : Bytes) (r' : Reader.Reader)
    (s : State) (bd : Body) (hG : Good s bd) (h3 : 3 < s.octets.size) (o : Option Reader.Reader) (S : State)
    (h : Server.tsigAfter cfg now t mw r' s = (.ok o, S)) :
    Good S bd ∧ S.edns.map (·.payload) = s.edns.map (·.payload) := by
  unfold Server.tsigAfter at h
  split at h
  · cases h
  · unfold Server.tsigProcess at h
    cases hA : Tsig.Algorithm.fromName t.algorithm with
    | none => rw [hA] at h; exact tsigBadKey_good s bd hG h3 t _ o S h
    | some alg =>
      rw [hA] at h
      simp only at h
      cases hK : Server.findKey cfg.keys t.keyName alg with
      | none => rw [hK] at h; exact tsigBadKey_good s bd hG h3 t _ o S h
      | some key =>
        rw [hK] at h
        exact tsigVerifyAndWrite_good _ s bd hG h3 t _ alg key.secret _ r' o S h

/-! ### every response to a request whose scan reaches a TSIG record -/

theorem good_endState (v : Spec.Server.Verdict) (S : State) (bd : Body) (h : Good S bd) (h3 : 3 < S.octets.size) :
    Good (endState v S) bd ∧ (endState v S).edns.map (·.payload) = S.edns.map (·.payload) := by
  cases v <;> first
    | exact ⟨good_stRcode _ S bd h h3, (stRcode_fields _ S).2⟩
    | exact ⟨h, rfl⟩

/-- **every response to a signed request** (verdict `tsigReached`: rejected or authenticated, reply
    TSIG fitting or not, no-data verdict or answered by a loaded zone): the writer handed to `finish`
    is `Good`, its questions are the request's question, its own additional records are address
    records, and its EDNS slot is set — with the server's payload size — iff the scan reached an OPT -/
theorem signed_final_good (cfg : Cfg) (hcfg : CfgWF cfg) (tr : Transport) (now bufLen : Nat) (req : Bytes)
    (hbuf : minBuf tr cfg.payload ≤ bufLen) (hpay : 512 ≤ cfg.payload) (hp16 : cfg.payload ≤ 65535)
    (hreq : req.size ≤ Rdata.USIZE_MAX)
    (hr : (Spec.Server.specScanWith (catKind cfg) cfg.payload req).respond = true)
    (hv : (Spec.Server.specScanWith (catKind cfg) cfg.payload req).verdict = .tsigReached)
    (b : Bytes) (hb : Server.handleMessage cfg tr now bufLen req = .ok (some b)) :
    ∃ F mac bd, Writer.finish F Server.macFn = .ok (b, mac) ∧ Good F bd ∧
      bd.qs = (qBody (Spec.Server.specScanWith (catKind cfg) cfg.payload req).question).qs ∧
      (∀ r ∈ bd.ar, r.ty = 1 ∨ r.ty = 28) ∧
      F.edns.map (·.payload) =
        (if (Spec.Server.specScanWith (catKind cfg) cfg.payload req).edns then some cfg.payload else none) := by
  obtain ⟨t, mw, r', question, h1, h2, hqrel, h4⟩ := handleMessage_tsig_eq cfg tr now bufLen req hbuf hpay hreq hr hv
  rw [hb] at h4
  obtain ⟨_, _, hsce⟩ := specScanWith_respond _ _ _ hr
  unfold preTsigState at h4
  rw [hsce] at h4 hqrel ⊢
  obtain ⟨_, p2, p3⟩ := specBody_props (catKind cfg) cfg.payload req
  have hq : ∀ x, (specBody (catKind cfg) cfg.payload req).question = some x →
      ∃ nx, Spec.specQuestionAt req 12 = some (x.qname, x.qtype, x.qclass, nx) :=
    fun x hx => specBody_question (catKind cfg) cfg.payload req x hx
  obtain ⟨hbase, hcur, _, _, _, h30, hs3, _, _, _, _, _, hrrs, hsz⟩ :=
    s1_facts bufLen tr cfg.payload (Spec.Server.hdr req 0) (((req.getD 2 0).toNat &&& 120) >>> 3)
      (((req.getD 2 0).toNat &&& 1) != 0) hbuf hpay req (specBody (catKind cfg) cfg.payload req).question hq
  have g1 := good_s1 bufLen tr cfg.payload (Spec.Server.hdr req 0) (((req.getD 2 0).toNat &&& 120) >>> 3)
      (((req.getD 2 0).toNat &&& 1) != 0) hbuf hpay req (specBody (catKind cfg) cfg.payload req).question hq
  have gA := good_arSt _ tr cfg.payload (specBody (catKind cfg) cfg.payload req).edns
    (specBody (catKind cfg) cfg.payload req).limitUdp _ g1 hbase p2 p3 hp16
  obtain ⟨_, _, _, _, _, _, _, f8⟩ := arSt_fields (qSt (hdrSt (w0 bufLen (lim0 tr)) (Spec.Server.hdr req 0)
      (((req.getD 2 0).toNat &&& 120) >>> 3) (((req.getD 2 0).toNat &&& 1) != 0))
      (specBody (catKind cfg) cfg.payload req).question) tr cfg.payload
    (specBody (catKind cfg) cfg.payload req).edns (specBody (catKind cfg) cfg.payload req).limitUdp
  have hS0e : (arSt (qSt (hdrSt (w0 bufLen (lim0 tr)) (Spec.Server.hdr req 0)
      (((req.getD 2 0).toNat &&& 120) >>> 3) (((req.getD 2 0).toNat &&& 1) != 0))
      (specBody (catKind cfg) cfg.payload req).question) tr cfg.payload
      (specBody (catKind cfg) cfg.payload req).edns (specBody (catKind cfg) cfg.payload req).limitUdp).edns.map (·.payload) =
      (if (specBody (catKind cfg) cfg.payload req).edns then some cfg.payload else none) := by
    rw [f8, hbase.edns]; cases (specBody (catKind cfg) cfg.payload req).edns <;> rfl
  have h3s : 3 < (arSt (qSt (hdrSt (w0 bufLen (lim0 tr)) (Spec.Server.hdr req 0)
      (((req.getD 2 0).toNat &&& 120) >>> 3) (((req.getD 2 0).toNat &&& 1) != 0))
      (specBody (catKind cfg) cfg.payload req).question) tr cfg.payload
      (specBody (catKind cfg) cfg.payload req).edns (specBody (catKind cfg) cfg.payload req).limitUdp).octets.size := by
    rw [arSt_size]; exact hs3
  have hc12 : 12 ≤ (arSt (qSt (hdrSt (w0 bufLen (lim0 tr)) (Spec.Server.hdr req 0)
      (((req.getD 2 0).toNat &&& 120) >>> 3) (((req.getD 2 0).toNat &&& 1) != 0))
      (specBody (catKind cfg) cfg.payload req).question) tr cfg.payload
      (specBody (catKind cfg) cfg.payload req).edns (specBody (catKind cfg) cfg.payload req).limitUdp).cursor := gA.1.inv.hdr
  have hr12 := gA.1.inv.rr_lo
  have hsize := tsigAfter_size cfg now t mw r' _ hc12 hr12
  rcases hT : Server.tsigAfter cfg now t mw r' (arSt (qSt (hdrSt (w0 bufLen (lim0 tr)) (Spec.Server.hdr req 0)
      (((req.getD 2 0).toNat &&& 120) >>> 3) (((req.getD 2 0).toNat &&& 1) != 0))
      (specBody (catKind cfg) cfg.payload req).question) tr cfg.payload
      (specBody (catKind cfg) cfg.payload req).edns (specBody (catKind cfg) cfg.payload req).limitUdp)
    with ⟨(o | e | _), S⟩
  · obtain ⟨gS, heS⟩ := tsigAfter_good cfg now t mw r' _ _ gA h3s o S hT
    rw [hT] at h4 hsize
    simp only at hsize
    have h3S : 3 < S.octets.size := by rw [hsize]; exact h3s
    rw [hS0e] at heS
    cases o with
    | none =>
      simp only [afterTsig] at h4
      rcases hfin : Writer.finish S Server.macFn with ⟨bytes, mac⟩ | e | _
      · rw [hfin] at h4
        simp only [Out.ok.injEq, Option.some.injEq] at h4
        subst h4
        exact ⟨S, mac, _, hfin, gS, rfl, by rw [(qBody_norecs _).2.2]; simp, heS⟩
      · rw [hfin] at h4; cases h4
      · rw [hfin] at h4; cases h4
    | some r'' =>
      simp only [afterTsig] at h4
      by_cases hev : endVerdict (catKind cfg) req.size (specBody (catKind cfg) cfg.payload req).question r'.cursor
          ((req.getD 2 0).toNat / 8 % 16) = .answer
      · rw [if_pos hev] at h4
        -- answered by a loaded zone
        obtain ⟨q, hq0, _, _, _⟩ := endVerdict_answer _ _ _ _ _ hev
        obtain ⟨nx, hsq⟩ := specBody_question (catKind cfg) cfg.payload req q hq0
        obtain ⟨p, hp, hpw, _, _, hwl⟩ := specQuestionAt_some req 12 _ _ _ nx hsq
        obtain ⟨qn, hqn, hqw⟩ := wname_of_parse req 12 p hp
        rw [hpw] at hqn hqw
        rw [hq0] at hqrel
        cases question with
        | none => exact absurd hqrel (by simp [QRel])
        | some qq =>
          obtain ⟨qn', qt, qc⟩ := qq
          obtain ⟨hqn', hqt, hqc⟩ := hqrel
          have : qn = qn' := by rw [hqn] at hqn'; cases hqn'; rfl
          subst this
          rw [hq0] at hT gS hbase h30 hs3 hcur hrrs hsz
          unfold Server.tsigAfter at hT
          cases hnow : Tsig.TimeSigned.tryFromUnix now with
          | none => rw [hnow] at hT; cases hT
          | some nowT =>
            rw [hnow] at hT
            simp only at hT
            have h12s : 12 ≤ (arSt (qSt (hdrSt (w0 bufLen (lim0 tr)) (Spec.Server.hdr req 0)
                (((req.getD 2 0).toNat &&& 120) >>> 3) (((req.getD 2 0).toNat &&& 1) != 0)) (some q)) tr cfg.payload
                (specBody (catKind cfg) cfg.payload req).edns (specBody (catKind cfg) cfg.payload req).limitUdp).octets.size := by
              rw [arSt_size, hsz]; cases tr <;> simp only [minBuf] at hbuf <;> omega
            obtain ⟨alg, key, kn, _, _, hkn, _, _, hfit, hS⟩ :=
              tsigProcess_some_state Tsig.realHmac cfg.keys _ h12s t mw.toList nowT r' r'' S hT
            have hfit' := (stRcode_fits 0 _ _ _).mpr hfit
            have hqr := queryReady_signed_state bufLen tr cfg.payload (Spec.Server.hdr req 0)
              (((req.getD 2 0).toNat &&& 120) >>> 3) (((req.getD 2 0).toNat &&& 1) != 0) hbuf hpay hp16 q qn hqn hqw hwl
              (parse_wf hqn) _ _ p2 p3 alg t.mac key.secret t kn nowT hkn hfit'
            rw [← hS] at hqr
            obtain ⟨hX, _⟩ := sigSt_facts _ tr cfg.payload (specBody (catKind cfg) cfg.payload req).edns
              (specBody (catKind cfg) cfg.payload req).limitUdp 0 0 (by omega) (by omega)
              hbase h30 hs3 p2 p3 (.response (Server.toWriterAlg alg) t.mac key.secret) (ServerTsig.prepOf kn t nowT 0)
            rw [← hS] at hX
            have hSrr : S.rrStart = (qSt (hdrSt (w0 bufLen (lim0 tr)) (Spec.Server.hdr req 0)
                (((req.getD 2 0).toNat &&& 120) >>> 3) (((req.getD 2 0).toNat &&& 1) != 0)) (some q)).rrStart := by
              rw [hS]
              show (stRcode 0 (arSt _ tr cfg.payload _ _)).rrStart = _
              have : ∀ x : State, (stRcode 0 x).rrStart = x.rrStart := by
                intro x; unfold stRcode stHdr; cases x.edns <;> rfl
              rw [this]
              cases (specBody (catKind cfg) cfg.payload req).edns <;> cases tr <;> rfl
            have hfr := framed_bind (k := true) (Server.framed_handleQuery 12 (by omega) cfg (some (qn, qt, qc)) tr)
              (fun _ => framed_pure 12 true) S (by rw [hX.cur, hcur]; omega) (by rw [hSrr, hrrs]; omega)
            obtain ⟨_, k2⟩ := hfr.keep rfl
            obtain ⟨bd, hgd, hqs, hty⟩ := good_handleQuery cfg hcfg tr qn qt qc S _ gS (qBody_norecs _) (parse_wf hqn)
              hqr.hint h3S
            have hgd' : Good ((Server.handleQuery cfg (some (qn, qt, qc)) tr >>= fun _ => (pure true : M Bool)) S).2 bd := by
              rw [bind_apply]
              generalize Server.handleQuery cfg (some (qn, qt, qc)) tr S = res at hgd
              obtain ⟨o, s'⟩ := res
              cases o <;> exact hgd
            rcases hq : (Server.handleQuery cfg (some (qn, qt, qc)) tr >>= fun _ => (pure true : M Bool)) S with ⟨(bb | e | _), w1⟩
            · rw [hq] at h4 k2 hgd'
              simp only at k2 hgd'
              cases bb with
              | false => simp only at h4; cases h4
              | true =>
                simp only at h4
                rcases hfin : Writer.finish w1 Server.macFn with ⟨bytes, mac⟩ | e | _
                · rw [hfin] at h4
                  simp only [Out.ok.injEq, Option.some.injEq] at h4
                  subst h4
                  exact ⟨w1, mac, bd, hfin, hgd', by rw [hqs, hq0], hty, by rw [k2]; exact heS⟩
                · rw [hfin] at h4; cases h4
                · rw [hfin] at h4; cases h4
            · rw [hq] at h4; cases h4
            · rw [hq] at h4; cases h4
      · rw [if_neg hev] at h4
        obtain ⟨gE, heE⟩ := good_endState (endVerdict (catKind cfg) req.size (specBody (catKind cfg) cfg.payload req).question
          r'.cursor ((req.getD 2 0).toNat / 8 % 16)) S _ gS h3S
        simp only at h4
        rcases hfin : Writer.finish (endState (endVerdict (catKind cfg) req.size
            (specBody (catKind cfg) cfg.payload req).question r'.cursor ((req.getD 2 0).toNat / 8 % 16)) S) Server.macFn
          with ⟨bytes, mac⟩ | e | _
        · rw [hfin] at h4
          simp only [Out.ok.injEq, Option.some.injEq] at h4
          subst h4
          exact ⟨_, mac, _, hfin, gE, rfl, by rw [(qBody_norecs _).2.2]; simp, by rw [heE]; exact heS⟩
        · rw [hfin] at h4; cases h4
        · rw [hfin] at h4; cases h4
  · rw [hT] at h4; simp only [afterTsig] at h4; cases h4
  · rw [hT] at h4; simp only [afterTsig] at h4; cases h4

end QV.ServerContent
