/-
  QV.Proofs.Reader — lemmas relating `QV.Model.Reader` to `QV.Spec.Reader`.
-/
import QV.Model.Reader
import QV.Spec.Reader
import QV.Proofs.Wire
import QV.Properties.C14

namespace QV.Reader
open QV QV.Wire QV.Spec

/-- the contiguous part of a decoded name lies inside the message -/
theorem decodes_inside {msg : Bytes} {i cs : Nat} {w : List UInt8} {n k : Nat}
    (hd : Decodes msg i cs w n k) : i + k ≤ msg.size := by
  induction hd with
  | null h h0 => omega
  | label h h0 h63 hin rest ih => omega
  | ptr h hp hb rest ih => omega

theorem be16_eq (b : Bytes) (pos : Nat) (h : pos + 1 < b.size) :
    be16 b pos = (b[pos]'(by omega)).toNat * 256 + (b[pos+1]'h).toNat := by
  unfold be16
  simp [Array.getD, h, show pos < b.size by omega]

theorem be32_eq (b : Bytes) (pos : Nat) (h : pos + 3 < b.size) :
    be32 b pos = (b[pos]'(by omega)).toNat * 16777216 + (b[pos+1]'(by omega)).toNat * 65536 +
        (b[pos+2]'(by omega)).toNat * 256 + (b[pos+3]'h).toNat := by
  unfold be32
  simp [Array.getD, h, show pos < b.size by omega, show pos + 1 < b.size by omega,
    show pos + 2 < b.size by omega]

theorem readU16At_ok_iff (b : Bytes) (pos v : Nat) (hp : pos ≤ b.size) :
    readU16At b pos = .ok v ↔ Field16 b pos v := by
  unfold readU16At Field16
  have : ¬ pos > b.size := by omega
  simp only [this, if_false]
  by_cases h : pos + 2 ≤ b.size
  · simp only [h, if_true]
    constructor
    · intro e; cases e; exact ⟨by omega, be16_eq b pos (by omega)⟩
    · intro ⟨h1, e⟩; rw [e, be16_eq b pos h1]
  · simp only [h, if_false]
    constructor
    · intro e; cases e
    · intro ⟨h1, _⟩; omega

theorem readU32At_ok_iff (b : Bytes) (pos v : Nat) (hp : pos ≤ b.size) :
    readU32At b pos = .ok v ↔ Field32 b pos v := by
  unfold readU32At Field32
  have : ¬ pos > b.size := by omega
  simp only [this, if_false]
  by_cases h : pos + 4 ≤ b.size
  · simp only [h, if_true]
    constructor
    · intro e; cases e; exact ⟨by omega, be32_eq b pos (by omega)⟩
    · intro ⟨h1, e⟩; rw [e, be32_eq b pos h1]
  · simp only [h, if_false]
    constructor
    · intro e; cases e
    · intro ⟨h1, _⟩; omega

theorem readU16At_no_panic (b : Bytes) (pos : Nat) (hp : pos ≤ b.size) : readU16At b pos ≠ .panic := by
  unfold readU16At
  have : ¬ pos > b.size := by omega
  simp only [this, if_false]; split <;> simp

theorem readU32At_no_panic (b : Bytes) (pos : Nat) (hp : pos ≤ b.size) : readU32At b pos ≠ .panic := by
  unfold readU32At
  have : ¬ pos > b.size := by omega
  simp only [this, if_false]; split <;> simp

theorem readU16At_ok_bound (b : Bytes) (pos v : Nat) (h : readU16At b pos = .ok v) : pos + 2 ≤ b.size := by
  unfold readU16At at h
  split at h
  · cases h
  · split at h
    · assumption
    · cases h

theorem readU32At_ok_bound (b : Bytes) (pos v : Nat) (h : readU32At b pos = .ok v) : pos + 4 ≤ b.size := by
  unfold readU32At at h
  split at h
  · cases h
  · split at h
    · assumption
    · cases h

theorem readU16Get_no_panic (b : Bytes) (pos : Nat) : readU16Get b pos ≠ .panic := by
  unfold readU16Get; split <;> (try split) <;> simp

theorem readU16Get_ok_iff (b : Bytes) (pos v : Nat) :
    readU16Get b pos = .ok v ↔ Field16 b pos v := by
  unfold readU16Get Field16
  by_cases hp : pos > b.size
  · simp only [hp, if_true]
    constructor
    · intro e; cases e
    · intro ⟨h1, _⟩; omega
  · simp only [hp, if_false]
    by_cases h : pos + 2 ≤ b.size
    · simp only [h, if_true]
      constructor
      · intro e; cases e; exact ⟨by omega, be16_eq b pos (by omega)⟩
      · intro ⟨h1, e⟩; rw [e, be16_eq b pos h1]
    · simp only [h, if_false]
      constructor
      · intro e; cases e
      · intro ⟨h1, _⟩; omega

/-- a parsed name's first chunk lies inside the message -/
theorem parse_inside (msg : Bytes) (s : Nat) (p : Parsed) (h : parseCompressed msg s = .ok p) :
    s + p.len ≤ msg.size :=
  decodes_inside ((C14.C14_parse_ok_iff msg s p).mp h).1

/-- the reader invariant: a header is present and the cursor is inside the message -/
def Inv (r : Reader) : Prop := Gen.HEADER_SIZE ≤ r.octets.size ∧ r.cursor ≤ r.octets.size

theorem skipAtCursor_no_panic (r : Reader) (hi : Inv r) : skipAtCursor r ≠ .panic := by
  unfold skipAtCursor
  have : ¬ r.cursor > r.octets.size := by have := hi.2; omega
  simp only [this, if_false]
  unfold skipCompressed
  generalize r.octets.extract r.cursor r.octets.size = b
  generalize (0:Nat) = off
  fun_induction skipAux b off <;> simp_all

end QV.Reader
