/-
  QV.Proofs.ServerTsigSafe — the TSIG branch of the additional-section scan (part of L1 of C01).

  One theorem about the *result* of `QV.Server.handleTsig` (`handleTsig_safe`): called the way the
  scan calls it — on the `PeekRr` of a record whose type is TSIG, found in a message whose ARCOUNT
  is at least 1, with a representable time — it does not panic, keeps the writer invariant and, if
  it says "continue", hands back the reader positioned after the record. The proof goes through
  the steps of the Rust code (`ReadTsigRr::try_from`, algorithm lookup, key lookup,
  `verify_request`, `set_tsig_or_truncate`) and shows every `unwrap`/`expect`/`panic!` on the
  way unreachable.
-/
import QV.Proofs.ServerScan

namespace QV.ServerSafety
open QV QV.Writer QV.Server QV.Reader QV.Wire

variable (W : WriterSafe)

/-- the reader invariant the scan maintains: C15's `Inv`, the cursor past the header, a message
    smaller than the address space -/
def RInv (r : Reader) : Prop := Reader.Inv r ∧ 12 ≤ r.cursor ∧ r.octets.size < 2^64

theorem rdRead_ok (c t : Nat) (msg : Bytes) (cur len : Nat) (l : List UInt8)
    (h : rdRead c t msg cur len = .ok l) : ∃ b, Rdata.read c t msg cur len = .ok b ∧ l = b.toList := by
  unfold rdRead at h
  cases h2 : Rdata.read c t msg cur len with
  | panic => rw [h2] at h; cases h
  | err e => rw [h2] at h; cases h
  | ok b => rw [h2] at h; cases h; exact ⟨b, rfl, rfl⟩

theorem extract_getD (b : Bytes) (c i : Nat) (hi : i < c) (hc : c ≤ b.size) :
    (b.extract 0 c).toList.getD i 0 = b.getD i 0 := by
  have h1 : i < (b.extract 0 c).toList.length := by simp; omega
  have h2 : i < b.size := by omega
  simp [List.getD_eq_getElem?_getD, Array.getD, h2, List.getElem?_take, hi]

/-- the "BADKEY" tail shared by the algorithm and key lookups -/
theorem tsigBadKey_safe (tsigRr : Tsig.ReadTsigRr) (nowT : Tsig.TimeSigned) (an kn : WName)
    (ha : WName.parse tsigRr.algorithm = some (an, [])) (haw : an.WF)
    (hk : WName.parse tsigRr.keyName = some (kn, [])) (hkw : kn.WF) (s : State) (hi : W.I s)
    {Q : Option Reader → State → Prop} (hq : ∀ s', Q none s') :
    Safe W (tsigBadKey tsigRr nowT) s Q := by
  obtain ⟨prep, hp, hpk, hpt, hps⟩ := preparedFromRead_ok tsigRr nowT (XRC "BADKEY") kn hk
  unfold tsigBadKey
  rw [ha, hp]
  refine safe_bind_M W (safe_setRcode W _ s hi) (fun _ s1 hi1 _ _ => ?_)
  refine safe_bind_M W (safe_setTsigOrTruncate W (.unsigned an) prep s1 hi1 ⟨?_, haw, hpt, hps⟩)
    (fun _ s2 hi2 _ _ => safe_pure_M W none s2 hi2 (hq s2))
  rw [hpk]; exact hkw

/-- `verify_tsig_and_write_tsig_rr`: `verify_request` does not panic (the algorithm is the record's
    own, the message has a header whose ARCOUNT counts the TSIG record) and the response TSIG meets
    the contract of `set_tsig` -/
theorem tsigVerifyAndWrite_safe (tsigRr : Tsig.ReadTsigRr) (message : List UInt8) (alg : Hmac.Alg)
    (secret : List UInt8) (nowT : Tsig.TimeSigned) (r' : Reader) (kn : WName)
    (hk : WName.parse tsigRr.keyName = some (kn, [])) (hkw : kn.WF)
    (halgn : tsigRr.algorithm = Tsig.Algorithm.name alg) (hlen : 12 ≤ message.length)
    (harc : Tsig.rd16 message Gen.ARCOUNT_START ≠ 0) (s : State) (hI : W.I s) :
    Safe W (tsigVerifyAndWrite Tsig.realHmac tsigRr message alg secret nowT r') s
      (fun res _ => ∀ r'', res = some r'' → r'' = r') := by
  have hnp := verifyRequest_no_panic Tsig.realHmac tsigRr message alg secret nowT halgn hlen harc
  have hprep := fun e => preparedFromRead_ok tsigRr nowT e kn hk
  have tail : ∀ (rcode : Nat) (m : TsigMode) (prep : TsigRr), (tsigAlgName m).WF →
      prep.keyName = kn → prep.timeSigned.length = 6 → prep.serverTime.length = 6 →
      Safe W (do
        setRcode rcode
        let added ← setTsigOrTruncate m prep
        if added && rcode = RC "NOERROR" then pure (some r') else pure none : M (Option Reader)) s
        (fun res _ => ∀ r'', res = some r'' → r'' = r') := by
    intro rcode m prep hm hk1 hk2 hk3
    refine safe_bind_M W (safe_setRcode W _ s hI) (fun _ s1 hi1 _ _ => ?_)
    refine safe_bind_M W (safe_setTsigOrTruncate W m prep s1 hi1 ⟨by rw [hk1]; exact hkw, hm, hk2, hk3⟩)
      (fun added s2 hi2 _ _ => ?_)
    split
    · exact safe_pure_M W _ s2 hi2 (fun r'' hr' => by cases hr'; rfl)
    · exact safe_pure_M W _ s2 hi2 (fun r'' hr' => by cases hr')
  cases hres : Tsig.verifyRequest Tsig.realHmac tsigRr message alg secret nowT with
  | panic => exact absurd hres hnp
  | ok u =>
    obtain ⟨prep, hp, k1, k2, k3⟩ := hprep (XRC "NOERROR")
    refine safe_congr W ?_ (tail (RC "NOERROR")
      (.response (toWriterAlg alg) (Tsig.ReadTsigRr.mac tsigRr) secret) prep (algName_WF _) k1 k2 k3)
    simp only [tsigVerifyAndWrite, hres, tsigReply, hp]
  | err e =>
    cases e with
    | BadSig =>
      obtain ⟨prep, hp, k1, k2, k3⟩ := hprep (XRC "BADVERSBADSIG")
      refine safe_congr W ?_ (tail (RC "NOTAUTH") (.unsigned (algName (toWriterAlg alg))) prep (algName_WF _) k1 k2 k3)
      simp only [tsigVerifyAndWrite, hres, tsigReply, hp]
    | BadTime =>
      obtain ⟨prep, hp, k1, k2, k3⟩ := hprep (XRC "BADTIME")
      refine safe_congr W ?_ (tail (RC "NOTAUTH")
        (.response (toWriterAlg alg) (Tsig.ReadTsigRr.mac tsigRr) secret) prep (algName_WF _) k1 k2 k3)
      simp only [tsigVerifyAndWrite, hres, tsigReply, hp]
    | FormErr =>
      obtain ⟨prep, hp, k1, k2, k3⟩ := hprep (XRC "BADVERSBADSIG")
      refine safe_congr W ?_ (tail (RC "FORMERR") (.unsigned (algName (toWriterAlg alg))) prep (algName_WF _) k1 k2 k3)
      simp only [tsigVerifyAndWrite, hres, tsigReply, hp]

/-- the TSIG processing proper: algorithm lookup, key lookup, verification -/
theorem tsigProcess_safe (keys : List Key) (nowT : Tsig.TimeSigned) (tsigRr : Tsig.ReadTsigRr)
    (message : List UInt8) (r' : Reader) (w : List UInt8) (hlow : tsigRr.algorithm = Tsig.lowerName w)
    (an kn : WName) (ha : WName.parse tsigRr.algorithm = some (an, [])) (haw : an.WF)
    (hk : WName.parse tsigRr.keyName = some (kn, [])) (hkw : kn.WF) (hlen : 12 ≤ message.length)
    (harc : Tsig.rd16 message Gen.ARCOUNT_START ≠ 0) (s : State) (hI : W.I s) :
    Safe W (tsigProcess Tsig.realHmac keys nowT tsigRr message r') s
      (fun res _ => ∀ r'', res = some r'' → r'' = r') := by
  have bad := tsigBadKey_safe W tsigRr nowT an kn ha haw hk hkw s hI
    (Q := fun res _ => ∀ r'', res = some r'' → r'' = r') (fun _ r'' hr' => by cases hr')
  unfold tsigProcess
  cases hfn : Tsig.Algorithm.fromName tsigRr.algorithm with
  | none => exact bad
  | some alg =>
    simp only
    cases hfk : findKey keys tsigRr.keyName alg with
    | none => exact bad
    | some key =>
      have halgn : tsigRr.algorithm = Tsig.Algorithm.name alg := by
        rw [hlow] at hfn ⊢; exact fromName_lower _ _ hfn
      exact tsigVerifyAndWrite_safe W tsigRr message alg key.secret nowT r' kn hk hkw halgn hlen harc s hI

/-- **the TSIG branch never panics** -/
theorem handleTsig_safe (cfg : Cfg) (now : Nat) (hnow : now < 2^48) (r : Reader) (hi : RInv r)
    (p : PeekRr) (hpk : peekRr r = .ok p) (ht : p.rrType = .ok (T "TSIG")) (raw : Nat)
    (har : 1 ≤ be16 r.octets Gen.ARCOUNT_START) (s : State) (hI : W.I s) :
    Safe W (handleTsig cfg now p raw) s
      (fun res _ => ∀ r', res = some r' → r' = { r with cursor := p.rrEnd }) := by
  obtain ⟨hr0, a1, a2, a3, a4, a5, a6, a7⟩ := C15.C15_peek_accessors r p hpk
  have hty : be16 r.octets p.ownerEnd = T "TSIG" := by
    rw [a1] at ht; exact Out.ok.inj ht
  have hmsg : p.messageToRr = .ok (r.octets.extract 0 r.cursor) := by
    unfold PeekRr.messageToRr messageToCursor
    rw [hr0]; simp [hi.1.2]
  obtain ⟨hpp, hpo⟩ := peek_parse_safe rdataSafe r hi.2.2 p hpk
  have stop : ∀ (v : Nat) s', W.I s' → Safe W (do setRcode v; pure none : M (Option Reader)) s'
      (fun res _ => ∀ r', res = some r' → r' = { r with cursor := p.rrEnd }) :=
    fun v s' hi' => safe_rcode_none W v s' hi' (fun _ r' hr' => by cases hr')
  generalize hpr : p.parse rdRead = pr at hpp hpo
  obtain ⟨o, r''⟩ := pr
  cases o with
  | panic => exact absurd rfl hpp
  | err e =>
    refine safe_congr W (g := (do setRcode (RC "FORMERR"); pure none : M (Option Reader))) ?_ (stop _ s hI)
    unfold handleTsig; simp only [hmsg, hpr]
  | ok rr =>
    obtain ⟨hr', hrt, ⟨n, hn, hown⟩, hrdata, _⟩ := hpo rr r'' rfl
    by_cases hraw : raw ≠ 0
    · refine safe_congr W (g := (do setRcode (RC "FORMERR"); pure none : M (Option Reader))) ?_ (stop _ s hI)
      unfold handleTsig; simp only [hmsg, hpr]; rw [if_pos hraw]
    · rw [hrt, hty] at hrdata
      have e250 : T "TSIG" = 250 := by decide
      rw [e250] at hrdata
      obtain ⟨b, hb, hbl⟩ := rdRead_ok _ _ _ _ _ _ hrdata
      have hvalid := read_tsig_valid _ _ _ _ _ hb
      have hrty : rr.rrType = T "TSIG" := hrt.trans hty
      rcases tsig_tryFrom_cases rr.owner rr.cls rr.ttl b hvalid with hfe | ⟨pu, hpu, hok⟩
      · refine safe_congr W (g := (do setRcode (RC "FORMERR"); pure none : M (Option Reader))) ?_ (stop _ s hI)
        unfold handleTsig; simp only [hmsg, hpr]; rw [if_neg hraw]; simp only [hrty, hbl, hfe]
      · -- the record is a well-formed TSIG record
        obtain ⟨nowT, hnowT⟩ : ∃ t, Tsig.TimeSigned.tryFromUnix now = some t := by
          unfold Tsig.TimeSigned.tryFromUnix; simp [hnow]
        obtain ⟨hw1, hl1⟩ := parseUncompressed_isWire b pu hpu
        obtain ⟨an, haw, _, han⟩ := lower_wname hw1 hl1
        obtain ⟨hw2, hl2⟩ := parseCompressed_isWire _ _ n hn
        obtain ⟨kn, hkw, _, hkn⟩ := lower_wname hw2 hl2
        rw [← hown] at hkn
        generalize htr : (⟨Tsig.lowerName rr.owner, Tsig.lowerName pu.wire,
          (Tsig.rd16 b.toList (pu.len + 8)).toNat, b.toList⟩ : Tsig.ReadTsigRr) = tsigRr at hok
        have halg : tsigRr.algorithm = Tsig.lowerName pu.wire := by rw [← htr]
        have hkey : tsigRr.keyName = Tsig.lowerName rr.owner := by rw [← htr]
        have han' : WName.parse tsigRr.algorithm = some (an, []) := by rw [halg]; exact han
        have hkn' : WName.parse tsigRr.keyName = some (kn, []) := by rw [hkey]; exact hkn
        have hlen : 12 ≤ (r.octets.extract 0 r.cursor).toList.length := by
          have := hi.1.2; have := hi.2.1; simp; omega
        have harc : Tsig.rd16 (r.octets.extract 0 r.cursor).toList Gen.ARCOUNT_START ≠ 0 := by
          have c10 : Gen.ARCOUNT_START = 10 := by decide
          rw [c10] at har ⊢
          unfold Tsig.rd16
          rw [extract_getD _ _ _ (by have := hi.2.1; omega) hi.1.2,
            extract_getD _ _ _ (by have := hi.2.1; omega) hi.1.2]
          have hlt := be16_lt r.octets 10
          show UInt16.ofNat (be16 r.octets 10) ≠ 0
          generalize be16 r.octets 10 = v at har hlt
          intro hc
          have := congrArg UInt16.toNat hc
          simp at this
          omega
        have hproc := tsigProcess_safe W cfg.keys nowT tsigRr (r.octets.extract 0 r.cursor).toList r''
          pu.wire halg an kn han' haw hkn' hkw hlen harc s hI
        refine safe_congr W ?_ (hproc.weaken W (fun res _ _ _ hq r3 h3 => by rw [hq r3 h3, hr']))
        unfold handleTsig
        simp only [hmsg, hpr]; rw [if_neg hraw]; simp only [hrty, hbl, hok, hnowT]

end QV.ServerSafety
