/-
  QV.Proofs.NameDecode — a stored name read with the chunk discipline (`NameAtC`) is a name of the
  RFC 1035 §4.1.4 relation `QV.Spec.Decodes`; hence the independent executable decoder
  `QV.Spec.specDecodeName` succeeds there and returns exactly the stored labels.
-/
import QV.Proofs.CompressC
import QV.Proofs.NameWireExec
import QV.Proofs.Wire
import QV.Proofs.WriterNames

namespace QV.Writer
open QV QV.Wire QV.Spec

theorem decodes_null' {msg : Bytes} {p cs : Nat} (hb : msg[p]? = some 0) : Decodes msg p cs [0] 1 1 := by
  have hlt := getElem?_some_lt hb
  exact .null hlt (getElem_of_getElem? hb hlt)

theorem decodes_label' {msg : Bytes} {p cs : Nat} {w : List UInt8} {n k : Nat} (b : UInt8)
    (hb : msg[p]? = some b) (h0 : b ≠ 0) (h63 : b.toNat ≤ 63) (hin : p + b.toNat + 1 ≤ msg.size)
    (rest : Decodes msg (p + b.toNat + 1) cs w n k) :
    Decodes msg p cs ((msg.extract p (p + b.toNat + 1)).toList ++ w) (n + 1) (b.toNat + 1 + k) := by
  have hlt := getElem?_some_lt hb
  have e : msg[p] = b := getElem_of_getElem? hb hlt
  have := Decodes.label (msg := msg) (pos := p) (cs := cs) (w := w) (n := n) (k := k) hlt
    (by rw [e]; exact h0) (by rw [e]; exact h63) (by rw [e]; exact hin) (by rw [e]; exact rest)
  rw [e] at this
  exact this

theorem decodes_ptr' {msg : Bytes} {q cs : Nat} {w : List UInt8} {n k : Nat} (b1 b2 : UInt8)
    (h1 : msg[q]? = some b1) (h2 : msg[q+1]? = some b2) (hp : isPtr b1 = true) (hlt : ptrOf b1 b2 < cs)
    (rest : Decodes msg (ptrOf b1 b2) (ptrOf b1 b2) w n k) : Decodes msg q cs w n 2 := by
  have hs1 := getElem?_some_lt h1
  have hs2 := getElem?_some_lt h2
  have e1 : msg[q] = b1 := getElem_of_getElem? h1 hs1
  have e2 : msg[q+1] = b2 := getElem_of_getElem? h2 hs2
  have hsp : specIsPtr b1 := (isPtr_iff b1).mp hp
  have hpe : ptrOf b1 b2 = specPtr b1 b2 := ptrOf_eq b1 b2 hsp
  refine Decodes.ptr (msg := msg) (pos := q) (cs := cs) (k := k) hs2 (by rw [e1]; exact hsp) ?_ ?_
  · rw [e1, e2, ← hpe]; exact hlt
  · rw [e1, e2, ← hpe]; exact rest

/-- the RFC relation only looks at the message: a message that agrees with `msg` on all of `msg`
    decodes the same names -/
theorem decodes_prefix {msg msg' : Bytes} (hm : ∀ i, i < msg.size → msg'[i]? = msg[i]?)
    {p cs n k : Nat} {w : List UInt8} (h : Decodes msg p cs w n k) : Decodes msg' p cs w n k := by
  have hsz : msg.size ≤ msg'.size := by
    by_cases h0 : msg.size = 0
    · omega
    · have h1 := hm (msg.size - 1) (by omega)
      rw [Array.getElem?_eq_getElem (show msg.size - 1 < msg.size by omega)] at h1
      have h2 := getElem?_some_lt h1
      omega
  have hget : ∀ i (hi : i < msg.size), msg'[i]'(by omega) = msg[i] := by
    intro i hi
    have := hm i hi
    rw [Array.getElem?_eq_getElem hi, Array.getElem?_eq_getElem (by omega)] at this
    exact Option.some.inj this
  induction h with
  | null h h0 => exact .null (by omega) (by rw [hget _ h]; exact h0)
  | @label pos cs w n k h h0 h63 hin rest ih =>
    have e := hget pos h
    have hex : (msg'.extract pos (pos + msg[pos].toNat + 1)).toList =
        (msg.extract pos (pos + msg[pos].toNat + 1)).toList := by
      congr 1
      apply Array.ext_getElem?
      intro j
      simp only [Array.getElem?_extract]
      by_cases hj : j < min (pos + msg[pos].toNat + 1) msg.size - pos
      · rw [if_pos hj, if_pos (by omega)]; exact hm _ (by omega)
      · rw [if_neg hj, if_neg (by omega)]
    have := Decodes.label (msg := msg') (pos := pos) (cs := cs) (w := w) (n := n) (k := k) (by omega)
      (by rw [e]; exact h0) (by rw [e]; exact h63) (by rw [e]; omega) (by rw [e]; exact ih)
    rw [e, hex] at this
    exact this
  | @ptr pos cs w n k h hp hb rest ih =>
    have e1 := hget pos (by omega)
    have e2 := hget (pos + 1) h
    refine Decodes.ptr (msg := msg') (pos := pos) (cs := cs) (k := k) (by omega) (by rw [e1]; exact hp) ?_ ?_
    · rw [e1, e2]; exact hb
    · rw [e1, e2]; exact ih

/-- wire form of a list of labels -/
def wireOf (ls : List Label) : List UInt8 := ls.flatMap WName.encLabel ++ [0]

theorem wireOf_cons (l : Label) (ls : List Label) : wireOf (l :: ls) = WName.encLabel l ++ wireOf ls := by
  simp [wireOf]

/-- **a chunk-disciplined stored name is a name of the RFC relation**, on every message that agrees
    with the buffer below the cursor -/
theorem nameAtC_decodes {G : Nat → Prop} {oct msg : Bytes} {cur cs p : Nat} {ls : List Label}
    (h : NameAtC G oct cur cs p ls) (hm : ∀ i, i < cur → msg[i]? = oct[i]?) :
    ∃ k, Decodes msg p cs (wireOf ls) (ls.length + 1) k := by
  induction h with
  | root hcs hg hp h0 => exact ⟨1, decodes_null' (by rw [hm _ hp]; exact h0)⟩
  | @label cs cs' p p' l ls hcs hg h1 h63 hb hd hop hch rest ih =>
    obtain ⟨k, ihd⟩ := ih
    have hq := hop_start_lt hop
    have hbm : msg[p]? = some (UInt8.ofNat l.length) := by rw [hm _ (by omega)]; exact hb
    have hn : (UInt8.ofNat l.length).toNat = l.length := by rw [UInt8.toNat_ofNat']; omega
    have hne : UInt8.ofNat l.length ≠ 0 := by
      intro hc
      have := congrArg UInt8.toNat hc
      rw [hn] at this
      have h00 : (0 : UInt8).toNat = 0 := rfl
      omega
    -- the octets of the label in `msg`
    have hqm : p + 1 + l.length < msg.size := by
      obtain ⟨b, hbq⟩ : ∃ b, oct[p + 1 + l.length]? = some b := by
        cases hop with
        | here _ hb' _ => exact ⟨_, hb'⟩
        | jump _ hb' _ _ _ _ _ => exact ⟨_, hb'⟩
      have : msg[p + 1 + l.length]? = some b := by rw [hm _ hq]; exact hbq
      exact getElem?_some_lt this
    have hex : (msg.extract p (p + l.length + 1)).toList = WName.encLabel l := by
      apply List.ext_getElem?
      intro i
      simp only [Array.toList_extract, List.getElem?_take, List.getElem?_drop, WName.encLabel]
      by_cases hi : i < l.length + 1
      · rw [if_pos (by omega)]
        cases i with
        | zero =>
          simp only [Nat.add_zero, List.getElem?_cons_zero]
          rw [← hbm]; simp
        | succ j =>
          simp only [List.getElem?_cons_succ]
          have hj : j < l.length := by omega
          have e1 : msg.toList[p + (j + 1)]? = msg[p + 1 + j]? := by
            rw [show p + (j + 1) = p + 1 + j by omega]; simp
          rw [e1, hm _ (by omega), ← hd]
          simp only [Array.toList_extract, List.getElem?_take, List.getElem?_drop]
          rw [if_pos (by omega)]
          simp
      · rw [if_neg (by omega)]
        rw [List.getElem?_eq_none (by simp; omega)]
    rw [wireOf_cons]
    cases hop with
    | here hq' hb' hnp =>
      -- the next label follows in the same chunk
      rcases hch with ⟨_, e2⟩ | ⟨e1, _⟩
      · rw [e2] at ihd
        have := decodes_label' (msg := msg) (p := p) (cs := cs) (UInt8.ofNat l.length) hbm hne (by rw [hn]; exact h63)
          (by rw [hn]; omega) (by rw [hn, show p + l.length + 1 = p + 1 + l.length by omega]; exact ihd)
        rw [hn, hex] at this
        exact ⟨_, this⟩
      · omega
    | jump hq' hb1 hb2 hp hlt h3 hnp =>
      rcases hch with ⟨e1, _⟩ | ⟨e1, e2⟩
      · omega
      · rw [e2] at ihd
        have hptr := decodes_ptr' (msg := msg) (q := p + 1 + l.length) (cs := cs) _ _
          (by rw [hm _ (by omega)]; exact hb1) (by rw [hm _ hq']; exact hb2) hp e1 ihd
        have := decodes_label' (msg := msg) (p := p) (cs := cs) (UInt8.ofNat l.length) hbm hne (by rw [hn]; exact h63)
          (by rw [hn]; omega) (by rw [hn, show p + l.length + 1 = p + 1 + l.length by omega]; exact hptr)
        rw [hn, hex] at this
        exact ⟨_, this⟩

/-- … and so the independent decoder reads exactly the stored labels there -/
theorem nameAtC_specDecodeName {G : Nat → Prop} {oct msg : Bytes} {cur p : Nat} {ls : List Label}
    (h : NameAtC G oct cur p p ls) (hm : ∀ i, i < cur → msg[i]? = oct[i]?)
    (hlen : (wireOf ls).length ≤ 255) :
    ∃ k, specDecodeName msg p = some (wireOf ls, ls.length + 1, k) := by
  obtain ⟨k, hd⟩ := nameAtC_decodes h hm
  exact ⟨k, (specDecodeName_iff msg p _ _ _).mpr ⟨hd, hlen⟩⟩


theorem wireOf_length (ls : List Label) : (wireOf ls).length = encLen ls + 1 := by
  simp [wireOf, encLen]

theorem extract_prefix_get (oct : Bytes) (cur : Nat) (hc : cur ≤ oct.size) (i : Nat) (hi : i < cur) :
    (oct.extract 0 cur)[i]? = oct[i]? := by
  simp only [Array.getElem?_extract]
  rw [if_pos (by omega)]
  simp

/-- **at every recorded label start of a valid writer state the independent RFC 1035 decoder
    succeeds** on the message written so far, and reads a name of at most 255 octets -/
theorem cstored_specDecodeName {s : State} {g : Nat} (h : CStored s g) (hc : s.cursor ≤ s.octets.size) :
    ∃ ls k, NameAtC (GL s) s.octets s.cursor g g ls ∧
      specDecodeName (s.octets.extract 0 s.cursor) g = some (wireOf ls, ls.length + 1, k) := by
  obtain ⟨ls, hn, hb⟩ := h
  obtain ⟨k, hk⟩ := nameAtC_specDecodeName (msg := s.octets.extract 0 s.cursor) hn
    (extract_prefix_get s.octets s.cursor hc) (by rw [wireOf_length]; exact hb)
  exact ⟨ls, k, hn, hk⟩

end QV.Writer
