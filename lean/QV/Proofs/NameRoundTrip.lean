/-
  QV.Proofs.NameRoundTrip — the round trip of one written name: whatever `write_hinted_name`
  writes (labels, labels and a pointer, or a bare pointer), the independent RFC 1035 decoder,
  started where the name was written, reads the name given — octet for octet in `CasePreserving`
  and `Disabled` mode, up to ASCII case in `Standard` mode.
-/
import QV.Proofs.NameDecode
import QV.Proofs.WriterDisabled
import QV.Proofs.MessageDecode

namespace QV.Writer
open QV QV.Wire QV.Spec

/-- the independent decoder reads, from where a name was written, the labels `ReadsAt` speaks of -/
theorem readsAt_specDecodeName {s : State} {a : Nat} {ls : List Label} (h : ReadsAt s a ls)
    (hc : s.cursor ≤ s.octets.size) :
    ∃ k, specDecodeName (s.octets.extract 0 s.cursor) a = some (wireOf ls, ls.length + 1, k) := by
  obtain ⟨q, cs', hop, hch, hn, hb⟩ := h
  have hm := extract_prefix_get s.octets s.cursor hc
  have hlen : (wireOf ls).length ≤ 255 := by rw [wireOf_length]; exact hb
  cases hop with
  | here hq hb0 hnp =>
    rcases hch with ⟨_, e2⟩ | ⟨e1, _⟩
    · rw [e2] at hn
      exact nameAtC_specDecodeName hn hm hlen
    · omega
  | jump hq h1 h2 hp hlt h3 hnp =>
    rcases hch with ⟨e1, _⟩ | ⟨e1, e2⟩
    · omega
    · rw [e2] at hn
      obtain ⟨k, hd⟩ := nameAtC_decodes hn hm
      have hptr := decodes_ptr' (msg := s.octets.extract 0 s.cursor) (q := a) (cs := a) _ _
        (by rw [hm _ (by omega)]; exact h1) (by rw [hm _ hq]; exact h2) hp hlt hd
      exact ⟨2, (specDecodeName_iff _ a _ _ _).mpr ⟨hptr, hlen⟩⟩

theorem labelsMatch_cp_eq {a b : List Label} (h : labelsMatch .casePreserving a b = true) : a = b := by
  induction a generalizing b with
  | nil => cases b with
    | nil => rfl
    | cons _ _ => simp [labelsMatch] at h
  | cons x xs ih => cases b with
    | nil => simp [labelsMatch] at h
    | cons y ys =>
      simp only [labelsMatch, Bool.and_eq_true, labelMatch, if_true, decide_eq_true_eq] at h
      rw [h.1, ih h.2]

theorem labelsMatch_std_wire {a b : List Label} (h : labelsMatch .standard a b = true) :
    (wireOf a).map lowerU8 = (wireOf b).map lowerU8 := by
  induction a generalizing b with
  | nil => cases b with
    | nil => rfl
    | cons _ _ => simp [labelsMatch] at h
  | cons x xs ih => cases b with
    | nil => simp [labelsMatch] at h
    | cons y ys =>
      simp only [labelsMatch, Bool.and_eq_true] at h
      have hl := labelMatch_length h.1
      have hx : x.map lowerU8 = y.map lowerU8 := by
        have := h.1
        unfold labelMatch at this
        simp only [show (CMode.standard = CMode.casePreserving) = False by simp, if_false] at this
        exact eq_of_beq this
      rw [wireOf_cons, wireOf_cons, List.map_append, List.map_append, ih h.2]
      simp only [WName.encLabel, List.map_cons, hl, hx]

theorem wireOf_labels (n : WName) : wireOf n.labels = n.wire := rfl

/-- **the round trip of one written name.** From a valid writer state, with a well-formed name and
    a valid hint: if `write_hinted_name` succeeds, the independent RFC 1035 decoder, run on the
    message written so far from the position where the name was written, yields a name with the
    same number of labels that equals the name given up to ASCII case — and octet for octet
    unless the mode is `Standard`. -/
theorem writeHintedName_round_trip (hint : Hint) (n : WName) (s : State) (h : WInv s) (hn : n.WF)
    (hh : HintOK s hint n) (p : Option Prior) (hok : (writeHintedName hint n s).1 = .ok p) :
    ∃ w k, specDecodeName ((writeHintedName hint n s).2.octets.extract 0 (writeHintedName hint n s).2.cursor)
        s.cursor = some (w, n.len, k) ∧
      w.map lowerU8 = n.wire.map lowerU8 ∧ (s.mode ≠ .standard → w = n.wire) := by
  have hs := writeHintedName_spec hint n s h hn hh
  obtain ⟨hw', _, _, _, _, ⟨ls, hrd, hmt⟩, _⟩ := hs.ok p hok
  have hc : (writeHintedName hint n s).2.cursor ≤ (writeHintedName hint n s).2.octets.size :=
    Nat.le_trans hw'.cur_av hw'.av_size
  obtain ⟨k, hd⟩ := readsAt_specDecodeName hrd hc
  have hlen : ls.length + 1 = n.len := by
    have := labelsMatch_length hmt
    unfold WName.len; omega
  rw [hlen] at hd
  refine ⟨wireOf ls, k, hd, ?_, ?_⟩
  · rw [← wireOf_labels n]
    have hstd : labelsMatch .standard n.labels ls = true := by
      unfold effMode at hmt
      split at hmt
      · exact hmt
      · exact labelsMatch_std hmt
    exact (labelsMatch_std_wire hstd).symm
  · intro hm
    cases hmode : s.mode with
    | standard => exact absurd hmode hm
    | casePreserving =>
      rw [hmode] at hmt
      have : n.labels = ls := labelsMatch_cp_eq (by simpa [effMode] using hmt)
      rw [← this]; rfl
    | disabled =>
      -- written without compression: the octets are the wire form itself
      cases hr : writeHintedName hint n s with
      | mk r s' =>
        rw [hr] at hok hd hc
        simp only at hok hd hc
        subst hok
        have a := wr_writeHintedName hint n s hmode p s' hr
        have hb : BytesAt (s'.octets.extract 0 s'.cursor) s.cursor n.wire := by
          intro i hi
          rw [extract_prefix_get _ _ hc _ (by rw [a.cur]; omega)]
          exact a.bytes i hi
        have := specDecodeName_wire (s'.octets.extract 0 s'.cursor) n hn s.cursor hb
        rw [this] at hd
        simp only [Option.some.injEq, Prod.mk.injEq] at hd
        exact hd.1.symm

end QV.Writer
