/-
  QV.Proofs.WriterBudget — "an operation whose uncompressed encoding fits in the remaining space
  never fails with truncation" (C12 (e)), for every state and every hint, valid or not: each
  internal step has a budget (the size of what it writes without compression); it cannot report
  `Truncation` when the budget fits behind the cursor, and it never advances the cursor further.
-/
import QV.Proofs.Writer
import QV.Proofs.Compress

namespace QV.Writer
open QV QV.Wire

/-- `f` needs at most `b` octets -/
def Bud {α} (b : Nat) (f : M α) : Prop :=
  ∀ s, ((f s).1 = .err .Truncation → s.available < s.cursor + b) ∧
    (∀ a s', f s = (.ok a, s') → s'.cursor ≤ s.cursor + b ∧ s'.available = s.available)

theorem bud_bind {α β} {b1 b2 : Nat} {f : M α} {g : α → M β} (hf : Bud b1 f) (hg : ∀ a, Bud b2 (g a)) :
    Bud (b1 + b2) (f >>= g) := by
  intro s
  obtain ⟨h1, h2⟩ := hf s
  simp only [M.bind_apply]
  cases hfs : f s with
  | mk r s1 =>
    rw [hfs] at h1
    cases r with
    | ok a =>
      obtain ⟨k1, k2⟩ := h2 a s1 hfs
      obtain ⟨g1, g2⟩ := hg a s1
      refine ⟨fun ht => ?_, fun b s' hh => ?_⟩
      · have := g1 ht; omega
      · obtain ⟨m1, m2⟩ := g2 b s' hh
        exact ⟨by omega, by rw [m2, k2]⟩
    | err e =>
      refine ⟨fun ht => ?_, fun b s' hh => by cases hh⟩
      simp only [Out.err.injEq] at ht
      subst ht
      have := h1 rfl; omega
    | panic => exact ⟨(fun ht => by cases ht), fun b s' hh => by cases hh⟩

theorem bud_mono {α} {b b' : Nat} {f : M α} (h : Bud b f) (hb : b ≤ b') : Bud b' f := by
  intro s
  obtain ⟨h1, h2⟩ := h s
  exact ⟨(fun ht => by have := h1 ht; omega), fun a s' hh => by have := h2 a s' hh; exact ⟨by omega, this.2⟩⟩

theorem bud_pure {α} (a : α) : Bud 0 (pure a : M α) :=
  fun s => ⟨(fun h => by cases h), fun b s' h => by cases h; exact ⟨Nat.le_refl _, rfl⟩⟩
theorem bud_panic {α} : Bud 0 (M.panic : M α) :=
  fun s => ⟨(fun h => by cases h), fun b s' h => by cases h⟩
theorem bud_fail {α} (e : WriterErr) (he : e ≠ .Truncation) : Bud 0 (M.fail e : M α) :=
  fun s => ⟨(fun h => by simp only [M.fail_apply, Out.err.injEq] at h; exact absurd h he), fun b s' h => by cases h⟩
theorem bud_gets {α} (f : State → α) : Bud 0 (M.gets f) :=
  fun s => ⟨(fun h => by cases h), fun b s' h => by cases h; exact ⟨Nat.le_refl _, rfl⟩⟩
theorem bud_modify (f : State → State) (hc : ∀ s, (f s).cursor = s.cursor)
    (ha : ∀ s, (f s).available = s.available) : Bud 0 (M.modify f) :=
  fun s => ⟨(fun h => by cases h), fun b s' h => by cases h; exact ⟨by rw [hc]; omega, ha s⟩⟩

theorem bud_gets_bind {α β} {b : Nat} {f : State → α} {g : α → M β} (hg : ∀ a, Bud b (g a)) :
    Bud b (M.gets f >>= g) := by
  have := bud_bind (bud_gets f) hg
  simpa using this

theorem bud_tryPush (d : List UInt8) : Bud d.length (tryPush d) := by
  intro s
  unfold tryPush
  by_cases h1 : s.available < s.cursor
  · rw [if_pos h1]; exact ⟨(fun h => by cases h), fun b s' h => by cases h⟩
  · rw [if_neg h1]
    by_cases h2 : s.available - s.cursor ≥ d.length
    · rw [if_pos h2]
      by_cases h3 : s.cursor + d.length ≤ s.octets.size
      · rw [if_pos h3]
        exact ⟨(fun h => by cases h), fun b s' h => by cases h; exact ⟨Nat.le_refl _, rfl⟩⟩
      · rw [if_neg h3]; exact ⟨(fun h => by cases h), fun b s' h => by cases h⟩
    · rw [if_neg h2]
      exact ⟨(fun _ => by omega), fun b s' h => by cases h⟩

theorem bud_ghostLabels (p : Nat) (l : List Label) (b : Bool) : Bud 0 (ghostLabels p l b) :=
  bud_modify _ (fun _ => rfl) (fun _ => rfl)

theorem bud_setCtx (c : NameCtx) : Bud 0 (setCtx c) := bud_modify _ (fun _ => rfl) (fun _ => rfl)

theorem bud_hvPush (p : Option Nat) : Bud 0 (hvPush p) := by
  refine bud_modify _ (fun s => ?_) (fun s => ?_)
  · split
    · split <;> rfl
    · rfl
  · split
    · split <;> rfl
    · rfl

theorem bud_pushPointer (p : Nat) : Bud 2 (pushPointer p) := by
  unfold pushPointer
  refine bud_gets_bind fun ev => ?_
  have := bud_bind (bud_tryPush (u16be (49152 + p))) (fun _ => bud_modify
    (fun s' => { s' with gPtrs := ev :: s'.gPtrs }) (fun _ => rfl) (fun _ => rfl))
  exact this

theorem bud_writeUncompressedName (n : WName) : Bud n.wire.length (writeUncompressedName n) := by
  unfold writeUncompressedName
  refine bud_gets_bind fun c => ?_
  have := bud_bind (bud_tryPush n.wire) (fun _ => bud_bind (bud_ghostLabels c n.labels true)
    (fun _ => bud_pure ((hintPointerNew c).map fun p => (⟨p, n.len⟩ : Prior))))
  simpa using this

theorem encLen'_take_add (ls : List Label) (k : Nat) :
    ((ls.take k).flatMap WName.encLabel).length + ((ls.drop k).flatMap WName.encLabel).length =
      (ls.flatMap WName.encLabel).length := by
  rw [← List.length_append, ← List.flatMap_append, List.take_append_drop]

theorem encLen'_pos {ls : List Label} (h : ls ≠ []) : 1 ≤ (ls.flatMap WName.encLabel).length := by
  cases ls with
  | nil => exact absurd rfl h
  | cons l ls => simp [WName.encLabel]

theorem bud_writeCompressedUnhintedName (n : WName) : Bud n.wire.length (writeCompressedUnhintedName n) := by
  intro s
  have hwl : n.wire.length = (n.labels.flatMap WName.encLabel).length + 1 := by simp [WName.wire]
  unfold writeCompressedUnhintedName
  simp only [M.bind_apply, M.gets_apply]
  cases hd : compressDecision s.octets s.mode (s.mostRecentOwner.orElse fun _ => s.qname)
      s.mostRecentNameInRdata n with
  | panic => exact bud_mono bud_panic (Nat.zero_le _) s
  | err e => exact bud_mono bud_panic (Nat.zero_le _) s
  | ok r =>
    cases r with
    | none => exact bud_writeUncompressedName n s
    | some m =>
      have hk := compressDecision_col hd
      have hne : n.labels ≠ [] := by intro h; rw [h] at hk; simp at hk
      simp only []
      by_cases hk0 : m.startColumn = 0
      · rw [if_pos hk0]
        have := bud_bind (bud_pushPointer m.priorPointer)
          (fun _ => bud_pure (some (⟨m.priorPointer, n.len⟩ : Prior)))
        have h1 := encLen'_pos hne
        exact bud_mono this (by omega) s
      · rw [if_neg hk0]
        have hwt : n.wireTo m.startColumn = (n.labels.take m.startColumn).flatMap WName.encLabel := by
          unfold WName.wireTo WName.len; rw [if_neg (by omega)]
        have := bud_bind (bud_tryPush (n.wireTo m.startColumn)) (fun _ =>
          bud_bind (bud_ghostLabels s.cursor (n.labels.take m.startColumn) false) (fun _ =>
            bud_bind (bud_pushPointer m.priorPointer) (fun _ =>
              bud_pure ((hintPointerNew s.cursor).map fun p => (⟨p, n.len⟩ : Prior)))))
        have hsum := encLen'_take_add n.labels m.startColumn
        have hdrop : 1 ≤ ((n.labels.drop m.startColumn).flatMap WName.encLabel).length := by
          apply encLen'_pos
          intro hnil
          have := congrArg List.length hnil
          simp at this; omega
        refine bud_mono this ?_ s
        rw [hwt]; omega

theorem bud_writeUnhintedName (n : WName) : Bud n.wire.length (writeUnhintedName n) := by
  unfold writeUnhintedName
  refine bud_gets_bind fun m => ?_
  split
  · exact bud_writeCompressedUnhintedName n
  · exact bud_writeUncompressedName n

theorem bud_pushHinted (p : Prior) : Bud 2 (pushHinted p) := by
  have := bud_bind (bud_pushPointer p.ptr) (fun _ => bud_pure (some p))
  exact this

theorem bud_writeHintedName (hint : Hint) (n : WName) : Bud n.wire.length (writeHintedName hint n) := by
  unfold writeHintedName
  refine bud_gets_bind fun m => ?_
  split
  · exact bud_writeUncompressedName n
  · rename_i hlen
    have h2 : 2 ≤ n.wire.length := by
      have : ¬ n.wire.length ≤ 2 := fun h => hlen (Or.inr h)
      omega
    split
    · exact bud_writeCompressedUnhintedName n
    · split
      · refine bud_gets_bind fun q => ?_
        split
        · exact bud_mono (bud_pushHinted _) h2
        · exact bud_writeCompressedUnhintedName n
      · refine bud_gets_bind fun q => ?_
        split
        · exact bud_mono (bud_pushHinted _) h2
        · exact bud_writeCompressedUnhintedName n
      · refine bud_gets_bind fun q => ?_
        split
        · exact bud_mono (bud_pushHinted _) h2
        · exact bud_writeCompressedUnhintedName n
      · refine bud_gets_bind fun q => ?_
        split
        · exact bud_mono (bud_pushHinted _) h2
        · exact bud_writeCompressedUnhintedName n
      · exact bud_writeCompressedUnhintedName n

/-! ### RDATA: the budget is the length of the RDATA given -/

theorem parseLabels_length : ∀ (fuel : Nat) (b : List UInt8) (ls : List Label) (r : List UInt8),
    WName.parseLabels fuel b = some (ls, r) →
    b.length = (ls.flatMap WName.encLabel).length + 1 + r.length := by
  intro fuel
  induction fuel with
  | zero => intro b ls r h; simp [WName.parseLabels] at h
  | succ f ih =>
    intro b ls r h
    cases b with
    | nil => simp [WName.parseLabels] at h
    | cons x rest =>
      simp only [WName.parseLabels] at h
      by_cases hx0 : x = 0
      · rw [if_pos hx0] at h; cases h; simp; omega
      · rw [if_neg hx0] at h
        by_cases hx63 : x.toNat > Gen.MAX_LABEL_LEN
        · rw [if_pos hx63] at h; cases h
        · rw [if_neg hx63] at h
          by_cases hlen : rest.length < x.toNat
          · rw [if_pos hlen] at h; cases h
          · rw [if_neg hlen] at h
            cases hrec : WName.parseLabels f (List.drop x.toNat rest) with
            | none => rw [hrec] at h; cases h
            | some pr =>
              obtain ⟨ls', r'⟩ := pr
              rw [hrec] at h
              cases h
              have := ih _ _ _ hrec
              simp [WName.encLabel] at this ⊢
              omega

theorem parse_length {b : List UInt8} {n : WName} {r : List UInt8} (h : WName.parse b = some (n, r)) :
    b.length = n.wire.length + r.length := by
  unfold WName.parse at h
  split at h
  · rename_i ls r' hp
    dsimp only at h
    split at h
    · cases h
      have := parseLabels_length _ _ _ _ hp
      simp [WName.wire] at this ⊢
      omega
    · cases h
  · cases h

theorem bud_nameComp (wr : M (Option Prior)) (c : NameCtx) (b : Nat) (hwr : Bud b wr) (k : M Unit) (bk : Nat)
    (hk : Bud bk k) :
    Bud (b + bk) (do
      setCtx c
      let p ← wr
      setCtx .none
      M.modify fun s => { s with mostRecentNameInRdata := p }
      hvPush (p.map (·.ptr))
      k) := by
  have := bud_bind (bud_setCtx c) (fun _ => bud_bind hwr (fun p => bud_bind (bud_setCtx .none) (fun _ =>
    bud_bind (bud_modify (fun s => { s with mostRecentNameInRdata := p }) (fun _ => rfl) (fun _ => rfl))
      (fun _ => bud_bind (bud_hvPush (p.map (·.ptr))) (fun _ => hk)))))
  simpa using this

theorem bud_writeComponents (ts : List CompType) (rd : List UInt8) : Bud rd.length (writeComponents ts rd) := by
  induction ts generalizing rd with
  | nil =>
    unfold writeComponents
    split
    · exact bud_mono (bud_pure ()) (Nat.zero_le _)
    · exact bud_tryPush rd
  | cons t ts ih =>
    cases t with
    | compressibleName =>
      unfold writeComponents
      cases hp : WName.parse rd with
      | none => exact bud_mono (bud_fail _ (by simp)) (Nat.zero_le _)
      | some pr =>
        obtain ⟨n, rest⟩ := pr
        simp only []
        rw [parse_length hp]
        exact bud_nameComp _ _ _ (bud_writeUnhintedName n) _ _ (ih rest)
    | uncompressibleName =>
      unfold writeComponents
      cases hp : WName.parse rd with
      | none => exact bud_mono (bud_fail _ (by simp)) (Nat.zero_le _)
      | some pr =>
        obtain ⟨n, rest⟩ := pr
        simp only []
        rw [parse_length hp]
        exact bud_nameComp _ _ _ (bud_writeUncompressedName n) _ _ (ih rest)
    | fixedLen k =>
      unfold writeComponents
      split
      · exact bud_mono (bud_fail _ (by simp)) (Nat.zero_le _)
      · rename_i hk
        have := bud_bind (bud_tryPush (rd.take k)) (fun _ => ih (rd.drop k))
        refine bud_mono this ?_
        simp; omega

theorem bud_writeRdata (cls ty : Nat) (rd : List UInt8) : Bud rd.length (writeRdata cls ty rd) := by
  unfold writeRdata
  split
  · exact bud_writeComponents _ _
  · exact bud_mono bud_panic (Nat.zero_le _)

theorem bud_write (pos : Nat) (d : List UInt8) : Bud 0 (write pos d) := by
  intro s
  unfold write
  split
  · exact ⟨(fun h => by cases h), fun b s' h => by cases h; exact ⟨Nat.le_refl _, rfl⟩⟩
  · exact ⟨(fun h => by cases h), fun b s' h => by cases h⟩

/-- the uncompressed size of one record -/
def rrLen (owner : WName) (rd : List UInt8) : Nat := owner.wire.length + 10 + rd.length

theorem bud_addRr (hint : Hint) (owner : WName) (ty cls ttl : Nat) (rd : List UInt8) :
    Bud (rrLen owner rd) (addRr hint owner ty cls ttl rd) := by
  unfold addRr rrLen
  have tail : Bud (2 + rd.length) (do
      let av ← M.gets (·.available)
      let rdlengthStart ← M.gets (·.cursor)
      if av < rdlengthStart then M.panic
      else if av - rdlengthStart < 2 then M.fail .Truncation
      else do
        M.modify fun s => { s with cursor := s.cursor + 2 }
        writeRdata cls ty rd
        let cur' ← M.gets (·.cursor)
        if cur' < rdlengthStart + 2 then M.panic
        else write rdlengthStart (u16be ((cur' - rdlengthStart - 2) % 65536))) := by
    intro s
    simp only [M.bind_apply, M.gets_apply]
    by_cases h1 : s.available < s.cursor
    · rw [if_pos h1]; exact ⟨(fun h => by cases h), fun b s' h => by cases h⟩
    · rw [if_neg h1]
      by_cases h2 : s.available - s.cursor < 2
      · rw [if_pos h2]; exact ⟨(fun _ => by omega), fun b s' h => by cases h⟩
      · rw [if_neg h2]
        simp only [M.bind_apply, M.modify_apply]
        obtain ⟨g1, g2⟩ := bud_writeRdata cls ty rd { s with cursor := s.cursor + 2 }
        cases hw : writeRdata cls ty rd { s with cursor := s.cursor + 2 } with
        | mk r s2 =>
          rw [hw] at g1
          cases r with
          | ok u =>
            obtain ⟨k1, k2⟩ := g2 u s2 hw
            simp only [M.gets_apply]
            by_cases h3 : s2.cursor < s.cursor + 2
            · rw [if_pos h3]; exact ⟨(fun h => by cases h), fun b s' h => by cases h⟩
            · rw [if_neg h3]
              obtain ⟨w1, w2⟩ := bud_write s.cursor (u16be ((s2.cursor - s.cursor - 2) % 65536)) s2
              refine ⟨fun h => by have := w1 h; simp only at k1 k2; omega, fun b s' h => ?_⟩
              obtain ⟨m1, m2⟩ := w2 b s' h
              simp only at k1 k2
              exact ⟨by omega, by rw [m2, k2]⟩
          | err e =>
            refine ⟨fun h => ?_, fun b s' h => by cases h⟩
            have := g1 h; simp only at this; omega
          | panic => exact ⟨(fun h => by cases h), fun b s' h => by cases h⟩
  have := bud_bind (bud_setCtx .owner) (fun _ => bud_bind (bud_writeHintedName hint owner) (fun p =>
    bud_bind (bud_setCtx .none) (fun _ =>
      bud_bind (bud_modify (fun s => { s with mostRecentOwner := p }) (fun _ => rfl) (fun _ => rfl)) (fun _ =>
        bud_bind (bud_tryPush (u16be ty)) (fun _ => bud_bind (bud_tryPush (u16be cls)) (fun _ =>
          bud_bind (bud_tryPush (u32be ttl)) (fun _ => tail)))))))
  refine bud_mono this ?_
  have : (u16be ty).length = 2 := rfl
  have : (u16be cls).length = 2 := rfl
  have : (u32be ttl).length = 4 := rfl
  omega

theorem bud_addRrset (hint : Hint) (owner : WName) (ty cls ttl : Nat) (rds : List (List UInt8)) (n : Nat) :
    Bud ((rds.map (rrLen owner)).sum) (addRrset hint owner ty cls ttl rds n) := by
  induction rds generalizing hint n with
  | nil => exact bud_pure n
  | cons rd rds ih =>
    unfold addRrset
    have := bud_bind (bud_addRr hint owner ty cls ttl rd) (fun _ => ih .mostRecentOwner (n + 1))
    simpa using this

/-! ### the public operations -/

theorem bud_changeSection (sec : RrSection) : Bud 0 (changeSection sec) := by
  intro s
  unfold changeSection
  split <;> first
    | exact ⟨(fun h => by cases h), fun b s' h => by cases h; exact ⟨Nat.le_refl _, rfl⟩⟩
    | exact ⟨(fun h => by cases h), fun b s' h => by cases h⟩

theorem bud_setCount (sec : RrSection) (n : Nat) : Bud 0 (setCount sec n) := by
  cases sec <;> exact bud_modify _ (fun _ => rfl) (fun _ => rfl)

theorem withRollback_fst {α} (f : M α) (s : State) : (withRollback f s).1 = (f s).1 := by
  rw [withRollback_apply]
  cases f s with
  | mk r s' => cases r <;> rfl

/-- **(e)** `add_*_rr`: `Truncation` only if the uncompressed record does not fit -/
theorem addRrOp_truncation (sec : RrSection) (hint : Hint) (owner : WName) (ty cls ttl : Nat)
    (rd : List UInt8) (s : State)
    (h : (addRrOp sec hint owner ty cls ttl rd s).1 = .err .Truncation) :
    s.available < s.cursor + rrLen owner rd := by
  unfold addRrOp at h
  rw [withRollback_fst] at h
  have hb : Bud (0 + (rrLen owner rd + 0)) (changeSection sec >>= fun _ => do
      addRr hint owner ty cls (ttlFrom ttl) rd
      let c ← M.gets (getCount sec)
      if c + 1 > 65535 then M.fail .CountOverflow else setCount sec (c + 1)) :=
    bud_bind (bud_changeSection sec) fun _ => bud_bind (bud_addRr hint owner ty cls (ttlFrom ttl) rd)
      fun _ => bud_gets_bind fun c => by
        split
        · exact bud_fail _ (by simp)
        · exact bud_setCount _ _
  have := (hb s).1 h
  omega

theorem addRrsetOp_truncation (sec : RrSection) (hint : Hint) (owner : WName) (ty cls ttl : Nat)
    (rds : List (List UInt8)) (s : State)
    (h : (addRrsetOp sec hint owner ty cls ttl rds s).1 = .err .Truncation) :
    s.available < s.cursor + (rds.map (rrLen owner)).sum := by
  unfold addRrsetOp at h
  rw [withRollback_fst] at h
  have hb : Bud (0 + ((rds.map (rrLen owner)).sum + 0)) (changeSection sec >>= fun _ => do
      let n ← addRrset hint owner ty cls (ttlFrom ttl) rds 0
      let c ← M.gets (getCount sec)
      if n > 65535 then M.fail .CountOverflow
      else if c + n > 65535 then M.fail .CountOverflow
      else setCount sec (c + n)) :=
    bud_bind (bud_changeSection sec) fun _ => bud_bind (bud_addRrset hint owner ty cls (ttlFrom ttl) rds 0)
      fun n => bud_gets_bind fun c => by
        split
        · exact bud_fail _ (by simp)
        · split
          · exact bud_fail _ (by simp)
          · exact bud_setCount _ _
  have := (hb s).1 h
  omega

theorem bud_addQuestionBody (qn : WName) (qt qc : Nat) : Bud (qn.wire.length + 4) (addQuestionBody qn qt qc) := by
  unfold addQuestionBody
  have := bud_bind (bud_setCtx .qname) (fun _ => bud_bind (bud_writeUnhintedName qn) (fun p =>
    bud_bind (bud_setCtx .none) (fun _ =>
      bud_bind (bud_modify (fun s => if s.qdcount = 0 then { s with qname := p } else s)
        (fun s => by split <;> rfl) (fun s => by split <;> rfl)) (fun _ =>
        bud_bind (bud_tryPush (u16be qt)) (fun _ => bud_tryPush (u16be qc))))))
  refine bud_mono this ?_
  have : (u16be qt).length = 2 := rfl
  have : (u16be qc).length = 2 := rfl
  omega

theorem addQuestion_truncation (qn : WName) (qt qc : Nat) (s : State)
    (h : (addQuestion qn qt qc s).1 = .err .Truncation) : s.available < s.cursor + (qn.wire.length + 4) := by
  unfold addQuestion at h
  simp only [M.bind_apply, M.gets_apply] at h
  split at h
  · cases h
  · split at h
    · cases h
    · simp only [M.bind_apply] at h
      have hb := (bud_addQuestionBody qn qt qc s).1
      have hf := withRollback_fst (addQuestionBody qn qt qc) s
      cases hw : withRollback (addQuestionBody qn qt qc) s with
      | mk r s' =>
        rw [hw] at h hf
        cases r with
        | ok u => cases h
        | err e =>
          simp only [] at h hf
          exact hb (by rw [← hf]; exact h)
        | panic => cases h

theorem setEdns_truncation (p : Nat) (s : State) (h : (setEdns p s).1 = .err .Truncation) :
    s.available < s.cursor + Gen.OPT_RECORD_SIZE := by
  unfold setEdns at h
  split at h
  · cases h
  · split at h
    · rename_i h2; omega
    · split at h <;> cases h

theorem setTsig_truncation (m : TsigMode) (rr : TsigRr) (s : State)
    (h : (setTsig m rr s).1 = .err .Truncation) : s.available < s.cursor + reservedLenOf m rr := by
  unfold setTsig at h
  split at h
  · cases h
  · split at h
    · rename_i h2; omega
    · split at h <;> cases h

/-! ### which errors can occur while a record without RDATA names is written -/

/-- `f` fails, if at all, with `Truncation` -/
def OnlyTrunc {α} (f : M α) : Prop := ∀ s e, (f s).1 = .err e → e = .Truncation

theorem onlyTrunc_bind {α β} {f : M α} {g : α → M β} (hf : OnlyTrunc f) (hg : ∀ a, OnlyTrunc (g a)) :
    OnlyTrunc (f >>= g) := by
  intro s e h
  simp only [M.bind_apply] at h
  cases hfs : f s with
  | mk r s1 =>
    rw [hfs] at h
    cases r with
    | ok a => exact hg a s1 e h
    | err e' => simp only [Out.err.injEq] at h; subst h; exact hf s _ (by rw [hfs])
    | panic => cases h

theorem onlyTrunc_pure {α} (a : α) : OnlyTrunc (pure a : M α) := fun s e h => by cases h
theorem onlyTrunc_panic {α} : OnlyTrunc (M.panic : M α) := fun s e h => by cases h
theorem onlyTrunc_gets {α} (f : State → α) : OnlyTrunc (M.gets f) := fun s e h => by cases h
theorem onlyTrunc_modify (f : State → State) : OnlyTrunc (M.modify f) := fun s e h => by cases h

theorem onlyTrunc_tryPush (d : List UInt8) : OnlyTrunc (tryPush d) := by
  intro s e h
  unfold tryPush at h
  split at h
  · cases h
  · split at h
    · split at h <;> cases h
    · cases h; rfl

theorem onlyTrunc_pushPointer (p : Nat) : OnlyTrunc (pushPointer p) := by
  unfold pushPointer
  exact onlyTrunc_bind (onlyTrunc_gets _) fun _ => onlyTrunc_bind (onlyTrunc_tryPush _) fun _ =>
    onlyTrunc_modify _

theorem onlyTrunc_writeUncompressedName (n : WName) : OnlyTrunc (writeUncompressedName n) := by
  unfold writeUncompressedName
  exact onlyTrunc_bind (onlyTrunc_gets _) fun _ => onlyTrunc_bind (onlyTrunc_tryPush _) fun _ =>
    onlyTrunc_bind (onlyTrunc_modify _) fun _ => onlyTrunc_pure _

theorem onlyTrunc_writeCompressedUnhintedName (n : WName) : OnlyTrunc (writeCompressedUnhintedName n) := by
  unfold writeCompressedUnhintedName
  refine onlyTrunc_bind (onlyTrunc_gets _) fun d => onlyTrunc_bind (onlyTrunc_gets _) fun c => ?_
  split
  · exact onlyTrunc_panic
  · exact onlyTrunc_panic
  · exact onlyTrunc_writeUncompressedName n
  · split
    · exact onlyTrunc_bind (onlyTrunc_pushPointer _) fun _ => onlyTrunc_pure _
    · exact onlyTrunc_bind (onlyTrunc_tryPush _) fun _ => onlyTrunc_bind (onlyTrunc_modify _) fun _ =>
        onlyTrunc_bind (onlyTrunc_pushPointer _) fun _ => onlyTrunc_pure _

theorem onlyTrunc_writeHintedName_none (n : WName) : OnlyTrunc (writeHintedName .none n) := by
  unfold writeHintedName
  refine onlyTrunc_bind (onlyTrunc_gets _) fun m => ?_
  split
  · exact onlyTrunc_writeUncompressedName n
  · split
    · exact onlyTrunc_writeCompressedUnhintedName n
    · exact onlyTrunc_writeCompressedUnhintedName n

theorem onlyTrunc_write (pos : Nat) (d : List UInt8) : OnlyTrunc (write pos d) := by
  intro s e h; unfold write at h; split at h <;> cases h

/-- a record of a type without name components, written without a hint, can only fail for lack
    of space -/
theorem onlyTrunc_addRr_nameless (owner : WName) (ty cls ttl : Nat) (rd : List UInt8)
    (hct : componentTypes cls ty = some []) : OnlyTrunc (addRr .none owner ty cls ttl rd) := by
  unfold addRr
  refine onlyTrunc_bind (onlyTrunc_modify _) fun _ => onlyTrunc_bind (onlyTrunc_writeHintedName_none owner) fun p =>
    onlyTrunc_bind (onlyTrunc_modify _) fun _ => onlyTrunc_bind (onlyTrunc_modify _) fun _ =>
    onlyTrunc_bind (onlyTrunc_tryPush _) fun _ => onlyTrunc_bind (onlyTrunc_tryPush _) fun _ =>
    onlyTrunc_bind (onlyTrunc_tryPush _) fun _ => onlyTrunc_bind (onlyTrunc_gets _) fun av =>
    onlyTrunc_bind (onlyTrunc_gets _) fun st => ?_
  split
  · exact onlyTrunc_panic
  · split
    · intro s e h; cases h; rfl
    · refine onlyTrunc_bind (onlyTrunc_modify _) fun _ => onlyTrunc_bind ?_ fun _ =>
        onlyTrunc_bind (onlyTrunc_gets _) fun c => ?_
      · unfold writeRdata
        rw [hct]
        simp only [writeComponents]
        split
        · exact onlyTrunc_pure _
        · exact onlyTrunc_tryPush _
      · split
        · exact onlyTrunc_panic
        · exact onlyTrunc_write _ _

end QV.Writer
