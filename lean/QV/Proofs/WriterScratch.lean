/-
  QV.Proofs.WriterScratch — "octets at or above the cursor are scratch space that no later read
  depends on" (the docstring of `Same`), for the one reader of the buffer: the compression scan.

  `compressDecision_congr`: with valid prior names (`PriorOK`: each points at a name stored below
  the cursor), `compressDecision` computes the same decision on two buffers of the same size that
  agree below the cursor. The scan only reads label length octets, label octets and pointers of the
  stored names, all below the cursor.

  Also: `scratch_setAa`, `scratch_setRcode` — the two header calls of the answering phase have the
  same outcome on two writers that are `Same` (agree below the cursor, which lies above the header)
  and leave them `Same`.

  Not proved here (needed for the server's `ScratchIndep`, `QV.Proofs.ServerAnswerTwoRun`): the same
  for `addRrOp` / `addRrsetOp`. The statement needs the invariant on one side
  (`I s → Same s t → s.hv = t.hv → …`; without it a header octet may lie above the cursor and an
  invalid anchor may point above it). Plan: thread `Same` through the writes of `add_rr` (every
  primitive — `tryPush`, `write`, `pushPointer`, `ghostLabels`, the field updates — maps `Same`
  states to `Same` states; the only read of octets is `compressDecision`, `compressDecision_congr`);
  between the reservation of the two RDLENGTH octets and their write-back the two writers agree
  below the cursor only outside that hole — for that situation the scan lemma is proved too:
  `compressDecision_congr_gap` (agreement outside `[a, a+2)` under the hypotheses of
  `nameAt_frame_gap`: names that start below `a` lie entirely below `a`, names that start at or
  above `a + 2` have their literal labels above the hole and then hop to a recorded label start,
  which is outside the hole). What remains is the threading.
-/
import QV.Proofs.Compress
import QV.Proofs.Writer

namespace QV.Writer
open QV QV.Wire

variable {G : Nat → Prop} {oct oct' : Bytes} {cur : Nat}

theorem hop_agree {q p : Nat} (h : Hop oct cur q p) (hag : ∀ i, i < cur → oct'[i]? = oct[i]?) :
    Hop oct' cur q p :=
  hop_frame (lo := 0) h (fun i _ hi => hag i hi) (Nat.le_refl _) (Nat.zero_le _)

theorem skipLabels_congr {p : Nat} {ls : List Label} (h : NameAt G oct cur p ls)
    (hag : ∀ i, i < cur → oct'[i]? = oct[i]?) (k : Nat) (hk : k ≤ ls.length) :
    skipLabels oct' k p = skipLabels oct k p := by
  induction k generalizing p ls with
  | zero => rfl
  | succ k ih =>
    cases h with
    | root hg hp h0 => simp at hk
    | @label p p' l ls hg h1 h63 hb hd hop rest =>
      have hlt : p < cur := by have := hop_start_lt hop; omega
      have hb' : oct'[p]? = some (UInt8.ofNat l.length) := by rw [hag p hlt]; exact hb
      have hs := getElem?_some_lt hb
      have hs' := getElem?_some_lt hb'
      have hl : (UInt8.ofNat l.length).toNat = l.length := by rw [UInt8.toNat_ofNat']; omega
      simp only [skipLabels, dif_pos hs, dif_pos hs']
      rw [getElem_of_getElem? hb hs, getElem_of_getElem? hb' hs', hl,
        show p + l.length + 1 = p + 1 + l.length by omega, hop_move hop, hop_move (hop_agree hop hag)]
      exact ih rest (by simpa using hk)

/-- the value of one step of the scan, from what lies at the context's pointer -/
theorem stepCtx_eval {o : Bytes} {mode : CMode} {c : Nat} {lab l0 : Label} {pc : PriorCtx} {p' : Nat}
    (hsc : ¬ c < pc.startColumn) (hb : o[pc.pointer]? = some (UInt8.ofNat l0.length)) (h63 : l0.length ≤ 63)
    (hd : (o.extract (pc.pointer + 1) (pc.pointer + 1 + l0.length)).toList = l0)
    (hmv : moveToNextRealLabel o (pc.pointer + 1 + l0.length) = .ok p')
    (hs2 : pc.pointer + 1 + l0.length < o.size) :
    stepCtx o mode c lab (some pc) = .ok (some ⟨pc.startColumn, p',
      match hintPointerNew pc.pointer with
      | some pp =>
        if (if mode = .casePreserving then decide (lab = l0) else WName.labelEqIgnoreCase lab l0) then
          (match pc.matchStart with
           | some m => some m
           | none => some ⟨c, pp⟩)
        else none
      | none => none⟩) := by
  have hs := getElem?_some_lt hb
  have hl : (UInt8.ofNat l0.length).toNat = l0.length := by rw [UInt8.toNat_ofNat']; omega
  unfold stepCtx
  dsimp only
  rw [if_neg hsc, dif_pos hs]
  simp only [getElem_of_getElem? hb hs, hl]
  rw [if_neg (by omega), hd, hmv]
  rfl

theorem stepCtx_congr {mode : CMode} {labels : List Label} {c : Nat} {pc : PriorCtx} {lab : Label}
    (h : CtxOK G oct cur mode labels c pc) (hc : c < labels.length)
    (hag : ∀ i, i < cur → oct'[i]? = oct[i]?) (hsz : oct'.size = oct.size) :
    stepCtx oct' mode c lab (some pc) = stepCtx oct mode c lab (some pc) := by
  obtain ⟨ls, hn, hlen, _⟩ := h
  by_cases hsc : c < pc.startColumn
  · unfold stepCtx
    dsimp only
    rw [if_pos hsc, if_pos hsc]
  · have hmax : max c pc.startColumn = c := by omega
    rw [hmax] at hlen
    cases hn with
    | root hg hp h0 => simp at hlen; omega
    | @label p p' l0 ls0 hg h1 h63 hb hd hop rest =>
      have hq := hop_start_lt hop
      have hs2 : pc.pointer + 1 + l0.length < oct.size := hop_start_size hop
      have hb' : oct'[pc.pointer]? = some (UInt8.ofNat l0.length) := by rw [hag _ (by omega)]; exact hb
      have hd' : (oct'.extract (pc.pointer + 1) (pc.pointer + 1 + l0.length)).toList = l0 := by
        rw [extract_congr (a := oct) (b := oct') (fun k hk => hag k (by omega)) (by omega) (by omega)]
        exact hd
      rw [stepCtx_eval hsc hb h63 hd (hop_move hop) hs2,
        stepCtx_eval hsc hb' h63 hd' (hop_move (hop_agree hop hag)) (by omega)]

theorem stepCtx_congr_opt {mode : CMode} {labels : List Label} {c : Nat} {o : Option PriorCtx} {lab : Label}
    (h : OptOK G oct cur mode labels c o) (hc : c < labels.length)
    (hag : ∀ i, i < cur → oct'[i]? = oct[i]?) (hsz : oct'.size = oct.size) :
    stepCtx oct' mode c lab o = stepCtx oct mode c lab o := by
  cases o with
  | none => rfl
  | some pc => exact stepCtx_congr (h pc rfl) hc hag hsz

theorem scan_congr {mode : CMode} {labels : List Label} (hag : ∀ i, i < cur → oct'[i]? = oct[i]?)
    (hsz : oct'.size = oct.size) (rest : List Label) (c : Nat) (hrest : rest = labels.drop c)
    (hc : c ≤ labels.length) (c0 c1 : Option PriorCtx) (h0 : OptOK G oct cur mode labels c c0)
    (h1 : OptOK G oct cur mode labels c c1) :
    scan oct' mode c rest c0 c1 = scan oct mode c rest c0 c1 := by
  induction rest generalizing c c0 c1 with
  | nil => rfl
  | cons lab rest ih =>
    have hlt : c < labels.length := by
      have := congrArg List.length hrest
      simp at this; omega
    have hlab : labels[c]? = some lab := by
      have : (labels.drop c)[0]? = some lab := by rw [← hrest]; rfl
      simpa using this
    obtain ⟨d0, d1⟩ := dedup_ok h0 h1
    obtain ⟨o0, e0, k0⟩ := stepCtx_opt d0 hlt hlab
    obtain ⟨o1, e1, k1⟩ := stepCtx_opt d1 hlt hlab
    have e0' := stepCtx_congr_opt (oct' := oct') (lab := lab) d0 hlt hag hsz
    have e1' := stepCtx_congr_opt (oct' := oct') (lab := lab) d1 hlt hag hsz
    rw [e0] at e0'
    rw [e1] at e1'
    simp only [scan, e0, e1, e0', e1']
    exact ih (c + 1) (by rw [← List.drop_drop, ← hrest]; rfl) hlt o0 o1 k0 k1

theorem buildPriorCtxOpt_congr {clen : Nat} {o : Option Prior} (hclen : 1 ≤ clen)
    (h : ∀ p, o = some p → PriorOK G oct cur p)
    (hag : ∀ i, i < cur → oct'[i]? = oct[i]?) :
    buildPriorCtxOpt oct' clen o = buildPriorCtxOpt oct clen o := by
  cases o with
  | none => rfl
  | some p =>
    obtain ⟨pls, hn, hlen⟩ := h p rfl
    simp only [buildPriorCtxOpt, buildPriorCtx]
    by_cases hk : p.len - clen ≤ pls.length
    · rw [skipLabels_congr hn hag _ hk]
    · -- cannot happen: `len = |labels| + 1`
      omega

/-- **the compression scan does not read scratch space**: on two buffers of the same size that agree
    below the cursor, with valid prior names, it takes the same decision -/
theorem compressDecision_congr {mode : CMode} {a b : Option Prior} {n : WName}
    (ha : ∀ p, a = some p → PriorOK G oct cur p) (hb : ∀ p, b = some p → PriorOK G oct cur p)
    (hag : ∀ i, i < cur → oct'[i]? = oct[i]?) (hsz : oct'.size = oct.size) :
    compressDecision oct' mode a b n = compressDecision oct mode a b n := by
  unfold compressDecision
  split
  · rfl
  · have hl1 : 1 ≤ n.len := by show 1 ≤ n.labels.length + 1; omega
    rw [buildPriorCtxOpt_congr hl1 ha hag, buildPriorCtxOpt_congr hl1 hb hag]
    obtain ⟨r0, e0, k0⟩ := buildPriorCtxOpt_ok (mode := mode) (labels := n.labels) ha
    obtain ⟨r1, e1, k1⟩ := buildPriorCtxOpt_ok (mode := mode) (labels := n.labels) hb
    have hl : n.len = n.labels.length + 1 := rfl
    rw [hl, e0, e1]
    simp only []
    rw [scan_congr hag hsz n.labels 0 (by simp) (by omega) r0 r1 k0 k1]

/-! ### the same with a hole: the two RDLENGTH octets reserved before the RDATA is written -/

section gap
variable {a : Nat}

theorem extract_congr_range {x y : Bytes} {i j : Nat} (h : ∀ k, i ≤ k → k < j → y[k]? = x[k]?)
    (hx : j ≤ x.size) (hy : j ≤ y.size) : y.extract i j = x.extract i j := by
  apply Array.ext_getElem?
  intro k
  simp only [Array.getElem?_extract]
  by_cases hk : k < min j x.size - i
  · have hk' : k < min j y.size - i := by omega
    rw [if_pos hk, if_pos hk']
    exact h _ (by omega) (by omega)
  · have hk' : ¬ k < min j y.size - i := by omega
    rw [if_neg hk, if_neg hk']

/-- names that start below the hole lie entirely below it -/
theorem nameAt_below {p : Nat} {ls : List Label} (h : NameAt G oct cur p ls)
    (hbelow : ∀ g, G g → g < a → ∃ ls', NameAt G oct a g ls') (hp : p < a) : NameAt G oct a p ls := by
  obtain ⟨ls', hn⟩ := hbelow p (nameAt_start h).1 hp
  have := nameAt_unique hn h
  rw [← this]; exact hn

theorem hop_agree_gap {q p : Nat} (h : Hop oct cur q p) (hq : a + 2 ≤ q) (hp : p < a ∨ a + 2 ≤ p)
    (hag : ∀ i, i < cur → (i < a ∨ a + 2 ≤ i) → oct'[i]? = oct[i]?) : Hop oct' cur q p := by
  cases h with
  | here hq' hb hnp => exact .here hq' (by rw [hag _ hq' (Or.inr hq)]; exact hb) hnp
  | jump hq' h1 h2 hp' hlt h3 hnp =>
    exact .jump hq' (by rw [hag _ (by omega) (Or.inr hq)]; exact h1)
      (by rw [hag _ hq' (Or.inr (by omega))]; exact h2) hp' hlt (by rw [hag _ (by omega) hp]; exact h3) hnp

theorem skipLabels_congr_gap {p : Nat} {ls : List Label} (h : NameAt G oct cur p ls)
    (hbelow : ∀ g, G g → g < a → ∃ ls', NameAt G oct a g ls') (hG : ∀ g, G g → g < a ∨ a + 2 ≤ g)
    (hag : ∀ i, i < cur → (i < a ∨ a + 2 ≤ i) → oct'[i]? = oct[i]?) (hac : a ≤ cur) (k : Nat)
    (hk : k ≤ ls.length) : skipLabels oct' k p = skipLabels oct k p := by
  induction k generalizing p ls with
  | zero => rfl
  | succ k ih =>
    by_cases hpa : p < a
    · exact skipLabels_congr (nameAt_below h hbelow hpa) (fun i hi => hag i (by omega) (Or.inl hi)) _ hk
    · cases h with
      | root hg hp h0 => simp at hk
      | @label p p' l ls hg h1 h63 hb hd hop rest =>
        have hp2 : a + 2 ≤ p := by rcases hG p hg with h | h <;> omega
        have hlt : p < cur := by have := hop_start_lt hop; omega
        have hb' : oct'[p]? = some (UInt8.ofNat l.length) := by rw [hag p hlt (Or.inr hp2)]; exact hb
        have hs := getElem?_some_lt hb
        have hs' := getElem?_some_lt hb'
        have hl : (UInt8.ofNat l.length).toNat = l.length := by rw [UInt8.toNat_ofNat']; omega
        have hop' := hop_agree_gap hop (by omega) (hG p' (nameAt_start rest).1) hag
        simp only [skipLabels, dif_pos hs, dif_pos hs']
        rw [getElem_of_getElem? hb hs, getElem_of_getElem? hb' hs', hl,
          show p + l.length + 1 = p + 1 + l.length by omega, hop_move hop, hop_move hop']
        exact ih rest (by simpa using hk)

theorem stepCtx_congr_gap {mode : CMode} {labels : List Label} {c : Nat} {pc : PriorCtx} {lab : Label}
    (h : CtxOK G oct cur mode labels c pc) (hc : c < labels.length)
    (hbelow : ∀ g, G g → g < a → ∃ ls', NameAt G oct a g ls') (hG : ∀ g, G g → g < a ∨ a + 2 ≤ g)
    (hag : ∀ i, i < cur → (i < a ∨ a + 2 ≤ i) → oct'[i]? = oct[i]?) (hac : a ≤ cur)
    (hsz : oct'.size = oct.size) :
    stepCtx oct' mode c lab (some pc) = stepCtx oct mode c lab (some pc) := by
  obtain ⟨ls, hn, hlen, _⟩ := h
  by_cases hsc : c < pc.startColumn
  · unfold stepCtx
    dsimp only
    rw [if_pos hsc, if_pos hsc]
  · have hmax : max c pc.startColumn = c := by omega
    rw [hmax] at hlen
    by_cases hpa : pc.pointer < a
    · -- the name lies below the hole
      have hn' := nameAt_below hn hbelow hpa
      cases hn' with
      | root hg hp h0 => simp at hlen; omega
      | @label p p' l0 ls0 hg h1 h63 hb hd hop rest =>
        have hq := hop_start_lt hop
        have hs2 : pc.pointer + 1 + l0.length < oct.size := hop_start_size hop
        have hag' : ∀ i, i < a → oct'[i]? = oct[i]? := fun i hi => hag i (by omega) (Or.inl hi)
        have hb' : oct'[pc.pointer]? = some (UInt8.ofNat l0.length) := by rw [hag' _ (by omega)]; exact hb
        have hd' : (oct'.extract (pc.pointer + 1) (pc.pointer + 1 + l0.length)).toList = l0 := by
          rw [extract_congr (a := oct) (b := oct') (fun k hk => hag' k (by omega)) (by omega) (by omega)]
          exact hd
        rw [stepCtx_eval hsc hb h63 hd (hop_move hop) hs2,
          stepCtx_eval hsc hb' h63 hd' (hop_move (hop_agree hop hag')) (by omega)]
    · cases hn with
      | root hg hp h0 => simp at hlen; omega
      | @label p p' l0 ls0 hg h1 h63 hb hd hop rest =>
        have hp2 : a + 2 ≤ pc.pointer := by rcases hG _ hg with h | h <;> omega
        have hq := hop_start_lt hop
        have hs2 : pc.pointer + 1 + l0.length < oct.size := hop_start_size hop
        have hb' : oct'[pc.pointer]? = some (UInt8.ofNat l0.length) := by
          rw [hag _ (by omega) (Or.inr hp2)]; exact hb
        have hd' : (oct'.extract (pc.pointer + 1) (pc.pointer + 1 + l0.length)).toList = l0 := by
          rw [extract_congr_range (x := oct) (y := oct') (fun k hk1 hk2 => hag k (by omega) (Or.inr (by omega)))
            (by omega) (by omega)]
          exact hd
        have hop' := hop_agree_gap hop (by omega) (hG p' (nameAt_start rest).1) hag
        rw [stepCtx_eval hsc hb h63 hd (hop_move hop) hs2,
          stepCtx_eval hsc hb' h63 hd' (hop_move hop') (by omega)]

theorem scan_congr_gap {mode : CMode} {labels : List Label}
    (hbelow : ∀ g, G g → g < a → ∃ ls', NameAt G oct a g ls') (hG : ∀ g, G g → g < a ∨ a + 2 ≤ g)
    (hag : ∀ i, i < cur → (i < a ∨ a + 2 ≤ i) → oct'[i]? = oct[i]?) (hac : a ≤ cur)
    (hsz : oct'.size = oct.size) (rest : List Label) (c : Nat) (hrest : rest = labels.drop c)
    (hc : c ≤ labels.length) (c0 c1 : Option PriorCtx) (h0 : OptOK G oct cur mode labels c c0)
    (h1 : OptOK G oct cur mode labels c c1) :
    scan oct' mode c rest c0 c1 = scan oct mode c rest c0 c1 := by
  induction rest generalizing c c0 c1 with
  | nil => rfl
  | cons lab rest ih =>
    have hlt : c < labels.length := by
      have := congrArg List.length hrest
      simp at this; omega
    have hlab : labels[c]? = some lab := by
      have : (labels.drop c)[0]? = some lab := by rw [← hrest]; rfl
      simpa using this
    obtain ⟨d0, d1⟩ := dedup_ok h0 h1
    obtain ⟨o0, e0, k0⟩ := stepCtx_opt d0 hlt hlab
    obtain ⟨o1, e1, k1⟩ := stepCtx_opt d1 hlt hlab
    have step : ∀ o, OptOK G oct cur mode labels c o → stepCtx oct' mode c lab o = stepCtx oct mode c lab o := by
      intro o ho
      cases o with
      | none => rfl
      | some pc => exact stepCtx_congr_gap (ho pc rfl) hlt hbelow hG hag hac hsz
    have e0' := step _ d0
    have e1' := step _ d1
    rw [e0] at e0'
    rw [e1] at e1'
    simp only [scan, e0, e1, e0', e1']
    exact ih (c + 1) (by rw [← List.drop_drop, ← hrest]; rfl) hlt o0 o1 k0 k1

/-- **the compression scan does not read the reserved RDLENGTH octets either**: agreement below
    the cursor outside a two-octet hole at `a` that no recorded name overlaps is enough -/
theorem compressDecision_congr_gap {mode : CMode} {x y : Option Prior} {n : WName}
    (hx : ∀ p, x = some p → PriorOK G oct cur p) (hy : ∀ p, y = some p → PriorOK G oct cur p)
    (hbelow : ∀ g, G g → g < a → ∃ ls', NameAt G oct a g ls') (hG : ∀ g, G g → g < a ∨ a + 2 ≤ g)
    (hag : ∀ i, i < cur → (i < a ∨ a + 2 ≤ i) → oct'[i]? = oct[i]?) (hac : a ≤ cur)
    (hsz : oct'.size = oct.size) :
    compressDecision oct' mode x y n = compressDecision oct mode x y n := by
  have hl1 : 1 ≤ n.len := by show 1 ≤ n.labels.length + 1; omega
  have bp : ∀ o : Option Prior, (∀ p, o = some p → PriorOK G oct cur p) →
      buildPriorCtxOpt oct' n.len o = buildPriorCtxOpt oct n.len o := by
    intro o ho
    cases o with
    | none => rfl
    | some p =>
      obtain ⟨pls, hn, hlen⟩ := ho p rfl
      simp only [buildPriorCtxOpt, buildPriorCtx]
      rw [skipLabels_congr_gap hn hbelow hG hag hac _ (by omega)]
  unfold compressDecision
  split
  · rfl
  · rw [bp x hx, bp y hy]
    obtain ⟨r0, e0, k0⟩ := buildPriorCtxOpt_ok (mode := mode) (labels := n.labels) hx
    obtain ⟨r1, e1, k1⟩ := buildPriorCtxOpt_ok (mode := mode) (labels := n.labels) hy
    have hl : n.len = n.labels.length + 1 := rfl
    rw [hl, e0, e1]
    simp only []
    rw [scan_congr_gap hbelow hG hag hac hsz n.labels 0 (by simp) (by omega) r0 r1 k0 k1]

end gap

/-! ### the header calls do not depend on scratch space -/

/-- a header octet rewritten in two writers that agree below the cursor (which lies above the
    header): same outcome, and the two writers agree below the cursor again -/
theorem scratch_setHdr (i : Nat) (f : UInt8 → UInt8) (s t : State) (hi : i < s.cursor) (h : Same s t) :
    (setHdr i f t).1 = (setHdr i f s).1 ∧ Same (setHdr i f s).2 (setHdr i f t).2 ∧
      ((setHdr i f s).2.hv = s.hv ∧ (setHdr i f t).2.hv = t.hv) := by
  unfold setHdr
  by_cases hs : i < s.octets.size
  · have ht : i < t.octets.size := by rw [h.size]; exact hs
    rw [dif_pos hs, dif_pos ht]
    have hb : t.octets[i] = s.octets[i] := by
      have := h.pre i hi
      rw [Array.getElem?_eq_getElem ht, Array.getElem?_eq_getElem hs] at this
      exact Option.some.inj this
    refine ⟨rfl, ?_, rfl, rfl⟩
    rw [hb]
    refine ⟨by simp [h.size], fun j hj => ?_, h.cursor, h.limit, h.available, h.rrStart, h.sect, h.qd, h.an, h.ns,
      h.ar, h.qname, h.owner, h.inRdata, h.mode, h.edns, h.tsig, h.gLabels, h.gPtrs, h.gCtx⟩
    show (t.octets.set i _ ht)[j]? = (s.octets.set i _ hs)[j]?
    rw [Array.getElem?_set, Array.getElem?_set]
    by_cases hij : i = j
    · simp [hij]
    · simp only [hij, if_false]
      exact h.pre j hj
  · have ht : ¬ i < t.octets.size := by rw [h.size]; exact hs
    rw [dif_neg hs, dif_neg ht]
    exact ⟨rfl, h, rfl, rfl⟩

/-- `ScratchIndep` for `set_aa` (the cursor of a writer is at least 12) -/
theorem scratch_setAa (b : Bool) (s t : State) (h12 : 12 ≤ s.cursor) (h : Same s t) (hhv : s.hv = t.hv) :
    (setAa b t).1 = (setAa b s).1 ∧ Same (setAa b s).2 (setAa b t).2 ∧ (setAa b s).2.hv = (setAa b t).2.hv := by
  obtain ⟨h1, h2, h3, h4⟩ := scratch_setHdr Gen.AA_BYTE
    (fun x => if b then x ||| UInt8.ofNat Gen.AA_MASK else x &&& ~~~ (UInt8.ofNat Gen.AA_MASK)) s t
    (by have : Gen.AA_BYTE < 12 := by decide
        omega) h
  exact ⟨h1, h2, h3.trans (hhv.trans h4.symm)⟩

/-- `ScratchIndep` for `set_rcode` -/
theorem scratch_setRcode (v : Nat) (s t : State) (h12 : 12 ≤ s.cursor) (h : Same s t) (hhv : s.hv = t.hv) :
    (setRcode v t).1 = (setRcode v s).1 ∧ Same (setRcode v s).2 (setRcode v t).2 ∧
      (setRcode v s).2.hv = (setRcode v t).2.hv := by
  obtain ⟨h1, h2, h3, h4⟩ := scratch_setHdr Gen.RCODE_BYTE
    (fun b => (b &&& ~~~ (UInt8.ofNat Gen.RCODE_MASK)) ||| UInt8.ofNat v) s t
    (by have : Gen.RCODE_BYTE < 12 := by decide
        omega) h
  unfold setRcode
  simp only [M.bind_apply, M.modify_apply]
  cases hs : setHdr Gen.RCODE_BYTE (fun b => (b &&& ~~~ (UInt8.ofNat Gen.RCODE_MASK)) ||| UInt8.ofNat v) s with
  | mk r1 s1 =>
    cases ht : setHdr Gen.RCODE_BYTE (fun b => (b &&& ~~~ (UInt8.ofNat Gen.RCODE_MASK)) ||| UInt8.ofNat v) t with
    | mk r2 t1 =>
      rw [hs] at h1 h2 h3
      rw [ht] at h1 h2 h4
      simp only at h1 h2 h3 h4
      subst h1
      cases r2 with
      | err e => exact ⟨rfl, h2, h3.trans (hhv.trans h4.symm)⟩
      | panic => exact ⟨rfl, h2, h3.trans (hhv.trans h4.symm)⟩
      | ok u =>
        have he := h2.edns
        cases hes : s1.edns with
        | none =>
          have het : t1.edns = none := by rw [he, hes]
          simp only [hes, het]
          exact ⟨by trivial, h2, h3.trans (hhv.trans h4.symm)⟩
        | some e =>
          have het : t1.edns = some e := by rw [he, hes]
          simp only [hes, het]
          exact ⟨by trivial, ⟨h2.size, h2.pre, h2.cursor, h2.limit, h2.available, h2.rrStart, h2.sect, h2.qd, h2.an,
            h2.ns, h2.ar, h2.qname, h2.owner, h2.inRdata, h2.mode, rfl, h2.tsig, h2.gLabels, h2.gPtrs, h2.gCtx⟩,
            h3.trans (hhv.trans h4.symm)⟩

end QV.Writer
