/-
  QV.Proofs.ScanRefine — the scan phase of the server model (`QV.Server.scanAr`,
  `handleWithContext`, `handleMessage`) refines the specification's scan (`QV.Spec.Server.scanAr`,
  `specScanWith`): same decision at every record, and the writer state that results is an explicit
  function of the decision.
-/
import QV.Proofs.ScanOpt
import QV.Proofs.WriterView
import QV.Spec.ServerTsig

/-! ### the request handler's control flow, cut into named pieces

  `handle_message_with_context` is one long function; the proofs below work on three pieces of it.
  These are *proof-side* definitions: `handleWithContext_split` shows that the model's function is
  literally their composition, so nothing about the model changes. -/
namespace QV.Server
open QV QV.Writer

/-- `context.response.add_question(&question)`; failure ⇒ SERVFAIL and stop (`false`) -/
def addQuestionOrServfail (question : Option (WName × Nat × Nat)) : M Bool :=
  match question with
  | some (qn, qt, qc) => fun s =>
    match addQuestion qn qt qc s with
    | (.ok (), s') => (.ok true, s')
    | (.err _, s') => (do setRcode (RC "SERVFAIL"); pure false) s'
    | (.panic, s') => (.panic, s')
  | none => pure true

/-- `handle_message_with_context` from `context.received.mark()` on: the scan of the three record
    sections, the end-of-message check, the opcode dispatch. Returns `send_response`. -/
def scanAndDispatch (cfg : Cfg) (tr : Transport) (now : Nat) (an ns ar opcode : Nat)
    (question : Option (WName × Nat × Nat)) (r1 : Reader.Reader) : M Bool :=
  let r2 := Reader.setMark r1
  match scanAnNs (an + ns) r2 with
  | none => do setRcode (RC "FORMERR"); pure true
  | some r3 => do
    let st ← scanAr cfg tr now ar ar 0 { r := r3 }
    match st with
    | none => pure true
    | some st' =>
      if !Reader.atEom st'.r then do setRcode (RC "FORMERR"); pure true
      else do
        if opcode = 0 then handleQuery cfg question tr else setRcode (RC "NOTIMP")
        pure true

/-- `handle_message_with_context`, written with the two pieces above -/
def handleWithContext' (cfg : Cfg) (tr : Transport) (now : Nat) (r0 : Reader.Reader) : M Bool := fun s =>
  match Reader.qdcount r0, Reader.ancount r0, Reader.nscount r0, Reader.arcount r0, Reader.opcode r0 with
  | .ok qd, .ok an, .ok ns, .ok ar, .ok opcode =>
    let qres : Option (Option (WName × Nat × Nat) × Reader.Reader) × Bool × Option Nat :=
      if qd = 0 then (some (none, r0), true, none)
      else if qd = 1 then
        match Reader.readQuestion r0 with
        | (.ok q, r1) =>
          match WName.parse q.qname with
          | some (qn, []) => (some (some (qn, q.qtype, q.qclass), r1), true, none)
          | _ => (none, true, some 255)
        | (.err _, _) => (none, true, some (RC "FORMERR"))
        | (.panic, _) => (none, true, some 255)
      else (none, false, none)
    match qres with
    | (none, false, _) => (.ok false, s)
    | (none, true, some 255) => (.panic, s)
    | (none, true, rc) => (do setRcode (rc.getD 0); pure true) s
    | (some (question, r1), _, _) =>
      (do
        let okQ ← addQuestionOrServfail question
        if !okQ then pure true
        else scanAndDispatch cfg tr now an ns ar opcode question r1) s
  | _, _, _, _, _ => (.panic, s)

/-- the model's `handleWithContext` *is* this composition -/
theorem handleWithContext_split (cfg : Cfg) (tr : Transport) (now : Nat) (r0 : Reader.Reader) :
    handleWithContext cfg tr now r0 = handleWithContext' cfg tr now r0 := by
  funext s
  unfold handleWithContext handleWithContext' scanAndDispatch addQuestionOrServfail
  rfl

/-- the TSIG branch after `ReadTsigRr::try_from` succeeded: the clock, then `tsigProcess` -/
def tsigAfter (cfg : Cfg) (now : Nat) (t : Tsig.ReadTsigRr) (mw : Bytes) (r' : Reader.Reader) :
    M (Option Reader.Reader) := fun s =>
  match Tsig.TimeSigned.tryFromUnix now with
  | none => (.panic, s)
  | some nowT => tsigProcess Tsig.realHmac cfg.keys nowT t mw.toList r' s

end QV.Server

namespace QV.ServerScan
open QV QV.Wire QV.Reader QV.Writer

/-! ### what the syntactic checks of the TSIG branch need from `Rdata::read` (type TSIG) -/

/-- `Rdata::read` for TSIG accepts exactly the RDATA layout of RFC 8945 §4.2 (`tsigRdataOk`), never
    panics on a delimited record, and what it accepts starts with an uncompressed name followed by
    at least ten octets (so `ReadTsigRr::try_from`'s `expect`s cannot fail). Proved below
    (`tsigFacts`). -/
structure TsigFacts : Prop where
  exact : ∀ (c : Nat) (msg : Bytes) (cur len : Nat), cur + len ≤ msg.size → msg.size ≤ Rdata.USIZE_MAX →
    len ≤ 65535 →
    if Spec.Server.tsigRdataOk msg cur (cur + len) then
      ∃ rd, Server.rdRead c 250 msg cur len = .ok rd ∧
        ∃ p, parseUncompressed rd.toArray false = .ok p ∧ p.len + 10 ≤ rd.length ∧
          -- the RDATA is the slice of the message, and its length fields add up (RFC 8945 §4.2)
          rd = (msg.extract cur (cur + len)).toList ∧
          p.len + be16 (msg.extract cur (cur + len)) (p.len + 8) +
            be16 (msg.extract cur (cur + len)) (p.len + be16 (msg.extract cur (cur + len)) (p.len + 8) + 14) + 16 = len
    else ∃ e, Server.rdRead c 250 msg cur len = .err e

/-! ### writer states reached by the scan -/

/-- the writer after the scan has processed an OPT record (`e`): `set_edns`, and over UDP
    `set_limit` to the negotiated size `lim` -/
def arSt (s1 : State) (tr : Server.Transport) (payload : Nat) (e : Bool) (lim : Nat) : State :=
  if e then
    match tr with
    | .udp => stLimit lim (stEdns payload s1)
    | .tcp => stEdns payload s1
  else s1

theorem arSt_size (s1 : State) (tr : Server.Transport) (p : Nat) (e : Bool) (l : Nat) :
    (arSt s1 tr p e l).octets.size = s1.octets.size := by
  cases e <;> cases tr <;> rfl

theorem arSt_edns_true (s1 : State) (tr : Server.Transport) (p l : Nat) :
    (arSt s1 tr p true l).edns = some ⟨p, 0⟩ := by
  cases tr <;> rfl

theorem stLimit_self (s : State) : stLimit s.limit s = s := by
  cases s; simp [stLimit]

/-- the response-size limit `handle_message` starts with -/
def lim0 (tr : Server.Transport) : Nat := match tr with | .tcp => 65535 | .udp => 512

/-- the base state: the writer as `handle_message_with_context` finds it after the question -/
structure Base (s1 : State) (tr : Server.Transport) (payload : Nat) : Prop where
  edns : s1.edns = none
  size3 : 3 < s1.octets.size
  room : s1.cursor + 11 ≤ s1.available
  ar : s1.arcount + 1 ≤ 65535
  lim : s1.limit = lim0 tr
  buf : tr = .udp → 512 ≤ s1.octets.size ∧ payload ≤ s1.octets.size
  avail : s1.available = s1.limit
  sizeL : s1.limit ≤ s1.octets.size
  tsig : s1.tsig = none

theorem do_formErr {α} (s : State) (h : 3 < s.octets.size) :
    (do setRcode (Server.RC "FORMERR"); pure none : M (Option α)) s = (.ok none, stRcode 1 s) := by
  rw [RC_FORMERR, bind_ok (setRcode_eq 1 s h)]; rfl

theorem do_xrcode {α} (raw : Nat) (e : Edns) (s : State) (he : s.edns = some e) (hr : raw ≤ 4095)
    (h : 3 < s.octets.size) :
    (do Writer.unwrap (setExtendedRcode raw); pure none : M (Option α)) s = (.ok none, stXRcode raw e s) := by
  have : Writer.unwrap (setExtendedRcode raw) s = (.ok (), stXRcode raw e s) := by
    unfold Writer.unwrap; rw [setExtendedRcode_eq raw e s he hr h]
  rw [bind_ok this]; rfl

/-- FORMERR through `set_extended_rcode` on a fresh EDNS response is FORMERR through `set_rcode` -/
theorem stXRcode_one (p : Nat) (s : State) (he : s.edns = some ⟨p, 0⟩) :
    stXRcode 1 ⟨p, 0⟩ s = stRcode 1 s := by
  unfold stXRcode stRcode
  have e1 : (stHdr 3 (fun b => b &&& ~~~15 ||| UInt8.ofNat 1) s).edns = some ⟨p, 0⟩ := he
  simp only [e1]
  have : (UInt8.ofNat (1 % 256) &&& 15 : UInt8) = UInt8.ofNat 1 := by decide
  simp only [this]

/-- how the TSIG branch ends the scan: verified ⇒ the scan is over (TSIG is the last record) -/
def tsigCont (out : Out WriterErr (Option Reader) × State) (e : Bool) : Out WriterErr (Option Server.ScanSt) × State :=
  match out with
  | (.ok (some r'), s') => (.ok (some ⟨r', e⟩), s')
  | (.ok none, s') => (.ok none, s')
  | (.err x, s') => (.err x, s')
  | (.panic, s') => (.panic, s')

/-- the RDATA octets of the record delimited by `d` -/
def tsigRd (req : Bytes) (d : Spec.Server.Delim) : List UInt8 := (req.extract (d.ownerEnd + 10) d.next).toList

/-- **the TSIG record the scan reached, as the model reads it**: `mw` is the request up to the
    record, `r'` the reader after it, and `t` is `ReadTsigRr::try_from` of the record at `d`: the
    decoded owner and the algorithm name in lower case, the MAC size field, the RDATA slice -/
def TsigView (req : Bytes) (d : Spec.Server.Delim) (t : Tsig.ReadTsigRr) (mw : Bytes) (r' : Reader) : Prop :=
  mw = req.extract 0 d.pos ∧ r'.cursor = d.next ∧
  ∃ owner nl fl p, Spec.specDecodeName req d.pos = some (owner, nl, fl) ∧
    parseUncompressed (tsigRd req d).toArray false = .ok p ∧ p.len + 10 ≤ (tsigRd req d).length ∧
    p.len + be16 (req.extract (d.ownerEnd + 10) d.next) (p.len + 8) +
      be16 (req.extract (d.ownerEnd + 10) d.next)
        (p.len + be16 (req.extract (d.ownerEnd + 10) d.next) (p.len + 8) + 14) + 16 = d.rdlen ∧
    t = ⟨Tsig.lowerName owner, Tsig.lowerName p.wire, (Tsig.rd16 (tsigRd req d) (p.len + 8)).toNat, tsigRd req d⟩

/-- what the model's additional-section scan must return for each outcome of the spec's scan -/
def ArPost (cfg : Server.Cfg) (tr : Server.Transport) (now : Nat) (req : Bytes) (s1 : State) (r : Reader) (n : Nat)
    (res : Spec.Server.ArEnd × Bool × Nat) (out : Out WriterErr (Option Server.ScanSt) × State) : Prop :=
  match res with
  | (.done pos, e', l') =>
    out = (.ok (some ⟨{ r with cursor := pos }, e'⟩), arSt s1 tr cfg.payload e' l') ∧ pos ≤ req.size
  | (.formErr, e', l') => out = (.ok none, stRcode 1 (arSt s1 tr cfg.payload e' l'))
  | (.badVers, e', l') => out = (.ok none, stXRcode 16 ⟨cfg.payload, 0⟩ (arSt s1 tr cfg.payload e' l'))
  | (.tsig, e', l') => ∃ (t : Tsig.ReadTsigRr) (mw : Bytes) (r' : Reader),
      r'.octets = req ∧ r'.cursor ≤ req.size ∧ r'.mark = r.mark ∧
      out = tsigCont (Server.tsigAfter cfg now t mw r' (arSt s1 tr cfg.payload e' l')) e' ∧
      ∃ d, Spec.ServerTsig.walk req n r.cursor = some d ∧ TsigView req d t mw r'


/-- one record further from the end: the scan's post-condition at the next record is the
    post-condition at this one -/
theorem arPost_shift {cfg : Server.Cfg} {tr : Server.Transport} {now : Nat} {s1 : State} {r : Reader}
    {d : Spec.Server.Delim} {n : Nat} {res : Spec.Server.ArEnd × Bool × Nat}
    {out : Out WriterErr (Option Server.ScanSt) × State}
    (hd : Spec.Server.specDelimit r.octets r.cursor = some d)
    (h : ArPost cfg tr now r.octets s1 { r with cursor := d.next } n res out) :
    ArPost cfg tr now r.octets s1 r (n + 1) res out := by
  obtain ⟨en, e', l'⟩ := res
  cases en with
  | done pos => exact h
  | formErr => exact h
  | badVers => exact h
  | tsig =>
    simp only [ArPost] at h ⊢
    obtain ⟨t, mw, r', h1, h2, h3, h4, dT, hw, hview⟩ := h
    refine ⟨t, mw, r', h1, h2, h3, h4, dT, ?_, hview⟩
    simp only [Spec.ServerTsig.walk, hd]
    by_cases hn : n = 0
    · subst hn; simp [Spec.ServerTsig.walk] at hw
    · rw [if_neg hn]; exact hw

/-! ### `PeekRr::parse` against the spec -/

/-- parsing the record that `peek_rr` delimited: the owner decodes per RFC 1035 §4.1.4 and the
    RDATA reader accepts — or it fails, never panicking, leaving the reader alone -/
theorem parse_spec (r : Reader) (d : Spec.Server.Delim)
    (hpos : d.pos = r.cursor) (hnx : d.next = d.ownerEnd + 10 + d.rdlen) (hsz : d.next ≤ r.octets.size)
    (hty : d.ty = be16 r.octets d.ownerEnd) (hcl : d.cls = be16 r.octets (d.ownerEnd + 2))
    (httl : d.rawTtl = be32 r.octets (d.ownerEnd + 4)) (hrl : d.rdlen = be16 r.octets (d.ownerEnd + 8)) :
    match Spec.specDecodeName r.octets r.cursor with
    | none => ∃ e, (⟨r, d.ownerEnd, d.next⟩ : PeekRr).parse Server.rdRead = (.err e, r)
    | some (owner, _, _) =>
      (⟨r, d.ownerEnd, d.next⟩ : PeekRr).parse Server.rdRead =
        match Server.rdRead d.cls d.ty r.octets (d.ownerEnd + 10) d.rdlen with
        | .panic => (.panic, r)
        | .err e => (.err (.InvalidRdata e), r)
        | .ok rd => (.ok ⟨owner, d.ty, d.cls, Reader.ttlFrom d.rawTtl, rd⟩, { r with cursor := d.next }) := by
  rw [Spec.specDecodeName_eq_parse]
  obtain ⟨a1, a2, a3, a4, a5⟩ := peek_accessors r d.ownerEnd d.next (by omega) hsz
  unfold PeekRr.parse PeekRr.owner
  cases hp : parseCompressed r.octets r.cursor with
  | ok p =>
    simp only [a1, a2, a4, a5, ← hty, ← hcl, ← httl, ← hrl]
    rfl
  | err e => exact ⟨_, rfl⟩
  | panic => exact absurd hp (C14.C14_no_panic _ _)

/-- the syntactic checks of the TSIG branch (`handle_message_with_context`, TSIG arm up to
    `ReadTsigRr::try_from`): the record decodes, its RDATA has the RFC 8945 §4.2 layout, class ANY,
    raw TTL 0 — otherwise FORMERR; never a panic -/
theorem handleTsig_spec (cfg : Server.Cfg) (now : Nat) (r : Reader) (hi : Inv r) (d : Spec.Server.Delim)
    (hpos : d.pos = r.cursor) (hnx : d.next = d.ownerEnd + 10 + d.rdlen) (hsz : d.next ≤ r.octets.size)
    (hty : d.ty = be16 r.octets d.ownerEnd) (hcl : d.cls = be16 r.octets (d.ownerEnd + 2))
    (httl : d.rawTtl = be32 r.octets (d.ownerEnd + 4)) (hrl : d.rdlen = be16 r.octets (d.ownerEnd + 8))
    (ht250 : d.ty = 250) (hreq : r.octets.size ≤ Rdata.USIZE_MAX) (htf : TsigFacts)
    (S : State) (h3 : 3 < S.octets.size) :
    if (Spec.specDecodeName r.octets r.cursor).isSome ∧
        Spec.Server.tsigRdataOk r.octets (d.ownerEnd + 10) d.next = true ∧ d.cls = 255 ∧ d.rawTtl = 0 then
      ∃ (t : Tsig.ReadTsigRr) (mw : Bytes),
        Server.handleTsig cfg now ⟨r, d.ownerEnd, d.next⟩ d.rawTtl S =
          Server.tsigAfter cfg now t mw { r with cursor := d.next } S ∧
        TsigView r.octets d t mw { r with cursor := d.next }
    else Server.handleTsig cfg now ⟨r, d.ownerEnd, d.next⟩ d.rawTtl S = (.ok none, stRcode 1 S) := by
  have hps := parse_spec r d hpos hnx hsz hty hcl httl hrl
  have hrdl : d.rdlen ≤ 65535 := by
    rw [hrl]; unfold be16
    have := (r.octets.getD (d.ownerEnd + 8) 0).toNat_lt
    have := (r.octets.getD (d.ownerEnd + 8 + 1) 0).toNat_lt
    omega
  have hmr : (⟨r, d.ownerEnd, d.next⟩ : PeekRr).messageToRr = .ok (r.octets.extract 0 r.cursor) := by
    simp [PeekRr.messageToRr, messageToCursor, hi.2]
  unfold Server.handleTsig
  rw [hmr]
  simp only
  cases hdn : Spec.specDecodeName r.octets r.cursor with
  | none =>
    rw [hdn] at hps
    obtain ⟨x, hx⟩ := hps
    simp only [Option.isSome_none, Bool.false_eq_true, false_and, if_false, hx]
    exact do_formErr _ h3
  | some v =>
    obtain ⟨owner, nl, fl⟩ := v
    rw [hdn] at hps
    simp only at hps
    have hro := htf.exact d.cls r.octets (d.ownerEnd + 10) d.rdlen (by omega) hreq hrdl
    rw [show d.ownerEnd + 10 + d.rdlen = d.next by omega] at hro
    rw [ht250] at hps
    simp only [Option.isSome_some, true_and]
    by_cases hok : Spec.Server.tsigRdataOk r.octets (d.ownerEnd + 10) d.next = true
    · simp only [hok, if_true] at hro
      obtain ⟨rd, hrd, p, hpu, hlen, hslice, hlay⟩ := hro
      rw [hrd] at hps
      simp only [hps, hok, true_and]
      by_cases hraw : d.rawTtl = 0
      · simp only [hraw, ne_eq, not_true_eq_false, if_false, and_true]
        unfold Tsig.ReadTsigRr.tryFrom
        have c1 : Gen.TYPE_TSIG = 250 := rfl
        have c2 : Gen.QCLASS_ANY = 255 := rfl
        have c3 : Reader.ttlFrom 0 = 0 := rfl
        simp only [c1, c2, c3, ne_eq, not_true_eq_false, if_false, or_false]
        by_cases hc : d.cls = 255
        · simp only [hc, not_true_eq_false, if_false, if_true, hpu, show ¬ rd.length < p.len + 10 by omega]
          refine ⟨_, _, rfl, hpos ▸ rfl, rfl, owner, nl, fl, p, hpos ▸ hdn, ?_, ?_, ?_, ?_⟩
          · show parseUncompressed (r.octets.extract (d.ownerEnd + 10) d.next).toList.toArray false = _
            rw [← hslice]; exact hpu
          · show p.len + 10 ≤ (r.octets.extract (d.ownerEnd + 10) d.next).toList.length
            rw [← hslice]; exact hlen
          · exact hlay
          · simp only [tsigRd, ← hslice]
        · simp only [hc, not_false_eq_true, if_true, if_false]
          exact do_formErr _ h3
      · simp only [hraw, ne_eq, not_false_eq_true, if_true, and_false, if_false]
        exact do_formErr _ h3
    · simp only [hok, if_false, Bool.false_eq_true] at hro
      obtain ⟨x, hx⟩ := hro
      rw [hx] at hps
      simp only [hps, hok, false_and, if_false]
      exact do_formErr _ h3

/-! ### the additional section -/

theorem scanAr_spec (cfg : Server.Cfg) (tr : Server.Transport) (now : Nat) (req : Bytes) (arcount : Nat)
    (s1 : State) (hb : Base s1 tr cfg.payload) (hreq : req.size ≤ Rdata.USIZE_MAX) (htf : TsigFacts) :
    ∀ (n index : Nat) (r : Reader) (e : Bool) (lim : Nat),
      index + n = arcount → Inv r → r.octets = req → (e = false → lim = 512) →
      ArPost cfg tr now req s1 r n
        (Spec.Server.scanAr req cfg.payload n arcount r.cursor e lim)
        (Server.scanAr cfg tr now arcount n index ⟨r, e⟩ (arSt s1 tr cfg.payload e lim)) := by
  intro n
  induction n with
  | zero =>
    intro index r e lim hidx hi ho hl
    simp only [Spec.Server.scanAr, Server.scanAr, ArPost]
    subst ho
    exact ⟨rfl, hi.2⟩
  | succ n ih =>
    intro index r e lim hidx hi ho hl
    subst ho
    have h3 : 3 < (arSt s1 tr cfg.payload e lim).octets.size := by rw [arSt_size]; exact hb.size3
    simp only [Spec.Server.scanAr, Server.scanAr]
    have hp := peekRr_spec r hi
    cases hd : Spec.Server.specDelimit r.octets r.cursor with
    | none =>
      rw [hd] at hp
      obtain ⟨x, he⟩ := hp
      simp only [he, ArPost]
      exact do_formErr _ h3
    | some d =>
      rw [hd] at hp
      obtain ⟨hpk, hpos, hle, hnx, hsz, hty, hcl, httl, hrl⟩ := hp
      obtain ⟨a1, a2, a3, a4, a5⟩ := peek_accessors r d.ownerEnd d.next (by omega) hsz
      have hps := parse_spec r d hpos hnx hsz hty hcl httl hrl
      have hrdl : d.rdlen ≤ 65535 := by
        rw [hrl]; unfold be16
        have := (r.octets.getD (d.ownerEnd + 8) 0).toNat_lt
        have := (r.octets.getD (d.ownerEnd + 8 + 1) 0).toNat_lt
        omega
      have hi' : Inv ({ r with cursor := d.next } : Reader) := ⟨hi.1, hsz⟩
      simp only [hpk, a1, a3, T_OPT, T_TSIG, ← hty, ← httl]
      by_cases ht41 : d.ty = 41
      · -- an OPT record
        simp only [ht41, if_true]
        cases e with
        | true =>
          simp only [if_true, ArPost]
          exact do_formErr _ h3
        | false =>
          have hlim : lim = 512 := hl rfl
          subst hlim
          simp only [Bool.false_eq_true, if_false]
          have hst : arSt s1 tr cfg.payload false 512 = s1 := rfl
          rw [hst, setEdns_eq cfg.payload s1 hb.edns hb.room hb.ar]
          simp only
          -- the state when the OPT cannot be parsed: EDNS response, limit unchanged
          have hE0 : arSt s1 tr cfg.payload true 512 = stEdns cfg.payload s1 := by
            cases htr : tr with
            | udp =>
              have : (stEdns cfg.payload s1).limit = 512 := by
                show s1.limit = 512; rw [hb.lim, htr]; rfl
              show stLimit 512 (stEdns cfg.payload s1) = _
              rw [← this, stLimit_self]
            | tcp => rfl
          have h3' : 3 < (stEdns cfg.payload s1).octets.size := hb.size3
          cases hdn : Spec.specDecodeName r.octets r.cursor with
          | none =>
            rw [hdn] at hps
            obtain ⟨x, hx⟩ := hps
            simp only [hx, ArPost, hE0]
            exact do_formErr _ h3'
          | some v =>
            obtain ⟨owner, nl, fl⟩ := v
            rw [hdn] at hps
            simp only at hps
            have hro := rdRead_opt d.cls r.octets (d.ownerEnd + 10) d.rdlen (by omega) hreq hrdl
            rw [ht41] at hps
            rw [show d.ownerEnd + 10 + d.rdlen = d.next by omega] at hro
            by_cases hok : Spec.Server.optRdataOk r.octets (d.rdlen + 1) (d.ownerEnd + 10) d.next = true
            · simp only [hok, if_true] at hro
              obtain ⟨rd, hrd⟩ := hro
              rw [hrd] at hps
              simp only [hps, hok, Bool.not_true, Bool.false_eq_true, if_false]
              -- the limit
              have hlimK : ∀ {β : Type} (k : M β),
                  (if tr = Server.Transport.udp then (do setLimit (max 512 (min d.cls cfg.payload)); k) else k)
                    (stEdns cfg.payload s1) =
                  k (arSt s1 tr cfg.payload true (max 512 (min d.cls cfg.payload))) := by
                intro β k
                cases htr : tr with
                | udp =>
                  simp only [if_true]
                  obtain ⟨b1, b2⟩ := hb.buf htr
                  rw [bind_ok (setLimit_up _ _ (by show s1.limit ≤ _; rw [hb.lim, htr]; exact Nat.le_max_left _ _)
                    (by show _ ≤ s1.octets.size
                        have : min d.cls cfg.payload ≤ cfg.payload := Nat.min_le_right _ _
                        omega))]
                  rfl
                | tcp =>
                  simp only [reduceCtorEq, if_false]
                  rfl
              have hS3 : 3 < (arSt s1 tr cfg.payload true (max 512 (min d.cls cfg.payload))).octets.size := by
                rw [arSt_size]; exact hb.size3
              have hSe := arSt_edns_true s1 tr cfg.payload (max 512 (min d.cls cfg.payload))
              by_cases hown : owner = [0]
              · subst hown
                by_cases hver : d.rawTtl / 65536 % 256 = 0
                · -- a good OPT: the scan goes on
                  simp only [ne_eq, not_true_eq_false, if_false, hver]
                  rw [hlimK]
                  exact arPost_shift hd (ih (index + 1) { r with cursor := d.next } true _ (by omega) hi' rfl (by intro h; cases h))
                · simp only [ne_eq, not_true_eq_false, if_false, hver, not_false_eq_true, if_true, ArPost]
                  rw [hlimK, XRC_BADVERS]
                  exact do_xrcode 16 _ _ hSe (by omega) hS3
              · simp only [ne_eq, hown, not_false_eq_true, if_true, ArPost]
                rw [hlimK, XRC_FORMERR, ← stXRcode_one cfg.payload _ hSe]
                exact do_xrcode 1 _ _ hSe (by omega) hS3
            · simp only [hok, if_false, Bool.false_eq_true] at hro
              obtain ⟨x, hx⟩ := hro
              rw [hx] at hps
              have hok' : Spec.Server.optRdataOk r.octets (d.rdlen + 1) (d.ownerEnd + 10) d.next = false := by
                simpa using hok
              simp only [hps, hok', Bool.not_false, if_true, ArPost, hE0]
              exact do_formErr _ h3'
      · simp only [ht41, if_false]
        by_cases ht250 : d.ty = 250
        · -- a TSIG record
          simp only [ht250, if_true]
          by_cases hn : n = 0
          · subst hn
            have hidx' : index = arcount - 1 := by omega
            simp only [ne_eq, not_true_eq_false, if_false, hidx']
            have hts := handleTsig_spec cfg now r hi d hpos hnx hsz hty hcl httl hrl ht250 hreq htf
              (arSt s1 tr cfg.payload e lim) h3
            by_cases hall : (Spec.specDecodeName r.octets r.cursor).isSome ∧
                Spec.Server.tsigRdataOk r.octets (d.ownerEnd + 10) d.next = true ∧ d.cls = 255 ∧ d.rawTtl = 0
            · rw [if_pos hall] at hts
              obtain ⟨t, mw, hpt, hview⟩ := hts
              obtain ⟨h1, h2, h4, h5⟩ := hall
              obtain ⟨v, hv⟩ := Option.isSome_iff_exists.mp h1
              rw [hpt]
              simp only [hv, h2, Bool.not_true, Bool.false_eq_true, if_false, h4, h5, not_true_eq_false, or_self,
                ArPost]
              refine ⟨t, mw, { r with cursor := d.next }, rfl, hsz, rfl, ?_, d, ?_, hview⟩
              · generalize Server.tsigAfter cfg now t mw { r with cursor := d.next }
                  (arSt s1 tr cfg.payload e lim) = X
                rcases X with ⟨(_ | _ | _), s'⟩
                · rename_i a; cases a <;> rfl
                · rfl
                · rfl
              · simp [Spec.ServerTsig.walk, hd]
            · rw [if_neg hall] at hts
              rw [hts]
              simp only [ArPost]
              cases hdn : Spec.specDecodeName r.octets r.cursor with
              | none => rfl
              | some v =>
                simp only
                by_cases hok : Spec.Server.tsigRdataOk r.octets (d.ownerEnd + 10) d.next = true
                · simp only [hok, Bool.not_true, Bool.false_eq_true, if_false]
                  have : ¬ (d.cls = 255 ∧ d.rawTtl = 0) := by
                    intro hh; exact hall ⟨by rw [hdn]; rfl, hok, hh.1, hh.2⟩
                  have : ¬ d.cls = 255 ∨ ¬ d.rawTtl = 0 := by
                    by_cases h1 : d.cls = 255
                    · right; intro h2; exact this ⟨h1, h2⟩
                    · left; exact h1
                  simp only [this, if_true]
                · have hok' : Spec.Server.tsigRdataOk r.octets (d.ownerEnd + 10) d.next = false := by
                    simpa using hok
                  simp only [hok', Bool.not_false, if_true]
          · have hidx' : index ≠ arcount - 1 := by omega
            simp only [ne_eq, hn, not_false_eq_true, if_true, hidx', ArPost]
            exact do_formErr _ h3
        · -- any other record is skipped
          simp only [ht250, if_false]
          exact arPost_shift hd (ih (index + 1) { r with cursor := d.next } e lim (by omega) hi' rfl hl)


/-! ### `handle_query` up to the catalog dispatch -/

/-- the catalog lookup as the spec's scan sees it: the kind of the entry `Catalog::lookup` returns
    for the (well-formed) QNAME and the QCLASS -/
def catKind (cfg : Server.Cfg) (qname : List UInt8) (qclass : Nat) : Option Spec.Server.ZoneKind :=
  match WName.parse qname with
  | some (qn, _) =>
    (Catalog.lookup (Server.mkCatalog cfg.zones) qn.labels qclass).map (fun e =>
      match e.kind with
      | .Loaded => Spec.Server.ZoneKind.loaded
      | .NotYetLoaded => .notYetLoaded
      | .FailedToLoad => .failedToLoad)
  | none => none

theorem do_rcode (rc : Nat) (s : State) (h : 3 < s.octets.size) : setRcode rc s = (.ok (), stRcode rc s) :=
  setRcode_eq rc s h

theorem handleQuery_spec (cfg : Server.Cfg) (w : List UInt8) (qn : WName) (qt qc : Nat)
    (hqn : WName.parse w = some (qn, [])) (tr : Server.Transport) (S : State) (h3 : 3 < S.octets.size) :
    if 251 ≤ qt ∧ qt ≤ 254 then Server.handleQuery cfg (some (qn, qt, qc)) tr S = (.ok (), stRcode 4 S)
    else if qc = 255 then Server.handleQuery cfg (some (qn, qt, qc)) tr S = (.ok (), stRcode 4 S)
    else match catKind cfg w qc with
      | none => Server.handleQuery cfg (some (qn, qt, qc)) tr S = (.ok (), stRcode 5 S)
      | some .loaded => True
      | some _ => Server.handleQuery cfg (some (qn, qt, qc)) tr S = (.ok (), stRcode 2 S) := by
  unfold Server.handleQuery
  simp only [QT_IXFR, QT_AXFR, QT_MAILB, QT_MAILA, QC_ANY_eq, RC_NOTIMP, RC_SERVFAIL, RC_REFUSED]
  have hm : (qt = 251 ∨ qt = 252 ∨ qt = 253 ∨ qt = 254) ↔ (251 ≤ qt ∧ qt ≤ 254) := by omega
  simp only [hm]
  by_cases h1 : 251 ≤ qt ∧ qt ≤ 254
  · simp only [h1, and_self, if_true]
    exact do_rcode 4 S h3
  · simp only [h1, if_false]
    by_cases h2 : qc = 255
    · simp only [h2, if_true]
      exact do_rcode 4 S h3
    · simp only [h2, if_false]
      unfold catKind
      rw [hqn]
      simp only
      cases hl : Catalog.lookup (Server.mkCatalog cfg.zones) qn.labels qc with
      | none => simp only [Option.map_none]; exact do_rcode 5 S h3
      | some e =>
        simp only [Option.map_some]
        cases hk : e.kind with
        | Loaded => trivial
        | NotYetLoaded => simp only; exact do_rcode 2 S h3
        | FailedToLoad => simp only; exact do_rcode 2 S h3


/-! ### from the mark to the opcode dispatch -/

/-- the spec's scan after the question (`specScanWith` from `scanPlain` on) -/
def specTail (lookup : List UInt8 → Nat → Option Spec.Server.ZoneKind) (serverSize : Nat) (msg : Bytes)
    (q : Option Spec.DQuestion) (p1 an ns ar opcode : Nat) : Spec.Server.Scan :=
  match Spec.Server.scanPlain msg (an + ns) p1 with
  | none => { respond := true, question := q, verdict := .formErr }
  | some p2 =>
    match Spec.Server.scanAr msg serverSize ar ar p2 false 512 with
    | (.formErr, e, l) => { respond := true, question := q, edns := e, limitUdp := l, verdict := .formErr }
    | (.badVers, e, l) => { respond := true, question := q, edns := e, limitUdp := l, verdict := .badVers }
    | (.tsig, e, l) => { respond := true, question := q, edns := e, limitUdp := l, verdict := .tsigReached }
    | (.done p3, e, l) =>
      let base : Spec.Server.Scan := { respond := true, question := q, edns := e, limitUdp := l }
      if p3 < msg.size then { base with verdict := .formErr }
      else if opcode ≠ 0 then { base with verdict := .notImp }
      else match q with
        | none => { base with verdict := .formErr }
        | some qq =>
          if 251 ≤ qq.qtype ∧ qq.qtype ≤ 254 then { base with verdict := .notImp }
          else if qq.qclass = 255 then { base with verdict := .notImp }
          else match lookup qq.qname qq.qclass with
            | none => { base with verdict := .refused }
            | some .loaded => { base with verdict := .answer }
            | some _ => { base with verdict := .servFailZone }

/-- the writer state the verdict dictates (no-data verdicts) -/
def finalOf (s1 : State) (tr : Server.Transport) (payload : Nat) (sc : Spec.Server.Scan) : State :=
  match sc.verdict with
  | .formErr => stRcode 1 (arSt s1 tr payload sc.edns sc.limitUdp)
  | .badVers => stXRcode 16 ⟨payload, 0⟩ (arSt s1 tr payload sc.edns sc.limitUdp)
  | .notImp => stRcode 4 (arSt s1 tr payload sc.edns sc.limitUdp)
  | .refused => stRcode 5 (arSt s1 tr payload sc.edns sc.limitUdp)
  | .servFailZone => stRcode 2 (arSt s1 tr payload sc.edns sc.limitUdp)
  | _ => arSt s1 tr payload sc.edns sc.limitUdp

/-- the question as the spec decodes it vs. as the model holds it -/
def QRel (q : Option Spec.DQuestion) (question : Option (WName × Nat × Nat)) : Prop :=
  match q, question with
  | none, none => True
  | some x, some (qn, qt, qc) => WName.parse x.qname = some (qn, []) ∧ qt = x.qtype ∧ qc = x.qclass
  | _, _ => False

/-- is the verdict decided by the scan alone (everything but "a loaded zone answers" and "a TSIG
    record was reached")? -/
def noDataV : Spec.Server.Verdict → Bool
  | .answer => false
  | .tsigReached => false
  | _ => true

theorem do_formErr_true (s : State) (h : 3 < s.octets.size) :
    (do setRcode (Server.RC "FORMERR"); pure true : M Bool) s = (.ok true, stRcode 1 s) := by
  rw [RC_FORMERR, bind_ok (setRcode_eq 1 s h)]; rfl

theorem scanAndDispatch_spec (cfg : Server.Cfg) (tr : Server.Transport) (now : Nat) (req : Bytes)
    (q : Option Spec.DQuestion) (question : Option (WName × Nat × Nat)) (hq : QRel q question)
    (r1 : Reader) (hi : Inv r1) (ho : r1.octets = req) (s1 : State) (hb : Base s1 tr cfg.payload)
    (hreq : req.size ≤ Rdata.USIZE_MAX) (htf : TsigFacts) (an ns ar opcode : Nat) :
    noDataV (specTail (catKind cfg) cfg.payload req q r1.cursor an ns ar opcode).verdict = true →
    Server.scanAndDispatch cfg tr now an ns ar opcode question r1 s1 =
      (.ok true, finalOf s1 tr cfg.payload (specTail (catKind cfg) cfg.payload req q r1.cursor an ns ar opcode)) := by
  unfold Server.scanAndDispatch specTail
  have hi2 : Inv (setMark r1) := hi
  have hsp := scanAnNs_spec req (an + ns) (setMark r1) hi2 ho
  have hc : (setMark r1).cursor = r1.cursor := rfl
  rw [hc] at hsp
  simp only
  cases hpl : Spec.Server.scanPlain req (an + ns) r1.cursor with
  | none =>
    rw [hpl] at hsp
    simp only [hsp]
    intro _
    exact do_formErr_true s1 hb.size3
  | some p2 =>
    rw [hpl] at hsp
    obtain ⟨hsn, hp2, _⟩ := hsp
    simp only [hsn]
    have har := scanAr_spec cfg tr now req ar s1 hb hreq htf ar 0 { setMark r1 with cursor := p2 } false 512
      (by omega) ⟨hi.1, by rw [show ({ setMark r1 with cursor := p2 } : Reader).octets = r1.octets from rfl, ho]; exact hp2⟩
      ho (fun _ => rfl)
    have hst : arSt s1 tr cfg.payload false 512 = s1 := rfl
    rw [hst] at har
    simp only at har
    generalize hres : Spec.Server.scanAr req cfg.payload ar ar p2 false 512 = res at har
    obtain ⟨en, e, l⟩ := res
    cases en with
    | formErr =>
      simp only [ArPost] at har
      intro _
      rw [bind_ok har]
      rfl
    | badVers =>
      simp only [ArPost] at har
      intro _
      rw [bind_ok har]
      rfl
    | tsig => intro h; cases h
    | done p3 =>
      simp only [ArPost] at har
      obtain ⟨har, hp3⟩ := har
      rw [bind_ok har]
      have hszm : (setMark r1).octets.size = req.size := by rw [← ho]; rfl
      simp only [atEom, hszm]
      have hS3 : 3 < (arSt s1 tr cfg.payload e l).octets.size := by rw [arSt_size]; exact hb.size3
      by_cases hlt : p3 < req.size
      · have : ¬ (p3 ≥ req.size) := by omega
        simp only [hlt, if_true, this, decide_false, Bool.not_false]
        intro _
        exact do_formErr_true _ hS3
      · have : p3 ≥ req.size := by omega
        simp only [hlt, if_false, this, decide_true, Bool.not_true, Bool.false_eq_true]
        by_cases hop : opcode = 0
        · subst hop
          simp only [ne_eq, not_true_eq_false, if_false, if_true]
          cases q with
          | none =>
            cases question with
            | none =>
              simp only
              intro _
              have : Server.handleQuery cfg none tr (arSt s1 tr cfg.payload e l) =
                  (.ok (), stRcode 1 (arSt s1 tr cfg.payload e l)) := by
                unfold Server.handleQuery; rw [RC_FORMERR]; exact do_rcode 1 _ hS3
              rw [bind_ok this]
              rfl
            | some x => exact absurd hq (by simp [QRel])
          | some qq =>
            cases question with
            | none => exact absurd hq (by simp [QRel])
            | some x =>
              obtain ⟨qn, qt, qc⟩ := x
              obtain ⟨hpq, rfl, rfl⟩ := hq
              have hqs := handleQuery_spec cfg qq.qname qn qq.qtype qq.qclass hpq tr _ hS3
              simp only
              by_cases h1 : 251 ≤ qq.qtype ∧ qq.qtype ≤ 254
              · rw [if_pos h1] at hqs
                simp only [h1, and_self, if_true]
                intro _
                rw [bind_ok hqs]; rfl
              · rw [if_neg h1] at hqs
                simp only [h1, if_false]
                by_cases h2 : qq.qclass = 255
                · rw [if_pos h2] at hqs
                  simp only [h2] at hqs
                  simp only [h2, if_true]
                  intro _
                  rw [bind_ok hqs]; rfl
                · rw [if_neg h2] at hqs
                  simp only [h2, if_false]
                  cases hk : catKind cfg qq.qname qq.qclass with
                  | none =>
                    rw [hk] at hqs
                    simp only at hqs ⊢
                    intro _
                    rw [bind_ok hqs]; rfl
                  | some k =>
                    rw [hk] at hqs
                    cases k with
                    | loaded => intro h; cases h
                    | notYetLoaded =>
                      simp only at hqs ⊢
                      intro _
                      rw [bind_ok hqs]; rfl
                    | failedToLoad =>
                      simp only at hqs ⊢
                      intro _
                      rw [bind_ok hqs]; rfl
        · simp only [ne_eq, hop, not_false_eq_true, if_true, if_false]
          intro _
          rw [RC_NOTIMP, bind_ok (do_rcode 4 _ hS3)]
          rfl


/-- when the spec's verdict is "a loaded zone answers", the model has scanned all three sections,
    found the end of the message and an opcode QUERY, and hands over to `handle_query` on the
    writer state the scan left -/
theorem scanAndDispatch_answer (cfg : Server.Cfg) (tr : Server.Transport) (now : Nat) (req : Bytes)
    (q : Option Spec.DQuestion) (question : Option (WName × Nat × Nat))
    (r1 : Reader) (hi : Inv r1) (ho : r1.octets = req) (s1 : State) (hb : Base s1 tr cfg.payload)
    (hreq : req.size ≤ Rdata.USIZE_MAX) (htf : TsigFacts) (an ns ar opcode : Nat)
    (hv : (specTail (catKind cfg) cfg.payload req q r1.cursor an ns ar opcode).verdict = .answer) :
    Server.scanAndDispatch cfg tr now an ns ar opcode question r1 s1 =
      (Server.handleQuery cfg question tr >>= fun _ => pure true)
        (arSt s1 tr cfg.payload (specTail (catKind cfg) cfg.payload req q r1.cursor an ns ar opcode).edns
          (specTail (catKind cfg) cfg.payload req q r1.cursor an ns ar opcode).limitUdp) := by
  unfold Server.scanAndDispatch
  unfold specTail at hv ⊢
  have hi2 : Inv (setMark r1) := hi
  have hsp := scanAnNs_spec req (an + ns) (setMark r1) hi2 ho
  have hc : (setMark r1).cursor = r1.cursor := rfl
  rw [hc] at hsp
  simp only
  cases hpl : Spec.Server.scanPlain req (an + ns) r1.cursor with
  | none => rw [hpl] at hv; cases hv
  | some p2 =>
    rw [hpl] at hsp hv
    obtain ⟨hsn, hp2, _⟩ := hsp
    simp only [hsn] at hv ⊢
    have har := scanAr_spec cfg tr now req ar s1 hb hreq htf ar 0 { setMark r1 with cursor := p2 } false 512
      (by omega) ⟨hi.1, by rw [show ({ setMark r1 with cursor := p2 } : Reader).octets = r1.octets from rfl, ho]; exact hp2⟩
      ho (fun _ => rfl)
    have hst : arSt s1 tr cfg.payload false 512 = s1 := rfl
    rw [hst] at har
    simp only at har
    generalize hres : Spec.Server.scanAr req cfg.payload ar ar p2 false 512 = res at har hv
    obtain ⟨en, e, l⟩ := res
    cases en with
    | formErr => cases hv
    | badVers => cases hv
    | tsig => cases hv
    | done p3 =>
      simp only [ArPost] at har
      obtain ⟨har, hp3⟩ := har
      rw [bind_ok har]
      have hszm : (setMark r1).octets.size = req.size := by rw [← ho]; rfl
      simp only [atEom, hszm]
      simp only at hv
      by_cases hlt : p3 < req.size
      · simp only [hlt, if_true] at hv; cases hv
      · simp only [hlt, if_false] at hv ⊢
        have : p3 ≥ req.size := by omega
        simp only [this, decide_true, Bool.not_true, Bool.false_eq_true, if_false]
        by_cases hop : opcode = 0
        · subst hop
          simp only [if_true]
          -- both sides now agree once the verdict's `edns`/`limitUdp` are read off
          have hel : ∀ sc : Spec.Server.Scan, sc.edns = e → sc.limitUdp = l →
              arSt s1 tr cfg.payload sc.edns sc.limitUdp = arSt s1 tr cfg.payload e l := by
            intro sc h1 h2; rw [h1, h2]
          simp only [ne_eq, not_true_eq_false, if_false] at hv ⊢
          cases q with
          | none => cases hv
          | some qq =>
            simp only at hv ⊢
            repeat' split
            all_goals first | rfl | (simp_all)
        · simp only [ne_eq, hop, not_false_eq_true, if_true] at hv; cases hv

/-! ### `handle_message_with_context` -/

/-- the writer as `handle_message_with_context` finds it: nothing but the header -/
structure HdrOk (sH : State) (tr : Server.Transport) (payload : Nat) : Prop where
  sect : sH.sect = .question
  qd : sH.qdcount = 0
  an : sH.ancount = 0
  ns : sH.nscount = 0
  ar : sH.arcount = 0
  qname : sH.qname = none
  owner : sH.mostRecentOwner = none
  inr : sH.mostRecentNameInRdata = none
  cursor : sH.cursor = 12
  rrStart : sH.rrStart = 12
  edns : sH.edns = none
  tsig : sH.tsig = none
  lim : sH.limit = lim0 tr
  avail : sH.available = sH.limit
  size : sH.limit ≤ sH.octets.size
  buf : tr = .udp → payload ≤ sH.octets.size

theorem HdrOk.lim512 {sH : State} {tr : Server.Transport} {payload : Nat} (h : HdrOk sH tr payload) :
    512 ≤ sH.limit := by
  rw [h.lim]; cases tr <;> simp [lim0]

/-- the model's form of the spec's question -/
def toQ (q : Spec.DQuestion) : WName :=
  match WName.parse q.qname with
  | some (n, _) => n
  | none => ⟨[]⟩

/-- the writer after the question (if any) has been added -/
def qSt (sH : State) (q : Option Spec.DQuestion) : State :=
  match q with
  | none => sH
  | some q => (addQuestion (toQ q) q.qtype q.qclass sH).2

theorem base_of_hdr (sH : State) (tr : Server.Transport) (payload : Nat) (h : HdrOk sH tr payload) :
    Base sH tr payload := by
  have := h.lim512
  have h2 := h.avail
  have h3 := h.size
  have h4 := h.cursor
  refine ⟨h.edns, by omega, by omega, by rw [h.ar]; omega, h.lim, ?_, h.avail, h.size, h.tsig⟩
  intro htr
  exact ⟨by omega, h.buf htr⟩

/-- adding the (well-formed) question of the request to the header-only writer -/
theorem qSt_some (sH : State) (tr : Server.Transport) (payload : Nat) (h : HdrOk sH tr payload)
    (q : Spec.DQuestion) (qn : WName) (hp : WName.parse q.qname = some (qn, [])) (hw : qn.wire = q.qname)
    (hl : q.qname.length ≤ 255) :
    addQuestion qn q.qtype q.qclass sH = (.ok (), qSt sH (some q)) ∧ Base (qSt sH (some q)) tr payload ∧
    (qSt sH (some q)).octets = writeAt (writeAt (writeAt sH.octets 12 q.qname) (12 + q.qname.length) (u16be q.qtype))
                    (12 + q.qname.length + 2) (u16be q.qclass) ∧
    (qSt sH (some q)).cursor = 12 + q.qname.length + 4 ∧ (qSt sH (some q)).qdcount = 1 ∧
    (qSt sH (some q)).ancount = sH.ancount ∧ (qSt sH (some q)).nscount = sH.nscount ∧
    (qSt sH (some q)).arcount = 0 ∧ (qSt sH (some q)).rrStart = 12 + q.qname.length + 4 := by
  have h512 := h.lim512
  have hav := h.avail
  have hsz := h.size
  have hcur := h.cursor
  obtain ⟨s', hadd, ho, hc, hrr, hqd, han, hns, har, hlim, havl, hed, hts, hse⟩ :=
    addQuestion_first qn q.qtype q.qclass sH h.sect h.qd h.qname h.owner h.inr
      (by rw [hw]; omega) (by omega)
  have htoq : toQ q = qn := by unfold toQ; rw [hp]
  have hqs : qSt sH (some q) = s' := by
    show (addQuestion (toQ q) q.qtype q.qclass sH).2 = s'
    rw [htoq, hadd]
  rw [hqs]
  rw [hw, hcur] at ho hc hrr
  have hsz' : s'.octets.size = sH.octets.size := by rw [ho]; simp only [writeAt_size]
  refine ⟨hadd, ⟨by rw [hed]; exact h.edns, by omega, by omega, by rw [har, h.ar]; omega,
    by rw [hlim]; exact h.lim, ?_, by rw [havl, hlim]; exact hav, by omega, by rw [hts]; exact h.tsig⟩,
    ho, hc, hqd, han, hns, by rw [har]; exact h.ar, hrr⟩
  intro htr
  exact ⟨by omega, by rw [hsz']; exact h.buf htr⟩

/-- the spec's scan after the header checks (length, QR): `specScanWith` from QDCOUNT on -/
def specBody (lookup : List UInt8 → Nat → Option Spec.Server.ZoneKind) (serverSize : Nat) (msg : Bytes) :
    Spec.Server.Scan :=
  if Spec.Server.hdr msg 4 > 1 then { respond := false }
  else
    let qres : Option (Option Spec.DQuestion × Nat) :=
      if Spec.Server.hdr msg 4 = 0 then some (none, 12)
      else match Spec.specQuestionAt msg 12 with
        | some (w, t, c, nx) => some (some ⟨w, t, c⟩, nx)
        | none => none
    match qres with
    | none => { respond := true, verdict := .formErr }
    | some (q, p1) =>
      specTail lookup serverSize msg q p1 (Spec.Server.hdr msg 6) (Spec.Server.hdr msg 8) (Spec.Server.hdr msg 10)
        ((msg.getD 2 0).toNat / 8 % 16)

theorem specScanWith_eq (lookup : List UInt8 → Nat → Option Spec.Server.ZoneKind) (serverSize : Nat) (msg : Bytes) :
    Spec.Server.specScanWith lookup serverSize msg =
      if msg.size < 12 then { respond := false }
      else if (msg.getD 2 0).toNat ≥ 128 then { respond := false }
      else specBody lookup serverSize msg := by
  unfold Spec.Server.specScanWith specBody specTail
  rfl

theorem specQuestionAt_some (msg : Bytes) (pos : Nat) (w : List UInt8) (t c nx : Nat)
    (h : Spec.specQuestionAt msg pos = some (w, t, c, nx)) :
    ∃ p, parseCompressed msg pos = .ok p ∧ p.wire = w ∧ nx = pos + p.len + 4 ∧ nx ≤ msg.size ∧ w.length ≤ 255 := by
  rw [specQuestionAt_eq] at h
  cases hp : parseCompressed msg pos with
  | ok p =>
    rw [hp] at h
    simp only at h
    by_cases hle : pos + p.len + 4 ≤ msg.size
    · simp only [hle, if_true, Option.some.injEq, Prod.mk.injEq] at h
      obtain ⟨h1, _, _, h4⟩ := h
      exact ⟨p, rfl, h1, h4.symm, by omega, by rw [← h1]; exact ((C14.C14_parse_ok_iff msg pos p).mp hp).2⟩
    · simp only [hle, if_false] at h; cases h
  | err e => rw [hp] at h; cases h
  | panic => rw [hp] at h; cases h

/-- header accessors of a reader on a message of at least twelve octets, in the spec's terms -/
theorem reader_header (req : Bytes) (h12 : 12 ≤ req.size) :
    let r0 : Reader := ⟨req, 12, none⟩
    qdcount r0 = .ok (Spec.Server.hdr req 4) ∧ ancount r0 = .ok (Spec.Server.hdr req 6) ∧
    nscount r0 = .ok (Spec.Server.hdr req 8) ∧ arcount r0 = .ok (Spec.Server.hdr req 10) ∧
    msgId r0 = .ok (Spec.Server.hdr req 0) ∧
    opcode r0 = .ok (((req.getD 2 0).toNat &&& 120) >>> 3) ∧
    qr r0 = .ok (((req.getD 2 0).toNat &&& 128) != 0) ∧
    Reader.rd r0 = .ok (((req.getD 2 0).toNat &&& 1) != 0) := by
  intro r0
  have hi : Inv r0 := ⟨h12, h12⟩
  obtain ⟨_, h1, h2, h3, h4, h5⟩ := C15.C15_header_fields r0 hi
  refine ⟨h2, h3, h4, h5, h1, ?_, ?_, ?_⟩
  · have hlt : 2 < req.size := by omega
    have : (req[2].toNat &&& 120) ≤ 120 := Nat.and_le_right
    have h2 : (req[2].toNat &&& 120) >>> 3 < 16 := by rw [Nat.shiftRight_eq_div_pow]; omega
    simp [opcode, idx, Gen.OPCODE_BYTE, Gen.OPCODE_MASK, Gen.OPCODE_SHIFT, hlt, h2, Array.getD, r0]
  · have hlt : 2 < req.size := by omega
    simp [qr, flag, idx, Gen.QR_BYTE, Gen.QR_MASK, hlt, Array.getD, r0]
  · have hlt : 2 < req.size := by omega
    simp [Reader.rd, flag, idx, Gen.RD_BYTE, Gen.RD_MASK, hlt, Array.getD, r0]

theorem opcode_bits : ∀ x : UInt8, (x.toNat &&& 120) >>> 3 = x.toNat / 8 % 16 := by
  apply Wire.forall_uint8; decide +kernel

theorem hwc_spec (cfg : Server.Cfg) (tr : Server.Transport) (now : Nat) (req : Bytes) (h12 : 12 ≤ req.size)
    (sH : State) (hH : HdrOk sH tr cfg.payload) (hreq : req.size ≤ Rdata.USIZE_MAX) (htf : TsigFacts) :
    let sc := specBody (catKind cfg) cfg.payload req
    (sc.respond = false → Server.handleWithContext cfg tr now ⟨req, 12, none⟩ sH = (.ok false, sH)) ∧
    (sc.respond = true → noDataV sc.verdict = true →
      Server.handleWithContext cfg tr now ⟨req, 12, none⟩ sH =
        (.ok true, finalOf (qSt sH sc.question) tr cfg.payload sc)) := by
  intro sc
  obtain ⟨hqd, han, hns, har, _, hop, _, _⟩ := reader_header req h12
  have hi0 : Inv (⟨req, 12, none⟩ : Reader) := ⟨h12, h12⟩
  have hbH := base_of_hdr sH tr cfg.payload hH
  have h3 : 3 < sH.octets.size := hbH.size3
  rw [Server.handleWithContext_split]
  unfold Server.handleWithContext'
  simp only [hqd, han, hns, har, hop, opcode_bits]
  show (sc.respond = false → _) ∧ (sc.respond = true → _)
  by_cases hq0 : Spec.Server.hdr req 4 = 0
  · -- no question
    have hsc : sc = specTail (catKind cfg) cfg.payload req none 12 (Spec.Server.hdr req 6) (Spec.Server.hdr req 8)
        (Spec.Server.hdr req 10) ((req.getD 2 0).toNat / 8 % 16) := by
      show specBody _ _ _ = _
      unfold specBody
      simp only [hq0, show ¬ (0 > 1) by omega, if_false, if_true]
    have hresp : sc.respond = true := by
      rw [hsc]; unfold specTail
      repeat' split
      all_goals rfl
    simp only [hq0, if_true]
    refine ⟨fun h => (by rw [hresp] at h; cases h), fun _ hv => ?_⟩
    have hq : sc.question = none := by
      rw [hsc]; unfold specTail
      repeat' split
      all_goals rfl
    rw [hq]
    have := scanAndDispatch_spec cfg tr now req none none trivial ⟨req, 12, none⟩ hi0 rfl sH hbH hreq htf
      (Spec.Server.hdr req 6) (Spec.Server.hdr req 8) (Spec.Server.hdr req 10) ((req.getD 2 0).toNat / 8 % 16)
      (by rw [← hsc]; exact hv)
    rw [← hsc] at this
    rw [bind_ok (show Server.addQuestionOrServfail none sH = (.ok true, sH) from rfl)]
    simp only [Bool.not_true, Bool.false_eq_true, if_false]
    exact this
  · by_cases hq1 : Spec.Server.hdr req 4 = 1
    · simp only [hq1, show ¬ ((1 : Nat) = 0) by omega, if_false, if_true]
      have hrq := readQuestion_spec (⟨req, 12, none⟩ : Reader)
      cases hsq : Spec.specQuestionAt req 12 with
      | none =>
        rw [show (⟨req, 12, none⟩ : Reader).octets = req from rfl,
          show (⟨req, 12, none⟩ : Reader).cursor = 12 from rfl, hsq] at hrq
        obtain ⟨x, hx⟩ := hrq
        have hsc : sc = { respond := true, verdict := .formErr } := by
          show specBody _ _ _ = _
          unfold specBody
          simp only [hq1, show ¬ ((1 : Nat) > 1) by omega, if_false, show ¬ ((1 : Nat) = 0) by omega, hsq]
        simp only [hx, RC_FORMERR]
        rw [hsc]
        refine ⟨fun h => (by cases h), fun _ _ => ?_⟩
        have := do_formErr_true sH h3
        rw [RC_FORMERR] at this
        exact this
      | some v =>
        obtain ⟨w, t, c, nx⟩ := v
        rw [show (⟨req, 12, none⟩ : Reader).octets = req from rfl,
          show (⟨req, 12, none⟩ : Reader).cursor = 12 from rfl, hsq] at hrq
        simp only at hrq
        obtain ⟨p, hp, hpw, hnx, hnxs, hwl⟩ := specQuestionAt_some req 12 w t c nx hsq
        obtain ⟨qn, hqn, hqw⟩ := wname_of_parse req 12 p hp
        rw [hpw] at hqn hqw
        have hsc : sc = specTail (catKind cfg) cfg.payload req (some ⟨w, t, c⟩) nx (Spec.Server.hdr req 6)
            (Spec.Server.hdr req 8) (Spec.Server.hdr req 10) ((req.getD 2 0).toNat / 8 % 16) := by
          show specBody _ _ _ = _
          unfold specBody
          simp only [hq1, show ¬ ((1 : Nat) > 1) by omega, if_false, show ¬ ((1 : Nat) = 0) by omega, hsq]
        have hresp : sc.respond = true := by
          rw [hsc]; unfold specTail
          repeat' split
          all_goals rfl
        have hq : sc.question = some ⟨w, t, c⟩ := by
          rw [hsc]; unfold specTail
          repeat' split
          all_goals rfl
        obtain ⟨hadd, hbase, _⟩ := qSt_some sH tr cfg.payload hH ⟨w, t, c⟩ qn hqn hqw hwl
        simp only [hrq, hqn]
        refine ⟨fun h => (by rw [hresp] at h; cases h), fun _ hv => ?_⟩
        rw [hq]
        have hQ : Server.addQuestionOrServfail (some (qn, t, c)) sH = (.ok true, qSt sH (some ⟨w, t, c⟩)) := by
          show (match addQuestion qn t c sH with
            | (.ok (), s') => ((.ok true : Out WriterErr Bool), s')
            | (.err _, s') => (do setRcode (Server.RC "SERVFAIL"); pure false : M Bool) s'
            | (.panic, s') => (.panic, s')) = _
          rw [hadd]
        rw [bind_ok hQ]
        simp only [Bool.not_true, Bool.false_eq_true, if_false]
        have := scanAndDispatch_spec cfg tr now req (some ⟨w, t, c⟩) (some (qn, t, c)) ⟨hqn, rfl, rfl⟩
          ⟨req, nx, none⟩ ⟨h12, hnxs⟩ rfl _ hbase hreq htf
          (Spec.Server.hdr req 6) (Spec.Server.hdr req 8) (Spec.Server.hdr req 10) ((req.getD 2 0).toNat / 8 % 16)
          (by rw [← hsc]; exact hv)
        rw [← hsc] at this
        exact this
    · -- more than one question: no response
      have hgt : Spec.Server.hdr req 4 > 1 := by omega
      have hsc : sc = { respond := false } := by
        show specBody _ _ _ = _
        unfold specBody
        simp only [hgt, if_true]
      simp only [hq0, hq1, if_false]
      rw [hsc]
      refine ⟨fun _ => ?_, fun h => (by cases h)⟩
      first | rfl | trivial

end QV.ServerScan
