/-
  QV.Proofs.Rdata — helper lemmas for C18 / C19: wire-form names at list level, the bridge between
  the model's uncompressed-name functions and `QV.Spec.WireName`, layouts (`Splits`, `Expands`),
  dispatch through the generated tables.
-/
import QV.Proofs.Wire
import QV.Model.Rdata
import QV.Spec.Rdata

namespace QV.Rdata
open QV QV.Wire QV.Spec

/-! ### arrays and lists -/

theorem extract_split (b : Bytes) (i j k : Nat) (h1 : i ≤ j) (h2 : j ≤ k) :
    (b.extract i k).toList = (b.extract i j).toList ++ (b.extract j k).toList := by
  simp only [← Array.toList_append]
  congr 1
  rw [Array.extract_append_extract]
  congr 1 <;> omega

theorem extract_head (b : Bytes) (i j : Nat) (x : UInt8) (xs : List UInt8)
    (h : (b.extract i j).toList = x :: xs) : ∃ hi : i < b.size, b[i] = x := by
  have hl := congrArg List.length h
  simp at hl
  have hi : i < b.size := by omega
  refine ⟨hi, ?_⟩
  have h0 : 0 < (b.extract i j).toList.length := by rw [h]; simp
  have e := List.getElem_of_eq h h0
  simpa using e

/-! ### wire-form names at list level -/

/-- list-level description of an uncompressed wire-form name with `n` labels (root included) -/
inductive LName : List UInt8 → Nat → Prop
  | root : LName [0] 1
  | label {l : UInt8} {body rest : List UInt8} {n : Nat} (h0 : l ≠ 0) (h63 : l.toNat ≤ 63)
      (hb : body.length = l.toNat) (tl : LName rest n) : LName (l :: (body ++ rest)) (n + 1)

theorem LName.pos {w n} (h : LName w n) : 0 < w.length ∧ 0 < n := by
  cases h <;> simp

/-- every decoded name (compressed or not) is a well-formed wire name -/
theorem decodes_lname {msg : Bytes} {pos cs : Nat} {w : List UInt8} {n k : Nat}
    (hd : Decodes msg pos cs w n k) : LName w n := by
  induction hd with
  | null h h0 => exact LName.root
  | @label pos cs w n k h h0 h63 hin rest ih =>
    have hx : (msg.extract pos (pos + msg[pos].toNat + 1)).toList =
        msg[pos] :: (msg.extract (pos + 1) (pos + msg[pos].toNat + 1)).toList := by
      apply List.ext_getElem
      · simp; omega
      · intro i h1 h2
        simp at h1 h2 ⊢
        cases i with
        | zero => simp
        | succ j => simp; congr 1; omega
    rw [hx]
    simp only [List.cons_append]
    exact LName.label h0 h63 (by simp; omega) ih
  | ptr h hp hb rest ih => exact ih

/-- without pointers (chunk start 0) the name is the octets it occupies -/
theorem decodes0_extract {b : Bytes} {pos cs : Nat} {w : List UInt8} {n k : Nat}
    (hd : Decodes b pos cs w n k) (hcs : cs = 0) :
    w = (b.extract pos (pos + k)).toList ∧ k = w.length ∧ pos + k ≤ b.size := by
  induction hd with
  | @null pos cs h h0 =>
    refine ⟨?_, rfl, by omega⟩
    apply List.ext_getElem
    · simp; omega
    · intro i h1 h2; simp at h1; subst h1; simp [h0]
  | @label pos cs w n k h h0 h63 hin rest ih =>
    obtain ⟨e1, e2, e3⟩ := ih hcs
    refine ⟨?_, ?_, by omega⟩
    · have e : pos + b[pos].toNat + 1 + k = pos + (b[pos].toNat + 1 + k) := by omega
      rw [e] at e1
      rw [extract_split b pos (pos + b[pos].toNat + 1) (pos + (b[pos].toNat + 1 + k)) (by omega) (by omega), ← e1]
    · simp; omega
  | ptr h hp hb rest ih => omega

/-- the first chunk of any decoded name lies inside the buffer -/
theorem decodes_len_le {b : Bytes} {pos cs : Nat} {w : List UInt8} {n k : Nat}
    (hd : Decodes b pos cs w n k) : pos + k ≤ b.size ∧ 0 < k := by
  induction hd with
  | null h h0 => omega
  | label h h0 h63 hin rest ih => omega
  | ptr h hp hb rest ih => omega

/-- a well-formed wire name lying at `pos` of a buffer decodes there, whatever the chunk start -/
theorem lname_decodes {w : List UInt8} {n : Nat} (h : LName w n) :
    ∀ (b : Bytes) (pos cs : Nat), (b.extract pos (pos + w.length)).toList = w → pos + w.length ≤ b.size →
      Decodes b pos cs w n w.length := by
  induction h with
  | root =>
    intro b pos cs hx hs
    obtain ⟨hlt, h0⟩ := extract_head b _ _ _ _ hx
    exact Decodes.null hlt h0
  | @label l body rest n h0 h63 hb tl ih =>
    intro b pos cs hx hs
    simp only [List.length_cons, List.length_append] at hs hx
    obtain ⟨hlt, hbl⟩ := extract_head b _ _ _ _ hx
    have hsplit := extract_split b pos (pos + l.toNat + 1) (pos + (body.length + rest.length + 1)) (by omega) (by omega)
    rw [hx] at hsplit
    have hl : (l :: (body ++ rest)) = (l :: body) ++ rest := by simp
    rw [hl] at hsplit
    have hlen : (l :: body).length = (b.extract pos (pos + l.toNat + 1)).toList.length := by
      simp only [List.length_cons, Array.length_toList, Array.size_extract]; omega
    obtain ⟨e1, e2⟩ := List.append_inj hsplit hlen
    have e4 : pos + l.toNat + 1 + rest.length = pos + (body.length + rest.length + 1) := by omega
    have ih' := ih b (pos + l.toNat + 1) cs (by rw [e4]; exact e2.symm) (by omega)
    have := Decodes.label (cs := cs) hlt (by rw [hbl]; exact h0) (by rw [hbl]; exact h63) (by rw [hbl]; omega)
      (by rw [hbl]; exact ih')
    rw [hbl, ← e1] at this
    have e3 : (l :: (body ++ rest)).length = l.toNat + 1 + rest.length := by simp; omega
    rw [e3]
    simpa using this

/-! ### the model's uncompressed-name functions at list level -/

theorem toList_extract0 (b : Bytes) (w rest : List UInt8) (h : b.toList = w ++ rest) :
    (b.extract 0 w.length).toList = w := by
  simp [h]

theorem wireName_iff (w : List UInt8) : WireName w ↔ ∃ n, LName w n ∧ w.length ≤ 255 := by
  constructor
  · rintro ⟨n, hd, hl⟩
    exact ⟨n, decodes_lname hd, hl⟩
  · rintro ⟨n, hl, hlen⟩
    refine ⟨n, ?_, hlen⟩
    exact lname_decodes hl w.toArray 0 0 (by simp) (by simp)

/-- spec ⇒ model for the uncompressed-name loop -/
theorem uncompAux_complete (b : Bytes) {off cs : Nat} {w : List UInt8} {n k : Nat}
    (hd : Decodes b off cs w n k) (hcs : cs = 0) :
    ∀ nl, off + k ≤ 255 → uncompAux b false off nl = .ok (off + k, nl + n) := by
  obtain ⟨c1, c2, c3⟩ := consts
  induction hd with
  | @null pos cs h h0 =>
    intro nl hk
    rw [uncompAux]
    have e1 : ¬ (pos + 0 + 1 > 255) := by omega
    simp [h, h0, c1, c2, e1]
  | @label pos cs w n k h h0 h63 hin rest ih =>
    intro nl hk
    rw [uncompAux]
    have e1 : ¬ (b[pos].toNat > 63) := by omega
    have e2 : ¬ (pos + b[pos].toNat + 1 > 255) := by omega
    simp only [h, dite_true, c1, c2, e1, e2, if_false, h0, Bool.false_and, Bool.false_eq_true]
    rw [ih hcs (nl + 1) (by omega)]
    congr 2 <;> omega
  | ptr h hp hb rest ih => omega

theorem uncompAux_ok_iff (b : Bytes) (e n : Nat) :
    uncompAux b false 0 0 = .ok (e, n) ↔ ∃ w rest, b.toList = w ++ rest ∧ LName w n ∧ w.length = e ∧ e ≤ 255 := by
  constructor
  · intro h
    obtain ⟨hd, h1, h2, h3, h4⟩ := uncompAux_sound b false 0 0 e n h
    simp only [Nat.sub_zero] at hd
    refine ⟨(b.extract 0 e).toList, (b.extract e b.size).toList, ?_, decodes_lname hd, by simp; omega, h3⟩
    rw [← extract_split b 0 e b.size (by omega) h2]
    simp
  · rintro ⟨w, rest, hb, hl, hlen, h255⟩
    have hd := lname_decodes hl b 0 0 (by simpa using toList_extract0 b w rest hb)
      (by have := congrArg List.length hb; simp at this; omega)
    have := uncompAux_complete b hd rfl 0 (by omega)
    simpa [hlen] using this


theorem lname_prefix_unique {w w' : List UInt8} {n n' : Nat} {x y : List UInt8}
    (h : LName w n) : LName w' n' → w ++ x = w' ++ y → w = w' ∧ n = n' ∧ x = y := by
  induction h generalizing w' n' with
  | root =>
    intro h' e
    cases h' with
    | root => simpa using e
    | label h0 => simp at e; exact absurd e.1.symm h0
  | @label l body rest n h0 h63 hb tl ih =>
    intro h' e
    cases h' with
    | root => simp at e; exact absurd e.1 h0
    | @label l' body' rest' n' h0' h63' hb' tl' =>
      simp only [List.cons_append, List.cons.injEq, List.append_assoc] at e
      obtain ⟨el, e2⟩ := e
      subst el
      obtain ⟨eb, er⟩ := List.append_inj e2 (by omega)
      subst eb
      obtain ⟨a, b, c⟩ := ih tl' er
      subst a b c
      exact ⟨rfl, rfl, rfl⟩

theorem validateU_no_panic (b : Bytes) (u : Bool) : validateUncompressed b u ≠ .panic := by
  unfold validateUncompressed
  have := uncompAux_no_panic b 0 0
  cases h : uncompAux b false 0 0 <;> simp_all
  split <;> simp

theorem validateU_false_iff (b : Bytes) (k : Nat) :
    validateUncompressed b false = .ok k ↔ ∃ w rest, b.toList = w ++ rest ∧ WireName w ∧ w.length = k := by
  unfold validateUncompressed
  cases h : uncompAux b false 0 0 with
  | ok r =>
    obtain ⟨e, n⟩ := r
    obtain ⟨w, rest, hb, hl, hlen, h255⟩ := (uncompAux_ok_iff b e n).mp h
    simp only [Bool.false_and, Bool.false_eq_true, if_false, Out.ok.injEq]
    constructor
    · intro ek; subst ek
      exact ⟨w, rest, hb, (wireName_iff w).mpr ⟨n, hl, by omega⟩, hlen⟩
    · rintro ⟨w', rest', hb', hw', hlen'⟩
      obtain ⟨n', hl', _⟩ := (wireName_iff w').mp hw'
      obtain ⟨a, _, _⟩ := lname_prefix_unique hl hl' (hb.symm.trans hb')
      subst a; omega
  | err e =>
    simp only [reduceCtorEq, false_iff]
    rintro ⟨w, rest, hb, hw, hlen⟩
    obtain ⟨n, hl, h255⟩ := (wireName_iff w).mp hw
    have := (uncompAux_ok_iff b w.length n).mpr ⟨w, rest, hb, hl, rfl, h255⟩
    rw [h] at this; cases this
  | panic => exact absurd h (uncompAux_no_panic b 0 0)

theorem validateU_true_iff (b : Bytes) (k : Nat) :
    validateUncompressed b true = .ok k ↔ WireName b.toList ∧ k = b.size := by
  have hf := validateU_false_iff b
  unfold validateUncompressed at hf ⊢
  cases h : uncompAux b false 0 0 with
  | ok r =>
    obtain ⟨e, n⟩ := r
    rw [h] at hf
    simp only [Bool.false_and, Bool.false_eq_true, if_false, Out.ok.injEq] at hf
    obtain ⟨w, rest, hb, hw, hlen⟩ := (hf e).mp rfl
    have hsz : b.size = w.length + rest.length := by
      have := congrArg List.length hb; simpa using this
    simp only [Bool.true_and, decide_eq_true_eq]
    constructor
    · intro h1
      split at h1
      · cases h1
      · cases h1
        have : rest = [] := by apply List.eq_nil_of_length_eq_zero; omega
        subst this
        simp only [List.append_nil] at hb
        rw [hb]; exact ⟨hw, by simp at hsz; omega⟩
    · rintro ⟨hw', hk⟩
      obtain ⟨n1, hl1, _⟩ := (wireName_iff _).mp hw
      obtain ⟨n2, hl2, _⟩ := (wireName_iff _).mp hw'
      have := lname_prefix_unique (x := rest) (y := []) hl1 hl2 (by simpa using hb.symm)
      obtain ⟨a, _, c⟩ := this
      subst c
      simp at hsz
      have : ¬ (e < b.size) := by omega
      simp [this]; omega
  | err e =>
    rw [h] at hf
    simp only [reduceCtorEq, false_iff]
    rintro ⟨hw, _⟩
    have := (hf b.toList.length).mpr ⟨b.toList, [], by simp, hw, rfl⟩
    cases this
  | panic => exact absurd h (uncompAux_no_panic b 0 0)


/-! ### Splits -/

@[simp] theorem splits_nil_iff (r : List UInt8) (fs : List (List UInt8)) :
    Splits [] r fs ↔ r = [] ∧ fs = [] := by
  constructor
  · intro h; cases h; exact ⟨rfl, rfl⟩
  · rintro ⟨rfl, rfl⟩; exact Splits.nil

theorem splits_name_iff (ls : List Field) (r : List UInt8) (fs : List (List UInt8)) :
    Splits (.name :: ls) r fs ↔
      ∃ w rest fs', r = w ++ rest ∧ fs = w :: fs' ∧ WireName w ∧ Splits ls rest fs' := by
  constructor
  · intro h; cases h with | name hw tl => exact ⟨_, _, _, rfl, rfl, hw, tl⟩
  · rintro ⟨w, rest, fs', rfl, rfl, hw, tl⟩; exact Splits.name hw tl

theorem splits_fixed_iff (n : Nat) (ls : List Field) (r : List UInt8) (fs : List (List UInt8)) :
    Splits (.fixed n :: ls) r fs ↔
      ∃ f rest fs', r = f ++ rest ∧ fs = f :: fs' ∧ f.length = n ∧ Splits ls rest fs' := by
  constructor
  · intro h; cases h with | fixed hf tl => exact ⟨_, _, _, rfl, rfl, hf, tl⟩
  · rintro ⟨f, rest, fs', rfl, rfl, hf, tl⟩; exact Splits.fixed hf tl

/-- length of the uncompressed name at the start of a list (the model's validator, on lists) -/
def unameLen (r : List UInt8) : Option Nat := (validateUncompressed r.toArray false).toOption

theorem unameLen_some (r : List UInt8) (k : Nat) :
    unameLen r = some k ↔ ∃ w rest, r = w ++ rest ∧ WireName w ∧ w.length = k := by
  unfold unameLen
  rw [← validateU_false_iff r.toArray k]
  cases validateUncompressed r.toArray false <;> simp [Out.toOption]

theorem unameLen_le (r : List UInt8) (k : Nat) (h : unameLen r = some k) : k ≤ r.length ∧ 0 < k := by
  obtain ⟨w, rest, rfl, hw, rfl⟩ := (unameLen_some r k).mp h
  obtain ⟨n, hl, _⟩ := (wireName_iff w).mp hw
  have := hl.pos
  simp; omega

/-- deterministic splitting of RDATA along a layout -/
def split? : List Field → List UInt8 → Option (List (List UInt8))
  | [], r => if r = [] then some [] else none
  | .name :: ls, r =>
    match unameLen r with
    | some k => (split? ls (r.drop k)).map (fun fs => r.take k :: fs)
    | none => none
  | .fixed n :: ls, r =>
    if n ≤ r.length then (split? ls (r.drop n)).map (fun fs => r.take n :: fs) else none

theorem split?_iff (l : List Field) : ∀ (r : List UInt8) (fs : List (List UInt8)),
    split? l r = some fs ↔ Splits l r fs := by
  induction l with
  | nil => intro r fs; simp [split?]
  | cons f ls ih =>
    intro r fs
    cases f with
    | name =>
      rw [splits_name_iff]
      simp only [split?]
      constructor
      · intro h
        cases hk : unameLen r with
        | none => simp [hk] at h
        | some k =>
          simp only [hk, Option.map_eq_some_iff] at h
          obtain ⟨fs', h1, h2⟩ := h
          obtain ⟨w, rest, hr, hw, hl⟩ := (unameLen_some r k).mp hk
          subst hr hl
          simp at h1 h2
          exact ⟨w, rest, fs', rfl, h2.symm, hw, (ih _ _).mp h1⟩
      · rintro ⟨w, rest, fs', rfl, rfl, hw, tl⟩
        have hk : unameLen (w ++ rest) = some w.length := (unameLen_some _ _).mpr ⟨w, rest, rfl, hw, rfl⟩
        simp [hk, (ih _ _).mpr tl]
    | fixed n =>
      rw [splits_fixed_iff]
      simp only [split?]
      constructor
      · intro h
        split at h
        · rename_i hn
          simp only [Option.map_eq_some_iff] at h
          obtain ⟨fs', h1, h2⟩ := h
          exact ⟨r.take n, r.drop n, fs', by simp, h2.symm, by simp; omega, (ih _ _).mp h1⟩
        · cases h
      · rintro ⟨f, rest, fs', rfl, rfl, hf, tl⟩
        subst hf
        simp [(ih _ _).mpr tl]

theorem splits_unique {l r fs fs'} (h : Splits l r fs) (h' : Splits l r fs') : fs = fs' := by
  have a := (split?_iff l r fs).mpr h
  have b := (split?_iff l r fs').mpr h'
  rw [a] at b; cases b; rfl

/-! ### validation of the name-bearing formats = deterministic splitting -/

theorem drop_toArray (b : Bytes) (k : Nat) : (b.toList.drop k).toArray = b.extract k b.size := by
  apply Array.toList_inj.mp
  simp
  rw [List.take_of_length_le]
  simp

@[simp] theorem unameLen_toList (b : Bytes) : unameLen b.toList = (validateUncompressed b false).toOption := by
  simp [unameLen]

@[simp] theorem unameLen_drop (b : Bytes) (k : Nat) :
    unameLen (b.toList.drop k) = (validateUncompressed (b.extract k b.size) false).toOption := by
  simp [unameLen, drop_toArray]

theorem validateU_true_eq (b : Bytes) :
    validateUncompressed b true =
      match validateUncompressed b false with
      | .ok k => if k < b.size then .err .ExtraData else .ok k
      | .err e => .err e
      | .panic => .panic := by
  unfold validateUncompressed
  cases uncompAux b false 0 0 with
  | ok r => obtain ⟨a, c⟩ := r; simp
  | err e => rfl
  | panic => rfl

theorem validateU_le (b : Bytes) (k : Nat) (h : validateUncompressed b false = .ok k) : k ≤ b.size ∧ 0 < k := by
  have := unameLen_le b.toList k (by simp [h, Out.toOption])
  simpa using this

@[simp] theorem sliceFrom_ok (b : Bytes) (i : Nat) (h : i ≤ b.size) :
    sliceFrom b i = .ok (b.extract i b.size) := by simp [sliceFrom, h]


/-- finish a goal `arith ↔ (if … then some _ else none).isSome = true` -/
macro "fin_split" : tactic => `(tactic|
  (repeat' split) <;> (first | omega | (simp; done) | (simp; omega) | (simp at *; omega)))

theorem validateName_split (r : Bytes) :
    validateName r = .ok () ↔ (split? [.name] r.toList).isSome := by
  unfold validateName
  rw [validateU_true_eq]
  simp only [split?, unameLen_toList]
  cases h1 : validateUncompressed r false with
  | ok k1 =>
    obtain ⟨hk1, _⟩ := validateU_le r k1 h1
    simp only [liftName, Out.mapErr, Out.toOption]
    by_cases hlt : k1 < r.size
    · simp [hlt]
    · simp [hlt]; omega
  | err e => simp [liftName, Out.mapErr, Out.toOption]
  | panic => simp [liftName, Out.mapErr, Out.toOption]

theorem validateAsChA_split (r : Bytes) :
    validateAsChA r = .ok () ↔ (split? [.name, .fixed 2] r.toList).isSome := by
  unfold validateAsChA
  simp only [split?, unameLen_toList]
  cases h1 : validateUncompressed r false with
  | ok k1 =>
    obtain ⟨hk1, _⟩ := validateU_le r k1 h1
    simp [liftName, Out.mapErr, Out.toOption]
    fin_split
  | err e => simp [liftName, Out.mapErr, Out.toOption]
  | panic => simp [liftName, Out.mapErr, Out.toOption]

theorem validateAsSoa_split (r : Bytes) :
    validateAsSoa r = .ok () ↔ (split? [.name, .name, .fixed 20] r.toList).isSome := by
  unfold validateAsSoa
  simp only [split?, unameLen_toList]
  cases h1 : validateUncompressed r false with
  | ok k1 =>
    obtain ⟨hk1, _⟩ := validateU_le r k1 h1
    simp only [liftName, Out.mapErr, Out.toOption, Out.bind_ok, sliceFrom_ok r k1 hk1, unameLen_drop]
    cases h2 : validateUncompressed (r.extract k1 r.size) false with
    | ok k2 =>
      obtain ⟨hk2, _⟩ := validateU_le _ k2 h2
      simp at hk2
      simp
      fin_split
    | err e => simp
    | panic => simp
  | err e => simp [liftName, Out.mapErr, Out.toOption]
  | panic => simp [liftName, Out.mapErr, Out.toOption]

theorem validateAsMinfo_split (r : Bytes) :
    validateAsMinfo r = .ok () ↔ (split? [.name, .name] r.toList).isSome := by
  unfold validateAsMinfo
  simp only [split?, unameLen_toList]
  cases h1 : validateUncompressed r false with
  | ok k1 =>
    obtain ⟨hk1, _⟩ := validateU_le r k1 h1
    simp only [liftName, Out.mapErr, Out.toOption, Out.bind_ok, sliceFrom_ok r k1 hk1, unameLen_drop]
    rw [validateU_true_eq]
    cases h2 : validateUncompressed (r.extract k1 r.size) false with
    | ok k2 =>
      obtain ⟨hk2, _⟩ := validateU_le _ k2 h2
      simp at hk2
      by_cases hlt : k2 < r.size - k1 <;> simp [hlt] <;> omega
    | err e => simp
    | panic => simp
  | err e => simp [liftName, Out.mapErr, Out.toOption]
  | panic => simp [liftName, Out.mapErr, Out.toOption]

theorem validateFixedName_split (n : Nat) (r : Bytes) :
    (if n ≤ r.size then liftName (validateUncompressed (r.extract n r.size) true) >>= fun _ => .ok ()
     else (.err .Other : Out RErr Unit)) = .ok () ↔ (split? [.fixed n, .name] r.toList).isSome := by
  simp only [split?]
  by_cases hn : n ≤ r.size
  · simp only [hn, if_true, Array.length_toList, unameLen_drop]
    rw [validateU_true_eq]
    cases h2 : validateUncompressed (r.extract n r.size) false with
    | ok k2 =>
      obtain ⟨hk2, _⟩ := validateU_le _ k2 h2
      simp at hk2
      by_cases hlt : k2 < r.size - n <;> simp [hlt, liftName, Out.mapErr, Out.toOption] <;> omega
    | err e => simp [liftName, Out.mapErr, Out.toOption]
    | panic => simp [liftName, Out.mapErr, Out.toOption]
  · simp [hn]

theorem validateAsMx_split (r : Bytes) :
    validateAsMx r = .ok () ↔ (split? [.fixed 2, .name] r.toList).isSome := validateFixedName_split 2 r

theorem validateAsInSrv_split (r : Bytes) :
    validateAsInSrv r = .ok () ↔ (split? [.fixed 6, .name] r.toList).isSome := validateFixedName_split 6 r

end QV.Rdata
