/-
  QV.Proofs.Rdata — helper lemmas for C18 / C19: wire-form names at list level, the bridge between
  the model's uncompressed-name functions and `QV.Spec.WireName`, layouts (`Splits`, `Expands`),
  dispatch through the generated tables.
-/
import QV.Proofs.Wire
import QV.Model.Rdata
import QV.Spec.Rdata

namespace QV.Rdata
open QV QV.Wire QV.Spec

/-! ### arrays and lists -/

theorem extract_split (b : Bytes) (i j k : Nat) (h1 : i ≤ j) (h2 : j ≤ k) :
    (b.extract i k).toList = (b.extract i j).toList ++ (b.extract j k).toList := by
  simp only [← Array.toList_append]
  congr 1
  rw [Array.extract_append_extract]
  congr 1 <;> omega

theorem extract_head (b : Bytes) (i j : Nat) (x : UInt8) (xs : List UInt8)
    (h : (b.extract i j).toList = x :: xs) : ∃ hi : i < b.size, b[i] = x := by
  have hl := congrArg List.length h
  simp at hl
  have hi : i < b.size := by omega
  refine ⟨hi, ?_⟩
  have h0 : 0 < (b.extract i j).toList.length := by rw [h]; simp
  have e := List.getElem_of_eq h h0
  simpa using e

/-! ### wire-form names at list level -/

/-- list-level description of an uncompressed wire-form name with `n` labels (root included) -/
inductive LName : List UInt8 → Nat → Prop
  | root : LName [0] 1
  | label {l : UInt8} {body rest : List UInt8} {n : Nat} (h0 : l ≠ 0) (h63 : l.toNat ≤ 63)
      (hb : body.length = l.toNat) (tl : LName rest n) : LName (l :: (body ++ rest)) (n + 1)

theorem LName.pos {w n} (h : LName w n) : 0 < w.length ∧ 0 < n := by
  cases h <;> simp

/-- every decoded name (compressed or not) is a well-formed wire name -/
theorem decodes_lname {msg : Bytes} {pos cs : Nat} {w : List UInt8} {n k : Nat}
    (hd : Decodes msg pos cs w n k) : LName w n := by
  induction hd with
  | null h h0 => exact LName.root
  | @label pos cs w n k h h0 h63 hin rest ih =>
    have hx : (msg.extract pos (pos + msg[pos].toNat + 1)).toList =
        msg[pos] :: (msg.extract (pos + 1) (pos + msg[pos].toNat + 1)).toList := by
      apply List.ext_getElem
      · simp; omega
      · intro i h1 h2
        simp at h1 h2 ⊢
        cases i with
        | zero => simp
        | succ j => simp; congr 1; omega
    rw [hx]
    simp only [List.cons_append]
    exact LName.label h0 h63 (by simp; omega) ih
  | ptr h hp hb rest ih => exact ih

/-- without pointers (chunk start 0) the name is the octets it occupies -/
theorem decodes0_extract {b : Bytes} {pos cs : Nat} {w : List UInt8} {n k : Nat}
    (hd : Decodes b pos cs w n k) (hcs : cs = 0) :
    w = (b.extract pos (pos + k)).toList ∧ k = w.length ∧ pos + k ≤ b.size := by
  induction hd with
  | @null pos cs h h0 =>
    refine ⟨?_, rfl, by omega⟩
    apply List.ext_getElem
    · simp; omega
    · intro i h1 h2; simp at h1; subst h1; simp [h0]
  | @label pos cs w n k h h0 h63 hin rest ih =>
    obtain ⟨e1, e2, e3⟩ := ih hcs
    refine ⟨?_, ?_, by omega⟩
    · have e : pos + b[pos].toNat + 1 + k = pos + (b[pos].toNat + 1 + k) := by omega
      rw [e] at e1
      rw [extract_split b pos (pos + b[pos].toNat + 1) (pos + (b[pos].toNat + 1 + k)) (by omega) (by omega), ← e1]
    · simp; omega
  | ptr h hp hb rest ih => omega

/-- the first chunk of any decoded name lies inside the buffer -/
theorem decodes_len_le {b : Bytes} {pos cs : Nat} {w : List UInt8} {n k : Nat}
    (hd : Decodes b pos cs w n k) : pos + k ≤ b.size ∧ 0 < k := by
  induction hd with
  | null h h0 => omega
  | label h h0 h63 hin rest ih => omega
  | ptr h hp hb rest ih => omega

/-- a well-formed wire name lying at `pos` of a buffer decodes there, whatever the chunk start -/
theorem lname_decodes {w : List UInt8} {n : Nat} (h : LName w n) :
    ∀ (b : Bytes) (pos cs : Nat), (b.extract pos (pos + w.length)).toList = w → pos + w.length ≤ b.size →
      Decodes b pos cs w n w.length := by
  induction h with
  | root =>
    intro b pos cs hx hs
    obtain ⟨hlt, h0⟩ := extract_head b _ _ _ _ hx
    exact Decodes.null hlt h0
  | @label l body rest n h0 h63 hb tl ih =>
    intro b pos cs hx hs
    simp only [List.length_cons, List.length_append] at hs hx
    obtain ⟨hlt, hbl⟩ := extract_head b _ _ _ _ hx
    have hsplit := extract_split b pos (pos + l.toNat + 1) (pos + (body.length + rest.length + 1)) (by omega) (by omega)
    rw [hx] at hsplit
    have hl : (l :: (body ++ rest)) = (l :: body) ++ rest := by simp
    rw [hl] at hsplit
    have hlen : (l :: body).length = (b.extract pos (pos + l.toNat + 1)).toList.length := by
      simp only [List.length_cons, Array.length_toList, Array.size_extract]; omega
    obtain ⟨e1, e2⟩ := List.append_inj hsplit hlen
    have e4 : pos + l.toNat + 1 + rest.length = pos + (body.length + rest.length + 1) := by omega
    have ih' := ih b (pos + l.toNat + 1) cs (by rw [e4]; exact e2.symm) (by omega)
    have := Decodes.label (cs := cs) hlt (by rw [hbl]; exact h0) (by rw [hbl]; exact h63) (by rw [hbl]; omega)
      (by rw [hbl]; exact ih')
    rw [hbl, ← e1] at this
    have e3 : (l :: (body ++ rest)).length = l.toNat + 1 + rest.length := by simp; omega
    rw [e3]
    simpa using this

/-! ### the model's uncompressed-name functions at list level -/

theorem toList_extract0 (b : Bytes) (w rest : List UInt8) (h : b.toList = w ++ rest) :
    (b.extract 0 w.length).toList = w := by
  simp [h]

theorem wireName_iff (w : List UInt8) : WireName w ↔ ∃ n, LName w n ∧ w.length ≤ 255 := by
  constructor
  · rintro ⟨n, hd, hl⟩
    exact ⟨n, decodes_lname hd, hl⟩
  · rintro ⟨n, hl, hlen⟩
    refine ⟨n, ?_, hlen⟩
    exact lname_decodes hl w.toArray 0 0 (by simp) (by simp)

/-- spec ⇒ model for the uncompressed-name loop -/
theorem uncompAux_complete (b : Bytes) {off cs : Nat} {w : List UInt8} {n k : Nat}
    (hd : Decodes b off cs w n k) (hcs : cs = 0) :
    ∀ nl, off + k ≤ 255 → uncompAux b false off nl = .ok (off + k, nl + n) := by
  obtain ⟨c1, c2, c3⟩ := consts
  induction hd with
  | @null pos cs h h0 =>
    intro nl hk
    rw [uncompAux]
    have e1 : ¬ (pos + 0 + 1 > 255) := by omega
    simp [h, h0, c1, c2, e1]
  | @label pos cs w n k h h0 h63 hin rest ih =>
    intro nl hk
    rw [uncompAux]
    have e1 : ¬ (b[pos].toNat > 63) := by omega
    have e2 : ¬ (pos + b[pos].toNat + 1 > 255) := by omega
    simp only [h, dite_true, c1, c2, e1, e2, if_false, h0, Bool.false_and, Bool.false_eq_true]
    rw [ih hcs (nl + 1) (by omega)]
    congr 2 <;> omega
  | ptr h hp hb rest ih => omega

theorem uncompAux_ok_iff (b : Bytes) (e n : Nat) :
    uncompAux b false 0 0 = .ok (e, n) ↔ ∃ w rest, b.toList = w ++ rest ∧ LName w n ∧ w.length = e ∧ e ≤ 255 := by
  constructor
  · intro h
    obtain ⟨hd, h1, h2, h3, h4⟩ := uncompAux_sound b false 0 0 e n h
    simp only [Nat.sub_zero] at hd
    refine ⟨(b.extract 0 e).toList, (b.extract e b.size).toList, ?_, decodes_lname hd, by simp; omega, h3⟩
    rw [← extract_split b 0 e b.size (by omega) h2]
    simp
  · rintro ⟨w, rest, hb, hl, hlen, h255⟩
    have hd := lname_decodes hl b 0 0 (by simpa using toList_extract0 b w rest hb)
      (by have := congrArg List.length hb; simp at this; omega)
    have := uncompAux_complete b hd rfl 0 (by omega)
    simpa [hlen] using this


theorem lname_prefix_unique {w w' : List UInt8} {n n' : Nat} {x y : List UInt8}
    (h : LName w n) : LName w' n' → w ++ x = w' ++ y → w = w' ∧ n = n' ∧ x = y := by
  induction h generalizing w' n' with
  | root =>
    intro h' e
    cases h' with
    | root => simpa using e
    | label h0 => simp at e; exact absurd e.1.symm h0
  | @label l body rest n h0 h63 hb tl ih =>
    intro h' e
    cases h' with
    | root => simp at e; exact absurd e.1 h0
    | @label l' body' rest' n' h0' h63' hb' tl' =>
      simp only [List.cons_append, List.cons.injEq, List.append_assoc] at e
      obtain ⟨el, e2⟩ := e
      subst el
      obtain ⟨eb, er⟩ := List.append_inj e2 (by omega)
      subst eb
      obtain ⟨a, b, c⟩ := ih tl' er
      subst a b c
      exact ⟨rfl, rfl, rfl⟩

theorem validateU_no_panic (b : Bytes) (u : Bool) : validateUncompressed b u ≠ .panic := by
  unfold validateUncompressed
  have := uncompAux_no_panic b 0 0
  cases h : uncompAux b false 0 0 <;> simp_all
  split <;> simp

theorem validateU_false_iff (b : Bytes) (k : Nat) :
    validateUncompressed b false = .ok k ↔ ∃ w rest, b.toList = w ++ rest ∧ WireName w ∧ w.length = k := by
  unfold validateUncompressed
  cases h : uncompAux b false 0 0 with
  | ok r =>
    obtain ⟨e, n⟩ := r
    obtain ⟨w, rest, hb, hl, hlen, h255⟩ := (uncompAux_ok_iff b e n).mp h
    simp only [Bool.false_and, Bool.false_eq_true, if_false, Out.ok.injEq]
    constructor
    · intro ek; subst ek
      exact ⟨w, rest, hb, (wireName_iff w).mpr ⟨n, hl, by omega⟩, hlen⟩
    · rintro ⟨w', rest', hb', hw', hlen'⟩
      obtain ⟨n', hl', _⟩ := (wireName_iff w').mp hw'
      obtain ⟨a, _, _⟩ := lname_prefix_unique hl hl' (hb.symm.trans hb')
      subst a; omega
  | err e =>
    simp only [reduceCtorEq, false_iff]
    rintro ⟨w, rest, hb, hw, hlen⟩
    obtain ⟨n, hl, h255⟩ := (wireName_iff w).mp hw
    have := (uncompAux_ok_iff b w.length n).mpr ⟨w, rest, hb, hl, rfl, h255⟩
    rw [h] at this; cases this
  | panic => exact absurd h (uncompAux_no_panic b 0 0)

theorem validateU_true_iff (b : Bytes) (k : Nat) :
    validateUncompressed b true = .ok k ↔ WireName b.toList ∧ k = b.size := by
  have hf := validateU_false_iff b
  unfold validateUncompressed at hf ⊢
  cases h : uncompAux b false 0 0 with
  | ok r =>
    obtain ⟨e, n⟩ := r
    rw [h] at hf
    simp only [Bool.false_and, Bool.false_eq_true, if_false, Out.ok.injEq] at hf
    obtain ⟨w, rest, hb, hw, hlen⟩ := (hf e).mp rfl
    have hsz : b.size = w.length + rest.length := by
      have := congrArg List.length hb; simpa using this
    simp only [Bool.true_and, decide_eq_true_eq]
    constructor
    · intro h1
      split at h1
      · cases h1
      · cases h1
        have : rest = [] := by apply List.eq_nil_of_length_eq_zero; omega
        subst this
        simp only [List.append_nil] at hb
        rw [hb]; exact ⟨hw, by simp at hsz; omega⟩
    · rintro ⟨hw', hk⟩
      obtain ⟨n1, hl1, _⟩ := (wireName_iff _).mp hw
      obtain ⟨n2, hl2, _⟩ := (wireName_iff _).mp hw'
      have := lname_prefix_unique (x := rest) (y := []) hl1 hl2 (by simpa using hb.symm)
      obtain ⟨a, _, c⟩ := this
      subst c
      simp at hsz
      have : ¬ (e < b.size) := by omega
      simp [this]; omega
  | err e =>
    rw [h] at hf
    simp only [reduceCtorEq, false_iff]
    rintro ⟨hw, _⟩
    have := (hf b.toList.length).mpr ⟨b.toList, [], by simp, hw, rfl⟩
    cases this
  | panic => exact absurd h (uncompAux_no_panic b 0 0)


/-! ### Splits -/

@[simp] theorem splits_nil_iff (r : List UInt8) (fs : List (List UInt8)) :
    Splits [] r fs ↔ r = [] ∧ fs = [] := by
  constructor
  · intro h; cases h; exact ⟨rfl, rfl⟩
  · rintro ⟨rfl, rfl⟩; exact Splits.nil

theorem splits_name_iff (ls : List Field) (r : List UInt8) (fs : List (List UInt8)) :
    Splits (.name :: ls) r fs ↔
      ∃ w rest fs', r = w ++ rest ∧ fs = w :: fs' ∧ WireName w ∧ Splits ls rest fs' := by
  constructor
  · intro h; cases h with | name hw tl => exact ⟨_, _, _, rfl, rfl, hw, tl⟩
  · rintro ⟨w, rest, fs', rfl, rfl, hw, tl⟩; exact Splits.name hw tl

theorem splits_fixed_iff (n : Nat) (ls : List Field) (r : List UInt8) (fs : List (List UInt8)) :
    Splits (.fixed n :: ls) r fs ↔
      ∃ f rest fs', r = f ++ rest ∧ fs = f :: fs' ∧ f.length = n ∧ Splits ls rest fs' := by
  constructor
  · intro h; cases h with | fixed hf tl => exact ⟨_, _, _, rfl, rfl, hf, tl⟩
  · rintro ⟨f, rest, fs', rfl, rfl, hf, tl⟩; exact Splits.fixed hf tl

/-- length of the uncompressed name at the start of a list (the model's validator, on lists) -/
def unameLen (r : List UInt8) : Option Nat := (validateUncompressed r.toArray false).toOption

theorem unameLen_some (r : List UInt8) (k : Nat) :
    unameLen r = some k ↔ ∃ w rest, r = w ++ rest ∧ WireName w ∧ w.length = k := by
  unfold unameLen
  rw [← validateU_false_iff r.toArray k]
  cases validateUncompressed r.toArray false <;> simp [Out.toOption]

theorem unameLen_le (r : List UInt8) (k : Nat) (h : unameLen r = some k) : k ≤ r.length ∧ 0 < k := by
  obtain ⟨w, rest, rfl, hw, rfl⟩ := (unameLen_some r k).mp h
  obtain ⟨n, hl, _⟩ := (wireName_iff w).mp hw
  have := hl.pos
  simp; omega

/-- deterministic splitting of RDATA along a layout -/
def split? : List Field → List UInt8 → Option (List (List UInt8))
  | [], r => if r = [] then some [] else none
  | .name :: ls, r =>
    match unameLen r with
    | some k => (split? ls (r.drop k)).map (fun fs => r.take k :: fs)
    | none => none
  | .fixed n :: ls, r =>
    if n ≤ r.length then (split? ls (r.drop n)).map (fun fs => r.take n :: fs) else none

theorem split?_iff (l : List Field) : ∀ (r : List UInt8) (fs : List (List UInt8)),
    split? l r = some fs ↔ Splits l r fs := by
  induction l with
  | nil => intro r fs; simp [split?]
  | cons f ls ih =>
    intro r fs
    cases f with
    | name =>
      rw [splits_name_iff]
      simp only [split?]
      constructor
      · intro h
        cases hk : unameLen r with
        | none => simp [hk] at h
        | some k =>
          simp only [hk, Option.map_eq_some_iff] at h
          obtain ⟨fs', h1, h2⟩ := h
          obtain ⟨w, rest, hr, hw, hl⟩ := (unameLen_some r k).mp hk
          subst hr hl
          simp at h1 h2
          exact ⟨w, rest, fs', rfl, h2.symm, hw, (ih _ _).mp h1⟩
      · rintro ⟨w, rest, fs', rfl, rfl, hw, tl⟩
        have hk : unameLen (w ++ rest) = some w.length := (unameLen_some _ _).mpr ⟨w, rest, rfl, hw, rfl⟩
        simp [hk, (ih _ _).mpr tl]
    | fixed n =>
      rw [splits_fixed_iff]
      simp only [split?]
      constructor
      · intro h
        split at h
        · rename_i hn
          simp only [Option.map_eq_some_iff] at h
          obtain ⟨fs', h1, h2⟩ := h
          exact ⟨r.take n, r.drop n, fs', by simp, h2.symm, by simp; omega, (ih _ _).mp h1⟩
        · cases h
      · rintro ⟨f, rest, fs', rfl, rfl, hf, tl⟩
        subst hf
        simp [(ih _ _).mpr tl]

theorem splits_unique {l r fs fs'} (h : Splits l r fs) (h' : Splits l r fs') : fs = fs' := by
  have a := (split?_iff l r fs).mpr h
  have b := (split?_iff l r fs').mpr h'
  rw [a] at b; cases b; rfl

/-! ### validation of the name-bearing formats = deterministic splitting -/

theorem drop_toArray (b : Bytes) (k : Nat) : (b.toList.drop k).toArray = b.extract k b.size := by
  apply Array.toList_inj.mp
  simp
  rw [List.take_of_length_le]
  simp

@[simp] theorem unameLen_toList (b : Bytes) : unameLen b.toList = (validateUncompressed b false).toOption := by
  simp [unameLen]

@[simp] theorem unameLen_drop (b : Bytes) (k : Nat) :
    unameLen (b.toList.drop k) = (validateUncompressed (b.extract k b.size) false).toOption := by
  simp [unameLen, drop_toArray]

theorem validateU_true_eq (b : Bytes) :
    validateUncompressed b true =
      match validateUncompressed b false with
      | .ok k => if k < b.size then .err .ExtraData else .ok k
      | .err e => .err e
      | .panic => .panic := by
  unfold validateUncompressed
  cases uncompAux b false 0 0 with
  | ok r => obtain ⟨a, c⟩ := r; simp
  | err e => rfl
  | panic => rfl

theorem validateU_le (b : Bytes) (k : Nat) (h : validateUncompressed b false = .ok k) : k ≤ b.size ∧ 0 < k := by
  have := unameLen_le b.toList k (by simp [h, Out.toOption])
  simpa using this

@[simp] theorem sliceFrom_ok (b : Bytes) (i : Nat) (h : i ≤ b.size) :
    sliceFrom b i = .ok (b.extract i b.size) := by simp [sliceFrom, h]


/-- finish a goal `arith ↔ (if … then some _ else none).isSome = true` -/
macro "fin_split" : tactic => `(tactic|
  (repeat' split) <;> (first | omega | (simp; done) | (simp; omega) | (simp at *; omega)))

theorem validateName_split (r : Bytes) :
    validateName r = .ok () ↔ (split? [.name] r.toList).isSome := by
  unfold validateName
  rw [validateU_true_eq]
  simp only [split?, unameLen_toList]
  cases h1 : validateUncompressed r false with
  | ok k1 =>
    obtain ⟨hk1, _⟩ := validateU_le r k1 h1
    simp only [liftName, Out.mapErr, Out.toOption]
    by_cases hlt : k1 < r.size
    · simp [hlt]
    · simp [hlt]; omega
  | err e => simp [liftName, Out.mapErr, Out.toOption]
  | panic => simp [liftName, Out.mapErr, Out.toOption]

theorem validateAsChA_split (r : Bytes) :
    validateAsChA r = .ok () ↔ (split? [.name, .fixed 2] r.toList).isSome := by
  unfold validateAsChA
  simp only [split?, unameLen_toList]
  cases h1 : validateUncompressed r false with
  | ok k1 =>
    obtain ⟨hk1, _⟩ := validateU_le r k1 h1
    simp [liftName, Out.mapErr, Out.toOption]
    fin_split
  | err e => simp [liftName, Out.mapErr, Out.toOption]
  | panic => simp [liftName, Out.mapErr, Out.toOption]

theorem validateAsSoa_split (r : Bytes) :
    validateAsSoa r = .ok () ↔ (split? [.name, .name, .fixed 20] r.toList).isSome := by
  unfold validateAsSoa
  simp only [split?, unameLen_toList]
  cases h1 : validateUncompressed r false with
  | ok k1 =>
    obtain ⟨hk1, _⟩ := validateU_le r k1 h1
    simp only [liftName, Out.mapErr, Out.toOption, Out.bind_ok, sliceFrom_ok r k1 hk1, unameLen_drop]
    cases h2 : validateUncompressed (r.extract k1 r.size) false with
    | ok k2 =>
      obtain ⟨hk2, _⟩ := validateU_le _ k2 h2
      simp at hk2
      simp
      fin_split
    | err e => simp
    | panic => simp
  | err e => simp [liftName, Out.mapErr, Out.toOption]
  | panic => simp [liftName, Out.mapErr, Out.toOption]

theorem validateAsMinfo_split (r : Bytes) :
    validateAsMinfo r = .ok () ↔ (split? [.name, .name] r.toList).isSome := by
  unfold validateAsMinfo
  simp only [split?, unameLen_toList]
  cases h1 : validateUncompressed r false with
  | ok k1 =>
    obtain ⟨hk1, _⟩ := validateU_le r k1 h1
    simp only [liftName, Out.mapErr, Out.toOption, Out.bind_ok, sliceFrom_ok r k1 hk1, unameLen_drop]
    rw [validateU_true_eq]
    cases h2 : validateUncompressed (r.extract k1 r.size) false with
    | ok k2 =>
      obtain ⟨hk2, _⟩ := validateU_le _ k2 h2
      simp at hk2
      by_cases hlt : k2 < r.size - k1 <;> simp [hlt] <;> omega
    | err e => simp
    | panic => simp
  | err e => simp [liftName, Out.mapErr, Out.toOption]
  | panic => simp [liftName, Out.mapErr, Out.toOption]

theorem validateFixedName_split (n : Nat) (r : Bytes) :
    (if n ≤ r.size then liftName (validateUncompressed (r.extract n r.size) true) >>= fun _ => .ok ()
     else (.err .Other : Out RErr Unit)) = .ok () ↔ (split? [.fixed n, .name] r.toList).isSome := by
  simp only [split?]
  by_cases hn : n ≤ r.size
  · simp only [hn, if_true, Array.length_toList, unameLen_drop]
    rw [validateU_true_eq]
    cases h2 : validateUncompressed (r.extract n r.size) false with
    | ok k2 =>
      obtain ⟨hk2, _⟩ := validateU_le _ k2 h2
      simp at hk2
      by_cases hlt : k2 < r.size - n <;> simp [hlt, liftName, Out.mapErr, Out.toOption] <;> omega
    | err e => simp [liftName, Out.mapErr, Out.toOption]
    | panic => simp [liftName, Out.mapErr, Out.toOption]
  · simp [hn]

theorem validateAsMx_split (r : Bytes) :
    validateAsMx r = .ok () ↔ (split? [.fixed 2, .name] r.toList).isSome := validateFixedName_split 2 r

theorem validateAsInSrv_split (r : Bytes) :
    validateAsInSrv r = .ok () ↔ (split? [.fixed 6, .name] r.toList).isSome := validateFixedName_split 6 r

/-! ### name equality -/

theorem lower_eq (b : UInt8) : lowerU8 b = specLower b := rfl

theorem lower_small (l : UInt8) (h : l.toNat ≤ 63) : specLower l = l := by
  unfold specLower; have : ¬ (0x41 ≤ l.toNat ∧ l.toNat ≤ 0x5a) := by omega
  simp [this]

theorem lower_small_inj (l l' : UInt8) (h : l.toNat ≤ 63) (h' : l'.toNat ≤ 63) :
    specLower l = specLower l' ↔ l = l' := by
  rw [lower_small l h, lower_small l' h']

theorem labelEq_iff (a b : List UInt8) :
    labelEq a b = true ↔ a.length = b.length ∧ a.map specLower = b.map specLower := by
  unfold labelEq
  induction a generalizing b with
  | nil => cases b <;> simp
  | cons x xs ih =>
    cases b with
    | nil => simp
    | cons y ys =>
      have := ih ys
      simp [lower_eq] at this ⊢
      intro h1 _
      exact this h1

def lblsEq (a b : List (List UInt8)) : Bool := (a.zip b).all (fun x => labelEq x.1 x.2)

theorem labelsOf_root : labelsOf [0] = [[]] := by
  rw [labelsOf]; simp; rw [labelsOf]

theorem labelsOf_label (l : UInt8) (body rest : List UInt8) (hb : body.length = l.toNat) :
    labelsOf (l :: (body ++ rest)) = body :: labelsOf rest := by
  rw [labelsOf]
  rw [← hb]
  simp

theorem nameEq_aux {w : List UInt8} {n : Nat} (h : LName w n) :
    ∀ {w' : List UInt8} {n' : Nat}, LName w' n' →
      ((n == n' && lblsEq (labelsOf w) (labelsOf w')) = true ↔ w.map specLower = w'.map specLower) := by
  induction h with
  | root =>
    intro w' n' h'
    cases h' with
    | root => simp [labelsOf_root, lblsEq, labelEq]
    | @label l' body' rest' m h0' h63' hb' tl' =>
      have := tl'.pos
      have e : ¬ (m = 0) := by omega
      have : rest' ≠ [] := by intro e; rw [e] at this; simp at this
      simp [e, this]
  | @label l body rest n h0 h63 hb tl ih =>
    intro w' n' h'
    cases h' with
    | root =>
      have := tl.pos
      have e : ¬ (n = 0) := by omega
      have : rest ≠ [] := by intro e; rw [e] at this; simp at this
      simp [e, this]
    | @label l' body' rest' m h0' h63' hb' tl' =>
      rw [labelsOf_label l body rest hb, labelsOf_label l' body' rest' hb']
      have ih' := ih tl'
      simp only [lblsEq, List.zip_cons_cons, List.all_cons, Bool.and_eq_true, beq_iff_eq] at ih' ⊢
      rw [labelEq_iff]
      simp only [List.map_cons, List.map_append, List.cons.injEq, Nat.add_right_cancel_iff]
      rw [lower_small_inj l l' h63 h63']
      constructor
      · rintro ⟨hn, ⟨hlen, hbody⟩, hrest⟩
        have hl : l = l' := by
          apply UInt8.toNat_inj.mp; omega
        refine ⟨hl, ?_⟩
        rw [hbody, (ih'.mp ⟨hn, hrest⟩)]
      · rintro ⟨hl, happ⟩
        subst hl
        have hlen : body.length = body'.length := by omega
        obtain ⟨e1, e2⟩ := List.append_inj happ (by simp [hlen])
        have := ih'.mpr e2
        exact ⟨this.1, ⟨hlen, e1⟩, this.2⟩

theorem nameEq_iff (p q : Parsed) (hp : LName p.wire p.nlabels) (hq : LName q.wire q.nlabels) :
    nameEq p q = true ↔ NameCiEq p.wire q.wire := by
  unfold nameEq NameCiEq
  exact nameEq_aux hp hq


theorem parseU_ok (x : Bytes) (p : Parsed) (h : parseUncompressed x false = .ok p) :
    ∃ rest, x.toList = p.wire ++ rest ∧ LName p.wire p.nlabels ∧ p.len = p.wire.length ∧
      validateUncompressed x false = .ok p.len := by
  have hv := (validate_iff_parse x false p.len).mpr ⟨p, h, rfl⟩
  unfold parseUncompressed at h
  rw [uncompAux_track x 0 0 (by omega) (by omega)] at h
  cases hu : uncompAux x false 0 0 with
  | ok r =>
    obtain ⟨off, nl⟩ := r
    rw [hu] at h
    simp at h
    obtain ⟨w, rest, hb, hl, hlen, h255⟩ := (uncompAux_ok_iff x off nl).mp hu
    subst h
    have : List.take off x.toList = w := by rw [hb, ← hlen]; simp
    simp only [this]
    exact ⟨rest, hb, hl, hlen.symm, hv⟩
  | err e => rw [hu] at h; cases h
  | panic => rw [hu] at h; cases h

/-- one iteration of `test_n_name_fields`, at list level -/
theorem tnf_step (a b : Bytes) (n off : Nat) (ha : off ≤ a.size) (hb : off ≤ b.size) :
    testNNameFieldsAux a b (n + 1) off =
      match unameLen (a.toList.drop off), unameLen (b.toList.drop off) with
      | none, none => .ok none
      | some ka, some kb =>
        if NameCiEq ((a.toList.drop off).take ka) ((b.toList.drop off).take kb)
        then testNNameFieldsAux a b n (off + ka) else .ok (some none)
      | _, _ => .ok (some none) := by
  conv => lhs; unfold testNNameFieldsAux
  simp only [sliceFrom_ok a off ha, sliceFrom_ok b off hb, Out.bind_ok, unameLen_drop]
  have npa := parseUncompressed_no_panic (a.extract off a.size) false
  have npb := parseUncompressed_no_panic (b.extract off b.size) false
  cases hpa : parseUncompressed (a.extract off a.size) false with
  | panic => exact absurd hpa npa
  | err ea =>
    have va := (validate_err_iff_parse _ false ea).mpr hpa
    cases hpb : parseUncompressed (b.extract off b.size) false with
    | panic => exact absurd hpb npb
    | err eb =>
      have vb := (validate_err_iff_parse _ false eb).mpr hpb
      simp [va, vb, Out.toOption]
    | ok q =>
      obtain ⟨_, _, _, _, vb⟩ := parseU_ok _ q hpb
      simp [va, vb, Out.toOption]
  | ok p =>
    obtain ⟨ra, hxa, hla, hka, va⟩ := parseU_ok _ p hpa
    cases hpb : parseUncompressed (b.extract off b.size) false with
    | panic => exact absurd hpb npb
    | err eb =>
      have vb := (validate_err_iff_parse _ false eb).mpr hpb
      simp [va, vb, Out.toOption]
    | ok q =>
      obtain ⟨rb, hxb, hlb, hkb, vb⟩ := parseU_ok _ q hpb
      simp only [va, vb, Out.toOption]
      have e1 : List.take p.len (List.drop off a.toList) = p.wire := by
        have : (a.extract off a.size).toList = List.drop off a.toList := by
          simp; rw [List.take_of_length_le]; simp
        rw [← this, hxa, hka]; simp
      have e2 : List.take q.len (List.drop off b.toList) = q.wire := by
        have : (b.extract off b.size).toList = List.drop off b.toList := by
          simp; rw [List.take_of_length_le]; simp
        rw [← this, hxb, hkb]; simp
      rw [e1, e2]
      by_cases hne : nameEq p q = true
      · simp [hne, (nameEq_iff p q hla hlb).mp hne]
      · have : ¬ NameCiEq p.wire q.wire := fun h => hne ((nameEq_iff p q hla hlb).mpr h)
        simp [hne, this]

/-! ### equality: model = Boolean spec over the deterministic splitter -/

/-- field-wise comparison when both sides split along the layout, `fallback` otherwise -/
def eqB' (l : List Field) (a b : List UInt8) (fallback : Bool) : Bool :=
  match split? l a, split? l b with
  | some fa, some fb => specFieldsEq l fa fb
  | _, _ => fallback

/-- Boolean form of `SpecEq` for a layout, over the deterministic splitter -/
def eqB (l : List Field) (a b : List UInt8) : Bool := eqB' l a b (decide (a = b))

theorem bytesEq_iff (a b : Bytes) : bytesEq a b = decide (a.toList = b.toList) := by
  unfold bytesEq
  by_cases h : a = b
  · subst h; simp
  · have : a.toList ≠ b.toList := fun e => h (Array.toList_inj.mp e)
    simp [h, this]

theorem nameCi_length {x y : List UInt8} (h : NameCiEq x y) : x.length = y.length := by
  have := congrArg List.length h; simpa using this

theorem nameCi_refl (x : List UInt8) : NameCiEq x x := rfl

theorem split?_name_some (ls : List Field) (A : List UInt8) (k : Nat) (h : unameLen A = some k) :
    split? (.name :: ls) A = (split? ls (A.drop k)).map (fun fs => A.take k :: fs) := by
  simp [split?, h]

theorem split?_name_none (ls : List Field) (A : List UInt8) (h : unameLen A = none) :
    split? (.name :: ls) A = none := by
  simp [split?, h]

theorem split?_nil_drop (A : List UInt8) (k : Nat) (hk : k ≤ A.length) :
    split? [] (A.drop k) = if k = A.length then some [] else none := by
  simp only [split?, List.drop_eq_nil_iff]
  by_cases h : k = A.length
  · simp [h]
  · have : ¬ A.length ≤ k := by omega
    simp [h, this]

theorem unameLen_ne {A B : List UInt8} (h : unameLen A ≠ unameLen B) : A ≠ B := by
  intro e; rw [e] at h; exact h rfl

theorem namesEqual_eq (a b : Bytes) : namesEqual a b = .ok (eqB [.name] a.toList b.toList) := by
  unfold namesEqual testNNameFields
  rw [tnf_step a b 0 0 (by omega) (by omega)]
  simp only [List.drop_zero, testNNameFieldsAux, eqB, eqB', bytesEq_iff]
  cases hA : unameLen a.toList with
  | none =>
    rw [split?_name_none _ _ hA]
    cases hB : unameLen b.toList with
    | none => simp
    | some kb =>
      have : a.toList ≠ b.toList := unameLen_ne (by rw [hA, hB]; simp)
      simp [this]
  | some ka =>
    obtain ⟨hka, _⟩ := unameLen_le _ _ hA
    rw [split?_name_some _ _ _ hA, split?_nil_drop _ _ hka]
    cases hB : unameLen b.toList with
    | none =>
      have : a.toList ≠ b.toList := unameLen_ne (by rw [hA, hB]; simp)
      rw [split?_name_none _ _ hB]
      simp [this]
    | some kb =>
      obtain ⟨hkb, _⟩ := unameLen_le _ _ hB
      rw [split?_name_some _ _ _ hB, split?_nil_drop _ _ hkb]
      simp only [Array.length_toList] at hka hkb ⊢
      by_cases hci : NameCiEq (List.take ka a.toList) (List.take kb b.toList)
      · have hlen := nameCi_length hci
        simp only [List.length_take, Array.length_toList] at hlen
        have : ka = kb := by omega
        subst this
        simp only [hci, if_true, Out.bind_ok, Nat.zero_add]
        by_cases h1 : ka = a.size
        · by_cases h2 : ka = b.size
          · simp only [eq_true h1, eq_true h2, and_self, if_true, Option.map_some, specFieldsEq]
            have e : (List.map specLower (List.take ka a.toList) == List.map specLower (List.take ka b.toList)) = true := by
              rw [beq_iff_eq]; exact hci
            simp only [e, Bool.true_and]
          · simp [eq_true h1, eq_false h2]
        · simp [eq_false h1]
      · have : a.toList ≠ b.toList := by
          intro e
          rw [e] at hA hci; rw [hA] at hB; cases hB; exact hci (nameCi_refl _)
        simp only [hci, if_false, this, decide_false, Out.bind_ok]
        have e : (List.map specLower (List.take ka a.toList) == List.map specLower (List.take kb b.toList)) = false := by
          rw [beq_eq_false_iff_ne]; exact hci
        by_cases h1 : ka = a.size <;> by_cases h2 : kb = b.size <;>
          first
          | (simp only [eq_true h1, eq_true h2, if_true, Option.map_some, specFieldsEq, e, Bool.false_and]; done)
          | (simp only [eq_true h1, eq_false h2, if_true, if_false, Option.map_some, Option.map_none]; done)
          | (simp only [eq_false h1, if_false, Option.map_none]; done)


theorem split?_flatten (l : List Field) : ∀ (A : List UInt8) (fs : List (List UInt8)),
    split? l A = some fs → fs.flatten = A := by
  intro A fs h
  have := (split?_iff l A fs).mp h
  induction this with
  | nil => rfl
  | name hw tl ih => simp [ih ((split?_iff _ _ _).mpr tl)]
  | fixed hf tl ih => simp [ih ((split?_iff _ _ _).mpr tl)]

theorem specFieldsEq_length (l : List Field) : ∀ (fa fb : List (List UInt8)),
    specFieldsEq l fa fb = true → fa.flatten.length = fb.flatten.length := by
  induction l with
  | nil => intro fa fb h; cases fa <;> cases fb <;> simp_all [specFieldsEq]
  | cons f ls ih =>
    intro fa fb h
    cases fa with
    | nil => cases f <;> simp [specFieldsEq] at h
    | cons x xs =>
      cases fb with
      | nil => cases f <;> simp [specFieldsEq] at h
      | cons y ys =>
        cases f with
        | name =>
          simp only [specFieldsEq, Bool.and_eq_true, beq_iff_eq] at h
          have := ih xs ys h.2
          have hl := congrArg List.length h.1
          simp only [List.length_map] at hl
          simp only [List.flatten_cons, List.length_append]
          omega
        | fixed n =>
          simp only [specFieldsEq, Bool.and_eq_true, beq_iff_eq] at h
          have := ih xs ys h.2
          simp only [List.flatten_cons, List.length_append]
          rw [h.1]; omega

theorem eqB_length (l : List Field) (A B : List UInt8) (h : eqB l A B = true) : A.length = B.length := by
  unfold eqB eqB' at h
  cases hA : split? l A with
  | none => simp [hA] at h; rw [h]
  | some fa =>
    cases hB : split? l B with
    | none => simp [hA, hB] at h; rw [h]
    | some fb =>
      simp only [hA, hB] at h
      have := specFieldsEq_length l fa fb h
      rw [split?_flatten l A fa hA, split?_flatten l B fb hB] at this
      exact this

theorem eqB_of_size_ne (l : List Field) (a b : Bytes) (h : a.size ≠ b.size) :
    eqB l a.toList b.toList = false := by
  cases he : eqB l a.toList b.toList with
  | false => rfl
  | true => have := eqB_length l _ _ he; simp at this; exact absurd this h


/-! peeling one field off `eqB'` -/

theorem eqB'_name_none_left (ls : List Field) (A B : List UInt8) (fb : Bool) (h : unameLen A = none) :
    eqB' (.name :: ls) A B fb = fb := by
  simp [eqB', split?_name_none _ _ h]

theorem eqB'_name_none_right (ls : List Field) (A B : List UInt8) (fb : Bool) (h : unameLen B = none) :
    eqB' (.name :: ls) A B fb = fb := by
  unfold eqB'
  rw [split?_name_none _ _ h]
  cases split? (Field.name :: ls) A <;> rfl

theorem ne_of_not_ci {A B : List UInt8} {ka kb : Nat} (hA : unameLen A = some ka) (hB : unameLen B = some kb)
    (hci : ¬ NameCiEq (A.take ka) (B.take kb)) : A ≠ B := by
  intro e; subst e; rw [hA] at hB; cases hB; exact hci (nameCi_refl _)

theorem eqB'_name_not_ci (ls : List Field) (A B : List UInt8) (ka kb : Nat) (fb : Bool)
    (hA : unameLen A = some ka) (hB : unameLen B = some kb)
    (hci : ¬ NameCiEq (A.take ka) (B.take kb)) (hfb : fb = false) :
    eqB' (.name :: ls) A B fb = false := by
  unfold eqB'
  rw [split?_name_some _ _ _ hA, split?_name_some _ _ _ hB]
  have e : (List.map specLower (List.take ka A) == List.map specLower (List.take kb B)) = false := by
    rw [beq_eq_false_iff_ne]; exact hci
  cases split? ls (A.drop ka) <;> cases split? ls (B.drop kb) <;>
    simp only [specFieldsEq, e, hfb, Option.map_some, Option.map_none, Bool.false_and]

theorem eqB'_name_ci (ls : List Field) (A B : List UInt8) (k : Nat) (fb : Bool)
    (hA : unameLen A = some k) (hB : unameLen B = some k)
    (hci : NameCiEq (A.take k) (B.take k)) :
    eqB' (.name :: ls) A B fb = eqB' ls (A.drop k) (B.drop k) fb := by
  unfold eqB'
  rw [split?_name_some _ _ _ hA, split?_name_some _ _ _ hB]
  have e : (List.map specLower (List.take k A) == List.map specLower (List.take k B)) = true := by
    rw [beq_iff_eq]; exact hci
  cases split? ls (A.drop k) <;> cases split? ls (B.drop k) <;>
    simp only [specFieldsEq, e, Option.map_some, Option.map_none, Bool.true_and]

theorem eqB'_nil (A B : List UInt8) (fb : Bool) :
    eqB' [] A B fb = if A = [] ∧ B = [] then true else fb := by
  unfold eqB'
  simp only [split?]
  by_cases h1 : A = [] <;> by_cases h2 : B = [] <;> simp [h1, h2, specFieldsEq]

theorem eqB'_fixed_last (n : Nat) (A B : List UInt8) (fb : Bool) :
    eqB' [.fixed n] A B fb = if A.length = n ∧ B.length = n then decide (A = B) else fb := by
  unfold eqB'
  simp only [split?, List.drop_eq_nil_iff]
  by_cases h1 : A.length = n <;> by_cases h2 : B.length = n
  · subst h1
    have e : List.take A.length B = B := by rw [← h2]; simp
    simp [h2, specFieldsEq, e]
    by_cases h : A = B <;> simp [h]
  · have : ¬ (n ≤ B.length ∧ B.length ≤ n) := by omega
    by_cases h3 : n ≤ B.length
    · have h4 : ¬ B.length ≤ n := by omega
      simp [h1, h2, h3, h4]
    · simp [h1, h2, h3]
  · by_cases h3 : n ≤ A.length
    · have h4 : ¬ A.length ≤ n := by omega
      simp [h1, h3, h4]
    · simp [h1, h3]
  · by_cases h3 : n ≤ A.length
    · have h4 : ¬ A.length ≤ n := by omega
      simp [h1, h3, h4]
    · simp [h1, h3]

theorem eqB'_fixed_first (n : Nat) (ls : List Field) (A B : List UInt8) (fb : Bool)
    (hA : n ≤ A.length) (hB : n ≤ B.length) :
    eqB' (.fixed n :: ls) A B fb =
      match split? ls (A.drop n), split? ls (B.drop n) with
      | some fa, some fb' => decide (A.take n = B.take n) && specFieldsEq ls fa fb'
      | _, _ => fb := by
  unfold eqB'
  simp only [split?, hA, hB, if_true]
  cases split? ls (A.drop n) <;> cases split? ls (B.drop n) <;>
    simp only [specFieldsEq, Option.map_some, Option.map_none]
  by_cases h : List.take n A = List.take n B <;> simp [h]


theorem drop_ne {A B : List UInt8} {k : Nat} (h : A.drop k ≠ B.drop k) : A ≠ B := by
  intro e; subst e; exact h rfl

@[simp] theorem csub_ok (a b : Nat) (h : b ≤ a) : csub a b = .ok (a - b) := by simp [csub, h]

theorem toList_extract_from (b : Bytes) (k : Nat) : (b.extract k b.size).toList = b.toList.drop k := by
  simp; rw [List.take_of_length_le]; simp

theorem equalsAsSoa_eq (a b : Bytes) :
    equalsAsSoa a b = .ok (eqB [.name, .name, .fixed 20] a.toList b.toList) := by
  unfold equalsAsSoa
  by_cases hs : ¬ a.size = b.size
  · simp [hs, eqB_of_size_ne _ a b hs]
  have hs : a.size = b.size := Decidable.not_not.mp hs
  simp only [eq_true hs, ne_eq, not_true_eq_false, if_false]
  unfold testNNameFields eqB
  rw [tnf_step a b 1 0 (by omega) (by omega)]
  simp only [List.drop_zero, bytesEq_iff, Nat.zero_add]
  cases hA : unameLen a.toList with
  | none =>
    rw [eqB'_name_none_left _ _ _ _ hA]
    cases hB : unameLen b.toList with
    | none => simp
    | some kb =>
      have : a.toList ≠ b.toList := unameLen_ne (by rw [hA, hB]; simp)
      simp [this]
  | some ka =>
    obtain ⟨hka, _⟩ := unameLen_le _ _ hA
    cases hB : unameLen b.toList with
    | none =>
      rw [eqB'_name_none_right _ _ _ _ hB]
      have : a.toList ≠ b.toList := unameLen_ne (by rw [hA, hB]; simp)
      simp [this]
    | some kb =>
      obtain ⟨hkb, _⟩ := unameLen_le _ _ hB
      simp only [Array.length_toList] at hka hkb
      by_cases hci : ¬ NameCiEq (List.take ka a.toList) (List.take kb b.toList)
      · have hne := ne_of_not_ci hA hB hci
        rw [eqB'_name_not_ci _ _ _ _ _ _ hA hB hci (by simp [hne])]
        simp [hci]
      have hci := Decidable.not_not.mp hci
      have hlen := nameCi_length hci
      simp only [List.length_take, Array.length_toList] at hlen
      have : ka = kb := by omega
      subst this
      rw [eqB'_name_ci _ _ _ _ _ hA hB hci]
      simp only [hci, if_true]
      rw [tnf_step a b 0 ka hka hkb]
      -- second name
      cases hA2 : unameLen (a.toList.drop ka) with
      | none =>
        rw [eqB'_name_none_left _ _ _ _ hA2]
        cases hB2 : unameLen (b.toList.drop ka) with
        | none => simp
        | some kb2 =>
          have : a.toList ≠ b.toList := drop_ne (unameLen_ne (by rw [hA2, hB2]; simp))
          simp [this]
      | some k2 =>
        obtain ⟨hk2, _⟩ := unameLen_le _ _ hA2
        cases hB2 : unameLen (b.toList.drop ka) with
        | none =>
          rw [eqB'_name_none_right _ _ _ _ hB2]
          have : a.toList ≠ b.toList := drop_ne (unameLen_ne (by rw [hA2, hB2]; simp))
          simp [this]
        | some kb2 =>
          obtain ⟨hkb2, _⟩ := unameLen_le _ _ hB2
          simp only [List.length_drop, Array.length_toList] at hk2 hkb2
          by_cases hci2 : ¬ NameCiEq (List.take k2 (a.toList.drop ka)) (List.take kb2 (b.toList.drop ka))
          · have hne := drop_ne (ne_of_not_ci hA2 hB2 hci2)
            rw [eqB'_name_not_ci _ _ _ _ _ _ hA2 hB2 hci2 (by simp [hne])]
            simp [hci2]
          have hci2 := Decidable.not_not.mp hci2
          have hlen2 := nameCi_length hci2
          simp only [List.length_take, List.length_drop, Array.length_toList] at hlen2
          have : k2 = kb2 := by omega
          subst this
          rw [eqB'_name_ci _ _ _ _ _ hA2 hB2 hci2, eqB'_fixed_last]
          simp only [hci2, if_true, testNNameFieldsAux, Out.bind_ok, csub_ok a.size (ka + k2) (by omega),
            List.drop_drop, List.length_drop, Array.length_toList]
          by_cases h20 : a.size - (ka + k2) = 20
          · have h20' : b.size - (ka + k2) = 20 := by omega
            simp only [h20, ne_eq, not_true_eq_false, if_false, sliceFrom_ok a (ka + k2) (by omega),
              sliceFrom_ok b (ka + k2) (by omega), Out.bind_ok, bytesEq_iff, toList_extract_from]
            simp [h20, h20', Nat.add_comm]
          · have h20' : ¬ b.size - (ka + k2) = 20 := by omega
            simp [h20, h20', Nat.add_comm]


theorem equalsAsMinfo_eq (a b : Bytes) :
    equalsAsMinfo a b = .ok (eqB [.name, .name] a.toList b.toList) := by
  unfold equalsAsMinfo
  by_cases hs : ¬ a.size = b.size
  · simp [hs, eqB_of_size_ne _ a b hs]
  have hs : a.size = b.size := Decidable.not_not.mp hs
  simp only [eq_true hs, ne_eq, not_true_eq_false, if_false]
  unfold testNNameFields eqB
  rw [tnf_step a b 1 0 (by omega) (by omega)]
  simp only [List.drop_zero, bytesEq_iff, Nat.zero_add]
  cases hA : unameLen a.toList with
  | none =>
    rw [eqB'_name_none_left _ _ _ _ hA]
    cases hB : unameLen b.toList with
    | none => simp
    | some kb =>
      have : a.toList ≠ b.toList := unameLen_ne (by rw [hA, hB]; simp)
      simp [this]
  | some ka =>
    obtain ⟨hka, _⟩ := unameLen_le _ _ hA
    cases hB : unameLen b.toList with
    | none =>
      rw [eqB'_name_none_right _ _ _ _ hB]
      have : a.toList ≠ b.toList := unameLen_ne (by rw [hA, hB]; simp)
      simp [this]
    | some kb =>
      obtain ⟨hkb, _⟩ := unameLen_le _ _ hB
      simp only [Array.length_toList] at hka hkb
      by_cases hci : ¬ NameCiEq (List.take ka a.toList) (List.take kb b.toList)
      · have hne := ne_of_not_ci hA hB hci
        rw [eqB'_name_not_ci _ _ _ _ _ _ hA hB hci (by simp [hne])]
        simp [hci]
      have hci := Decidable.not_not.mp hci
      have hlen := nameCi_length hci
      simp only [List.length_take, Array.length_toList] at hlen
      have : ka = kb := by omega
      subst this
      rw [eqB'_name_ci _ _ _ _ _ hA hB hci]
      simp only [hci, if_true]
      rw [tnf_step a b 0 ka hka hkb]
      cases hA2 : unameLen (a.toList.drop ka) with
      | none =>
        rw [eqB'_name_none_left _ _ _ _ hA2]
        cases hB2 : unameLen (b.toList.drop ka) with
        | none => simp
        | some kb2 =>
          have : a.toList ≠ b.toList := drop_ne (unameLen_ne (by rw [hA2, hB2]; simp))
          simp [this]
      | some k2 =>
        obtain ⟨hk2, _⟩ := unameLen_le _ _ hA2
        cases hB2 : unameLen (b.toList.drop ka) with
        | none =>
          rw [eqB'_name_none_right _ _ _ _ hB2]
          have : a.toList ≠ b.toList := drop_ne (unameLen_ne (by rw [hA2, hB2]; simp))
          simp [this]
        | some kb2 =>
          obtain ⟨hkb2, _⟩ := unameLen_le _ _ hB2
          simp only [List.length_drop, Array.length_toList] at hk2 hkb2
          by_cases hci2 : ¬ NameCiEq (List.take k2 (a.toList.drop ka)) (List.take kb2 (b.toList.drop ka))
          · have hne := drop_ne (ne_of_not_ci hA2 hB2 hci2)
            rw [eqB'_name_not_ci _ _ _ _ _ _ hA2 hB2 hci2 (by simp [hne])]
            simp [hci2]
          have hci2 := Decidable.not_not.mp hci2
          have hlen2 := nameCi_length hci2
          simp only [List.length_take, List.length_drop, Array.length_toList] at hlen2
          have : k2 = kb2 := by omega
          subst this
          rw [eqB'_name_ci _ _ _ _ _ hA2 hB2 hci2, eqB'_nil]
          simp only [hci2, if_true, testNNameFieldsAux, Out.bind_ok, List.drop_drop, List.drop_eq_nil_iff,
            Array.length_toList]
          by_cases hend : ka + k2 = a.size
          · have e1 : a.size ≤ ka + k2 := by omega
            have e2 : b.size ≤ ka + k2 := by omega
            rw [if_pos hend, if_pos ⟨e1, e2⟩]
          · have e1 : ¬ a.size ≤ ka + k2 := by omega
            rw [if_neg hend, if_neg (fun h => e1 h.1)]

theorem equalsAsChA_eq (a b : Bytes) :
    equalsAsChA a b = .ok (eqB [.name, .fixed 2] a.toList b.toList) := by
  unfold equalsAsChA
  by_cases hs : ¬ a.size = b.size
  · simp [hs, eqB_of_size_ne _ a b hs]
  have hs : a.size = b.size := Decidable.not_not.mp hs
  simp only [eq_true hs, ne_eq, not_true_eq_false, if_false]
  unfold testNNameFields eqB
  rw [tnf_step a b 0 0 (by omega) (by omega)]
  simp only [List.drop_zero, bytesEq_iff, Nat.zero_add]
  cases hA : unameLen a.toList with
  | none =>
    rw [eqB'_name_none_left _ _ _ _ hA]
    cases hB : unameLen b.toList with
    | none => simp
    | some kb =>
      have : a.toList ≠ b.toList := unameLen_ne (by rw [hA, hB]; simp)
      simp [this]
  | some ka =>
    obtain ⟨hka, _⟩ := unameLen_le _ _ hA
    cases hB : unameLen b.toList with
    | none =>
      rw [eqB'_name_none_right _ _ _ _ hB]
      have : a.toList ≠ b.toList := unameLen_ne (by rw [hA, hB]; simp)
      simp [this]
    | some kb =>
      obtain ⟨hkb, _⟩ := unameLen_le _ _ hB
      simp only [Array.length_toList] at hka hkb
      by_cases hci : ¬ NameCiEq (List.take ka a.toList) (List.take kb b.toList)
      · have hne := ne_of_not_ci hA hB hci
        rw [eqB'_name_not_ci _ _ _ _ _ _ hA hB hci (by simp [hne])]
        simp [hci]
      have hci := Decidable.not_not.mp hci
      have hlen := nameCi_length hci
      simp only [List.length_take, Array.length_toList] at hlen
      have : ka = kb := by omega
      subst this
      rw [eqB'_name_ci _ _ _ _ _ hA hB hci, eqB'_fixed_last]
      simp only [hci, if_true, testNNameFieldsAux, Out.bind_ok, List.length_drop, Array.length_toList]
      by_cases h2 : ka + 2 = a.size
      · have e1 : a.size - ka = 2 := by omega
        have e2 : b.size - ka = 2 := by omega
        simp only [h2, if_true, sliceFrom_ok a ka hka, sliceFrom_ok b ka hkb, Out.bind_ok, bytesEq_iff,
          toList_extract_from, e1, e2, and_self]
      · have e1 : ¬ a.size - ka = 2 := by omega
        simp [h2, e1]


theorem unameLen_nil : unameLen [] = none := by
  cases h : unameLen [] with
  | none => rfl
  | some k => have := unameLen_le _ _ h; simp at this; omega

@[simp] theorem slice_ok (b : Bytes) (i j : Nat) (h : i ≤ j ∧ j ≤ b.size) :
    slice b i j = .ok (b.extract i j) := by simp [slice, h]

theorem equalsFixedThenName_eq (n : Nat) (a b : Bytes) :
    equalsFixedThenName n a b = .ok (eqB [.fixed n, .name] a.toList b.toList) := by
  unfold equalsFixedThenName
  by_cases hs : ¬ a.size = b.size
  · simp [hs, eqB_of_size_ne _ a b hs]
  have hs : a.size = b.size := Decidable.not_not.mp hs
  simp only [eq_true hs, ne_eq, not_true_eq_false, if_false]
  unfold eqB
  by_cases hn : a.size > n
  · have hn' : b.size > n := by omega
    rw [eqB'_fixed_first n _ _ _ _ (by simp; omega) (by simp; omega)]
    simp only [hn, if_true, slice_ok a 0 n (by omega), slice_ok b 0 n (by omega), Out.bind_ok, bytesEq_iff,
      sliceFrom_ok a n (by omega), sliceFrom_ok b n (by omega)]
    have ea : (a.extract 0 n).toList = a.toList.take n := by simp
    have eb : (b.extract 0 n).toList = b.toList.take n := by simp
    rw [ea, eb]
    by_cases hp : a.toList.take n = b.toList.take n
    · simp only [hp, decide_true, if_true, Bool.true_and]
      rw [namesEqual_eq, toList_extract_from, toList_extract_from]
      unfold eqB eqB'
      have : (a.toList = b.toList) ↔ (a.toList.drop n = b.toList.drop n) := by
        constructor
        · intro e; rw [e]
        · intro e
          rw [← List.take_append_drop n a.toList, ← List.take_append_drop n b.toList, hp, e]
      simp only [this]
    · have hne : a.toList ≠ b.toList := by intro e; rw [e] at hp; exact hp rfl
      simp only [hp, decide_false, Bool.false_eq_true, if_false, Bool.false_and, hne]
      cases split? [Field.name] (a.toList.drop n) <;> cases split? [Field.name] (b.toList.drop n) <;> rfl
  · have e1 : ¬ (n < a.size) := by omega
    simp only [gt_iff_lt, e1, if_false, bytesEq_iff]
    unfold eqB'
    have : split? [Field.fixed n, Field.name] a.toList = none := by
      simp only [split?]
      by_cases h : n ≤ a.toList.length
      · have : a.toList.drop n = [] := by simp at h ⊢; omega
        simp [h, this, unameLen_nil]
      · simp only [h, if_false]
    rw [this]

theorem equalsAsMx_eq (a b : Bytes) : equalsAsMx a b = .ok (eqB [.fixed 2, .name] a.toList b.toList) :=
  equalsFixedThenName_eq 2 a b

theorem equalsAsInSrv_eq (a b : Bytes) : equalsAsInSrv a b = .ok (eqB [.fixed 6, .name] a.toList b.toList) :=
  equalsFixedThenName_eq 6 a b


theorem specFieldsEq_iff (l : List Field) : ∀ (fa fb : List (List UInt8)),
    specFieldsEq l fa fb = true ↔ FieldsEq l fa fb := by
  induction l with
  | nil =>
    intro fa fb
    cases fa <;> cases fb <;> simp [specFieldsEq]
    · exact FieldsEq.nil
    all_goals (intro h; cases h)
  | cons f ls ih =>
    intro fa fb
    cases fa with
    | nil => cases f <;> simp [specFieldsEq] <;> (intro h; cases h)
    | cons x xs =>
      cases fb with
      | nil => cases f <;> simp [specFieldsEq] <;> (intro h; cases h)
      | cons y ys =>
        cases f with
        | name =>
          simp only [specFieldsEq, Bool.and_eq_true, beq_iff_eq, ih]
          constructor
          · rintro ⟨h1, h2⟩; exact FieldsEq.name h1 h2
          · intro h; cases h with | name h1 h2 => exact ⟨h1, h2⟩
        | fixed n =>
          simp only [specFieldsEq, Bool.and_eq_true, beq_iff_eq, ih]
          constructor
          · rintro ⟨h1, h2⟩; exact FieldsEq.fixed h1 h2
          · intro h; cases h with | fixed h1 h2 => exact ⟨h1, h2⟩

theorem fieldsEq_refl {l a fa} (h : Splits l a fa) : FieldsEq l fa fa := by
  induction h with
  | nil => exact FieldsEq.nil
  | name hw tl ih => exact FieldsEq.name rfl ih
  | fixed hf tl ih => exact FieldsEq.fixed rfl ih

theorem fieldsEq_symm {l fa fb} (h : FieldsEq l fa fb) : FieldsEq l fb fa := by
  induction h with
  | nil => exact FieldsEq.nil
  | name h tl ih => exact FieldsEq.name h.symm ih
  | fixed h tl ih => exact FieldsEq.fixed h.symm ih

theorem fieldsEq_trans {l fa fb fc} (h : FieldsEq l fa fb) : FieldsEq l fb fc → FieldsEq l fa fc := by
  induction h generalizing fc with
  | nil => intro h2; exact h2
  | name h tl ih => intro h2; cases h2 with | name h' tl' => exact FieldsEq.name (h.trans h') (ih tl')
  | fixed h tl ih => intro h2; cases h2 with | fixed h' tl' => exact FieldsEq.fixed (h.trans h') (ih tl')

/-- `SpecEq` with the layout made explicit -/
def LayoutEq (l : List Field) (a b : List UInt8) : Prop :=
  (∃ fa fb, Splits l a fa ∧ Splits l b fb ∧ FieldsEq l fa fb) ∨
  (¬ ((∃ fa, Splits l a fa) ∧ (∃ fb, Splits l b fb)) ∧ a = b)

theorem eqB_iff (l : List Field) (a b : List UInt8) : eqB l a b = true ↔ LayoutEq l a b := by
  unfold eqB eqB' LayoutEq
  cases hA : split? l a with
  | none =>
    have na : ¬ ∃ fa, Splits l a fa := by
      rintro ⟨fa, h⟩; rw [(split?_iff l a fa).mpr h] at hA; cases hA
    simp only [decide_eq_true_eq]
    constructor
    · intro e; exact Or.inr ⟨fun h => na h.1, e⟩
    · rintro (⟨fa, _, h, _⟩ | ⟨_, e⟩)
      · exact absurd ⟨fa, h⟩ na
      · exact e
  | some fa =>
    have sa := (split?_iff l a fa).mp hA
    cases hB : split? l b with
    | none =>
      have nb : ¬ ∃ fb, Splits l b fb := by
        rintro ⟨fb, h⟩; rw [(split?_iff l b fb).mpr h] at hB; cases hB
      simp only [decide_eq_true_eq]
      constructor
      · intro e; exact Or.inr ⟨fun h => nb h.2, e⟩
      · rintro (⟨_, fb, _, h, _⟩ | ⟨_, e⟩)
        · exact absurd ⟨fb, h⟩ nb
        · exact e
    | some fb =>
      have sb := (split?_iff l b fb).mp hB
      simp only [specFieldsEq_iff]
      constructor
      · intro h; exact Or.inl ⟨fa, fb, sa, sb, h⟩
      · rintro (⟨fa', fb', ha', hb', h⟩ | ⟨hn, _⟩)
        · rw [splits_unique sa ha', splits_unique sb hb']; exact h
        · exact absurd ⟨⟨fa, sa⟩, ⟨fb, sb⟩⟩ hn

theorem layoutEq_refl (l : List Field) (a : List UInt8) : LayoutEq l a a := by
  by_cases h : ∃ fa, Splits l a fa
  · obtain ⟨fa, h⟩ := h; exact Or.inl ⟨fa, fa, h, h, fieldsEq_refl h⟩
  · exact Or.inr ⟨fun x => h x.1, rfl⟩

theorem layoutEq_symm {l : List Field} {a b : List UInt8} (h : LayoutEq l a b) : LayoutEq l b a := by
  rcases h with ⟨fa, fb, ha, hb, h⟩ | ⟨hn, e⟩
  · exact Or.inl ⟨fb, fa, hb, ha, fieldsEq_symm h⟩
  · exact Or.inr ⟨fun x => hn ⟨x.2, x.1⟩, e.symm⟩

theorem layoutEq_trans {l : List Field} {a b c : List UInt8} (h1 : LayoutEq l a b) (h2 : LayoutEq l b c) :
    LayoutEq l a c := by
  rcases h1 with ⟨fa, fb, ha, hb, h⟩ | ⟨hn, e⟩
  · rcases h2 with ⟨fb', fc, hb', hc, h'⟩ | ⟨hn', e'⟩
    · rw [← splits_unique hb hb'] at h'
      exact Or.inl ⟨fa, fc, ha, hc, fieldsEq_trans h h'⟩
    · subst e'; exact Or.inl ⟨fa, fb, ha, hb, h⟩
  · subst e; exact h2


/-! ### dispatch through the generated tables = the RFC table `fmtOf` -/

/-- peel off one type code: in the positive branch decide the classes and finish with `tac` -/
macro "tcase " t:ident c:ident k:num " with " tac:tactic : tactic => `(tactic|
  (by_cases h : $t = $k
   · (subst h; by_cases c1 : $c = 1 <;> by_cases c3 : $c = 3 <;> $tac)))

/-- case split on every type code that occurs in a dispatch table or in `fmtOf` -/
macro "dispatch_cases " t:ident c:ident " with " tac:tactic : tactic => `(tactic| (
  tcase $t $c 1 with $tac; tcase $t $c 2 with $tac; tcase $t $c 3 with $tac; tcase $t $c 4 with $tac
  tcase $t $c 5 with $tac; tcase $t $c 6 with $tac; tcase $t $c 7 with $tac; tcase $t $c 8 with $tac
  tcase $t $c 9 with $tac; tcase $t $c 11 with $tac; tcase $t $c 12 with $tac; tcase $t $c 13 with $tac
  tcase $t $c 14 with $tac; tcase $t $c 15 with $tac; tcase $t $c 16 with $tac; tcase $t $c 28 with $tac
  tcase $t $c 33 with $tac; tcase $t $c 41 with $tac; tcase $t $c 250 with $tac
  $tac))

def validateFmt : Fmt → Bytes → Out RErr Unit
  | .name => validateName | .inA => validateAsInA | .chA => validateAsChA | .soa => validateAsSoa
  | .wks => validateAsInWks | .hinfo => validateAsHinfo | .minfo => validateAsMinfo | .mx => validateAsMx
  | .txt => validateAsTxt | .aaaa => validateAsInAaaa | .srv => validateAsInSrv | .opt => validateAsOpt
  | .tsig => validateAsTsig | .opaque => fun _ => .ok ()

def equalsFmt : Fmt → Bytes → Bytes → Out RErr Bool
  | .name => namesEqual | .chA => equalsAsChA | .soa => equalsAsSoa | .minfo => equalsAsMinfo
  | .mx => equalsAsMx | .srv => equalsAsInSrv
  | _ => fun a b => .ok (bytesEq a b)

def readFmt : Fmt → Bytes → Nat → Nat → Out RErr Bytes
  | .name => readNameRdata | .chA => readChA | .soa => readSoa | .minfo => readMinfo | .mx => readMx
  | .srv => readInSrv
  | f => withoutDecompression (validateFmt f)

theorem validate_eq (c t : Nat) (r : Bytes) : validate c t r = validateFmt (fmtOf c t) r := by
  unfold validate fmtOf
  simp only [lookup, Gen.rdataValidateArms, Gen.rdataValidateDefault]
  simp only [List.contains_cons, List.contains_nil, Bool.or_false, beq_iff_eq, Bool.and_true, Bool.and_eq_true, Bool.or_eq_true]
  dispatch_cases t c with (simp_all [validateHandler, validateFmt])

theorem equals_eq (c t : Nat) (a b : Bytes) : equals c t a b = equalsFmt (fmtOf c t) a b := by
  unfold equals fmtOf
  simp only [lookup, Gen.rdataEqualsArms, Gen.rdataEqualsDefault]
  simp only [List.contains_cons, List.contains_nil, Bool.or_false, beq_iff_eq, Bool.and_true, Bool.and_eq_true, Bool.or_eq_true]
  dispatch_cases t c with (simp_all [equalsHandler, equalsFmt])

theorem read_eq (c t : Nat) (msg : Bytes) (cur len : Nat) : read c t msg cur len = readFmt (fmtOf c t) msg cur len := by
  unfold read fmtOf
  simp only [lookup, Gen.rdataReadArms, Gen.rdataReadDefault]
  simp only [List.contains_cons, List.contains_nil, Bool.or_false, beq_iff_eq, Bool.and_true, Bool.and_eq_true, Bool.or_eq_true]
  dispatch_cases t c with (simp_all [readHandler, readFmt, validateFmt])

/-! ### character-strings -/

/-- wire length of the `<character-string>` at the start of a list -/
def csLen? : List UInt8 → Option Nat
  | [] => none
  | l :: rest => if l.toNat ≤ rest.length then some (1 + l.toNat) else none

theorem vcs_eq (b : Bytes) : validateCharacterString b =
    match csLen? b.toList with
    | some n => .ok n
    | none => .err .Other := by
  unfold validateCharacterString
  cases hb : b.toList with
  | nil =>
    have : b.size = 0 := by have := congrArg List.length hb; simpa using this
    simp [csLen?, this]
  | cons l rest =>
    have hs : b.size = rest.length + 1 := by have := congrArg List.length hb; simpa using this
    have h0 : 0 < b.size := by omega
    have hl : b[0] = l := by
      have := List.getElem_of_eq hb (by simp; omega : 0 < b.toList.length)
      simpa using this
    simp only [h0, dite_true, hl, csLen?, hs]
    by_cases h : l.toNat ≤ rest.length
    · have : 1 + l.toNat ≤ rest.length + 1 := by omega
      simp [h, this]
    · have : ¬ 1 + l.toNat ≤ rest.length + 1 := by omega
      simp [h, this]

theorem csLen?_some (A : List UInt8) (n : Nat) :
    csLen? A = some n ↔ ∃ s rest, A = s ++ rest ∧ CharStr s ∧ s.length = n := by
  constructor
  · intro h
    cases A with
    | nil => simp [csLen?] at h
    | cons l rest =>
      simp only [csLen?] at h
      split at h
      · rename_i hl
        cases h
        refine ⟨l :: rest.take l.toNat, rest.drop l.toNat, by simp, ⟨l, rest.take l.toNat, rfl, by simp; omega⟩, by simp; omega⟩
      · cases h
  · rintro ⟨s, rest, rfl, ⟨l, body, rfl, hb⟩, hn⟩
    simp only [List.cons_append, csLen?, List.length_append]
    have : l.toNat ≤ body.length + rest.length := by omega
    simp [this] at hn ⊢
    omega

theorem csLen?_pos (A : List UInt8) (n : Nat) (h : csLen? A = some n) : 0 < n ∧ n ≤ A.length := by
  cases A with
  | nil => simp [csLen?] at h
  | cons l rest =>
    simp only [csLen?] at h
    split at h
    · cases h; simp; omega
    · cases h

theorem charStr_prefix_unique {s s' x y : List UInt8} (h : CharStr s) (h' : CharStr s') (e : s ++ x = s' ++ y) :
    s = s' := by
  obtain ⟨l, body, rfl, hb⟩ := h
  obtain ⟨l', body', rfl, hb'⟩ := h'
  simp only [List.cons_append, List.cons.injEq] at e
  obtain ⟨rfl, e2⟩ := e
  have := (List.append_inj e2 (by omega)).1
  rw [this]

theorem validateAsHinfo_iff (r : Bytes) :
    validateAsHinfo r = .ok () ↔ ∃ a b, CharStr a ∧ CharStr b ∧ r.toList = a ++ b := by
  unfold validateAsHinfo
  rw [vcs_eq]
  cases h1 : csLen? r.toList with
  | none =>
    simp only [Out.bind_err, reduceCtorEq, false_iff]
    rintro ⟨a, b, ha, hb, e⟩
    have := (csLen?_some r.toList a.length).mpr ⟨a, b, e, ha, rfl⟩
    rw [h1] at this; cases this
  | some n =>
    obtain ⟨hn0, hn⟩ := csLen?_pos _ _ h1
    simp only [Array.length_toList] at hn
    simp only [Out.bind_ok, sliceFrom_ok r n hn]
    rw [vcs_eq, toList_extract_from]
    obtain ⟨s, rest, hr, hs, hsl⟩ := (csLen?_some _ _).mp h1
    have hrest : r.toList.drop n = rest := by rw [hr, ← hsl]; simp
    rw [hrest]
    have hsz : r.size = n + rest.length := by
      have := congrArg List.length hr; simp at this; omega
    cases h2 : csLen? rest with
    | none =>
      simp only [Out.bind_err, reduceCtorEq, false_iff]
      rintro ⟨a, b, ha, hb, e⟩
      rw [hr] at e
      have := charStr_prefix_unique hs ha e
      subst this
      have e' := List.append_cancel_left e
      have := (csLen?_some rest b.length).mpr ⟨b, [], by simp [e'], hb, rfl⟩
      rw [h2] at this; cases this
    | some m =>
      obtain ⟨s2, rest2, hr2, hs2, hsl2⟩ := (csLen?_some _ _).mp h2
      simp only [Out.bind_ok]
      by_cases hsize : r.size = n + m
      · rw [if_pos hsize]
        simp only [true_iff]
        have : rest2 = [] := by
          apply List.eq_nil_of_length_eq_zero
          have := congrArg List.length hr2; simp at this; omega
        subst this
        exact ⟨s, s2, hs, hs2, by rw [hr, hr2]; simp⟩
      · rw [if_neg hsize]
        simp only [reduceCtorEq, false_iff]
        rintro ⟨a, b, ha, hb, e⟩
        rw [hr] at e
        have := charStr_prefix_unique hs ha e
        subst this
        have e' := List.append_cancel_left e
        have := (csLen?_some rest b.length).mpr ⟨b, [], by simp [e'], hb, rfl⟩
        rw [h2] at this; cases this
        apply hsize
        rw [hsz, e']



theorem vcs_ok_iff (b : Bytes) (n : Nat) : validateCharacterString b = .ok n ↔ csLen? b.toList = some n := by
  rw [vcs_eq]; cases csLen? b.toList <;> simp

theorem vcs_no_panic (b : Bytes) : validateCharacterString b ≠ .panic := by
  rw [vcs_eq]; cases csLen? b.toList <;> simp

theorem vcs_err_iff (b : Bytes) (e : RErr) : validateCharacterString b = .err e → csLen? b.toList = none := by
  rw [vcs_eq]; cases csLen? b.toList <;> simp

/-- a non-empty list that is a concatenation of character-strings starts with one -/
theorem flatten_head {P : List UInt8 → Prop} (hpos : ∀ s, P s → 0 < s.length)
    {A : List UInt8} {ss : List (List UInt8)} (hA : A ≠ []) (hss : ∀ s ∈ ss, P s) (e : A = ss.flatten) :
    ∃ s ss', ss = s :: ss' ∧ P s ∧ A = s ++ ss'.flatten := by
  cases ss with
  | nil => simp at e; exact absurd e hA
  | cons s ss' => exact ⟨s, ss', rfl, hss s (by simp), by simpa using e⟩

theorem charStr_pos (s : List UInt8) (h : CharStr s) : 0 < s.length := by
  obtain ⟨l, body, rfl, _⟩ := h; simp

theorem txtLoop_spec (r : Bytes) (off : Nat) (hoff : off ≤ r.size) :
    txtLoop r off ≠ .panic ∧
    (txtLoop r off = .ok () ↔ ∃ ss : List (List UInt8), (∀ s ∈ ss, CharStr s) ∧ r.toList.drop off = ss.flatten) := by
  fun_induction txtLoop r off with
  | case1 x hx hv =>
    have := csLen?_pos _ _ ((vcs_ok_iff _ _).mp hv)
    omega
  | case2 x hx n hv hn ih =>
    have hc := (vcs_ok_iff _ _).mp hv
    rw [toList_extract_from] at hc
    obtain ⟨_, hle⟩ := csLen?_pos _ _ hc
    simp only [List.length_drop, Array.length_toList] at hle
    obtain ⟨ih1, ih2⟩ := ih (by omega)
    refine ⟨ih1, ?_⟩
    rw [ih2]
    obtain ⟨s, rest, hr, hs, hsl⟩ := (csLen?_some _ _).mp hc
    have hrest : r.toList.drop (x + n) = rest := by
      rw [← List.drop_drop, hr, ← hsl]; simp
    rw [hrest, hr]
    constructor
    · rintro ⟨ss, hss, e⟩
      exact ⟨s :: ss, by intro t ht; rcases List.mem_cons.mp ht with rfl | h; exact hs; exact hss t h, by simp [e]⟩
    · rintro ⟨ss, hss, e⟩
      have hne : s ++ rest ≠ [] := by have := charStr_pos s hs; intro h; simp at h; rw [h.1] at this; simp at this
      obtain ⟨s', ss', rfl, hs', e'⟩ := flatten_head charStr_pos hne hss e
      have := charStr_prefix_unique hs hs' e'
      subst this
      exact ⟨ss', fun t ht => hss t (by simp [ht]), List.append_cancel_left e'⟩
  | case3 x hx e hv =>
    refine ⟨by simp, ?_⟩
    simp only [reduceCtorEq, false_iff]
    rintro ⟨ss, hss, e'⟩
    have hc := vcs_err_iff _ _ hv
    rw [toList_extract_from] at hc
    have hne : r.toList.drop x ≠ [] := by simp; omega
    obtain ⟨s', ss', rfl, hs', e''⟩ := flatten_head charStr_pos hne hss e'
    have := (csLen?_some _ s'.length).mpr ⟨s', _, e'', hs', rfl⟩
    rw [hc] at this; cases this
  | case4 x hx hv => exact absurd hv (vcs_no_panic _)
  | case5 x hx =>
    refine ⟨by simp, ?_⟩
    simp only [true_iff]
    have : r.toList.drop x = [] := by simp; omega
    exact ⟨[], by simp, by simp [this]⟩

theorem validateAsTxt_iff (r : Bytes) :
    validateAsTxt r = .ok () ↔
      ∃ ss : List (List UInt8), ss ≠ [] ∧ (∀ s ∈ ss, CharStr s) ∧ r.toList = ss.flatten := by
  unfold validateAsTxt
  by_cases h0 : r.size = 0
  · rw [if_pos h0]
    simp only [reduceCtorEq, false_iff]
    rintro ⟨ss, hne, hss, e⟩
    cases ss with
    | nil => exact hne rfl
    | cons s ss' =>
      have := charStr_pos s (hss s (by simp))
      have hl := congrArg List.length e
      simp at hl; omega
  · rw [if_neg h0]
    rw [(txtLoop_spec r 0 (by omega)).2]
    simp only [List.drop_zero]
    constructor
    · rintro ⟨ss, hss, e⟩
      refine ⟨ss, ?_, hss, e⟩
      intro hnil; subst hnil
      have hl := congrArg List.length e
      simp only [Array.length_toList, List.flatten_nil, List.length_nil] at hl; omega
    · rintro ⟨ss, _, hss, e⟩; exact ⟨ss, hss, e⟩


/-! ### EDNS options -/

def optLen? : List UInt8 → Option Nat
  | _ :: _ :: l1 :: l2 :: rest =>
    if l1.toNat * 256 + l2.toNat ≤ rest.length then some (l1.toNat * 256 + l2.toNat + 4) else none
  | _ => none

theorem getD_toList (b : Bytes) (i : Nat) : b.getD i 0 = b.toList.getD i 0 := by
  simp [Array.getD, List.getD]
  by_cases h : i < b.size <;> simp [h]

set_option maxRecDepth 4000 in
theorem vopt_eq (b : Bytes) : validateOption b =
    match optLen? b.toList with
    | some n => .ok n
    | none => .err .Other := by
  unfold validateOption be16
  rw [getD_toList, getD_toList]
  have hs : b.size = b.toList.length := by simp
  rw [hs]
  generalize b.toList = A
  match A with
  | [] => simp [optLen?]
  | [_] => simp [optLen?]
  | [_, _] => simp [optLen?]
  | [_, _, _] => simp [optLen?]
  | c1 :: c2 :: l1 :: l2 :: rest =>
    simp only [optLen?, List.length_cons]
    have : 4 ≤ rest.length + 1 + 1 + 1 + 1 := by omega
    simp only [this, if_true, List.getD_cons_succ, List.getD_cons_zero]
    generalize l1.toNat * 256 + l2.toNat = m
    by_cases h : m ≤ rest.length
    · have : rest.length + 1 + 1 + 1 + 1 ≥ m + 4 := by omega
      simp [h, this]
    · have : ¬ rest.length + 1 + 1 + 1 + 1 ≥ m + 4 := by omega
      simp [h, this]

theorem optLen?_some (A : List UInt8) (n : Nat) :
    optLen? A = some n ↔ ∃ s rest, A = s ++ rest ∧ OptTLV s ∧ s.length = n := by
  constructor
  · intro h
    match A, h with
    | c1 :: c2 :: l1 :: l2 :: rest, h =>
      simp only [optLen?] at h
      split at h
      · rename_i hl
        cases h
        refine ⟨c1 :: c2 :: l1 :: l2 :: rest.take (l1.toNat * 256 + l2.toNat), rest.drop (l1.toNat * 256 + l2.toNat),
          by simp, ⟨c1, c2, l1, l2, _, rfl, by simp; omega⟩, by simp; omega⟩
      · cases h
  · rintro ⟨s, rest, rfl, ⟨c1, c2, l1, l2, data, rfl, hd⟩, hn⟩
    simp only [List.cons_append, optLen?, List.length_append]
    have : l1.toNat * 256 + l2.toNat ≤ data.length + rest.length := by omega
    simp [this] at hn ⊢
    omega

theorem optLen?_pos (A : List UInt8) (n : Nat) (h : optLen? A = some n) : 0 < n ∧ n ≤ A.length := by
  obtain ⟨s, rest, rfl, ⟨c1, c2, l1, l2, data, rfl, hd⟩, hn⟩ := (optLen?_some A n).mp h
  simp at hn ⊢; omega

theorem optTLV_prefix_unique {s s' x y : List UInt8} (h : OptTLV s) (h' : OptTLV s') (e : s ++ x = s' ++ y) :
    s = s' := by
  obtain ⟨c1, c2, l1, l2, data, rfl, hd⟩ := h
  obtain ⟨c1', c2', l1', l2', data', rfl, hd'⟩ := h'
  simp only [List.cons_append, List.cons.injEq] at e
  obtain ⟨rfl, rfl, rfl, rfl, e2⟩ := e
  have := (List.append_inj e2 (by omega)).1
  rw [this]

theorem optTLV_pos (s : List UInt8) (h : OptTLV s) : 0 < s.length := by
  obtain ⟨c1, c2, l1, l2, data, rfl, _⟩ := h; simp

theorem vopt_ok_iff (b : Bytes) (n : Nat) : validateOption b = .ok n ↔ optLen? b.toList = some n := by
  rw [vopt_eq]; cases optLen? b.toList <;> simp

theorem vopt_no_panic (b : Bytes) : validateOption b ≠ .panic := by
  rw [vopt_eq]; cases optLen? b.toList <;> simp

theorem vopt_err_iff (b : Bytes) (e : RErr) : validateOption b = .err e → optLen? b.toList = none := by
  rw [vopt_eq]; cases optLen? b.toList <;> simp

theorem optLoop_spec (r : Bytes) (off : Nat) (hoff : off ≤ r.size) :
    optLoop r off ≠ .panic ∧
    (optLoop r off = .ok () ↔ ∃ os : List (List UInt8), (∀ o ∈ os, OptTLV o) ∧ r.toList.drop off = os.flatten) := by
  fun_induction optLoop r off with
  | case1 x hx hv =>
    have := optLen?_pos _ _ ((vopt_ok_iff _ _).mp hv)
    omega
  | case2 x hx n hv hn ih =>
    have hc := (vopt_ok_iff _ _).mp hv
    rw [toList_extract_from] at hc
    obtain ⟨_, hle⟩ := optLen?_pos _ _ hc
    simp only [List.length_drop, Array.length_toList] at hle
    obtain ⟨ih1, ih2⟩ := ih (by omega)
    refine ⟨ih1, ?_⟩
    rw [ih2]
    obtain ⟨s, rest, hr, hs, hsl⟩ := (optLen?_some _ _).mp hc
    have hrest : r.toList.drop (x + n) = rest := by
      rw [← List.drop_drop, hr, ← hsl]; simp
    rw [hrest, hr]
    constructor
    · rintro ⟨ss, hss, e⟩
      exact ⟨s :: ss, by intro t ht; rcases List.mem_cons.mp ht with rfl | h; exact hs; exact hss t h, by simp [e]⟩
    · rintro ⟨ss, hss, e⟩
      have hne : s ++ rest ≠ [] := by have := optTLV_pos s hs; intro h; simp at h; rw [h.1] at this; simp at this
      obtain ⟨s', ss', rfl, hs', e'⟩ := flatten_head optTLV_pos hne hss e
      have := optTLV_prefix_unique hs hs' e'
      subst this
      exact ⟨ss', fun t ht => hss t (by simp [ht]), List.append_cancel_left e'⟩
  | case3 x hx e hv =>
    refine ⟨by simp, ?_⟩
    simp only [reduceCtorEq, false_iff]
    rintro ⟨ss, hss, e'⟩
    have hc := vopt_err_iff _ _ hv
    rw [toList_extract_from] at hc
    have hne : r.toList.drop x ≠ [] := by simp; omega
    obtain ⟨s', ss', rfl, hs', e''⟩ := flatten_head optTLV_pos hne hss e'
    have := (optLen?_some _ s'.length).mpr ⟨s', _, e'', hs', rfl⟩
    rw [hc] at this; cases this
  | case4 x hx hv => exact absurd hv (vopt_no_panic _)
  | case5 x hx =>
    refine ⟨by simp, ?_⟩
    simp only [true_iff]
    have : r.toList.drop x = [] := by simp; omega
    exact ⟨[], by simp, by simp [this]⟩

theorem validateAsOpt_iff (r : Bytes) :
    validateAsOpt r = .ok () ↔ ∃ os : List (List UInt8), (∀ o ∈ os, OptTLV o) ∧ r.toList = os.flatten := by
  unfold validateAsOpt
  rw [(optLoop_spec r 0 (by omega)).2]
  simp

section
set_option maxRecDepth 4000

/-! ### TSIG -/

/-- everything after the algorithm name (RFC 8945 §4.2) -/
def TsigTail (x : List UInt8) : Prop :=
  ∃ time fudge m1 m2 mac oid err o1 o2 other,
    time.length = 6 ∧ fudge.length = 2 ∧ mac.length = m1.toNat * 256 + m2.toNat ∧
    oid.length = 2 ∧ err.length = 2 ∧ other.length = o1.toNat * 256 + o2.toNat ∧
    x = time ++ fudge ++ [m1, m2] ++ mac ++ oid ++ err ++ [o1, o2] ++ other

theorem tsigRdata_iff (r : List UInt8) :
    TsigRdata r ↔ ∃ alg rest, r = alg ++ rest ∧ WireName alg ∧ TsigTail rest := by
  constructor
  · rintro ⟨alg, time, fudge, m1, m2, mac, oid, err, o1, o2, other, hw, h1, h2, h3, h4, h5, h6, e⟩
    exact ⟨alg, _, by rw [e]; simp, hw, time, fudge, m1, m2, mac, oid, err, o1, o2, other, h1, h2, h3, h4, h5, h6, rfl⟩
  · rintro ⟨alg, rest, e, hw, time, fudge, m1, m2, mac, oid, err, o1, o2, other, h1, h2, h3, h4, h5, h6, e2⟩
    exact ⟨alg, time, fudge, m1, m2, mac, oid, err, o1, o2, other, hw, h1, h2, h3, h4, h5, h6, by rw [e, e2]; simp⟩

/-- the arithmetic the validator checks on the tail -/
def tsigTailOk (x : List UInt8) : Prop :=
  10 ≤ x.length ∧
  16 + ((x.getD 8 0).toNat * 256 + (x.getD 9 0).toNat) ≤ x.length ∧
  x.length = 16 + ((x.getD 8 0).toNat * 256 + (x.getD 9 0).toNat) +
    ((x.getD (14 + ((x.getD 8 0).toNat * 256 + (x.getD 9 0).toNat)) 0).toNat * 256 +
     (x.getD (15 + ((x.getD 8 0).toNat * 256 + (x.getD 9 0).toNat)) 0).toNat)

theorem getD_app (a b : List UInt8) (i : Nat) (d : UInt8) : (a ++ b).getD (a.length + i) d = b.getD i d := by
  simp [List.getD, List.getElem?_append_right]

theorem getD_take_drop (x : List UInt8) (i : Nat) (h : i < x.length) :
    x.drop i = x.getD i 0 :: x.drop (i + 1) := by
  rw [List.drop_eq_getElem_cons h]
  simp [List.getD, h]

theorem tsigTail_iff (x : List UInt8) : TsigTail x ↔ tsigTailOk x := by
  constructor
  · rintro ⟨time, fudge, m1, m2, mac, oid, err, o1, o2, other, h1, h2, h3, h4, h5, h6, e⟩
    have e8 : x.getD 8 0 = m1 := by
      have := getD_app (time ++ fudge) ([m1, m2] ++ mac ++ oid ++ err ++ [o1, o2] ++ other) 0 0
      simp only [List.length_append, h1, h2] at this
      rw [e]; simpa using this
    have e9 : x.getD 9 0 = m2 := by
      have := getD_app (time ++ fudge) ([m1, m2] ++ mac ++ oid ++ err ++ [o1, o2] ++ other) 1 0
      simp only [List.length_append, h1, h2] at this
      rw [e]; simpa using this
    have e14 : x.getD (14 + mac.length) 0 = o1 := by
      have := getD_app (time ++ fudge ++ [m1, m2] ++ mac ++ oid ++ err) ([o1, o2] ++ other) 0 0
      simp only [List.length_append, h1, h2, h4, h5, List.length_cons, List.length_nil] at this
      rw [e]
      have e' : 14 + mac.length = 6 + 2 + (0 + 1 + 1) + mac.length + 2 + 2 + 0 := by omega
      rw [e']; simpa using this
    have e15 : x.getD (15 + mac.length) 0 = o2 := by
      have := getD_app (time ++ fudge ++ [m1, m2] ++ mac ++ oid ++ err) ([o1, o2] ++ other) 1 0
      simp only [List.length_append, h1, h2, h4, h5, List.length_cons, List.length_nil] at this
      rw [e]
      have e' : 15 + mac.length = 6 + 2 + (0 + 1 + 1) + mac.length + 2 + 2 + 1 := by omega
      rw [e']; simpa using this
    have hl : x.length = 16 + mac.length + other.length := by
      rw [e]; simp; omega
    unfold tsigTailOk
    rw [e8, e9, ← h3, e14, e15, ← h6]
    omega
  · rintro ⟨h10, h16, hlen⟩
    generalize hm : (x.getD 8 0).toNat * 256 + (x.getD 9 0).toNat = mac at h16 hlen
    refine ⟨x.take 6, (x.drop 6).take 2, x.getD 8 0, x.getD 9 0, (x.drop 10).take mac,
      (x.drop (10 + mac)).take 2, (x.drop (12 + mac)).take 2, x.getD (14 + mac) 0, x.getD (15 + mac) 0,
      x.drop (16 + mac), by simp; omega, by simp; omega,
      by simp only [List.length_take, List.length_drop]; omega, by simp; omega, by simp; omega,
      by simp only [List.length_take, List.length_drop]; omega, ?_⟩
    have s1 : x = x.take 6 ++ x.drop 6 := (List.take_append_drop 6 x).symm
    have s2 : x.drop 6 = (x.drop 6).take 2 ++ x.drop 8 := by
      have := (List.take_append_drop 2 (x.drop 6)).symm; simpa using this
    have s3 : x.drop 8 = x.getD 8 0 :: x.drop 9 := getD_take_drop x 8 (by omega)
    have s4 : x.drop 9 = x.getD 9 0 :: x.drop 10 := getD_take_drop x 9 (by omega)
    have s5 : x.drop 10 = (x.drop 10).take mac ++ x.drop (10 + mac) := by
      have := (List.take_append_drop mac (x.drop 10)).symm; simpa [Nat.add_comm] using this
    have s6 : x.drop (10 + mac) = (x.drop (10 + mac)).take 2 ++ x.drop (12 + mac) := by
      have := (List.take_append_drop 2 (x.drop (10 + mac))).symm
      rw [List.drop_drop] at this
      have e : 10 + mac + 2 = 12 + mac := by omega
      rw [e] at this; exact this
    have s7 : x.drop (12 + mac) = (x.drop (12 + mac)).take 2 ++ x.drop (14 + mac) := by
      have := (List.take_append_drop 2 (x.drop (12 + mac))).symm
      rw [List.drop_drop] at this
      have e : 12 + mac + 2 = 14 + mac := by omega
      rw [e] at this; exact this
    have s8 : x.drop (14 + mac) = x.getD (14 + mac) 0 :: x.drop (15 + mac) := by
      have := getD_take_drop x (14 + mac) (by omega)
      have e : 14 + mac + 1 = 15 + mac := by omega
      rw [e] at this; exact this
    have s9 : x.drop (15 + mac) = x.getD (15 + mac) 0 :: x.drop (16 + mac) := by
      have := getD_take_drop x (15 + mac) (by omega)
      have e : 15 + mac + 1 = 16 + mac := by omega
      rw [e] at this; exact this
    conv => lhs; rw [s1, s2, s3, s4, s5, s6, s7, s8, s9]
    simp


theorem getD_drop (A : List UInt8) (k i : Nat) : (A.drop k).getD i 0 = A.getD (k + i) 0 := by
  simp [List.getD]

theorem wireName_prefix_unique {w w' x y : List UInt8} (h : WireName w) (h' : WireName w') (e : w ++ x = w' ++ y) :
    w = w' ∧ x = y := by
  obtain ⟨n, hl, _⟩ := (wireName_iff w).mp h
  obtain ⟨n', hl', _⟩ := (wireName_iff w').mp h'
  obtain ⟨a, _, c⟩ := lname_prefix_unique hl hl' e
  exact ⟨a, c⟩

theorem validateAsTsig_iff (r : Bytes) : validateAsTsig r = .ok () ↔ TsigRdata r.toList := by
  rw [tsigRdata_iff]
  unfold validateAsTsig
  cases h1 : validateUncompressed r false with
  | ok k =>
    obtain ⟨hk, _⟩ := validateU_le r k h1
    obtain ⟨w, rest, hr, hw, hwl⟩ := (validateU_false_iff r k).mp h1
    have hrest : r.toList.drop k = rest := by rw [hr, ← hwl]; simp
    have key : (validateAsTsig r = .ok ()) ↔ tsigTailOk (r.toList.drop k) := by
      unfold validateAsTsig tsigTailOk
      simp only [h1, liftName, Out.mapErr, Out.bind_ok, be16, getD_toList, getD_drop, List.length_drop, Array.length_toList]
      have a1 : k + 8 + 1 = k + 9 := by omega
      rw [a1]
      generalize hm : (r.toList.getD (k + 8) 0).toNat * 256 + (r.toList.getD (k + 9) 0).toNat = mac
      have a2 : k + mac + 14 = k + (14 + mac) := by omega
      have a3 : k + (14 + mac) + 1 = k + (15 + mac) := by omega
      rw [a2, a3]
      generalize ho : (r.toList.getD (k + (14 + mac)) 0).toNat * 256 + (r.toList.getD (k + (15 + mac)) 0).toNat = other
      by_cases c1 : k + 10 ≤ r.size
      · rw [if_pos c1]
        by_cases c2 : k + mac + 16 ≤ r.size
        · rw [if_pos c2]
          by_cases c3 : k + mac + other + 16 = r.size
          · rw [if_pos c3]; simp only [true_iff]; omega
          · rw [if_neg c3]; simp only [reduceCtorEq, false_iff]; omega
        · rw [if_neg c2]; simp only [reduceCtorEq, false_iff]; omega
      · rw [if_neg c1]; simp only [reduceCtorEq, false_iff]; omega
    have key' := key
    unfold validateAsTsig at key'
    rw [h1] at key'
    rw [key', ← tsigTail_iff, hrest]
    constructor
    · intro ht; exact ⟨w, rest, hr, hw, ht⟩
    · rintro ⟨alg, rest', e, hw', ht⟩
      rw [hr] at e
      obtain ⟨_, e2⟩ := wireName_prefix_unique hw hw' e
      rw [e2]; exact ht
  | err e =>
    simp only [liftName, Out.mapErr, Out.bind_err, reduceCtorEq, false_iff]
    rintro ⟨alg, rest, e', hw, _⟩
    have := (validateU_false_iff r alg.length).mpr ⟨alg, rest, e', hw, rfl⟩
    rw [h1] at this; cases this
  | panic => exact absurd h1 (validateU_no_panic r false)

end

theorem isSome_split_iff (l : List Field) (r : List UInt8) :
    (split? l r).isSome ↔ ∃ fs, Splits l r fs := by
  constructor
  · intro h
    cases hs : split? l r with
    | none => rw [hs] at h; cases h
    | some fs => exact ⟨fs, (split?_iff l r fs).mp hs⟩
  · rintro ⟨fs, h⟩
    rw [(split?_iff l r fs).mpr h]; rfl

/-- **validation = the RFC grammar**, format by format -/
theorem validateFmt_iff (f : Fmt) (r : Bytes) : validateFmt f r = .ok () ↔ FmtSpec f r.toList := by
  cases f <;> simp only [validateFmt, FmtSpec]
  · rw [validateName_split, isSome_split_iff]
  · simp [validateAsInA]
  · rw [validateAsChA_split, isSome_split_iff]
  · rw [validateAsSoa_split, isSome_split_iff]
  · simp [validateAsInWks]
  · exact validateAsHinfo_iff r
  · rw [validateAsMinfo_split, isSome_split_iff]
  · rw [validateAsMx_split, isSome_split_iff]
  · exact validateAsTxt_iff r
  · simp [validateAsInAaaa]
  · rw [validateAsInSrv_split, isSome_split_iff]
  · exact validateAsOpt_iff r
  · exact validateAsTsig_iff r

theorem liftName_validateU_no_panic (b : Bytes) (u : Bool) : liftName (validateUncompressed b u) ≠ .panic := by
  have := validateU_no_panic b u
  cases h : validateUncompressed b u <;> simp_all [liftName, Out.mapErr]

theorem validateFmt_no_panic (f : Fmt) (r : Bytes) : validateFmt f r ≠ .panic := by
  cases f <;> simp only [validateFmt]
  · -- name
    unfold validateName
    have := liftName_validateU_no_panic r true
    cases h : liftName (validateUncompressed r true) <;> simp_all
  · unfold validateAsInA; split <;> simp
  · unfold validateAsChA
    have := liftName_validateU_no_panic r false
    cases h : liftName (validateUncompressed r false) <;> simp_all
    split <;> simp
  · unfold validateAsSoa
    have := validateU_no_panic r false
    cases h : validateUncompressed r false with
    | ok k =>
      obtain ⟨hk, _⟩ := validateU_le r k h
      simp only [liftName, Out.mapErr, Out.bind_ok, sliceFrom_ok r k hk]
      have := validateU_no_panic (r.extract k r.size) false
      cases h2 : validateUncompressed (r.extract k r.size) false <;> simp_all
      split <;> simp
    | err e => simp [liftName, Out.mapErr]
    | panic => exact absurd h this
  · unfold validateAsInWks; split <;> simp
  · unfold validateAsHinfo
    rw [vcs_eq]
    cases h1 : csLen? r.toList with
    | none => simp
    | some n =>
      obtain ⟨_, hn⟩ := csLen?_pos _ _ h1
      simp only [Array.length_toList] at hn
      simp only [Out.bind_ok, sliceFrom_ok r n hn]
      rw [vcs_eq]
      cases csLen? (r.extract n r.size).toList <;> simp
      split <;> simp
  · unfold validateAsMinfo
    have := validateU_no_panic r false
    cases h : validateUncompressed r false with
    | ok k =>
      obtain ⟨hk, _⟩ := validateU_le r k h
      simp only [liftName, Out.mapErr, Out.bind_ok, sliceFrom_ok r k hk]
      have := validateU_no_panic (r.extract k r.size) true
      cases h2 : validateUncompressed (r.extract k r.size) true <;> simp_all
    | err e => simp [liftName, Out.mapErr]
    | panic => exact absurd h this
  · unfold validateAsMx
    split
    · have := liftName_validateU_no_panic (r.extract 2 r.size) true
      cases h : liftName (validateUncompressed (r.extract 2 r.size) true) <;> simp_all
    · simp
  · unfold validateAsTxt
    split
    · simp
    · exact (txtLoop_spec r 0 (by omega)).1
  · unfold validateAsInAaaa; split <;> simp
  · unfold validateAsInSrv
    split
    · have := liftName_validateU_no_panic (r.extract 6 r.size) true
      cases h : liftName (validateUncompressed (r.extract 6 r.size) true) <;> simp_all
    · simp
  · exact (optLoop_spec r 0 (by omega)).1
  · unfold validateAsTsig
    have := liftName_validateU_no_panic r false
    cases h : liftName (validateUncompressed r false) <;> simp_all
    repeat' split
    all_goals simp
  · simp


end QV.Rdata
