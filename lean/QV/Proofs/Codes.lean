/-
  QV.Proofs.Codes — lemmas for C17 (code ↔ text round trips).

  * the decimal print/parse round trip (`dec`, `digitsFrom`, `parseU16`) by induction, via the
    spec's inductive `IsDecimal`;
  * `eq_ignore_ascii_case` ↔ equality of lower-cased octets; the spec's `lower` = `lowerU8`;
  * generic theorems about a `FromStr` impl (`parseWith`) under three decidable conditions on its
    table (`NoWord`, `Distinct`, `RowsParse`), instantiated in `QV.Properties.C17` on the generated
    tables by `decide`; the mnemonic arms see the upper-cased text (`normaliseBy`).
-/
import QV.Model.Codes
import QV.Spec.Codes

namespace QV.Codes
open QV QV.Spec.Codes

theorem forall_uint8 (P : UInt8 → Prop) (h : ∀ n, n < 256 → P (UInt8.ofNat n)) : ∀ b, P b := by
  intro b
  have := h b.toNat b.toNat_lt
  simpa using this

theorem ofNat_digit_toNat (d : Nat) (h : d < 10) : (UInt8.ofNat (48 + d)).toNat = 48 + d := by
  simp [UInt8.toNat_ofNat']; omega

/-- the spec's lower-casing is `u8::to_ascii_lowercase` octet by octet -/
theorem lowerByte_eq (b : UInt8) :
    (if 65 ≤ b.toNat ∧ b.toNat ≤ 90 then UInt8.ofNat (b.toNat + 32) else b) = lowerU8 b := by
  revert b; apply forall_uint8; unfold lowerU8; decide +kernel

theorem lower_eq_map (t : List UInt8) : lower t = t.map lowerU8 := by
  unfold lower
  apply List.map_congr_left
  intro b _
  exact lowerByte_eq b

theorem isDigit_lower (b : UInt8) : isDigit (lowerU8 b) = isDigit b := by
  revert b; apply forall_uint8; unfold lowerU8 isDigit; decide +kernel

theorem lower_of_isDigit (b : UInt8) (h : isDigit b = true) : lowerU8 b = b := by
  revert b; apply forall_uint8; unfold lowerU8 isDigit; decide +kernel

theorem eqIgnoreAsciiCase_iff (a b : Text) :
    eqIgnoreAsciiCase a b = true ↔ a.map lowerU8 = b.map lowerU8 := by
  unfold eqIgnoreAsciiCase
  induction a generalizing b with
  | nil => cases b <;> simp
  | cons x xs ih =>
    cases b with
    | nil => simp
    | cons y ys =>
      have := ih ys
      simp only [List.length_cons, List.zip_cons_cons, List.all_cons, List.map_cons, List.cons.injEq,
        Bool.and_eq_true, beq_iff_eq] at this ⊢
      constructor
      · intro ⟨h1, h2, h3⟩
        exact ⟨h2, this.mp ⟨by omega, h3⟩⟩
      · intro ⟨h1, h2⟩
        have := this.mpr h2
        exact ⟨by omega, h1, this.2⟩

theorem isDecimal_ne_nil {ds n} (h : IsDecimal ds n) : ds ≠ [] := by
  cases h <;> simp

theorem isDecimal_all_digits {ds n} (h : IsDecimal ds n) : ∀ c ∈ ds, isDigit c = true := by
  induction h with
  | digit d hd => intro c hc; simp at hc; subst hc; simp [isDigit]; omega
  | snoc d hd _ _ ih =>
    intro c hc
    simp at hc
    rcases hc with hc | hc
    · exact ih c hc
    · subst hc; simp [isDigit]; omega

theorem dec_isDecimal (n : Nat) : IsDecimal (dec n) n := by
  induction n using Nat.strongRecOn with
  | _ n ih =>
    rw [dec]
    split
    · exact IsDecimal.digit n (by assumption)
    · have h1 := ih (n / 10) (by omega)
      have := IsDecimal.snoc (n % 10) (by omega) (by omega) h1
      have e : n / 10 * 10 + n % 10 = n := by omega
      rw [e] at this
      exact this

def decValue (ds : List UInt8) : Nat := ds.foldl (fun a b => a * 10 + (b.toNat - 48)) 0

theorem isDecimal_value {ds n} (h : IsDecimal ds n) : decValue ds = n := by
  unfold decValue
  induction h with
  | digit d hd => simp; omega
  | snoc d hd _ _ ih => rw [List.foldl_append, ih]; simp; omega

theorem isDecimal_unique {ds n m} (h : IsDecimal ds n) (h' : IsDecimal ds m) : n = m := by
  rw [← isDecimal_value h, ← isDecimal_value h']


/-! ### u16::from_str on canonical numerals -/

theorem digitsFrom_append (acc : Nat) (a b : List UInt8) :
    digitsFrom acc (a ++ b) = (digitsFrom acc a).bind (fun x => digitsFrom x b) := by
  induction a generalizing acc with
  | nil => simp [digitsFrom]
  | cons c cs ih =>
    simp only [List.cons_append, digitsFrom]
    split
    · split
      · simp
      · exact ih _
    · simp

theorem isDecimal_digitsFrom {ds : List UInt8} {n : Nat} (h : IsDecimal ds n) (hn : n ≤ 65535) :
    digitsFrom 0 ds = some n := by
  induction h with
  | digit d hd =>
    simp [digitsFrom, isDigit]; omega
  | snoc d hd hpos r ih =>
    rw [digitsFrom_append, ih (by omega)]
    simp [digitsFrom, isDigit]; omega



theorem parseU16_of_digit_head (c : UInt8) (cs : List UInt8) (h : isDigit c = true) :
    parseU16 (c :: cs) = digitsFrom 0 (c :: cs) := by
  have h43 : c ≠ 43 := by intro e; subst e; revert h; decide
  have h45 : c ≠ 45 := by intro e; subst e; revert h; decide
  cases cs with
  | nil => simp [parseU16, h43, h45]
  | cons d ds => simp [parseU16, h43]

theorem parseU16_isDecimal {ds : List UInt8} {n : Nat} (h : IsDecimal ds n) (hn : n < 65536) :
    parseU16 ds = some n := by
  have hne := isDecimal_ne_nil h
  have hall := isDecimal_all_digits h
  cases ds with
  | nil => exact absurd rfl hne
  | cons c cs =>
    rw [parseU16_of_digit_head c cs (hall c (by simp))]
    exact isDecimal_digitsFrom h (by omega)

/-! ### the mnemonic arms -/

theorem lookupParse_none_iff (tbl : List (Text × Nat)) (t : Text) :
    lookupParse tbl t = none ↔ ∀ r ∈ tbl, t ≠ r.1 := by
  induction tbl with
  | nil => simp [lookupParse]
  | cons r rest ih =>
    obtain ⟨m, v⟩ := r
    simp only [lookupParse, List.mem_cons, forall_eq_or_imp]
    split
    · simp_all
    · simp_all

theorem lookupParse_some_mem (tbl : List (Text × Nat)) (t : Text) (v : Nat)
    (h : lookupParse tbl t = some v) : (t, v) ∈ tbl := by
  induction tbl with
  | nil => simp [lookupParse] at h
  | cons r rest ih =>
    obtain ⟨m, x⟩ := r
    simp only [lookupParse] at h
    split at h
    · cases h; subst_vars; simp
    · exact List.mem_cons_of_mem _ (ih h)

/-- keys that are equal carry equal values -/
def Functional (tbl : List (Text × Nat)) : Prop := ∀ r ∈ tbl, ∀ r' ∈ tbl, r.1 = r'.1 → r.2 = r'.2

theorem lookupParse_mem (tbl : List (Text × Nat)) (hf : Functional tbl) (m : Text) (v : Nat)
    (h : (m, v) ∈ tbl) : lookupParse tbl m = some v := by
  cases hl : lookupParse tbl m with
  | none => exact absurd rfl ((lookupParse_none_iff tbl m).mp hl (m, v) h)
  | some x =>
    have := lookupParse_some_mem tbl m x hl
    have := hf (m, x) this (m, v) h rfl
    simp at this; subst this; rfl

theorem lookupParse_append (a b : List (Text × Nat)) (t : Text) :
    lookupParse (a ++ b) t = (lookupParse a t).orElse (fun _ => lookupParse b t) := by
  induction a with
  | nil => simp [lookupParse]
  | cons r rest ih =>
    obtain ⟨m, v⟩ := r
    simp only [List.cons_append, lookupParse]
    split
    · simp
    · exact ih

theorem lookupDisplay_some_mem (tbl : List (Nat × String)) (v : Nat) (s : String)
    (h : lookupDisplay tbl v = some s) : (v, s) ∈ tbl := by
  induction tbl with
  | nil => simp [lookupDisplay] at h
  | cons r rest ih =>
    obtain ⟨x, y⟩ := r
    simp only [lookupDisplay] at h
    split at h
    · cases h; subst_vars; simp
    · exact List.mem_cons_of_mem _ (ih h)

theorem lookupDisplay_append (a b : List (Nat × String)) (v : Nat) :
    lookupDisplay (a ++ b) v = (lookupDisplay a v).orElse (fun _ => lookupDisplay b v) := by
  induction a with
  | nil => simp [lookupDisplay]
  | cons r rest ih =>
    obtain ⟨x, y⟩ := r
    simp only [List.cons_append, lookupDisplay]
    split
    · simp
    · exact ih

/-! ### the RFC 3597 arm -/

theorem map_lower_length {a b : Text} (h : a.map lowerU8 = b.map lowerU8) : a.length = b.length := by
  have := congrArg List.length h
  simpa using this

/-- the arm is taken exactly when the first `n` octets are the word up to case … -/
theorem generic_prefix (word : Text) (n : Nat) (hw : word.length = n) (p s : Text)
    (hp : p.map lowerU8 = word.map lowerU8)
    (hs : ∀ c, s.head? = some c → c.toNat < 128 ∨ 192 ≤ c.toNat) :
    generic word n n (p ++ s) =
      match parseU16 s with
      | some v => .ok v
      | none => .err .BadValue := by
  have hpl : p.length = n := by rw [map_lower_length hp, hw]
  have hb : isCharBoundary (p ++ s) n = true := by
    unfold isCharBoundary
    split
    · rfl
    · split
      · rename_i h
        have : (p ++ s)[n] = s[0]'(by simp at h; omega) := by
          rw [List.getElem_append_right (by omega)]; simp [hpl]
        rw [this]
        cases s with
        | nil => simp at h; omega
        | cons c cs => simpa using hs c rfl
      · simp; simp at *; omega
  have ht : (p ++ s).take n = p := by rw [← hpl]; simp
  have hd : (p ++ s).drop n = s := by rw [← hpl]; simp
  have h0 : isCharBoundary (p ++ s) 0 = true := by simp [isCharBoundary]
  have he : eqIgnoreAsciiCase p word = true := (eqIgnoreAsciiCase_iff _ _).mpr hp
  simp only [generic, getPrefix, sliceFrom, h0, hb, ht, hd, he, Bool.and_self, ↓reduceIte, Option.any_some]
  cases parseU16 s <;> rfl

/-- … and is refused with "unknown" otherwise -/
theorem generic_unknown (word : Text) (n m : Nat) (t : Text)
    (h : (t.take n).map lowerU8 ≠ word.map lowerU8) : generic word n m t = .err .Unknown := by
  unfold generic getPrefix
  by_cases hb : (isCharBoundary t 0 && isCharBoundary t n) = true
  · have : eqIgnoreAsciiCase (t.take n) word = false := by
      cases he : eqIgnoreAsciiCase (t.take n) word with
      | false => rfl
      | true => exact absurd ((eqIgnoreAsciiCase_iff _ _).mp he) h
    simp [hb, this]
  · simp [hb]

/-- the slice `text[n..]` cannot panic after `text.get(0..n)` succeeded -/
theorem generic_no_panic (word : Text) (n : Nat) (t : Text) : generic word n n t ≠ .panic := by
  unfold generic
  split
  · rename_i hc
    have h2 : isCharBoundary t n = true := by
      unfold getPrefix at hc
      by_cases hb : (isCharBoundary t 0 && isCharBoundary t n) = true
      · simp at hb; exact hb.2
      · simp [hb] at hc
    simp only [sliceFrom, h2, ↓reduceIte]
    cases parseU16 (t.drop n) <;> simp
  · simp

/-! ### a whole `FromStr` impl -/

/-- no mnemonic begins (up to case) with the RFC 3597 word -/
def NoWord (tbl : List (Text × Nat)) (word : Text) : Prop :=
  ∀ r ∈ tbl, (r.1.take word.length).map lowerU8 ≠ word.map lowerU8

/-- mnemonics equal up to case are the same row -/
def Distinct (tbl : List (Text × Nat)) : Prop :=
  ∀ r ∈ tbl, ∀ r' ∈ tbl, r.1.map lowerU8 = r'.1.map lowerU8 → r = r'

theorem Distinct.functional {tbl} (h : Distinct tbl) : Functional tbl := by
  intro r hr r' hr' e
  rw [h r hr r' hr' (by rw [e])]

/-- the table's mnemonics are written in upper case (so that they can match an upper-cased text) -/
def AllUpper (tbl : List (Text × Nat)) : Prop := ∀ r ∈ tbl, r.1.map upperU8 = r.1

theorem lower_upper (b : UInt8) : lowerU8 (upperU8 b) = lowerU8 b := by
  revert b; apply forall_uint8; unfold lowerU8 upperU8; decide +kernel

theorem upper_lower (b : UInt8) : upperU8 (lowerU8 b) = upperU8 b := by
  revert b; apply forall_uint8; unfold lowerU8 upperU8; decide +kernel

theorem map_lower_upper (t : Text) : (t.map upperU8).map lowerU8 = t.map lowerU8 := by
  simp [List.map_map, Function.comp_def, lower_upper]

/-- texts equal up to case have the same upper-casing -/
theorem map_upper_of_lower {a b : Text} (h : a.map lowerU8 = b.map lowerU8) :
    a.map upperU8 = b.map upperU8 := by
  have := congrArg (List.map upperU8) h
  simpa [List.map_map, Function.comp_def, upper_lower] using this

abbrev UP : String := "to_ascii_uppercase"

theorem normaliseBy_up (t : Text) : normaliseBy UP t = t.map upperU8 := by
  simp [normaliseBy, UP]

theorem parseWith_generic (tbl : List (Text × Nat)) (word : Text) (n : Nat) (hw : word.length = n)
    (hnw : NoWord tbl word) (p ds : Text) (v : Nat) (hp : p.map lowerU8 = word.map lowerU8)
    (hd : IsDecimal ds v) (hv : v < 65536) : parseWith tbl UP word n n (p ++ ds) = .ok v := by
  have hpl : p.length = word.length := map_lower_length hp
  have hl : lookupParse tbl (normaliseBy UP (p ++ ds)) = none := by
    rw [lookupParse_none_iff, normaliseBy_up]
    intro r hr e
    apply hnw r hr
    rw [← e, ← hpl, ← hp, ← map_lower_upper p]
    simp
  unfold parseWith
  rw [hl]
  simp only
  rw [generic_prefix word n hw p ds hp, parseU16_isDecimal hd hv]
  intro c hc
  cases ds with
  | nil => simp at hc
  | cons x xs =>
    simp at hc; subst hc
    have := isDecimal_all_digits hd x (by simp)
    simp [isDigit] at this; omega

/-- **mnemonics are case-insensitive**: any text equal up to ASCII case to a mnemonic of the table
    parses to that mnemonic's value -/
theorem parseWith_mnemonic (tbl : List (Text × Nat)) (word : Text) (n k : Nat) (hd : Distinct tbl)
    (hu : AllUpper tbl) (m : Text) (v : Nat) (h : (m, v) ∈ tbl) (s : Text)
    (hs : s.map lowerU8 = m.map lowerU8) : parseWith tbl UP word n k s = .ok v := by
  unfold parseWith
  have : normaliseBy UP s = m := by
    rw [normaliseBy_up, map_upper_of_lower hs]; exact hu (m, v) h
  rw [this, lookupParse_mem tbl hd.functional m v h]

theorem parseWith_no_panic (tbl : List (Text × Nat)) (how : String) (word : Text) (n : Nat) (t : Text) :
    parseWith tbl how word n n t ≠ .panic := by
  unfold parseWith
  cases lookupParse tbl (normaliseBy how t) with
  | some v => simp
  | none => exact generic_no_panic word n t

/-- display rows parse back: for every value's first `Display` arm, the (upper-cased) text is a
    mnemonic arm of `FromStr` with that value -/
def RowsParse (dtbl : List (Nat × String)) (tbl : List (Text × Nat)) : Prop :=
  ∀ d ∈ dtbl, lookupDisplay dtbl d.1 = some d.2 →
    lookupParse tbl ((bytesOf d.2).map upperU8) = some d.1

theorem parseWith_display (tbl : List (Text × Nat)) (word : Text) (n : Nat) (hw : word.length = n)
    (hnw : NoWord tbl word) (dtbl : List (Nat × String)) (pre : String)
    (hpre : (bytesOf pre).map lowerU8 = word.map lowerU8) (hrows : RowsParse dtbl tbl)
    (v : Nat) (hv : v < 65536) : parseWith tbl UP word n n (displayWith dtbl pre v) = .ok v := by
  unfold displayWith
  cases hl : lookupDisplay dtbl v with
  | some s =>
    have hm := lookupDisplay_some_mem dtbl v s hl
    have := hrows (v, s) hm hl
    simp only [parseWith, normaliseBy_up, this]
  | none =>
    exact parseWith_generic tbl word n hw hnw _ _ v hpre (dec_isDecimal v) hv

/-! ### Qtype / Qclass: own arms first, then the delegate's -/

theorem qtypeFromStr_eq (t : Text) :
    qtypeFromStr t = parseWith (qtypeTable ++ typeTable) UP typeWord Gen.typeParseGetEnd Gen.typeParseSliceFrom t := by
  have h1 : Gen.qtypeParseNormalise = UP := by decide
  have h2 : Gen.typeParseNormalise = UP := by decide
  unfold qtypeFromStr typeFromStr parseWith
  rw [lookupParse_append, h1, h2]
  cases lookupParse qtypeTable (normaliseBy UP t) <;> simp

theorem qclassFromStr_eq (t : Text) :
    qclassFromStr t = parseWith (qclassTable ++ classTable) UP classWord Gen.classParseGetEnd Gen.classParseSliceFrom t := by
  have h1 : Gen.qclassParseNormalise = UP := by decide
  have h2 : Gen.classParseNormalise = UP := by decide
  unfold qclassFromStr classFromStr parseWith
  rw [lookupParse_append, h1, h2]
  cases lookupParse qclassTable (normaliseBy UP t) <;> simp

theorem qtypeDisplay_eq (v : Nat) :
    qtypeDisplay v = displayWith (Gen.qtypeDisplay ++ Gen.typeDisplay) Gen.typeDisplayPrefix v := by
  unfold qtypeDisplay typeDisplay displayWith
  rw [lookupDisplay_append]
  cases lookupDisplay Gen.qtypeDisplay v <;> simp

theorem qclassDisplay_eq (v : Nat) :
    qclassDisplay v = displayWith (Gen.qclassDisplay ++ Gen.classDisplay) Gen.classDisplayPrefix v := by
  unfold qclassDisplay classDisplay displayWith
  rw [lookupDisplay_append]
  cases lookupDisplay Gen.qclassDisplay v <;> simp

end QV.Codes
