/-
  QV.Proofs.Codes — lemmas for C17 (code ↔ text round trips).

  * the decimal print/parse round trip (`dec`, `digitsFrom`, `parseU16`) by induction, via the
    spec's inductive `IsDecimal`;
  * `eq_ignore_ascii_case` ↔ equality of lower-cased octets; the spec's `lower` = `lowerU8`;
  * generic theorems about a `FromStr` impl (`parseWith`) under three decidable conditions on its
    table (`NoWord`, `Distinct`, `RowsParse`), instantiated in `QV.Properties.C17` on the generated
    tables by `decide`; the mnemonic arms see the upper-cased text (`normaliseBy`).
-/
import QV.Model.Codes
import QV.Spec.Codes

namespace QV.Codes
open QV QV.Spec.Codes

theorem forall_uint8 (P : UInt8 → Prop) (h : ∀ n, n < 256 → P (UInt8.ofNat n)) : ∀ b, P b := by
  intro b
  have := h b.toNat b.toNat_lt
  simpa using this

theorem ofNat_digit_toNat (d : Nat) (h : d < 10) : (UInt8.ofNat (48 + d)).toNat = 48 + d := by
  simp [UInt8.toNat_ofNat']; omega

/-- the spec's lower-casing is `u8::to_ascii_lowercase` octet by octet -/
theorem lowerByte_eq (b : UInt8) :
    (if 65 ≤ b.toNat ∧ b.toNat ≤ 90 then UInt8.ofNat (b.toNat + 32) else b) = lowerU8 b := by
  revert b; apply forall_uint8; unfold lowerU8; decide +kernel

theorem lower_eq_map (t : List UInt8) : lower t = t.map lowerU8 := by
  unfold lower
  apply List.map_congr_left
  intro b _
  exact lowerByte_eq b

theorem isDigit_lower (b : UInt8) : isDigit (lowerU8 b) = isDigit b := by
  revert b; apply forall_uint8; unfold lowerU8 isDigit; decide +kernel

theorem lower_of_isDigit (b : UInt8) (h : isDigit b = true) : lowerU8 b = b := by
  revert b; apply forall_uint8; unfold lowerU8 isDigit; decide +kernel

theorem eqIgnoreAsciiCase_iff (a b : Text) :
    eqIgnoreAsciiCase a b = true ↔ a.map lowerU8 = b.map lowerU8 := by
  unfold eqIgnoreAsciiCase
  induction a generalizing b with
  | nil => cases b <;> simp
  | cons x xs ih =>
    cases b with
    | nil => simp
    | cons y ys =>
      have := ih ys
      simp only [List.length_cons, List.zip_cons_cons, List.all_cons, List.map_cons, List.cons.injEq,
        Bool.and_eq_true, beq_iff_eq] at this ⊢
      constructor
      · intro ⟨h1, h2, h3⟩
        exact ⟨h2, this.mp ⟨by omega, h3⟩⟩
      · intro ⟨h1, h2⟩
        have := this.mpr h2
        exact ⟨by omega, h1, this.2⟩

theorem isDecimal_ne_nil {ds n} (h : IsDecimal ds n) : ds ≠ [] := by
  cases h <;> simp

theorem isDecimal_all_digits {ds n} (h : IsDecimal ds n) : ∀ c ∈ ds, isDigit c = true := by
  induction h with
  | digit d hd => intro c hc; simp at hc; subst hc; simp [isDigit]; omega
  | snoc d hd _ _ ih =>
    intro c hc
    simp at hc
    rcases hc with hc | hc
    · exact ih c hc
    · subst hc; simp [isDigit]; omega

theorem dec_isDecimal (n : Nat) : IsDecimal (dec n) n := by
  induction n using Nat.strongRecOn with
  | _ n ih =>
    rw [dec]
    split
    · exact IsDecimal.digit n (by assumption)
    · have h1 := ih (n / 10) (by omega)
      have := IsDecimal.snoc (n % 10) (by omega) (by omega) h1
      have e : n / 10 * 10 + n % 10 = n := by omega
      rw [e] at this
      exact this

def decValue (ds : List UInt8) : Nat := ds.foldl (fun a b => a * 10 + (b.toNat - 48)) 0

theorem isDecimal_value {ds n} (h : IsDecimal ds n) : decValue ds = n := by
  unfold decValue
  induction h with
  | digit d hd => simp; omega
  | snoc d hd _ _ ih => rw [List.foldl_append, ih]; simp; omega

theorem isDecimal_unique {ds n m} (h : IsDecimal ds n) (h' : IsDecimal ds m) : n = m := by
  rw [← isDecimal_value h, ← isDecimal_value h']


/-! ### u16::from_str on canonical numerals -/

theorem digitsFrom_append (acc : Nat) (a b : List UInt8) :
    digitsFrom acc (a ++ b) = (digitsFrom acc a).bind (fun x => digitsFrom x b) := by
  induction a generalizing acc with
  | nil => simp [digitsFrom]
  | cons c cs ih =>
    simp only [List.cons_append, digitsFrom]
    split
    · split
      · simp
      · exact ih _
    · simp

theorem isDecimal_digitsFrom {ds : List UInt8} {n : Nat} (h : IsDecimal ds n) (hn : n ≤ 65535) :
    digitsFrom 0 ds = some n := by
  induction h with
  | digit d hd =>
    simp [digitsFrom, isDigit]; omega
  | snoc d hd hpos r ih =>
    rw [digitsFrom_append, ih (by omega)]
    simp [digitsFrom, isDigit]; omega



theorem parseU16_of_digit_head (c : UInt8) (cs : List UInt8) (h : isDigit c = true) :
    parseU16 (c :: cs) = digitsFrom 0 (c :: cs) := by
  have h43 : c ≠ 43 := by intro e; subst e; revert h; decide
  have h45 : c ≠ 45 := by intro e; subst e; revert h; decide
  cases cs with
  | nil => simp [parseU16, h43, h45]
  | cons d ds => simp [parseU16, h43]

theorem parseU16_isDecimal {ds : List UInt8} {n : Nat} (h : IsDecimal ds n) (hn : n < 65536) :
    parseU16 ds = some n := by
  have hne := isDecimal_ne_nil h
  have hall := isDecimal_all_digits h
  cases ds with
  | nil => exact absurd rfl hne
  | cons c cs =>
    rw [parseU16_of_digit_head c cs (hall c (by simp))]
    exact isDecimal_digitsFrom h (by omega)

/-! ### the mnemonic arms -/

theorem lookupParse_none_iff (tbl : List (Text × Nat)) (t : Text) :
    lookupParse tbl t = none ↔ ∀ r ∈ tbl, t ≠ r.1 := by
  induction tbl with
  | nil => simp [lookupParse]
  | cons r rest ih =>
    obtain ⟨m, v⟩ := r
    simp only [lookupParse, List.mem_cons, forall_eq_or_imp]
    split
    · simp_all
    · simp_all

theorem lookupParse_some_mem (tbl : List (Text × Nat)) (t : Text) (v : Nat)
    (h : lookupParse tbl t = some v) : (t, v) ∈ tbl := by
  induction tbl with
  | nil => simp [lookupParse] at h
  | cons r rest ih =>
    obtain ⟨m, x⟩ := r
    simp only [lookupParse] at h
    split at h
    · cases h; subst_vars; simp
    · exact List.mem_cons_of_mem _ (ih h)

/-- keys that are equal carry equal values -/
def Functional (tbl : List (Text × Nat)) : Prop := ∀ r ∈ tbl, ∀ r' ∈ tbl, r.1 = r'.1 → r.2 = r'.2

theorem lookupParse_mem (tbl : List (Text × Nat)) (hf : Functional tbl) (m : Text) (v : Nat)
    (h : (m, v) ∈ tbl) : lookupParse tbl m = some v := by
  cases hl : lookupParse tbl m with
  | none => exact absurd rfl ((lookupParse_none_iff tbl m).mp hl (m, v) h)
  | some x =>
    have := lookupParse_some_mem tbl m x hl
    have := hf (m, x) this (m, v) h rfl
    simp at this; subst this; rfl

theorem lookupParse_append (a b : List (Text × Nat)) (t : Text) :
    lookupParse (a ++ b) t = (lookupParse a t).orElse (fun _ => lookupParse b t) := by
  induction a with
  | nil => simp [lookupParse]
  | cons r rest ih =>
    obtain ⟨m, v⟩ := r
    simp only [List.cons_append, lookupParse]
    split
    · simp
    · exact ih

theorem lookupDisplay_some_mem (tbl : List (Nat × String)) (v : Nat) (s : String)
    (h : lookupDisplay tbl v = some s) : (v, s) ∈ tbl := by
  induction tbl with
  | nil => simp [lookupDisplay] at h
  | cons r rest ih =>
    obtain ⟨x, y⟩ := r
    simp only [lookupDisplay] at h
    split at h
    · cases h; subst_vars; simp
    · exact List.mem_cons_of_mem _ (ih h)

theorem lookupDisplay_append (a b : List (Nat × String)) (v : Nat) :
    lookupDisplay (a ++ b) v = (lookupDisplay a v).orElse (fun _ => lookupDisplay b v) := by
  induction a with
  | nil => simp [lookupDisplay]
  | cons r rest ih =>
    obtain ⟨x, y⟩ := r
    simp only [List.cons_append, lookupDisplay]
    split
    · simp
    · exact ih

/-! ### the RFC 3597 arm -/

theorem map_lower_length {a b : Text} (h : a.map lowerU8 = b.map lowerU8) : a.length = b.length := by
  have := congrArg List.length h
  simpa using this

/-- the arm is taken exactly when the first `n` octets are the word up to case … -/
theorem generic_prefix (word : Text) (n : Nat) (hw : word.length = n) (p s : Text)
    (hp : p.map lowerU8 = word.map lowerU8)
    (hs : ∀ c, s.head? = some c → c.toNat < 128 ∨ 192 ≤ c.toNat) :
    generic word n n (p ++ s) =
      match parseU16 s with
      | some v => .ok v
      | none => .err .BadValue := by
  have hpl : p.length = n := by rw [map_lower_length hp, hw]
  have hb : isCharBoundary (p ++ s) n = true := by
    unfold isCharBoundary
    split
    · rfl
    · split
      · rename_i h
        have : (p ++ s)[n] = s[0]'(by simp at h; omega) := by
          rw [List.getElem_append_right (by omega)]; simp [hpl]
        rw [this]
        cases s with
        | nil => simp at h; omega
        | cons c cs => simpa using hs c rfl
      · simp; simp at *; omega
  have ht : (p ++ s).take n = p := by rw [← hpl]; simp
  have hd : (p ++ s).drop n = s := by rw [← hpl]; simp
  have h0 : isCharBoundary (p ++ s) 0 = true := by simp [isCharBoundary]
  have he : eqIgnoreAsciiCase p word = true := (eqIgnoreAsciiCase_iff _ _).mpr hp
  simp only [generic, getPrefix, sliceFrom, h0, hb, ht, hd, he, Bool.and_self, ↓reduceIte, Option.any_some]
  cases parseU16 s <;> rfl

/-- … and is refused with "unknown" otherwise -/
theorem generic_unknown (word : Text) (n m : Nat) (t : Text)
    (h : (t.take n).map lowerU8 ≠ word.map lowerU8) : generic word n m t = .err .Unknown := by
  unfold generic getPrefix
  by_cases hb : (isCharBoundary t 0 && isCharBoundary t n) = true
  · have : eqIgnoreAsciiCase (t.take n) word = false := by
      cases he : eqIgnoreAsciiCase (t.take n) word with
      | false => rfl
      | true => exact absurd ((eqIgnoreAsciiCase_iff _ _).mp he) h
    simp [hb, this]
  · simp [hb]

/-- the slice `text[n..]` cannot panic after `text.get(0..n)` succeeded -/
theorem generic_no_panic (word : Text) (n : Nat) (t : Text) : generic word n n t ≠ .panic := by
  unfold generic
  split
  · rename_i hc
    have h2 : isCharBoundary t n = true := by
      unfold getPrefix at hc
      by_cases hb : (isCharBoundary t 0 && isCharBoundary t n) = true
      · simp at hb; exact hb.2
      · simp [hb] at hc
    simp only [sliceFrom, h2, ↓reduceIte]
    cases parseU16 (t.drop n) <;> simp
  · simp

/-! ### a whole `FromStr` impl -/

/-- no mnemonic begins (up to case) with the RFC 3597 word -/
def NoWord (tbl : List (Text × Nat)) (word : Text) : Prop :=
  ∀ r ∈ tbl, (r.1.take word.length).map lowerU8 ≠ word.map lowerU8

/-- mnemonics equal up to case are the same row -/
def Distinct (tbl : List (Text × Nat)) : Prop :=
  ∀ r ∈ tbl, ∀ r' ∈ tbl, r.1.map lowerU8 = r'.1.map lowerU8 → r = r'

theorem Distinct.functional {tbl} (h : Distinct tbl) : Functional tbl := by
  intro r hr r' hr' e
  rw [h r hr r' hr' (by rw [e])]

/-- the table's mnemonics are written in upper case (so that they can match an upper-cased text) -/
def AllUpper (tbl : List (Text × Nat)) : Prop := ∀ r ∈ tbl, r.1.map upperU8 = r.1

theorem lower_upper (b : UInt8) : lowerU8 (upperU8 b) = lowerU8 b := by
  revert b; apply forall_uint8; unfold lowerU8 upperU8; decide +kernel

theorem upper_lower (b : UInt8) : upperU8 (lowerU8 b) = upperU8 b := by
  revert b; apply forall_uint8; unfold lowerU8 upperU8; decide +kernel

theorem map_lower_upper (t : Text) : (t.map upperU8).map lowerU8 = t.map lowerU8 := by
  simp [List.map_map, Function.comp_def, lower_upper]

/-- texts equal up to case have the same upper-casing -/
theorem map_upper_of_lower {a b : Text} (h : a.map lowerU8 = b.map lowerU8) :
    a.map upperU8 = b.map upperU8 := by
  have := congrArg (List.map upperU8) h
  simpa [List.map_map, Function.comp_def, upper_lower] using this

abbrev UP : String := "to_ascii_uppercase"

theorem normaliseBy_up (t : Text) : normaliseBy UP t = t.map upperU8 := by
  simp [normaliseBy, UP]

theorem parseWith_generic (tbl : List (Text × Nat)) (word : Text) (n : Nat) (hw : word.length = n)
    (hnw : NoWord tbl word) (p ds : Text) (v : Nat) (hp : p.map lowerU8 = word.map lowerU8)
    (hd : IsDecimal ds v) (hv : v < 65536) : parseWith tbl UP word n n (p ++ ds) = .ok v := by
  have hpl : p.length = word.length := map_lower_length hp
  have hl : lookupParse tbl (normaliseBy UP (p ++ ds)) = none := by
    rw [lookupParse_none_iff, normaliseBy_up]
    intro r hr e
    apply hnw r hr
    rw [← e, ← hpl, ← hp, ← map_lower_upper p]
    simp
  unfold parseWith
  rw [hl]
  simp only
  rw [generic_prefix word n hw p ds hp, parseU16_isDecimal hd hv]
  intro c hc
  cases ds with
  | nil => simp at hc
  | cons x xs =>
    simp at hc; subst hc
    have := isDecimal_all_digits hd x (by simp)
    simp [isDigit] at this; omega

/-- **mnemonics are case-insensitive**: any text equal up to ASCII case to a mnemonic of the table
    parses to that mnemonic's value -/
theorem parseWith_mnemonic (tbl : List (Text × Nat)) (word : Text) (n k : Nat) (hd : Distinct tbl)
    (hu : AllUpper tbl) (m : Text) (v : Nat) (h : (m, v) ∈ tbl) (s : Text)
    (hs : s.map lowerU8 = m.map lowerU8) : parseWith tbl UP word n k s = .ok v := by
  unfold parseWith
  have : normaliseBy UP s = m := by
    rw [normaliseBy_up, map_upper_of_lower hs]; exact hu (m, v) h
  rw [this, lookupParse_mem tbl hd.functional m v h]

theorem parseWith_no_panic (tbl : List (Text × Nat)) (how : String) (word : Text) (n : Nat) (t : Text) :
    parseWith tbl how word n n t ≠ .panic := by
  unfold parseWith
  cases lookupParse tbl (normaliseBy how t) with
  | some v => simp
  | none => exact generic_no_panic word n t

/-- display rows parse back: for every value's first `Display` arm, the (upper-cased) text is a
    mnemonic arm of `FromStr` with that value -/
def RowsParse (dtbl : List (Nat × String)) (tbl : List (Text × Nat)) : Prop :=
  ∀ d ∈ dtbl, lookupDisplay dtbl d.1 = some d.2 →
    lookupParse tbl ((bytesOf d.2).map upperU8) = some d.1

theorem parseWith_display (tbl : List (Text × Nat)) (word : Text) (n : Nat) (hw : word.length = n)
    (hnw : NoWord tbl word) (dtbl : List (Nat × String)) (pre : String)
    (hpre : (bytesOf pre).map lowerU8 = word.map lowerU8) (hrows : RowsParse dtbl tbl)
    (v : Nat) (hv : v < 65536) : parseWith tbl UP word n n (displayWith dtbl pre v) = .ok v := by
  unfold displayWith
  cases hl : lookupDisplay dtbl v with
  | some s =>
    have hm := lookupDisplay_some_mem dtbl v s hl
    have := hrows (v, s) hm hl
    simp only [parseWith, normaliseBy_up, this]
  | none =>
    exact parseWith_generic tbl word n hw hnw _ _ v hpre (dec_isDecimal v) hv

/-! ### what `u16::from_str` and a whole `FromStr` impl accept, exactly -/

theorem foldl_dec_ge (cs : List UInt8) (a : Nat) :
    a ≤ cs.foldl (fun a b => a * 10 + (b.toNat - 48)) a := by
  induction cs generalizing a with
  | nil => simp
  | cons c cs ih =>
    simp only [List.foldl_cons]
    have := ih (a * 10 + (c.toNat - 48))
    omega

/-- the checked digit loop: succeeds exactly on all-digit input whose value stays ≤ 65535 -/
theorem digitsFrom_iff (acc : Nat) (hacc : acc ≤ 65535) (ds : List UInt8) (v : Nat) :
    digitsFrom acc ds = some v ↔
      (∀ c ∈ ds, isDigit c = true) ∧ ds.foldl (fun a b => a * 10 + (b.toNat - 48)) acc = v ∧ v ≤ 65535 := by
  induction ds generalizing acc with
  | nil =>
    simp only [digitsFrom, Option.some.injEq, List.not_mem_nil, false_imp_iff, implies_true, List.foldl_nil, true_and]
    constructor
    · intro e; subst e; exact ⟨rfl, hacc⟩
    · intro ⟨e, _⟩; exact e
  | cons c cs ih =>
    simp only [digitsFrom, List.mem_cons, forall_eq_or_imp, List.foldl_cons]
    by_cases hc : isDigit c = true
    · simp only [hc, ↓reduceIte, true_and]
      by_cases hov : acc * 10 + (c.toNat - 48) > 65535
      · simp only [hov, ↓reduceIte, reduceCtorEq, false_iff, not_and]
        intro _ e
        have := foldl_dec_ge cs (acc * 10 + (c.toNat - 48))
        omega
      · simp only [hov, ↓reduceIte]
        exact ih _ (by omega)
    · simp [hc]

/-- **`u16::from_str`, as modelled**: an optional leading `+`, then at least one ASCII digit and
    nothing else, denoting a value ≤ 65535 (leading zeros allowed) -/
theorem parseU16_iff (s : Text) (v : Nat) :
    parseU16 s = some v ↔
      ∃ ds, (s = ds ∨ s = 43 :: ds) ∧ ds ≠ [] ∧ (∀ c ∈ ds, isDigit c = true) ∧ decValue ds = v ∧ v ≤ 65535 := by
  have h43 : isDigit 43 = false := by decide
  have h45 : isDigit 45 = false := by decide
  unfold decValue
  match s with
  | [] =>
    simp only [parseU16, reduceCtorEq, false_iff, not_exists, not_and]
    intro ds h hne
    rcases h with h | h
    · exact absurd h.symm hne
    · cases h
  | [c] =>
    simp only [parseU16]
    by_cases hc : c = 43 ∨ c = 45
    · simp only [hc, ↓reduceIte, reduceCtorEq, false_iff, not_exists, not_and]
      intro ds h hne hall
      rcases h with h | h
      · subst h
        have := hall c (by simp)
        rcases hc with rfl | rfl <;> simp_all
      · simp at h; exact absurd h.2 hne
    · simp only [hc, ↓reduceIte]
      rw [digitsFrom_iff 0 (by omega)]
      constructor
      · intro ⟨h1, h2, h3⟩; exact ⟨[c], .inl rfl, by simp, h1, h2, h3⟩
      · intro ⟨ds, h, hne, h1, h2, h3⟩
        rcases h with h | h
        · subst h; exact ⟨h1, h2, h3⟩
        · simp at h; exact absurd h.2 hne
  | c :: d :: rest =>
    simp only [parseU16]
    by_cases hc : c = 43
    · subst hc
      simp only [↓reduceIte]
      rw [digitsFrom_iff 0 (by omega)]
      constructor
      · intro ⟨h1, h2, h3⟩; exact ⟨d :: rest, .inr rfl, by simp, h1, h2, h3⟩
      · intro ⟨ds, h, hne, h1, h2, h3⟩
        rcases h with h | h
        · subst h
          have := h1 43 (by simp)
          rw [h43] at this; cases this
        · simp at h; subst h; exact ⟨h1, h2, h3⟩
    · simp only [hc, ↓reduceIte]
      rw [digitsFrom_iff 0 (by omega)]
      constructor
      · intro ⟨h1, h2, h3⟩; exact ⟨c :: d :: rest, .inl rfl, by simp, h1, h2, h3⟩
      · intro ⟨ds, h, hne, h1, h2, h3⟩
        rcases h with h | h
        · subst h; exact ⟨h1, h2, h3⟩
        · simp at h; exact absurd h.1 hc



theorem parseU16_head_ascii {s : Text} {v : Nat} (h : parseU16 s = some v) :
    ∀ c, s.head? = some c → c.toNat < 128 ∨ 192 ≤ c.toNat := by
  obtain ⟨ds, hs, hne, hall, _, _⟩ := (parseU16_iff s v).mp h
  intro c hc
  rcases hs with hs | hs
  · subst hs
    cases s with
    | nil => exact absurd rfl hne
    | cons d ds =>
      simp at hc; subst hc
      have := hall d (by simp)
      simp [isDigit] at this; omega
  · subst hs; simp at hc; subst hc; left; decide

/-- the RFC 3597 arm accepts exactly: the word in any case, then what `u16::from_str` accepts -/
theorem generic_ok_iff (word : Text) (n : Nat) (hw : word.length = n) (t : Text) (v : Nat) :
    generic word n n t = .ok v ↔
      ∃ p s, t = p ++ s ∧ p.map lowerU8 = word.map lowerU8 ∧ parseU16 s = some v := by
  constructor
  · intro h
    by_cases hp : (t.take n).map lowerU8 = word.map lowerU8
    · refine ⟨t.take n, t.drop n, (List.take_append_drop n t).symm, hp, ?_⟩
      unfold generic at h
      split at h
      · unfold sliceFrom at h
        by_cases hb : isCharBoundary t n = true
        · simp only [hb, ↓reduceIte] at h
          cases hu : parseU16 (t.drop n) with
          | none => simp [hu] at h
          | some x => simp [hu] at h; rw [h]
        · simp [hb] at h
      · simp at h
    · rw [generic_unknown word n n t hp] at h; cases h
  · intro ⟨p, s, ht, hp, hu⟩
    subst ht
    rw [generic_prefix word n hw p s hp (parseU16_head_ascii hu), hu]

/-- the mnemonic arms accept exactly the table's mnemonics in any case -/
theorem lookup_upper_iff (tbl : List (Text × Nat)) (hd : Distinct tbl) (hu : AllUpper tbl) (t : Text) (v : Nat) :
    lookupParse tbl (t.map upperU8) = some v ↔ ∃ m, (m, v) ∈ tbl ∧ t.map lowerU8 = m.map lowerU8 := by
  constructor
  · intro h
    exact ⟨_, lookupParse_some_mem tbl _ v h, (map_lower_upper t).symm⟩
  · intro ⟨m, hm, hl⟩
    rw [map_upper_of_lower hl, hu (m, v) hm]
    exact lookupParse_mem tbl hd.functional m v hm

/-- **acceptance of a whole `FromStr` impl** -/
theorem parseWith_ok_iff (tbl : List (Text × Nat)) (word : Text) (n : Nat) (hw : word.length = n)
    (hnw : NoWord tbl word) (hd : Distinct tbl) (hu : AllUpper tbl) (t : Text) (v : Nat) :
    parseWith tbl UP word n n t = .ok v ↔
      (∃ m, (m, v) ∈ tbl ∧ t.map lowerU8 = m.map lowerU8) ∨
      (∃ p s, t = p ++ s ∧ p.map lowerU8 = word.map lowerU8 ∧ parseU16 s = some v) := by
  unfold parseWith
  rw [normaliseBy_up]
  cases hl : lookupParse tbl (t.map upperU8) with
  | some x =>
    simp only [Out.ok.injEq]
    constructor
    · intro e; subst e; exact .inl ((lookup_upper_iff tbl hd hu t x).mp hl)
    · intro h
      rcases h with h | ⟨p, s, ht, hp, _⟩
      · have := (lookup_upper_iff tbl hd hu t v).mpr h
        rw [hl] at this; cases this; rfl
      · exfalso
        have hm := lookupParse_some_mem tbl _ x hl
        apply hnw _ hm
        subst ht
        have hpl : p.length = word.length := map_lower_length hp
        simp only
        rw [List.map_take, map_lower_upper, List.map_append, ← hpl]
        simpa using hp
  | none =>
    simp only
    rw [generic_ok_iff word n hw]
    constructor
    · intro h; exact .inr h
    · intro h
      rcases h with h | h
      · have := (lookup_upper_iff tbl hd hu t v).mpr h
        rw [hl] at this; cases this
      · exact h

/-! ### the executable oracle `specParse` is the relation `Presents` -/

theorem isDecimal_pos_head {ds : List UInt8} {n : Nat} (h : IsDecimal ds n) (hn : 0 < n) :
    ds.head? ≠ some 48 := by
  induction h with
  | digit d hd =>
    simp only [List.head?_cons, ne_eq, Option.some.injEq]
    intro e
    have := congrArg UInt8.toNat e
    rw [ofNat_digit_toNat d hd] at this
    have h48 : (48 : UInt8).toNat = 48 := rfl
    omega
  | snoc d hd hpos r ih =>
    rename_i ds' n'
    have := ih hpos
    cases ds' with
    | nil => exact absurd rfl (isDecimal_ne_nil r)
    | cons x xs => simpa using this

theorem isDecimal_no_leading_zero {ds : List UInt8} {n : Nat} (h : IsDecimal ds n) :
    ¬ (ds.length > 1 ∧ ds.head? = some 48) := by
  intro ⟨hl, hh⟩
  cases h with
  | digit d hd => simp at hl
  | snoc d hd hpos r =>
    rename_i ds' n'
    have := isDecimal_pos_head r hpos
    cases ds' with
    | nil => exact absurd rfl (isDecimal_ne_nil r)
    | cons x xs => simp at hh this; exact this hh

theorem specDecimalValue_of_isDecimal {ds : List UInt8} {n : Nat} (h : IsDecimal ds n) (hn : n < 65536) :
    specDecimalValue ds = some n := by
  unfold specDecimalValue
  have hne := isDecimal_ne_nil h
  have hall := isDecimal_all_digits h
  have hnz := isDecimal_no_leading_zero h
  have hv := isDecimal_value h
  have h1 : ds.isEmpty = false := by cases ds <;> simp at hne ⊢
  have h2 : ds.all (fun b => decide (48 ≤ b.toNat ∧ b.toNat ≤ 57)) = true := by
    rw [List.all_eq_true]
    intro c hc
    have := hall c hc
    simp [isDigit] at this
    simp [this]
  unfold decValue at hv
  simp only [h1, Bool.false_eq_true, ↓reduceIte, h2, Bool.not_true, hnz, hv, hn]

theorem decValue_pos {ds : List UInt8} (hall : ∀ c ∈ ds, isDigit c = true) (hne : ds ≠ [])
    (hh : ds.head? ≠ some 48) : 0 < decValue ds := by
  cases ds with
  | nil => exact absurd rfl hne
  | cons c cs =>
    unfold decValue
    simp only [List.foldl_cons, Nat.zero_mul, Nat.zero_add]
    have hc := hall c (by simp)
    simp [isDigit] at hc
    have : c.toNat ≠ 48 := by
      intro e
      apply hh
      simp only [List.head?_cons, Option.some.injEq]
      exact UInt8.toNat_inj.mp (by simpa using e)
    have := foldl_dec_ge cs (c.toNat - 48)
    omega

theorem isDecimal_of_digits (ds : List UInt8) (hall : ∀ c ∈ ds, isDigit c = true) (hne : ds ≠ [])
    (hnz : ¬ (ds.length > 1 ∧ ds.head? = some 48)) : IsDecimal ds (decValue ds) := by
  induction hlen : ds.length using Nat.strongRecOn generalizing ds with
  | _ k ih =>
    obtain ⟨xs, x, rfl⟩ : ∃ xs x, ds = xs ++ [x] :=
      ⟨ds.dropLast, ds.getLast hne, (List.dropLast_concat_getLast hne).symm⟩
    have hx := hall x (by simp)
    have hxd : x = UInt8.ofNat (48 + (x.toNat - 48)) := by
      simp [isDigit] at hx
      apply UInt8.toNat_inj.mp
      rw [ofNat_digit_toNat _ (by omega)]; omega
    have hval : decValue (xs ++ [x]) = decValue xs * 10 + (x.toNat - 48) := by
      simp [decValue, List.foldl_append]
    simp [isDigit] at hx
    by_cases hxs : xs = []
    · subst hxs
      rw [hval]
      simp only [decValue, List.foldl_nil, Nat.zero_mul, Nat.zero_add, List.nil_append]
      have := IsDecimal.digit (x.toNat - 48) (by omega)
      rw [← hxd] at this
      exact this
    · have hxl : xs.length ≥ 1 := by cases xs <;> simp at hxs ⊢
      have hhead : xs.head? ≠ some 48 := by
        intro e
        apply hnz
        refine ⟨by simp; omega, ?_⟩
        cases xs with
        | nil => exact absurd rfl hxs
        | cons y ys => simpa using e
      have hallx : ∀ c ∈ xs, isDigit c = true := fun c hc => hall c (by simp [hc])
      have ihx := ih xs.length (by subst hlen; simp) xs hallx hxs (fun ⟨_, h⟩ => hhead h) rfl
      have hpos := decValue_pos hallx hxs hhead
      rw [hval]
      have := IsDecimal.snoc (x.toNat - 48) (by omega) hpos ihx
      rw [← hxd] at this
      exact this

theorem isDecimal_of_specDecimalValue {ds : List UInt8} {v : Nat} (h : specDecimalValue ds = some v) :
    IsDecimal ds v ∧ v < 65536 := by
  unfold specDecimalValue at h
  by_cases h1 : ds.isEmpty = true
  · simp [h1] at h
  · simp only [h1, Bool.false_eq_true, ↓reduceIte] at h
    cases h2 : ds.all (fun b => decide (48 ≤ b.toNat ∧ b.toNat ≤ 57)) with
    | false => simp only [h2, Bool.not_false, ↓reduceIte] at h; cases h
    | true =>
      simp only [h2, Bool.not_true, Bool.false_eq_true, ↓reduceIte] at h
      by_cases h3 : ds.length > 1 ∧ ds.head? = some 48
      · simp [h3] at h
      · simp only [h3, ↓reduceIte] at h
        split at h
        · rename_i hv
          simp at h; subst h
          have hall : ∀ c ∈ ds, isDigit c = true := by
            intro c hc
            have := List.all_eq_true.mp h2 c hc
            simpa [isDigit] using this
          have hne : ds ≠ [] := by cases ds <;> simp at h1 ⊢
          exact ⟨isDecimal_of_digits ds hall hne h3, hv⟩
        · simp at h



theorem lower_length (t : List UInt8) : (lower t).length = t.length := by simp [lower]

theorem lower_take (t : List UInt8) (n : Nat) : lower (t.take n) = (lower t).take n := by
  simp [lower, List.map_take]

theorem lower_append (a b : List UInt8) : lower (a ++ b) = lower a ++ lower b := by simp [lower]

/-- registry rows that agree up to case carry the same value -/
theorem spec_rows_consistent (k : Kind) :
    ∀ r ∈ mnemonics k, ∀ r' ∈ mnemonics k, lower (ascii r.1) = lower (ascii r'.1) → r.2 = r'.2 := by
  cases k <;> decide +kernel

/-- no registry mnemonic begins with the RFC 3597 word -/
theorem spec_rows_no_word (k : Kind) :
    ∀ r ∈ mnemonics k, (lower (ascii r.1)).take (ascii (word k)).length ≠ lower (ascii (word k)) := by
  cases k <;> decide +kernel

/-- **the oracle is the specification**: the executable `specParse` returns `v` exactly for the
    texts that present `v` -/
theorem specParse_iff (k : Kind) (t : List UInt8) (v : Nat) : specParse k t = some v ↔ Presents k t v := by
  unfold specParse specLookup
  constructor
  · intro h
    cases hf : (mnemonics k).find? (fun r => lower (ascii r.1) == lower t) with
    | some r =>
      simp only [hf, Option.map_some, Option.some.injEq] at h
      have hm := List.mem_of_find?_eq_some hf
      have hp := List.find?_some hf
      simp only [beq_iff_eq] at hp
      subst h
      exact Presents.mnemonic (m := r.1) hm hp.symm
    | none =>
      simp only [hf, Option.map_none] at h
      split at h
      · rename_i hc
        simp only [beq_iff_eq] at hc
        obtain ⟨hd, hv⟩ := isDecimal_of_specDecimalValue h
        have := Presents.generic (k := k) hc hd hv
        rwa [List.take_append_drop] at this
      · cases h
  · intro h
    cases h with
    | mnemonic hm ht =>
      rename_i m
      cases hf : (mnemonics k).find? (fun r => lower (ascii r.1) == lower t) with
      | some r =>
        have hm' := List.mem_of_find?_eq_some hf
        have hp := List.find?_some hf
        simp only [beq_iff_eq] at hp
        have := spec_rows_consistent k r hm' (m, v) hm (by rw [hp, ht])
        simp only [Option.map_some, Option.some.injEq]
        exact this
      | none =>
        have := List.find?_eq_none.mp hf (m, v) hm
        simp only [beq_iff_eq] at this
        exact absurd ht.symm this
    | generic hp hd hv =>
      rename_i p ds
      have hpl : p.length = (ascii (word k)).length := by
        have := congrArg List.length hp; simpa [lower_length] using this
      have hnone : (mnemonics k).find? (fun r => lower (ascii r.1) == lower (p ++ ds)) = none := by
        rw [List.find?_eq_none]
        intro r hr hc
        simp only [beq_iff_eq] at hc
        apply spec_rows_no_word k r hr
        rw [hc, lower_append, ← hpl, ← lower_length p, List.take_left, hp]
      simp only [hnone, Option.map_none]
      have ht : (p ++ ds).take (ascii (word k)).length = p := by rw [← hpl]; simp
      have hdr : (p ++ ds).drop (ascii (word k)).length = ds := by rw [← hpl]; simp
      simp only [ht, hdr, hp, beq_self_eq_true, ↓reduceIte]
      exact specDecimalValue_of_isDecimal hd hv

/-! ### Qtype / Qclass: own arms first, then the delegate's -/

theorem qtypeFromStr_eq (t : Text) :
    qtypeFromStr t = parseWith (qtypeTable ++ typeTable) UP typeWord Gen.typeParseGetEnd Gen.typeParseSliceFrom t := by
  have h1 : Gen.qtypeParseNormalise = UP := by decide
  have h2 : Gen.typeParseNormalise = UP := by decide
  unfold qtypeFromStr typeFromStr parseWith
  rw [lookupParse_append, h1, h2]
  cases lookupParse qtypeTable (normaliseBy UP t) <;> simp

theorem qclassFromStr_eq (t : Text) :
    qclassFromStr t = parseWith (qclassTable ++ classTable) UP classWord Gen.classParseGetEnd Gen.classParseSliceFrom t := by
  have h1 : Gen.qclassParseNormalise = UP := by decide
  have h2 : Gen.classParseNormalise = UP := by decide
  unfold qclassFromStr classFromStr parseWith
  rw [lookupParse_append, h1, h2]
  cases lookupParse qclassTable (normaliseBy UP t) <;> simp

theorem qtypeDisplay_eq (v : Nat) :
    qtypeDisplay v = displayWith (Gen.qtypeDisplay ++ Gen.typeDisplay) Gen.typeDisplayPrefix v := by
  unfold qtypeDisplay typeDisplay displayWith
  rw [lookupDisplay_append]
  cases lookupDisplay Gen.qtypeDisplay v <;> simp

theorem qclassDisplay_eq (v : Nat) :
    qclassDisplay v = displayWith (Gen.qclassDisplay ++ Gen.classDisplay) Gen.classDisplayPrefix v := by
  unfold qclassDisplay classDisplay displayWith
  rw [lookupDisplay_append]
  cases lookupDisplay Gen.qclassDisplay v <;> simp

end QV.Codes
