/-
  QV.Proofs.ServerSigned — responses to TSIG-signed requests, on the octets.

  `finish_signed`: the finished message of a writer that holds a header, a question and a pending
  TSIG record (the state in which every no-data response to a signed request is finished).
  `tsigStep_fits`: the writer state after one TSIG reply (`set_rcode`; `set_tsig_or_truncate`).
-/
import QV.Proofs.FinishTsig
import QV.Proofs.ScanTsigCont
import QV.Proofs.ServerResp
import QV.Proofs.ServerTsig

namespace QV.ServerScan
open QV QV.Wire QV.Reader QV.Writer

/-- the OPT record as `Proofs/WriterFinish` writes it = as `Proofs/WriterView` writes it -/
theorem optEnc_some (e : Edns) : optEnc (some e) = optRecord e := by
  unfold optEnc encRR optRecord
  rw [T_OPT_eq, root_wire]
  rfl

theorem take4_of_get (a : Bytes) (o0 o1 o2 o3 : UInt8) (h0 : a[0]? = some o0) (h1 : a[1]? = some o1)
    (h2 : a[2]? = some o2) (h3 : a[3]? = some o3) : a.toList.take 4 = [o0, o1, o2, o3] := by
  apply List.ext_getElem?
  intro i
  rw [List.getElem?_take]
  by_cases hi : i < 4
  · rw [if_pos hi, Array.getElem?_toList]
    have : i = 0 ∨ i = 1 ∨ i = 2 ∨ i = 3 := by omega
    rcases this with rfl | rfl | rfl | rfl
    · rw [h0]; rfl
    · rw [h1]; rfl
    · rw [h2]; rfl
    · rw [h3]; rfl
  · rw [if_neg hi]
    exact (List.getElem?_eq_none (by simp; omega)).symm

/-- **the finished message of a writer holding header, question and a pending TSIG record** -/
theorem finish_signed (macFn : Writer.Tsig → List UInt8 → List UInt8) (F : State) (Q : List UInt8)
    (o0 o1 o2 o3 : UInt8) (hc : F.cursor = 12 + Q.length)
    (h0 : F.octets[0]? = some o0) (h1 : F.octets[1]? = some o1) (h2 : F.octets[2]? = some o2)
    (h3 : F.octets[3]? = some o3) (hQ : ∀ j, j < Q.length → F.octets[12 + j]? = Q[j]?)
    (ts : Writer.Tsig) (hts : F.tsig = some ts) (b : Bytes) (mac : Option (List UInt8))
    (hf : Writer.finish F macFn = .ok (b, mac)) :
    mac = finishMac macFn ts ([o0, o1, o2, o3] ++
      (u16be F.qdcount ++ u16be F.ancount ++ u16be F.nscount ++ u16be F.arcount) ++ Q ++ optEnc F.edns) ∧
    ∃ oe sT, NameEnc sT .none ts.rr.keyName oe ∧ NameShape ts.rr.keyName oe ∧ sT.mode = F.mode ∧
      (sT.octets.extract 0 sT.cursor).toList = [o0, o1, o2, o3] ++
        (u16be F.qdcount ++ u16be F.ancount ++ u16be F.nscount ++ u16be F.arcount) ++ Q ++ optEnc F.edns ∧
      b.toList = [o0, o1, o2, o3] ++
        (u16be F.qdcount ++ u16be F.ancount ++ u16be F.nscount ++ u16be F.arcount) ++ Q ++ optEnc F.edns ++
        tsigRecordOctets oe ts mac := by
  obtain ⟨hcz, hmac, oe, sT, hoe, hmode, hpre, _, hb⟩ :=
    finish_octets_tsig macFn F (by omega) ts hts b mac hf
  have hP : finishPrefix F = [o0, o1, o2, o3] ++
      (u16be F.qdcount ++ u16be F.ancount ++ u16be F.nscount ++ u16be F.arcount) ++ Q := by
    unfold finishPrefix
    rw [take4_of_get _ _ _ _ _ h0 h1 h2 h3]
    congr 1
    apply List.ext_getElem?
    intro j
    rw [Array.getElem?_toList, Array.getElem?_extract]
    by_cases hj : j < Q.length
    · rw [if_pos (by rw [hc]; omega)]
      exact hQ j hj
    · rw [if_neg (by rw [hc]; omega)]
      exact (List.getElem?_eq_none (by omega)).symm
  rw [hP] at hmac hpre hb
  exact ⟨hmac, oe, sT, hoe, nameEnc_none_shape hoe, hmode, hpre, hb⟩

/-! ### the writer after one TSIG reply -/

open QV.ServerTsig in
theorem stRcode_fits (rc : Nat) (s : State) (mode : TsigMode) (rr : TsigRr) :
    TsigFits (stRcode rc s) mode rr ↔ TsigFits s mode rr := by
  have : (stRcode rc s).tsig = s.tsig ∧ (stRcode rc s).cursor = s.cursor ∧
      (stRcode rc s).available = s.available ∧ (stRcode rc s).arcount = s.arcount := by
    unfold stRcode stHdr
    cases s.edns <;> exact ⟨rfl, rfl, rfl, rfl⟩
  unfold TsigFits
  rw [this.1, this.2.1, this.2.2.1, this.2.2.2]

open QV.ServerTsig in
/-- `set_rcode(rc); set_tsig_or_truncate(mode, rr)` when the RR fits: the RCODE is set and the RR is
    recorded, nothing else happens -/
theorem tsigStep_fits (rc : Nat) (mode : TsigMode) (rr : TsigRr) (b : Bool) (r' : Reader) (s : State)
    (h3 : 3 < s.octets.size) (hf : TsigFits s mode rr) :
    (do setRcode rc
        let added ← Server.setTsigOrTruncate mode rr
        if added && b then pure (some r') else pure none : M (Option Reader)) s =
      (.ok (if b then some r' else none), withTsig (stRcode rc s) mode rr) := by
  rw [bind_ok (setRcode_eq rc s h3)]
  rw [bind_ok (setTsigOrTruncate_fits mode rr _ ((stRcode_fits rc s mode rr).mpr hf))]
  cases b <;> rfl

open QV.ServerTsig in
/-- **an authenticated request**: when the TSIG step hands back a reader, the request's algorithm is
    known, its key configured for that algorithm, `verify_request` succeeded, the response TSIG fits,
    and the writer is exactly: RCODE 0 set, the response TSIG (mode `Response` with the request MAC
    and the key; error 0, time = now, fudge 300, original ID) recorded -/
theorem tsigProcess_some_state (hm : Tsig.Algorithm → Tsig.Octets → Tsig.Octets → Tsig.Octets) (keys : List Server.Key)
    (s : State) (hs : 12 ≤ s.octets.size) (r : Tsig.ReadTsigRr) (msg : List UInt8) (nowT : Tsig.TimeSigned)
    (r' x : Reader) (s' : State) (h : Server.tsigProcess hm keys nowT r msg r' s = (.ok (some x), s')) :
    ∃ alg key kn, Tsig.Algorithm.fromName r.algorithm = some alg ∧ Server.findKey keys r.keyName alg = some key ∧
      WName.parse r.keyName = some (kn, []) ∧ Tsig.verifyRequest hm r msg alg key.secret nowT = .ok () ∧ x = r' ∧
      TsigFits s (.response (Server.toWriterAlg alg) r.mac key.secret) (prepOf kn r nowT 0) ∧
      s' = withTsig (stRcode 0 s) (.response (Server.toWriterAlg alg) r.mac key.secret) (prepOf kn r nowT 0) := by
  unfold Server.tsigProcess at h
  cases ha : Tsig.Algorithm.fromName r.algorithm with
  | none =>
    simp only [ha] at h
    exact absurd h (tsigBadKey_not_some _ _ _ _ _)
  | some alg =>
    simp only [ha] at h
    cases hk : Server.findKey keys r.keyName alg with
    | none =>
      simp only [hk] at h
      exact absurd h (tsigBadKey_not_some _ _ _ _ _)
    | some key =>
      simp only [hk] at h
      obtain ⟨kn, s1, hkn, hv, hx, hf, _, _, _⟩ :=
        tsigVerifyAndWrite_some hm s hs r msg alg key.secret nowT r' x s' h
      refine ⟨alg, key, kn, rfl, hk, hkn, hv, hx, hf, ?_⟩
      unfold Server.tsigVerifyAndWrite at h
      rw [hv] at h
      simp only [Server.tsigReply, preparedFromRead_eq kn r nowT _ hkn, rc_noerror, xrc_noerror] at h
      have := tsigStep_fits 0 (.response (Server.toWriterAlg alg) r.mac key.secret) (prepOf kn r nowT 0) true r' s
        (by omega) hf
      simp only [Bool.and_true, if_true] at this
      simp only [decide_true, Bool.and_true] at h
      rw [this] at h
      simp only [Prod.mk.injEq] at h
      exact h.2.symm

/-! ### the final writer states of responses to signed requests -/

theorem rcode_over (a b : Nat) (ha : a < 16) (hb : b < 16) :
    (UInt8.ofNat a &&& ~~~(15 : UInt8) ||| UInt8.ofNat b) = UInt8.ofNat b := by
  have : ∀ a : Fin 16, ∀ b : Fin 16, (UInt8.ofNat a.val &&& ~~~(15 : UInt8) ||| UInt8.ofNat b.val) = UInt8.ofNat b.val := by
    decide
  exact this ⟨a, ha⟩ ⟨b, hb⟩

/-- what the response writer looks like, as far as `finish` is concerned -/
structure SigSt (s1 F : State) (rc : Nat) (e : Bool) (payload : Nat) (ts : Writer.Tsig) : Prop where
  oct : ∀ i, i ≠ 3 → F.octets[i]? = s1.octets[i]?
  o3 : F.octets[3]? = some (UInt8.ofNat rc)
  cur : F.cursor = s1.cursor
  tsig : F.tsig = some ts
  edns : F.edns = (if e then some ⟨payload, 0⟩ else none)
  qd : F.qdcount = s1.qdcount
  an : F.ancount = s1.ancount
  ns : F.nscount = s1.nscount
  ar : F.arcount = s1.arcount + (if e then 1 else 0) + 1

open QV.ServerTsig in
/-- the writer after a TSIG reply that fits (`rc0`), and after a further `set_rcode(rc)` -/
theorem sigSt_facts (s1 : State) (tr : Server.Transport) (payload : Nat) (e : Bool) (l rc0 rc : Nat)
    (hrc0 : rc0 < 16) (hrc : rc < 16) (hb : Base s1 tr payload) (h30 : s1.octets.getD 3 0 = 0)
    (hs3 : 3 < s1.octets.size) (hl1 : 512 ≤ l) (hl2 : l ≤ max 512 payload) (mode : TsigMode) (rr : TsigRr) :
    SigSt s1 (withTsig (stRcode rc0 (arSt s1 tr payload e l)) mode rr) rc0 e payload ⟨mode, reservedLen mode rr, rr⟩ ∧
    SigSt s1 (stRcode rc (withTsig (stRcode rc0 (arSt s1 tr payload e l)) mode rr)) rc e payload
      ⟨mode, reservedLen mode rr, rr⟩ := by
  obtain ⟨g1, g2, g3, g4, g5, g6, g7, g8, _⟩ := final_rcode s1 tr payload e l rc0 hrc0 hb h30 hl1 hl2
  generalize stRcode rc0 (arSt s1 tr payload e l) = Y at *
  have hX : SigSt s1 (withTsig Y mode rr) rc0 e payload ⟨mode, reservedLen mode rr, rr⟩ := by
    refine ⟨?_, ?_, g3, rfl, g2, g5, g6, g7, ?_⟩
    · intro i hi
      show Y.octets[i]? = _
      rw [g4, Array.getElem?_setIfInBounds, if_neg (fun h => hi h.symm)]
    · show Y.octets[3]? = _
      rw [g4, Array.getElem?_setIfInBounds]; simp [hs3]
    · show Y.arcount + 1 = _
      rw [g8]
  refine ⟨hX, ?_⟩
  have hY3 : Y.octets.getD 3 0 = UInt8.ofNat rc0 := by
    rw [g4]; exact getD_set_self _ _ _ hs3
  have hYs : 3 < Y.octets.size := by rw [g4, Array.size_setIfInBounds]; exact hs3
  have hoct : (stRcode rc (withTsig Y mode rr)).octets = Y.octets.setIfInBounds 3 (UInt8.ofNat rc) := by
    have : (stRcode rc (withTsig Y mode rr)).octets =
        Y.octets.setIfInBounds 3 ((Y.octets.getD 3 0 &&& ~~~(15 : UInt8)) ||| UInt8.ofNat rc) := by
      unfold stRcode stHdr withTsig
      cases Y.edns <;> rfl
    rw [this, hY3, rcode_over rc0 rc hrc0 hrc]
  have hrest : (stRcode rc (withTsig Y mode rr)).cursor = Y.cursor ∧
      (stRcode rc (withTsig Y mode rr)).tsig = some ⟨mode, reservedLen mode rr, rr⟩ ∧
      (stRcode rc (withTsig Y mode rr)).edns = Y.edns.map (fun x => { x with upper := 0 }) ∧
      (stRcode rc (withTsig Y mode rr)).qdcount = Y.qdcount ∧ (stRcode rc (withTsig Y mode rr)).ancount = Y.ancount ∧
      (stRcode rc (withTsig Y mode rr)).nscount = Y.nscount ∧
      (stRcode rc (withTsig Y mode rr)).arcount = Y.arcount + 1 := by
    unfold stRcode stHdr withTsig
    cases Y.edns <;> exact ⟨rfl, rfl, rfl, rfl, rfl, rfl, rfl⟩
  obtain ⟨r1, r2, r3, r4, r5, r6, r7⟩ := hrest
  refine ⟨?_, ?_, by rw [r1, g3], r2, ?_, by rw [r4, g5], by rw [r5, g6], by rw [r6, g7], by rw [r7, g8]⟩
  · intro i hi
    rw [hoct, Array.getElem?_setIfInBounds, if_neg (fun h => hi h.symm), g4, Array.getElem?_setIfInBounds,
      if_neg (fun h => hi h.symm)]
  · rw [hoct, Array.getElem?_setIfInBounds]; simp [hYs]
  · rw [r3, g2]; cases e <;> rfl

/-! ### the octets of a no-data response that carries a TSIG record -/

/-- everything before the TSIG record of a no-data response to a signed request: the header (ID and
    opcode echoed, QR, RD for QUERY, the RCODE `rc`, QDCOUNT, ANCOUNT = NSCOUNT = 0, ARCOUNT = the OPT
    if any plus the TSIG), the question as decoded, and — iff the scan reached an OPT — one OPT record
    (owner root, CLASS = the server's payload size, extended RCODE bits, version and flags 0) -/
def signedPrefix (req : Bytes) (serverSize : Nat) (sc : Spec.Server.Scan) (rc : Nat) : List UInt8 :=
  let x := req.getD 2 0
  let h2 : UInt8 := 128 ||| (x &&& 120) ||| (if x.toNat / 8 % 16 = 0 then x &&& 1 else 0)
  [req.getD 0 0, req.getD 1 0, h2, UInt8.ofNat rc, 0, (if sc.question.isSome then 1 else 0), 0, 0, 0, 0, 0,
   (if sc.edns then 2 else 1)] ++ qOctets sc.question ++
   (if sc.edns then [0, 0, 41] ++ u16be serverSize ++ [0, 0, 0, 0, 0, 0] else [])

/-- from the facts about the final writer `F` to the octets of the response -/
theorem signed_response_list (macFn : Writer.Tsig → List UInt8 → List UInt8) (req : Bytes) (payload : Nat)
    (sc : Spec.Server.Scan) (rc : Nat) (s1 F : State) (ts : Writer.Tsig)
    (hcur : s1.cursor = 12 + (qOctets sc.question).length)
    (o0 : s1.octets[0]? = some (UInt8.ofNat (Spec.Server.hdr req 0 / 256 % 256)))
    (o1 : s1.octets[1]? = some (UInt8.ofNat (Spec.Server.hdr req 0 % 256)))
    (o2 : s1.octets[2]? = some (h2val (((req.getD 2 0).toNat &&& 120) >>> 3) (((req.getD 2 0).toNat &&& 1) != 0)))
    (hQ : ∀ j, j < (qOctets sc.question).length → s1.octets[12 + j]? = (qOctets sc.question)[j]?)
    (hqd : s1.qdcount = (if sc.question.isSome then 1 else 0)) (han : s1.ancount = 0) (hns : s1.nscount = 0)
    (har : s1.arcount = 0)
    (f1 : ∀ i, i ≠ 3 → F.octets[i]? = s1.octets[i]?) (f3 : F.octets[3]? = some (UInt8.ofNat rc))
    (fc : F.cursor = s1.cursor) (ft : F.tsig = some ts)
    (fe : F.edns = (if sc.edns then some ⟨payload, 0⟩ else none))
    (fqd : F.qdcount = s1.qdcount) (fan : F.ancount = s1.ancount) (fns : F.nscount = s1.nscount)
    (far : F.arcount = s1.arcount + (if sc.edns then 1 else 0) + 1)
    (b : Bytes) (mac : Option (List UInt8)) (hf : Writer.finish F macFn = .ok (b, mac)) :
    mac = finishMac macFn ts (signedPrefix req payload sc rc) ∧
    ∃ oe sT, NameEnc sT .none ts.rr.keyName oe ∧ NameShape ts.rr.keyName oe ∧ sT.mode = F.mode ∧
      (sT.octets.extract 0 sT.cursor).toList = signedPrefix req payload sc rc ∧
      b.toList = signedPrefix req payload sc rc ++ tsigRecordOctets oe ts mac := by
  obtain ⟨hmac, oe, sT, h1, h2, h3, h4, h5⟩ := finish_signed macFn F (qOctets sc.question) _ _ _ _
    (by rw [fc, hcur]) (by rw [f1 0 (by omega)]; exact o0) (by rw [f1 1 (by omega)]; exact o1)
    (by rw [f1 2 (by omega)]; exact o2) f3 (fun j hj => by rw [f1 (12 + j) (by omega)]; exact hQ j hj)
    ts ft b mac hf
  have hpre : [UInt8.ofNat (Spec.Server.hdr req 0 / 256 % 256), UInt8.ofNat (Spec.Server.hdr req 0 % 256),
        h2val (((req.getD 2 0).toNat &&& 120) >>> 3) (((req.getD 2 0).toNat &&& 1) != 0), UInt8.ofNat rc] ++
      (u16be F.qdcount ++ u16be F.ancount ++ u16be F.nscount ++ u16be F.arcount) ++ qOctets sc.question ++
        optEnc F.edns = signedPrefix req payload sc rc := by
    rw [fqd, fan, fns, far, hqd, han, hns, har, fe]
    unfold signedPrefix
    have hid : u16be (Spec.Server.hdr req 0) = [req.getD 0 0, req.getD 1 0] := u16be_hdr _ _
    have e0 : UInt8.ofNat (Spec.Server.hdr req 0 / 256 % 256) = req.getD 0 0 := by
      have h := hid; unfold u16be at h; exact (List.cons.inj h).1
    have e1 : UInt8.ofNat (Spec.Server.hdr req 0 % 256) = req.getD 1 0 := by
      have h := hid; unfold u16be at h; exact (List.cons.inj (List.cons.inj h).2).1
    rw [e0, e1, h2_spec]
    cases hq : sc.question with
    | none =>
      cases he : sc.edns with
      | false => simp [qOctets, u16be, optEnc]
      | true => simp [qOctets, u16be, optEnc_some, optRecord_spec _ _ (Or.inl rfl)]
    | some x =>
      cases he : sc.edns with
      | false => simp [qOctets, u16be, optEnc]
      | true => simp [qOctets, u16be, optEnc_some, optRecord_spec _ _ (Or.inl rfl)]
  rw [hpre] at hmac h4 h5
  exact ⟨hmac, oe, sT, h1, h2, h3, h4, h5⟩

/-! ### `handle_message` on authenticated requests that get a no-data response -/

theorem specScanWith_respond (lookup : List UInt8 → Nat → Option Spec.Server.ZoneKind) (S : Nat) (req : Bytes)
    (hr : (Spec.Server.specScanWith lookup S req).respond = true) :
    12 ≤ req.size ∧ (req.getD 2 0).toNat < 128 ∧ Spec.Server.specScanWith lookup S req = specBody lookup S req := by
  rw [specScanWith_eq] at hr ⊢
  have h12 : 12 ≤ req.size := by
    by_cases hc : req.size < 12
    · simp only [hc, if_true] at hr; cases hr
    · omega
  have hqr : (req.getD 2 0).toNat < 128 := by
    by_cases hc : (req.getD 2 0).toNat ≥ 128
    · simp only [show ¬ req.size < 12 by omega, hc, if_false, if_true] at hr; cases hr
    · omega
  refine ⟨h12, hqr, ?_⟩
  simp only [show ¬ req.size < 12 by omega, show ¬ (req.getD 2 0).toNat ≥ 128 by omega, if_false]

/-- the response TSIG of an authenticated request -/
def respTsig (alg : Hmac.Alg) (key : Server.Key) (kn : WName) (t : Tsig.ReadTsigRr) (nowT : Tsig.TimeSigned) :
    Writer.Tsig :=
  ⟨.response (Server.toWriterAlg alg) t.mac key.secret,
   ServerTsig.reservedLen (.response (Server.toWriterAlg alg) t.mac key.secret) (ServerTsig.prepOf kn t nowT 0),
   ServerTsig.prepOf kn t nowT 0⟩

/-- **signed requests, no-data verdicts, on the octets.**  For a request whose scan reaches a
    well-formed TSIG record (`t`): if the TSIG step authenticates it and the end-of-message check /
    decision table yields FORMERR, NOTIMP, REFUSED or SERVFAIL-for-a-zone-not-loaded, then every
    response is: the header with that RCODE, ANCOUNT = NSCOUNT = 0, the question, the OPT record iff
    the scan reached one, and then — last — the TSIG record, signed in `Response` mode over exactly
    the octets before it. -/
theorem signed_noData_response (cfg : Server.Cfg) (tr : Server.Transport) (now bufLen : Nat) (req : Bytes)
    (hbuf : minBuf tr cfg.payload ≤ bufLen) (hpay : 512 ≤ cfg.payload) (hreq : req.size ≤ Rdata.USIZE_MAX)
    (hr : (Spec.Server.specScanWith (catKind cfg) cfg.payload req).respond = true)
    (hv : (Spec.Server.specScanWith (catKind cfg) cfg.payload req).verdict = .tsigReached) :
    ∃ (t : Tsig.ReadTsigRr) (mw : Bytes) (r' : Reader), r'.octets = req ∧ r'.cursor ≤ req.size ∧
      ∀ r'' S, Server.tsigAfter cfg now t mw r' (preTsigState cfg tr bufLen req) = (.ok (some r''), S) →
      ∀ v, (v = Spec.Server.Verdict.formErr ∨ v = .notImp ∨ v = .refused ∨ v = .servFailZone) →
        endVerdict (catKind cfg) req.size (Spec.Server.specScanWith (catKind cfg) cfg.payload req).question
          r'.cursor ((req.getD 2 0).toNat / 8 % 16) = v →
      ∀ b, Server.handleMessage cfg tr now bufLen req = .ok (some b) →
        ∃ nowT alg key kn, Tsig.TimeSigned.tryFromUnix now = some nowT ∧
          Tsig.Algorithm.fromName t.algorithm = some alg ∧ Server.findKey cfg.keys t.keyName alg = some key ∧
          WName.parse t.keyName = some (kn, []) ∧
          Tsig.verifyRequest Tsig.realHmac t mw.toList alg key.secret nowT = .ok () ∧
          ∃ oe sT, NameEnc sT .none kn oe ∧ NameShape kn oe ∧
            (sT.octets.extract 0 sT.cursor).toList =
              signedPrefix req cfg.payload (Spec.Server.specScanWith (catKind cfg) cfg.payload req)
                (Spec.Server.verdictRcode v).1 ∧
            b.toList =
              signedPrefix req cfg.payload (Spec.Server.specScanWith (catKind cfg) cfg.payload req)
                (Spec.Server.verdictRcode v).1 ++
              tsigRecordOctets oe (respTsig alg key kn t nowT)
                (some (Server.macFn (respTsig alg key kn t nowT)
                  (signedPrefix req cfg.payload (Spec.Server.specScanWith (catKind cfg) cfg.payload req)
                    (Spec.Server.verdictRcode v).1))) := by
  obtain ⟨t, mw, r', h1, h2, h3⟩ := handleMessage_after_tsig cfg tr now bufLen req hbuf hpay hreq hr hv
  refine ⟨t, mw, r', h1, h2, fun r'' S hT v hvv hev b hb => ?_⟩
  have hne : endVerdict (catKind cfg) req.size (Spec.Server.specScanWith (catKind cfg) cfg.payload req).question
      r'.cursor ((req.getD 2 0).toNat / 8 % 16) ≠ .answer := by
    rw [hev]; rcases hvv with rfl | rfl | rfl | rfl <;> simp
  have hM := h3 r'' S hT hne
  rw [hev, hb] at hM
  obtain ⟨_, _, hsce⟩ := specScanWith_respond _ _ _ hr
  unfold preTsigState at hT
  rw [hsce] at hT ⊢
  generalize hsc : specBody (catKind cfg) cfg.payload req = sc at *
  obtain ⟨_, p2, p3⟩ := specBody_props (catKind cfg) cfg.payload req
  rw [hsc] at p2 p3
  obtain ⟨hbase, hcur, o0, o1, o2, h30, hs3, hQ, hqd, han, hns, har, _, hsz⟩ :=
    s1_facts bufLen tr cfg.payload (Spec.Server.hdr req 0) (((req.getD 2 0).toNat &&& 120) >>> 3)
      (((req.getD 2 0).toNat &&& 1) != 0) hbuf hpay req sc.question
      (fun x hx => specBody_question (catKind cfg) cfg.payload req x (by rw [hsc]; exact hx))
  generalize qSt (hdrSt (w0 bufLen (lim0 tr)) (Spec.Server.hdr req 0) (((req.getD 2 0).toNat &&& 120) >>> 3)
      (((req.getD 2 0).toNat &&& 1) != 0)) sc.question = s1 at *
  -- the TSIG step
  unfold Server.tsigAfter at hT
  cases hnow : Tsig.TimeSigned.tryFromUnix now with
  | none => rw [hnow] at hT; cases hT
  | some nowT =>
    rw [hnow] at hT
    simp only at hT
    have h12s : 12 ≤ (arSt s1 tr cfg.payload sc.edns sc.limitUdp).octets.size := by
      rw [arSt_size, hsz]; cases tr <;> simp only [minBuf] at hbuf <;> omega
    obtain ⟨alg, key, kn, ha, hk, hkn, hver, _, _, hS⟩ :=
      tsigProcess_some_state Tsig.realHmac cfg.keys _ h12s t mw.toList nowT r' r'' S hT
    refine ⟨nowT, alg, key, kn, rfl, ha, hk, hkn, hver, ?_⟩
    have hrc : (Spec.Server.verdictRcode v).1 < 16 := by
      rcases hvv with rfl | rfl | rfl | rfl <;> decide
    obtain ⟨_, hF⟩ := sigSt_facts s1 tr cfg.payload sc.edns sc.limitUdp 0 (Spec.Server.verdictRcode v).1 (by omega) hrc
      hbase h30 hs3 p2 p3 (.response (Server.toWriterAlg alg) t.mac key.secret) (ServerTsig.prepOf kn t nowT 0)
    have hES : endState v S = stRcode (Spec.Server.verdictRcode v).1 S := by
      rcases hvv with rfl | rfl | rfl | rfl <;> rfl
    rw [hES, hS] at hM
    rcases hfin : Writer.finish (stRcode (Spec.Server.verdictRcode v).1
        (ServerTsig.withTsig (stRcode 0 (arSt s1 tr cfg.payload sc.edns sc.limitUdp))
          (.response (Server.toWriterAlg alg) t.mac key.secret) (ServerTsig.prepOf kn t nowT 0))) Server.macFn
      with ⟨bytes, mac⟩ | e | _
    · rw [hfin] at hM
      simp only [Out.ok.injEq, Option.some.injEq] at hM
      subst hM
      obtain ⟨hmac, oe, sT, q1, q2, _, q4, q5⟩ := signed_response_list Server.macFn req cfg.payload sc
        (Spec.Server.verdictRcode v).1 s1 _ (respTsig alg key kn t nowT) hcur o0 o1 o2 hQ hqd han hns har
        hF.oct hF.o3 hF.cur hF.tsig hF.edns hF.qd hF.an hF.ns hF.ar b mac hfin
      have hmac' : mac = some (Server.macFn (respTsig alg key kn t nowT)
          (signedPrefix req cfg.payload sc (Spec.Server.verdictRcode v).1)) := by
        rw [hmac]; rfl
      rw [hmac'] at q5
      exact ⟨oe, sT, q1, q2, q4, q5⟩
    · rw [hfin] at hM; cases hM
    · rw [hfin] at hM; cases hM

end QV.ServerScan
