/-
  QV.Proofs.ServerSigned — responses to TSIG-signed requests, on the octets.

  `finish_signed`: the finished message of a writer that holds a header, a question and a pending
  TSIG record (the state in which every no-data response to a signed request is finished).
  `tsigStep_fits`: the writer state after one TSIG reply (`set_rcode`; `set_tsig_or_truncate`).
-/
import QV.Proofs.FinishTsig
import QV.Proofs.ScanTsigCont
import QV.Proofs.ServerResp
import QV.Proofs.ServerTsig
import QV.Proofs.FrameServer
import QV.Proofs.ServerProps
import QV.Properties.C01

namespace QV.ServerScan
open QV QV.Wire QV.Reader QV.Writer

/-- the OPT record as `Proofs/WriterFinish` writes it = as `Proofs/WriterView` writes it -/
theorem optEnc_some (e : Edns) : optEnc (some e) = optRecord e := by
  unfold optEnc encRR optRecord
  rw [T_OPT_eq, root_wire]
  rfl

theorem take4_of_get (a : Bytes) (o0 o1 o2 o3 : UInt8) (h0 : a[0]? = some o0) (h1 : a[1]? = some o1)
    (h2 : a[2]? = some o2) (h3 : a[3]? = some o3) : a.toList.take 4 = [o0, o1, o2, o3] := by
  apply List.ext_getElem?
  intro i
  rw [List.getElem?_take]
  by_cases hi : i < 4
  · rw [if_pos hi, Array.getElem?_toList]
    have : i = 0 ∨ i = 1 ∨ i = 2 ∨ i = 3 := by omega
    rcases this with rfl | rfl | rfl | rfl
    · rw [h0]; rfl
    · rw [h1]; rfl
    · rw [h2]; rfl
    · rw [h3]; rfl
  · rw [if_neg hi]
    exact (List.getElem?_eq_none (by simp; omega)).symm

/-- **the finished message of a writer holding header, question and a pending TSIG record** -/
theorem finish_signed (macFn : Writer.Tsig → List UInt8 → List UInt8) (F : State) (Q : List UInt8)
    (o0 o1 o2 o3 : UInt8) (hc : F.cursor = 12 + Q.length)
    (h0 : F.octets[0]? = some o0) (h1 : F.octets[1]? = some o1) (h2 : F.octets[2]? = some o2)
    (h3 : F.octets[3]? = some o3) (hQ : ∀ j, j < Q.length → F.octets[12 + j]? = Q[j]?)
    (ts : Writer.Tsig) (hts : F.tsig = some ts) (b : Bytes) (mac : Option (List UInt8))
    (hf : Writer.finish F macFn = .ok (b, mac)) :
    mac = finishMac macFn ts ([o0, o1, o2, o3] ++
      (u16be F.qdcount ++ u16be F.ancount ++ u16be F.nscount ++ u16be F.arcount) ++ Q ++ optEnc F.edns) ∧
    ∃ oe sT, NameEnc sT .none ts.rr.keyName oe ∧ NameShape ts.rr.keyName oe ∧ sT.mode = F.mode ∧
      (sT.octets.extract 0 sT.cursor).toList = [o0, o1, o2, o3] ++
        (u16be F.qdcount ++ u16be F.ancount ++ u16be F.nscount ++ u16be F.arcount) ++ Q ++ optEnc F.edns ∧
      b.toList = [o0, o1, o2, o3] ++
        (u16be F.qdcount ++ u16be F.ancount ++ u16be F.nscount ++ u16be F.arcount) ++ Q ++ optEnc F.edns ++
        tsigRecordOctets oe ts mac := by
  obtain ⟨hcz, hmac, oe, sT, hoe, hmode, hpre, _, hb⟩ :=
    finish_octets_tsig macFn F (by omega) ts hts b mac hf
  have hP : finishPrefix F = [o0, o1, o2, o3] ++
      (u16be F.qdcount ++ u16be F.ancount ++ u16be F.nscount ++ u16be F.arcount) ++ Q := by
    unfold finishPrefix
    rw [take4_of_get _ _ _ _ _ h0 h1 h2 h3]
    congr 1
    apply List.ext_getElem?
    intro j
    rw [Array.getElem?_toList, Array.getElem?_extract]
    by_cases hj : j < Q.length
    · rw [if_pos (by rw [hc]; omega)]
      exact hQ j hj
    · rw [if_neg (by rw [hc]; omega)]
      exact (List.getElem?_eq_none (by omega)).symm
  rw [hP] at hmac hpre hb
  exact ⟨hmac, oe, sT, hoe, nameEnc_none_shape hoe, hmode, hpre, hb⟩

/-! ### the writer after one TSIG reply -/

open QV.ServerTsig in
theorem stRcode_fits (rc : Nat) (s : State) (mode : TsigMode) (rr : TsigRr) :
    TsigFits (stRcode rc s) mode rr ↔ TsigFits s mode rr := by
  have : (stRcode rc s).tsig = s.tsig ∧ (stRcode rc s).cursor = s.cursor ∧
      (stRcode rc s).available = s.available ∧ (stRcode rc s).arcount = s.arcount := by
    unfold stRcode stHdr
    cases s.edns <;> exact ⟨rfl, rfl, rfl, rfl⟩
  unfold TsigFits
  rw [this.1, this.2.1, this.2.2.1, this.2.2.2]

open QV.ServerTsig in
/-- `set_rcode(rc); set_tsig_or_truncate(mode, rr)` when the RR fits: the RCODE is set and the RR is
    recorded, nothing else happens -/
theorem tsigStep_fits (rc : Nat) (mode : TsigMode) (rr : TsigRr) (b : Bool) (r' : Reader) (s : State)
    (h3 : 3 < s.octets.size) (hf : TsigFits s mode rr) :
    (do setRcode rc
        let added ← Server.setTsigOrTruncate mode rr
        if added && b then pure (some r') else pure none : M (Option Reader)) s =
      (.ok (if b then some r' else none), withTsig (stRcode rc s) mode rr) := by
  rw [bind_ok (setRcode_eq rc s h3)]
  rw [bind_ok (setTsigOrTruncate_fits mode rr _ ((stRcode_fits rc s mode rr).mpr hf))]
  cases b <;> rfl

open QV.ServerTsig in
/-- **an authenticated request**: when the TSIG step hands back a reader, the request's algorithm is
    known, its key configured for that algorithm, `verify_request` succeeded, the response TSIG fits,
    and the writer is exactly: RCODE 0 set, the response TSIG (mode `Response` with the request MAC
    and the key; error 0, time = now, fudge 300, original ID) recorded -/
theorem tsigProcess_some_state (hm : Tsig.Algorithm → Tsig.Octets → Tsig.Octets → Tsig.Octets) (keys : List Server.Key)
    (s : State) (hs : 12 ≤ s.octets.size) (r : Tsig.ReadTsigRr) (msg : List UInt8) (nowT : Tsig.TimeSigned)
    (r' x : Reader) (s' : State) (h : Server.tsigProcess hm keys nowT r msg r' s = (.ok (some x), s')) :
    ∃ alg key kn, Tsig.Algorithm.fromName r.algorithm = some alg ∧ Server.findKey keys r.keyName alg = some key ∧
      WName.parse r.keyName = some (kn, []) ∧ Tsig.verifyRequest hm r msg alg key.secret nowT = .ok () ∧ x = r' ∧
      TsigFits s (.response (Server.toWriterAlg alg) r.mac key.secret) (prepOf kn r nowT 0) ∧
      s' = withTsig (stRcode 0 s) (.response (Server.toWriterAlg alg) r.mac key.secret) (prepOf kn r nowT 0) := by
  unfold Server.tsigProcess at h
  cases ha : Tsig.Algorithm.fromName r.algorithm with
  | none =>
    simp only [ha] at h
    exact absurd h (tsigBadKey_not_some _ _ _ _ _)
  | some alg =>
    simp only [ha] at h
    cases hk : Server.findKey keys r.keyName alg with
    | none =>
      simp only [hk] at h
      exact absurd h (tsigBadKey_not_some _ _ _ _ _)
    | some key =>
      simp only [hk] at h
      obtain ⟨kn, s1, hkn, hv, hx, hf, _, _, _⟩ :=
        tsigVerifyAndWrite_some hm s hs r msg alg key.secret nowT r' x s' h
      refine ⟨alg, key, kn, rfl, hk, hkn, hv, hx, hf, ?_⟩
      unfold Server.tsigVerifyAndWrite at h
      rw [hv] at h
      simp only [Server.tsigReply, preparedFromRead_eq kn r nowT _ hkn, rc_noerror, xrc_noerror] at h
      have := tsigStep_fits 0 (.response (Server.toWriterAlg alg) r.mac key.secret) (prepOf kn r nowT 0) true r' s
        (by omega) hf
      simp only [Bool.and_true, if_true] at this
      simp only [decide_true, Bool.and_true] at h
      rw [this] at h
      simp only [Prod.mk.injEq] at h
      exact h.2.symm

/-! ### the final writer states of responses to signed requests -/

theorem rcode_over (a b : Nat) (ha : a < 16) (hb : b < 16) :
    (UInt8.ofNat a &&& ~~~(15 : UInt8) ||| UInt8.ofNat b) = UInt8.ofNat b := by
  have : ∀ a : Fin 16, ∀ b : Fin 16, (UInt8.ofNat a.val &&& ~~~(15 : UInt8) ||| UInt8.ofNat b.val) = UInt8.ofNat b.val := by
    decide
  exact this ⟨a, ha⟩ ⟨b, hb⟩

/-- what the response writer looks like, as far as `finish` is concerned -/
structure SigSt (s1 F : State) (rc : Nat) (e : Bool) (payload : Nat) (ts : Writer.Tsig) : Prop where
  oct : ∀ i, i ≠ 3 → F.octets[i]? = s1.octets[i]?
  o3 : F.octets[3]? = some (UInt8.ofNat rc)
  cur : F.cursor = s1.cursor
  tsig : F.tsig = some ts
  edns : F.edns = (if e then some ⟨payload, 0⟩ else none)
  qd : F.qdcount = s1.qdcount
  an : F.ancount = s1.ancount
  ns : F.nscount = s1.nscount
  ar : F.arcount = s1.arcount + (if e then 1 else 0) + 1

open QV.ServerTsig in
/-- the writer after a TSIG reply that fits (`rc0`), and after a further `set_rcode(rc)` -/
theorem sigSt_facts (s1 : State) (tr : Server.Transport) (payload : Nat) (e : Bool) (l rc0 rc : Nat)
    (hrc0 : rc0 < 16) (hrc : rc < 16) (hb : Base s1 tr payload) (h30 : s1.octets.getD 3 0 = 0)
    (hs3 : 3 < s1.octets.size) (hl1 : 512 ≤ l) (hl2 : l ≤ max 512 payload) (mode : TsigMode) (rr : TsigRr) :
    SigSt s1 (withTsig (stRcode rc0 (arSt s1 tr payload e l)) mode rr) rc0 e payload ⟨mode, reservedLen mode rr, rr⟩ ∧
    SigSt s1 (stRcode rc (withTsig (stRcode rc0 (arSt s1 tr payload e l)) mode rr)) rc e payload
      ⟨mode, reservedLen mode rr, rr⟩ := by
  obtain ⟨g1, g2, g3, g4, g5, g6, g7, g8, _⟩ := final_rcode s1 tr payload e l rc0 hrc0 hb h30 hl1 hl2
  generalize stRcode rc0 (arSt s1 tr payload e l) = Y at *
  have hX : SigSt s1 (withTsig Y mode rr) rc0 e payload ⟨mode, reservedLen mode rr, rr⟩ := by
    refine ⟨?_, ?_, g3, rfl, g2, g5, g6, g7, ?_⟩
    · intro i hi
      show Y.octets[i]? = _
      rw [g4, Array.getElem?_setIfInBounds, if_neg (fun h => hi h.symm)]
    · show Y.octets[3]? = _
      rw [g4, Array.getElem?_setIfInBounds]; simp [hs3]
    · show Y.arcount + 1 = _
      rw [g8]
  refine ⟨hX, ?_⟩
  have hY3 : Y.octets.getD 3 0 = UInt8.ofNat rc0 := by
    rw [g4]; exact getD_set_self _ _ _ hs3
  have hYs : 3 < Y.octets.size := by rw [g4, Array.size_setIfInBounds]; exact hs3
  have hoct : (stRcode rc (withTsig Y mode rr)).octets = Y.octets.setIfInBounds 3 (UInt8.ofNat rc) := by
    have : (stRcode rc (withTsig Y mode rr)).octets =
        Y.octets.setIfInBounds 3 ((Y.octets.getD 3 0 &&& ~~~(15 : UInt8)) ||| UInt8.ofNat rc) := by
      unfold stRcode stHdr withTsig
      cases Y.edns <;> rfl
    rw [this, hY3, rcode_over rc0 rc hrc0 hrc]
  have hrest : (stRcode rc (withTsig Y mode rr)).cursor = Y.cursor ∧
      (stRcode rc (withTsig Y mode rr)).tsig = some ⟨mode, reservedLen mode rr, rr⟩ ∧
      (stRcode rc (withTsig Y mode rr)).edns = Y.edns.map (fun x => { x with upper := 0 }) ∧
      (stRcode rc (withTsig Y mode rr)).qdcount = Y.qdcount ∧ (stRcode rc (withTsig Y mode rr)).ancount = Y.ancount ∧
      (stRcode rc (withTsig Y mode rr)).nscount = Y.nscount ∧
      (stRcode rc (withTsig Y mode rr)).arcount = Y.arcount + 1 := by
    unfold stRcode stHdr withTsig
    cases Y.edns <;> exact ⟨rfl, rfl, rfl, rfl, rfl, rfl, rfl⟩
  obtain ⟨r1, r2, r3, r4, r5, r6, r7⟩ := hrest
  refine ⟨?_, ?_, by rw [r1, g3], r2, ?_, by rw [r4, g5], by rw [r5, g6], by rw [r6, g7], by rw [r7, g8]⟩
  · intro i hi
    rw [hoct, Array.getElem?_setIfInBounds, if_neg (fun h => hi h.symm), g4, Array.getElem?_setIfInBounds,
      if_neg (fun h => hi h.symm)]
  · rw [hoct, Array.getElem?_setIfInBounds]; simp [hYs]
  · rw [r3, g2]; cases e <;> rfl

/-! ### the octets of a no-data response that carries a TSIG record -/

/-- everything before the TSIG record of a no-data response to a signed request: the header (ID and
    opcode echoed, QR, RD for QUERY, the RCODE `rc`, QDCOUNT, ANCOUNT = NSCOUNT = 0, ARCOUNT = the OPT
    if any plus the TSIG), the question as decoded, and — iff the scan reached an OPT — one OPT record
    (owner root, CLASS = the server's payload size, extended RCODE bits, version and flags 0) -/
def signedPrefix (req : Bytes) (serverSize : Nat) (sc : Spec.Server.Scan) (rc : Nat) : List UInt8 :=
  let x := req.getD 2 0
  let h2 : UInt8 := 128 ||| (x &&& 120) ||| (if x.toNat / 8 % 16 = 0 then x &&& 1 else 0)
  [req.getD 0 0, req.getD 1 0, h2, UInt8.ofNat rc, 0, (if sc.question.isSome then 1 else 0), 0, 0, 0, 0, 0,
   (if sc.edns then 2 else 1)] ++ qOctets sc.question ++
   (if sc.edns then [0, 0, 41] ++ u16be serverSize ++ [0, 0, 0, 0, 0, 0] else [])

/-- from the facts about the final writer `F` to the octets of the response -/
theorem signed_response_list (macFn : Writer.Tsig → List UInt8 → List UInt8) (req : Bytes) (payload : Nat)
    (sc : Spec.Server.Scan) (rc : Nat) (s1 F : State) (ts : Writer.Tsig)
    (hcur : s1.cursor = 12 + (qOctets sc.question).length)
    (o0 : s1.octets[0]? = some (UInt8.ofNat (Spec.Server.hdr req 0 / 256 % 256)))
    (o1 : s1.octets[1]? = some (UInt8.ofNat (Spec.Server.hdr req 0 % 256)))
    (o2 : s1.octets[2]? = some (h2val (((req.getD 2 0).toNat &&& 120) >>> 3) (((req.getD 2 0).toNat &&& 1) != 0)))
    (hQ : ∀ j, j < (qOctets sc.question).length → s1.octets[12 + j]? = (qOctets sc.question)[j]?)
    (hqd : s1.qdcount = (if sc.question.isSome then 1 else 0)) (han : s1.ancount = 0) (hns : s1.nscount = 0)
    (har : s1.arcount = 0)
    (f1 : ∀ i, i ≠ 3 → F.octets[i]? = s1.octets[i]?) (f3 : F.octets[3]? = some (UInt8.ofNat rc))
    (fc : F.cursor = s1.cursor) (ft : F.tsig = some ts)
    (fe : F.edns = (if sc.edns then some ⟨payload, 0⟩ else none))
    (fqd : F.qdcount = s1.qdcount) (fan : F.ancount = s1.ancount) (fns : F.nscount = s1.nscount)
    (far : F.arcount = s1.arcount + (if sc.edns then 1 else 0) + 1)
    (b : Bytes) (mac : Option (List UInt8)) (hf : Writer.finish F macFn = .ok (b, mac)) :
    mac = finishMac macFn ts (signedPrefix req payload sc rc) ∧
    ∃ oe sT, NameEnc sT .none ts.rr.keyName oe ∧ NameShape ts.rr.keyName oe ∧ sT.mode = F.mode ∧
      (sT.octets.extract 0 sT.cursor).toList = signedPrefix req payload sc rc ∧
      b.toList = signedPrefix req payload sc rc ++ tsigRecordOctets oe ts mac := by
  obtain ⟨hmac, oe, sT, h1, h2, h3, h4, h5⟩ := finish_signed macFn F (qOctets sc.question) _ _ _ _
    (by rw [fc, hcur]) (by rw [f1 0 (by omega)]; exact o0) (by rw [f1 1 (by omega)]; exact o1)
    (by rw [f1 2 (by omega)]; exact o2) f3 (fun j hj => by rw [f1 (12 + j) (by omega)]; exact hQ j hj)
    ts ft b mac hf
  have hpre : [UInt8.ofNat (Spec.Server.hdr req 0 / 256 % 256), UInt8.ofNat (Spec.Server.hdr req 0 % 256),
        h2val (((req.getD 2 0).toNat &&& 120) >>> 3) (((req.getD 2 0).toNat &&& 1) != 0), UInt8.ofNat rc] ++
      (u16be F.qdcount ++ u16be F.ancount ++ u16be F.nscount ++ u16be F.arcount) ++ qOctets sc.question ++
        optEnc F.edns = signedPrefix req payload sc rc := by
    rw [fqd, fan, fns, far, hqd, han, hns, har, fe]
    unfold signedPrefix
    have hid : u16be (Spec.Server.hdr req 0) = [req.getD 0 0, req.getD 1 0] := u16be_hdr _ _
    have e0 : UInt8.ofNat (Spec.Server.hdr req 0 / 256 % 256) = req.getD 0 0 := by
      have h := hid; unfold u16be at h; exact (List.cons.inj h).1
    have e1 : UInt8.ofNat (Spec.Server.hdr req 0 % 256) = req.getD 1 0 := by
      have h := hid; unfold u16be at h; exact (List.cons.inj (List.cons.inj h).2).1
    rw [e0, e1, h2_spec]
    cases hq : sc.question with
    | none =>
      cases he : sc.edns with
      | false => simp [qOctets, u16be, optEnc]
      | true => simp [qOctets, u16be, optEnc_some, optRecord_spec _ _ (Or.inl rfl)]
    | some x =>
      cases he : sc.edns with
      | false => simp [qOctets, u16be, optEnc]
      | true => simp [qOctets, u16be, optEnc_some, optRecord_spec _ _ (Or.inl rfl)]
  rw [hpre] at hmac h4 h5
  exact ⟨hmac, oe, sT, h1, h2, h3, h4, h5⟩

/-- the OPT record before the TSIG record of a signed no-data response -/
def signedOptOctets (serverSize : Nat) (sc : Spec.Server.Scan) : List UInt8 :=
  if sc.edns then [0, 0, 41] ++ u16be serverSize ++ [0, 0, 0, 0, 0, 0] else []

/-- field by field: what a response that starts with `signedPrefix` says -/
theorem signedResp_facts (req : Bytes) (p : Nat) (sc : Spec.Server.Scan) (rc : Nat) (T : List UInt8) (b : Bytes)
    (hb : b.toList = signedPrefix req p sc rc ++ T) :
    Spec.Server.hdr b 0 = Spec.Server.hdr req 0 ∧
    b.getD 2 0 = hdr2 (req.getD 2 0) ∧ b.getD 3 0 = UInt8.ofNat rc ∧
    Spec.Server.hdr b 4 = (if sc.question.isSome then 1 else 0) ∧ Spec.Server.hdr b 6 = 0 ∧
    Spec.Server.hdr b 8 = 0 ∧ Spec.Server.hdr b 10 = (if sc.edns then 2 else 1) ∧
    b.toList.drop 12 = specQuestionOctets sc.question ++ signedOptOctets p sc ++ T := by
  have hq : qOctets sc.question = specQuestionOctets sc.question := by
    cases sc.question <;> simp [qOctets, specQuestionOctets]
  have hb' : b.toList = [req.getD 0 0, req.getD 1 0, hdr2 (req.getD 2 0), UInt8.ofNat rc, 0,
       (if sc.question.isSome then 1 else 0), 0, 0, 0, 0, 0, (if sc.edns then 2 else 1)] ++
      (specQuestionOctets sc.question ++ signedOptOctets p sc ++ T) := by
    rw [hb]; unfold signedPrefix signedOptOctets hdr2; rw [hq]; simp only [List.append_assoc]
  refine ⟨?_, ?_, ?_, ?_, ?_, ?_, ?_, by rw [hb']; simp⟩
  all_goals simp only [Spec.Server.hdr, getD_toList, hb']
  all_goals simp
  · cases sc.question <;> simp
  · cases sc.edns <;> simp

/-- what precedes the TSIG record satisfies the documented precondition of `sign_response`
    (a full header whose ARCOUNT counts the TSIG record) -/
theorem signedPrefix_msgOk (req : Bytes) (p : Nat) (sc : Spec.Server.Scan) (rc : Nat) :
    Tsig.MsgOk (signedPrefix req p sc rc) := by
  unfold Tsig.MsgOk signedPrefix Spec.Tsig.field16
  refine ⟨by simp, ?_⟩
  cases sc.edns <;> simp

/-! ### `handle_message` on authenticated requests that get a no-data response -/

theorem specScanWith_respond (lookup : List UInt8 → Nat → Option Spec.Server.ZoneKind) (S : Nat) (req : Bytes)
    (hr : (Spec.Server.specScanWith lookup S req).respond = true) :
    12 ≤ req.size ∧ (req.getD 2 0).toNat < 128 ∧ Spec.Server.specScanWith lookup S req = specBody lookup S req := by
  rw [specScanWith_eq] at hr ⊢
  have h12 : 12 ≤ req.size := by
    by_cases hc : req.size < 12
    · simp only [hc, if_true] at hr; cases hr
    · omega
  have hqr : (req.getD 2 0).toNat < 128 := by
    by_cases hc : (req.getD 2 0).toNat ≥ 128
    · simp only [show ¬ req.size < 12 by omega, hc, if_false, if_true] at hr; cases hr
    · omega
  refine ⟨h12, hqr, ?_⟩
  simp only [show ¬ req.size < 12 by omega, show ¬ (req.getD 2 0).toNat ≥ 128 by omega, if_false]

/-- the response TSIG of an authenticated request -/
def respTsig (alg : Hmac.Alg) (key : Server.Key) (kn : WName) (t : Tsig.ReadTsigRr) (nowT : Tsig.TimeSigned) :
    Writer.Tsig :=
  ⟨.response (Server.toWriterAlg alg) t.mac key.secret,
   ServerTsig.reservedLen (.response (Server.toWriterAlg alg) t.mac key.secret) (ServerTsig.prepOf kn t nowT 0),
   ServerTsig.prepOf kn t nowT 0⟩

/-- **signed requests, no-data verdicts, on the octets.**  For a request whose scan reaches a
    well-formed TSIG record (`t`): if the TSIG step authenticates it and the end-of-message check /
    decision table yields FORMERR, NOTIMP, REFUSED or SERVFAIL-for-a-zone-not-loaded, then every
    response is: the header with that RCODE, ANCOUNT = NSCOUNT = 0, the question, the OPT record iff
    the scan reached one, and then — last — the TSIG record, signed in `Response` mode over exactly
    the octets before it. -/
theorem signed_noData_response (cfg : Server.Cfg) (tr : Server.Transport) (now bufLen : Nat) (req : Bytes)
    (hbuf : minBuf tr cfg.payload ≤ bufLen) (hpay : 512 ≤ cfg.payload) (hreq : req.size ≤ Rdata.USIZE_MAX)
    (hr : (Spec.Server.specScanWith (catKind cfg) cfg.payload req).respond = true)
    (hv : (Spec.Server.specScanWith (catKind cfg) cfg.payload req).verdict = .tsigReached) :
    ∃ (t : Tsig.ReadTsigRr) (mw : Bytes) (r' : Reader), r'.octets = req ∧ r'.cursor ≤ req.size ∧
      ∀ r'' S, Server.tsigAfter cfg now t mw r' (preTsigState cfg tr bufLen req) = (.ok (some r''), S) →
      ∀ v, (v = Spec.Server.Verdict.formErr ∨ v = .notImp ∨ v = .refused ∨ v = .servFailZone) →
        endVerdict (catKind cfg) req.size (Spec.Server.specScanWith (catKind cfg) cfg.payload req).question
          r'.cursor ((req.getD 2 0).toNat / 8 % 16) = v →
      ∀ b, Server.handleMessage cfg tr now bufLen req = .ok (some b) →
        ∃ nowT alg key kn, Tsig.TimeSigned.tryFromUnix now = some nowT ∧
          Tsig.Algorithm.fromName t.algorithm = some alg ∧ Server.findKey cfg.keys t.keyName alg = some key ∧
          WName.parse t.keyName = some (kn, []) ∧
          Tsig.verifyRequest Tsig.realHmac t mw.toList alg key.secret nowT = .ok () ∧
          ∃ oe sT, NameEnc sT .none kn oe ∧ NameShape kn oe ∧
            (sT.octets.extract 0 sT.cursor).toList =
              signedPrefix req cfg.payload (Spec.Server.specScanWith (catKind cfg) cfg.payload req)
                (Spec.Server.verdictRcode v).1 ∧
            b.toList =
              signedPrefix req cfg.payload (Spec.Server.specScanWith (catKind cfg) cfg.payload req)
                (Spec.Server.verdictRcode v).1 ++
              tsigRecordOctets oe (respTsig alg key kn t nowT)
                (some (Server.macFn (respTsig alg key kn t nowT)
                  (signedPrefix req cfg.payload (Spec.Server.specScanWith (catKind cfg) cfg.payload req)
                    (Spec.Server.verdictRcode v).1))) := by
  obtain ⟨t, mw, r', h1, h2, h3⟩ := handleMessage_after_tsig cfg tr now bufLen req hbuf hpay hreq hr hv
  refine ⟨t, mw, r', h1, h2, fun r'' S hT v hvv hev b hb => ?_⟩
  have hne : endVerdict (catKind cfg) req.size (Spec.Server.specScanWith (catKind cfg) cfg.payload req).question
      r'.cursor ((req.getD 2 0).toNat / 8 % 16) ≠ .answer := by
    rw [hev]; rcases hvv with rfl | rfl | rfl | rfl <;> simp
  have hM := h3 r'' S hT hne
  rw [hev, hb] at hM
  obtain ⟨_, _, hsce⟩ := specScanWith_respond _ _ _ hr
  unfold preTsigState at hT
  rw [hsce] at hT ⊢
  generalize hsc : specBody (catKind cfg) cfg.payload req = sc at *
  obtain ⟨_, p2, p3⟩ := specBody_props (catKind cfg) cfg.payload req
  rw [hsc] at p2 p3
  obtain ⟨hbase, hcur, o0, o1, o2, h30, hs3, hQ, hqd, han, hns, har, _, hsz⟩ :=
    s1_facts bufLen tr cfg.payload (Spec.Server.hdr req 0) (((req.getD 2 0).toNat &&& 120) >>> 3)
      (((req.getD 2 0).toNat &&& 1) != 0) hbuf hpay req sc.question
      (fun x hx => specBody_question (catKind cfg) cfg.payload req x (by rw [hsc]; exact hx))
  generalize qSt (hdrSt (w0 bufLen (lim0 tr)) (Spec.Server.hdr req 0) (((req.getD 2 0).toNat &&& 120) >>> 3)
      (((req.getD 2 0).toNat &&& 1) != 0)) sc.question = s1 at *
  -- the TSIG step
  unfold Server.tsigAfter at hT
  cases hnow : Tsig.TimeSigned.tryFromUnix now with
  | none => rw [hnow] at hT; cases hT
  | some nowT =>
    rw [hnow] at hT
    simp only at hT
    have h12s : 12 ≤ (arSt s1 tr cfg.payload sc.edns sc.limitUdp).octets.size := by
      rw [arSt_size, hsz]; cases tr <;> simp only [minBuf] at hbuf <;> omega
    obtain ⟨alg, key, kn, ha, hk, hkn, hver, _, _, hS⟩ :=
      tsigProcess_some_state Tsig.realHmac cfg.keys _ h12s t mw.toList nowT r' r'' S hT
    refine ⟨nowT, alg, key, kn, rfl, ha, hk, hkn, hver, ?_⟩
    have hrc : (Spec.Server.verdictRcode v).1 < 16 := by
      rcases hvv with rfl | rfl | rfl | rfl <;> decide
    obtain ⟨_, hF⟩ := sigSt_facts s1 tr cfg.payload sc.edns sc.limitUdp 0 (Spec.Server.verdictRcode v).1 (by omega) hrc
      hbase h30 hs3 p2 p3 (.response (Server.toWriterAlg alg) t.mac key.secret) (ServerTsig.prepOf kn t nowT 0)
    have hES : endState v S = stRcode (Spec.Server.verdictRcode v).1 S := by
      rcases hvv with rfl | rfl | rfl | rfl <;> rfl
    rw [hES, hS] at hM
    rcases hfin : Writer.finish (stRcode (Spec.Server.verdictRcode v).1
        (ServerTsig.withTsig (stRcode 0 (arSt s1 tr cfg.payload sc.edns sc.limitUdp))
          (.response (Server.toWriterAlg alg) t.mac key.secret) (ServerTsig.prepOf kn t nowT 0))) Server.macFn
      with ⟨bytes, mac⟩ | e | _
    · rw [hfin] at hM
      simp only [Out.ok.injEq, Option.some.injEq] at hM
      subst hM
      obtain ⟨hmac, oe, sT, q1, q2, _, q4, q5⟩ := signed_response_list Server.macFn req cfg.payload sc
        (Spec.Server.verdictRcode v).1 s1 _ (respTsig alg key kn t nowT) hcur o0 o1 o2 hQ hqd han hns har
        hF.oct hF.o3 hF.cur hF.tsig hF.edns hF.qd hF.an hF.ns hF.ar b mac hfin
      have hmac' : mac = some (Server.macFn (respTsig alg key kn t nowT)
          (signedPrefix req cfg.payload sc (Spec.Server.verdictRcode v).1)) := by
        rw [hmac]; rfl
      rw [hmac'] at q5
      exact ⟨oe, sT, q1, q2, q4, q5⟩
    · rw [hfin] at hM; cases hM
    · rw [hfin] at hM; cases hM

/-! ### requests that the TSIG step does not authenticate -/

/-- RCODE, TSIG mode and prepared TSIG RR of the reply to a request that is not authenticated, in the
    code's precedence: unknown algorithm / unknown key / key of another algorithm ⇒ NOTAUTH + BADKEY,
    unsigned; MAC size not allowed ⇒ FORMERR (+ BADSIG), unsigned; wrong MAC ⇒ NOTAUTH + BADSIG,
    unsigned; time outside the fudge window ⇒ NOTAUTH + BADTIME, *signed*; `none`: authenticated -/
def tsigStopReply (hm : Tsig.Algorithm → Tsig.Octets → Tsig.Octets → Tsig.Octets) (keys : List Server.Key)
    (nowT : Tsig.TimeSigned) (r : Tsig.ReadTsigRr) (msg : List UInt8) (kn an : WName) :
    Option (Nat × TsigMode × TsigRr) :=
  match Tsig.Algorithm.fromName r.algorithm with
  | none => some (9, .unsigned an, ServerTsig.prepOf kn r nowT 17)
  | some alg =>
    match Server.findKey keys r.keyName alg with
    | none => some (9, .unsigned an, ServerTsig.prepOf kn r nowT 17)
    | some key =>
      match Tsig.verifyRequest hm r msg alg key.secret nowT with
      | .err .FormErr => some (1, .unsigned (algName (Server.toWriterAlg alg)), ServerTsig.prepOf kn r nowT 16)
      | .err .BadSig => some (9, .unsigned (algName (Server.toWriterAlg alg)), ServerTsig.prepOf kn r nowT 16)
      | .err .BadTime => some (9, .response (Server.toWriterAlg alg) r.mac key.secret, ServerTsig.prepOf kn r nowT 18)
      | _ => none

open QV.ServerTsig in
theorem tsigBadKey_fits (s : State) (h3 : 3 < s.octets.size) (r : Tsig.ReadTsigRr) (nowT : Tsig.TimeSigned)
    (kn an : WName) (hkn : WName.parse r.keyName = some (kn, [])) (han : WName.parse r.algorithm = some (an, []))
    (hf : TsigFits s (.unsigned an) (prepOf kn r nowT 17)) :
    Server.tsigBadKey r nowT s = (.ok none, withTsig (stRcode 9 s) (.unsigned an) (prepOf kn r nowT 17)) := by
  unfold Server.tsigBadKey
  rw [rc_notauth, xrc_badkey, bind_ok (setRcode_eq 9 s h3)]
  simp only [han, preparedFromRead_eq kn r nowT _ hkn]
  rw [bind_ok (setTsigOrTruncate_fits _ _ _ ((stRcode_fits 9 s _ _).mpr hf))]
  rfl

open QV.ServerTsig in
/-- the writer after the TSIG step on a request that is not authenticated, when the reply's TSIG fits -/
theorem tsigProcess_stop_state (hm : Tsig.Algorithm → Tsig.Octets → Tsig.Octets → Tsig.Octets) (keys : List Server.Key)
    (s : State) (h3 : 3 < s.octets.size) (r : Tsig.ReadTsigRr) (msg : List UInt8) (nowT : Tsig.TimeSigned)
    (r' : Reader) (kn an : WName) (hkn : WName.parse r.keyName = some (kn, []))
    (han : WName.parse r.algorithm = some (an, [])) (rc : Nat) (mode : TsigMode) (rr : TsigRr)
    (hrep : tsigStopReply hm keys nowT r msg kn an = some (rc, mode, rr)) (hf : TsigFits s mode rr) :
    Server.tsigProcess hm keys nowT r msg r' s = (.ok none, withTsig (stRcode rc s) mode rr) := by
  unfold tsigStopReply at hrep
  unfold Server.tsigProcess
  cases ha : Tsig.Algorithm.fromName r.algorithm with
  | none =>
    rw [ha] at hrep
    simp only [Option.some.injEq, Prod.mk.injEq] at hrep
    obtain ⟨rfl, rfl, rfl⟩ := hrep
    exact tsigBadKey_fits s h3 r nowT kn an hkn han hf
  | some alg =>
    rw [ha] at hrep
    simp only at hrep ⊢
    cases hk : Server.findKey keys r.keyName alg with
    | none =>
      rw [hk] at hrep
      simp only [Option.some.injEq, Prod.mk.injEq] at hrep
      obtain ⟨rfl, rfl, rfl⟩ := hrep
      exact tsigBadKey_fits s h3 r nowT kn an hkn han hf
    | some key =>
      rw [hk] at hrep
      simp only at hrep ⊢
      unfold Server.tsigVerifyAndWrite
      rcases hv : Tsig.verifyRequest hm r msg alg key.secret nowT with u | e | _
      · rw [hv] at hrep; cases hrep
      · rw [hv] at hrep
        cases e with
        | BadSig =>
          simp only [Option.some.injEq, Prod.mk.injEq] at hrep
          obtain ⟨rfl, rfl, rfl⟩ := hrep
          simp only [Server.tsigReply, preparedFromRead_eq kn r nowT _ hkn, rc_noerror, rc_notauth, xrc_badsig]
          rw [bind_ok (setRcode_eq 9 s h3), bind_ok (setTsigOrTruncate_fits _ _ _ ((stRcode_fits 9 s _ _).mpr hf))]
          rfl
        | BadTime =>
          simp only [Option.some.injEq, Prod.mk.injEq] at hrep
          obtain ⟨rfl, rfl, rfl⟩ := hrep
          simp only [Server.tsigReply, preparedFromRead_eq kn r nowT _ hkn, rc_noerror, rc_notauth, xrc_badtime]
          rw [bind_ok (setRcode_eq 9 s h3), bind_ok (setTsigOrTruncate_fits _ _ _ ((stRcode_fits 9 s _ _).mpr hf))]
          rfl
        | FormErr =>
          simp only [Option.some.injEq, Prod.mk.injEq] at hrep
          obtain ⟨rfl, rfl, rfl⟩ := hrep
          simp only [Server.tsigReply, preparedFromRead_eq kn r nowT _ hkn, rc_noerror, rc_formerr, xrc_badsig]
          rw [bind_ok (setRcode_eq 1 s h3), bind_ok (setTsigOrTruncate_fits _ _ _ ((stRcode_fits 1 s _ _).mpr hf))]
          rfl
      · rw [hv] at hrep; cases hrep

/-- `handle_message` on a request whose scan reaches a well-formed TSIG record, in one equation -/
theorem handleMessage_tsig_eq (cfg : Server.Cfg) (tr : Server.Transport) (now bufLen : Nat) (req : Bytes)
    (hbuf : minBuf tr cfg.payload ≤ bufLen) (hpay : 512 ≤ cfg.payload) (hreq : req.size ≤ Rdata.USIZE_MAX)
    (hr : (Spec.Server.specScanWith (catKind cfg) cfg.payload req).respond = true)
    (hv : (Spec.Server.specScanWith (catKind cfg) cfg.payload req).verdict = .tsigReached) :
    ∃ (t : Tsig.ReadTsigRr) (mw : Bytes) (r' : Reader) (question : Option (WName × Nat × Nat)),
      r'.octets = req ∧ r'.cursor ≤ req.size ∧
      QRel (Spec.Server.specScanWith (catKind cfg) cfg.payload req).question question ∧
      Server.handleMessage cfg tr now bufLen req =
        match afterTsig cfg tr req (Spec.Server.specScanWith (catKind cfg) cfg.payload req).question question
            ((req.getD 2 0).toNat / 8 % 16) r'.cursor
            (Server.tsigAfter cfg now t mw r' (preTsigState cfg tr bufLen req)) with
        | (.ok true, w1) =>
          (match Writer.finish w1 Server.macFn with
           | .ok (bytes, _) => .ok (some bytes)
           | _ => .panic)
        | (.ok false, _) => .ok none
        | _ => .panic := by
  obtain ⟨h12, hqr, hsce⟩ := specScanWith_respond _ _ _ hr
  unfold preTsigState
  rw [hsce] at hv ⊢
  have hH := hdrSt_ok bufLen tr cfg.payload (Spec.Server.hdr req 0) (((req.getD 2 0).toNat &&& 120) >>> 3)
    (((req.getD 2 0).toNat &&& 1) != 0) hbuf hpay
  obtain ⟨t, mw, r', question, h1, h2, h3, h4⟩ := hwc_tsig cfg tr now req h12 _ hH hreq hv
  refine ⟨t, mw, r', question, h1, h2, h3, ?_⟩
  rw [handleMessage_eq cfg tr now bufLen req hbuf hpay h12 hqr, h4]
  generalize afterTsig _ _ _ _ _ _ _ _ = X
  rcases X with ⟨(bb | e | _), w1⟩
  · cases bb
    · rfl
    · simp only
      generalize Writer.finish w1 Server.macFn = f
      rcases f with ⟨b, m⟩ | e | _ <;> rfl
  · rfl
  · rfl

theorem tsigStopReply_rc {hm : Tsig.Algorithm → Tsig.Octets → Tsig.Octets → Tsig.Octets} {keys : List Server.Key}
    {nowT : Tsig.TimeSigned} {r : Tsig.ReadTsigRr} {msg : List UInt8} {kn an : WName} {rc : Nat} {mode : TsigMode}
    {rr : TsigRr} (h : tsigStopReply hm keys nowT r msg kn an = some (rc, mode, rr)) : rc = 9 ∨ rc = 1 := by
  unfold tsigStopReply at h
  repeat' split at h
  all_goals first | (cases h; done) | (simp only [Option.some.injEq, Prod.mk.injEq] at h; omega)

/-- **the response to a signed request that is not authenticated** (and whose reply TSIG fits): the
    header with RCODE NOTAUTH (or FORMERR for a MAC of a size that is not allowed), no answer or
    authority data, the question, the OPT iff the scan reached one, and — last — the TSIG record
    with the error (BADKEY / BADSIG / BADTIME) in its RDATA: unsigned, with an empty MAC, for BADKEY
    and BADSIG; signed in `Response` mode over exactly the octets before it for BADTIME. -/
theorem tsig_error_response (cfg : Server.Cfg) (tr : Server.Transport) (now bufLen : Nat) (req : Bytes)
    (hbuf : minBuf tr cfg.payload ≤ bufLen) (hpay : 512 ≤ cfg.payload) (hreq : req.size ≤ Rdata.USIZE_MAX)
    (hr : (Spec.Server.specScanWith (catKind cfg) cfg.payload req).respond = true)
    (hv : (Spec.Server.specScanWith (catKind cfg) cfg.payload req).verdict = .tsigReached) :
    ∃ (t : Tsig.ReadTsigRr) (mw : Bytes) (r' : Reader), r'.octets = req ∧ r'.cursor ≤ req.size ∧
      ∀ nowT kn an rc mode rr, Tsig.TimeSigned.tryFromUnix now = some nowT →
        WName.parse t.keyName = some (kn, []) → WName.parse t.algorithm = some (an, []) →
        tsigStopReply Tsig.realHmac cfg.keys nowT t mw.toList kn an = some (rc, mode, rr) →
        ServerTsig.TsigFits (preTsigState cfg tr bufLen req) mode rr →
        ∀ b, Server.handleMessage cfg tr now bufLen req = .ok (some b) →
          ∃ oe sT, NameEnc sT .none rr.keyName oe ∧ NameShape rr.keyName oe ∧
            (sT.octets.extract 0 sT.cursor).toList =
              signedPrefix req cfg.payload (Spec.Server.specScanWith (catKind cfg) cfg.payload req) rc ∧
            b.toList =
              signedPrefix req cfg.payload (Spec.Server.specScanWith (catKind cfg) cfg.payload req) rc ++
              tsigRecordOctets oe ⟨mode, ServerTsig.reservedLen mode rr, rr⟩
                (finishMac Server.macFn ⟨mode, ServerTsig.reservedLen mode rr, rr⟩
                  (signedPrefix req cfg.payload (Spec.Server.specScanWith (catKind cfg) cfg.payload req) rc)) := by
  obtain ⟨t, mw, r', question, h1, h2, _, h4⟩ := handleMessage_tsig_eq cfg tr now bufLen req hbuf hpay hreq hr hv
  refine ⟨t, mw, r', h1, h2, fun nowT kn an rc mode rr hnow hkn han hrep hfit b hb => ?_⟩
  obtain ⟨_, _, hsce⟩ := specScanWith_respond _ _ _ hr
  unfold preTsigState at hfit h4
  rw [hsce] at hfit h4 ⊢
  generalize hsc : specBody (catKind cfg) cfg.payload req = sc at *
  obtain ⟨_, p2, p3⟩ := specBody_props (catKind cfg) cfg.payload req
  rw [hsc] at p2 p3
  obtain ⟨hbase, hcur, o0, o1, o2, h30, hs3, hQ, hqd, han', hns, har, _, hsz⟩ :=
    s1_facts bufLen tr cfg.payload (Spec.Server.hdr req 0) (((req.getD 2 0).toNat &&& 120) >>> 3)
      (((req.getD 2 0).toNat &&& 1) != 0) hbuf hpay req sc.question
      (fun x hx => specBody_question (catKind cfg) cfg.payload req x (by rw [hsc]; exact hx))
  generalize qSt (hdrSt (w0 bufLen (lim0 tr)) (Spec.Server.hdr req 0) (((req.getD 2 0).toNat &&& 120) >>> 3)
      (((req.getD 2 0).toNat &&& 1) != 0)) sc.question = s1 at *
  have h3s : 3 < (arSt s1 tr cfg.payload sc.edns sc.limitUdp).octets.size := by rw [arSt_size]; exact hs3
  have hT : Server.tsigAfter cfg now t mw r' (arSt s1 tr cfg.payload sc.edns sc.limitUdp) =
      (.ok none, ServerTsig.withTsig (stRcode rc (arSt s1 tr cfg.payload sc.edns sc.limitUdp)) mode rr) := by
    unfold Server.tsigAfter
    rw [hnow]
    exact tsigProcess_stop_state Tsig.realHmac cfg.keys _ h3s t mw.toList nowT r' kn an hkn han rc mode rr hrep hfit
  rw [hT, hb] at h4
  simp only [afterTsig] at h4
  have hrc : rc < 16 := by rcases tsigStopReply_rc hrep with rfl | rfl <;> omega
  obtain ⟨hF, _⟩ := sigSt_facts s1 tr cfg.payload sc.edns sc.limitUdp rc 0 hrc (by omega) hbase h30 hs3 p2 p3 mode rr
  rcases hfin : Writer.finish (ServerTsig.withTsig (stRcode rc (arSt s1 tr cfg.payload sc.edns sc.limitUdp)) mode rr)
      Server.macFn with ⟨bytes, mac⟩ | e | _
  · rw [hfin] at h4
    simp only [Out.ok.injEq, Option.some.injEq] at h4
    subst h4
    obtain ⟨hmac, oe, sT, q1, q2, _, q4, q5⟩ := signed_response_list Server.macFn req cfg.payload sc rc s1 _
      ⟨mode, ServerTsig.reservedLen mode rr, rr⟩ hcur o0 o1 o2 hQ hqd han' hns har
      hF.oct hF.o3 hF.cur hF.tsig hF.edns hF.qd hF.an hF.ns hF.ar b mac hfin
    rw [hmac] at q5
    exact ⟨oe, sT, q1, q2, q4, q5⟩
  · rw [hfin] at h4; cases h4
  · rw [hfin] at h4; cases h4

/-! ### a response exists (C01: `handle_message` does not panic) -/

/-- a request whose scan reaches a well-formed TSIG record always gets a response — for a
    well-formed configuration and a clock below 2^48 s (the hypotheses of C01) -/
theorem signed_response_exists (cfg : Server.Cfg) (hcfg : ServerSafety.CfgWF cfg) (tr : Server.Transport)
    (now bufLen : Nat) (req : Bytes)
    (hbuf : minBuf tr cfg.payload ≤ bufLen) (hpay : 512 ≤ cfg.payload) (hreq : req.size ≤ Rdata.USIZE_MAX)
    (hnow : now < 2^48)
    (hr : (Spec.Server.specScanWith (catKind cfg) cfg.payload req).respond = true)
    (hv : (Spec.Server.specScanWith (catKind cfg) cfg.payload req).verdict = .tsigReached) :
    ∃ b, Server.handleMessage cfg tr now bufLen req = .ok (some b) := by
  have hnp := C01.C01_holds cfg tr now bufLen req hcfg
    ⟨hbuf, hnow, by unfold Rdata.USIZE_MAX at hreq; omega⟩
  obtain ⟨t, mw, r', question, _, _, _, h4⟩ := handleMessage_tsig_eq cfg tr now bufLen req hbuf hpay hreq hr hv
  rw [h4] at hnp ⊢
  unfold afterTsig at hnp ⊢
  generalize Server.tsigAfter cfg now t mw r' (preTsigState cfg tr bufLen req) = X at hnp ⊢
  rcases X with ⟨(o | e | _), S⟩
  · cases o with
    | none =>
      simp only at hnp ⊢
      generalize Writer.finish S Server.macFn = f at hnp ⊢
      rcases f with ⟨bytes, mac⟩ | e | _
      · exact ⟨bytes, rfl⟩
      · exact absurd rfl hnp
      · exact absurd rfl hnp
    | some r'' =>
      simp only at hnp ⊢
      by_cases hans : endVerdict (catKind cfg) req.size
          (Spec.Server.specScanWith (catKind cfg) cfg.payload req).question r'.cursor
          ((req.getD 2 0).toNat / 8 % 16) = .answer
      · rw [if_pos hans] at hnp ⊢
        rw [bind_apply] at hnp ⊢
        generalize Server.handleQuery cfg question tr S = Y at hnp ⊢
        rcases Y with ⟨(u | e | _), w1⟩
        · simp only [pure_apply] at hnp ⊢
          generalize Writer.finish w1 Server.macFn = f at hnp ⊢
          rcases f with ⟨bytes, mac⟩ | e | _
          · exact ⟨bytes, rfl⟩
          · exact absurd rfl hnp
          · exact absurd rfl hnp
        · exact absurd rfl hnp
        · exact absurd rfl hnp
      · rw [if_neg hans] at hnp ⊢
        simp only at hnp ⊢
        generalize Writer.finish _ Server.macFn = f at hnp ⊢
        rcases f with ⟨bytes, mac⟩ | e | _
        · exact ⟨bytes, rfl⟩
        · exact absurd rfl hnp
        · exact absurd rfl hnp
  · exact absurd rfl hnp
  · exact absurd rfl hnp

/-- a no-data response to a signed request: the RCODE, no answer, no authority, AA and TC clear, and
    after the question nothing but the OPT record (iff the scan reached one) and then the TSIG record
    (TYPE 250, CLASS ANY, TTL 0; its owner `oe` is the key name literally or compressed) -/
structure SignedNoData (p : Nat) (sc : Spec.Server.Scan) (rc : Nat) (b : Bytes) : Prop where
  rcode : Spec.Server.hdr b 2 % 16 = rc
  an : Spec.Server.hdr b 6 = 0
  ns : Spec.Server.hdr b 8 = 0
  ar : Spec.Server.hdr b 10 = (if sc.edns then 2 else 1)
  aa : Spec.Server.hdr b 2 / 1024 % 2 = 0
  tc : Spec.Server.hdr b 2 / 512 % 2 = 0
  rest : ∃ oe ts mac, NameShape ts.rr.keyName oe ∧
    b.toList.drop 12 = specQuestionOctets sc.question ++ signedOptOctets p sc ++ tsigRecordOctets oe ts mac

theorem signedNoData_of_list (req : Bytes) (p : Nat) (sc : Spec.Server.Scan) (rc : Nat) (hrc : rc < 16)
    (oe : List UInt8) (ts : Writer.Tsig) (mac : Option (List UInt8)) (hsh : NameShape ts.rr.keyName oe) (b : Bytes)
    (hb : b.toList = signedPrefix req p sc rc ++ tsigRecordOctets oe ts mac) : SignedNoData p sc rc b := by
  obtain ⟨_, h2, h3, _, han, hns, har, hrest⟩ := signedResp_facts req p sc rc _ b hb
  obtain ⟨_, _, f3, f4, _, _, _, f8⟩ := flags_facts b req rc hrc h2 h3
  exact ⟨f8, han, hns, har, f3, f4, oe, ts, mac, hsh, hrest⟩

/-- **signed requests, no-data verdicts: the response exists and is a `SignedNoData`** (well-formed
    configuration, clock below 2^48 s: the hypotheses of C01) -/
theorem signed_noData_full (cfg : Server.Cfg) (hcfg : ServerSafety.CfgWF cfg) (tr : Server.Transport)
    (now bufLen : Nat) (req : Bytes)
    (hbuf : minBuf tr cfg.payload ≤ bufLen) (hpay : 512 ≤ cfg.payload) (hreq : req.size ≤ Rdata.USIZE_MAX)
    (hnow : now < 2^48)
    (hr : (Spec.Server.specScanWith (catKind cfg) cfg.payload req).respond = true)
    (hv : (Spec.Server.specScanWith (catKind cfg) cfg.payload req).verdict = .tsigReached) :
    ∃ (t : Tsig.ReadTsigRr) (mw : Bytes) (r' : Reader), r'.octets = req ∧ r'.cursor ≤ req.size ∧
      ∀ r'' S, Server.tsigAfter cfg now t mw r' (preTsigState cfg tr bufLen req) = (.ok (some r''), S) →
      ∀ v, (v = Spec.Server.Verdict.formErr ∨ v = .notImp ∨ v = .refused ∨ v = .servFailZone) →
        endVerdict (catKind cfg) req.size (Spec.Server.specScanWith (catKind cfg) cfg.payload req).question
          r'.cursor ((req.getD 2 0).toNat / 8 % 16) = v →
        ∃ b, Server.handleMessage cfg tr now bufLen req = .ok (some b) ∧
          SignedNoData cfg.payload (Spec.Server.specScanWith (catKind cfg) cfg.payload req)
            (Spec.Server.verdictRcode v).1 b := by
  obtain ⟨t, mw, r', h1, h2, h3⟩ := signed_noData_response cfg tr now bufLen req hbuf hpay hreq hr hv
  obtain ⟨b, hb⟩ := signed_response_exists cfg hcfg tr now bufLen req hbuf hpay hreq hnow hr hv
  refine ⟨t, mw, r', h1, h2, fun r'' S hT v hvv hev => ⟨b, hb, ?_⟩⟩
  obtain ⟨nowT, alg, key, kn, _, _, _, _, _, oe, sT, _, hsh, _, hbl⟩ := h3 r'' S hT v hvv hev b hb
  exact signedNoData_of_list req cfg.payload _ _ (verdictRcode_lt v) oe _ _ hsh b hbl

/-! ### authenticated requests that a loaded zone answers -/

/-- **an authenticated request answered from a loaded zone**: whatever the zone answers, the
    response ends with the TSIG record (mode `Response`: request MAC and the key), whose MAC is
    `macFn` of exactly the octets before it; and when the scan reached an OPT, those octets end with
    the one OPT record (owner root, CLASS = server payload size, version and flags 0). -/
theorem signed_answer_response (cfg : Server.Cfg) (tr : Server.Transport) (now bufLen : Nat) (req : Bytes)
    (hbuf : minBuf tr cfg.payload ≤ bufLen) (hpay : 512 ≤ cfg.payload) (hreq : req.size ≤ Rdata.USIZE_MAX)
    (hr : (Spec.Server.specScanWith (catKind cfg) cfg.payload req).respond = true)
    (hv : (Spec.Server.specScanWith (catKind cfg) cfg.payload req).verdict = .tsigReached) :
    ∃ (t : Tsig.ReadTsigRr) (mw : Bytes) (r' : Reader), r'.octets = req ∧ r'.cursor ≤ req.size ∧
      ∀ r'' S, Server.tsigAfter cfg now t mw r' (preTsigState cfg tr bufLen req) = (.ok (some r''), S) →
        endVerdict (catKind cfg) req.size (Spec.Server.specScanWith (catKind cfg) cfg.payload req).question
          r'.cursor ((req.getD 2 0).toNat / 8 % 16) = .answer →
      ∀ b, Server.handleMessage cfg tr now bufLen req = .ok (some b) →
        ∃ nowT alg key kn, Tsig.TimeSigned.tryFromUnix now = some nowT ∧
          Tsig.Algorithm.fromName t.algorithm = some alg ∧ Server.findKey cfg.keys t.keyName alg = some key ∧
          WName.parse t.keyName = some (kn, []) ∧
          Tsig.verifyRequest Tsig.realHmac t mw.toList alg key.secret nowT = .ok () ∧
          ∃ pre oe, NameShape kn oe ∧
            b.toList = pre ++ tsigRecordOctets oe (respTsig alg key kn t nowT)
              (some (Server.macFn (respTsig alg key kn t nowT) pre)) ∧
            ((Spec.Server.specScanWith (catKind cfg) cfg.payload req).edns = true →
              ∃ x upper, pre = x ++ optRecord ⟨cfg.payload, upper⟩) ∧
            ((Spec.Server.specScanWith (catKind cfg) cfg.payload req).edns = false →
              ∃ w1 : State, pre = finishPrefix w1) := by
  obtain ⟨t, mw, r', question, h1, h2, _, h4⟩ := handleMessage_tsig_eq cfg tr now bufLen req hbuf hpay hreq hr hv
  refine ⟨t, mw, r', h1, h2, fun r'' S hT hev b hb => ?_⟩
  rw [hT, hb] at h4
  simp only [afterTsig, hev, if_true] at h4
  obtain ⟨_, _, hsce⟩ := specScanWith_respond _ _ _ hr
  unfold preTsigState at hT
  rw [hsce] at hT ⊢
  generalize hsc : specBody (catKind cfg) cfg.payload req = sc at *
  obtain ⟨_, p2, p3⟩ := specBody_props (catKind cfg) cfg.payload req
  rw [hsc] at p2 p3
  obtain ⟨hbase, hcur, _, _, _, h30, hs3, _, _, _, _, _, hrrs, hsz⟩ :=
    s1_facts bufLen tr cfg.payload (Spec.Server.hdr req 0) (((req.getD 2 0).toNat &&& 120) >>> 3)
      (((req.getD 2 0).toNat &&& 1) != 0) hbuf hpay req sc.question
      (fun x hx => specBody_question (catKind cfg) cfg.payload req x (by rw [hsc]; exact hx))
  generalize qSt (hdrSt (w0 bufLen (lim0 tr)) (Spec.Server.hdr req 0) (((req.getD 2 0).toNat &&& 120) >>> 3)
      (((req.getD 2 0).toNat &&& 1) != 0)) sc.question = s1 at *
  unfold Server.tsigAfter at hT
  cases hnow : Tsig.TimeSigned.tryFromUnix now with
  | none => rw [hnow] at hT; cases hT
  | some nowT =>
    rw [hnow] at hT
    simp only at hT
    have h12s : 12 ≤ (arSt s1 tr cfg.payload sc.edns sc.limitUdp).octets.size := by
      rw [arSt_size, hsz]; cases tr <;> simp only [minBuf] at hbuf <;> omega
    obtain ⟨alg, key, kn, ha, hk, hkn, hver, _, _, hS⟩ :=
      tsigProcess_some_state Tsig.realHmac cfg.keys _ h12s t mw.toList nowT r' r'' S hT
    refine ⟨nowT, alg, key, kn, rfl, ha, hk, hkn, hver, ?_⟩
    obtain ⟨hX, _⟩ := sigSt_facts s1 tr cfg.payload sc.edns sc.limitUdp 0 0 (by omega) (by omega)
      hbase h30 hs3 p2 p3 (.response (Server.toWriterAlg alg) t.mac key.secret) (ServerTsig.prepOf kn t nowT 0)
    rw [← hS] at hX
    have hSrr : S.rrStart = s1.rrStart := by
      rw [hS]
      show (stRcode 0 (arSt s1 tr cfg.payload sc.edns sc.limitUdp)).rrStart = _
      have : ∀ x : State, (stRcode 0 x).rrStart = x.rrStart := by
        intro x; unfold stRcode stHdr; cases x.edns <;> rfl
      rw [this]
      cases sc.edns <;> cases tr <;> rfl
    -- the answering phase keeps the TSIG slot and the EDNS payload
    have hfr := framed_bind (k := true) (Server.framed_handleQuery 12 (by omega) cfg question tr)
      (fun _ => framed_pure 12 true) S (by rw [hX.cur, hcur]; omega) (by rw [hSrr, hrrs]; omega)
    obtain ⟨k1, k2⟩ := hfr.keep rfl
    rcases hq : (Server.handleQuery cfg question tr >>= fun _ => (pure true : M Bool)) S with ⟨(bb | e | _), w1⟩
    · rw [hq] at h4 hfr k1 k2
      simp only at hfr k1 k2
      cases bb with
      | false => simp only at h4; cases h4
      | true =>
        simp only at h4
        rcases hfin : Writer.finish w1 Server.macFn with ⟨bytes, mac⟩ | e | _
        · rw [hfin] at h4
          simp only [Out.ok.injEq, Option.some.injEq] at h4
          subst h4
          have hts : w1.tsig = some (respTsig alg key kn t nowT) := by rw [k1, hX.tsig]; rfl
          obtain ⟨_, hmac, oe, sT, hoe, _, _, _, hbl⟩ :=
            finish_octets_tsig Server.macFn w1 hfr.cur _ hts b mac hfin
          have hmac' : mac = some (Server.macFn (respTsig alg key kn t nowT) (finishPrefix w1 ++ optEnc w1.edns)) := by
            rw [hmac]; rfl
          rw [hmac'] at hbl
          refine ⟨finishPrefix w1 ++ optEnc w1.edns, oe, nameEnc_none_shape hoe, hbl, ?_, ?_⟩
          · intro he
            rw [hX.edns, he] at k2
            simp only [if_true, Option.map_some] at k2
            rcases hw : w1.edns with _ | ed
            · rw [hw] at k2; cases k2
            · rw [hw] at k2
              simp only [Option.map_some, Option.some.injEq] at k2
              refine ⟨finishPrefix w1, ed.upper, ?_⟩
              rw [optEnc_some]
              congr 2
              cases ed; simp only at k2; rw [k2]
          · intro he
            rw [hX.edns, he] at k2
            simp only [Bool.false_eq_true, if_false, Option.map_none, Option.map_eq_none_iff] at k2
            refine ⟨w1, ?_⟩
            rw [k2]; simp [optEnc]
        · rw [hfin] at h4; cases h4
        · rw [hfin] at h4; cases h4
    · rw [hq] at h4; cases h4
    · rw [hq] at h4; cases h4

end QV.ServerScan
