/-
  QV.Proofs.ServerAnswerTwoRunI — the two-run comparison of the answering phase (C10 row 3, part (b)),
  localized at the *real* plain run, so that the writer's structural invariant `Writer.I` and the
  validity of the hints are available at every call (they are what C01's pass, Proofs/ServerQuery.lean,
  establishes on the way; this pass runs the same induction once more, with the judgement `SafeX` =
  C01's `SafeP` plus the two-run property at the state reached).

  Why: the hypothesis `ServerAnswer.ScratchIndep` of Proofs/ServerAnswerTwoRun.lean quantifies over all
  writer states and is false for states whose prior names or hints point at or above the cursor.  The
  named hypothesis of this file, `ScratchIndepI`, asks for scratch independence only next to a state
  that satisfies `Writer.I` and whose hint is valid.
-/
import QV.Proofs.ServerAnswerContent
import QV.Proofs.ServerAnswerFields
import QV.Proofs.ServerAnswerTwoRun

namespace QV.ServerContent
open QV QV.Writer QV.Server QV.ServerSafety QV.ServerAnswer

/-- the precondition of a writer call of the answering phase: a well-formed owner and a valid hint -/
def AnsPre : AnsCall → State → Prop
  | .addRr _ h o _ _ _ _, u => o.WF ∧ HintOK Writer.Den u h o
  | .addRrset _ h o _ _ _ _, u => o.WF ∧ HintOK Writer.Den u h o
  | _, _ => True

/-- `s` is `u` with other room, TSIG slot and ARCOUNT — the room still holding the cursor and lying
    within the buffer (what the writer's size invariant says of `s`) -/
def FieldsOnly (u s : State) : Prop :=
  (∃ l a ts ar, s = { u with limit := l, available := a, tsig := ts, arcount := ar }) ∧
  s.cursor ≤ s.available ∧ s.available ≤ s.octets.size

/-- **scratch independence** (the named hypothesis; a fact about the writer, not proved here): next to
    a state `u` that satisfies the writer's invariant `Writer.I` and the call's precondition, a writer
    call of the answering phase run on `s` (= `u` up to the room, the TSIG slot and ARCOUNT) and on any
    `t` that agrees with `s` on everything but the octets at and above the cursor has the same outcome
    and leaves two such states, with the same hint vector. -/
def ScratchIndepI : Prop :=
  ∀ (c : AnsCall) (u s t : State), Writer.I u → AnsPre c u → FieldsOnly u s → Same s t → s.hv = t.hv →
    (c.run t).1 = (c.run s).1 ∧ Same (c.run s).2 (c.run t).2 ∧ (c.run s).2.hv = (c.run t).2.hv

theorem ansCall_modS (c : AnsCall) (L : Nat) (T : Option Writer.Tsig) (s : State)
    (h : (c.run s).2.arcount + 1 ≤ 65535) : c.run (modS L T s) = ((c.run s).1, modS L T (c.run s).2) := by
  cases c with
  | setAa b => exact (show Com (setBit Gen.AA_BYTE Gen.AA_MASK b) from by unfold setBit; exact com_setHdr _ _) L T s
  | setRcode v => exact com_setRcode v L T s
  | addRr sec hh o ty cls ttl rd => exact addRrOp_modS sec hh o ty cls ttl rd L T s h
  | addRrset sec hh o ty cls ttl rds => exact addRrsetOp_modS sec hh o ty cls ttl rds L T s h

theorem fieldsOnly_of_rel {R L : Nat} {T : Option Writer.Tsig} {a0 b : State} (h : lift R a0 = modS L T b)
    (hi : Writer.I b) (hc : a0.cursor ≤ a0.available) : FieldsOnly b a0 := by
  refine ⟨⟨a0.limit, a0.available, a0.tsig, a0.arcount, ?_⟩, hc, ?_⟩
  · cases a0; cases b
    simp only [lift, modS, State.mk.injEq] at h
    simp only [State.mk.injEq]
    obtain ⟨h1, h2, h3, h4, h5, h6, h7, h8, h9, h10, h11, h12, h13, h14, h15, h16, h17, h18, h19, h20⟩ := h
    simp_all
  · have h2 := congrArg State.available h
    have h3 := congrArg State.octets h
    simp only [lift, modS] at h2 h3
    have := hi.inv.av_lim; have := hi.inv.lim_size
    rw [h3]; omega

theorem rel_fields {R L : Nat} {T : Option Writer.Tsig} {a0 b : State} (h : lift R a0 = modS L T b) :
    a0.cursor = b.cursor ∧ a0.available + R = b.available ∧ a0.hv = b.hv := by
  have h1 := congrArg State.cursor h
  have h2 := congrArg State.available h
  have h3 := congrArg State.hv h
  simp only [lift, modS] at h1 h2 h3
  exact ⟨h1, h2, h3⟩

theorem rel_hv {R L : Nat} {T : Option Writer.Tsig} {a0 b : State} (h : lift R a0 = modS L T b) (x : Option HV) :
    lift R { a0 with hv := x } = modS L T { b with hv := x } := by
  have := congrArg (fun s : State => { s with hv := x }) h
  exact this

/-- an accepted call of the plain run that fits the signed room is accepted in the signed run -/
theorem callTwo_ok (hSI : ScratchIndepI) (c : AnsCall) (b : State) (hi : Writer.I b) (hp : AnsPre c b)
    (L : Nat) (T : Option Writer.Tsig) (R : Nat) (a0 A : State) (hrel : lift R a0 = modS L T b)
    (hS : Same A a0) (hhv : A.hv = a0.hv) (b' : State) (hrun : c.run b = (.ok (), b'))
    (hfit : b'.cursor ≤ A.available) (hcnt : b'.arcount + 1 ≤ 65535) :
    ∃ A' a0', c.run A = (.ok (), A') ∧ lift R a0' = modS L T b' ∧ Same A' a0' ∧ A'.hv = a0'.hv := by
  have hm := ansCall_modS c L T b (by rw [hrun]; exact hcnt)
  rw [hrun, ← hrel] at hm
  simp only at hm
  obtain ⟨s', hs', ht⟩ := sim_ansCall c R a0 () _ hm (by show b'.cursor ≤ a0.available; rw [hS.available]; exact hfit)
  have hcur : a0.cursor ≤ a0.available := by
    have h1 := congrArg State.cursor hrel
    simp only [lift, modS] at h1
    have := (ansCall_ok_ca c b b' hrun).1
    have := hS.available
    omega
  obtain ⟨g1, g2, g3⟩ := hSI c b a0 A hi hp (fieldsOnly_of_rel hrel hi hcur) (Same.symm hS) hhv.symm
  rw [hs'] at g1 g2 g3
  simp only at g1 g2 g3
  rcases hr : c.run A with ⟨r, A'⟩
  rw [hr] at g1 g2 g3
  simp only at g1 g2 g3
  subst g1
  exact ⟨A', s', rfl, ht.symm, Same.symm g2, g3.symm⟩

/-- an RRset the plain run rejects with `Truncation` is rejected with `Truncation` by the signed run -/
theorem callTwo_trunc (hSI : ScratchIndepI) (sec : RrSection) (hint : Hint) (owner : WName) (ty cls ttl : Nat)
    (rds : List (List UInt8)) (b : State) (hi : Writer.I b)
    (hp : AnsPre (.addRrset sec hint owner ty cls ttl rds) b)
    (L : Nat) (T : Option Writer.Tsig) (R : Nat) (a0 A : State) (hrel : lift R a0 = modS L T b)
    (hS : Same A a0) (hhv : A.hv = a0.hv) (b' : State)
    (hrun : addRrsetOp sec hint owner ty cls ttl rds b = (.err .Truncation, b'))
    (hfit : b'.cursor ≤ A.available) (hcnt : b'.arcount + 1 ≤ 65535) (hnp : (addRrsetOp sec hint owner ty cls ttl rds A).1 ≠ .panic) :
    ∃ A' a0', addRrsetOp sec hint owner ty cls ttl rds A = (.err .Truncation, A') ∧
      lift R a0' = modS L T b' ∧ Same A' a0' := by
  have hm := addRrsetOp_modS sec hint owner ty cls ttl rds L T b (by rw [hrun]; exact hcnt)
  rw [hrun, ← hrel] at hm
  simp only at hm
  have hcur : a0.cursor ≤ a0.available := by
    have h1 := congrArg State.cursor hrel
    simp only [lift, modS] at h1
    have hb := addRrsetOp_cases sec hint owner ty cls ttl rds b
    rw [hrun] at hb
    have := hb.cursor
    have := hS.available
    omega
  obtain ⟨g1, _, _⟩ := hSI (.addRrset sec hint owner ty cls ttl rds) b a0 A hi hp (fieldsOnly_of_rel hrel hi hcur)
    (Same.symm hS) hhv.symm
  have e : ∀ s, AnsCall.run (.addRrset sec hint owner ty cls ttl rds) s = addRrsetOp sec hint owner ty cls ttl rds s :=
    fun _ => rfl
  rw [e, e] at g1
  have hB := addRrsetOp_cases sec hint owner ty cls ttl rds (lift R a0)
  rw [hm] at hB
  simp only at hB
  obtain ⟨t0, ht0, hBt⟩ := same_lift_inv R a0 _ hB
  rcases addRrsetOp_trunc_down sec hint owner ty cls ttl rds R a0 _ hm with ⟨s0, hs0⟩ | hpn
  · rw [hs0] at g1
    simp only at g1
    rcases hr : addRrsetOp sec hint owner ty cls ttl rds A with ⟨r, A'⟩
    rw [hr] at g1
    simp only at g1
    subst g1
    have hA := addRrsetOp_cases sec hint owner ty cls ttl rds A
    rw [hr] at hA
    simp only at hA
    exact ⟨A', t0, rfl, ht0.symm, Same.trans (Same.symm hA) (Same.trans hS hBt)⟩
  · rw [hpn] at g1
    exact absurd g1 hnp

/-! ### the judgement -/

/-- along the run from `ps`: the cursor and ARCOUNT only grow, `available` is untouched -/
def MonoAt {ε α : Type} (f : PS → Out ε α × PS) (ps : PS) : Prop :=
  ∀ a pt, f ps = (.ok a, pt) →
    ps.w.cursor ≤ pt.w.cursor ∧ pt.w.available = ps.w.available ∧ ps.w.arcount ≤ pt.w.arcount

/-- the two-run property at `ps` (a state of the plain run): whenever the run from `ps` succeeds, its
    result fits the signed room and leaves ARCOUNT below its maximum, the run from any signed-side
    state `A` related to `ps.w` that does not panic succeeds with the same result and log, and the
    final states are related again.  The relation: `A` agrees below the cursor (`Same`) with `a0`,
    which is `ps.w` up to the room (`lift R`), the TSIG slot and ARCOUNT + 1 (`modS L T`). -/
def TwoAt {ε α : Type} (f : PS → Out ε α × PS) (ps : PS) : Prop :=
  ∀ (L : Nat) (T : Option Writer.Tsig) (R : Nat) (a0 A : State) (a : α) (pt : PS),
    lift R a0 = modS L T ps.w → Same A a0 → A.hv = a0.hv → f ps = (.ok a, pt) →
    pt.w.cursor ≤ A.available → pt.w.arcount + 1 ≤ 65535 → (f ⟨A, ps.log⟩).1 ≠ .panic →
    ∃ ps' a0', f ⟨A, ps.log⟩ = (.ok a, ps') ∧ ps'.log = pt.log ∧ lift R a0' = modS L T pt.w ∧
      Same ps'.w a0' ∧ ps'.w.hv = a0'.hv

/-- C01's judgement plus the two-run property at the state -/
def SafeX {ε α : Type} (f : PS → Out ε α × PS) (s : PS) (Q : α → State → Prop) : Prop :=
  SafeP W f s Q ∧ MonoAt f s ∧ TwoAt f s

theorem SafeX.weaken {ε α : Type} {f : PS → Out ε α × PS} {s : PS} {Q Q' : α → State → Prop}
    (h : SafeX f s Q) (hq : ∀ a w', W.I w' → Mono W.Den s.w w' → Q a w' → Q' a w') : SafeX f s Q' :=
  ⟨h.1.weaken W hq, h.2⟩

theorem safeX_congr {ε α : Type} {f g : PS → Out ε α × PS} {s : PS} {Q : α → State → Prop}
    (h : ∀ s', f s' = g s') (hg : SafeX g s Q) : SafeX f s Q := by
  have : f = g := funext h
  subst this
  exact hg

theorem safeX_pure {α : Type} (a : α) (s : PS) (hi : W.I s.w) {Q : α → State → Prop} (hq : Q a s.w) :
    SafeX (pure a : PM α) s Q := by
  refine ⟨safe_pure_PM W a s hi hq, ?_, ?_⟩
  · intro b pt h
    cases h
    exact ⟨Nat.le_refl _, rfl, Nat.le_refl _⟩
  · intro L T R a0 A b pt hrel hS hhv h _ _ _
    cases h
    exact ⟨⟨A, s.log⟩, a0, rfl, rfl, hrel, hS, hhv⟩

/-- a computation that fails without touching the state -/
theorem safeX_err {α : Type} {f : PM α} {s : PS} {e : PErr} (h : f s = (.err e, s)) (hi : W.I s.w)
    {Q : α → State → Prop} : SafeX f s Q := by
  refine ⟨?_, ?_, ?_⟩
  · unfold SafeP; rw [h]
    exact ⟨by simp, hi, Mono.refl _ _, fun _ h => by cases h⟩
  · intro b pt h'; rw [h] at h'; cases h'
  · intro L T R a0 A b pt _ _ _ h' _ _ _; rw [h] at h'; cases h'

theorem safeX_fail {α : Type} (e : PErr) (s : PS) (hi : W.I s.w) {Q : α → State → Prop} :
    SafeX (PM.fail e : PM α) s Q :=
  safeX_err (by rfl) hi

theorem safeX_bind {α β : Type} {x : PM α} {g : α → PM β} {s : PS} {Q : α → State → Prop}
    {R' : β → State → Prop} (hx : SafeX x s Q)
    (hg : ∀ a s', W.I s'.w → Mono W.Den s.w s'.w → Q a s'.w → SafeX (g a) s' R') :
    SafeX (x >>= g) s R' := by
  obtain ⟨hs, hm, ht⟩ := hx
  refine ⟨safe_bind_PM W hs (fun a s' h1 h2 h3 => (hg a s' h1 h2 h3).1), ?_, ?_⟩
  · intro b pt h
    rw [PM.bind_apply] at h
    obtain ⟨_, h2, h3, h4⟩ := hs
    rcases hxs : x s with ⟨(a | e | _), s1⟩
    · rw [hxs] at h h2 h3 h4
      simp only at h h2 h3 h4
      obtain ⟨m1, m2, m3⟩ := hm a s1 hxs
      obtain ⟨n1, n2, n3⟩ := (hg a s1 h2 h3 (h4 a rfl)).2.1 b pt h
      exact ⟨Nat.le_trans m1 n1, by rw [n2, m2], Nat.le_trans m3 n3⟩
    · rw [hxs] at h; cases h
    · rw [hxs] at h; cases h
  · intro L T R a0 A b pt hrel hS hhv h hfit hcnt hnp
    rw [PM.bind_apply] at h hnp ⊢
    obtain ⟨_, h2, h3, h4⟩ := hs
    rcases hxs : x s with ⟨(a | e | _), s1⟩
    · rw [hxs] at h h2 h3 h4
      simp only at h h2 h3 h4
      have hg1 := hg a s1 h2 h3 (h4 a rfl)
      obtain ⟨m1, m2, m3⟩ := hm a s1 hxs
      obtain ⟨n1, n2, n3⟩ := hg1.2.1 b pt h
      have hnp1 : (x ⟨A, s.log⟩).1 ≠ .panic := by
        intro hp
        rcases hr : x ⟨A, s.log⟩ with ⟨(y | e | _), q⟩
        · rw [hr] at hp; cases hp
        · rw [hr] at hp; cases hp
        · rw [hr] at hnp; exact hnp rfl
      obtain ⟨ps1, a1, e1, e2, e3, e4, e5⟩ := ht L T R a0 A a s1 hrel hS hhv hxs (by omega) (by omega) hnp1
      rw [e1] at hnp ⊢
      simp only at hnp ⊢
      obtain ⟨w1, l1⟩ := ps1
      simp only at e2 e4 e5
      subst e2
      obtain ⟨r1, r2, _⟩ := rel_fields hrel
      obtain ⟨r3, r4, _⟩ := rel_fields e3
      have := e4.available
      have := hS.available
      exact hg1.2.2 L T R a1 w1 b pt e3 e4 e5 h (by omega) hcnt hnp
    · rw [hxs] at h; cases h
    · rw [hxs] at h; cases h

/-- a state-independent computation -/
def StateFree {α : Type} (m : PM α) : Prop := ∃ r : Out PErr α, ∀ s, m s = (r, s)

theorem StateFree.transfer {α : Type} {m : PM α} (h : StateFree m) {s : PS} {r : Out PErr α}
    (hs : m s = (r, s)) (s' : PS) : m s' = (r, s') := by
  obtain ⟨r0, h0⟩ := h
  have := h0 s
  rw [hs] at this
  have hr : r = r0 := (Prod.mk.inj this).1
  rw [hr]; exact h0 s'

theorem stateFree_readName (rd : List UInt8) (start : Nat) : StateFree (readNameFromRdata rd start) := by
  unfold readNameFromRdata
  split
  · exact ⟨_, fun _ => rfl⟩
  · split
    · exact ⟨_, fun _ => rfl⟩
    · exact ⟨_, fun _ => rfl⟩

theorem stateFree_readSoaMinimum (rd : List UInt8) : StateFree (Server.readSoaMinimum rd) := by
  unfold Server.readSoaMinimum
  split
  · split
    · split
      · exact ⟨_, fun _ => rfl⟩
      · dsimp only
        split
        · exact ⟨_, fun _ => rfl⟩
        · exact ⟨_, fun _ => rfl⟩
    · exact ⟨_, fun _ => rfl⟩
  · exact ⟨_, fun _ => rfl⟩

theorem stateFree_bind {α β : Type} {m : PM α} {f : α → PM β} (hm : StateFree m) (hf : ∀ a, StateFree (f a)) :
    StateFree (m >>= f) := by
  obtain ⟨r, hr⟩ := hm
  cases r with
  | ok a =>
    obtain ⟨r2, h2⟩ := hf a
    exact ⟨r2, fun s => by rw [PM.bind_apply, hr s]; exact h2 s⟩
  | err e => exact ⟨.err e, fun s => by rw [PM.bind_apply, hr s]⟩
  | panic => exact ⟨.panic, fun s => by rw [PM.bind_apply, hr s]⟩

theorem stateFree_classifyNs (child : WName) (rds : List (List UInt8)) (idx : Nat) :
    StateFree (Server.classifyNs child rds idx) := by
  induction rds generalizing idx with
  | nil => unfold Server.classifyNs; exact ⟨_, fun _ => rfl⟩
  | cons rd rest ih =>
    unfold Server.classifyNs
    refine stateFree_bind (stateFree_readName rd 0) (fun n => stateFree_bind (ih (idx + 1)) (fun p => ?_))
    obtain ⟨g, a⟩ := p
    simp only []
    split
    · exact ⟨_, fun _ => rfl⟩
    · exact ⟨_, fun _ => rfl⟩

/-! ### the leaves -/

theorem monoAt_of {α : Type} {m : PM α} (hc : CAP m) (hm : CMP m) (ps : PS) : MonoAt m ps := by
  intro a pt h
  obtain ⟨c1, c2, _⟩ := hc ps a pt h
  have := hm ps
  rw [h] at this
  exact ⟨c1, c2, this⟩

theorem twoAt_bind_pure {α : Type} {m : PM α} {ps : PS} (hT : TwoAt m ps) :
    TwoAt (m >>= fun _ => (pure () : PM Unit)) ps := by
  intro L T R a0 A a pt hrel hS hhv h hfit hcnt hnp
  rw [PM.bind_apply] at h hnp ⊢
  rcases hms : m ps with ⟨(a1 | e | _), s1⟩
  · rw [hms] at h
    simp only at h
    cases h
    have hnp1 : (m ⟨A, ps.log⟩).1 ≠ .panic := by
      intro hp
      rcases hr : m ⟨A, ps.log⟩ with ⟨(y | e | _), q⟩
      · rw [hr] at hp; cases hp
      · rw [hr] at hp; cases hp
      · rw [hr] at hnp; exact hnp rfl
    obtain ⟨ps1, a1', e1, e2, e3, e4, e5⟩ := hT L T R a0 A a1 _ hrel hS hhv hms hfit hcnt hnp1
    rw [e1]
    exact ⟨ps1, a1', rfl, e2, e3, e4, e5⟩
  · rw [hms] at h; cases h
  · rw [hms] at h; cases h

section leaves
set_option linter.unusedSectionVars false
variable (hSI : ScratchIndepI)
include hSI

theorem twoAt_hdrOp (ev : Ev) (c : AnsCall) (hpre : ∀ u, AnsPre c u) (ps : PS) (hi : W.I ps.w) :
    TwoAt (PM.hdrOp ev c.run) ps := by
  intro L T R a0 A a pt hrel hS hhv h hfit hcnt _
  unfold PM.hdrOp at h ⊢
  simp only at h ⊢
  rcases hm : c.run ps.w with ⟨(u | e | _), b'⟩
  · rw [hm] at h
    simp only at h
    cases h
    obtain ⟨A', a0', g1, g2, g3, g4⟩ := callTwo_ok hSI c ps.w hi (hpre _) L T R a0 A hrel hS hhv b' hm hfit hcnt
    rw [g1]
    exact ⟨_, a0', rfl, rfl, g2, g3, g4⟩
  · rw [hm] at h; simp at h
  · rw [hm] at h; simp at h

theorem twoAt_addCall (ev : AddEv) (c : AnsCall)
    (htr : ev.optional = true → ∃ sec hh o ty cls ttl rds, c = .addRrset sec hh o ty cls ttl rds)
    (ps : PS) (hi : W.I ps.w) (hp : AnsPre c { ps.w with hv := some [] }) :
    TwoAt (PM.addCall ev (Server.withHv [] c.run)) ps := by
  intro L T R a0 A a pt hrel hS hhv h hfit hcnt hnp
  unfold PM.addCall Server.withHv at h hnp ⊢
  simp only at h hnp ⊢
  have hi0 : Writer.I { ps.w with hv := some [] } := W.I_hv ps.w (some []) hi
  have hrel0 := rel_hv hrel (some [])
  have hS0 : Same { A with hv := some [] } { a0 with hv := some [] } := same_hv hS _ _
  rcases hm : c.run { ps.w with hv := some [] } with ⟨(u | e | _), b1⟩
  · rw [hm] at h
    simp only at h
    cases h
    obtain ⟨A1, a1, g1, g2, g3, g4⟩ := callTwo_ok hSI c _ hi0 hp L T R _ _ hrel0 hS0 rfl b1 hm hfit hcnt
    rw [g1]
    simp only
    have hv1 := (rel_fields g2).2.2
    refine ⟨⟨{ A1 with hv := none }, _⟩, { a1 with hv := none }, ?_, rfl, rel_hv g2 none, same_hv g3 _ _, rfl⟩
    rw [g4, hv1]
  · rw [hm] at h
    simp only at h
    split at h
    · next hcond =>
      cases h
      obtain ⟨ho, he⟩ := hcond
      subst he
      obtain ⟨sec, hh, o, ty, cls, ttl, rds, hc⟩ := htr ho
      subst hc
      have hm' : addRrsetOp sec hh o ty cls ttl rds { ps.w with hv := some [] } = (.err .Truncation, b1) := hm
      have hnpA : (addRrsetOp sec hh o ty cls ttl rds { A with hv := some [] }).1 ≠ .panic := by
        intro hpn
        have e : AnsCall.run (.addRrset sec hh o ty cls ttl rds) { A with hv := some [] } =
            addRrsetOp sec hh o ty cls ttl rds { A with hv := some [] } := rfl
        rw [e] at hnp
        rcases hr : addRrsetOp sec hh o ty cls ttl rds { A with hv := some [] } with ⟨(x | e | _), q⟩
        · rw [hr] at hpn; cases hpn
        · rw [hr] at hpn; cases hpn
        · rw [hr] at hnp; exact hnp rfl
      obtain ⟨A1, a1, g1, g2, g3⟩ := callTwo_trunc hSI sec hh o ty cls ttl rds _ hi0 hp L T R _ _ hrel0 hS0 rfl b1
        hm' hfit hcnt hnpA
      have g1' : AnsCall.run (.addRrset sec hh o ty cls ttl rds) { A with hv := some [] } = (.err .Truncation, A1) := g1
      rw [g1']
      simp only [ho, and_self, if_true]
      exact ⟨_, { a1 with hv := none }, rfl, rfl, rel_hv g2 none, same_hv g3 _ _, rfl⟩
    · cases h
  · rw [hm] at h; simp at h

theorem safeX_setAa (b : Bool) (s : PS) (hi : W.I s.w) : SafeX (PM.setAa b) s (fun _ _ => True) :=
  ⟨safe_hdr_setAa W b s hi, monoAt_of (simPF_setAa b).2 (comPF_setAa b).2 s,
    twoAt_hdrOp hSI _ (.setAa b) (fun _ => trivial) s hi⟩

theorem safeX_setRcode (v : Nat) (s : PS) (hi : W.I s.w) : SafeX (PM.setRcode v) s (fun _ _ => True) :=
  ⟨safe_hdr_setRcode W v s hi, monoAt_of (simPF_setRcode v).2 (comPF_setRcode v).2 s,
    twoAt_hdrOp hSI _ (.setRcode v) (fun _ => trivial) s hi⟩

theorem safeX_addRrs (optional : Bool) (sec : RrSection) (hint : Hint) (owner : WName) (ty cls ttl : Nat)
    (rds : List (List UInt8)) (s : PS) (hi : W.I s.w) (hwf : owner.WF)
    (hh : HintOK W.Den s.w hint owner) (hne : rds ≠ []) :
    SafeX (PM.addRrs optional sec hint owner ty cls ttl rds) s
      (fun o w' => ∀ hv, o = some hv →
        HvOK W w' hv (rds.flatMap (rdataNames cls ty)) ∧ HintOK W.Den w' .mostRecentOwner owner) :=
  ⟨safe_addRrs W optional sec hint owner ty cls ttl rds s hi hwf hh hne,
    monoAt_of (simPF_addRrs optional sec hint owner ty cls ttl rds).2
      (comPF_addRrs optional sec hint owner ty cls ttl rds).2 s,
    twoAt_addCall hSI _ (.addRrset sec hint owner ty cls ttl rds) (fun _ => ⟨_, _, _, _, _, _, _, rfl⟩) s hi
      ⟨hwf, hintOK_hv W (some []) hh⟩⟩

theorem safeX_addRr1 (sec : RrSection) (hint : Hint) (owner : WName) (ty cls ttl : Nat)
    (rd : List UInt8) (s : PS) (hi : W.I s.w) (hwf : owner.WF) (hh : HintOK W.Den s.w hint owner) :
    SafeX (PM.addRr1 sec hint owner ty cls ttl rd) s
      (fun _ w' => ∀ n, (rdataNames cls ty rd).getLast? = some n →
        HintOK W.Den w' .mostRecentNameInRdata n) :=
  ⟨safe_addRr1 W sec hint owner ty cls ttl rd s hi hwf hh,
    monoAt_of (simPF_addRr1 sec hint owner ty cls ttl rd).2 (comPF_addRr1 sec hint owner ty cls ttl rd).2 s,
    twoAt_bind_pure (twoAt_addCall hSI _ (.addRr sec hint owner ty cls ttl rd)
      (fun h => by cases h) s hi ⟨hwf, hintOK_hv W (some []) hh⟩)⟩

/-! ## the pass over `query.rs` (the induction of Proofs/ServerQuery.lean, with `SafeT`) -/

theorem addAaaa_two (z : Zone.Zone) (hint : Hint) (owner : WName) (optional : Bool)
    (aaaa : Option Zone.Rrset) (haaaa : ∀ r, aaaa = some r → r.rdatas ≠ []) (s : PS) (hi : W.I s.w)
    (hwf : owner.WF) (hh : HintOK W.Den s.w hint owner) :
    SafeX (addAaaa z hint owner optional aaaa) s (fun _ _ => True) := by
  unfold addAaaa
  split
  · cases aaaa with
    | none => exact safeX_pure () s hi trivial
    | some r =>
      exact safeX_bind (safeX_addRrs hSI optional .additional hint owner _ _ _ _ s hi hwf hh (haaaa r rfl))
        (fun _ s1 hi1 _ _ => safeX_pure () s1 hi1 trivial)
  · exact safeX_pure () s hi trivial

theorem addAdditionalAddresses_two (z : Zone.Zone) (hz : ZoneOK z) (hint : Hint) (owner : WName)
    (sbc optional : Bool) (s : PS) (hi : W.I s.w) (hwf : owner.WF) (hh : HintOK W.Den s.w hint owner) :
    SafeX (addAdditionalAddresses z hint owner sbc optional) s (fun _ _ => True) := by
  unfold addAdditionalAddresses
  rcases lookupAddrs_cases z hz (fold owner) sbc (fold_wf owner hwf) with
    ⟨a, aaaa, sos, hl, ha, haaaa⟩ | ⟨x, hl, hx⟩
  · rw [hl]
    cases a with
    | none => exact addAaaa_two hSI z hint owner optional aaaa haaaa s hi hwf hh
    | some r =>
      refine safeX_bind (safeX_addRrs hSI optional .additional hint owner _ _ _ _ s hi hwf hh (ha r rfl))
        (fun o s1 hi1 _ hq => ?_)
      cases o with
      | none => exact safeX_pure () s1 hi1 trivial
      | some hv => exact addAaaa_two hSI z .mostRecentOwner owner optional aaaa haaaa s1 hi1 hwf (hq hv rfl).2
  · rw [hl]
    cases x with
    | found a b c => exact absurd rfl (hx a b c)
    | referral c ns => exact safeX_pure () s hi trivial
    | nxDomain => exact safeX_pure () s hi trivial
    | wrongZone => exact safeX_pure () s hi trivial

/-! ### `do_additional_section_processing` -/


theorem additionalLoop_two (z : Zone.Zone) (hz : ZoneOK z) (start : Nat) (cs : List CompType)
    (hshape : Shape cs start) (hvo : Option HV) :
    ∀ (rest pre : List (List UInt8)) (s : PS), W.I s.w →
      (cs ≠ [] → ∀ rd ∈ pre, ∃ n, compNames cs rd = [n]) →
      (∀ v, hvo = some v → HvOK W s.w v ((pre ++ rest).flatMap (compNames cs))) →
      SafeX (additionalLoop z start hvo rest pre.length) s (fun _ _ => True) := by
  intro rest
  induction rest with
  | nil => intro pre s hi _ _; exact safeX_pure () s hi trivial
  | cons rd rest ih =>
    intro pre s hi hpre hhv
    rcases readName_cases rd start s with ⟨n, hr, hwf, hs, hp⟩ | hr
    · have hint_ok : HintOK W.Den s.w (match (generalizing := false) hvo with | some v => hintFrom v pre.length | none => Hint.none) n := by
        cases hvo with
        | none => trivial
        | some v =>
          refine hintFrom_ok W (hhv v rfl) _ n (fun n' hn' => ?_)
          by_cases hcs : cs = []
          · subst hcs
            have : ∀ l : List (List UInt8), l.flatMap (compNames []) = [] := by
              intro l; induction l with
              | nil => rfl
              | cons a r ih => simp [List.flatMap_cons, compNames, ih]
            rw [this] at hn'; simp at hn'
          · have hl := flatMap_singletons (compNames cs) pre (hpre hcs)
            have hc := compNames_shape hshape hcs rd n hs hp
            rw [List.flatMap_append, List.flatMap_cons, hc, List.getElem?_append_right (by omega), hl] at hn'
            simp at hn'
            exact hn'.symm
      have hrec : ∀ s', W.I s'.w → Mono W.Den s.w s'.w →
          SafeX (additionalLoop z start hvo rest (pre.length + 1)) s' (fun _ _ => True) := by
        intro s' hi' hm
        have := ih (pre ++ [rd]) s' hi'
          (fun hcs x hx => by
            rcases List.mem_append.mp hx with hx | hx
            · exact hpre hcs x hx
            · simp at hx; subst hx; exact ⟨n, compNames_shape hshape hcs _ n hs hp⟩)
          (fun v hv => by
            have := (hhv v hv).mono W hm
            simpa [List.append_assoc] using this)
        simpa using this
      have prog : SafeX (do
          addAdditionalAddresses z
            (match (generalizing := false) hvo with | some v => hintFrom v pre.length | none => Hint.none) n false true
          additionalLoop z start hvo rest (pre.length + 1) : PM Unit) s (fun _ _ => True) :=
        safeX_bind (addAdditionalAddresses_two hSI z hz _ n false true s hi hwf hint_ok)
          (fun _ s' hi' hm _ => hrec s' hi' hm)
      refine safeX_congr (fun s' => ?_) prog
      have hr' := (stateFree_readName rd start).transfer hr s'
      simp only [additionalLoop, PM.bind_apply, hr']
      rfl
    · have e : additionalLoop z start hvo (rd :: rest) pre.length s = (.err .servFail, s) := by
        simp only [additionalLoop, PM.bind_apply, hr]
      exact safeX_err e hi

theorem doAdditionalSectionProcessing_two (z : Zone.Zone) (hz : ZoneOK z) (rrType : Nat)
    (rrset : Zone.Rrset) (hvo : Option HV) (s : PS) (hi : W.I s.w)
    (hhv : ∀ v, hvo = some v → HvOK W s.w v (rrset.rdatas.flatMap (rdataNames z.cls rrType))) :
    SafeX (doAdditionalSectionProcessing z rrType rrset hvo) s (fun _ _ => True) := by
  unfold doAdditionalSectionProcessing
  have loop : ∀ start, Shape (V0.componentTypes z.cls rrType) start →
      SafeX (additionalLoop z start hvo rrset.rdatas 0) s (fun _ _ => True) := fun start hs =>
    additionalLoop_two hSI z hz start _ hs hvo rrset.rdatas [] s hi (fun _ _ h => by cases h)
      (fun v hv => by
        have := hhv v hv
        rw [show rdataNames z.cls rrType = compNames (V0.componentTypes z.cls rrType) from
          funext (rdataNames_v0 _ _)] at this
        simpa using this)
  split
  · exact safeX_pure () s hi trivial
  · split
    · rename_i h
      exact loop 0 (by rw [shape_ns z.cls rrType h]; right; left; exact ⟨rfl, rfl⟩)
    · split
      · rename_i h; subst h
        exact loop 2 (by rw [shape_mx]; right; right; left; rfl)
      · split
        · rename_i h; subst h
          exact loop 6 (shape_srv z.cls)
        · exact safeX_pure () s hi trivial

/-! ### negative answers -/

theorem addNegativeCachingSoa_two (z : Zone.Zone) (hz : ZoneOK z) (s : PS) (hi : W.I s.w) :
    SafeX (addNegativeCachingSoa z) s (fun _ _ => True) := by
  unfold addNegativeCachingSoa
  cases Zone.soa z with
  | none => exact safeX_fail _ s hi
  | some rrset =>
    simp only
    cases hrd : rrset.rdatas with
    | nil => exact safeX_fail _ s hi
    | cons rd rest =>
      simp only
      rcases readSoaMinimum_cases rd s with ⟨v, hv⟩ | hv
      · have prog : SafeX (PM.addRr1 .authority .none (unfold z.apex) (T "SOA") z.cls
            (Nat.min (ttlFrom v) rrset.ttl) rd) s (fun _ _ => True) :=
          (safeX_addRr1 hSI .authority .none (unfold z.apex) (T "SOA") z.cls _ rd s hi hz.apex_wf trivial).weaken
            (fun _ _ _ _ _ => trivial)
        refine safeX_congr (fun s' => ?_) prog
        have hv' := (stateFree_readSoaMinimum rd).transfer hv s'
        simp only [PM.bind_apply, hv']
      · have e : ∀ (k : Nat → PM Unit), (readSoaMinimum rd >>= k) s = (.err .servFail, s) := by
          intro k; simp only [PM.bind_apply, hv]
        exact safeX_err (e _) hi

/-! ### referrals -/

/-- the two `for (index, nsdname) in …` loops of `do_referral`: safe as long as the vector's entries
    stay valid anchors (`P`, stable under the anchors' monotonicity) -/
theorem glueLoop_two (z : Zone.Zone) (hz : ZoneOK z) (hv : HV) (optional : Bool) (P : State → Prop)
    (hPm : ∀ w w', P w → Mono W.Den w w' → P w') :
    ∀ (l : List (Nat × WName)),
      (∀ p ∈ l, ∀ w, P w → p.2.WF ∧ HintOK W.Den w (hintFrom hv p.1) p.2) →
      ∀ (s : PS), W.I s.w → P s.w → SafeX (glueLoop z hv optional l) s (fun _ w' => P w') := by
  intro l
  induction l with
  | nil => intro _ s hi hP; exact safeX_pure () s hi hP
  | cons p r ih =>
    intro hf s hi hP
    unfold glueLoop
    obtain ⟨hwf, hh⟩ := hf p (by simp) s.w hP
    exact safeX_bind (addAdditionalAddresses_two hSI z hz _ _ true optional s hi hwf hh)
      (fun _ s1 hi1 hm _ => ih (fun q hq => hf q (by simp [hq])) s1 hi1 (hPm _ _ hP hm))

theorem doReferral_two (z : Zone.Zone) (hz : ZoneOK z) (child : NameL.Name) (hcw : (unfold child).WF)
    (ns : Zone.Rrset) (hne : ns.rdatas ≠ []) (s : PS) (hi : W.I s.w) :
    SafeX (doReferral z child ns) s (fun _ _ => True) := by
  unfold doReferral
  refine safeX_bind (safeX_addRrs hSI false .authority .none (unfold child) (T "NS") z.cls ns.ttl
    ns.rdatas s hi hcw trivial hne) (fun hvo s1 hi1 _ hpost => ?_)
  -- the vector whose entries are used: the one returned, or none at all
  have hhv : HvOK W s1.w (hvo.getD []) (ns.rdatas.flatMap (rdataNames z.cls (T "NS"))) := by
    cases hvo with
    | none => intro i p h; simp at h
    | some v => exact (hpost v rfl).1
  rcases classifyNs_cases (unfold child) ns.rdatas [] s1 with ⟨g, a, hc, hall, hparse⟩ | hc
  · simp only [List.length_nil, List.nil_append] at hc hall
    have hint_ok : ∀ p ∈ g ++ a, ∀ w, HvOK W w (hvo.getD []) (ns.rdatas.flatMap (rdataNames z.cls (T "NS"))) →
        p.2.WF ∧ HintOK W.Den w (hintFrom (hvo.getD []) p.1) p.2 := by
      intro p hp w hs'
      obtain ⟨hwf, rd, hrd, hpr⟩ := hall p hp
      refine ⟨hwf, hintFrom_ok W hs' _ _ (fun n' hn' => ?_)⟩
      have hsing : ∀ rd ∈ ns.rdatas, ∃ n, rdataNames z.cls (T "NS") rd = [n] := by
        intro rd' hrd'
        obtain ⟨n, hn⟩ := hparse rd' hrd'
        exact ⟨n, by rw [rdataNames_v0, shape_ns z.cls _ (Or.inr (Or.inr (Or.inr rfl)))]; simp [compNames, hn]⟩
      obtain ⟨rd', hrd', hnames⟩ := flatMap_singletons_get _ _ hsing _ _ hn'
      rw [hrd] at hrd'; cases hrd'
      rw [rdataNames_v0] at hnames
      rw [shape_ns z.cls _ (Or.inr (Or.inr (Or.inr rfl)))] at hnames
      simp [compNames, hpr] at hnames
      exact hnames.symm
    have prog : SafeX (do
        glueLoop z (hvo.getD []) false g
        glueLoop z (hvo.getD []) true a : PM Unit) s1 (fun _ _ => True) := by
      refine safeX_bind (glueLoop_two hSI z hz (hvo.getD []) false
        (fun w => HvOK W w (hvo.getD []) (ns.rdatas.flatMap (rdataNames z.cls (T "NS"))))
        (fun _ _ h hm => h.mono W hm) g
        (fun p hp w hw => hint_ok p (List.mem_append.mpr (Or.inl hp)) w hw) s1 hi1 hhv)
        (fun _ s2 hi2 _ hs2 => ?_)
      exact (glueLoop_two hSI z hz (hvo.getD []) true
        (fun w => HvOK W w (hvo.getD []) (ns.rdatas.flatMap (rdataNames z.cls (T "NS"))))
        (fun _ _ h hm => h.mono W hm) a
        (fun p hp w hw => hint_ok p (List.mem_append.mpr (Or.inr hp)) w hw) s2 hi2 hs2).weaken
        (fun _ _ _ _ _ => trivial)
    refine safeX_congr (fun s' => ?_) prog
    have hc' := (stateFree_classifyNs (unfold child) ns.rdatas 0).transfer hc s'
    simp only [PM.bind_apply, hc']
  · simp only [List.length_nil] at hc
    have e : ∀ (k : List (Nat × WName) × List (Nat × WName) → PM Unit),
        (classifyNs (unfold child) ns.rdatas 0 >>= k) s1 = (.err .servFail, s1) := by
      intro k; simp only [PM.bind_apply, hc]
    exact safeX_err (e _) hi1

/-! ### CNAME chains -/

theorem followCname_two (z : Zone.Zone) (hz : ZoneOK z) (qname : WName) (hq : qname.WF) (rrType : Nat) :
    ∀ (fuel : Nat) (cn : Zone.Rrset) (os : List WName) (s : PS), W.I s.w → (∀ o ∈ os, o.WF) →
      ChainHint W s.w qname os →
      SafeX (followCname z qname rrType fuel cn os) s (fun _ _ => True) := by
  intro fuel
  induction fuel with
  | zero => intro cn os s hi _ _; exact safeX_fail _ s hi
  | succ fuel ih =>
    intro cn os s hi hos hch
    unfold followCname
    cases hrd : cn.rdatas with
    | nil => exact safeX_fail _ s hi
    | cons rd rest =>
      simp only
      cases hp : WName.parse rd with
      | none => exact safeX_fail _ s hi
      | some v =>
        obtain ⟨cname, rem⟩ := v
        cases rem with
        | cons a b => exact safeX_fail _ s hi
        | nil =>
          simp only
          have hcw : cname.WF := (parse_sound _ _ _ hp).1
          split
          · exact safeX_fail _ s hi
          · have hstep : ∀ (hint : Hint) (owner : WName), owner.WF → HintOK W.Den s.w hint owner →
                SafeX (PM.addRr1 .answer hint owner (T "CNAME") z.cls cn.ttl cname.wire) s
                  (fun _ w' => HintOK W.Den w' .mostRecentNameInRdata cname) := by
              intro hint owner how hho
              refine (safeX_addRr1 hSI .answer hint owner _ _ _ _ s hi how hho).weaken
                (fun _ w' _ _ h => h cname ?_)
              rw [rdataNames_cname z.cls cname hcw]; rfl
            have hrest : ∀ s1 : PS, W.I s1.w → HintOK W.Den s1.w .mostRecentNameInRdata cname →
                SafeX (match Zone.lookup z (fold cname) rrType ⟨false, false⟩ with
                  | .ok (.found found _) => do
                    let hv ← PM.addRrs false .answer .mostRecentNameInRdata cname rrType z.cls found.ttl found.rdatas
                    doAdditionalSectionProcessing z rrType found hv
                  | .ok (.cname next _) =>
                    if os.length < Gen.MAX_CNAME_CHAIN_LEN - 1 then
                      followCname z qname rrType fuel next (os ++ [cname])
                    else PM.fail .servFail
                  | .ok (.referral child ns) => doReferral z child ns
                  | .ok (.noRecords _) => addNegativeCachingSoa z
                  | .ok .nxDomain => do
                    PM.setRcode (RC "NXDOMAIN")
                    addNegativeCachingSoa z
                  | .ok .wrongZone => pure ()
                  | .err _ => pure ()
                  | .panic => PM.panic : PM Unit) s1 (fun _ _ => True) := by
              intro s1 hi1 hh1
              rcases lookup_cases z hz (fold cname) rrType ⟨false, false⟩ (fold_wf cname hcw) (fun h => by cases h)
                with ⟨h, _⟩ | ⟨r, sos, h, hne⟩ | ⟨r, sos, h, hne⟩ | ⟨c, ns, h, hne, hcwf⟩ | ⟨sos, h⟩ | h
              · rw [h]; exact safeX_pure () s1 hi1 trivial
              · rw [h]
                exact safeX_bind (safeX_addRrs hSI false .answer .mostRecentNameInRdata cname rrType
                  z.cls r.ttl r.rdatas s1 hi1 hcw hh1 hne)
                  (fun hv s2 hi2 _ hhv => doAdditionalSectionProcessing_two hSI z hz rrType r hv s2 hi2
                    (fun v hv' => (hhv v hv').1))
              · rw [h]
                simp only
                split
                · refine ih r (os ++ [cname]) s1 hi1 (fun o ho => ?_) ?_
                  · rcases List.mem_append.mp ho with ho | ho
                    · exact hos o ho
                    · simp at ho; subst ho; exact hcw
                  · unfold ChainHint; rw [List.getLast?_concat]; exact hh1
                · exact safeX_fail _ s1 hi1
              · rw [h]; exact doReferral_two hSI z hz c hcwf ns hne s1 hi1
              · rw [h]; exact addNegativeCachingSoa_two hSI z hz s1 hi1
              · rw [h]
                exact safeX_bind (safeX_setRcode hSI _ s1 hi1)
                  (fun _ s2 hi2 _ _ => addNegativeCachingSoa_two hSI z hz s2 hi2)
            unfold ChainHint at hch
            cases hgl : os.getLast? with
            | none =>
              rw [hgl] at hch
              simp only
              exact safeX_bind (hstep .qname qname hq hch) (fun _ s1 hi1 _ hh1 => hrest s1 hi1 hh1)
            | some o =>
              rw [hgl] at hch
              simp only
              exact safeX_bind (hstep .mostRecentNameInRdata o (hos o (List.mem_of_getLast? hgl)) hch)
                (fun _ s1 hi1 _ hh1 => hrest s1 hi1 hh1)

theorem doCname_two (z : Zone.Zone) (hz : ZoneOK z) (qname : WName) (hq : qname.WF) (cn : Zone.Rrset)
    (rrType : Nat) (s : PS) (hi : W.I s.w) (hh : HintOK W.Den s.w .qname qname) :
    SafeX (doCname z qname cn rrType) s (fun _ _ => True) := by
  unfold doCname
  exact safeX_bind (safeX_setAa hSI true s hi)
    (fun _ s1 hi1 hm _ => followCname_two hSI z hz qname hq rrType _ cn [] s1 hi1
      (fun o ho => by cases ho) (hintOK_qname_mono W hh hm))

/-! ### `answer`, `answer_any` -/

theorem answer_two (z : Zone.Zone) (hz : ZoneOK z) (qname : WName) (hq : qname.WF) (qtype : Nat)
    (hsub : z.apex <:+ fold qname) (s : PS) (hi : W.I s.w) (hh : HintOK W.Den s.w .qname qname) :
    SafeX (answer z qname qtype) s (fun _ _ => True) := by
  unfold answer
  have aa : ∀ (k : PM Unit), (∀ s1 : PS, W.I s1.w → Mono W.Den s.w s1.w → SafeX k s1 (fun _ _ => True)) →
      SafeX (do PM.setAa true; k : PM Unit) s (fun _ _ => True) := fun k hk =>
    safeX_bind (safeX_setAa hSI true s hi) (fun _ s1 hi1 hm _ => hk s1 hi1 hm)
  rcases lookup_cases z hz (fold qname) qtype ⟨true, false⟩ (fold_wf qname hq) (fun _ => hsub)
    with ⟨_, hu⟩ | ⟨r, sos, h, hne⟩ | ⟨r, sos, h, hne⟩ | ⟨c, ns, h, hne, hcwf⟩ | ⟨sos, h⟩ | h
  · cases hu
  · rw [h]
    exact aa _ (fun s1 hi1 hm =>
      safeX_bind (safeX_addRrs hSI false .answer .qname qname qtype z.cls r.ttl r.rdatas s1 hi1 hq
        (hintOK_qname_mono W hh hm) hne)
        (fun hv s2 hi2 _ hhv => doAdditionalSectionProcessing_two hSI z hz qtype r hv s2 hi2
          (fun v hv' => (hhv v hv').1)))
  · rw [h]; exact doCname_two hSI z hz qname hq r qtype s hi hh
  · rw [h]; exact doReferral_two hSI z hz c hcwf ns hne s hi
  · rw [h]; exact aa _ (fun s1 hi1 _ => addNegativeCachingSoa_two hSI z hz s1 hi1)
  · rw [h]
    exact safeX_bind (safeX_setRcode hSI _ s hi)
      (fun _ s1 hi1 _ _ => safeX_bind (safeX_setAa hSI true s1 hi1)
        (fun _ s2 hi2 _ _ => addNegativeCachingSoa_two hSI z hz s2 hi2))

theorem answerAnyLoop_two (z : Zone.Zone) (qname : WName) (hq : qname.WF) :
    ∀ (rrsets : List Zone.Rrset) (n : Nat) (s : PS), W.I s.w → HintOK W.Den s.w .qname qname →
      (∀ r ∈ rrsets, r.rdatas ≠ []) →
      SafeX (answerAnyLoop z qname rrsets n) s (fun _ _ => True) := by
  intro rrsets
  induction rrsets with
  | nil => intro n s hi _ _; exact safeX_pure n s hi trivial
  | cons r rest ih =>
    intro n s hi hh hne
    unfold answerAnyLoop
    exact safeX_bind (safeX_addRrs hSI false .answer .qname qname r.rtype z.cls r.ttl r.rdatas s hi hq hh
      (hne r (by simp)))
      (fun _ s1 hi1 hm _ => ih (n + 1) s1 hi1 (hintOK_qname_mono W hh hm) (fun x hx => hne x (by simp [hx])))

theorem answerAny_two (z : Zone.Zone) (hz : ZoneOK z) (qname : WName) (hq : qname.WF)
    (hsub : z.apex <:+ fold qname) (s : PS) (hi : W.I s.w) (hh : HintOK W.Den s.w .qname qname) :
    SafeX (answerAny z qname) s (fun _ _ => True) := by
  unfold answerAny
  rcases lookupAll_cases z hz (fold qname) (fold_wf qname hq) hsub
    with ⟨rrsets, sos, h, hne⟩ | ⟨c, ns, h, hne, hcwf⟩ | h
  · rw [h]
    refine safeX_bind (safeX_setAa hSI true s hi) (fun _ s1 hi1 hm _ => ?_)
    refine safeX_bind (answerAnyLoop_two hSI z qname hq rrsets 0 s1 hi1 (hintOK_qname_mono W hh hm) hne)
      (fun n s2 hi2 _ _ => ?_)
    split
    · exact addNegativeCachingSoa_two hSI z hz s2 hi2
    · exact safeX_pure () s2 hi2 trivial
  · rw [h]; exact doReferral_two hSI z hz c hcwf ns hne s hi
  · rw [h]
    exact safeX_bind (safeX_setRcode hSI _ s hi)
      (fun _ s1 hi1 _ _ => safeX_bind (safeX_setAa hSI true s1 hi1)
        (fun _ s2 hi2 _ _ => addNegativeCachingSoa_two hSI z hz s2 hi2))


/-! ### `handle_non_axfr_query` -/

/-- **the answering logic, with the two-run property** at every state that satisfies the writer's
    invariant and has a valid question hint -/
theorem inner_safeX (z : Zone.Zone) (hz : ZoneOK z) (qname : WName) (hq : qname.WF) (qtype : Nat)
    (hsub : z.apex <:+ fold qname) (s : PS) (hi : W.I s.w) (hh : HintOK W.Den s.w .qname qname) :
    SafeX (inner z qname qtype) s (fun _ _ => True) := by
  unfold ServerAnswer.inner
  split
  · exact answerAny_two hSI z hz qname hq hsub s hi hh
  · exact answer_two hSI z hz qname hq qtype hsub s hi hh


end leaves

end QV.ServerContent
