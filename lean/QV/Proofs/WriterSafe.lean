/-
  QV.Proofs.WriterSafe — the writer's theorems seen from a caller (interface used by C01/C02):
  the invariant `I` (C12's numeric invariant ∧ C13's anchor validity), the hint contract `Den`,
  and, call by call: no panic, `I` again, every valid anchor stays valid — whatever the call
  returns — plus which anchors / `HintPointerVec` entries are valid after a successful call.

  The definitions `HintOK … MacLenOK`, `WriterSafe` are those of `QV.Proofs.ServerWriter`
  (agent srvsafe), with `rdataNames` taken from `QV.Writer.rdataNames`.
-/
import QV.Proofs.WriterRecords
import QV.Proofs.WriterBudget

namespace QV.Writer
open QV QV.Wire

/-! ### the caller-visible invariant -/

/-- the part of the message that `clear_rrs` keeps (everything below `rr_start`) is
    self-contained: every label start recorded there begins a name stored below `rr_start`, and
    so does the QNAME anchor -/
structure QInv (s : State) : Prop where
  labs : ∀ g ∈ s.gLabels, g < s.rrStart → ∃ ls, NameAt (GL s) s.octets s.rrStart g ls
  qn : ∀ p, s.qname = some p → PriorOK (GL s) s.octets s.rrStart p

/-- the TSIG configuration is what `set_tsig` stored for well-formed arguments -/
def TsigOK (s : State) : Prop :=
  ∀ ts, s.tsig = some ts → ts.reservedLen = reservedLenOf ts.mode ts.rr ∧ ts.rr.keyName.WF ∧
    (tsigAlgName ts.mode).WF ∧ ts.rr.timeSigned.length = 6 ∧ ts.rr.serverTime.length = 6

/-- **the writer invariant** -/
structure I (s : State) : Prop where
  inv : Inv s
  winv : WInv s
  qinv : QInv s
  tsig : TsigOK s
  log : PtrLogOK s

/-- what a state transformation must keep for the structural invariants to carry over -/
structure Keeps (s s' : State) : Prop where
  stored : ∀ c, c ≤ s.cursor → ∀ p ls, NameAt (GL s) s.octets c p ls → NameAt (GL s') s'.octets c p ls
  cursor : s'.cursor = s.cursor
  rrStart : s'.rrStart = s.rrStart
  gl : s'.gLabels = s.gLabels
  qn : s'.qname = s.qname
  ow : s'.mostRecentOwner = s.mostRecentOwner
  rd : s'.mostRecentNameInRdata = s.mostRecentNameInRdata
  gp : s'.gPtrs = s.gPtrs
  cstored : ∀ g, CStored s g → CStored s' g

theorem ptrLog_keeps {s s' : State} (k : Keeps s s') (h : PtrLogOK s) : PtrLogOK s' := by
  intro x hx
  rw [k.gp] at hx
  obtain ⟨h1, h2, h3, h4, h5, ls, h6⟩ := h x hx
  refine ⟨h1, by rw [k.cursor]; exact h2, h3, h4, by rw [k.gl]; exact h5, ls, ?_⟩
  have := k.stored s.cursor (Nat.le_refl _) _ _ h6
  unfold StoredAt; rw [k.cursor]; exact this

theorem den_keeps {s s' : State} (k : Keeps s s') {p : Prior} {n : WName} (h : Den s p n) : Den s' p n := by
  obtain ⟨h1, h2, h3, ls, h4, h5⟩ := h
  refine ⟨h1, h2, h3, ls, ?_, h5⟩
  have := k.stored s.cursor (Nat.le_refl _) _ _ h4
  unfold StoredAt; rw [k.cursor]; exact this

theorem anchorOK_keeps {s s' : State} (k : Keeps s s') {a : Option Prior} (h : AnchorOK s a) :
    AnchorOK s' a := by
  intro p hp
  obtain ⟨h1, h2, ls, h3, h4⟩ := h p hp
  refine ⟨h1, h2, ls, ?_, h4⟩
  have := k.stored s.cursor (Nat.le_refl _) _ _ h3
  rw [k.cursor]; exact this

/-- structural invariants along a `Keeps` step whose numeric side is given by `Inv` -/
theorem i_keeps {s s' : State} (h : I s) (k : Keeps s s') (hinv : Inv s') (ht : TsigOK s') : I s' := by
  have w := h.winv
  refine ⟨hinv, ⟨hinv.hdr, hinv.cur_av, Nat.le_trans hinv.av_lim hinv.lim_size, by rw [k.gl]; exact w.g12, ?_,
    by rw [k.qn]; exact anchorOK_keeps k w.qn, by rw [k.ow]; exact anchorOK_keeps k w.ow,
    by rw [k.rd]; exact anchorOK_keeps k w.rd,
    fun g hg => k.cstored g (w.clabs g (by rw [← k.gl]; exact hg))⟩, ⟨?_, ?_⟩, ht, ptrLog_keeps k h.log⟩
  · intro g hg
    rw [k.gl] at hg
    obtain ⟨ls, hl⟩ := w.labs g hg
    refine ⟨ls, ?_⟩
    have := k.stored s.cursor (Nat.le_refl _) _ _ hl
    unfold StoredAt; rw [k.cursor]; exact this
  · intro g hg hlt
    rw [k.gl] at hg
    rw [k.rrStart] at hlt ⊢
    obtain ⟨ls, hl⟩ := h.qinv.labs g hg hlt
    exact ⟨ls, k.stored s.rrStart h.inv.rr_hi _ _ hl⟩
  · intro p hp
    rw [k.qn] at hp
    obtain ⟨ls, hl, hlen⟩ := h.qinv.qn p hp
    rw [k.rrStart]
    exact ⟨ls, k.stored s.rrStart h.inv.rr_hi _ _ hl, hlen⟩

/-- octets changed only inside the 12-octet header -/
theorem keeps_header {s : State} (h : WInv s) (o : Bytes) (hsz : o.size = s.octets.size)
    (hpre : ∀ i, 12 ≤ i → o[i]? = s.octets[i]?) : Keeps s { s with octets := o } := by
  refine ⟨?_, rfl, rfl, rfl, rfl, rfl, rfl, rfl, ?_⟩
  · intro c hc p ls hn
    exact nameAt_frame (lo := 12) hn (fun _ hx => hx) (fun x hx => h.g12 x hx) (fun i hi _ => hpre i hi)
      (Nat.le_refl _)
  · intro g ⟨ls, hn, hb⟩
    exact ⟨ls, nameAtC_frame (lo := 12) hn (fun _ hx => hx) (fun x hx => h.g12 x hx) (fun i hi _ => hpre i hi)
      (Nat.le_refl _), hb⟩

/-- nothing that names depend on changed -/
theorem keeps_same {s s' : State} (ho : s'.octets = s.octets) (hc : s'.cursor = s.cursor)
    (hr : s'.rrStart = s.rrStart) (hg : s'.gLabels = s.gLabels) (hq : s'.qname = s.qname)
    (how : s'.mostRecentOwner = s.mostRecentOwner)
    (hrd : s'.mostRecentNameInRdata = s.mostRecentNameInRdata) (hgp : s'.gPtrs = s.gPtrs := by rfl) :
    Keeps s s' := by
  have hG : GL s' = GL s := by unfold GL; rw [hg]
  refine ⟨?_, hc, hr, hg, hq, how, hrd, hgp, ?_⟩
  · intro c _ p ls hn
    rw [hG, ho]; exact hn
  · intro g ⟨ls, hn, hb⟩
    refine ⟨ls, ?_, hb⟩
    rw [hG, ho, hc]; exact hn

/-- octets changed only inside the header, everything else that names depend on untouched -/
theorem keeps_header' {s s' : State} (h : WInv s) (hpre : ∀ i, 12 ≤ i → s'.octets[i]? = s.octets[i]?)
    (hc : s'.cursor = s.cursor) (hr : s'.rrStart = s.rrStart) (hg : s'.gLabels = s.gLabels)
    (hq : s'.qname = s.qname) (how : s'.mostRecentOwner = s.mostRecentOwner)
    (hrd : s'.mostRecentNameInRdata = s.mostRecentNameInRdata) (hgp : s'.gPtrs = s.gPtrs := by rfl) :
    Keeps s s' := by
  have hG : GL s' = GL s := by unfold GL; rw [hg]
  refine ⟨?_, hc, hr, hg, hq, how, hrd, hgp, ?_⟩
  · intro c _ p ls hn
    rw [hG]
    exact nameAt_frame (lo := 12) hn (fun _ hx => hx) (fun x hx => h.g12 x hx) (fun i hi _ => hpre i hi)
      (Nat.le_refl _)
  · intro g ⟨ls, hn, hb⟩
    refine ⟨ls, ?_, hb⟩
    rw [hG, hc]
    exact nameAtC_frame (lo := 12) hn (fun _ hx => hx) (fun x hx => h.g12 x hx) (fun i hi _ => hpre i hi)
      (Nat.le_refl _)

end QV.Writer

/-! ## the interface (as in `QV.Proofs.ServerWriter`) -/

namespace QV.ServerSafety
open QV QV.Writer

/-- a hint is *valid* for the name it accompanies: the anchor it resolves to (if any) starts an
    earlier copy of that name -/
def HintOK (Den : State → Prior → WName → Prop) (s : State) : Hint → WName → Prop
  | .qname, n => ∀ q, s.qname = some q → Den s q n
  | .mostRecentOwner, n => ∀ q, s.mostRecentOwner = some q → Den s q n
  | .mostRecentNameInRdata, n => ∀ q, s.mostRecentNameInRdata = some q → Den s q n
  | .explicit p, n => p < s.cursor → Den s ⟨p, n.len⟩ n
  | .none, _ => True

theorem hintOK_iff (s : State) (h : Hint) (n : WName) : HintOK Writer.Den s h n ↔ Writer.HintOK s h n := by
  cases h <;> exact Iff.rfl

/-- the writer calls the server makes besides `add_question`, `clear_rrs` and `finish` -/
inductive Call where
  | setId (v : Nat) | setBit (byte mask : Nat) (v : Bool) | setOpcode (v : Nat) | setRcode (v : Nat)
  | setExtendedRcode (v : Nat) | setLimit (v : Nat) | setEdns (p : Nat)
  | setTsig (m : TsigMode) (rr : TsigRr)
  | addRr (sec : RrSection) (hint : Hint) (owner : WName) (ty cls ttl : Nat) (rdata : List UInt8)
  | addRrset (sec : RrSection) (hint : Hint) (owner : WName) (ty cls ttl : Nat)
      (rdatas : List (List UInt8))

def Call.run : Call → M Unit
  | .setId v => Writer.setId v
  | .setBit b m v => Writer.setBit b m v
  | .setOpcode v => Writer.setOpcode v
  | .setRcode v => Writer.setRcode v
  | .setExtendedRcode v => Writer.setExtendedRcode v
  | .setLimit v => Writer.setLimit v
  | .setEdns p => Writer.setEdns p
  | .setTsig m rr => Writer.setTsig m rr
  | .addRr sec h o ty cls ttl rd => addRrOp sec h o ty cls ttl rd
  | .addRrset sec h o ty cls ttl rds => addRrsetOp sec h o ty cls ttl rds

/-- the documented contract of each call -/
def Call.Pre (Den : State → Prior → WName → Prop) (s : State) : Call → Prop
  | .setBit b _ _ => b < Gen.HEADER_SIZE
  | .setLimit v => v ≤ 65535
  | .setTsig m rr => rr.keyName.WF ∧ (tsigAlgName m).WF ∧ rr.timeSigned.length = 6 ∧ rr.serverTime.length = 6
  | .addRr _ h o _ _ _ _ => o.WF ∧ HintOK Den s h o
  | .addRrset _ h o _ _ _ _ => o.WF ∧ HintOK Den s h o
  | _ => True

/-- what every call preserves of the anchors: the QNAME anchor itself, and the validity of every
    anchor that was valid -/
def Mono (Den : State → Prior → WName → Prop) (s s' : State) : Prop :=
  s'.qname = s.qname ∧ ∀ p n, Den s p n → Den s' p n

/-- the MAC handed back by the signing function fits the reservation made by `set_tsig` -/
def MacLenOK (macFn : Tsig → List UInt8 → List UInt8) : Prop :=
  ∀ ts msg, (macFn ts msg).length ≤
    (match ts.mode with
     | .request a _ => algOutputSize a
     | .response a _ _ => algOutputSize a
     | .subsequent a _ _ => algOutputSize a
     | .unsigned _ => 0)

/-- **Interface to the writer's theorems.** -/
structure WriterSafe where
  I : State → Prop
  Den : State → Prior → WName → Prop
  /-- the caller's `HintPointerVec` is not part of the writer -/
  I_hv : ∀ s v, I s → I { s with hv := v }
  Den_hv : ∀ s v p n, Den s p n → Den { s with hv := v } p n
  /-- a DNS message is at most 65535 octets: so are the limits the server asks for -/
  new_I : ∀ buf limit s, limit ≤ 65535 → Writer.new buf limit = .ok s → I s
  call : ∀ (c : Call) s, I s → c.Pre Den s →
    (c.run s).1 ≠ .panic ∧ I (c.run s).2 ∧ Mono Den s (c.run s).2
  addQuestion : ∀ qn qt qc s, I s → qn.WF →
    (Writer.addQuestion qn qt qc s).1 ≠ .panic ∧ I (Writer.addQuestion qn qt qc s).2 ∧
    (∀ p n, Den s p n → Den (Writer.addQuestion qn qt qc s).2 p n) ∧
    ((Writer.addQuestion qn qt qc s).1 = .ok () → s.sect = .question → s.qdcount = 0 →
      HintOK Den (Writer.addQuestion qn qt qc s).2 .qname qn)
  addRr_post : ∀ sec hint owner ty cls ttl rd s, I s → owner.WF → HintOK Den s hint owner →
    (addRrOp sec hint owner ty cls ttl rd s).1 = .ok () →
    HintOK Den (addRrOp sec hint owner ty cls ttl rd s).2 .mostRecentOwner owner ∧
    ∀ n, (rdataNames cls ty rd).getLast? = some n →
      HintOK Den (addRrOp sec hint owner ty cls ttl rd s).2 .mostRecentNameInRdata n
  addRrset_post : ∀ sec hint owner ty cls ttl rds s, I s → owner.WF → HintOK Den s hint owner →
    rds ≠ [] → (addRrsetOp sec hint owner ty cls ttl rds s).1 = .ok () →
    HintOK Den (addRrsetOp sec hint owner ty cls ttl rds s).2 .mostRecentOwner owner ∧
    (s.hv = some [] → ∀ v : List (Option Nat), (addRrsetOp sec hint owner ty cls ttl rds s).2.hv = some v →
      ∀ i p : Nat, v[i]? = some (some p) →
        ∃ n, (rds.flatMap (rdataNames cls ty))[i]? = some n ∧
          Den (addRrsetOp sec hint owner ty cls ttl rds s).2 ⟨p, n.len⟩ n)
  clearRrs_I : ∀ s, I s → I (clearRrs s).2
  finish : ∀ s macFn, I s → MacLenOK macFn → Writer.finish s macFn ≠ .panic

end QV.ServerSafety

namespace QV.Writer
open QV QV.Wire QV.ServerSafety

/-! ## the calls that do not write names -/

theorem call_of_keeps {f : M Unit} {s : State} (hI : I s) (hnp : (f s).1 ≠ .panic)
    (k : Keeps s (f s).2) (hinv : Inv (f s).2) (ht : TsigOK (f s).2) :
    (f s).1 ≠ .panic ∧ I (f s).2 ∧ Mono Den s (f s).2 :=
  ⟨hnp, i_keeps hI k hinv ht, k.qn, fun _ _ h => den_keeps k h⟩

theorem call_of_keeps' {r : Out WriterErr Unit × State} {s : State} (hI : I s) (hnp : r.1 ≠ .panic)
    (k : Keeps s r.2) (hinv : Inv r.2) (ht : TsigOK r.2) :
    r.1 ≠ .panic ∧ I r.2 ∧ Mono Den s r.2 :=
  ⟨hnp, i_keeps hI k hinv ht, k.qn, fun _ _ h => den_keeps k h⟩

theorem size12 {s : State} (h : Inv s) : 12 ≤ s.octets.size := by
  have := h.hdr; have := h.cur_av; have := h.av_lim; have := h.lim_size; omega

theorem safe_write_hdr (pos : Nat) (d : List UInt8) (hp : pos + d.length ≤ 12) (s : State) (hI : I s) :
    (write pos d s).1 ≠ .panic ∧ I (write pos d s).2 ∧ Mono Den s (write pos d s).2 := by
  have hs := size12 hI.inv
  have hinv := (total_write pos d s).2 hI.inv
  refine call_of_keeps hI ?_ ?_ hinv ?_
  · unfold write; rw [if_pos (by omega)]; simp
  · unfold write; rw [if_pos (by omega)]
    exact keeps_header' hI.winv (fun i hi => writeAt_get_ge _ _ _ _ (by omega)) rfl rfl rfl rfl rfl rfl
  · unfold write; rw [if_pos (by omega)]; exact hI.tsig

theorem safe_setHdr (i : Nat) (f : UInt8 → UInt8) (hi : i < 12) (s : State) (hI : I s) :
    (setHdr i f s).1 ≠ .panic ∧ I (setHdr i f s).2 ∧ Mono Den s (setHdr i f s).2 := by
  have hs := size12 hI.inv
  have hinv := (total_setHdr i f s).2 hI.inv
  have hlt : i < s.octets.size := by omega
  refine call_of_keeps hI ?_ ?_ hinv ?_
  · unfold setHdr; rw [dif_pos hlt]; simp
  · unfold setHdr; rw [dif_pos hlt]
    refine keeps_header' hI.winv (fun j hj => ?_) rfl rfl rfl rfl rfl rfl
    simp only [Array.getElem?_set]
    rw [if_neg (by omega)]
  · unfold setHdr; rw [dif_pos hlt]; exact hI.tsig


theorem safe_setRcode (v : Nat) (s : State) (hI : I s) :
    (setRcode v s).1 ≠ .panic ∧ I (setRcode v s).2 ∧ Mono Den s (setRcode v s).2 := by
  have hs := size12 hI.inv
  have hinv := (total_setRcode v s).2 hI.inv
  have hlt : Gen.RCODE_BYTE < s.octets.size := by show 3 < _; omega
  have hpre : ∀ (x : UInt8) (j : Nat), 12 ≤ j → (s.octets.set Gen.RCODE_BYTE x hlt)[j]? = s.octets[j]? := by
    intro x j hj
    simp only [Array.getElem?_set]
    rw [if_neg (by show ¬ 3 = j; omega)]
  unfold setRcode at hinv ⊢
  simp only [M.bind_apply, setHdr, dif_pos hlt, M.modify_apply] at hinv ⊢
  refine call_of_keeps' (r := (Out.ok (), _)) hI (by simp) ?_ hinv ?_
  · cases he : s.edns <;> simp only [he] <;>
      exact keeps_header' hI.winv (hpre _) rfl rfl rfl rfl rfl rfl
  · cases he : s.edns <;> simp only [he] <;> exact hI.tsig

theorem safe_setExtendedRcode (v : Nat) (s : State) (hI : I s) :
    (setExtendedRcode v s).1 ≠ .panic ∧ I (setExtendedRcode v s).2 ∧ Mono Den s (setExtendedRcode v s).2 := by
  have hs := size12 hI.inv
  have hinv := (clean_setExtendedRcode v s).2 hI.inv
  have hlt : Gen.RCODE_BYTE < s.octets.size := by show 3 < _; omega
  have hpre : ∀ (x : UInt8) (j : Nat), 12 ≤ j → (s.octets.set Gen.RCODE_BYTE x hlt)[j]? = s.octets[j]? := by
    intro x j hj
    simp only [Array.getElem?_set]
    rw [if_neg (by show ¬ 3 = j; omega)]
  unfold setExtendedRcode at hinv ⊢
  simp only [M.bind_apply, M.gets_apply] at hinv ⊢
  cases he : s.edns with
  | none =>
    simp only [he] at hinv ⊢
    exact ⟨by simp, hI, rfl, fun _ _ h => h⟩
  | some e =>
    simp only [he] at hinv ⊢
    by_cases hv : v > 4095
    · rw [if_pos hv] at hinv ⊢
      exact ⟨by simp, hI, rfl, fun _ _ h => h⟩
    · rw [if_neg hv] at hinv ⊢
      simp only [M.bind_apply, setHdr, dif_pos hlt, M.modify_apply] at hinv ⊢
      exact call_of_keeps' (r := (Out.ok (), _)) hI (by simp)
        (keeps_header' hI.winv (hpre _) rfl rfl rfl rfl rfl rfl) hinv hI.tsig

theorem safe_setLimit (v : Nat) (s : State) (hI : I s) :
    (setLimit v s).1 ≠ .panic ∧ I (setLimit v s).2 ∧ Mono Den s (setLimit v s).2 := by
  have h := hI.inv
  have h1 := h.hdr; have h2 := h.cur_av; have h3 := h.av_lim; have h4 := h.lim_size
  have hinv := (total_setLimit v s).2 hI.inv
  unfold setLimit at hinv ⊢
  dsimp only at hinv ⊢
  by_cases hge : v ≥ s.limit
  · rw [if_pos hge] at hinv ⊢
    rw [if_neg (by omega)] at hinv ⊢
    exact call_of_keeps' (r := (Out.ok (), _)) hI (by simp) (keeps_same rfl rfl rfl rfl rfl rfl rfl) hinv hI.tsig
  · rw [if_neg hge] at hinv ⊢
    rw [if_neg (by omega)] at hinv ⊢
    rw [if_neg (by omega)] at hinv ⊢
    rw [if_neg (by omega)] at hinv ⊢
    exact call_of_keeps' (r := (Out.ok (), _)) hI (by simp) (keeps_same rfl rfl rfl rfl rfl rfl rfl) hinv hI.tsig

theorem safe_setEdns (p : Nat) (s : State) (hI : I s) :
    (setEdns p s).1 ≠ .panic ∧ I (setEdns p s).2 ∧ Mono Den s (setEdns p s).2 := by
  have hinv := (clean_setEdns p s).2 hI.inv
  unfold setEdns at hinv ⊢
  repeat' split
  all_goals first
    | exact ⟨by simp, hI, rfl, fun _ _ h => h⟩
    | skip
  rename_i h1 h2 h3
  rw [if_neg h1, if_neg h2, if_neg h3] at hinv
  exact call_of_keeps' (r := (Out.ok (), _)) hI (by simp) (keeps_same rfl rfl rfl rfl rfl rfl rfl) hinv hI.tsig

theorem safe_setTsig (m : TsigMode) (rr : TsigRr) (s : State) (hI : I s)
    (hp : rr.keyName.WF ∧ (tsigAlgName m).WF ∧ rr.timeSigned.length = 6 ∧ rr.serverTime.length = 6) :
    (setTsig m rr s).1 ≠ .panic ∧ I (setTsig m rr s).2 ∧ Mono Den s (setTsig m rr s).2 := by
  have hinv := (clean_setTsig m rr s).2 hI.inv
  unfold setTsig at hinv ⊢
  repeat' split
  all_goals first
    | exact ⟨by simp, hI, rfl, fun _ _ h => h⟩
    | skip
  rename_i h1 h2 h3
  rw [if_neg h1, if_neg h2, if_neg h3] at hinv
  refine call_of_keeps' (r := (Out.ok (), _)) hI (by simp) (keeps_same rfl rfl rfl rfl rfl rfl rfl) hinv ?_
  intro ts hts
  simp only [Option.some.injEq] at hts
  subst hts
  exact ⟨rfl, hp.1, hp.2.1, hp.2.2.1, hp.2.2.2⟩


/-! ## the calls that write names -/

/-- a failed call leaves a state that is the same as far as names are concerned -/
theorem keeps_of_same {s s' : State} (e : Same s s') : Keeps s s' := by
  have hG : GL s' = GL s := by unfold GL; rw [e.gLabels]
  refine ⟨?_, e.cursor, e.rrStart, e.gLabels, e.qname, e.owner, e.inRdata, e.gPtrs, ?_⟩
  · intro c hc p ls hn
    rw [hG]
    exact nameAt_frame (lo := 0) hn (fun _ hx => hx) (fun _ _ => Nat.zero_le _)
      (fun i _ hi => e.pre i (by omega)) (Nat.le_refl _)
  · intro g ⟨ls, hn, hb⟩
    refine ⟨ls, ?_, hb⟩
    rw [hG, e.cursor]
    exact nameAtC_frame (lo := 0) hn (fun _ hx => hx) (fun _ _ => Nat.zero_le _)
      (fun i _ hi => e.pre i hi) (Nat.le_refl _)

theorem tsigOK_of_eq {s s' : State} (h : TsigOK s) (e : s'.tsig = s.tsig) : TsigOK s' := by
  intro ts hts; rw [e] at hts; exact h ts hts

theorem i_same {s s' : State} (h : I s) (e : Same s s') : I s' :=
  i_keeps h (keeps_of_same e) (inv_of_same h.inv e) (tsigOK_of_eq h.tsig e.tsig)

theorem mono_same {s s' : State} (e : Same s s') : Mono Den s s' :=
  ⟨e.qname, fun _ _ h => den_keeps (keeps_of_same e) h⟩

/-- the question part along an extension -/
theorem qinv_ext {s s' : State} (h : QInv s) (hi : Inv s) (e : Ext s s') (hq : s'.qname = s.qname) :
    QInv s' := by
  have hrr := hi.rr_hi
  constructor
  · intro g hg hlt
    rw [e.rrStart] at hlt ⊢
    have hgs : g ∈ s.gLabels := by
      rcases e.gnew g hg with h1 | h1
      · exact h1
      · omega
    obtain ⟨ls, hl⟩ := h.labs g hgs hlt
    exact ⟨ls, nameAt_frame (lo := 0) hl (fun x hx => e.glab x hx) (fun _ _ => Nat.zero_le _)
      (fun i _ hi' => e.pre i (by omega)) (Nat.le_refl _)⟩
  · intro p hp
    rw [hq] at hp
    obtain ⟨ls, hl, hlen⟩ := h.qn p hp
    rw [e.rrStart]
    exact ⟨ls, nameAt_frame (lo := 0) hl (fun x hx => e.glab x hx) (fun _ _ => Nat.zero_le _)
      (fun i _ hi' => e.pre i (by omega)) (Nat.le_refl _), hlen⟩

theorem recSt_init {s : State} (h : WInv s) (hl : PtrLogOK s) :
    RecSt (s.hv = some []) s s [] [] s.mostRecentOwner none := by
  refine ⟨h, Ext.refl s, ?_, (fun n hn => by cases hn), rfl, (fun n hn => by cases hn), rfl, hl⟩
  intro t v hv
  rw [t] at hv
  cases hv
  exact ⟨rfl, fun i p hp => by simp at hp⟩


theorem changeSection_gPtrs (sec : RrSection) (s : State) : (changeSection sec s).2.gPtrs = s.gPtrs := by
  unfold changeSection
  split <;> rfl

theorem changeSection_spec (sec : RrSection) (s : State) :
    (changeSection sec s).1 ≠ .panic ∧ (changeSection sec s).2.hv = s.hv ∧
    (changeSection sec s).2.qname = s.qname ∧
    (changeSection sec s).2.mostRecentOwner = s.mostRecentOwner ∧
    (changeSection sec s).2.mostRecentNameInRdata = s.mostRecentNameInRdata ∧
    (changeSection sec s).2.cursor = s.cursor ∧ (changeSection sec s).2.gLabels = s.gLabels := by
  unfold changeSection
  split <;> simp

/-- the counts do not matter for anything about names -/
theorem den_setCount (sec : RrSection) (n : Nat) (s : State) (p : Prior) (m : WName) :
    Den (setCount sec n s).2 p m ↔ Den s p m := by
  cases sec <;> exact Iff.rfl

theorem winv_setCount (sec : RrSection) (n : Nat) {s : State} (h : WInv s) : WInv (setCount sec n s).2 := by
  cases sec <;> exact ⟨h.c12, h.cur_av, h.av_size, h.g12, h.labs, h.qn, h.ow, h.rd, h.clabs⟩

theorem ptrLog_setCount (sec : RrSection) (n : Nat) {s : State} (h : PtrLogOK s) :
    PtrLogOK (setCount sec n s).2 := by
  cases sec <;> exact h

theorem qinv_setCount (sec : RrSection) (n : Nat) {s : State} (h : QInv s) : QInv (setCount sec n s).2 := by
  cases sec <;> exact ⟨h.labs, h.qn⟩

theorem setCount_fields (sec : RrSection) (n : Nat) (s : State) :
    (setCount sec n s).2.qname = s.qname ∧ (setCount sec n s).2.mostRecentOwner = s.mostRecentOwner ∧
    (setCount sec n s).2.mostRecentNameInRdata = s.mostRecentNameInRdata ∧
    (setCount sec n s).2.hv = s.hv ∧ (setCount sec n s).2.tsig = s.tsig ∧
    (setCount sec n s).2.cursor = s.cursor := by
  cases sec <;> simp [setCount]

theorem setCount_apply (sec : RrSection) (n : Nat) (s : State) :
    setCount sec n s = (.ok (), (setCount sec n s).2) := by
  cases sec <;> rfl

/-- everything about `add_*_rr` at once -/
theorem addRrOp_full (sec : RrSection) (hint : Hint) (owner : WName) (ty cls ttl : Nat)
    (rd : List UInt8) (s : State) (hI : I s) (hwf : owner.WF) (hh : Writer.HintOK s hint owner) :
    (addRrOp sec hint owner ty cls ttl rd s).1 ≠ .panic ∧ I (addRrOp sec hint owner ty cls ttl rd s).2 ∧
    Mono Den s (addRrOp sec hint owner ty cls ttl rd s).2 ∧
    ((addRrOp sec hint owner ty cls ttl rd s).1 = .ok () → ∃ s2 p n,
      RecSt (s.hv = some []) s s2 (rdataNames cls ty rd) (rdataNames cls ty rd) p (some owner) ∧
      (addRrOp sec hint owner ty cls ttl rd s).2 = (setCount sec n s2).2) := by
  have hcases := addRrOp_cases sec hint owner ty cls ttl rd s
  -- no panic and the shape of a successful run, from the triples
  obtain ⟨c1, c2, c3, c4, c5, c6, c7⟩ := changeSection_spec sec s
  have hfr1 := frame_changeSection sec s
  have h1 : RecSt (s.hv = some []) s (changeSection sec s).2 [] [] s.mostRecentOwner none := by
    have w1 : WInv (changeSection sec s).2 := winv_ext hI.winv hfr1 c7 c3 c4 c5
    have r0 := recSt_init hI.winv hI.log
    exact recSt_step r0 hfr1 w1 c2 c5 c4 c3 (changeSection_gPtrs sec s)
  have hh1 : Writer.HintOK (changeSection sec s).2 hint owner := hintOK_ext hh hfr1 c3 c4 c5 c6
  obtain ⟨hnp2, hok2⟩ := sp_addRr (track := s.hv = some []) (s0 := s) (names := []) hint owner ty cls
    (ttlFrom ttl) rd hwf (changeSection sec s).2 ⟨[], _, none, h1, hh1⟩
  unfold addRrOp at hcases ⊢
  rw [withRollback_apply] at hcases ⊢
  simp only [M.bind_apply] at hcases ⊢
  cases hcs : changeSection sec s with
  | mk r1 s1 =>
    rw [hcs] at c1 hnp2 hok2 hcases
    cases r1 with
    | panic => exact absurd rfl c1
    | err e =>
      simp only [] at hcases ⊢
      exact ⟨by simp, i_same hI hcases, mono_same hcases, fun h => by cases h⟩
    | ok u1 =>
      simp only [] at hcases ⊢
      cases har : addRr hint owner ty cls (ttlFrom ttl) rd s1 with
      | mk r2 s2 =>
        rw [har] at hnp2 hok2 hcases
        cases r2 with
        | panic => exact absurd rfl hnp2
        | err e =>
          simp only [] at hcases ⊢
          exact ⟨by simp, i_same hI hcases, mono_same hcases, fun h => by cases h⟩
        | ok u2 =>
          obtain ⟨p, hrec⟩ := hok2 u2 s2 rfl
          simp only [List.nil_append] at hrec
          simp only [M.gets_apply] at hcases ⊢
          by_cases hc : getCount sec s2 + 1 > 65535
          · rw [if_pos hc] at hcases ⊢
            simp only [M.fail_apply] at hcases ⊢
            exact ⟨by simp, i_same hI hcases, mono_same hcases, fun h => by cases h⟩
          · rw [if_neg hc] at hcases ⊢
            rw [setCount_apply] at hcases ⊢
            simp only [] at hcases ⊢
            obtain ⟨s2', e2, hn, heq⟩ := hcases
            have hinv : Inv (setCount sec (getCount sec s2 + 1) s2).2 :=
              inv_setCount (inv_of_ext hI.inv hrec.ext) sec 1 (by omega)
            obtain ⟨f1, f2, f3, f4, f5, f6⟩ := setCount_fields sec (getCount sec s2 + 1) s2
            refine ⟨by simp, ⟨hinv, winv_setCount _ _ hrec.winv,
              qinv_setCount _ _ (qinv_ext hI.qinv hI.inv hrec.ext hrec.qn),
              tsigOK_of_eq hI.tsig (by rw [f5, hrec.ext.tsig]), ptrLog_setCount _ _ hrec.log⟩, ⟨by rw [f1]; exact hrec.qn,
              fun q m hd => (den_setCount _ _ _ _ _).mpr (den_ext hrec.ext hd)⟩,
              fun _ => ⟨s2, p, _, hrec, rfl⟩⟩


/-- everything about `add_*_rrset` at once -/
theorem addRrsetOp_full (sec : RrSection) (hint : Hint) (owner : WName) (ty cls ttl : Nat)
    (rds : List (List UInt8)) (s : State) (hI : I s) (hwf : owner.WF) (hh : Writer.HintOK s hint owner) :
    (addRrsetOp sec hint owner ty cls ttl rds s).1 ≠ .panic ∧ I (addRrsetOp sec hint owner ty cls ttl rds s).2 ∧
    Mono Den s (addRrsetOp sec hint owner ty cls ttl rds s).2 ∧
    ((addRrsetOp sec hint owner ty cls ttl rds s).1 = .ok () → ∃ s2 loc p on n,
      RecSt (s.hv = some []) s s2 (rds.flatMap (rdataNames cls ty)) loc p on ∧
      (rds ≠ [] → on = some owner) ∧
      (addRrsetOp sec hint owner ty cls ttl rds s).2 = (setCount sec n s2).2) := by
  have hcases := addRrsetOp_cases sec hint owner ty cls ttl rds s
  obtain ⟨c1, c2, c3, c4, c5, c6, c7⟩ := changeSection_spec sec s
  have hfr1 := frame_changeSection sec s
  have h1 : RecSt (s.hv = some []) s (changeSection sec s).2 [] [] s.mostRecentOwner none := by
    have w1 : WInv (changeSection sec s).2 := winv_ext hI.winv hfr1 c7 c3 c4 c5
    have r0 := recSt_init hI.winv hI.log
    exact recSt_step r0 hfr1 w1 c2 c5 c4 c3 (changeSection_gPtrs sec s)
  have hh1 : Writer.HintOK (changeSection sec s).2 hint owner := hintOK_ext hh hfr1 c3 c4 c5 c6
  obtain ⟨hnp2, hok2⟩ := sp_addRrset (track := s.hv = some []) (s0 := s) owner ty cls (ttlFrom ttl) hwf rds
    hint 0 [] none (changeSection sec s).2 ⟨[], _, h1, hh1⟩
  unfold addRrsetOp at hcases ⊢
  rw [withRollback_apply] at hcases ⊢
  simp only [M.bind_apply] at hcases ⊢
  cases hcs : changeSection sec s with
  | mk r1 s1 =>
    rw [hcs] at c1 hnp2 hok2 hcases
    cases r1 with
    | panic => exact absurd rfl c1
    | err e =>
      simp only [] at hcases ⊢
      exact ⟨by simp, i_same hI hcases, mono_same hcases, fun h => by cases h⟩
    | ok u1 =>
      simp only [] at hcases ⊢
      cases har : addRrset hint owner ty cls (ttlFrom ttl) rds 0 s1 with
      | mk r2 s2 =>
        rw [har] at hnp2 hok2 hcases
        cases r2 with
        | panic => exact absurd rfl hnp2
        | err e =>
          simp only [] at hcases ⊢
          exact ⟨by simp, i_same hI hcases, mono_same hcases, fun h => by cases h⟩
        | ok n =>
          obtain ⟨loc, p, on, hrec, hon, _⟩ := hok2 n s2 rfl
          simp only [List.nil_append] at hrec
          simp only [M.gets_apply] at hcases ⊢
          by_cases hn : n > 65535
          · rw [if_pos hn] at hcases ⊢
            simp only [M.fail_apply] at hcases ⊢
            exact ⟨by simp, i_same hI hcases, mono_same hcases, fun h => by cases h⟩
          · rw [if_neg hn] at hcases ⊢
            by_cases hc : getCount sec s2 + n > 65535
            · rw [if_pos hc] at hcases ⊢
              simp only [M.fail_apply] at hcases ⊢
              exact ⟨by simp, i_same hI hcases, mono_same hcases, fun h => by cases h⟩
            · rw [if_neg hc] at hcases ⊢
              rw [setCount_apply] at hcases ⊢
              simp only [] at hcases ⊢
              have hinv : Inv (setCount sec (getCount sec s2 + n) s2).2 :=
                inv_setCount (inv_of_ext hI.inv hrec.ext) sec n (by omega)
              obtain ⟨f1, f2, f3, f4, f5, f6⟩ := setCount_fields sec (getCount sec s2 + n) s2
              refine ⟨by simp, ⟨hinv, winv_setCount _ _ hrec.winv,
                qinv_setCount _ _ (qinv_ext hI.qinv hI.inv hrec.ext hrec.qn),
                tsigOK_of_eq hI.tsig (by rw [f5, hrec.ext.tsig]), ptrLog_setCount _ _ hrec.log⟩, ⟨by rw [f1]; exact hrec.qn,
                fun q m hd => (den_setCount _ _ _ _ _).mpr (den_ext hrec.ext hd)⟩,
                fun _ => ⟨s2, loc, p, on, _, hrec, hon, rfl⟩⟩


theorem addQuestionBody_spec (qn : WName) (qt qc : Nat) (s : State) (hw : WInv s) (hwf : qn.WF) :
    (addQuestionBody qn qt qc s).1 ≠ .panic ∧
    ((addQuestionBody qn qt qc s).1 = .ok () → WInv (addQuestionBody qn qt qc s).2 ∧
      (s.qdcount = 0 → ∀ q, (addQuestionBody qn qt qc s).2.qname = some q →
        Den (addQuestionBody qn qt qc s).2 q qn) ∧
      (s.qdcount ≠ 0 → (addQuestionBody qn qt qc s).2.qname = s.qname) ∧
      (PtrLogOK s → PtrLogOK (addQuestionBody qn qt qc s).2)) := by
  unfold addQuestionBody
  simp only [M.bind_apply, setCtx, M.modify_apply]
  have e1 := ext_setCtx s .qname
  have w1 : WInv { s with gCtx := .qname } := winv_ext hw e1 rfl rfl rfl rfl
  have hs := writeUnhintedName_spec qn _ w1 hwf
  have hf := frame_writeUnhintedName qn { s with gCtx := .qname }
  cases hwr : writeUnhintedName qn { s with gCtx := .qname } with
  | mk r s2 =>
    rw [hwr] at hs hf
    cases r with
    | panic => exact absurd rfl hs.nopanic
    | err e => exact ⟨by simp, fun h => by cases h⟩
    | ok p =>
      obtain ⟨hw2, hden, hq, ho, hr, _, _⟩ := hs.ok p rfl
      simp only []
      have hqd : s2.qdcount = s.qdcount := hf.qd
      -- the state after the QNAME anchor is (possibly) set
      generalize hs4 : (if ({ s2 with gCtx := NameCtx.none } : State).qdcount = 0
          then { ({ s2 with gCtx := NameCtx.none } : State) with qname := p }
          else { s2 with gCtx := NameCtx.none }) = s4
      have e24 : Ext s2 s4 := by
        rw [← hs4]
        by_cases h0 : ({ s2 with gCtx := NameCtx.none } : State).qdcount = 0
        · rw [if_pos h0]; constructor <;> simp
        · rw [if_neg h0]; constructor <;> simp
      have hw4 : WInv s4 := by
        have w := winv_ext (s' := { s2 with gCtx := NameCtx.none }) hw2 (by constructor <;> simp) rfl rfl rfl rfl
        rw [← hs4]
        by_cases h0 : ({ s2 with gCtx := NameCtx.none } : State).qdcount = 0
        · rw [if_pos h0]
          exact ⟨w.c12, w.cur_av, w.av_size, w.g12, w.labs, den_anchorOK hden, w.ow, w.rd, w.clabs⟩
        · rw [if_neg h0]; exact w
      have hs4q : (s.qdcount = 0 → s4.qname = p) ∧ (s.qdcount ≠ 0 → s4.qname = s2.qname) := by
        rw [← hs4]
        constructor
        · intro h0
          rw [if_pos (by show s2.qdcount = 0; rw [hqd]; exact h0)]
        · intro h0
          rw [if_neg (by show ¬ s2.qdcount = 0; rw [hqd]; exact h0)]
      have hq4 : (s.qdcount = 0 → ∀ q, s4.qname = some q → Den s4 q qn) ∧ (s.qdcount ≠ 0 → s4.qname = s.qname) := by
        constructor
        · intro h0 q hq'
          rw [hs4q.1 h0] at hq'
          exact den_ext e24 (hden q hq')
        · intro h0
          rw [hs4q.2 h0]; exact hq
      -- the two 16-bit fields
      have hav4 := hw4.cur_av; have hsz4 := hw4.av_size
      unfold tryPushU16
      rw [tryPush_eq' _ s4 hav4 hsz4]
      by_cases hf1 : (u16be qt).length ≤ s4.available - s4.cursor
      · rw [if_pos hf1]
        simp only []
        have w5 : WInv (pushed s4 (u16be qt)) := winv_push hw4 (u16be qt) hf1
        have e45 : Ext s4 (pushed s4 (u16be qt)) := ext_push s4 (u16be qt) (by omega)
        rw [tryPush_eq' _ _ w5.cur_av w5.av_size]
        by_cases hf2 : (u16be qc).length ≤ (pushed s4 (u16be qt)).available - (pushed s4 (u16be qt)).cursor
        · rw [if_pos hf2]
          have w6 : WInv (pushed (pushed s4 (u16be qt)) (u16be qc)) := winv_push w5 (u16be qc) hf2
          have e56 : Ext (pushed s4 (u16be qt)) (pushed (pushed s4 (u16be qt)) (u16be qc)) :=
            ext_push _ (u16be qc) (by have := w5.cur_av; omega)
          refine ⟨by simp, fun _ => ⟨w6, ?_, ?_, ?_⟩⟩
          · intro h0 q hq'
            exact den_ext (Ext.trans e45 e56) (hq4.1 h0 q hq')
          · intro h0
            exact hq4.2 h0
          · intro hl
            have l2 := hs.log p rfl (ptrLog_ext hl e1 rfl)
            have hgp4 : s4.gPtrs = s2.gPtrs := by
              rw [← hs4]
              by_cases h0 : ({ s2 with gCtx := NameCtx.none } : State).qdcount = 0
              · rw [if_pos h0]
              · rw [if_neg h0]
            exact ptrLog_ext (ptrLog_ext (ptrLog_ext l2 e24 hgp4) e45 rfl) e56 rfl
        · rw [if_neg hf2]; exact ⟨by simp, fun h => by cases h⟩
      · rw [if_neg hf1]; exact ⟨by simp, fun h => by cases h⟩


theorem addQuestion_full (qn : WName) (qt qc : Nat) (s : State) (hI : I s) (hwf : qn.WF) :
    (addQuestion qn qt qc s).1 ≠ .panic ∧ I (addQuestion qn qt qc s).2 ∧
    (∀ p n, Den s p n → Den (addQuestion qn qt qc s).2 p n) ∧
    ((addQuestion qn qt qc s).1 = .ok () → s.sect = .question → s.qdcount = 0 →
      ∀ q, (addQuestion qn qt qc s).2.qname = some q → Den (addQuestion qn qt qc s).2 q qn) := by
  have hstep := addQuestion_step ⟨s, []⟩ qn qt qc
  simp only [liftW] at hstep
  obtain ⟨hb1, hb2⟩ := addQuestionBody_spec qn qt qc s hI.winv hwf
  have hfr := frame_addQuestionBody qn qt qc s
  unfold addQuestion at hstep ⊢
  simp only [M.bind_apply, M.gets_apply] at hstep ⊢
  by_cases h1 : s.sect ≠ .question
  · rw [if_pos h1] at hstep ⊢
    exact ⟨by simp, hI, fun _ _ h => h, fun h => by cases h⟩
  · rw [if_neg h1] at hstep ⊢
    by_cases h2 : s.qdcount + 1 > 65535
    · rw [if_pos h2] at hstep ⊢
      exact ⟨by simp, hI, fun _ _ h => h, fun h => by cases h⟩
    · rw [if_neg h2] at hstep ⊢
      simp only [M.bind_apply, withRollback_apply, M.modify_apply] at hstep ⊢
      cases hb : addQuestionBody qn qt qc s with
      | mk r s3 =>
        rw [hb] at hb1 hb2 hfr hstep
        cases r with
        | panic => exact absurd rfl hb1
        | err e =>
          simp only [] at hstep ⊢
          have hsame : Same s (restore s s3) := same_restore hfr
          exact ⟨by simp, i_same hI hsame, fun _ _ h => den_keeps (keeps_of_same hsame) h, fun h => by cases h⟩
        | ok u =>
          simp only [] at hstep ⊢
          obtain ⟨hw3, hq0, hq1, hlg⟩ := hb2 rfl
          have hinv := hstep.1 hI.inv
          have hrr : s3.rrStart = s.rrStart := hfr.rrStart
          refine ⟨by simp, ⟨hinv, ⟨hw3.c12, hw3.cur_av, hw3.av_size, hw3.g12, hw3.labs, hw3.qn, hw3.ow, hw3.rd, hw3.clabs⟩,
            ⟨fun g hg _ => hw3.labs g hg, fun p hp => (hw3.qn p hp).2.2⟩,
            tsigOK_of_eq hI.tsig hfr.tsig, hlg hI.log⟩, fun p n hd => den_ext hfr hd, ?_⟩
          intro _ _ hqd q hq'
          exact hq0 hqd q hq'


/-! ## `finish` -/

/-- a record of a type without name components, written without a hint into enough room, succeeds -/
theorem addRr_nameless_ok (owner : WName) (ty cls ttl : Nat) (rd : List UInt8) (s : State)
    (hw : WInv s) (hl : PtrLogOK s) (hwf : owner.WF) (hct : componentTypes cls ty = some [])
    (hroom : s.cursor + rrLen owner rd ≤ s.available) :
    ∃ s', addRr .none owner ty cls ttl rd s = (.ok (), s') ∧ WInv s' ∧ Ext s s' ∧
      s'.cursor ≤ s.cursor + rrLen owner rd ∧ PtrLogOK s' := by
  obtain ⟨hnp, hok⟩ := sp_addRr (track := s.hv = some []) (s0 := s) (names := []) .none owner ty cls ttl rd hwf s
    ⟨[], _, none, recSt_init hw hl, trivial⟩
  have hot := onlyTrunc_addRr_nameless owner ty cls ttl rd hct s
  obtain ⟨hb1, hb2⟩ := bud_addRr .none owner ty cls ttl rd s
  cases har : addRr .none owner ty cls ttl rd s with
  | mk r s' =>
    rw [har] at hnp hot hb1
    cases r with
    | panic => exact absurd rfl hnp
    | err e =>
      have := hot e rfl
      subst this
      have := hb1 rfl
      omega
    | ok u =>
      obtain ⟨p, hrec⟩ := hok u s' har
      exact ⟨s', rfl, hrec.winv, hrec.ext, (hb2 u s' har).1, hrec.log⟩

theorem root_wf : WName.root.WF := by
  constructor
  · intro l hl; cases hl
  · decide

theorem componentTypes_opt (cls : Nat) : componentTypes cls T_OPT = some [] :=
  componentTypes_unknown cls T_OPT (by decide)

theorem componentTypes_tsig (cls : Nat) : componentTypes cls T_TSIG = some [] :=
  componentTypes_unknown cls T_TSIG (by decide)


theorem write_hdr_ok (pos : Nat) (d : List UInt8) (hp : pos + d.length ≤ 12) (s : State) (hI : I s) :
    write pos d s = (.ok (), { s with octets := writeAt s.octets pos d }) ∧
    I { s with octets := writeAt s.octets pos d } := by
  have hs := size12 hI.inv
  have h2 := (safe_write_hdr pos d hp s hI).2.1
  unfold write at h2 ⊢
  rw [if_pos (by omega)] at h2 ⊢
  exact ⟨rfl, h2⟩

theorem finishCounts_spec (a b c d : Nat) (s : State) (hI : I s) :
    ∃ o, finishCounts a b c d s = (.ok (), { s with octets := o }) ∧ I { s with octets := o } ∧
      o.size = s.octets.size := by
  unfold finishCounts
  simp only [M.bind_apply]
  obtain ⟨e1, i1⟩ := write_hdr_ok Gen.QDCOUNT_START (u16be a) (by show _ + 2 ≤ 12; decide) s hI
  rw [e1]
  simp only []
  obtain ⟨e2, i2⟩ := write_hdr_ok Gen.ANCOUNT_START (u16be b) (by show _ + 2 ≤ 12; decide) _ i1
  rw [e2]
  simp only []
  obtain ⟨e3, i3⟩ := write_hdr_ok Gen.NSCOUNT_START (u16be c) (by show _ + 2 ≤ 12; decide) _ i2
  rw [e3]
  simp only []
  obtain ⟨e4, i4⟩ := write_hdr_ok Gen.ARCOUNT_START (u16be d) (by show _ + 2 ≤ 12; decide) _ i3
  rw [e4]
  exact ⟨_, rfl, i4, by simp⟩


/-- raising `available` (undoing a reservation) keeps the name invariants -/
theorem winv_raise {s : State} (h : WInv s) (k : Nat) (hk : s.available + k ≤ s.octets.size)
    (ts : Option Tsig) : WInv { s with available := s.available + k, tsig := ts } :=
  ⟨h.c12, by have := h.cur_av; show s.cursor ≤ s.available + k; omega, hk, h.g12, h.labs, h.qn, h.ow, h.rd, h.clabs⟩

theorem finishOpt_spec (s : State) (hw : WInv s) (hl : PtrLogOK s) (k : Nat)
    (hroom : ∀ e, s.edns = some e → s.available + Gen.OPT_RECORD_SIZE + k ≤ s.octets.size)
    (hk : s.available + k ≤ s.octets.size) :
    ∃ s', finishOpt s.edns s = (.ok (), s') ∧ WInv s' ∧ s'.available + k ≤ s'.octets.size ∧
      s'.tsig = s.tsig ∧ PtrLogOK s' := by
  unfold finishOpt
  cases he : s.edns with
  | none => exact ⟨s, rfl, hw, hk, rfl, hl⟩
  | some e =>
    simp only [M.bind_apply, M.modify_apply]
    have h11 : Gen.OPT_RECORD_SIZE = 11 := rfl
    have hr := hroom e he
    have w1 : WInv { s with available := s.available + Gen.OPT_RECORD_SIZE } := by
      have := winv_raise hw Gen.OPT_RECORD_SIZE (by omega) s.tsig
      exact this
    have hlen : rrLen WName.root [] = 11 := by decide
    obtain ⟨s', h1, h2, h3, h4, h5⟩ := addRr_nameless_ok WName.root T_OPT e.payload
      ((e.upper * 16777216) % 4294967296) [] _ w1 hl root_wf (componentTypes_opt _)
      (by show s.cursor + rrLen WName.root [] ≤ s.available + Gen.OPT_RECORD_SIZE; have := hw.cur_av; omega)
    unfold unwrap
    rw [h1]
    refine ⟨s', rfl, h2, ?_, h3.tsig, h5⟩
    rw [h3.available, h3.size]
    show s.available + Gen.OPT_RECORD_SIZE + k ≤ s.octets.size
    exact hr

theorem tsigRdata_length (rr : TsigRr) (alg : WName) (mac : List UInt8) (h6 : rr.timeSigned.length = 6)
    (h6' : rr.serverTime.length = 6) :
    (tsigRdata rr alg mac).length =
      alg.wire.length + 16 + mac.length + (if rr.error = XR_BADTIME then 6 else 0) := by
  unfold tsigRdata
  have : ∀ n, (u16be n).length = 2 := fun _ => rfl
  by_cases hb : rr.error = XR_BADTIME
  · simp [hb, this, h6, h6']; omega
  · simp [hb, this, h6]; omega

theorem finishTsig_tail (s : State) (hw : WInv s) (hl : PtrLogOK s) (ts : Tsig) (mac : Option (List UInt8))
    (hkey : ts.rr.keyName.WF) (ht6 : ts.rr.timeSigned.length = 6) (hs6 : ts.rr.serverTime.length = 6)
    (hroom : s.available + ts.reservedLen ≤ s.octets.size)
    (hlen : (mac.getD []).length + (tsigAlgName ts.mode).wire.length + 26 +
      (if ts.rr.error = XR_BADTIME then 6 else 0) + ts.rr.keyName.wire.length ≤ ts.reservedLen) :
    ∃ len s', (do
      M.modify fun s => { s with tsig := none, available := s.available + ts.reservedLen }
      unwrap (addRr .none ts.rr.keyName T_TSIG QC_ANY (ttlFrom 0)
        (tsigRdata ts.rr (tsigAlgName ts.mode) (mac.getD [])))
      let len ← M.gets (·.cursor)
      pure (len, mac) : M (Nat × Option (List UInt8))) s = (.ok (len, mac), s') ∧ PtrLogOK s' := by
  simp only [M.bind_apply, M.modify_apply]
  have w3 : WInv { s with tsig := none, available := s.available + ts.reservedLen } :=
    winv_raise hw ts.reservedLen hroom none
  have hrl := tsigRdata_length ts.rr (tsigAlgName ts.mode) (mac.getD []) ht6 hs6
  obtain ⟨s', h1, _, _, _, hl'⟩ := addRr_nameless_ok ts.rr.keyName T_TSIG QC_ANY (ttlFrom 0)
    (tsigRdata ts.rr (tsigAlgName ts.mode) (mac.getD [])) _ w3 hl hkey (componentTypes_tsig _)
    (by
      show s.cursor + rrLen ts.rr.keyName _ ≤ s.available + ts.reservedLen
      unfold rrLen
      rw [hrl]
      have := hw.cur_av
      omega)
  unfold unwrap
  rw [h1]
  exact ⟨_, _, rfl, hl'⟩

theorem finishTsig_spec (macFn : Tsig → List UInt8 → List UInt8) (hmac : MacLenOK macFn) (s : State)
    (hw : WInv s) (hl : PtrLogOK s) (ts : Tsig) (hts : s.tsig = some ts)
    (hok : ts.reservedLen = reservedLenOf ts.mode ts.rr ∧ ts.rr.keyName.WF ∧
      (tsigAlgName ts.mode).WF ∧ ts.rr.timeSigned.length = 6 ∧ ts.rr.serverTime.length = 6)
    (hroom : s.available + ts.reservedLen ≤ s.octets.size) :
    ∃ r s', finishTsig macFn s.tsig s = (.ok r, s') ∧ PtrLogOK s' := by
  obtain ⟨hres, hkey, _, ht6, hs6⟩ := hok
  unfold finishTsig
  rw [hts]
  simp only [M.bind_apply, M.gets_apply]
  have hcs : ¬ s.cursor > s.octets.size := by have := hw.cur_av; have := hw.av_size; omega
  rw [if_neg hcs]
  simp only []
  have hm := hmac ts (s.octets.extract 0 s.cursor).toList
  cases hmode : ts.mode with
  | request a k =>
    rw [hmode] at hm
    simp only []
    obtain ⟨len, s', h, hl'⟩ := finishTsig_tail s hw hl ts (some (macFn ts (s.octets.extract 0 s.cursor).toList))
      hkey ht6 hs6 hroom (by
        rw [hres, hmode]
        simp only [reservedLenOf, signedLen, unsignedLen, tsigAlgName, Option.getD_some] at hm ⊢
        omega)
    rw [hmode] at h
    exact ⟨_, _, h, hl'⟩
  | response a m k =>
    rw [hmode] at hm
    simp only []
    obtain ⟨len, s', h, hl'⟩ := finishTsig_tail s hw hl ts (some (macFn ts (s.octets.extract 0 s.cursor).toList))
      hkey ht6 hs6 hroom (by
        rw [hres, hmode]
        simp only [reservedLenOf, signedLen, unsignedLen, tsigAlgName, Option.getD_some] at hm ⊢
        omega)
    rw [hmode] at h
    exact ⟨_, _, h, hl'⟩
  | subsequent a m k =>
    rw [hmode] at hm
    simp only []
    obtain ⟨len, s', h, hl'⟩ := finishTsig_tail s hw hl ts (some (macFn ts (s.octets.extract 0 s.cursor).toList))
      hkey ht6 hs6 hroom (by
        rw [hres, hmode]
        simp only [reservedLenOf, signedLen, unsignedLen, tsigAlgName, Option.getD_some] at hm ⊢
        omega)
    rw [hmode] at h
    exact ⟨_, _, h, hl'⟩
  | unsigned n =>
    simp only []
    obtain ⟨len, s', h, hl'⟩ := finishTsig_tail s hw hl ts none hkey ht6 hs6 hroom (by
        rw [hres, hmode]
        simp only [reservedLenOf, unsignedLen, tsigAlgName, Option.getD_none, List.length_nil]
        omega)
    rw [hmode] at h
    exact ⟨_, _, h, hl'⟩


/-- **`finish` succeeds** from any state satisfying the invariant, provided the signing function
    returns a MAC that fits the reservation (the two `unwrap`s are covered by the reservations
    made by `set_edns` / `set_tsig`) -/
theorem finishWithMac_ok (macFn : Tsig → List UInt8 → List UInt8) (hmac : MacLenOK macFn) (s : State)
    (hI : I s) : ∃ r s', finishWithMac macFn s = (.ok r, s') ∧ PtrLogOK s' := by
  unfold finishWithMac
  simp only [M.bind_apply, M.gets_apply]
  obtain ⟨o, hc, hIA, hosz⟩ := finishCounts_spec s.qdcount s.ancount s.nscount s.arcount s hI
  rw [hc]
  simp only []
  have hres := inv_reserved' hI.inv
  have h2 := hI.inv.av_lim; have h3 := hI.inv.lim_size
  have h11 : Gen.OPT_RECORD_SIZE = 11 := rfl
  obtain ⟨s1, hf1, hw1, hroom1, hts1, hl1⟩ := finishOpt_spec { s with octets := o } hIA.winv hIA.log (tsigReserved s.tsig)
    (by
      intro e he
      show s.available + Gen.OPT_RECORD_SIZE + tsigReserved s.tsig ≤ o.size
      have he' : s.edns = some e := he
      rw [he'] at hres
      simp at hres
      omega)
    (by
      show s.available + tsigReserved s.tsig ≤ o.size
      cases he : s.edns with
      | none => rw [he] at hres; simp at hres; omega
      | some e => rw [he] at hres; simp at hres; omega)
  have hf1' : finishOpt s.edns { s with octets := o } = (.ok (), s1) := hf1
  rw [hf1']
  simp only []
  have hts1' : s1.tsig = s.tsig := hts1
  cases hts : s.tsig with
  | none =>
    unfold finishTsig
    simp only [M.bind_apply, M.gets_apply, M.pure_apply]
    exact ⟨_, _, rfl, hl1⟩
  | some ts =>
    have := finishTsig_spec macFn hmac s1 hw1 hl1 ts (by rw [hts1', hts]) (hI.tsig ts hts)
      (by rw [hts] at hroom1; exact hroom1)
    rw [hts1', hts] at this
    exact this

theorem finish_ok (macFn : Tsig → List UInt8 → List UInt8) (hmac : MacLenOK macFn) (s : State)
    (hI : I s) : ∃ m mac, finish s macFn = .ok (m, mac) := by
  obtain ⟨r, s', h, _⟩ := finishWithMac_ok macFn hmac s hI
  unfold finish
  rw [h]
  exact ⟨_, _, rfl⟩


/-! ## the instance -/

theorem i_hv (s : State) (v : Option HV) (h : I s) : I { s with hv := v } :=
  ⟨inv_hv h.inv v, ⟨h.winv.c12, h.winv.cur_av, h.winv.av_size, h.winv.g12, h.winv.labs, h.winv.qn,
    h.winv.ow, h.winv.rd, h.winv.clabs⟩, ⟨h.qinv.labs, h.qinv.qn⟩, h.tsig, h.log⟩

theorem new_i (buf : Bytes) (limit : Nat) (s : State) (h : Writer.new buf limit = .ok s) : I s := by
  have hinv := new_inv buf limit s h
  unfold Writer.new at h
  dsimp only at h
  split at h
  · cases h
  · have hs := Out.ok.inj h
    subst hs
    refine ⟨hinv, ⟨hinv.hdr, hinv.cur_av, Nat.le_trans hinv.av_lim hinv.lim_size, ?_, ?_, ?_, ?_, ?_, ?_⟩,
      ⟨?_, ?_⟩, ?_, fun x hx => by cases hx⟩
    · intro g hg; cases hg
    · intro g hg; cases hg
    · intro p hp; cases hp
    · intro p hp; cases hp
    · intro p hp; cases hp
    · intro g hg; cases hg
    · intro g hg; cases hg
    · intro p hp; cases hp
    · intro ts hts; cases hts

theorem clearRrs_i (s : State) (h : I s) : I (clearRrs s).2 := by
  have hinv := (total_clearRrs s).2 h.inv
  have hrr := h.inv.rr_hi
  simp only [clearRrs, M.modify_apply] at hinv ⊢
  -- recorded label starts below `rr_start` are stored below `rr_start`, in terms of the kept set
  have hG : ∀ x, (GL s x ∧ x < s.rrStart) → x ∈ s.gLabels.filter (· < s.rrStart) := by
    intro x ⟨h1, h2⟩
    simp only [List.mem_filter, decide_eq_true_eq]
    exact ⟨h1, h2⟩
  have conv : ∀ p ls, NameAt (GL s) s.octets s.rrStart p ls →
      NameAt (fun x => x ∈ s.gLabels.filter (· < s.rrStart)) s.octets s.rrStart p ls := by
    intro p ls hn
    exact nameAt_frame (lo := 0) (nameAt_restrict hn) hG (fun _ _ => Nat.zero_le _) (fun _ _ _ => rfl)
      (Nat.le_refl _)
  have hlabs : ∀ g ∈ s.gLabels.filter (· < s.rrStart), ∃ ls,
      NameAt (fun x => x ∈ s.gLabels.filter (· < s.rrStart)) s.octets s.rrStart g ls := by
    intro g hg
    simp only [List.mem_filter, decide_eq_true_eq] at hg
    obtain ⟨ls, hl⟩ := h.qinv.labs g hg.1 hg.2
    exact ⟨ls, conv _ _ hl⟩
  have hqn : ∀ p, s.qname = some p →
      PriorOK (fun x => x ∈ s.gLabels.filter (· < s.rrStart)) s.octets s.rrStart p := by
    intro p hp
    obtain ⟨ls, hl, hlen⟩ := h.qinv.qn p hp
    exact ⟨ls, conv _ _ hl, hlen⟩
  refine ⟨hinv, ⟨h.inv.rr_lo, by show s.rrStart ≤ s.available; have := h.inv.cur_av; omega,
    h.winv.av_size, ?_, hlabs, ?_, (fun p hp => by cases hp), (fun p hp => by cases hp), ?_⟩, ⟨?_, hqn⟩, h.tsig, ?_⟩
  · intro g hg
    simp only [List.mem_filter] at hg
    exact h.winv.g12 g hg.1
  · intro p hp
    exact ⟨(h.winv.qn p hp).1, (h.winv.qn p hp).2.1, hqn p hp⟩
  · intro g hg
    obtain ⟨ls', hl'⟩ := hlabs g hg
    simp only [List.mem_filter, decide_eq_true_eq] at hg
    obtain ⟨ls, hc, hb⟩ := h.winv.clabs g hg.1
    exact ⟨ls, nameAtC_shrink hc hl', hb⟩
  · intro g hg _
    exact hlabs g hg
  · intro x hx
    simp only [List.mem_filter, decide_eq_true_eq] at hx
    obtain ⟨h1, h2, h3, h4, h5, ls, h6⟩ := h.log x hx.1
    have hlt : x.target < s.rrStart := by omega
    have hmem : x.target ∈ s.gLabels.filter (· < s.rrStart) := by
      simp only [List.mem_filter, decide_eq_true_eq]; exact ⟨h5, hlt⟩
    obtain ⟨ls', hl'⟩ := hlabs x.target hmem
    exact ⟨h1, hx.2, h3, h4, hmem, ls', hl'⟩


theorem call_safe (c : Call) (s : State) (hI : I s) (hp : c.Pre Den s) :
    (c.run s).1 ≠ .panic ∧ I (c.run s).2 ∧ Mono Den s (c.run s).2 := by
  cases c with
  | setId v => exact safe_write_hdr Gen.ID_START (u16be v) (by show _ + 2 ≤ 12; decide) s hI
  | setBit b m v => exact safe_setHdr b _ hp s hI
  | setOpcode v => exact safe_setHdr Gen.OPCODE_BYTE _ (by decide) s hI
  | setRcode v => exact safe_setRcode v s hI
  | setExtendedRcode v => exact safe_setExtendedRcode v s hI
  | setLimit v => exact safe_setLimit v s hI
  | setEdns p => exact safe_setEdns p s hI
  | setTsig m rr => exact safe_setTsig m rr s hI hp
  | addRr sec h o ty cls ttl rd =>
    obtain ⟨a, b, c, _⟩ := addRrOp_full sec h o ty cls ttl rd s hI hp.1 ((hintOK_iff s h o).mp hp.2)
    exact ⟨a, b, c⟩
  | addRrset sec h o ty cls ttl rds =>
    obtain ⟨a, b, c, _⟩ := addRrsetOp_full sec h o ty cls ttl rds s hI hp.1 ((hintOK_iff s h o).mp hp.2)
    exact ⟨a, b, c⟩

/-- **the interface is met** -/
def writerSafe : WriterSafe where
  I := Writer.I
  Den := Writer.Den
  I_hv := i_hv
  Den_hv := fun _ _ _ _ h => h
  new_I := fun buf limit s _ h => new_i buf limit s h
  call := call_safe
  addQuestion := by
    intro qn qt qc s hI hwf
    obtain ⟨a, b, c, d⟩ := addQuestion_full qn qt qc s hI hwf
    exact ⟨a, b, c, d⟩
  addRr_post := by
    intro sec hint owner ty cls ttl rd s hI hwf hh hok
    obtain ⟨_, _, _, post⟩ := addRrOp_full sec hint owner ty cls ttl rd s hI hwf ((hintOK_iff s hint owner).mp hh)
    obtain ⟨s2, p, n, hrec, heq⟩ := post hok
    rw [heq]
    obtain ⟨f1, f2, f3, f4, f5, f6⟩ := setCount_fields sec n s2
    constructor
    · intro q hq
      rw [f2] at hq
      exact (den_setCount _ _ _ _ _).mpr (recSt_ownerHint hrec q hq)
    · intro m hm q hq
      rw [f3] at hq
      exact (den_setCount _ _ _ _ _).mpr (hrec.rd m hm q hq)
  addRrset_post := by
    intro sec hint owner ty cls ttl rds s hI hwf hh hne hok
    obtain ⟨_, _, _, post⟩ := addRrsetOp_full sec hint owner ty cls ttl rds s hI hwf ((hintOK_iff s hint owner).mp hh)
    obtain ⟨s2, loc, p, on, n, hrec, hon, heq⟩ := post hok
    rw [heq]
    obtain ⟨f1, f2, f3, f4, f5, f6⟩ := setCount_fields sec n s2
    have hon' := hon hne
    subst hon'
    constructor
    · intro q hq
      rw [f2] at hq
      exact (den_setCount _ _ _ _ _).mpr (recSt_ownerHint hrec q hq)
    · intro hv0 v hv i q hq
      rw [f4] at hv
      obtain ⟨_, h2⟩ := hrec.hv hv0 v hv
      obtain ⟨m, hm, hd⟩ := h2 i q hq
      exact ⟨m, hm, (den_setCount _ _ _ _ _).mpr hd⟩
  clearRrs_I := clearRrs_i
  finish := by
    intro s macFn hI hmac
    obtain ⟨m, mac, h⟩ := finish_ok macFn hmac s hI
    rw [h]; simp


/-! ### extras for the request handler -/

/-- `finish` never returns an error either -/
theorem finish_not_err (s : State) (macFn : Tsig → List UInt8 → List UInt8) (hI : I s)
    (hmac : MacLenOK macFn) (e : WriterErr) : finish s macFn ≠ .err e := by
  obtain ⟨m, mac, h⟩ := finish_ok macFn hmac s hI
  rw [h]; simp

/-- with TSIG configured the additional count already includes the TSIG record -/
theorem arcount_of_tsig (s : State) (hI : I s) (ht : s.tsig.isSome) : 1 ≤ s.arcount ∧ s.arcount ≤ 65535 := by
  have h1 := hI.inv.ar_ge
  have h2 := hI.inv.ar
  simp only [ht, if_true] at h1
  exact ⟨by omega, h2⟩

/-- the component lists the request handler relies on (class IN = 1) -/
theorem componentTypes_of_ns : componentTypes 1 2 = some [.compressibleName] := by decide
theorem componentTypes_of_md : componentTypes 1 3 = some [.compressibleName] := by decide
theorem componentTypes_of_mf : componentTypes 1 4 = some [.compressibleName] := by decide
theorem componentTypes_of_cname : componentTypes 1 5 = some [.compressibleName] := by decide
theorem componentTypes_of_mb : componentTypes 1 7 = some [.compressibleName] := by decide
theorem componentTypes_of_mx : componentTypes 1 15 = some [.fixedLen 2, .compressibleName] := by decide
theorem componentTypes_of_srv : componentTypes 1 33 = some [.fixedLen 6, .uncompressibleName] := by decide
theorem componentTypes_of_a : componentTypes 1 1 = some [] := by decide
theorem componentTypes_of_aaaa : componentTypes 1 28 = some [] := by decide

end QV.Writer
