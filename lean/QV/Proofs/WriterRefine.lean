/-
  QV.Proofs.WriterRefine — C12 (d): refinement in `Disabled` mode. Glues the model side
  (`lay_run`, `finish_bytes`: the finished message is the canonical encoding of the calls that
  succeeded) to the spec side (`specDecodeMsg_enc`: the RFC 1035 decoder reads a canonical
  encoding back).
-/
import QV.Proofs.MessageDecode
import QV.Proofs.WriterSession
namespace QV.Writer
open QV QV.Wire QV.Spec QV.Spec.Message QV.ServerSafety

/-- the arguments of a call are values of their Rust types: `Name`s are well formed, types and
    classes are 16-bit, an `Rdata` holds at most 65535 octets, the ID is 16-bit, `Opcode` and
    `Rcode` are 4-bit -/
def Op.Typed : Op → Prop
  | .setId v => v < 65536
  | .setOpcode v => v < 16
  | .setRcode v => v < 16
  | .addQuestion n t c => n.WF ∧ t < 65536 ∧ c < 65536
  | .addRr _ _ o ty cls _ rd _ => o.WF ∧ ty < 65536 ∧ cls < 65536 ∧ rd.length < 65536
  | .addRrset _ _ o ty cls _ rds _ => o.WF ∧ ty < 65536 ∧ cls < 65536 ∧ ∀ rd ∈ rds, rd.length < 65536
  | _ => True

structure Body.Typed (b : Body) : Prop where
  qs : ∀ q ∈ b.qs, q.Typed
  an : ∀ r ∈ b.an, r.Typed
  ns : ∀ r ∈ b.ns, r.Typed
  ar : ∀ r ∈ b.ar, r.Typed

theorem ttlFrom_lt (t : Nat) : ttlFrom t < 4294967296 := by
  unfold ttlFrom; split <;> omega

theorem Body.Typed.add {b : Body} (h : b.Typed) (sec : RrSection) (rs : List RRec) (hr : ∀ r ∈ rs, r.Typed) :
    (b.add sec rs).Typed := by
  cases sec
  · exact ⟨h.qs, (fun r hx => by
      rcases List.mem_append.mp hx with h1 | h1
      · exact h.an r h1
      · exact hr r h1), h.ns, h.ar⟩
  · exact ⟨h.qs, h.an, (fun r hx => by
      rcases List.mem_append.mp hx with h1 | h1
      · exact h.ns r h1
      · exact hr r h1), h.ar⟩
  · exact ⟨h.qs, h.an, h.ns, (fun r hx => by
      rcases List.mem_append.mp hx with h1 | h1
      · exact h.ar r h1
      · exact hr r h1)⟩

/-- a call that succeeded added only well-typed questions and records whose RDATA is well formed
    for its type -/
theorem typed_step (ss : Session) (op : Op) (b : Body) (hb : b.Typed) (ht : op.Typed)
    (hok : (step ss op).1 = .ok ()) : (bodyStep b op).Typed := by
  cases op with
  | addQuestion n t c => exact ⟨(fun q hx => by
      rcases List.mem_append.mp hx with h1 | h1
      · exact hb.qs q h1
      · simp only [List.mem_singleton] at h1; subst h1; exact ht), hb.an, hb.ns, hb.ar⟩
  | addRr sec h o ty cls ttl rd hv =>
    obtain ⟨h1, h2, h3, h4⟩ := ht
    have hok' : (addRrOp sec (resolveHint ss.hvs h) o ty cls ttl rd
        { ss.w with hv := hv.map (hvGet ss.hvs) }).1 = .ok () := by
      rw [← withHv_fst]; exact hok
    have hrd := (addRrOp_rdata sec _ o ty cls ttl rd _).1 hok'
    refine hb.add sec _ (fun r hx => ?_)
    simp only [List.mem_singleton] at hx; subst hx
    exact ⟨h1, h2, h3, ttlFrom_lt ttl, h4, hrd⟩
  | addRrset sec h o ty cls ttl rds hv =>
    obtain ⟨h1, h2, h3, h4⟩ := ht
    have hok' : (addRrsetOp sec (resolveHint ss.hvs h) o ty cls ttl rds
        { ss.w with hv := hv.map (hvGet ss.hvs) }).1 = .ok () := by
      rw [← withHv_fst]; exact hok
    have hrd := (addRrsetOp_rdata sec _ o ty cls ttl rds _).1 hok'
    refine hb.add sec _ (fun r hx => ?_)
    obtain ⟨rd, hrdm, rfl⟩ := List.mem_map.mp hx
    exact ⟨h1, h2, h3, ttlFrom_lt ttl, h4 rd hrdm, List.all_eq_true.mp hrd rd hrdm⟩
  | clearRrs => exact ⟨hb.qs, (fun _ hx => by cases hx), (fun _ hx => by cases hx), (fun _ hx => by cases hx)⟩
  | _ => exact hb

theorem typed_run : ∀ (ops : List Op) (ss : Session) (b : Body), b.Typed → (∀ op ∈ ops, op.Typed) →
    (bodyRun b ops (run ss ops).2).Typed := by
  intro ops
  induction ops with
  | nil => intro ss b hb _; exact hb
  | cons op ops ih =>
    intro ss b hb ht
    unfold run
    cases hs : step ss op with
    | mk r ss' =>
      cases r with
      | panic =>
        simp only [bodyRun]
        have : (Out.panic : Out WriterErr Unit) ≠ .ok () := by simp
        rw [if_neg this]; exact hb
      | ok u =>
        simp only []
        cases hrun : run ss' ops with
        | mk ss'' rs =>
          simp only [bodyRun, if_true]
          have := ih ss' (bodyStep b op) (typed_step ss op b hb (ht op List.mem_cons_self) (by rw [hs]))
            (fun x hx => ht x (List.mem_cons_of_mem _ hx))
          rw [hrun] at this; exact this
      | err e =>
        simp only []
        cases hrun : run ss' ops with
        | mk ss'' rs =>
          have hne : (Out.err e : Out WriterErr Unit) ≠ .ok () := by simp
          simp only [bodyRun, if_neg hne]
          have := ih ss' b hb (fun x hx => ht x (List.mem_cons_of_mem _ hx))
          rw [hrun] at this; exact this


/-! ### the pseudo-records `finish` appends -/

/-- the OPT record (RFC 6891 §6.1.2): root owner, type 41, class = UDP payload size (a 16-bit
    value), TTL = extended RCODE upper bits, version 0, flags 0; empty RDATA -/
def optRecs : Option Edns → List RRec
  | some e => [⟨WName.root, T_OPT, e.payload % 65536, (e.upper * 16777216) % 4294967296, []⟩]
  | none => []

/-- the TSIG record (RFC 8945 §4.2) with the MAC `finish` returned -/
def tsigRecs : Option Tsig → Option (List UInt8) → List RRec
  | some ts, mac => [⟨ts.rr.keyName, T_TSIG, QC_ANY, ttlFrom 0,
      tsigRdata ts.rr (tsigAlgName ts.mode) (mac.getD [])⟩]
  | none, _ => []

theorem u16be_mod (n : Nat) : u16be (n % 65536) = u16be n := by
  unfold u16be
  rw [show n % 65536 / 256 % 256 = n / 256 % 256 by omega, show n % 65536 % 256 = n % 256 by omega]

theorem optEnc_eq (e : Option Edns) : optEnc e = encRRs (optRecs e) := by
  cases e with
  | none => rfl
  | some e => simp [optEnc, optRecs, encRRs, encRR, u16be_mod]

theorem tsigEnc_eq (ts : Option Tsig) (mac : Option (List UInt8)) :
    tsigEncOpt ts mac = encRRs (tsigRecs ts mac) := by
  cases ts with
  | none => rfl
  | some ts => simp [tsigEncOpt, tsigEnc, tsigRecs, encRRs, encRR]

theorem rdataOK_nameless (cls ty : Nat) (rd : List UInt8) (h : layoutOf ty cls = []) :
    rdataOK cls ty rd = true := by
  unfold rdataOK
  rw [componentTypes_layout, h]
  rfl

theorem optRecs_typed (e : Option Edns) : ∀ r ∈ optRecs e, r.Typed := by
  cases e with
  | none => intro r hr; cases hr
  | some e =>
    intro r hr
    simp only [optRecs, List.mem_singleton] at hr
    subst hr
    have h41 : T_OPT = 41 := by decide
    refine ⟨by show WName.root.WF; decide, by show T_OPT < 65536; decide, Nat.mod_lt _ (by omega), Nat.mod_lt _ (by omega), by simp, ?_⟩
    apply rdataOK_nameless
    show layoutOf T_OPT _ = []
    rw [h41]
    simp [layoutOf]

theorem tsigRecs_typed (ts : Option Tsig) (mac : Option (List UInt8))
    (hk : ∀ t, ts = some t → t.rr.keyName.WF ∧ (tsigAlgName t.mode).WF ∧ t.rr.timeSigned.length = 6 ∧
      t.rr.serverTime.length = 6)
    (hm : (mac.getD []).length ≤ 32) : ∀ r ∈ tsigRecs ts mac, r.Typed := by
  cases ts with
  | none => intro r hr; cases hr
  | some t =>
    intro r hr
    simp only [tsigRecs, List.mem_singleton] at hr
    subst hr
    obtain ⟨k1, k2, k3, k4⟩ := hk t rfl
    have h250 : T_TSIG = 250 := by decide
    have h255 : QC_ANY = 255 := by decide
    have halg : (tsigAlgName t.mode).wire.length ≤ 255 := k2.2
    have hl2 : ∀ x, (u16be x).length = 2 := fun _ => rfl
    refine ⟨k1, by show T_TSIG < 65536; decide, by show QC_ANY < 65536; decide, ttlFrom_lt 0, ?_, ?_⟩
    · show (tsigRdata _ _ _).length < 65536
      unfold tsigRdata
      simp only [List.length_append, hl2, k3]
      split
      · rw [k4]; omega
      · simp only [List.length_nil]; omega
    · apply rdataOK_nameless
      show layoutOf T_TSIG QC_ANY = []
      rw [h250, h255]; decide

theorem algOutputSize_le (a : Alg) : algOutputSize a ≤ 32 := by cases a <;> decide

theorem bytesAt_self (m : Bytes) : BytesAt m 0 m.toList := by
  intro i hi
  simp

/-- **C12 (d): refinement in `Disabled` mode, for all sequences of calls.** From a valid writer in
    `Disabled` mode holding the questions and records `b`, after any sequence of calls that respects
    the API contract: `finish` succeeds, and the RFC 1035 decoder of the specification reads the
    finished message as exactly — header as held in the first four octets; the questions and the
    records of the calls that succeeded, in order and section by section, names octet for octet,
    RDATA as the specification reads the RDATA given; then the OPT record; then the TSIG record. -/
theorem disabled_refines (macFn : Tsig → List UInt8 → List UInt8) (hmac : MacLenOK macFn)
    (ss : Session) (b : Body) (ops : List Op) (hI : I ss.w) (hlay : Lay ss.w b) (hb : b.Typed)
    (hk : ∀ op ∈ ops, keepsDisabled op = true) (ht : ∀ op ∈ ops, op.Typed) (hr : Respects ss ops) :
    ∃ m mac d, finish (run ss ops).1.w macFn = .ok (m, mac) ∧ specDecodeMsg m = some d ∧
      d.msg = ⟨specHeader (run ss ops).1.w.octets,
        (bodyRun b ops (run ss ops).2).qs.map specQ,
        (bodyRun b ops (run ss ops).2).an.map specR,
        (bodyRun b ops (run ss ops).2).ns.map specR,
        ((bodyRun b ops (run ss ops).2).ar ++ optRecs (run ss ops).1.w.edns ++
          tsigRecs (run ss ops).1.w.tsig mac).map specR⟩ := by
  obtain ⟨hnp, hIF⟩ := run_I ss ops hI hr
  have hL := lay_run ss ops b hI.inv hlay hk hnp
  have hT := typed_run ops ss b hb ht
  generalize (run ss ops).1.w = sF at hIF hL ⊢
  generalize bodyRun b ops (run ss ops).2 = B at hL hT ⊢
  obtain ⟨m, mac, hfin⟩ := finish_ok macFn hmac sF hIF
  obtain ⟨hbytes, hmacp⟩ := finish_bytes macFn sF B hL m mac hfin
  refine ⟨m, mac, ?_⟩
  -- the MAC is short
  have hmlen : (mac.getD []).length ≤ 32 := by
    rcases hmacp with rfl | ⟨t, msg, _, rfl⟩
    · simp
    · have := hmac t msg
      simp only [Option.getD_some]
      cases hmode : t.mode with
      | request a k => rw [hmode] at this; exact Nat.le_trans this (algOutputSize_le a)
      | response a x k => rw [hmode] at this; exact Nat.le_trans this (algOutputSize_le a)
      | subsequent a x k => rw [hmode] at this; exact Nat.le_trans this (algOutputSize_le a)
      | unsigned n => rw [hmode] at this; simp only at this; omega
  have htsig : ∀ r ∈ tsigRecs sF.tsig mac, r.Typed :=
    tsigRecs_typed sF.tsig mac (fun t h => (hIF.tsig t h).2) hmlen
  have har : ∀ r ∈ B.ar ++ optRecs sF.edns ++ tsigRecs sF.tsig mac, r.Typed := by
    intro r hx
    rcases List.mem_append.mp hx with h1 | h1
    · rcases List.mem_append.mp h1 with h2 | h2
      · exact hT.ar r h2
      · exact optRecs_typed _ r h2
    · exact htsig r h1
  -- counts
  have hinv := hIF.inv
  have hlen_ar : (B.ar ++ optRecs sF.edns ++ tsigRecs sF.tsig mac).length = sF.arcount := by
    rw [hL.ar, List.length_append, List.length_append]
    cases sF.edns <;> cases sF.tsig <;> simp [optRecs, tsigRecs]
  have hsz12 : 12 ≤ sF.octets.size := by
    have := hinv.hdr; have := hinv.cur_av; have := hinv.av_lim; have := hinv.lim_size; omega
  have hl4 : (sF.octets.toList.take 4).length = 4 := by simp; omega
  have hl8 : (u16be sF.qdcount ++ u16be sF.ancount ++ u16be sF.nscount ++ u16be sF.arcount).length = 8 := rfl
  have hbody : B.enc ++ (optEnc sF.edns ++ tsigEncOpt sF.tsig mac) =
      encQs B.qs ++ encRRs B.an ++ encRRs B.ns ++ encRRs (B.ar ++ optRecs sF.edns ++ tsigRecs sF.tsig mac) := by
    simp only [Body.enc, encRRs_append, optEnc_eq, tsigEnc_eq, List.append_assoc]
  have hself := bytesAt_self m
  rw [hbytes, List.append_assoc, hbody] at hself
  obtain ⟨s1, s2⟩ := bytesAt_append hself
  obtain ⟨s3, s4⟩ := bytesAt_append s1
  rw [List.length_append, hl4, hl8] at s2
  rw [hl4] at s4
  have hsize : m.size = 12 + (encQs B.qs ++ encRRs B.an ++ encRRs B.ns ++
      encRRs (B.ar ++ optRecs sF.edns ++ tsigRecs sF.tsig mac)).length := by
    have : m.size = m.toList.length := by simp
    rw [this, hbytes, List.append_assoc, hbody, List.length_append, List.length_append, hl4, hl8]
  obtain ⟨d, hd, hdm⟩ := specDecodeMsg_enc m B.qs B.an B.ns (B.ar ++ optRecs sF.edns ++ tsigRecs sF.tsig mac)
    hT.qs hT.an hT.ns har (by rw [← hL.qd]; have := hinv.qd; omega) (by rw [← hL.an]; have := hinv.an; omega)
    (by rw [← hL.ns]; have := hinv.ns; omega) (by rw [hlen_ar]; have := hinv.ar; omega)
    (by rw [← hL.qd, ← hL.an, ← hL.ns, hlen_ar]; simpa using s4)
    (by simpa using s2) hsize
  refine ⟨d, hfin, hd, ?_⟩
  rw [hdm]
  -- the header octets are those of the writer
  have hg : ∀ i, i < 4 → m.getD i 0 = sF.octets.getD i 0 := by
    intro i hi
    have h1 := bytesAt_getD s3 (i := i) (by rw [hl4]; exact hi)
    rw [Nat.zero_add] at h1
    rw [h1, List.getElem_take]
    simp [Array.getD, show i < sF.octets.size by omega]
  have hh : specHeader m = specHeader sF.octets := by
    simp only [specHeader, be16, hg 0 (by omega), hg 1 (by omega), hg 2 (by omega), hg 3 (by omega)]
  rw [hh]

end QV.Writer
