/-
  QV.Proofs.PoolProgress — progress at the level of the mutexes (C29): whenever some thread holds
  or wants a mutex, some thread can take a step that is not an environment step.
-/
import QV.Proofs.PoolTasks
import QV.Proofs.PoolWake

namespace QV.Pool

/-- some step other than an arrival, an API call or a spurious wake-up is enabled -/
def Enabled (cfg : Cfg) (s : State) : Prop := ∃ l s', l.isEnv = false ∧ next cfg s l = some s'

/-- `notify_one` always succeeds for a suitable choice of the woken waiter -/
theorem notifyOne_total (isW : Local → Bool) (wake : Local → Local) (ths : List Local) :
    ∃ tg ths', notifyOne isW wake ths tg = some ths' := by
  by_cases h : ths.countP isW = 0
  · exact ⟨none, ths, by simp [notifyOne, h]⟩
  · have hpos : 0 < ths.countP isW := Nat.pos_of_ne_zero h
    obtain ⟨a, ha, hw⟩ := List.countP_pos_iff.mp hpos
    obtain ⟨u, hu⟩ := List.mem_iff_getElem?.mp ha
    exact ⟨some u, ths.set u (wake a), by simp [notifyOne, hu, hw]⟩

theorem relWorker_enabled (cfg : Cfg) (s : State) (t : Nat) (w : WKind) (reg to : Bool) :
    ∃ tg s', relWorker cfg s t w reg to tg false = some s' := by
  unfold relWorker
  cases reg
  · obtain ⟨tg, ths', h⟩ := notifyOne_total isSubWait wakeAvail (relWorkerBody cfg s t w false to false).threads
    exact ⟨tg, by simp [h]⟩
  · exact ⟨none, by simp⟩

theorem pushTask_enabled (s : State) (t k : Nat) : ∃ tg s', pushTask s t k tg = some s' := by
  unfold pushTask
  obtain ⟨tg, ths', h⟩ := notifyOne_total isWWait wakeTask (s.threads.set t .idle)
  exact ⟨tg, by simp [h]⟩

/-- a thread inside a critical section can always finish it (or, for `shut_down` holding the group
    mutex and needing the pool mutex, can do so as soon as the pool mutex is free) -/
theorem holder_can_step (cfg : Cfg) (s : State) (t : Nat) (l : Local) (hg : s.threads[t]? = some l)
    (hh : holdsP l = true ∨ holdsG l = true)
    (hpsh : l = .pshInG → s.hasPool = true) :
    Enabled cfg s ∨ (l = .shInG ∧ s.hasPool = true ∧ s.pLock ≠ none) := by
  have rel : ∀ tg fl, (∃ s', nextRel cfg s t tg fl = some s') → Enabled cfg s :=
    fun tg fl ⟨s', h⟩ => ⟨.rel t tg fl, s', rfl, h⟩
  have spawn : (∃ s', nextSpawn s t false = some s') → Enabled cfg s :=
    fun ⟨s', h⟩ => ⟨.spawn t false, s', rfl, h⟩
  cases l <;> simp [holdsP, holdsG] at hh
  case spInG n =>
    cases n with
    | zero => exact Or.inl (rel none false (by simp [nextRel, hg]))
    | succ n => exact Or.inl (spawn (by simp [nextSpawn, hg]))
  case subInP k =>
    left
    by_cases hps : s.pShutting = true
    · exact rel none false (by simp [nextRel, hg, hps])
    · by_cases hav : s.available > s.queue.length
      · obtain ⟨tg, s', h⟩ := pushTask_enabled s t k
        exact rel tg false (by simp [nextRel, hg, hps, hav, h])
      · exact rel none false (by simp [nextRel, hg, hps, hav])
  case sosInP k =>
    left
    by_cases hps : s.pShutting = true
    · exact rel none false (by simp [nextRel, hg, hps])
    · by_cases hav : s.available > s.queue.length
      · obtain ⟨tg, s', h⟩ := pushTask_enabled s t k
        exact rel tg false (by simp [nextRel, hg, hps, hav, h])
      · exact rel none false (by simp [nextRel, hg, hps, hav])
  case sosInG k =>
    left
    by_cases hgs : s.gShutting = true
    · exact rel none false (by simp [nextRel, hg, hgs])
    · exact spawn (by simp [nextSpawn, hg, hgs])
  case sosInG2 k => exact Or.inl (rel none false (by simp [nextRel, hg]))
  case shInG =>
    by_cases hp : s.hasPool = true
    · by_cases hl : s.pLock = none
      · exact Or.inl (by have : ∃ s', next cfg s (.acq t) = some s' := by simp [next, nextAcq, hg, hp, hl]
                         obtain ⟨s', h⟩ := this; exact ⟨.acq t, s', rfl, h⟩)
      · exact Or.inr ⟨rfl, hp, hl⟩
    · exact Or.inl (rel none false (by simp [nextRel, hg, hp]))
  case shInP => exact Or.inl (rel none false (by simp [nextRel, hg]))
  case shInG2 => exact Or.inl (rel none false (by simp [nextRel, hg]))
  case pshInG => exact Or.inl (rel none false (by simp [nextRel, hg, hpsh rfl]))
  case pshInP => exact Or.inl (rel none false (by simp [nextRel, hg]))
  case awInG =>
    left
    by_cases hc : (s.gShutting && s.threadCount == 0) = true
    · exact rel none false (by simp only [nextRel, hg, hc]; simp)
    · exact rel none false (by simp only [nextRel, hg, hc]; simp)
  case wInP w reg to =>
    obtain ⟨tg, s', h⟩ := relWorker_enabled cfg s t w reg to
    exact Or.inl (rel tg false (by simp [nextRel, hg, h]))
  case endInG => exact Or.inl (rel none false (by simp [nextRel, hg]))
  case rhInG f =>
    left
    by_cases hgs : s.gShutting = true
    · exact rel none false (by simp [nextRel, hg, hgs])
    · exact spawn (by simp [nextSpawn, hg, hgs])
  case rhInG2 => exact Or.inl (rel none false (by simp [nextRel, hg]))

/-- the mutex the thread's next `acq` takes: `some true` = group, `some false` = pool -/
def wantsG : Local → Bool
  | .spWantG _ | .sosWantG _ | .shWantG | .pshWantG | .awWantG | .endWantG | .rhWantG _ => true
  | _ => false

def wantsP : Local → Bool
  | .subWantP _ | .sosWantP _ | .pshWantP | .wWantP _ | .wWoken _ _ => true
  | _ => false

theorem wanter_can_acquire (cfg : Cfg) (s : State) (t : Nat) (l : Local) (hg : s.threads[t]? = some l)
    (h : (wantsG l = true ∧ s.gLock = none) ∨ (wantsP l = true ∧ s.pLock = none)) : Enabled cfg s := by
  have : ∃ s', next cfg s (.acq t) = some s' := by
    cases l <;> simp [wantsG, wantsP] at h <;> simp [next, nextAcq, hg, h]
  obtain ⟨s', h'⟩ := this
  exact ⟨.acq t, s', rfl, h'⟩

theorem exists_holder {p : Local → Bool} {ths : List Local} (h : 0 < ths.countP p) :
    ∃ (t : Nat) (l : Local), ths[t]? = some l ∧ p l = true := by
  obtain ⟨a, ha, hp⟩ := List.countP_pos_iff.mp h
  obtain ⟨u, hu⟩ := List.mem_iff_getElem?.mp ha
  exact ⟨u, a, hu, hp⟩

/-- **No deadlock on the mutexes.**  In a state satisfying the mutual-exclusion invariant, if any
    thread holds or waits for a mutex then some non-environment step is enabled: the holder of the
    pool mutex can always finish its section; the holder of the group mutex can finish, or needs
    only the pool mutex (whose holder can finish); a waiter for a free mutex can take it. -/
theorem lock_progress (cfg : Cfg) (s : State) (inv : CInv s)
    (hpsh : ∀ (t : Nat), s.threads[t]? = some Local.pshInG → s.hasPool = true)
    (t : Nat) (l : Local) (hg : s.threads[t]? = some l)
    (hl : wantsG l = true ∨ wantsP l = true ∨ holdsP l = true ∨ holdsG l = true) : Enabled cfg s := by
  by_cases hP : s.pLock = none
  · by_cases hG : s.gLock = none
    · -- both free: nobody is inside a section, so our thread is a waiter and can acquire
      have c1 : s.threads.countP holdsP = 0 := by rw [inv.lockP, hP]; rfl
      have c2 : s.threads.countP holdsG = 0 := by rw [inv.lockG, hG]; rfl
      have n1 : holdsP l = false := by
        have := List.countP_eq_zero.mp c1 l (List.mem_of_getElem? hg); simpa using this
      have n2 : holdsG l = false := by
        have := List.countP_eq_zero.mp c2 l (List.mem_of_getElem? hg); simpa using this
      rcases hl with h | h | h | h
      · exact wanter_can_acquire cfg s t l hg (Or.inl ⟨h, hG⟩)
      · exact wanter_can_acquire cfg s t l hg (Or.inr ⟨h, hP⟩)
      · rw [n1] at h; cases h
      · rw [n2] at h; cases h
    · -- the group mutex is held; its holder can step because the pool mutex is free
      have c : 0 < s.threads.countP holdsG := by
        rw [inv.lockG]; cases hgl : s.gLock <;> simp_all [lockN]
      obtain ⟨u, lu, hu, hh⟩ := exists_holder c
      rcases holder_can_step cfg s u lu hu (Or.inr hh) (fun e => hpsh u (e ▸ hu)) with h | ⟨_, _, h⟩
      · exact h
      · exact absurd hP h
  · -- the pool mutex is held; its holder can always finish
    have c : 0 < s.threads.countP holdsP := by
      rw [inv.lockP]; cases hpl : s.pLock <;> simp_all [lockN]
    obtain ⟨u, lu, hu, hh⟩ := exists_holder c
    rcases holder_can_step cfg s u lu hu (Or.inl hh) (fun e => hpsh u (e ▸ hu)) with h | ⟨e, _, _⟩
    · exact h
    · subst e; simp [holdsP] at hh

end QV.Pool
