/-
  QV.Proofs.WriterDisabled — C12 (d), model side, `Disabled` compression mode: what exactly each
  successful call appends to the buffer (the canonical uncompressed encoding), for all states.
-/
import QV.Proofs.WriterNames
import QV.Proofs.WriterBudget

namespace QV.Writer
open QV QV.Wire

/-- `s'` is `s` with the octets `d` appended at the cursor (everything below untouched) -/
structure App (s s' : State) (d : List UInt8) : Prop where
  ext : Ext s s'
  cur : s'.cursor = s.cursor + d.length
  bytes : BytesAt s'.octets s.cursor d
  mode : s'.mode = s.mode
  sect : s'.sect = s.sect

theorem App.refl (s : State) : App s s [] := ⟨Ext.refl s, by simp, (fun i hi => by simp at hi), rfl, rfl⟩

theorem App.trans {a b c : State} {d1 d2 : List UInt8} (h1 : App a b d1) (h2 : App b c d2) :
    App a c (d1 ++ d2) := by
  refine ⟨Ext.trans h1.ext h2.ext, by rw [h2.cur, h1.cur]; simp; omega, ?_, by rw [h2.mode, h1.mode],
    by rw [h2.sect, h1.sect]⟩
  intro i hi
  by_cases hlt : i < d1.length
  · rw [List.getElem?_append_left hlt, h2.ext.pre _ (by rw [h1.cur]; omega)]
    exact h1.bytes i hlt
  · rw [List.getElem?_append_right (by omega)]
    have := h2.bytes (i - d1.length) (by simp at hi; omega)
    rw [h1.cur, show a.cursor + d1.length + (i - d1.length) = a.cursor + i by omega] at this
    exact this

/-- in `Disabled` mode a successful run of `f` appends exactly `d` -/
def Wr {α} (d : List UInt8) (f : M α) : Prop :=
  ∀ s, s.mode = .disabled → ∀ a s', f s = (.ok a, s') → App s s' d

theorem wr_bind {α β} {d1 d2 : List UInt8} {f : M α} {g : α → M β} (hf : Wr d1 f)
    (hg : ∀ a, Wr d2 (g a)) : Wr (d1 ++ d2) (f >>= g) := by
  intro s hm b s' h
  simp only [M.bind_apply] at h
  cases hfs : f s with
  | mk r s1 =>
    rw [hfs] at h
    cases r with
    | ok a =>
      have a1 := hf s hm a s1 hfs
      exact App.trans a1 (hg a s1 (by rw [a1.mode]; exact hm) b s' h)
    | err e => cases h
    | panic => cases h

theorem wr_pure {α} (a : α) : Wr [] (pure a : M α) := fun s _ b s' h => by cases h; exact App.refl s
theorem wr_gets {α} (f : State → α) : Wr [] (M.gets f) := fun s _ b s' h => by cases h; exact App.refl s
theorem wr_fail {α} (e : WriterErr) : Wr [] (M.fail e : M α) := fun s _ b s' h => by cases h
theorem wr_panic {α} : Wr [] (M.panic : M α) := fun s _ b s' h => by cases h

theorem wr_gets_bind {α β} {d : List UInt8} {f : State → α} {g : α → M β} (hg : ∀ a, Wr d (g a)) :
    Wr d (M.gets f >>= g) := by
  have := wr_bind (wr_gets f) hg
  simpa using this

/-- a bookkeeping step: nothing appended -/
theorem wr_modify (f : State → State) (h : ∀ s, App s (f s) []) : Wr [] (M.modify f) :=
  fun s _ b s' hh => by cases hh; exact h s

theorem wr_tryPush (d : List UInt8) : Wr d (tryPush d) := by
  intro s _ b s' h
  have hf := frame_tryPush d s
  unfold tryPush at h hf
  split at h
  · cases h
  · split at h
    · split at h
      · rename_i h1 h2 h3
        rw [if_neg h1, if_pos h2, if_pos h3] at hf
        cases h
        exact ⟨hf, rfl, bytesAt_writeAt _ _ _ h3, rfl, rfl⟩
      · cases h
    · cases h

theorem wr_writeUncompressedName (n : WName) : Wr n.wire (writeUncompressedName n) := by
  intro s _ p s' h
  have e := frame_writeUncompressedName n s
  rw [h] at e
  unfold writeUncompressedName at h
  simp only [M.bind_apply, M.gets_apply] at h
  unfold tryPush at h
  by_cases h1 : s.available < s.cursor
  · rw [if_pos h1] at h; cases h
  · rw [if_neg h1] at h
    by_cases h2 : s.available - s.cursor ≥ n.wire.length
    · rw [if_pos h2] at h
      by_cases h3 : s.cursor + n.wire.length ≤ s.octets.size
      · rw [if_pos h3] at h
        simp only [ghostLabels, M.modify_apply, M.pure_apply] at h
        cases h
        exact ⟨e, rfl, bytesAt_writeAt _ _ _ h3, rfl, rfl⟩
      · rw [if_neg h3] at h; cases h
    · rw [if_neg h2] at h; cases h

theorem wr_writeUnhintedName (n : WName) : Wr n.wire (writeUnhintedName n) := by
  intro s hm p s' h
  unfold writeUnhintedName at h
  simp only [M.bind_apply, M.gets_apply] at h
  rw [if_neg (by rw [hm]; simp)] at h
  exact wr_writeUncompressedName n s hm p s' h

theorem wr_writeHintedName (hint : Hint) (n : WName) : Wr n.wire (writeHintedName hint n) := by
  intro s hm p s' h
  unfold writeHintedName at h
  simp only [M.bind_apply, M.gets_apply] at h
  rw [if_pos (Or.inl hm)] at h
  exact wr_writeUncompressedName n s hm p s' h

theorem app_fields {s s' : State} (ho : s'.octets = s.octets) (hc : s'.cursor = s.cursor)
    (e : Ext s s') (hm : s'.mode = s.mode) (hs : s'.sect = s.sect := by rfl) : App s s' [] :=
  ⟨e, by simp [hc], (fun i hi => by simp at hi), hm, hs⟩

theorem wr_setCtx (c : NameCtx) : Wr [] (setCtx c) :=
  wr_modify _ fun s => app_fields rfl rfl (frame_setCtx c s) rfl

theorem wr_hvPush (p : Option Nat) : Wr [] (hvPush p) := by
  intro s _ b s' h
  have e := frame_hvPush p s
  rw [h] at e
  unfold hvPush at h
  simp only [M.modify_apply] at h
  cases h
  refine app_fields ?_ ?_ e ?_ ?_
  · split
    · split <;> rfl
    · rfl
  · split
    · split <;> rfl
    · rfl
  · split
    · split <;> rfl
    · rfl
  · split
    · split <;> rfl
    · rfl

/-! ### RDATA in `Disabled` mode is written verbatim -/

theorem parseLabels_content : ∀ (fuel : Nat) (b : List UInt8) (ls : List Label) (r : List UInt8),
    WName.parseLabels fuel b = some (ls, r) → b = ls.flatMap WName.encLabel ++ [0] ++ r := by
  intro fuel
  induction fuel with
  | zero => intro b ls r h; simp [WName.parseLabels] at h
  | succ f ih =>
    intro b ls r h
    cases b with
    | nil => simp [WName.parseLabels] at h
    | cons x rest =>
      simp only [WName.parseLabels] at h
      by_cases hx0 : x = 0
      · rw [if_pos hx0] at h; cases h; simp [hx0]
      · rw [if_neg hx0] at h
        by_cases hx63 : x.toNat > Gen.MAX_LABEL_LEN
        · rw [if_pos hx63] at h; cases h
        · rw [if_neg hx63] at h
          by_cases hlen : rest.length < x.toNat
          · rw [if_pos hlen] at h; cases h
          · rw [if_neg hlen] at h
            cases hrec : WName.parseLabels f (List.drop x.toNat rest) with
            | none => rw [hrec] at h; cases h
            | some pr =>
              obtain ⟨ls', r'⟩ := pr
              rw [hrec] at h
              cases h
              have := ih _ _ _ hrec
              have hl : (List.take x.toNat rest).length = x.toNat := by simp; omega
              simp only [List.flatMap_cons, WName.encLabel, hl, List.cons_append, List.append_assoc]
              have hx : UInt8.ofNat x.toNat = x := by simp
              rw [hx]
              congr 1
              calc rest = List.take x.toNat rest ++ List.drop x.toNat rest := (List.take_append_drop _ _).symm
                _ = _ := by rw [this]; simp

theorem parse_content {b : List UInt8} {n : WName} {r : List UInt8} (h : WName.parse b = some (n, r)) :
    b = n.wire ++ r := by
  unfold WName.parse at h
  split at h
  · rename_i ls r' hp
    dsimp only at h
    split at h
    · cases h
      have := parseLabels_content _ _ _ _ hp
      simpa [WName.wire] using this
    · cases h
  · cases h

theorem wr_setRdataAnchor (p : Option Prior) :
    Wr [] (M.modify fun s => { s with mostRecentNameInRdata := p }) :=
  wr_modify _ fun s => app_fields rfl rfl (frame_setAnchorRdata p s) rfl

theorem wr_nameComp (wr : M (Option Prior)) (c : NameCtx) (d : List UInt8) (hwr : Wr d wr) (k : M Unit)
    (dk : List UInt8) (hk : Wr dk k) :
    Wr (d ++ dk) (do
      setCtx c
      let p ← wr
      setCtx .none
      M.modify fun s => { s with mostRecentNameInRdata := p }
      hvPush (p.map (·.ptr))
      k) := by
  have := wr_bind (wr_setCtx c) (fun _ => wr_bind hwr (fun p => wr_bind (wr_setCtx .none) (fun _ =>
    wr_bind (wr_setRdataAnchor p) (fun _ => wr_bind (wr_hvPush (p.map (·.ptr))) (fun _ => hk)))))
  simpa using this

theorem wr_writeComponents (ts : List CompType) (rd : List UInt8) : Wr rd (writeComponents ts rd) := by
  induction ts generalizing rd with
  | nil =>
    unfold writeComponents
    split
    · rename_i he
      have : rd = [] := by simpa using he
      rw [this]; exact wr_pure ()
    · exact wr_tryPush rd
  | cons t ts ih =>
    cases t with
    | compressibleName =>
      unfold writeComponents
      cases hp : WName.parse rd with
      | none => intro s _ b s' h; cases h
      | some pr =>
        obtain ⟨n, rest⟩ := pr
        simp only []
        rw [parse_content hp]
        exact wr_nameComp _ _ _ (wr_writeUnhintedName n) _ _ (ih rest)
    | uncompressibleName =>
      unfold writeComponents
      cases hp : WName.parse rd with
      | none => intro s _ b s' h; cases h
      | some pr =>
        obtain ⟨n, rest⟩ := pr
        simp only []
        rw [parse_content hp]
        exact wr_nameComp _ _ _ (wr_writeUncompressedName n) _ _ (ih rest)
    | fixedLen k =>
      unfold writeComponents
      split
      · intro s _ b s' h; cases h
      · have := wr_bind (wr_tryPush (rd.take k)) (fun _ => ih (rd.drop k))
        simpa using this

theorem wr_writeRdata (cls ty : Nat) (rd : List UInt8) : Wr rd (writeRdata cls ty rd) := by
  unfold writeRdata
  split
  · exact wr_writeComponents _ _
  · intro s _ b s' h; cases h

/-! ### records and questions -/

/-- the canonical (uncompressed) encoding of a resource record (RFC 1035 §3.2.1) -/
def encRR (owner : WName) (ty cls ttl : Nat) (rd : List UInt8) : List UInt8 :=
  owner.wire ++ u16be ty ++ u16be cls ++ u32be ttl ++ u16be (rd.length % 65536) ++ rd

/-- the encoding of a question (RFC 1035 §4.1.2) -/
def encQ (qn : WName) (qt qc : Nat) : List UInt8 := qn.wire ++ u16be qt ++ u16be qc

theorem wr_rdataBlock (cls ty : Nat) (rd : List UInt8) :
    Wr (u16be (rd.length % 65536) ++ rd) (do
      let av ← M.gets (·.available)
      let rdlengthStart ← M.gets (·.cursor)
      if av < rdlengthStart then M.panic
      else if av - rdlengthStart < 2 then M.fail .Truncation
      else do
        M.modify fun s => { s with cursor := s.cursor + 2 }
        writeRdata cls ty rd
        let cur' ← M.gets (·.cursor)
        if cur' < rdlengthStart + 2 then M.panic
        else write rdlengthStart (u16be ((cur' - rdlengthStart - 2) % 65536))) := by
  intro s hm b s' h
  simp only [M.bind_apply, M.gets_apply] at h
  by_cases h1 : s.available < s.cursor
  · rw [if_pos h1] at h; cases h
  rw [if_neg h1] at h
  by_cases h2 : s.available - s.cursor < 2
  · rw [if_pos h2] at h; cases h
  rw [if_neg h2] at h
  simp only [M.bind_apply, M.modify_apply] at h
  have e1 : Ext s { s with cursor := s.cursor + 2 } := by
    constructor <;> simp
    omega
  cases hw : writeRdata cls ty rd { s with cursor := s.cursor + 2 } with
  | mk r s2 =>
    rw [hw] at h
    cases r with
    | err e => cases h
    | panic => cases h
    | ok u =>
      have a2 := wr_writeRdata cls ty rd { s with cursor := s.cursor + 2 } hm u s2 hw
      have hc2 : s2.cursor = s.cursor + 2 + rd.length := a2.cur
      simp only [M.gets_apply] at h
      rw [if_neg (by omega)] at h
      have hlen : (u16be ((s2.cursor - s.cursor - 2) % 65536)).length = 2 := rfl
      have hval : s2.cursor - s.cursor - 2 = rd.length := by omega
      have e02 := Ext.trans e1 a2.ext
      have e03 := ext_write_above e02 s.cursor (u16be ((s2.cursor - s.cursor - 2) % 65536)) (Nat.le_refl _)
      unfold write at h e03
      by_cases hb : s.cursor + (u16be ((s2.cursor - s.cursor - 2) % 65536)).length ≤ s2.octets.size
      · rw [if_pos hb] at h e03
        cases h
        have hl2 : ∀ x, (u16be x).length = 2 := fun _ => rfl
        refine ⟨e03, ?_, ?_, a2.mode, a2.sect⟩
        · show s2.cursor = s.cursor + (u16be (rd.length % 65536) ++ rd).length
          rw [List.length_append, hl2]; omega
        intro i hi
        rw [List.length_append, hl2] at hi
        show (writeAt s2.octets s.cursor (u16be ((s2.cursor - s.cursor - 2) % 65536)))[s.cursor + i]? = _
        rw [hval]
        by_cases hi2 : i < 2
        · rw [List.getElem?_append_left (by rw [hl2]; exact hi2)]
          exact writeAt_get_in _ _ _ i (by rw [hl2]; exact hi2) (by rw [hl2]; rw [hlen] at hb; exact hb)
        · rw [List.getElem?_append_right (by rw [hl2]; omega), hl2]
          rw [writeAt_get_ge _ _ _ _ (by rw [hl2]; omega)]
          have := a2.bytes (i - 2) (by omega)
          rw [show ({ s with cursor := s.cursor + 2 } : State).cursor + (i - 2) = s.cursor + i by
            show s.cursor + 2 + (i - 2) = s.cursor + i; omega] at this
          exact this
      · rw [if_neg hb] at h; cases h

theorem wr_setOwnerAnchor (p : Option Prior) :
    Wr [] (M.modify fun s => { s with mostRecentOwner := p }) :=
  wr_modify _ fun s => app_fields rfl rfl (frame_setOwner p s) rfl

/-- **a record in `Disabled` mode**: exactly its canonical encoding is appended -/
theorem wr_addRr (hint : Hint) (owner : WName) (ty cls ttl : Nat) (rd : List UInt8) :
    Wr (encRR owner ty cls ttl rd) (addRr hint owner ty cls ttl rd) := by
  unfold addRr encRR
  have := wr_bind (wr_setCtx .owner) (fun _ => wr_bind (wr_writeHintedName hint owner) (fun p =>
    wr_bind (wr_setCtx .none) (fun _ => wr_bind (wr_setOwnerAnchor p) (fun _ =>
      wr_bind (wr_tryPush (u16be ty)) (fun _ => wr_bind (wr_tryPush (u16be cls)) (fun _ =>
        wr_bind (wr_tryPush (u32be ttl)) (fun _ => wr_rdataBlock cls ty rd)))))))
  simpa [tryPushU16, tryPushU32, List.append_assoc] using this

/-- the records of an RRset, one after the other -/
theorem wr_addRrset (hint : Hint) (owner : WName) (ty cls ttl : Nat) (rds : List (List UInt8)) (n : Nat) :
    Wr (rds.flatMap (encRR owner ty cls ttl)) (addRrset hint owner ty cls ttl rds n) := by
  induction rds generalizing hint n with
  | nil => exact wr_pure n
  | cons rd rds ih =>
    unfold addRrset
    have := wr_bind (wr_addRr hint owner ty cls ttl rd) (fun _ => ih .mostRecentOwner (n + 1))
    simpa using this

theorem wr_addQuestionBody (qn : WName) (qt qc : Nat) : Wr (encQ qn qt qc) (addQuestionBody qn qt qc) := by
  unfold addQuestionBody encQ
  have hq : ∀ p : Option Prior, Wr [] (M.modify fun s => if s.qdcount = 0 then { s with qname := p } else s) := by
    intro p
    refine wr_modify _ fun s => ?_
    by_cases h0 : s.qdcount = 0
    · rw [if_pos h0]; exact app_fields rfl rfl (by constructor <;> simp) rfl
    · rw [if_neg h0]; exact App.refl s
  have := wr_bind (wr_setCtx .qname) (fun _ => wr_bind (wr_writeUnhintedName qn) (fun p =>
    wr_bind (wr_setCtx .none) (fun _ => wr_bind (hq p) (fun _ =>
      wr_bind (wr_tryPush (u16be qt)) (fun _ => wr_tryPush (u16be qc))))))
  simpa [tryPushU16, List.append_assoc] using this

end QV.Writer
