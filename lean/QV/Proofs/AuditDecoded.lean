import QV.Proofs.AuditWalk
import QV.Proofs.ServerEcho

/-!
# C10: the decoded response, in the audit's terms

Small facts that turn what the decoder-side lemmas give (owner up to case, `parseRdata` of the TSIG
RDATA, lengths of the sections) into the hypotheses of `auditResponse_rejected`.
-/

namespace QV.ServerScan
open QV QV.Spec.ServerTsig QV.Spec.Tsig QV.Writer

/-! ### `labelsOf` and case -/

theorem lower_small (b : UInt8) (h : b.toNat ≤ 63) : lower b = b := by
  unfold lower; rw [if_neg]; omega

theorem lower_big (b : UInt8) (h : 63 < b.toNat) : 63 < (lower b).toNat := by
  unfold lower
  split
  · simp only [UInt8.toNat_ofNat', Nat.reducePow]; omega
  · exact h

theorem lower_zero_iff (b : UInt8) : lower b = 0 ↔ b = 0 := by
  by_cases h : b.toNat ≤ 63
  · rw [lower_small b h]
  · have := lower_big b (by omega)
    constructor
    · intro e; rw [e] at this; exact absurd this (by decide)
    · intro e; rw [e] at h; exact absurd (by decide) h

theorem splitNameAux_lower : ∀ (fuel : Nat) (l : Octets),
    splitNameAux fuel (l.map lower) =
      (splitNameAux fuel l).map (fun p => (p.1.map (·.map lower), p.2.map lower)) := by
  intro fuel
  induction fuel with
  | zero => intro l; rfl
  | succ n ih =>
    intro l
    cases l with
    | nil => rfl
    | cons len rest =>
      by_cases h0 : len = 0
      · subst h0
        have : lower 0 = 0 := by decide
        simp [splitNameAux, this]
      · have h0' : ¬ lower len = 0 := fun e => h0 ((lower_zero_iff len).mp e)
        simp only [List.map_cons, splitNameAux, if_neg h0, if_neg h0']
        by_cases h63 : len.toNat ≤ 63
        · rw [lower_small len h63]
          simp only [List.length_map]
          by_cases hc : len.toNat > 63 ∨ rest.length < len.toNat
          · rw [if_pos hc, if_pos hc]; rfl
          · rw [if_neg hc, if_neg hc, ← List.map_drop, ih]
            cases splitNameAux n (rest.drop len.toNat) with
            | none => rfl
            | some p => simp [List.map_take]
        · have hb := lower_big len (by omega)
          rw [if_pos (Or.inl hb), if_pos (Or.inl (by omega))]
          rfl

theorem labelsOf_lower (l : Octets) :
    labelsOf (l.map lower) = (labelsOf l).map (fun ls => ls.map (·.map lower)) := by
  unfold labelsOf splitName
  rw [splitNameAux_lower, List.length_map]
  cases splitNameAux (l.length + 1) l with
  | none => rfl
  | some p =>
    obtain ⟨ls, r⟩ := p
    simp only [Option.map_some, List.length_map]
    by_cases hc : l.length - r.length ≤ 255
    · simp only [hc, if_true]
      cases r <;> rfl
    · simp only [hc, if_false]; rfl

/-- an owner that equals a well-formed name up to case has that name's labels up to case -/
theorem labelsOf_of_lower (w : Octets) (n : WName) (hn : n.WF)
    (h : w.map lowerU8 = n.wire.map lowerU8) :
    ∃ l, labelsOf w = some l ∧ l.map (·.map lower) = n.labels.map (·.map lower) := by
  have e : (lowerU8 : UInt8 → UInt8) = lower := funext (fun b => (lower_eq b).symm)
  rw [e] at h
  have h1 := labelsOf_lower w
  rw [h, labelsOf_lower, labelsOf_wire n hn] at h1
  cases hw : labelsOf w with
  | none => rw [hw] at h1; cases h1
  | some l =>
    rw [hw] at h1
    simp only [Option.map_some, Option.some.injEq] at h1
    exact ⟨l, rfl, h1.symm⟩

/-! ### the decision table, with the reply mode -/

open QV.ServerTsig in
/-- the rejected outcomes with the reply the table prescribes: unsigned, with the request's algorithm
    name, except for BADTIME, which is signed with the key found -/
theorem stopReply_cases (keys : List Server.Key) (nowT : Tsig.TimeSigned) (kn alg : WName)
    (rest mw : List UInt8) (kn' an : WName) (rc : Nat) (mode : TsigMode) (rr : TsigRr)
    (h : tsigStopReply Tsig.realHmac keys nowT (viewRr kn alg rest) mw kn' an = some (rc, mode, rr)) :
    (modelOutcome keys nowT kn alg rest mw = .badKey ∧ rc = 9 ∧ mode = .unsigned an ∧
      rr = prepOf kn' (viewRr kn alg rest) nowT 17) ∨
    (modelOutcome keys nowT kn alg rest mw = .formErr ∧ rc = 1 ∧
      (∃ a, Tsig.Algorithm.fromName (Tsig.lowerName alg.wire) = some a ∧
        mode = .unsigned (algName (Server.toWriterAlg a))) ∧ rr = prepOf kn' (viewRr kn alg rest) nowT 16) ∨
    (modelOutcome keys nowT kn alg rest mw = .badSig ∧ rc = 9 ∧
      (∃ a, Tsig.Algorithm.fromName (Tsig.lowerName alg.wire) = some a ∧
        mode = .unsigned (algName (Server.toWriterAlg a))) ∧ rr = prepOf kn' (viewRr kn alg rest) nowT 16) ∨
    (modelOutcome keys nowT kn alg rest mw = .badTime ∧ rc = 9 ∧
      (∃ a key, Tsig.Algorithm.fromName (Tsig.lowerName alg.wire) = some a ∧
        Server.findKey keys (Tsig.lowerName kn.wire) a = some key ∧
        mode = .response (Server.toWriterAlg a) (viewRr kn alg rest).mac key.secret) ∧
      rr = prepOf kn' (viewRr kn alg rest) nowT 18) := by
  unfold tsigStopReply at h
  unfold modelOutcome
  have e1 : (viewRr kn alg rest).algorithm = Tsig.lowerName alg.wire := rfl
  have e2 : (viewRr kn alg rest).keyName = Tsig.lowerName kn.wire := rfl
  rw [e1, e2] at h
  cases hfrom : Tsig.Algorithm.fromName (Tsig.lowerName alg.wire) with
  | none =>
    rw [hfrom] at h
    simp only [Option.some.injEq, Prod.mk.injEq] at h
    obtain ⟨rfl, rfl, rfl⟩ := h
    exact Or.inl ⟨rfl, rfl, rfl, rfl⟩
  | some a =>
    rw [hfrom] at h
    simp only at h ⊢
    cases hfind : Server.findKey keys (Tsig.lowerName kn.wire) a with
    | none =>
      rw [hfind] at h
      simp only [Option.some.injEq, Prod.mk.injEq] at h
      obtain ⟨rfl, rfl, rfl⟩ := h
      exact Or.inl ⟨rfl, rfl, rfl, rfl⟩
    | some key =>
      rw [hfind] at h
      simp only at h ⊢
      rcases hv : Tsig.verifyRequest Tsig.realHmac (viewRr kn alg rest) mw a key.secret nowT with u | e | _
      · rw [hv] at h; cases h
      · rw [hv] at h
        cases e with
        | FormErr =>
          simp only [Option.some.injEq, Prod.mk.injEq] at h
          obtain ⟨rfl, rfl, rfl⟩ := h
          exact Or.inr (Or.inl ⟨rfl, rfl, ⟨a, rfl, rfl⟩, rfl⟩)
        | BadSig =>
          simp only [Option.some.injEq, Prod.mk.injEq] at h
          obtain ⟨rfl, rfl, rfl⟩ := h
          exact Or.inr (Or.inr (Or.inl ⟨rfl, rfl, ⟨a, rfl, rfl⟩, rfl⟩))
        | BadTime =>
          simp only [Option.some.injEq, Prod.mk.injEq] at h
          obtain ⟨rfl, rfl, rfl⟩ := h
          exact Or.inr (Or.inr (Or.inr ⟨rfl, rfl, ⟨a, key, rfl, hfind, rfl⟩, rfl⟩))
      · rw [hv] at h; cases h

/-- the algorithm name of the reply mode is the request's, in lower case -/
theorem stop_algName (alg : WName) (a : Tsig.Algorithm)
    (ha : Tsig.Algorithm.fromName (Tsig.lowerName alg.wire) = some a) :
    (algName (Server.toWriterAlg a)).wire = Tsig.lowerName alg.wire := by
  rw [algName_wire]
  have := ServerTsig.fromName_some _ _ ha
  rw [lowerName_idem] at this
  exact this.symm

/-! ### the message ID -/

theorem decode_id (b : Bytes) (d : Spec.DMsg) (h : Spec.specDecodeMsg b = some d) :
    d.id = Spec.Server.hdr b 0 := by
  unfold Spec.specDecodeMsg at h
  split at h
  · cases h
  · rename_i hsz
    split at h
    · rename_i id fl qd an ns ar h0 h2 _ _ _ _
      rw [specField16_eq] at h0
      rw [if_pos (by omega)] at h0
      repeat' split at h
      all_goals first | (cases h; done) | skip
      simp only [Option.some.injEq] at h
      rw [← h]
      simp only [Option.some.injEq] at h0
      rw [← h0]
      rfl
    · cases h

/-! ### lists -/

theorem filter_snoc_unique {α : Type} (p q : α → Bool) (rest : List α) (o : α) (hr : ∀ x ∈ rest, q x = true)
    (hpq : ∀ x, q x = true → p x = false) (ho : p o = true) : (rest ++ [o]).filter p = [o] := by
  rw [List.filter_append]
  have : rest.filter p = [] := List.filter_eq_nil_iff.mpr (fun x hx => by rw [hpq x (hr x hx)]; simp)
  rw [this]
  simp [List.filter, ho]

theorem all_of_filter_length {α : Type} (q : α → Bool) (l : List α) (h : (l.filter q).length = l.length) :
    ∀ x ∈ l, q x = true := by
  have := List.length_filter_eq_length_iff.mp h
  exact this

end QV.ServerScan

namespace QV.ServerContent
open QV QV.Wire QV.Reader QV.Writer QV.Server QV.ServerSafety QV.ServerScan QV.ServerAnswer QV.Spec.Resolve QV.Spec QV.ServerTsig

/-- **a no-data response with a TSIG record, decoded**: header, empty answer and authority sections,
    the additional section = the OPT (iff reached, extended-RCODE octet 0) then the TSIG record, whose
    owner is the key name up to case and whose RDATA reads back field by field -/
theorem decoded_nodata_tsig (F : State) (q : Option Spec.DQuestion) (hG : Good F (qBody q)) (ts : Writer.Tsig)
    (hts : F.tsig = some ts) (hwf : (tsigAlgName ts.mode).WF) (l1 : ts.rr.timeSigned.length = 6)
    (l2 : ts.rr.serverTime.length = 6) (e : Bool) (p : Nat)
    (he : F.edns = (if e then some ⟨p, 0⟩ else none)) (v : View) (hh : HdrView F v)
    (b : Bytes) (mac : Option (List UInt8)) (hf : Writer.finish F Server.macFn = .ok (b, mac))
    (d : DMsg) (hd : specDecodeMsg b = some d) :
    d.rcode = v.rcode % 16 ∧ d.aa = v.aa ∧ d.tc = v.tc ∧ d.an = [] ∧ d.ns = [] ∧
    (∀ x ∈ d.ar, x.ty = 41 → x.rawTtl / 16777216 = 0) ∧
    ∃ rest o, d.ar = rest ++ [o] ∧ (∀ x ∈ rest, x.ty = 41) ∧ o.ty = 250 ∧ o.cls = 255 ∧ o.rawTtl = 0 ∧
      o.owner.map lowerU8 = ts.rr.keyName.wire.map lowerU8 ∧
      Spec.Tsig.parseRdata o.rdata = some ⟨(tsigAlgName ts.mode).labels, Spec.Tsig.nat48 ts.rr.timeSigned,
        ts.rr.fudge % 65536, mac.getD [], ts.rr.originalId % 65536, ts.rr.error % 65536,
        if ts.rr.error = XR_BADTIME then ts.rr.serverTime else []⟩ := by
  obtain ⟨hq1, hq2, hq3⟩ := qBody_norecs q
  obtain ⟨g1, g2, g3, rest, o, q1, q2, q3, q4, q5⟩ := tsig_fields_of_good F _ hG ts hts hwf l1 l2 v hh b mac hf d hd
  obtain ⟨rest', o', q1', _, _, _, q6, _, _, q9⟩ := tsig_of_good Server.macFn F _ hG ts hts b mac hf d hd
  obtain ⟨c1, c2, c3, c4⟩ := opt_of_good Server.macFn F _ hG (by rw [hq3]; simp) b mac hf d hd
  rw [q1] at q1'
  obtain ⟨er, eo⟩ := List.append_inj' q1' rfl
  simp only [List.cons.injEq, and_true] at eo
  subst er; subst eo
  rw [hq3] at q9
  rw [hq1] at c3; rw [hq2] at c4
  refine ⟨g1, g2, g3, List.length_eq_zero_iff.mp c3, List.length_eq_zero_iff.mp c4, ?_, rest, o, q1, ?_, q2, q3, q4, q6, q5⟩
  · intro x hx hty
    obtain ⟨ee, hee, _, _, hr⟩ := c2 x hx hty
    rw [he] at hee
    split at hee
    · simp only [Option.some.injEq] at hee; subst hee; rw [hr]; simp
    · cases hee
  · rw [q1, List.filter_append] at c1
    have ho : [o].filter (fun r => decide (r.ty = 41)) = [] := by simp [List.filter, q2]
    rw [ho, List.append_nil] at c1
    have := all_of_filter_length (fun r : Spec.DRr => decide (r.ty = 41)) rest (by rw [c1, q9]; simp)
    intro x hx
    exact of_decide_eq_true (this x hx)

end QV.ServerContent
