/-
  QV.Proofs.WriterDecodes — the independent message decoder of `QV.Spec.MsgDecode` follows the
  structural layout of the writer: questions and records are found exactly where the items are.
-/
import QV.Proofs.WriterShape
import QV.Spec.MsgDecode

namespace QV.Writer
open QV QV.Wire QV.Spec

theorem specField16_some {m : Bytes} {i : Nat} (h : i + 1 < m.size) : specField16 m i = some (be16 m i) := by
  unfold specField16 be16
  rw [Array.getElem?_eq_getElem (by omega), Array.getElem?_eq_getElem h]
  simp [Array.getD, h, show i < m.size by omega]

theorem specField32_some {m : Bytes} {i : Nat} (h : i + 3 < m.size) : ∃ v, specField32 m i = some v := by
  unfold specField32
  rw [specField16_some (by omega), specField16_some (by omega)]
  exact ⟨_, rfl⟩

theorem be16_extract (o : Bytes) (c i : Nat) (hc : c ≤ o.size) (hi : i + 1 < c) :
    be16 (o.extract 0 c) i = be16 o i :=
  be16_congr (extract_prefix_get o c hc i (by omega)) (extract_prefix_get o c hc (i + 1) hi)

theorem extract_size (o : Bytes) (c : Nat) (hc : c ≤ o.size) : (o.extract 0 c).size = c := by
  simp; omega

/-- the decoder finds the questions where the items are -/
theorem decodeQuestions_chain (s : State) (hw : WInv s) :
    ∀ (qs : List (Nat × Nat)) (p e : Nat), QChain s qs p e → e ≤ s.cursor →
      ∃ l, decodeQuestions (s.octets.extract 0 s.cursor) qs.length p = some (l, e) ∧ l.length = qs.length := by
  have hcs : s.cursor ≤ s.octets.size := Nat.le_trans hw.cur_av hw.av_size
  intro qs
  induction qs with
  | nil => intro p e h _; exact ⟨[], by simp [decodeQuestions, QChain] at h ⊢; exact h, rfl⟩
  | cons x r ih =>
    intro p e h he
    obtain ⟨a, k⟩ := x
    obtain ⟨h1, hit, h3⟩ := h
    subst h1
    obtain ⟨w, n, hd⟩ := item_decodes hw hit
    have hle := qchain_le h3
    obtain ⟨l, hl, hlen⟩ := ih _ _ h3 he
    have hsz := extract_size s.octets s.cursor hcs
    refine ⟨⟨w, be16 (s.octets.extract 0 s.cursor) (a + k), be16 (s.octets.extract 0 s.cursor) (a + k + 2)⟩ :: l,
      ?_, by simp [hlen]⟩
    simp only [List.length_cons, decodeQuestions, specQuestionAt, hd]
    rw [specField16_some (by rw [hsz]; omega), specField16_some (by rw [hsz]; omega)]
    simp only [hl]

/-- the decoder finds the records where the items are -/
theorem decodeRrs_chain (s : State) (hw : WInv s) :
    ∀ (rs : List RIt) (p e : Nat), RChain s rs p e → e ≤ s.cursor → ∀ n, n ≤ rs.length →
      ∃ l p', decodeRrs (s.octets.extract 0 s.cursor) n p = some (l, p') ∧ l.length = n ∧
        RChain s (rs.drop n) p' e ∧
        l.map (·.ty) = (rs.take n).map (fun it => be16 s.octets (it.a + it.k)) := by
  have hcs : s.cursor ≤ s.octets.size := Nat.le_trans hw.cur_av hw.av_size
  have hsz := extract_size s.octets s.cursor hcs
  intro rs
  induction rs with
  | nil =>
    intro p e h _ n hn
    have : n = 0 := by simpa using hn
    subst this
    exact ⟨[], p, rfl, rfl, h, rfl⟩
  | cons x r ih =>
    intro p e h he n hn
    cases n with
    | zero => exact ⟨[], p, rfl, rfl, h, rfl⟩
    | succ n =>
      obtain ⟨h1, hit, hb, h4⟩ := h
      subst h1
      obtain ⟨w, nl, hd⟩ := item_decodes hw hit
      have hle := rchain_le h4
      obtain ⟨l, p', hl, hlen, hch, hty⟩ := ih _ _ h4 he n (by simpa using hn)
      obtain ⟨ttl, httl⟩ := specField32_some (m := s.octets.extract 0 s.cursor) (i := x.a + x.k + 4)
        (by rw [hsz]; omega)
      have e8 : be16 (s.octets.extract 0 s.cursor) (x.a + x.k + 8) = x.rdlen := by
        rw [be16_extract _ _ _ hcs (by omega)]; exact hb
      have hty0 : be16 (s.octets.extract 0 s.cursor) (x.a + x.k) = be16 s.octets (x.a + x.k) :=
        be16_extract _ _ _ hcs (by omega)
      cases hex : expandRdata (s.octets.extract 0 s.cursor) (be16 (s.octets.extract 0 s.cursor) (x.a + x.k))
          (x.a + x.k + 10) x.rdlen with
      | some rd =>
        refine ⟨⟨w, be16 (s.octets.extract 0 s.cursor) (x.a + x.k),
          be16 (s.octets.extract 0 s.cursor) (x.a + x.k + 2), ttl, rd, x.a, true⟩ :: l, p', ?_,
          by simp [hlen], by simpa using hch, ?_⟩
        · simp only [decodeRrs, hd]
          rw [specField16_some (by rw [hsz]; omega), specField16_some (by rw [hsz]; omega), httl,
            specField16_some (by rw [hsz]; omega)]
          simp only [e8]
          rw [if_pos (by rw [hsz]; omega), hl]
          simp only [hex]
        · simp only [List.map_cons, List.take_succ_cons, hty, hty0]
      | none =>
        refine ⟨⟨w, be16 (s.octets.extract 0 s.cursor) (x.a + x.k),
          be16 (s.octets.extract 0 s.cursor) (x.a + x.k + 2), ttl,
          ((s.octets.extract 0 s.cursor).extract (x.a + x.k + 10) (x.a + x.k + 10 + x.rdlen)).toList, x.a, false⟩ :: l,
          p', ?_, by simp [hlen], by simpa using hch, ?_⟩
        · simp only [decodeRrs, hd]
          rw [specField16_some (by rw [hsz]; omega), specField16_some (by rw [hsz]; omega), httl,
            specField16_some (by rw [hsz]; omega)]
          simp only [e8]
          rw [if_pos (by rw [hsz]; omega), hl]
          simp only [hex]
        · simp only [List.map_cons, List.take_succ_cons, hty, hty0]


/-! ### what `finish` appends -/

theorem qchain_fields {s s' : State} (ho : s'.octets = s.octets) (hc : s'.cursor = s.cursor)
    (hg : s'.gLabels = s.gLabels) {qs : List (Nat × Nat)} {p e : Nat} (h : QChain s qs p e) :
    QChain s' qs p e :=
  qchain_move (fun a k _ it => item_fields it ho hc hg) h

theorem rchain_fields {s s' : State} (ho : s'.octets = s.octets) (hc : s'.cursor = s.cursor)
    (hg : s'.gLabels = s.gLabels) {rs : List RIt} {p e : Nat} (h : RChain s rs p e) :
    RChain s' rs p e :=
  rchain_move (lo := 0) (fun a k _ _ it => item_fields it ho hc hg) (fun i _ _ => by rw [ho]) (Nat.zero_le _) h

/-- one record appended by `finish` (no hint) -/
theorem chains_addRr_none {s s' : State} (hw : WInv s) (hl : PtrLogOK s) (owner : WName) (ty cls ttl : Nat)
    (rd : List UInt8) (hwf : owner.WF) (hty : ty < 65536)
    (h : addRr .none owner ty cls ttl rd s = (.ok (), s')) (hle : s'.cursor ≤ 65535)
    {qs : List (Nat × Nat)} {rs : List RIt} {r : Nat} (hr12 : r ≤ s.cursor)
    (hq : QChain s qs 12 r) (hr : RChain s rs r s.cursor) :
    WInv s' ∧ PtrLogOK s' ∧ Ext s s' ∧ QChain s' qs 12 r ∧
      ∃ it, RChain s' (rs ++ [it]) r s'.cursor ∧ be16 s'.octets (it.a + it.k) = ty := by
  obtain ⟨_, hok⟩ := sp_addRr (track := s.hv = some []) (s0 := s) (names := []) .none owner ty cls ttl rd hwf s
    ⟨[], _, none, recSt_init hw hl, trivial⟩
  obtain ⟨p, hrec⟩ := hok () s' h
  have e : Ext s s' := by
    have := frame_addRr .none owner ty cls ttl rd s
    rw [h] at this; exact this
  obtain ⟨k, hit, hlen, hb, htb⟩ := addRr_item .none owner ty cls ttl rd s s' hw hwf trivial h
  refine ⟨hrec.winv, hrec.log, e, ?_, ⟨s.cursor, k, s'.cursor - (s.cursor + k + 10)⟩, ?_, ?_⟩
  · exact qchain_move (fun a k _ it => item_ext it e) hq
  · exact rchain_append (rchain_ext e hr) (rchain_one hit hlen hb hle)
  · exact be16_of_bytesAt htb hty

end QV.Writer
