/-
  QV.Proofs.WriterDecodes — the independent message decoder of `QV.Spec.MsgDecode` follows the
  structural layout of the writer: questions and records are found exactly where the items are.
-/
import QV.Proofs.WriterShape
import QV.Spec.MsgDecode

namespace QV.Writer
open QV QV.Wire QV.Spec

theorem specField16_some {m : Bytes} {i : Nat} (h : i + 1 < m.size) : specField16 m i = some (be16 m i) := by
  unfold specField16 be16
  rw [Array.getElem?_eq_getElem (by omega), Array.getElem?_eq_getElem h]
  simp [Array.getD, h, show i < m.size by omega]

theorem specField32_some {m : Bytes} {i : Nat} (h : i + 3 < m.size) : ∃ v, specField32 m i = some v := by
  unfold specField32
  rw [specField16_some (by omega), specField16_some (by omega)]
  exact ⟨_, rfl⟩

theorem be16_extract (o : Bytes) (c i : Nat) (hc : c ≤ o.size) (hi : i + 1 < c) :
    be16 (o.extract 0 c) i = be16 o i :=
  be16_congr (extract_prefix_get o c hc i (by omega)) (extract_prefix_get o c hc (i + 1) hi)

theorem extract_size (o : Bytes) (c : Nat) (hc : c ≤ o.size) : (o.extract 0 c).size = c := by
  simp; omega

/-- the decoder finds the questions where the items are -/
theorem decodeQuestions_chain (s : State) (hw : WInv s) :
    ∀ (qs : List (Nat × Nat)) (p e : Nat), QChain s qs p e → e ≤ s.cursor →
      ∃ l, decodeQuestions (s.octets.extract 0 s.cursor) qs.length p = some (l, e) ∧ l.length = qs.length := by
  have hcs : s.cursor ≤ s.octets.size := Nat.le_trans hw.cur_av hw.av_size
  intro qs
  induction qs with
  | nil => intro p e h _; exact ⟨[], by simp [decodeQuestions, QChain] at h ⊢; exact h, rfl⟩
  | cons x r ih =>
    intro p e h he
    obtain ⟨a, k⟩ := x
    obtain ⟨h1, hit, h3⟩ := h
    subst h1
    obtain ⟨w, n, hd⟩ := item_decodes hw hit
    have hle := qchain_le h3
    obtain ⟨l, hl, hlen⟩ := ih _ _ h3 he
    have hsz := extract_size s.octets s.cursor hcs
    refine ⟨⟨w, be16 (s.octets.extract 0 s.cursor) (a + k), be16 (s.octets.extract 0 s.cursor) (a + k + 2)⟩ :: l,
      ?_, by simp [hlen]⟩
    simp only [List.length_cons, decodeQuestions, specQuestionAt, hd]
    rw [specField16_some (by rw [hsz]; omega), specField16_some (by rw [hsz]; omega)]
    simp only [hl]

/-- the decoder finds the records where the items are -/
theorem decodeRrs_chain (s : State) (hw : WInv s) :
    ∀ (rs : List RIt) (p e : Nat), RChain s rs p e → e ≤ s.cursor → ∀ n, n ≤ rs.length →
      ∃ l p', decodeRrs (s.octets.extract 0 s.cursor) n p = some (l, p') ∧ l.length = n ∧
        RChain s (rs.drop n) p' e ∧
        l.map (·.ty) = (rs.take n).map (fun it => be16 s.octets (it.a + it.k)) := by
  have hcs : s.cursor ≤ s.octets.size := Nat.le_trans hw.cur_av hw.av_size
  have hsz := extract_size s.octets s.cursor hcs
  intro rs
  induction rs with
  | nil =>
    intro p e h _ n hn
    have : n = 0 := by simpa using hn
    subst this
    exact ⟨[], p, rfl, rfl, h, rfl⟩
  | cons x r ih =>
    intro p e h he n hn
    cases n with
    | zero => exact ⟨[], p, rfl, rfl, h, rfl⟩
    | succ n =>
      obtain ⟨h1, hit, hb, h4⟩ := h
      subst h1
      obtain ⟨w, nl, hd⟩ := item_decodes hw hit
      have hle := rchain_le h4
      obtain ⟨l, p', hl, hlen, hch, hty⟩ := ih _ _ h4 he n (by simpa using hn)
      obtain ⟨ttl, httl⟩ := specField32_some (m := s.octets.extract 0 s.cursor) (i := x.a + x.k + 4)
        (by rw [hsz]; omega)
      have e8 : be16 (s.octets.extract 0 s.cursor) (x.a + x.k + 8) = x.rdlen := by
        rw [be16_extract _ _ _ hcs (by omega)]; exact hb
      have hty0 : be16 (s.octets.extract 0 s.cursor) (x.a + x.k) = be16 s.octets (x.a + x.k) :=
        be16_extract _ _ _ hcs (by omega)
      cases hex : expandRdata (s.octets.extract 0 s.cursor) (be16 (s.octets.extract 0 s.cursor) (x.a + x.k))
          (x.a + x.k + 10) x.rdlen with
      | some rd =>
        refine ⟨⟨w, be16 (s.octets.extract 0 s.cursor) (x.a + x.k),
          be16 (s.octets.extract 0 s.cursor) (x.a + x.k + 2), ttl, rd, x.a, true⟩ :: l, p', ?_,
          by simp [hlen], by simpa using hch, ?_⟩
        · simp only [decodeRrs, hd]
          rw [specField16_some (by rw [hsz]; omega), specField16_some (by rw [hsz]; omega), httl,
            specField16_some (by rw [hsz]; omega)]
          simp only [e8]
          rw [if_pos (by rw [hsz]; omega), hl]
          simp only [hex]
        · simp only [List.map_cons, List.take_succ_cons, hty, hty0]
      | none =>
        refine ⟨⟨w, be16 (s.octets.extract 0 s.cursor) (x.a + x.k),
          be16 (s.octets.extract 0 s.cursor) (x.a + x.k + 2), ttl,
          ((s.octets.extract 0 s.cursor).extract (x.a + x.k + 10) (x.a + x.k + 10 + x.rdlen)).toList, x.a, false⟩ :: l,
          p', ?_, by simp [hlen], by simpa using hch, ?_⟩
        · simp only [decodeRrs, hd]
          rw [specField16_some (by rw [hsz]; omega), specField16_some (by rw [hsz]; omega), httl,
            specField16_some (by rw [hsz]; omega)]
          simp only [e8]
          rw [if_pos (by rw [hsz]; omega), hl]
          simp only [hex]
        · simp only [List.map_cons, List.take_succ_cons, hty, hty0]


/-! ### what `finish` appends -/

theorem qchain_fields {s s' : State} (ho : s'.octets = s.octets) (hc : s'.cursor = s.cursor)
    (hg : s'.gLabels = s.gLabels) {qs : List (Nat × Nat)} {p e : Nat} (h : QChain s qs p e) :
    QChain s' qs p e :=
  qchain_move (fun a k _ it => item_fields it ho hc hg) h

theorem rchain_fields {s s' : State} (ho : s'.octets = s.octets) (hc : s'.cursor = s.cursor)
    (hg : s'.gLabels = s.gLabels) {rs : List RIt} {p e : Nat} (h : RChain s rs p e) :
    RChain s' rs p e :=
  rchain_move (lo := 0) (fun a k _ _ it => item_fields it ho hc hg) (fun i _ _ => by rw [ho]) (Nat.zero_le _) h

theorem rchain_mem {s : State} : ∀ {rs : List RIt} {p e : Nat}, RChain s rs p e → ∀ x ∈ rs, x.a + x.k + 10 ≤ e := by
  intro rs
  induction rs with
  | nil => intro p e _ x hx; cases hx
  | cons y r ih =>
    intro p e h x hx
    obtain ⟨_, _, _, h4⟩ := h
    rcases List.mem_cons.mp hx with rfl | hx
    · have := rchain_le h4; omega
    · exact ih h4 x hx

/-- one record appended by `finish` (no hint) -/
theorem chains_addRr_none {s s' : State} (hw : WInv s) (hl : PtrLogOK s) (owner : WName) (ty cls ttl : Nat)
    (rd : List UInt8) (hwf : owner.WF) (hty : ty < 65536)
    (h : addRr .none owner ty cls ttl rd s = (.ok (), s')) (hle : s'.cursor ≤ 65535)
    {qs : List (Nat × Nat)} {rs : List RIt} {r : Nat} (hr12 : r ≤ s.cursor)
    (hq : QChain s qs 12 r) (hr : RChain s rs r s.cursor) :
    WInv s' ∧ PtrLogOK s' ∧ Ext s s' ∧ QChain s' qs 12 r ∧
      ∃ it, RChain s' (rs ++ [it]) r s'.cursor ∧ be16 s'.octets (it.a + it.k) = ty := by
  obtain ⟨_, hok⟩ := sp_addRr (track := s.hv = some []) (s0 := s) (names := []) .none owner ty cls ttl rd hwf s
    ⟨[], _, none, recSt_init hw hl, trivial⟩
  obtain ⟨p, hrec⟩ := hok () s' h
  have e : Ext s s' := by
    have := frame_addRr .none owner ty cls ttl rd s
    rw [h] at this; exact this
  obtain ⟨k, hit, hlen, hb, htb, _, _⟩ := addRr_item .none owner ty cls ttl rd s s' hw hwf trivial h
  refine ⟨hrec.winv, hrec.log, e, ?_, ⟨s.cursor, k, s'.cursor - (s.cursor + k + 10)⟩, ?_, ?_⟩
  · exact qchain_move (fun a k _ it => item_ext it e) hq
  · exact rchain_append (rchain_ext e hr) (rchain_one hit hlen hb hle)
  · exact be16_of_bytesAt htb.1 hty


theorem unwrap_ok_inv' {α} {f : M α} {s s' : State} {a : α} (h : unwrap f s = (.ok a, s')) :
    f s = (.ok a, s') := by
  unfold unwrap at h
  cases hf : f s with
  | mk r s1 =>
    rw [hf] at h
    cases r with
    | ok b => exact h
    | err e => cases h
    | panic => exact h

/-- the type field of an item -/
def itTy (s : State) (it : RIt) : Nat := be16 s.octets (it.a + it.k)

/-- the final chains: what `finish_with_mac` leaves in the buffer -/
structure FinLay (s sF : State) (len : Nat) : Prop where
  winv : WInv sF
  len : len = sF.cursor
  counts : BytesAt sF.octets 4 (u16be s.qdcount ++ u16be s.ancount ++ u16be s.nscount ++ u16be s.arcount)
  chains : ∃ qs rs o t, QChain sF qs 12 s.rrStart ∧ RChain sF (rs ++ o ++ t) s.rrStart sF.cursor ∧
    qs.length = s.qdcount ∧ rs.length + pend s = s.ancount + s.nscount + s.arcount ∧
    o.map (itTy sF) = (if s.edns.isSome then [41] else []) ∧
    t.map (itTy sF) = (if s.tsig.isSome then [250] else [])

theorem finishOpt_inv {edns : Option Edns} {s s1 : State} (h : finishOpt edns s = (.ok (), s1)) :
    (edns = none ∧ s1 = s) ∨ (∃ e, edns = some e ∧
      addRr .none WName.root T_OPT e.payload ((e.upper * 16777216) % 4294967296) []
        { s with available := s.available + Gen.OPT_RECORD_SIZE } = (.ok (), s1)) := by
  unfold finishOpt at h
  cases edns with
  | none => simp only [M.pure_apply] at h; cases h; exact Or.inl ⟨rfl, rfl⟩
  | some e =>
    simp only [M.bind_apply, M.modify_apply] at h
    exact Or.inr ⟨e, rfl, unwrap_ok_inv' h⟩

theorem finishTsig_inv {macFn : Tsig → List UInt8 → List UInt8} {tsig : Option Tsig} {s s' : State}
    {len : Nat} {mac : Option (List UInt8)} (h : finishTsig macFn tsig s = (.ok (len, mac), s')) :
    (tsig = none ∧ s' = s ∧ len = s.cursor) ∨ (∃ ts rdata, tsig = some ts ∧ len = s'.cursor ∧
      addRr .none ts.rr.keyName T_TSIG QC_ANY (ttlFrom 0) rdata
        { s with tsig := none, available := s.available + ts.reservedLen } = (.ok (), s')) := by
  unfold finishTsig at h
  cases tsig with
  | none =>
    simp only [M.bind_apply, M.gets_apply, M.pure_apply] at h
    cases h; exact Or.inl ⟨rfl, rfl, rfl⟩
  | some ts =>
    simp only [M.bind_apply, M.gets_apply] at h
    by_cases hc : s.cursor > s.octets.size
    · rw [if_pos hc] at h; cases h
    rw [if_neg hc] at h
    simp only [M.bind_apply, M.modify_apply] at h
    generalize tsigRdata ts.rr (tsigAlgName ts.mode) _ = rdata at h
    cases hu : unwrap (addRr .none ts.rr.keyName T_TSIG QC_ANY (ttlFrom 0) rdata)
        { s with tsig := none, available := s.available + ts.reservedLen } with
    | mk r3 s3 =>
      rw [hu] at h
      cases r3 with
      | err e => cases h
      | panic => cases h
      | ok u3 =>
        simp only [M.gets_apply, M.pure_apply] at h
        cases h
        exact Or.inr ⟨ts, rdata, rfl, rfl, unwrap_ok_inv' hu⟩

theorem finishWithMac_finLay (macFn : Tsig → List UInt8 → List UInt8) (s : State) (hI : I s) (hL : SLay s)
    (len : Nat) (mac : Option (List UInt8)) (sF : State)
    (hw : finishWithMac macFn s = (.ok (len, mac), sF)) (hle : sF.cursor ≤ 65535) : FinLay s sF len := by
  unfold finishWithMac at hw
  simp only [M.bind_apply, M.gets_apply] at hw
  obtain ⟨o, hceq, hIA, hosz⟩ := finishCounts_spec s.qdcount s.ancount s.nscount s.arcount s hI
  obtain ⟨kpre, kcnt, _, _, _, _, _⟩ := finishCounts_bytes _ _ _ _ s _ hceq
  rw [hceq] at hw
  simp only [] at hw
  generalize hsA : ({ s with octets := o } : State) = sA at hw hIA kpre kcnt
  have cA : sA.cursor = s.cursor := by rw [← hsA]
  have gA : sA.gLabels = s.gLabels := by rw [← hsA]
  have rA : sA.rrStart = s.rrStart := by rw [← hsA]
  have eA : sA.edns = s.edns := by rw [← hsA]
  have tA : sA.tsig = s.tsig := by rw [← hsA]
  have avA : sA.available = s.available := by rw [← hsA]
  have szA : sA.octets.size = s.octets.size := by rw [← hsA]; exact hosz
  have h12 : 12 ≤ s.cursor := hI.inv.hdr
  have hrr := hI.inv.rr_hi
  have hres := inv_reserved' hI.inv
  have hav := hI.inv.av_lim; have hls := hI.inv.lim_size
  have h11 : Gen.OPT_RECORD_SIZE = 11 := rfl
  -- the chains of `s`, in `sA`
  have hitA : ∀ a k, a + k ≤ s.cursor → Item s a k → Item sA a k := fun a k hk it =>
    item_move (lo := 12) it hI.winv.g12 (fun i h1 h2 => kpre i (Or.inr h1)) (by rw [cA]; exact hk)
      (fun g hg _ => by rw [gA]; exact hg)
  obtain ⟨qs, hq, hql⟩ := hL.q
  have hq12 : 12 ≤ s.rrStart := qchain_le hq
  -- the OPT record
  cases ho : finishOpt s.edns sA with
  | mk r2 s1 =>
    rw [ho] at hw
    cases r2 with
    | err e => cases hw
    | panic => cases hw
    | ok u2 =>
      simp only [] at hw
      have hT := finishTsig_inv hw
      have hO := finishOpt_inv ho
      have h41 : T_OPT = 41 := by decide
      have h250 : T_TSIG = 250 := by decide
      -- the cursor only grows
      have hmono : s1.cursor ≤ sF.cursor := by
        rcases hT with ⟨_, e, _⟩ | ⟨ts, rdata, _, _, hadd⟩
        · rw [e]; exact Nat.le_refl _
        · have := frame_addRr .none ts.rr.keyName T_TSIG QC_ANY (ttlFrom 0) rdata
            { s1 with tsig := none, available := s1.available + ts.reservedLen }
          rw [hadd] at this; exact this.cur
      have hmonoA : sA.cursor ≤ s1.cursor := by
        rcases hO with ⟨_, e⟩ | ⟨e, _, hadd⟩
        · rw [e]; exact Nat.le_refl _
        · have := frame_addRr .none WName.root T_OPT e.payload ((e.upper * 16777216) % 4294967296) []
            { sA with available := sA.available + Gen.OPT_RECORD_SIZE }
          rw [hadd] at this; exact this.cur
      have hle1 : s1.cursor ≤ 65535 := by omega
      have hle0 : s.cursor ≤ 65535 := by omega
      obtain ⟨rs, hr, hrl⟩ := hL.r hle0
      have hqA : QChain sA qs 12 s.rrStart := qchain_move (fun a k hk it => hitA a k (by omega) it) hq
      have hrA : RChain sA rs s.rrStart sA.cursor := by
        rw [cA]
        exact rchain_move (lo := 12) (fun a k _ hk it => hitA a k (by omega) it)
          (fun i hi h2 => be16_congr (kpre i (Or.inr hi)) (kpre (i + 1) (Or.inr (by omega)))) hq12 hr
      -- stage 1: the OPT record
      have stage1 : ∃ o, WInv s1 ∧ PtrLogOK s1 ∧ QChain s1 qs 12 s.rrStart ∧
          RChain s1 (rs ++ o) s.rrStart s1.cursor ∧
          o.map (itTy s1) = (if s.edns.isSome then [41] else []) ∧
          (∀ i, i < 12 → s1.octets[i]? = sA.octets[i]?) ∧ s1.tsig = s.tsig ∧ s1.gLabels.length ≥ 0 ∧
          s1.available + tsigReserved s.tsig ≤ s1.octets.size := by
        rcases hO with ⟨he, e⟩ | ⟨e, he, hadd⟩
        · subst e
          refine ⟨[], hIA.winv, hIA.log, hqA, by simpa using hrA, by rw [he]; rfl, fun _ _ => rfl, tA,
            Nat.zero_le _, ?_⟩
          rw [avA, szA]; rw [he] at hres; simp at hres; omega
        · rw [he] at hres
          simp only [Option.isSome_some, if_true, h11] at hres
          have wA' : WInv { sA with available := sA.available + Gen.OPT_RECORD_SIZE } := by
            have := winv_raise hIA.winv Gen.OPT_RECORD_SIZE (by rw [avA, szA, h11]; omega) sA.tsig
            exact this
          have hqA' : QChain { sA with available := sA.available + Gen.OPT_RECORD_SIZE } qs 12 s.rrStart :=
            qchain_fields (s := sA) (s' := { sA with available := sA.available + Gen.OPT_RECORD_SIZE }) rfl rfl rfl hqA
          have hrA' : RChain { sA with available := sA.available + Gen.OPT_RECORD_SIZE } rs s.rrStart sA.cursor :=
            rchain_fields (s := sA) (s' := { sA with available := sA.available + Gen.OPT_RECORD_SIZE }) rfl rfl rfl hrA
          obtain ⟨w1, l1, e1, hq1, it, hr1, hty1⟩ := chains_addRr_none
            (s := { sA with available := sA.available + Gen.OPT_RECORD_SIZE }) wA' hIA.log WName.root T_OPT
            e.payload ((e.upper * 16777216) % 4294967296) [] (by decide) (by decide) hadd hle1
            (r := s.rrStart) (by show s.rrStart ≤ sA.cursor; rw [cA]; exact hrr)
            hqA' hrA'
          refine ⟨[it], w1, l1, hq1, hr1, ?_, fun i hi => e1.pre i (by show i < sA.cursor; rw [cA]; omega),
            by rw [e1.tsig]; exact tA, Nat.zero_le _, ?_⟩
          · rw [he]; simp only [Option.isSome_some, if_true, List.map_cons, List.map_nil, itTy, hty1, h41]
          · rw [e1.available, e1.size]
            show sA.available + Gen.OPT_RECORD_SIZE + _ ≤ sA.octets.size
            rw [avA, szA, h11]; omega
      obtain ⟨o1, w1, l1, hq1, hr1, hty1, hpre1, ht1, _, hroom1⟩ := stage1
      -- stage 2: the TSIG record
      have c12 : 12 ≤ s1.cursor := by rw [cA] at hmonoA; omega
      rcases hT with ⟨hts, e, hlen⟩ | ⟨ts, rdata, hts, hlen, hadd⟩
      · subst e
        refine ⟨w1, hlen, ?_, qs, rs, o1, [], hq1, by simpa using hr1, hql, hrl, hty1, by rw [hts]; rfl⟩
        intro i hi
        have hl8 : (u16be s.qdcount ++ u16be s.ancount ++ u16be s.nscount ++ u16be s.arcount).length = 8 := rfl
        rw [hl8] at hi
        rw [hpre1 _ (by omega)]
        exact kcnt i (by rw [hl8]; exact hi)
      · have hts1 : s1.tsig = some ts := by rw [ht1, hts]
        obtain ⟨_, hkey, _, _, _⟩ := hI.tsig ts hts
        rw [hts] at hroom1
        simp only [tsigReserved] at hroom1
        have w1' : WInv { s1 with tsig := none, available := s1.available + ts.reservedLen } := by
          have := winv_raise w1 ts.reservedLen hroom1 none
          exact this
        have hq1' : QChain { s1 with tsig := none, available := s1.available + ts.reservedLen } qs 12 s.rrStart :=
          qchain_fields (s := s1) (s' := { s1 with tsig := none, available := s1.available + ts.reservedLen }) rfl rfl rfl hq1
        have hr1' : RChain { s1 with tsig := none, available := s1.available + ts.reservedLen } (rs ++ o1)
            s.rrStart s1.cursor := rchain_fields (s := s1) (s' := { s1 with tsig := none, available := s1.available + ts.reservedLen }) rfl rfl rfl hr1
        obtain ⟨w2, l2, e2, hq2, it, hr2, hty2⟩ := chains_addRr_none
          (s := { s1 with tsig := none, available := s1.available + ts.reservedLen }) w1' l1 ts.rr.keyName T_TSIG
          QC_ANY (ttlFrom 0) rdata hkey (by decide) hadd hle
          (r := s.rrStart) (by show s.rrStart ≤ s1.cursor; rw [cA] at hmonoA; omega)
          hq1' hr1'
        refine ⟨w2, hlen, ?_, qs, rs, o1, [it], hq2, by simpa [List.append_assoc] using hr2, hql, hrl, ?_, ?_⟩
        · intro i hi
          have hl8 : (u16be s.qdcount ++ u16be s.ancount ++ u16be s.nscount ++ u16be s.arcount).length = 8 := rfl
          rw [hl8] at hi
          rw [e2.pre _ (by show 4 + i < s1.cursor; omega), hpre1 _ (by omega)]
          exact kcnt i (by rw [hl8]; exact hi)
        · rw [← hty1]
          apply List.map_congr_left
          intro x hx
          -- the type field of the OPT item lies below the old cursor
          have hpos : x.a + x.k + 10 ≤ s1.cursor :=
            rchain_mem hr1 x (List.mem_append_right _ hx)
          exact be16_congr (e2.pre _ (by show x.a + x.k < s1.cursor; omega))
            (e2.pre _ (by show x.a + x.k + 1 < s1.cursor; omega))
        · rw [hts]; simp only [Option.isSome_some, if_true, List.map_cons, List.map_nil, itTy, hty2, h250]


/-- **the finished message decodes completely** under the independent decoder of
    `QV.Spec.MsgDecode`, in every compression mode: from a valid writer state whose layout is
    structured, whatever `finish` returns (if at most 65535 octets, as every DNS message is) decodes,
    with the writer's counts; the additional section ends with the OPT record iff EDNS is set, then
    the TSIG record iff a TSIG is set -/
theorem finish_decodes (macFn : Tsig → List UInt8 → List UInt8) (s : State) (hI : I s) (hL : SLay s)
    (m : Bytes) (mac : Option (List UInt8)) (hf : finish s macFn = .ok (m, mac)) (hsz : m.size ≤ 65535) :
    ∃ d, specDecodeMsg m = some d ∧ d.questions.length = s.qdcount ∧ d.an.length = s.ancount ∧
      d.ns.length = s.nscount ∧ d.ar.length = s.arcount ∧
      ∃ body, d.ar.map (·.ty) = body ++ (if s.edns.isSome then [41] else []) ++
        (if s.tsig.isSome then [250] else []) := by
  unfold finish at hf
  cases hw : finishWithMac macFn s with
  | mk r sF =>
    rw [hw] at hf
    cases r with
    | err e => cases hf
    | panic => cases hf
    | ok p =>
      obtain ⟨len, mc⟩ := p
      simp only [Out.ok.injEq, Prod.mk.injEq] at hf
      obtain ⟨hm, _⟩ := hf
      obtain ⟨hlim, hlc, hszF⟩ := finishWithMac_len macFn s hI.inv len mc sF hw
      have hls := hI.inv.lim_size
      have hcF : sF.cursor ≤ sF.octets.size := by omega
      have hmsz : m.size = sF.cursor := by rw [← hm, hlc]; exact extract_size _ _ hcF
      have hle : sF.cursor ≤ 65535 := by omega
      obtain ⟨wF, _, hcnt, qs, rs, o, t, hq, hr, hql, hrl, hot, htt⟩ := finishWithMac_finLay macFn s hI hL len mc sF hw hle
      rw [hlc] at hm
      subst hm
      have hsz' := extract_size sF.octets sF.cursor hcF
      have h12 : 12 ≤ sF.cursor := wF.c12
      -- the counts
      have hl2 : ∀ x, (u16be x).length = 2 := fun _ => rfl
      obtain ⟨c123, c4⟩ := bytesAt_append hcnt
      obtain ⟨c12, c3⟩ := bytesAt_append c123
      obtain ⟨c1, c2⟩ := bytesAt_append c12
      simp only [List.length_append, hl2] at c2 c3 c4
      have e4 : be16 (sF.octets.extract 0 sF.cursor) 4 = s.qdcount := by
        rw [be16_extract _ _ _ hcF (by omega)]; exact be16_of_bytesAt c1 (by have := hI.inv.qd; omega)
      have e6 : be16 (sF.octets.extract 0 sF.cursor) 6 = s.ancount := by
        rw [be16_extract _ _ _ hcF (by omega)]; exact be16_of_bytesAt c2 (by have := hI.inv.an; omega)
      have e8 : be16 (sF.octets.extract 0 sF.cursor) 8 = s.nscount := by
        rw [be16_extract _ _ _ hcF (by omega)]; exact be16_of_bytesAt c3 (by have := hI.inv.ns; omega)
      have e10 : be16 (sF.octets.extract 0 sF.cursor) 10 = s.arcount := by
        rw [be16_extract _ _ _ hcF (by omega)]; exact be16_of_bytesAt c4 (by have := hI.inv.ar; omega)
      -- lengths
      have hol : o.length = (if s.edns.isSome then 1 else 0) := by
        have := congrArg List.length hot
        rw [List.length_map] at this
        rw [this]; split <;> rfl
      have htl : t.length = (if s.tsig.isSome then 1 else 0) := by
        have := congrArg List.length htt
        rw [List.length_map] at this
        rw [this]; split <;> rfl
      have hpend : pend s = o.length + t.length := by rw [hol, htl]; rfl
      have hRl : (rs ++ o ++ t).length = s.ancount + s.nscount + s.arcount := by
        simp only [List.length_append]; omega
      have hrrle : s.rrStart ≤ sF.cursor := rchain_le hr
      -- questions
      obtain ⟨lq, hdq, hlq⟩ := decodeQuestions_chain sF wF qs 12 s.rrStart hq hrrle
      rw [hql] at hdq hlq
      -- the three record sections
      obtain ⟨la, p2, hda, hla, hch2, _⟩ := decodeRrs_chain sF wF _ _ _ hr (Nat.le_refl _) s.ancount (by omega)
      obtain ⟨ln, p3, hdn, hln, hch3, _⟩ := decodeRrs_chain sF wF _ _ _ hch2 (Nat.le_refl _) s.nscount
        (by rw [List.length_drop]; omega)
      obtain ⟨lr, p4, hdr, hlr, hch4, htys⟩ := decodeRrs_chain sF wF _ _ _ hch3 (Nat.le_refl _) s.arcount
        (by rw [List.length_drop, List.length_drop]; omega)
      have hnil : (((rs ++ o ++ t).drop s.ancount).drop s.nscount).drop s.arcount = [] := by
        apply List.eq_nil_of_length_eq_zero
        rw [List.length_drop, List.length_drop, List.length_drop]; omega
      rw [hnil] at hch4
      have hp4 : p4 = sF.cursor := hch4
      refine ⟨⟨be16 (sF.octets.extract 0 sF.cursor) 0, be16 (sF.octets.extract 0 sF.cursor) 2, lq, la, ln, lr⟩,
        ?_, hlq, hla, hln, hlr, ?_⟩
      · unfold specDecodeMsg
        rw [if_neg (by rw [hsz']; omega)]
        rw [specField16_some (by rw [hsz']; omega), specField16_some (by rw [hsz']; omega),
          specField16_some (by rw [hsz']; omega), specField16_some (by rw [hsz']; omega),
          specField16_some (by rw [hsz']; omega), specField16_some (by rw [hsz']; omega)]
        simp only [e4, e6, e8, e10, hdq, hda, hdn, hdr]
        rw [if_pos (by rw [hp4, hsz'])]
      · -- the types of the additional section
        have hange : s.ancount + s.nscount ≤ rs.length := by
          have := hI.inv.ar_ge
          have hp : pend s = (if s.edns.isSome then 1 else 0) + (if s.tsig.isSome then 1 else 0) := rfl
          omega
        have hdrop : ((rs ++ o ++ t).drop s.ancount).drop s.nscount = rs.drop (s.ancount + s.nscount) ++ o ++ t := by
          rw [List.drop_drop, List.append_assoc, List.drop_append_of_le_length (by omega)]
          simp [List.append_assoc, Nat.add_comm]
        have htake : (((rs ++ o ++ t).drop s.ancount).drop s.nscount).take s.arcount
            = rs.drop (s.ancount + s.nscount) ++ o ++ t := by
          rw [← hdrop]
          apply List.take_of_length_le
          rw [List.length_drop, List.length_drop]; omega
        refine ⟨(rs.drop (s.ancount + s.nscount)).map (itTy sF), ?_⟩
        show lr.map (·.ty) = _
        rw [htys, htake, List.map_append, List.map_append]
        show _ ++ o.map (itTy sF) ++ t.map (itTy sF) = _
        rw [hot, htt]
        rfl

end QV.Writer
