/-
  QV.Proofs.Rrl — lemmas behind C26, C27 (and the sequential core of C28).

  Layout
  * §1  parameters: what `RrlParams::configure` guarantees (`Valid`)
  * §2  the u32/u64 refill arithmetic equals the ℕ computation (the side defect D10 violated)
  * §3  one pass through the critical section refines one response of the eager bucket
  * §4  netmasks: masked equality ↔ the first `len` bits agree (every length, BitVec proof)
  * §5  keys ↔ streams
  * §6  whole histories over the table: every key sees its own eager bucket
  * §7  keys of a history ↔ streams of the specification
  * §8  one stream on its bucket; totality; shape of the outcome
-/
import QV.Model.Rrl
import QV.Spec.Rrl

namespace QV.Rrl
open QV

/-! ### §1 parameters -/

def rateOf (p : RrlParams) : Category → Nat
  | .NoError => p.noerror_rate
  | .NxDomain => p.nxdomain_rate
  | .Error => p.error_rate

/-- the limit of a category's buckets: rate × window -/
def capOf (p : RrlParams) (c : Category) : Nat := rateOf p c * p.window

/-- what every configuration accepted by `RrlParams::new` and the setters satisfies -/
structure RrlParams.Valid (p : RrlParams) : Prop where
  rate_pos : ∀ c, 1 ≤ rateOf p c
  window_pos : 1 ≤ p.window
  cap_u32 : ∀ c, capOf p c ≤ U32_MAX
  size_pos : 1 ≤ p.size

theorem RrlParams.Valid.cap_pos {p : RrlParams} (hv : p.Valid) (c : Category) : 1 ≤ capOf p c :=
  Nat.mul_le_mul (hv.rate_pos c) hv.window_pos

theorem new_ok {ne nx er w : Nat} {p : RrlParams} (h : RrlParams.new ne nx er w = .ok p) :
    p.noerror_rate = ne ∧ p.nxdomain_rate = nx ∧ p.error_rate = er ∧ p.window = w ∧
    1 ≤ ne ∧ 1 ≤ nx ∧ 1 ≤ er ∧ 1 ≤ w ∧ ne * w ≤ U32_MAX ∧ nx * w ≤ U32_MAX ∧ er * w ≤ U32_MAX ∧
    p.size = Gen.RRL_DEFAULT_SIZE := by
  unfold RrlParams.new at h
  by_cases h1 : ne = 0 <;> simp only [h1, if_true, if_false] at h
  · cases h
  by_cases h2 : nx = 0 <;> simp only [h2, if_true, if_false] at h
  · cases h
  by_cases h3 : er = 0 <;> simp only [h3, if_true, if_false] at h
  · cases h
  by_cases h4 : w = 0 <;> simp only [h4, if_true, if_false] at h
  · cases h
  by_cases h5 : (u32MulOverflows ne w || u32MulOverflows nx w || u32MulOverflows er w) = true
  · rw [if_pos h5] at h; cases h
  · rw [if_neg h5] at h
    simp only [u32MulOverflows, Bool.or_eq_true, decide_eq_true_eq, not_or, Nat.not_lt] at h5
    cases h
    refine ⟨rfl, rfl, rfl, rfl, ?_, ?_, ?_, ?_, h5.1.1, h5.1.2, h5.2, rfl⟩ <;> omega

/-- The configuration sequence (constructor + setters) only produces valid parameters, with
    the slip and the netmasks of the requested prefix lengths. -/
theorem configure_ok {ne nx er w slip v4len v6len size : Nat} {p : RrlParams}
    (h : RrlParams.configure ne nx er w slip v4len v6len size = .ok p) :
    p.Valid ∧ p.noerror_rate = ne ∧ p.nxdomain_rate = nx ∧ p.error_rate = er ∧ p.window = w ∧
    p.slip = slip ∧ p.size = size ∧ v4len ≤ 32 ∧ v6len ≤ 64 ∧
    p.ipv4_netmask = (if v4len = 0 then 0 else ipv4MaskOfLen v4len) ∧
    p.ipv6_netmask = (if v6len = 0 then 0 else ipv6MaskOfLen v6len) := by
  unfold RrlParams.configure at h
  cases h0 : RrlParams.new ne nx er w with
  | err e => simp [h0] at h
  | panic => simp [h0] at h
  | ok p0 =>
    obtain ⟨e1, e2, e3, e4, g1, g2, g3, g4, c1, c2, c3, _⟩ := new_ok h0
    simp only [h0, bind, Out.bind] at h
    unfold RrlParams.setIpv4PrefixLen at h
    by_cases a1 : v4len > 32
    · simp [a1] at h
    unfold RrlParams.setIpv6PrefixLen RrlParams.setSize RrlParams.setSlip at h
    by_cases a2 : v6len > 64
    · by_cases a0 : v4len = 0 <;> simp [a1, a0, a2] at h
    by_cases a3 : size = 0
    · by_cases a0 : v4len = 0 <;> by_cases b0 : v6len = 0 <;> simp [a1, a0, a2, b0, a3] at h
    have hv : ∀ q : RrlParams, q.noerror_rate = ne → q.nxdomain_rate = nx → q.error_rate = er →
        q.window = w → q.size = size → q.Valid := by
      intro q q1 q2 q3 q4 q5
      refine ⟨?_, by omega, ?_, by omega⟩ <;> intro c <;> cases c <;> simp [rateOf, capOf, q1, q2, q3, q4] <;> omega
    by_cases a0 : v4len = 0 <;> by_cases b0 : v6len = 0 <;> simp [a1, a0, a2, b0, a3] at h <;> subst h <;>
      refine ⟨hv _ e1 e2 e3 e4 rfl, e1, e2, e3, e4, rfl, rfl, by omega, by omega, ?_, ?_⟩ <;> simp [a0, b0]

theorem rateAndLimit_ok {p : RrlParams} (hv : p.Valid) (c : Category) :
    rateAndLimitForCategory p c = .ok (rateOf p c, capOf p c) := by
  have h := hv.cap_u32 c
  cases c <;> simp [rateAndLimitForCategory, u32Mul, capOf, rateOf] at h ⊢ <;> simp [h] <;> rfl

/-! ### §2 the refill arithmetic (u64 saturating multiplication, clamp, cast) -/

/-- For **all** rates and gaps the refill of the code is the ℕ value `min (rate·secs) (2³²−1)`:
    no overflow, no truncation. -/
theorem refillOf_eq (rate secs : Nat) : refillOf rate secs = min (rate * secs) U32_MAX := by
  unfold refillOf satMulU64 U32_MAX U64_MAX
  split <;> omega

/-- … so `count.saturating_sub(refill)` is the unbounded `count ∸ rate·secs` for every `u32` count. -/
theorem sub_refillOf (count rate secs : Nat) (h : count ≤ U32_MAX) :
    count - refillOf rate secs = count - rate * secs := by
  rw [refillOf_eq]; omega

/-- The pre-fix refill (D10) panics in the dev profile as soon as `rate·secs ≥ 2³²` … -/
theorem refillOldDev_panic_iff (rate secs : Nat) (hs : secs ≤ U32_MAX) :
    refillOldDev rate secs = .panic ↔ rate * secs > U32_MAX := by
  unfold refillOldDev u32Mul
  rw [Nat.mod_eq_of_lt (by unfold U32_MAX at *; omega)]
  split <;> simp <;> omega

/-- … and the recorded witness (rate 100, idle for 42 949 673 s) is such a case; the release
    profile wraps to a refill of 4 instead of 4 294 967 300. -/
theorem refillOld_witness :
    refillOldDev 100 42949673 = .panic ∧ refillOldRelease 100 42949673 = 4 ∧
    refillOf 100 42949673 = U32_MAX ∧ refillOldRelease 1 4294967296 = 0 := by
  refine ⟨?_, ?_, ?_, ?_⟩ <;>
    simp [refillOldDev, refillOldRelease, refillOf, u32Mul, satMulU64, U32_MAX, U64_MAX]

/-! ### §3 one pass through the critical section = one response of the eager bucket -/

theorem ticks_used (cap rate n tokens : Nat) (h : tokens ≤ cap) :
    cap - Spec.Rrl.ticks cap rate n tokens = (cap - tokens) - rate * n := by
  rw [Spec.Rrl.ticks_eq_ticksFast _ _ _ _ h]
  unfold Spec.Rrl.ticksFast
  split
  · simp_all
  · omega

theorem ticks_le (cap rate n tokens : Nat) (h : tokens ≤ cap) : Spec.Rrl.ticks cap rate n tokens ≤ cap := by
  rw [Spec.Rrl.ticks_eq_ticksFast _ _ _ _ h]; unfold Spec.Rrl.ticksFast; split <;> omega

/-- the refinement relation between a table entry and the eager bucket of its stream -/
structure Rel (cap : Nat) (key : Key) (e : Entry) (b : Spec.Rrl.Bucket) : Prop where
  key_eq : e.key = key
  tokens : e.count + b.tokens = cap
  phase : e.last_refill = b.t0 + b.ticksDone * NANOS_PER_SEC

/-- the action for a response the bucket sends / limits -/
def verdict (p : RrlParams) (rnd : Bool) (send : Bool) : Action :=
  if send then .Send else if shouldSlip p rnd then .Slip else .Drop

theorem processBucket_step {p : RrlParams} (hv : p.Valid) (key : Key) (cat : Category) (e : Entry)
    (b : Spec.Rrl.Bucket) (now : Nat) (rnd : Bool)
    (hrel : Rel (capOf p cat) key e b) (hnow : e.last_refill ≤ now) :
    ∃ e', processBucket p key cat e now rnd =
        .ok (e', verdict p rnd (b.respond (capOf p cat) (rateOf p cat) now).2) ∧
      Rel (capOf p cat) key e' (b.respond (capOf p cat) (rateOf p cat) now).1 ∧ e'.last_refill ≤ now := by
  obtain ⟨hk, htok, hph⟩ := hrel
  have hcap := hv.cap_u32 cat
  have hle : b.tokens ≤ capOf p cat := by omega
  -- the number of ticks the spec applies = whole seconds since last_refill
  have hn : Spec.Rrl.ticksUpTo b.t0 now - b.ticksDone = (now - e.last_refill) / NANOS_PER_SEC := by
    unfold Spec.Rrl.ticksUpTo Spec.Rrl.second
    unfold NANOS_PER_SEC at hph ⊢
    omega
  have hused := ticks_used (capOf p cat) (rateOf p cat) ((now - e.last_refill) / NANOS_PER_SEC) b.tokens hle
  have htl := ticks_le (capOf p cat) (rateOf p cat) ((now - e.last_refill) / NANOS_PER_SEC) b.tokens hle
  unfold processBucket
  simp only [hk, if_true, rateAndLimit_ok hv]
  unfold Spec.Rrl.Bucket.respond verdict
  simp only [hn]
  generalize hT : Spec.Rrl.ticks (capOf p cat) (rateOf p cat) ((now - e.last_refill) / NANOS_PER_SEC) b.tokens = T at *
  have hup : Spec.Rrl.ticksUpTo b.t0 now * NANOS_PER_SEC =
      now - (now - e.last_refill) % NANOS_PER_SEC - b.t0 := by
    unfold Spec.Rrl.ticksUpTo Spec.Rrl.second
    unfold NANOS_PER_SEC at hph ⊢
    omega
  have hup2 : b.t0 ≤ now - (now - e.last_refill) % NANOS_PER_SEC := by
    unfold NANOS_PER_SEC at hph ⊢
    omega
  by_cases hs : now - e.last_refill ≥ NANOS_PER_SEC
  · have hsub : (now - e.last_refill) % NANOS_PER_SEC ≤ now := by
      have := Nat.mod_le (now - e.last_refill) NANOS_PER_SEC; omega
    simp only [hs, hsub, if_true, refillOf_eq]
    generalize rateOf p cat * ((now - e.last_refill) / NANOS_PER_SEC) = R at *
    have hc : e.count - min R U32_MAX = capOf p cat - T := by omega
    rw [hc]
    by_cases hT0 : T > 0
    · have h1 : ¬ (capOf p cat - T ≥ capOf p cat) := by omega
      have h2 : capOf p cat - T + 1 ≤ U32_MAX := by omega
      simp only [h1, h2, hT0, if_true, if_false]
      refine ⟨_, rfl, ⟨rfl, ?_, ?_⟩, ?_⟩ <;> (try simp only) <;> omega
    · have h1 : capOf p cat - T ≥ capOf p cat := by omega
      simp only [h1, hT0, if_true, if_false]
      cases hsl : shouldSlip p rnd <;> simp only [if_true, if_false, Bool.false_eq_true] <;>
        refine ⟨_, rfl, ⟨rfl, ?_, ?_⟩, ?_⟩ <;> (try simp only) <;> omega
  · simp only [hs, if_false]
    have hz : (now - e.last_refill) / NANOS_PER_SEC = 0 := by
      unfold NANOS_PER_SEC at hs ⊢; omega
    have hTe : T = b.tokens := by rw [← hT, hz]; rfl
    have hm : (now - e.last_refill) % NANOS_PER_SEC = now - e.last_refill := by
      unfold NANOS_PER_SEC at hs ⊢; omega
    rw [hm] at hup hup2
    by_cases hT0 : T > 0
    · have h1 : ¬ (e.count ≥ capOf p cat) := by omega
      have h2 : e.count + 1 ≤ U32_MAX := by omega
      simp only [h1, h2, hT0, if_true, if_false]
      refine ⟨_, rfl, ⟨hk, ?_, ?_⟩, ?_⟩ <;> (try simp only) <;> omega
    · have h1 : e.count ≥ capOf p cat := by omega
      simp only [h1, hT0, if_true, if_false]
      cases hsl : shouldSlip p rnd <;> simp only [if_true, if_false, Bool.false_eq_true] <;>
        refine ⟨_, rfl, ⟨hk, ?_, ?_⟩, ?_⟩ <;> (try simp only) <;> omega

/-! ### §4 netmasks -/

theorem mask_eq_iff (w k : Nat) (a b : BitVec w) :
    a &&& (BitVec.allOnes w <<< k) = b &&& (BitVec.allOnes w <<< k) ↔ a >>> k = b >>> k := by
  constructor
  · intro h
    apply BitVec.eq_of_getLsbD_eq
    intro i hi
    have := congrArg (fun x => x.getLsbD (k + i)) h
    simp only [BitVec.getLsbD_and, BitVec.getLsbD_shiftLeft, BitVec.getLsbD_allOnes, BitVec.getLsbD_ushiftRight] at this ⊢
    by_cases hki : k + i < w
    · have h1 : ¬ (k + i < k) := by omega
      have h2 : k + i - k < w := by omega
      have h3 : i < w := by omega
      simpa [hki, h1, h2, h3] using this
    · have ha : a.getLsbD (k + i) = false := BitVec.getLsbD_of_ge _ _ (by omega)
      have hb : b.getLsbD (k + i) = false := BitVec.getLsbD_of_ge _ _ (by omega)
      rw [ha, hb]
  · intro h
    apply BitVec.eq_of_getLsbD_eq
    intro i hi
    simp only [BitVec.getLsbD_and, BitVec.getLsbD_shiftLeft, BitVec.getLsbD_allOnes]
    by_cases hik : i < k
    · simp [hik]
    · have := congrArg (fun x => x.getLsbD (i - k)) h
      simp only [BitVec.getLsbD_ushiftRight] at this
      have e : k + (i - k) = i := by omega
      rw [e] at this
      rw [this]

theorem ushiftRight_toNat_eq (w k : Nat) (a b : BitVec w) :
    a >>> k = b >>> k ↔ a.toNat / 2 ^ k = b.toNat / 2 ^ k := by
  rw [← BitVec.toNat_inj, BitVec.toNat_ushiftRight, BitVec.toNat_ushiftRight, Nat.shiftRight_eq_div_pow, Nat.shiftRight_eq_div_pow]


theorem ipv4MaskOfLen_toBitVec (len : Nat) (h1 : 1 ≤ len) (h2 : len ≤ 32) :
    (ipv4MaskOfLen len).toBitVec = BitVec.allOnes 32 <<< (32 - len) := by
  unfold ipv4MaskOfLen
  rw [UInt32.toBitVec_shiftLeft]
  have : (UInt32.ofNat (32 - len)).toBitVec = BitVec.ofNat 32 (32 - len) := rfl
  simp [this]
  rw [Nat.mod_eq_of_lt (by omega)]

theorem ipv6MaskOfLen_toBitVec (len : Nat) (h1 : 1 ≤ len) (h2 : len ≤ 64) :
    (ipv6MaskOfLen len).toBitVec = BitVec.allOnes 64 <<< (64 - len) := by
  unfold ipv6MaskOfLen
  rw [UInt64.toBitVec_shiftLeft]
  have : (UInt64.ofNat (64 - len)).toBitVec = BitVec.ofNat 64 (64 - len) := rfl
  simp [this]
  rw [Nat.mod_eq_of_lt (by omega)]

theorem ipv4_masked_eq_iff (len : Nat) (h1 : 1 ≤ len) (h2 : len ≤ 32) (a b : UInt32) :
    a &&& ipv4MaskOfLen len = b &&& ipv4MaskOfLen len ↔
      a.toNat / 2 ^ (32 - len) = b.toNat / 2 ^ (32 - len) := by
  rw [← UInt32.toBitVec_inj, UInt32.toBitVec_and, UInt32.toBitVec_and, ipv4MaskOfLen_toBitVec len h1 h2,
    mask_eq_iff, ushiftRight_toNat_eq]
  rfl

theorem ipv6_masked_eq_iff (len : Nat) (h1 : 1 ≤ len) (h2 : len ≤ 64) (a b : UInt64) :
    a &&& ipv6MaskOfLen len = b &&& ipv6MaskOfLen len ↔
      a.toNat / 2 ^ (64 - len) = b.toNat / 2 ^ (64 - len) := by
  rw [← UInt64.toBitVec_inj, UInt64.toBitVec_and, UInt64.toBitVec_and, ipv6MaskOfLen_toBitVec len h1 h2,
    mask_eq_iff, ushiftRight_toNat_eq]
  rfl

/-- the netmask as a number: the `len` most significant bits set (also for len = 0) -/
theorem ipv4MaskOfLen_toNat (len : Nat) (h1 : 1 ≤ len) (h2 : len ≤ 32) :
    (ipv4MaskOfLen len).toNat = 2 ^ 32 - 2 ^ (32 - len) := by
  have h : (ipv4MaskOfLen len).toNat = (ipv4MaskOfLen len).toBitVec.toNat := rfl
  rw [h, ipv4MaskOfLen_toBitVec len h1 h2, BitVec.toNat_shiftLeft, BitVec.toNat_allOnes, Nat.shiftLeft_eq]
  have hp : 2 ^ (32 - len) ≤ 2 ^ 31 := Nat.pow_le_pow_right (by omega) (by omega)
  have hp1 : 1 ≤ 2 ^ (32 - len) := Nat.one_le_two_pow
  generalize 2 ^ (32 - len) = P at *
  omega

/-! ### §5 keys ↔ streams -/

/-- the number an address denotes -/
def IpAddr.toSpec : IpAddr → Spec.Rrl.Addr
  | .v4 a => .v4 a.toNat
  | .v6 hi lo => .v6 (hi.toNat * 2 ^ 64 + lo.toNat)

def Category.toSpec : Category → Spec.Rrl.Cat
  | .NoError => .noerror
  | .NxDomain => .nxdomain
  | .Error => .other

theorem category_toSpec (rcode : Nat) :
    (Category.ofExtendedRcode rcode).toSpec = Spec.Rrl.catOf rcode := by
  unfold Category.ofExtendedRcode Gen.rrlCategoryCode Spec.Rrl.catOf
  by_cases h0 : rcode = 0
  · simp [h0, Category.toSpec]
  · by_cases h3 : rcode = 3
    · simp [h3, Category.toSpec]
    · simp [h0, h3, Category.toSpec]

theorem Category.toSpec_inj (a b : Category) : a.toSpec = b.toSpec ↔ a = b := by
  cases a <;> cases b <;> simp [Category.toSpec]

theorem lowerName_eq_foldCase (n : List UInt8) : lowerName n = Spec.Rrl.foldCase n := rfl

/-- `ReceivedInfo::new` is the spec's "IPv4-mapped IPv6 counts as IPv4" -/
theorem receivedInfo_toSpec (src : IpAddr) : (ReceivedInfo.new src).toSpec = src.toSpec.canonical := by
  cases src with
  | v4 a => rfl
  | v6 hi lo =>
    unfold ReceivedInfo.new
    simp only [IpAddr.toSpec, Spec.Rrl.Addr.canonical]
    have hlo := lo.toNat_lt
    have hhi := hi.toNat_lt
    have hsh : lo >>> 32 = 0xFFFF ↔ lo.toNat / 2 ^ 32 = 0xFFFF := by
      rw [← UInt64.toNat_inj, UInt64.toNat_shiftRight, Nat.shiftRight_eq_div_pow]
      rfl
    have hz : hi = 0 ↔ hi.toNat = 0 := by
      rw [← UInt64.toNat_inj]; rfl
    by_cases hc : hi = 0 ∧ lo >>> 32 = 0xFFFF
    · have h1 := hz.mp hc.1
      have h2 := hsh.mp hc.2
      rw [if_pos hc]
      have : (hi.toNat * 2 ^ 64 + lo.toNat) / 2 ^ 32 = 0xFFFF := by omega
      rw [if_pos this]
      simp only [UInt64.toNat_toUInt32]
      congr 1
      omega
    · rw [if_neg hc]
      have : ¬ (hi.toNat * 2 ^ 64 + lo.toNat) / 2 ^ 32 = 0xFFFF := by
        intro h
        apply hc
        rw [hz, hsh]
        omega
      rw [if_neg this]


/-- the configured prefix lengths and the netmasks they produce -/
structure MasksOf (p : RrlParams) (v4len v6len : Nat) : Prop where
  v4le : v4len ≤ 32
  v6le : v6len ≤ 64
  m4 : p.ipv4_netmask = (if v4len = 0 then 0 else ipv4MaskOfLen v4len)
  m6 : p.ipv6_netmask = (if v6len = 0 then 0 else ipv6MaskOfLen v6len)

theorem toUInt64_inj (a b : UInt32) : a.toUInt64 = b.toUInt64 ↔ a = b := by
  rw [← UInt64.toNat_inj, ← UInt32.toNat_inj, UInt32.toNat_toUInt64, UInt32.toNat_toUInt64]

theorem v6_prefix (hi lo len : Nat) (hlo : lo < 2 ^ 64) (hl : len ≤ 64) :
    (hi * 2 ^ 64 + lo) / 2 ^ (128 - len) = hi / 2 ^ (64 - len) := by
  have e : 128 - len = 64 + (64 - len) := by omega
  rw [e, Nat.pow_add, ← Nat.div_div_eq_div_mul]
  congr 1
  omega

/-- Same address family and same masked destination ↔ the (canonicalised) sources agree on the
    first `len` bits — for every IPv4 length 0..32 and every IPv6 length 0..64. -/
theorem dest_eq_iff {p : RrlParams} {v4len v6len : Nat} (hm : MasksOf p v4len v6len) (a b : IpAddr) :
    (a.isIpv6 = b.isIpv6 ∧ ipToDestU64 p a = ipToDestU64 p b) ↔
      (match a.toSpec, b.toSpec with
       | .v4 x, .v4 y => Spec.Rrl.samePrefix 32 v4len x y
       | .v6 x, .v6 y => Spec.Rrl.samePrefix 128 v6len x y
       | _, _ => False) := by
  cases a with
  | v4 x =>
    cases b with
    | v4 y =>
      simp only [IpAddr.isIpv6, ipToDestU64, IpAddr.toSpec, true_and, toUInt64_inj, Spec.Rrl.samePrefix]
      rw [hm.m4]
      by_cases h0 : v4len = 0
      · subst h0
        have hx := x.toNat_lt
        have hy := y.toNat_lt
        simp only [if_true, UInt32.and_zero, true_iff]
        rw [Nat.div_eq_of_lt (by omega), Nat.div_eq_of_lt (by omega)]
      · rw [if_neg h0]
        exact ipv4_masked_eq_iff v4len (by omega) hm.v4le x y
    | v6 hi lo => simp [IpAddr.isIpv6, IpAddr.toSpec]
  | v6 hi lo =>
    cases b with
    | v4 y => simp [IpAddr.isIpv6, IpAddr.toSpec]
    | v6 hi' lo' =>
      simp only [IpAddr.isIpv6, ipToDestU64, IpAddr.toSpec, true_and, Spec.Rrl.samePrefix]
      rw [v6_prefix _ _ _ lo.toNat_lt hm.v6le, v6_prefix _ _ _ lo'.toNat_lt hm.v6le, hm.m6]
      by_cases h0 : v6len = 0
      · subst h0
        have hx := hi.toNat_lt
        have hy := hi'.toNat_lt
        simp only [if_true, UInt64.and_zero, true_iff]
        rw [Nat.div_eq_of_lt (by omega), Nat.div_eq_of_lt (by omega)]
      · rw [if_neg h0]
        exact ipv6_masked_eq_iff v6len (by omega) hm.v6le hi hi'


/-- the name that identifies a NOERROR stream: the source of synthesis if there is one, else the
    QNAME, else (no question at all) the root name -/
def Context.streamName (c : Context) : List UInt8 :=
  match c.source_of_synthesis with
  | some s => s
  | none => c.question.getD ROOT_NAME

/-- the key `process_response` builds, as a total function -/
def keyFn (rs : RandomState) (p : RrlParams) (c : Context) : Key :=
  { dest := ipToDestU64 p c.source, ipv6 := c.source.isIpv6,
    qname_hash := if Category.ofExtendedRcode c.extended_rcode = .NoError
                  then rs.hashName (lowerName c.streamName) else 0,
    category := Category.ofExtendedRcode c.extended_rcode }

/-- computing the key never panics — for *every* context, with or without a question (this is
    where the code before commit 2232f31 had `question.unwrap()`; the proof depends on the
    extracted fact `RRL_QNAME_FALLBACK_IS_ROOT`) -/
theorem keyOf_ok (rs : RandomState) (p : RrlParams) (c : Context) :
    keyOf rs p c = .ok (keyFn rs p c) := by
  unfold keyOf keyFn qnameHashOf Context.streamName
  by_cases hc : Category.ofExtendedRcode c.extended_rcode = .NoError
  · simp only [hc, if_true]
    cases hs : c.source_of_synthesis with
    | some s => simp
    | none =>
      cases hq : c.question with
      | some q => simp
      | none => simp [Gen.RRL_QNAME_FALLBACK_IS_ROOT]
  · simp only [hc, if_false]

/-- **Key construction** (C27, model side): two responses get the same key iff same address
    family, same masked destination, same category, and — for NOERROR only — same QNAME hash. -/
theorem keyFn_eq_iff (rs : RandomState) (p : RrlParams) (c₁ c₂ : Context) :
    keyFn rs p c₁ = keyFn rs p c₂ ↔
      (c₁.source.isIpv6 = c₂.source.isIpv6 ∧ ipToDestU64 p c₁.source = ipToDestU64 p c₂.source) ∧
      Category.ofExtendedRcode c₁.extended_rcode = Category.ofExtendedRcode c₂.extended_rcode ∧
      (Category.ofExtendedRcode c₁.extended_rcode = .NoError →
        rs.hashName (lowerName c₁.streamName) = rs.hashName (lowerName c₂.streamName)) := by
  unfold keyFn
  simp only [Key.mk.injEq]
  constructor
  · rintro ⟨hd, hi, hh, hc⟩
    refine ⟨⟨hi, hd⟩, hc, ?_⟩
    intro hn
    rw [← hc] at hh
    simpa [hn] using hh
  · rintro ⟨⟨hi, hd⟩, hc, hh⟩
    refine ⟨hd, hi, ?_, hc⟩
    rw [← hc]
    by_cases hn : Category.ofExtendedRcode c₁.extended_rcode = .NoError
    · simp [hn, hh hn]
    · simp [hn]

/-- the response as the specification sees it (`src` = the source address before
    `ReceivedInfo::new`) -/
def toSpecResponse (src : IpAddr) (c : Context) (t : Nat) : Spec.Rrl.Response :=
  { src := src.toSpec, rcode := c.extended_rcode, name := c.streamName,
    udp := decide (c.transport = .Udp), opcode := c.opcode, time := t }

/-- **C27**: same key ↔ same stream, when the QNAME hash separates the two names. -/
theorem keyFn_eq_iff_sameStream (rs : RandomState) {p : RrlParams} {v4len v6len : Nat}
    (hm : MasksOf p v4len v6len) (s₁ s₂ : IpAddr) (c₁ c₂ : Context) (t₁ t₂ : Nat)
    (h₁ : c₁.source = ReceivedInfo.new s₁) (h₂ : c₂.source = ReceivedInfo.new s₂)
    (hinj : rs.hashName (lowerName c₁.streamName) = rs.hashName (lowerName c₂.streamName) →
      lowerName c₁.streamName = lowerName c₂.streamName) :
    keyFn rs p c₁ = keyFn rs p c₂ ↔
      Spec.Rrl.SameStream v4len v6len (toSpecResponse s₁ c₁ t₁) (toSpecResponse s₂ c₂ t₂) := by
  rw [keyFn_eq_iff, dest_eq_iff hm]
  unfold Spec.Rrl.SameStream Spec.Rrl.sameNetwork toSpecResponse
  simp only [h₁, h₂, receivedInfo_toSpec, ← category_toSpec, Category.toSpec_inj, ← lowerName_eq_foldCase]
  constructor
  · rintro ⟨hn, hc, hh⟩
    exact ⟨hn, hc, fun h => hinj (hh ((Category.toSpec_inj _ .NoError).mp h))⟩
  · rintro ⟨hn, hc, hh⟩
    exact ⟨hn, hc, fun h => by rw [hh ((Category.toSpec_inj _ .NoError).mpr h)]⟩

theorem subject_iff (c : Context) (s : IpAddr) (t : Nat) :
    subjectToRrl c = true ↔ c.send_response = true ∧ Spec.Rrl.Limitable (toSpecResponse s c t) := by
  unfold subjectToRrl Spec.Rrl.Limitable toSpecResponse Gen.RRL_LIMITED_TRANSPORT_IS_UDP Gen.RRL_LIMITED_OPCODE
  simp [and_assoc]

/-! ### §6 whole histories -/

section spec_lemmas
variable (cap rate : Nat)

/-- the bucket a stream's history (times of its earlier responses) leaves behind -/
def bucketAfter : List Nat → Option Spec.Rrl.Bucket
  | [] => none
  | t0 :: ts => some (ts.foldl (fun b t => (b.respond cap rate t).1) (Spec.Rrl.Bucket.create cap t0))

/-- the eager bucket's verdict on a response at `t` whose stream has the history `hist` -/
def eagerVerdict (hist : List Nat) (t : Nat) : Bool :=
  ((Spec.Rrl.eager cap rate (hist ++ [t])).getLast?).getD true

theorem run_append (b : Spec.Rrl.Bucket) (ts : List Nat) (t : Nat) :
    Spec.Rrl.Bucket.run cap rate b (ts ++ [t]) =
      Spec.Rrl.Bucket.run cap rate b ts ++
        [((ts.foldl (fun b t => (b.respond cap rate t).1) b).respond cap rate t).2] := by
  induction ts generalizing b with
  | nil => simp [Spec.Rrl.Bucket.run]
  | cons u us ih => simp [Spec.Rrl.Bucket.run, ih]

theorem eagerVerdict_eq (hist : List Nat) (t : Nat) :
    eagerVerdict cap rate hist t =
      match bucketAfter cap rate hist with
      | none => true
      | some b => (b.respond cap rate t).2 := by
  unfold eagerVerdict
  cases hist with
  | nil => simp [Spec.Rrl.eager, bucketAfter, Spec.Rrl.Bucket.run]
  | cons t0 ts =>
    simp only [List.cons_append, Spec.Rrl.eager, bucketAfter, run_append]
    rw [← List.cons_append, List.getLast?_concat]
    rfl

theorem bucketAfter_append (hist : List Nat) (t : Nat) :
    bucketAfter cap rate (hist ++ [t]) =
      some (match bucketAfter cap rate hist with
            | none => Spec.Rrl.Bucket.create cap t
            | some b => (b.respond cap rate t).1) := by
  cases hist with
  | nil => simp [bucketAfter]
  | cons t0 ts => simp [bucketAfter, List.foldl_append]

end spec_lemmas

/-- a time-stamped request: source address as received, the instant `process_response` reads
    under the lock, the random bit of `should_slip`, and the context the handler prepared -/
structure Req where
  src : IpAddr
  now : Nat
  rnd : Bool
  ctx : Context

/-- `process_response` over a whole history, one request after the other -/
def runAll (rs : RandomState) : Rrl → List Req → Out Empty (List Context)
  | _, [] => .ok []
  | r, q :: qs =>
    match processResponse rs r q.now q.rnd q.ctx with
    | .ok (r', c') =>
      (match runAll rs r' qs with
       | .ok cs => .ok (c' :: cs)
       | .err e => nomatch e
       | .panic => .panic)
    | .err e => nomatch e
    | .panic => .panic

/-- the key of a request that is subject to rate limiting -/
def Req.key? (rs : RandomState) (p : RrlParams) (q : Req) : Option Key :=
  if subjectToRrl q.ctx then some (keyFn rs p q.ctx) else none

/-- the times of the earlier responses with key `k` -/
def keyTimes (rs : RandomState) (p : RrlParams) (k : Key) (past : List Req) : List Nat :=
  (past.filter fun q => decide (q.key? rs p = some k)).map (·.now)

/-- what the eager bucket of the request's key says -/
def keyDecision (rs : RandomState) (p : RrlParams) (past : List Req) (q : Req) : Bool :=
  match q.key? rs p with
  | none => true
  | some k => eagerVerdict (capOf p k.category) (rateOf p k.category) (keyTimes rs p k past) q.now

/-- the context `process_response` must leave behind, given the bucket's verdict -/
def expectedCtx (p : RrlParams) (send : Bool) (q : Req) : Context :=
  if subjectToRrl q.ctx then applyAction q.ctx (verdict p q.rnd send) else q.ctx

def expectedFrom (dec : List Req → Req → Bool) (p : RrlParams) : List Req → List Req → List Context
  | _, [] => []
  | past, q :: rest => expectedCtx p (dec past q) q :: expectedFrom dec p (past ++ [q]) rest

/-- request times never decrease (they are read from a monotonic clock, in lock order) -/
def Mono : Nat → List Req → Prop
  | _, [] => True
  | t, q :: qs => t ≤ q.now ∧ Mono q.now qs

def bucketIdx (rs : RandomState) (p : RrlParams) (k : Key) : Nat := rs.hashKey k % p.size

/-- different keys of the history use different buckets -/
def NoBucketCollision (rs : RandomState) (p : RrlParams) (reqs : List Req) : Prop :=
  ∀ q ∈ reqs, ∀ q' ∈ reqs, ∀ k k', q.key? rs p = some k → q'.key? rs p = some k' →
    bucketIdx rs p k = bucketIdx rs p k' → k = k'

/-- no response has the key the table is initialised with (IPv4, destination 0, NOERROR, hash 0) -/
def NoInitialKey (rs : RandomState) (p : RrlParams) (reqs : List Req) : Prop :=
  ∀ q ∈ reqs, q.key? rs p ≠ some initialKey


/-- invariant of the table after the requests `past` -/
def Inv (rs : RandomState) (p : RrlParams) (all past : List Req) (R : Rrl) (tlast : Nat) : Prop :=
  R.params = p ∧
  ∀ k, (∃ q ∈ all, q.key? rs p = some k) →
    match bucketAfter (capOf p k.category) (rateOf p k.category) (keyTimes rs p k past) with
    | none => (R.buckets (bucketIdx rs p k)).key ≠ k
    | some b => Rel (capOf p k.category) k (R.buckets (bucketIdx rs p k)) b ∧
        (R.buckets (bucketIdx rs p k)).last_refill ≤ tlast

theorem keyTimes_append (rs : RandomState) (p : RrlParams) (k : Key) (past : List Req) (q : Req) :
    keyTimes rs p k (past ++ [q]) =
      keyTimes rs p k past ++ (if q.key? rs p = some k then [q.now] else []) := by
  unfold keyTimes
  rw [List.filter_append, List.map_append]
  by_cases h : q.key? rs p = some k <;> simp [h]

theorem processBucket_create (p : RrlParams) (key : Key) (cat : Category) (e : Entry) (now : Nat)
    (rnd : Bool) (h : e.key ≠ key) :
    processBucket p key cat e now rnd = .ok ({ key, count := 1, last_refill := now }, .Send) := by
  unfold processBucket
  rw [if_neg h]

theorem rel_create {p : RrlParams} (hv : p.Valid) (key : Key) (cat : Category) (now : Nat) :
    Rel (capOf p cat) key { key, count := 1, last_refill := now } (Spec.Rrl.Bucket.create (capOf p cat) now) := by
  have := hv.cap_pos cat
  refine ⟨rfl, ?_, ?_⟩ <;> simp [Spec.Rrl.Bucket.create] <;> omega


theorem processResponse_not_subject (rs : RandomState) (R : Rrl) (now : Nat) (rnd : Bool) (c : Context)
    (h : ¬ subjectToRrl c = true) : processResponse rs R now rnd c = .ok (R, c) := by
  unfold processResponse
  simp [h]

theorem processResponse_subject (rs : RandomState) (R : Rrl) (now : Nat) (rnd : Bool) (c : Context)
    (h : subjectToRrl c = true) (hsz : 1 ≤ R.params.size) (e : Entry) (a : Action)
    (hb : processBucket R.params (keyFn rs R.params c) (keyFn rs R.params c).category
      (R.buckets (bucketIdx rs R.params (keyFn rs R.params c))) now rnd = .ok (e, a)) :
    processResponse rs R now rnd c =
      .ok (R.setBucket (bucketIdx rs R.params (keyFn rs R.params c)) e, applyAction c a) := by
  unfold processResponse
  have hz : ¬ R.params.size = 0 := by omega
  unfold bucketIdx at hb
  simp only [h, Bool.not_true, Bool.false_eq_true, if_false, keyOf_ok rs R.params c, hz, hb]
  rfl

/-- the invariant is re-established after a subject request with key `k` whose bucket becomes `e'` -/
theorem inv_step {rs : RandomState} {p : RrlParams} {all past : List Req} {R : Rrl} {tlast : Nat}
    (hnc : NoBucketCollision rs p all) (hinv : Inv rs p all past R tlast) (q : Req) (hq : q ∈ all)
    (k : Key) (hk : q.key? rs p = some k) (htq : tlast ≤ q.now) (e' : Entry)
    (he' : match bucketAfter (capOf p k.category) (rateOf p k.category) (keyTimes rs p k past) with
           | none => Rel (capOf p k.category) k e' (Spec.Rrl.Bucket.create (capOf p k.category) q.now)
           | some b => Rel (capOf p k.category) k e' (b.respond (capOf p k.category) (rateOf p k.category) q.now).1)
    (hle : e'.last_refill ≤ q.now) :
    Inv rs p all (past ++ [q]) (R.setBucket (bucketIdx rs p k) e') q.now := by
  obtain ⟨hRp, hI⟩ := hinv
  refine ⟨hRp, ?_⟩
  intro k' hk'
  obtain ⟨q', hq', hk'q⟩ := hk'
  rw [keyTimes_append]
  by_cases hkk : k' = k
  · subst hkk
    simp only [hk, if_true, bucketAfter_append, Rrl.setBucket]
    cases hb : bucketAfter (capOf p k'.category) (rateOf p k'.category) (keyTimes rs p k' past) with
    | none => rw [hb] at he'; exact ⟨he', hle⟩
    | some b => rw [hb] at he'; exact ⟨he', hle⟩
  · have hne : ¬ q.key? rs p = some k' := by rw [hk]; intro h; cases h; exact hkk rfl
    have hidx : ¬ bucketIdx rs p k' = bucketIdx rs p k := fun h => hkk (hnc q' hq' q hq k' k hk'q hk h)
    simp only [hne, if_false, List.append_nil, Rrl.setBucket, hidx]
    have := hI k' ⟨q', hq', hk'q⟩
    cases hb : bucketAfter (capOf p k'.category) (rateOf p k'.category) (keyTimes rs p k' past) with
    | none => simpa [hb] using this
    | some b =>
      rw [hb] at this
      exact ⟨this.1, Nat.le_trans this.2 htq⟩

theorem inv_skip {rs : RandomState} {p : RrlParams} {all past : List Req} {R : Rrl} {tlast : Nat}
    (hinv : Inv rs p all past R tlast) (q : Req) (hk : q.key? rs p = none) (htq : tlast ≤ q.now) :
    Inv rs p all (past ++ [q]) R q.now := by
  obtain ⟨hRp, hI⟩ := hinv
  refine ⟨hRp, ?_⟩
  intro k' hk'
  rw [keyTimes_append]
  have hno : (if q.key? rs p = some k' then [q.now] else []) = [] := by rw [hk]; simp
  rw [hno, List.append_nil]
  have := hI k' hk'
  cases hb : bucketAfter (capOf p k'.category) (rateOf p k'.category) (keyTimes rs p k' past) with
  | none => simpa [hb] using this
  | some b =>
    rw [hb] at this
    exact ⟨this.1, Nat.le_trans this.2 htq⟩

/-- **Refinement of whole histories.** From any table state satisfying the invariant, running
    `process_response` over the remaining requests produces exactly the contexts the eager buckets
    (one per key) prescribe. -/
theorem runAll_refines {rs : RandomState} {p : RrlParams} (hv : p.Valid) (all : List Req)
    (hnc : NoBucketCollision rs p all) :
    ∀ (rest past : List Req) (R : Rrl) (tlast : Nat), all = past ++ rest →
      Inv rs p all past R tlast → Mono tlast rest →
      runAll rs R rest = .ok (expectedFrom (keyDecision rs p) p past rest) := by
  intro rest
  induction rest with
  | nil => intro past R tlast _ _ _; rfl
  | cons q rest ih =>
    intro past R tlast hall hinv hmono
    obtain ⟨htq, hmono'⟩ := hmono
    have hq : q ∈ all := by rw [hall]; simp
    have hall' : all = (past ++ [q]) ++ rest := by rw [hall]; simp
    have hRp := hinv.1
    by_cases hs : subjectToRrl q.ctx = true
    · have hk : q.key? rs p = some (keyFn rs p q.ctx) := by simp [Req.key?, hs]
      have hIk := hinv.2 (keyFn rs p q.ctx) ⟨q, hq, hk⟩
      have hsz : 1 ≤ R.params.size := by rw [hRp]; exact hv.size_pos
      have hdec : keyDecision rs p past q =
          eagerVerdict (capOf p (keyFn rs p q.ctx).category) (rateOf p (keyFn rs p q.ctx).category)
            (keyTimes rs p (keyFn rs p q.ctx) past) q.now := by
        unfold keyDecision; rw [hk]
      cases hb : bucketAfter (capOf p (keyFn rs p q.ctx).category) (rateOf p (keyFn rs p q.ctx).category)
          (keyTimes rs p (keyFn rs p q.ctx) past) with
      | none =>
        rw [hb] at hIk
        have hpb := processBucket_create p (keyFn rs p q.ctx) (keyFn rs p q.ctx).category _ q.now q.rnd hIk
        have hpr := processResponse_subject rs R q.now q.rnd q.ctx hs hsz _ _ (by rw [hRp]; exact hpb)
        rw [hRp] at hpr
        have hinv' := inv_step hnc hinv q hq _ hk htq _ (by rw [hb]; exact rel_create hv _ _ _) (Nat.le_refl _)
        simp only [runAll, hpr, ih _ _ _ hall' hinv' hmono', expectedFrom]
        have : expectedCtx p (keyDecision rs p past q) q = applyAction q.ctx .Send := by
          rw [hdec, eagerVerdict_eq, hb]
          simp [expectedCtx, hs, verdict]
        rw [this]
      | some b =>
        rw [hb] at hIk
        obtain ⟨e', hpb, hrel', hle'⟩ :=
          processBucket_step hv (keyFn rs p q.ctx) (keyFn rs p q.ctx).category _ b q.now q.rnd hIk.1
            (Nat.le_trans hIk.2 htq)
        have hpr := processResponse_subject rs R q.now q.rnd q.ctx hs hsz _ _ (by rw [hRp]; exact hpb)
        rw [hRp] at hpr
        have hinv' := inv_step hnc hinv q hq _ hk htq e' (by rw [hb]; exact hrel') hle'
        simp only [runAll, hpr, ih _ _ _ hall' hinv' hmono', expectedFrom]
        have : expectedCtx p (keyDecision rs p past q) q =
            applyAction q.ctx (verdict p q.rnd (b.respond (capOf p (keyFn rs p q.ctx).category)
              (rateOf p (keyFn rs p q.ctx).category) q.now).2) := by
          rw [hdec, eagerVerdict_eq, hb]
          simp [expectedCtx, hs]
        rw [this]
    · have hk : q.key? rs p = none := by simp [Req.key?, hs]
      have hinv' := inv_skip hinv q hk htq
      have hpr := processResponse_not_subject rs R q.now q.rnd q.ctx hs
      simp only [runAll, hpr, ih _ _ _ hall' hinv' hmono', expectedFrom]
      simp [expectedCtx, hs]

/-- a freshly created table satisfies the invariant when no response has the initial key -/
theorem inv_new (rs : RandomState) (p : RrlParams) (all : List Req) (T₀ : Nat)
    (hni : NoInitialKey rs p all) : Inv rs p all [] (Rrl.new p T₀) T₀ := by
  refine ⟨rfl, ?_⟩
  intro k ⟨q, hq, hk⟩
  simp only [keyTimes, List.filter_nil, List.map_nil, bucketAfter, Rrl.new]
  intro h
  exact hni q hq (by rw [hk, h])

/-! ### §7 keys of a history ↔ streams of the specification -/

def Req.toSpec (q : Req) : Spec.Rrl.Response := toSpecResponse q.src q.ctx q.now

/-- the responses the handler produced, as the specification sees them -/
def specPast (past : List Req) : List Spec.Rrl.Response :=
  (past.filter fun q => q.ctx.send_response).map Req.toSpec

/-- the configuration in the vocabulary of the documentation -/
def cfgOf (p : RrlParams) (v4len v6len : Nat) : Spec.Rrl.Config :=
  { noerrorRate := p.noerror_rate, nxdomainRate := p.nxdomain_rate, errorRate := p.error_rate,
    window := p.window, slip := p.slip, v4len, v6len }

/-- the specification's verdict on a request of a history -/
def specDecision (cfg : Spec.Rrl.Config) (past : List Req) (q : Req) : Bool :=
  Spec.Rrl.shouldSend cfg (specPast past) q.toSpec

/-- the 32-bit QNAME hash separates the names of the history (ignoring case) -/
def HashInjectiveOn (rs : RandomState) (reqs : List Req) : Prop :=
  ∀ q ∈ reqs, ∀ q' ∈ reqs,
    rs.hashName (lowerName q.ctx.streamName) = rs.hashName (lowerName q'.ctx.streamName) →
    lowerName q.ctx.streamName = lowerName q'.ctx.streamName

/-- every context carries the source canonicalised by `ReceivedInfo::new` -/
def SourcesCanonical (reqs : List Req) : Prop := ∀ q ∈ reqs, q.ctx.source = ReceivedInfo.new q.src

theorem expectedFrom_congr (dec₁ dec₂ : List Req → Req → Bool) (p : RrlParams) :
    ∀ (reqs past : List Req),
      (∀ pre q post, reqs = pre ++ q :: post → subjectToRrl q.ctx = true →
        dec₁ (past ++ pre) q = dec₂ (past ++ pre) q) →
      expectedFrom dec₁ p past reqs = expectedFrom dec₂ p past reqs := by
  intro reqs
  induction reqs with
  | nil => intros; rfl
  | cons q rest ih =>
    intro past h
    simp only [expectedFrom]
    congr 1
    · unfold expectedCtx
      by_cases hs : subjectToRrl q.ctx = true
      · have := h [] q rest rfl hs
        simp only [List.append_nil] at this
        rw [this]
      · simp [hs]
    · apply ih
      intro pre q' post hr hs
      have := h (q :: pre) q' post (by rw [hr]; rfl) hs
      simpa using this

theorem rateOf_spec (p : RrlParams) (v4len v6len : Nat) (q : Req) :
    Spec.Rrl.rateOf (cfgOf p v4len v6len).noerrorRate (cfgOf p v4len v6len).nxdomainRate
      (cfgOf p v4len v6len).errorRate q.toSpec = rateOf p (Category.ofExtendedRcode q.ctx.extended_rcode) := by
  unfold Spec.Rrl.rateOf Req.toSpec toSpecResponse cfgOf
  simp only [← category_toSpec]
  cases Category.ofExtendedRcode q.ctx.extended_rcode <;> rfl

/-- under the hypotheses, "earlier responses with the same key" are exactly "earlier limitable
    responses of the same stream" -/
theorem keyTimes_eq_streamPast (rs : RandomState) {p : RrlParams} {v4len v6len : Nat}
    (hm : MasksOf p v4len v6len) (all past : List Req) (q : Req)
    (hsub : ∀ x ∈ past, x ∈ all) (hq : q ∈ all)
    (hinj : HashInjectiveOn rs all) (hsrc : SourcesCanonical all) :
    keyTimes rs p (keyFn rs p q.ctx) past =
      (Spec.Rrl.streamPast (cfgOf p v4len v6len) (specPast past) q.toSpec).map (·.time) := by
  unfold keyTimes Spec.Rrl.streamPast specPast
  rw [List.filter_map, List.filter_filter, List.map_map]
  have hf : (fun x : Req => x.now) = (fun r : Spec.Rrl.Response => r.time) ∘ Req.toSpec := by
    funext x; rfl
  rw [hf]
  congr 1
  apply List.filter_congr
  intro x hx
  have hxa := hsub x hx
  rw [Bool.eq_iff_iff]
  simp only [Function.comp, Bool.and_eq_true, decide_eq_true_eq, Req.key?]
  unfold Req.toSpec cfgOf
  simp only
  by_cases hs : subjectToRrl x.ctx = true
  · have hsl := (subject_iff x.ctx x.src x.now).mp hs
    have hk := keyFn_eq_iff_sameStream rs hm x.src q.src x.ctx q.ctx x.now q.now (hsrc x hxa) (hsrc q hq)
      (hinj x hxa q hq)
    simp only [hs, if_true, Option.some.injEq, hk, decide_eq_true_eq]
    constructor
    · intro h; exact ⟨⟨hsl.2, h⟩, hsl.1⟩
    · intro h; exact h.1.2
  · have hns : ¬ (x.ctx.send_response = true ∧ Spec.Rrl.Limitable (toSpecResponse x.src x.ctx x.now)) :=
      fun h => hs ((subject_iff x.ctx x.src x.now).mpr h)
    simp only [hs]
    constructor
    · intro h; simp at h
    · intro h; exact absurd ⟨h.2, h.1.1⟩ hns

theorem keyDecision_eq_specDecision (rs : RandomState) {p : RrlParams} {v4len v6len : Nat}
    (hm : MasksOf p v4len v6len) (all past : List Req) (q : Req)
    (hsub : ∀ x ∈ past, x ∈ all) (hq : q ∈ all) (hs : subjectToRrl q.ctx = true)
    (hinj : HashInjectiveOn rs all) (hsrc : SourcesCanonical all) :
    keyDecision rs p past q = specDecision (cfgOf p v4len v6len) past q := by
  have hk : q.key? rs p = some (keyFn rs p q.ctx) := by simp [Req.key?, hs]
  have hl : Spec.Rrl.Limitable q.toSpec := ((subject_iff q.ctx q.src q.now).mp hs).2
  unfold keyDecision specDecision Spec.Rrl.shouldSend eagerVerdict
  rw [hk]
  simp only [hl, if_true, rateOf_spec]
  rw [keyTimes_eq_streamPast rs hm all past q hsub hq hinj hsrc]
  rfl

/-- **Whole histories against the specification** (used by C26 and C27). -/
theorem runAll_spec {rs : RandomState} {p : RrlParams} {v4len v6len : Nat} (hv : p.Valid)
    (hm : MasksOf p v4len v6len) (T₀ : Nat) (reqs : List Req)
    (hmono : Mono T₀ reqs) (hsrc : SourcesCanonical reqs)
    (hnc : NoBucketCollision rs p reqs) (hni : NoInitialKey rs p reqs) (hinj : HashInjectiveOn rs reqs) :
    runAll rs (Rrl.new p T₀) reqs =
      .ok (expectedFrom (specDecision (cfgOf p v4len v6len)) p [] reqs) := by
  rw [runAll_refines hv reqs hnc reqs [] (Rrl.new p T₀) T₀ rfl (inv_new rs p reqs T₀ hni) hmono]
  congr 1
  apply expectedFrom_congr
  intro pre q post hr hs
  apply keyDecision_eq_specDecision rs hm reqs _ q _ _ hs hinj hsrc
  · intro x hx
    rw [hr]
    simp only [List.nil_append] at hx
    exact List.mem_append_left _ hx
  · rw [hr]; simp

/-! ### §8 one stream on its bucket; totality -/

/-- the critical section, run once per `(now, rnd)` on one bucket (no other key touches it) -/
def bucketRun (p : RrlParams) (key : Key) (cat : Category) : Entry → List (Nat × Bool) → Out Empty (List Action)
  | _, [] => .ok []
  | e, (now, rnd) :: rest =>
    match processBucket p key cat e now rnd with
    | .ok (e', a) =>
      (match bucketRun p key cat e' rest with
       | .ok as => .ok (a :: as)
       | .err x => nomatch x
       | .panic => .panic)
    | .err x => nomatch x
    | .panic => .panic

/-- times never decrease -/
def MonoT : Nat → List (Nat × Bool) → Prop
  | _, [] => True
  | t, (now, _) :: rest => t ≤ now ∧ MonoT now rest

def verdicts (p : RrlParams) : List (Nat × Bool) → List Bool → List Action
  | (_, rnd) :: rest, d :: ds => verdict p rnd d :: verdicts p rest ds
  | _, _ => []

theorem bucketRun_rel {p : RrlParams} (hv : p.Valid) (key : Key) (cat : Category) :
    ∀ (hist : List (Nat × Bool)) (e : Entry) (b : Spec.Rrl.Bucket) (tlast : Nat),
      Rel (capOf p cat) key e b → e.last_refill ≤ tlast → MonoT tlast hist →
      bucketRun p key cat e hist =
        .ok (verdicts p hist (Spec.Rrl.Bucket.run (capOf p cat) (rateOf p cat) b (hist.map (·.1)))) := by
  intro hist
  induction hist with
  | nil => intros; rfl
  | cons h rest ih =>
    obtain ⟨now, rnd⟩ := h
    intro e b tlast hrel hle hmono
    obtain ⟨e', hpb, hrel', hle'⟩ := processBucket_step hv key cat e b now rnd hrel (Nat.le_trans hle hmono.1)
    simp only [bucketRun, hpb, ih e' _ now hrel' hle' hmono.2, List.map_cons, Spec.Rrl.Bucket.run, verdicts]

/-- **One stream, any time pattern**: a bucket that holds another key (or is fresh) and then
    sees only responses of one key decides exactly as the eager token bucket. -/
theorem bucketRun_eager {p : RrlParams} (hv : p.Valid) (key : Key) (cat : Category) (e₀ : Entry)
    (hne : e₀.key ≠ key) (hist : List (Nat × Bool)) (hmono : MonoT 0 hist) :
    bucketRun p key cat e₀ hist =
      .ok (verdicts p hist (Spec.Rrl.eager (capOf p cat) (rateOf p cat) (hist.map (·.1)))) := by
  cases hist with
  | nil => rfl
  | cons h rest =>
    obtain ⟨now, rnd⟩ := h
    simp only [bucketRun, processBucket_create p key cat e₀ now rnd hne, List.map_cons, Spec.Rrl.eager]
    rw [bucketRun_rel hv key cat rest _ _ now (rel_create hv key cat now) (Nat.le_refl _) hmono.2]
    simp [verdicts, verdict]

/-- the critical section never panics, whatever the bucket holds (no overflow in `rate * window`,
    in the refill, in `count += 1`; `now − subsec` is representable) -/
theorem processBucket_no_panic {p : RrlParams} (hv : p.Valid) (key : Key) (cat : Category) (e : Entry)
    (now : Nat) (rnd : Bool) : processBucket p key cat e now rnd ≠ .panic := by
  unfold processBucket
  rw [rateAndLimit_ok hv]
  have hcap := hv.cap_u32 cat
  have hm := Nat.mod_le (now - e.last_refill) NANOS_PER_SEC
  by_cases hk : e.key = key
  · simp only [hk, if_true]
    by_cases hs : now - e.last_refill ≥ NANOS_PER_SEC
    · have hsub : (now - e.last_refill) % NANOS_PER_SEC ≤ now := by omega
      simp only [hs, hsub, if_true]
      split
      · split <;> simp
      · split
        · simp
        · omega
    · simp only [hs, if_false]
      split
      · split <;> simp
      · split
        · simp
        · omega
  · simp [hk]

theorem processResponse_no_panic (rs : RandomState) (R : Rrl) (hv : R.params.Valid) (now : Nat)
    (rnd : Bool) (c : Context) :
    processResponse rs R now rnd c ≠ .panic := by
  by_cases hs : subjectToRrl c = true
  · cases hb : processBucket R.params (keyFn rs R.params c) (keyFn rs R.params c).category
        (R.buckets (bucketIdx rs R.params (keyFn rs R.params c))) now rnd with
    | panic => exact absurd hb (processBucket_no_panic hv _ _ _ _ _)
    | err x => exact nomatch x
    | ok r =>
      rw [processResponse_subject rs R now rnd c hs hv.size_pos r.1 r.2 hb]
      simp
  · rw [processResponse_not_subject rs R now rnd c hs]
    simp

theorem processBucket_action {p : RrlParams} {key : Key} {cat : Category} {e e' : Entry} {now : Nat}
    {rnd : Bool} {a : Action} (h : processBucket p key cat e now rnd = .ok (e', a)) :
    (a = .Slip → shouldSlip p rnd = true) ∧ (a = .Drop → shouldSlip p rnd = false) := by
  unfold processBucket at h
  by_cases hk : e.key = key
  · simp only [hk, if_true] at h
    cases hr : rateAndLimitForCategory p cat with
    | panic => simp [hr] at h
    | err x => exact nomatch x
    | ok rl =>
      obtain ⟨rate, limit⟩ := rl
      simp only [hr] at h
      generalize (ite (NANOS_PER_SEC ≤ now - e.last_refill) _ _ : Out Empty Entry) = X at h
      cases X with
      | panic => simp at h
      | err x => exact nomatch x
      | ok entry =>
        simp only at h
        by_cases hc : entry.count ≥ limit
        · simp only [hc, if_true] at h
          cases hsl : shouldSlip p rnd <;> simp only [hsl, if_true, Bool.false_eq_true, if_false, Out.ok.injEq, Prod.mk.injEq] at h <;>
            obtain ⟨_, rfl⟩ := h <;> simp
        · simp only [hc, if_false] at h
          by_cases h1 : entry.count + 1 ≤ U32_MAX
          · simp only [h1, if_true, Out.ok.injEq, Prod.mk.injEq] at h
            obtain ⟨_, rfl⟩ := h
            simp
          · simp [h1] at h
  · simp only [hk, if_false, Out.ok.injEq, Prod.mk.injEq] at h
    obtain ⟨_, rfl⟩ := h
    simp

/-- shape of the outcome: what `process_response` may do to a context -/
theorem processResponse_shape (rs : RandomState) (R : Rrl) (now : Nat) (rnd : Bool) (c : Context)
    (R' : Rrl) (c' : Context) (h : processResponse rs R now rnd c = .ok (R', c')) :
    (¬ subjectToRrl c = true ∧ R' = R ∧ c' = c) ∨
    (subjectToRrl c = true ∧ ∃ a, c' = applyAction c a ∧
      (a = .Slip → shouldSlip R.params rnd = true) ∧ (a = .Drop → shouldSlip R.params rnd = false)) := by
  by_cases hs : subjectToRrl c = true
  · right
    refine ⟨hs, ?_⟩
    unfold processResponse at h
    simp only [hs, Bool.not_true, Bool.false_eq_true, if_false] at h
    cases hk : keyOf rs R.params c with
    | panic => simp [hk] at h
    | err x => exact nomatch x
    | ok key =>
      simp only [hk] at h
      by_cases hz : R.params.size = 0
      · simp [hz] at h
      · simp only [hz, if_false] at h
        cases hb : processBucket R.params key key.category (R.buckets (rs.hashKey key % R.params.size)) now rnd with
        | panic => simp [hb] at h
        | err x => exact nomatch x
        | ok r =>
          obtain ⟨e, a⟩ := r
          simp only [hb, Out.ok.injEq, Prod.mk.injEq] at h
          refine ⟨a, h.2.symm, ?_, ?_⟩
          · exact (processBucket_action hb).1
          · exact (processBucket_action hb).2
  · left
    rw [processResponse_not_subject rs R now rnd c hs] at h
    cases h
    exact ⟨hs, rfl, rfl⟩

end QV.Rrl
