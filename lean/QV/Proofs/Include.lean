/-
  QV.Proofs.Include — the include-stack machine (`QV.Model.Include`) refines the recursive
  include semantics (`QV.Spec.Include`).
-/
import QV.Model.Include
import QV.Spec.Include
import QV.Proofs.ZoneFile.Parser

namespace QV.Inc
open QV QV.ZF QV.Spec.Inc

/-! ### the termination measure -/

theorem pow_pos' {B : Nat} (hB : 2 ≤ B) (e : Nat) : 0 < B ^ e := Nat.pow_pos (by omega)

theorem mu_pos {B D : Nat} (hB : 2 ≤ B) (f : Frame) (rest : List Frame) : 0 < mu B D (f :: rest) := by
  unfold mu
  have := pow_pos' hB (D - rest.length)
  have : 0 < (f.parser.st.inp.length + 1) * B ^ (D - rest.length) := Nat.mul_pos (by omega) this
  omega

/-- the top frame consumed input -/
theorem mu_top_lt {B D : Nat} (hB : 2 ≤ B) {f f' : Frame} (rest : List Frame)
    (h : f'.parser.st.inp.length < f.parser.st.inp.length) : mu B D (f' :: rest) < mu B D (f :: rest) := by
  unfold mu
  have hX := pow_pos' hB (D - rest.length)
  have : (f'.parser.st.inp.length + 1) * B ^ (D - rest.length) < (f.parser.st.inp.length + 1) * B ^ (D - rest.length) :=
    Nat.mul_lt_mul_of_lt_of_le (by omega) (Nat.le_refl _) hX
  omega

/-- the measure only looks at the remaining input of each frame -/
theorem mu_congr_head {B D : Nat} {f f' : Frame} (rest : List Frame)
    (h : f'.parser.st.inp.length = f.parser.st.inp.length) : mu B D (f' :: rest) = mu B D (f :: rest) := by
  unfold mu; rw [h]

/-- popping the finished top frame -/
theorem mu_pop_lt {B D : Nat} (hB : 2 ≤ B) (top prev prev' : Frame) (rest : List Frame)
    (h : prev'.parser.st.inp.length = prev.parser.st.inp.length) :
    mu B D (prev' :: rest) < mu B D (top :: prev :: rest) := by
  rw [mu_congr_head rest h]
  conv => rhs; unfold mu
  have hX := pow_pos' hB (D - (prev :: rest).length)
  have : 0 < (top.parser.st.inp.length + 1) * B ^ (D - (prev :: rest).length) := Nat.mul_pos (by omega) hX
  omega

/-- pushing an included file one level deeper, after the includer consumed the directive -/
theorem mu_push_lt {B D : Nat} (hB : 2 ≤ B) (child top top' : Frame) (rest : List Frame)
    (hdepth : rest.length < D) (hchild : child.parser.st.inp.length + 2 ≤ B)
    (htop : top'.parser.st.inp.length < top.parser.st.inp.length) :
    mu B D (child :: top' :: rest) < mu B D (top :: rest) := by
  unfold mu
  conv => lhs; arg 2; unfold mu
  have he : D - rest.length = (D - (rest.length + 1)) + 1 := by omega
  simp only [List.length_cons]
  rw [he, Nat.pow_succ]
  have hX := pow_pos' hB (D - (rest.length + 1))
  generalize B ^ (D - (rest.length + 1)) = X at *
  -- (c+1)·X + (r'+1)·(X·B) < (r+1)·(X·B)
  have h1 : (child.parser.st.inp.length + 1) * X < X * B := by
    rw [Nat.mul_comm X B]
    exact Nat.mul_lt_mul_of_lt_of_le (by omega) (Nat.le_refl _) hX
  have h2 : (top'.parser.st.inp.length + 1) * (X * B) ≤ top.parser.st.inp.length * (X * B) :=
    Nat.mul_le_mul_right _ (by omega)
  have h3 : (top.parser.st.inp.length + 1) * (X * B) = top.parser.st.inp.length * (X * B) + X * B := by
    rw [Nat.add_mul]; simp
  omega

/-! ### unfolding the run -/

theorem runFs_done {res : Resolver} {B : Nat} {m m' : FsParser} (h : step res m = .done m') :
    runFs res B m = [] := by
  rw [runFs, h]

theorem runFs_yield {res : Resolver} {B : Nat} {m m' : FsParser} {y : FsYield}
    (h : step res m = .yield y m') (hlt : mu B m'.maxDepth m'.files < mu B m.maxDepth m.files) :
    runFs res B m = y :: runFs res B m' := by
  rw [runFs, h]; simp [hlt]

theorem runFs_again {res : Resolver} {B : Nat} {m m' : FsParser}
    (h : step res m = .again m') (hlt : mu B m'.maxDepth m'.files < mu B m.maxDepth m.files) :
    runFs res B m = runFs res B m' := by
  rw [runFs, h]; simp [hlt]

theorem runFs_empty (res : Resolver) (B D : Nat) : runFs res B ⟨[], D⟩ = [] :=
  runFs_done (m' := ⟨[], D⟩) (by simp [step])

/-! ### the recursive semantics: contexts stay well-formed, nothing gets stuck -/

theorem childCtx_WF {ctx : Ctx} (hp' : CtxWF ctx) {origin : Option (List UInt8)}
    (ho : ∀ o, origin = some o → NameWF o) : CtxWF (childContext ctx origin) := by
  unfold childContext
  cases origin with
  | none => exact hp'
  | some o => exact ⟨fun x hx => by simp at hx; subst hx; exact ho _ rfl, hp'.2⟩

theorem newForInclude_eq (p : Parser) (content : List UInt8) (origin : Option (List UInt8)) :
    p.newForInclude content origin = Parser.withContext content (childContext p.ctx origin) := by
  unfold Parser.newForInclude childContext
  cases origin <;> rfl

theorem readFile_ctx {κ : Type} (resolve : κ → List UInt8 → Option (κ × List UInt8)) (D : Nat)
    (file : κ) (depth : Nat) (p : Parser) (hp : CtxWF p.ctx) :
    ∀ c, (readFile resolve D file depth p).2 = some c → CtxWF c := by
  fun_induction readFile resolve D file depth p
  all_goals try (intro c hc; simp at hc; done)
  case case1 file depth p p' hn =>
    intro c hc; simp at hc; subst hc
    have g := next_spec hp; rw [hn] at g; exact g
  case case4 file depth p line r p' hn hlt rest ih =>
    have g := next_spec hp; rw [hn] at g
    intro c hc; exact ih g.2.1 c hc
  case case9 file depth p line path origin p' hn hd child content hr childCtx ys c hchild hlt rest ih2 ih1 =>
    have g := next_spec hp; rw [hn] at g
    have hchildWF : CtxWF childCtx := childCtx_WF g.2.1 g.1
    have hc := ih2 hchildWF c (by rw [hchild])
    intro c' hc'
    exact ih1 ⟨g.2.1.1, hc.2⟩ c' hc'

/-! ### refinement -/

/-- the machine's resolver as the specification's `resolve` -/
def resolveOf (res : Resolver) : Path → List UInt8 → Option (Path × List UInt8) := fun a b =>
  match res a b with
  | .opened p c => some (p, c)
  | _ => none

/-- reports of the specification as items of `fs::Parser` -/
def conv : SY Path → FsYield
  | .record f l r => .record f l r
  | .err f (.Syntax k) l => .err f (.Syntax k) l
  | .err f .IncludesTooDeep l => .err f .IncludesTooDeep l
  | .err f .FailedToOpenInclude l => .err f .FailedToOpenInclude l
  | .err f .Stuck l => .err f .ModelStuck l
  | .panic => .panic

/-- what the machine does once the top file is finished with final context `c`: the includer
    continues with that context except for its own origin -/
def contRun (res : Resolver) (B D : Nat) (rest : List Frame) (c : Option Ctx) : List FsYield :=
  match c, rest with
  | some c, prev :: rest' =>
    runFs res B ⟨{ prev with parser := { prev.parser with ctx := { c with origin := prev.parser.ctx.origin } } } :: rest', D⟩
  | _, _ => []

/-! one pass of `next`, by what the top parser returns -/

theorem step_eof_last {res : Resolver} {top : Frame} {D : Nat} {p' : Parser}
    (hn : top.parser.next = (none, p')) : step res ⟨[top], D⟩ = .done ⟨[], D⟩ := by
  simp [step, hn]

theorem step_eof_pop {res : Resolver} {top prev : Frame} {rest : List Frame} {D : Nat} {p' : Parser}
    (hn : top.parser.next = (none, p')) :
    step res ⟨top :: prev :: rest, D⟩ =
      .again ⟨{ prev with parser := prev.parser.updateContextFromInclude p' } :: rest, D⟩ := by
  simp [step, hn]

theorem step_err {res : Resolver} {top : Frame} {rest : List Frame} {D : Nat} {e : Err} {p' : Parser}
    (hn : top.parser.next = (some (.err e), p')) :
    step res ⟨top :: rest, D⟩ = .yield (.err top.path (.Syntax e.kind) e.line) ⟨[], D⟩ := by
  simp [step, hn]

theorem step_record {res : Resolver} {top : Frame} {rest : List Frame} {D : Nat} {line : Nat} {r : Rec}
    {p' : Parser} (hn : top.parser.next = (some (.item (.record line r)), p')) :
    step res ⟨top :: rest, D⟩ = .yield (.record top.path line r) ⟨{ top with parser := p' } :: rest, D⟩ := by
  simp [step, hn]

theorem step_too_deep {res : Resolver} {top : Frame} {rest : List Frame} {D : Nat} {line : Nat}
    {path : List UInt8} {origin : Option (List UInt8)} {p' : Parser}
    (hn : top.parser.next = (some (.item (.incl line path origin)), p')) (hd : rest.length ≥ D) :
    step res ⟨top :: rest, D⟩ = .yield (.err top.path .IncludesTooDeep line) ⟨[], D⟩ := by
  simp [step, hn, hd]

theorem step_open_failed {res : Resolver} {top : Frame} {rest : List Frame} {D : Nat} {line : Nat}
    {path : List UInt8} {origin : Option (List UInt8)} {p' : Parser}
    (hn : top.parser.next = (some (.item (.incl line path origin)), p')) (hd : ¬ rest.length ≥ D)
    (hr : res top.path path = .failed) :
    step res ⟨top :: rest, D⟩ = .yield (.err top.path .FailedToOpenInclude line) ⟨[], D⟩ := by
  simp [step, hn, hr]; omega

theorem step_push {res : Resolver} {top : Frame} {rest : List Frame} {D : Nat} {line : Nat}
    {path : List UInt8} {origin : Option (List UInt8)} {p' : Parser} {np content : List UInt8}
    (hn : top.parser.next = (some (.item (.incl line path origin)), p')) (hd : ¬ rest.length ≥ D)
    (hr : res top.path path = .opened np content) :
    step res ⟨top :: rest, D⟩ =
      .again ⟨⟨np, line, p'.newForInclude content origin⟩ :: { top with parser := p' } :: rest, D⟩ := by
  simp [step, hn, hr]; omega

theorem mu_clear {B D : Nat} (hB : 2 ≤ B) (f : Frame) (rest : List Frame) :
    mu B D [] < mu B D (f :: rest) := by
  have := mu_pos (D := D) hB f rest
  simpa [mu] using this

theorem resolveOf_none {res : Resolver} (hnp : ∀ a b, res a b ≠ .noParent) {a b : List UInt8}
    (h : resolveOf res a b = none) : res a b = .failed := by
  unfold resolveOf at h
  cases hr : res a b with
  | opened x y => simp [hr] at h
  | failed => rfl
  | noParent => exact absurd hr (hnp _ _)

theorem resolveOf_some {res : Resolver} {a b child content : List UInt8}
    (h : resolveOf res a b = some (child, content)) : res a b = .opened child content := by
  unfold resolveOf at h
  cases hr : res a b with
  | opened x y => simp [hr] at h; rw [h.1, h.2]
  | failed => simp [hr] at h
  | noParent => simp [hr] at h

/-- **The include-stack machine refines the recursive semantics.**  Started on a stack whose top
    frame reads `file` at nesting depth `depth` (= number of frames below it), the machine yields
    what reading `file` recursively reports, and then goes on with the frames below exactly as
    if the file's final context had been handed to the includer (origin excepted). -/
theorem runFs_refines (res : Resolver) (B D : Nat) (hB : 2 ≤ B)
    (hsize : ∀ a b p c, res a b = .opened p c → c.length + 2 ≤ B)
    (hnp : ∀ a b, res a b ≠ .noParent)
    (file : Path) (depth : Nat) (p : Parser) (hp : CtxWF p.ctx) :
    ∀ (incFrom : Nat) (rest : List Frame), rest.length = depth →
    runFs res B ⟨⟨file, incFrom, p⟩ :: rest, D⟩ =
      (readFile (resolveOf res) D file depth p).1.map conv ++
        contRun res B D rest (readFile (resolveOf res) D file depth p).2 := by
  fun_induction readFile (resolveOf res) D file depth p
  case case1 file depth p p' hn =>
    intro incFrom rest hrest
    cases rest with
    | nil =>
      simp only [List.map_nil, List.nil_append, contRun]
      exact runFs_done (step_eof_last (top := ⟨file, incFrom, p⟩) hn)
    | cons prev rest' =>
      simp only [List.map_nil, List.nil_append, contRun]
      have hs := step_eof_pop (res := res) (top := ⟨file, incFrom, p⟩) (prev := prev) (rest := rest') (D := D) hn
      rw [runFs_again hs (mu_pop_lt hB _ prev _ rest' rfl)]
      rfl
  case case2 file depth p e p' hn =>
    intro incFrom rest hrest
    have hs := step_err (res := res) (top := ⟨file, incFrom, p⟩) (rest := rest) (D := D) hn
    rw [runFs_yield hs (mu_clear hB _ rest), runFs_empty]
    simp [conv, contRun]
  case case3 file depth p p' hn =>
    have g := next_spec hp; rw [hn] at g; exact absurd g (by simp [NextOK])
  case case4 file depth p line r p' hn hlt rest' ih =>
    intro incFrom rest hrest
    have g := next_spec hp; rw [hn] at g
    have hs := step_record (res := res) (top := ⟨file, incFrom, p⟩) (rest := rest) (D := D) hn
    rw [runFs_yield hs (mu_top_lt hB rest hlt)]
    have := ih g.2.1 incFrom rest hrest
    simp only at this ⊢
    rw [this]
    simp [conv, rest']
  case case5 file depth p line r p' hn hnlt =>
    have g := next_spec hp; rw [hn] at g; exact absurd g.2.2 hnlt
  case case6 file depth p line path origin p' hn hd =>
    intro incFrom rest hrest
    have hs := step_too_deep (res := res) (top := ⟨file, incFrom, p⟩) (rest := rest) (D := D) hn (by omega)
    rw [runFs_yield hs (mu_clear hB _ rest), runFs_empty]
    simp [conv, contRun]
  case case7 file depth p line path origin p' hn hd hr =>
    intro incFrom rest hrest
    have hs := step_open_failed (res := res) (top := ⟨file, incFrom, p⟩) (rest := rest) (D := D) hn
      (by omega) (resolveOf_none hnp hr)
    rw [runFs_yield hs (mu_clear hB _ rest), runFs_empty]
    simp [conv, contRun]
  case case8 file depth p line path origin p' hn hd child content hr childCtx ys hchild ih =>
    intro incFrom rest hrest
    have g := next_spec hp; rw [hn] at g
    have hres := resolveOf_some hr
    have hs := step_push (res := res) (top := ⟨file, incFrom, p⟩) (rest := rest) (D := D) hn (by omega) hres
    have hlt := mu_push_lt (D := D) hB ⟨child, line, p'.newForInclude content origin⟩ ⟨file, incFrom, p⟩
      ⟨file, incFrom, p'⟩ rest (by omega)
      (by rw [newForInclude_eq]; simpa [Parser.withContext] using hsize _ _ _ _ hres) g.2.2
    rw [runFs_again hs hlt, newForInclude_eq]
    have := ih (childCtx_WF g.2.1 g.1) line (⟨file, incFrom, p'⟩ :: rest) (by simp [hrest])
    rw [this, hchild]
    simp [contRun]
  case case9 file depth p line path origin p' hn hd child content hr childCtx ys c hchild hlt rest' ih2 ih1 =>
    intro incFrom rest hrest
    have g := next_spec hp; rw [hn] at g
    have hres := resolveOf_some hr
    have hs := step_push (res := res) (top := ⟨file, incFrom, p⟩) (rest := rest) (D := D) hn (by omega) hres
    have hlt' := mu_push_lt (D := D) hB ⟨child, line, p'.newForInclude content origin⟩ ⟨file, incFrom, p⟩
      ⟨file, incFrom, p'⟩ rest (by omega)
      (by rw [newForInclude_eq]; simpa [Parser.withContext] using hsize _ _ _ _ hres) g.2.2
    rw [runFs_again hs hlt', newForInclude_eq]
    have hchildWF := childCtx_WF g.2.1 g.1 (origin := origin)
    have h2 := ih2 hchildWF line (⟨file, incFrom, p'⟩ :: rest) (by simp [hrest])
    rw [h2, hchild]
    have hcWF := readFile_ctx (resolveOf res) D child (depth + 1) _ hchildWF c (by rw [hchild])
    have h1 := ih1 ⟨g.2.1.1, hcWF.2⟩ incFrom rest hrest
    have e : contRun res B D (⟨file, incFrom, p'⟩ :: rest) (some c) =
        runFs res B ⟨⟨file, incFrom, { p' with ctx := { c with origin := p'.ctx.origin } }⟩ :: rest, D⟩ := rfl
    rw [e, h1]
    simp [rest']
  case case10 file depth p line path origin p' hn hd child content hr childCtx ys c hchild hnlt ih =>
    have g := next_spec hp; rw [hn] at g
    exact absurd g.2.2 hnlt

/-- a report of the recursive semantics that is neither a panic nor the `Stuck` marker -/
def SYClean {κ : Type} : SY κ → Prop
  | .panic => False
  | .err _ .Stuck _ => False
  | _ => True

theorem readFile_clean {κ : Type} (resolve : κ → List UInt8 → Option (κ × List UInt8)) (D : Nat)
    (file : κ) (depth : Nat) (p : Parser) (hp : CtxWF p.ctx) :
    ∀ y ∈ (readFile resolve D file depth p).1, SYClean y := by
  fun_induction readFile resolve D file depth p
  case case1 => simp
  case case2 => simp [SYClean]
  case case3 file depth p p' hn =>
    have g := next_spec hp; rw [hn] at g; exact absurd g (by simp [NextOK])
  case case4 file depth p line r p' hn hlt rest ih =>
    have g := next_spec hp; rw [hn] at g
    intro y hy
    simp at hy
    rcases hy with rfl | hy
    · simp [SYClean]
    · exact ih g.2.1 y hy
  case case5 file depth p line r p' hn hnlt =>
    have g := next_spec hp; rw [hn] at g; exact absurd g.2.2 hnlt
  case case6 => simp [SYClean]
  case case7 => simp [SYClean]
  case case8 file depth p line path origin p' hn hd child content hr childCtx ys hchild ih =>
    have g := next_spec hp; rw [hn] at g
    have := ih (childCtx_WF g.2.1 g.1)
    rw [hchild] at this
    exact this
  case case9 file depth p line path origin p' hn hd child content hr childCtx ys c hchild hlt rest ih2 ih1 =>
    have g := next_spec hp; rw [hn] at g
    have hchildWF := childCtx_WF g.2.1 g.1 (origin := origin)
    have h2 := ih2 hchildWF
    rw [hchild] at h2
    have hcWF := readFile_ctx resolve D child (depth + 1) _ hchildWF c (by rw [hchild])
    have h1 := ih1 ⟨g.2.1.1, hcWF.2⟩
    intro y hy
    simp at hy
    rcases hy with hy | hy
    · exact h2 y hy
    · exact h1 y hy
  case case10 file depth p line path origin p' hn hd child content hr childCtx ys c hchild hnlt ih =>
    have g := next_spec hp; rw [hn] at g
    exact absurd g.2.2 hnlt

theorem conv_clean {y : SY Path} (h : SYClean y) :
    conv y ≠ .panic ∧ ∀ f l, conv y ≠ .err f .ModelStuck l := by
  cases y with
  | record f l r => simp [conv]
  | err f k l =>
    cases k <;> simp_all [conv, SYClean]
  | panic => simp [SYClean] at h

end QV.Inc
