/-
  QV.Proofs.WriterLayout — C12 (d), model side: in `Disabled` mode the buffer below the cursor is,
  after any sequence of calls, the canonical uncompressed encoding of the questions and records
  of the calls that succeeded (in order, by section), and `finish` appends OPT and TSIG.
-/
import QV.Proofs.WriterDisabled
import QV.Proofs.WriterSession

namespace QV.Writer
open QV QV.Wire QV.ServerSafety

/-- inversion of a successful `add_*_rr` -/
theorem addRrOp_ok_inv (sec : RrSection) (hint : Hint) (owner : WName) (ty cls ttl : Nat)
    (rd : List UInt8) (s s' : State) (h : addRrOp sec hint owner ty cls ttl rd s = (.ok (), s')) :
    ∃ s1 s2, changeSection sec s = (.ok (), s1) ∧ addRr hint owner ty cls (ttlFrom ttl) rd s1 = (.ok (), s2) ∧
      getCount sec s2 + 1 ≤ 65535 ∧ s' = (setCount sec (getCount sec s2 + 1) s2).2 := by
  unfold addRrOp at h
  rw [withRollback_apply] at h
  simp only [M.bind_apply] at h
  cases h1 : changeSection sec s with
  | mk r1 s1 =>
    rw [h1] at h
    cases r1 with
    | err e => cases h
    | panic => cases h
    | ok u1 =>
      simp only [] at h
      cases h2 : addRr hint owner ty cls (ttlFrom ttl) rd s1 with
      | mk r2 s2 =>
        rw [h2] at h
        cases r2 with
        | err e => cases h
        | panic => cases h
        | ok u2 =>
          simp only [M.gets_apply] at h
          by_cases hc : getCount sec s2 + 1 > 65535
          · rw [if_pos hc] at h; cases h
          · rw [if_neg hc] at h
            rw [setCount_apply] at h
            simp only [] at h
            cases h
            exact ⟨s1, s2, rfl, h2, by omega, rfl⟩

theorem addRrsetOp_ok_inv (sec : RrSection) (hint : Hint) (owner : WName) (ty cls ttl : Nat)
    (rds : List (List UInt8)) (s s' : State) (h : addRrsetOp sec hint owner ty cls ttl rds s = (.ok (), s')) :
    ∃ s1 s2 n, changeSection sec s = (.ok (), s1) ∧
      addRrset hint owner ty cls (ttlFrom ttl) rds 0 s1 = (.ok n, s2) ∧
      getCount sec s2 + n ≤ 65535 ∧ s' = (setCount sec (getCount sec s2 + n) s2).2 := by
  unfold addRrsetOp at h
  rw [withRollback_apply] at h
  simp only [M.bind_apply] at h
  cases h1 : changeSection sec s with
  | mk r1 s1 =>
    rw [h1] at h
    cases r1 with
    | err e => cases h
    | panic => cases h
    | ok u1 =>
      simp only [] at h
      cases h2 : addRrset hint owner ty cls (ttlFrom ttl) rds 0 s1 with
      | mk r2 s2 =>
        rw [h2] at h
        cases r2 with
        | err e => cases h
        | panic => cases h
        | ok n =>
          simp only [M.gets_apply] at h
          by_cases hn : n > 65535
          · rw [if_pos hn] at h; cases h
          · rw [if_neg hn] at h
            by_cases hc : getCount sec s2 + n > 65535
            · rw [if_pos hc] at h; cases h
            · rw [if_neg hc] at h
              rw [setCount_apply] at h
              simp only [] at h
              cases h
              exact ⟨s1, s2, n, rfl, h2, by omega, rfl⟩


theorem addRrset_count (owner : WName) (ty cls ttl : Nat) :
    ∀ (rds : List (List UInt8)) (hint : Hint) (n0 : Nat) (s s' : State) (n : Nat),
      addRrset hint owner ty cls ttl rds n0 s = (.ok n, s') → n = n0 + rds.length := by
  intro rds
  induction rds with
  | nil => intro hint n0 s s' n h; simp only [addRrset, M.pure_apply] at h; cases h; simp
  | cons rd rds ih =>
    intro hint n0 s s' n h
    unfold addRrset at h
    simp only [M.bind_apply] at h
    cases h1 : addRr hint owner ty cls ttl rd s with
    | mk r s1 =>
      rw [h1] at h
      cases r with
      | ok u => have := ih _ _ _ _ _ h; simp; omega
      | err e => cases h
      | panic => cases h

/-- a question as given to the writer -/
structure QRec where
  qname : WName
  qtype : Nat
  qclass : Nat
  deriving Repr, DecidableEq

/-- a record as given to the writer (`ttl` = the value inside the `Ttl`) -/
structure RRec where
  owner : WName
  ty : Nat
  cls : Nat
  ttl : Nat
  rdata : List UInt8
  deriving Repr, DecidableEq

/-- the questions and records a message holds, by section -/
structure Body where
  qs : List QRec := []
  an : List RRec := []
  ns : List RRec := []
  ar : List RRec := []
  deriving Repr, DecidableEq

def encQs (qs : List QRec) : List UInt8 := qs.flatMap fun q => encQ q.qname q.qtype q.qclass
def encRRs (rs : List RRec) : List UInt8 := rs.flatMap fun r => encRR r.owner r.ty r.cls r.ttl r.rdata

/-- the canonical encoding of the body of a message (RFC 1035 §4.1, no compression) -/
def Body.enc (b : Body) : List UInt8 := encQs b.qs ++ encRRs b.an ++ encRRs b.ns ++ encRRs b.ar

/-- **the layout invariant** (`Disabled` mode): below the cursor the buffer holds the header and
    the canonical encoding of `b`; the counts are those of `b` (plus the reserved OPT / TSIG
    records); sections are written in order -/
structure Lay (s : State) (b : Body) : Prop where
  mode : s.mode = .disabled
  bytes : BytesAt s.octets 12 b.enc
  cur : s.cursor = 12 + b.enc.length
  rr : s.rrStart = 12 + (encQs b.qs).length
  qd : s.qdcount = b.qs.length
  an : s.ancount = b.an.length
  ns : s.nscount = b.ns.length
  ar : s.arcount = b.ar.length + (if s.edns.isSome then 1 else 0) + (if s.tsig.isSome then 1 else 0)
  sq : s.sect = .question → b.an = [] ∧ b.ns = [] ∧ b.ar = []
  sa : s.sect = .answer → b.ns = [] ∧ b.ar = []
  su : s.sect = .authority → b.ar = []

/-- the layout only depends on the octets from 12 up to the cursor and on the bookkeeping -/
theorem lay_congr {s s' : State} {b : Body} (h : Lay s b)
    (hpre : ∀ i, 12 ≤ i → i < s.cursor → s'.octets[i]? = s.octets[i]?)
    (hm : s'.mode = s.mode) (hc : s'.cursor = s.cursor) (hr : s'.rrStart = s.rrStart)
    (hqd : s'.qdcount = s.qdcount) (han : s'.ancount = s.ancount) (hns : s'.nscount = s.nscount)
    (har : s'.arcount = s.arcount) (hs : s'.sect = s.sect) (he : s'.edns.isSome = s.edns.isSome)
    (ht : s'.tsig.isSome = s.tsig.isSome) : Lay s' b := by
  refine ⟨by rw [hm]; exact h.mode, ?_, by rw [hc]; exact h.cur, by rw [hr]; exact h.rr,
    by rw [hqd]; exact h.qd, by rw [han]; exact h.an, by rw [hns]; exact h.ns,
    by rw [har, he, ht]; exact h.ar, by rw [hs]; exact h.sq, by rw [hs]; exact h.sa, by rw [hs]; exact h.su⟩
  exact bytesAt_frame h.bytes (fun i h1 h2 => hpre i h1 (by rw [h.cur]; exact h2))

theorem lay_same {s s' : State} {b : Body} (h : Lay s b) (e : Same s s') : Lay s' b :=
  lay_congr h (fun i _ hi => e.pre i hi) e.mode e.cursor e.rrStart e.qd e.an e.ns e.ar e.sect
    (by rw [e.edns]) (by rw [e.tsig])


def toSect : RrSection → Section
  | .answer => .answer
  | .authority => .authority
  | .additional => .additional

theorem changeSection_ok_inv (sec : RrSection) (s s1 : State) (h : changeSection sec s = (.ok (), s1)) :
    s1 = { s with sect := toSect sec } ∧ (sec = .answer → s.sect = .question ∨ s.sect = .answer) ∧
      (sec = .authority → s.sect ≠ .additional) := by
  unfold changeSection at h
  cases sec <;> cases hs : s.sect <;> simp only [hs] at h <;> cases h <;>
    (refine ⟨?_, ?_, ?_⟩ <;> simp_all [toSect])
  all_goals (cases s; simp_all)

/-- add records to a section -/
def Body.add (b : Body) (sec : RrSection) (rs : List RRec) : Body :=
  match sec with
  | .answer => { b with an := b.an ++ rs }
  | .authority => { b with ns := b.ns ++ rs }
  | .additional => { b with ar := b.ar ++ rs }

theorem encRRs_append (a b : List RRec) : encRRs (a ++ b) = encRRs a ++ encRRs b := by
  simp [encRRs]

/-- appending to a section appends to the encoding, as long as the later sections are empty -/
theorem enc_add (b : Body) (sec : RrSection) (rs : List RRec)
    (h1 : sec = .answer → b.ns = [] ∧ b.ar = []) (h2 : sec = .authority → b.ar = []) :
    (b.add sec rs).enc = b.enc ++ encRRs rs := by
  cases sec with
  | answer =>
    obtain ⟨hn, ha⟩ := h1 rfl
    simp [Body.add, Body.enc, encRRs_append, hn, ha, encRRs]
  | authority =>
    have ha := h2 rfl
    simp [Body.add, Body.enc, encRRs_append, ha, encRRs]
  | additional =>
    simp [Body.add, Body.enc, encRRs_append]

theorem getCount_lay {s : State} {b : Body} (h : Lay s b) (sec : RrSection) :
    getCount sec s = (match sec with
      | .answer => b.an.length
      | .authority => b.ns.length
      | .additional => b.ar.length + (if s.edns.isSome then 1 else 0) + (if s.tsig.isSome then 1 else 0)) := by
  cases sec
  · exact h.an
  · exact h.ns
  · exact h.ar

/-- the layout after data `d` = the encoding of records `rs` was appended to section `sec` and
    the count of that section raised by their number -/
theorem lay_append {s s1 s2 : State} {b : Body} (h : Lay s b) (sec : RrSection) (rs : List RRec)
    (h1 : changeSection sec s = (.ok (), s1)) (a : App s1 s2 (encRRs rs)) :
    Lay (setCount sec (getCount sec s2 + rs.length) s2).2 (b.add sec rs) := by
  obtain ⟨hs1, hal1, hal2⟩ := changeSection_ok_inv sec s s1 h1
  have e := a.ext
  have hcur1 : s1.cursor = s.cursor := by rw [hs1]
  have hsect1 : s1.sect = toSect sec := by rw [hs1]
  have henc : (b.add sec rs).enc = b.enc ++ encRRs rs := by
    apply enc_add
    · intro hsec
      rcases hal1 hsec with hq | ha
      · exact ⟨(h.sq hq).2.1, (h.sq hq).2.2⟩
      · exact h.sa ha
    · intro hsec
      have := hal2 hsec
      cases hss : s.sect with
      | question => exact (h.sq hss).2.2
      | answer => exact (h.sa hss).2
      | authority => exact h.su hss
      | additional => exact absurd hss this
  have hbytes : BytesAt s2.octets 12 (b.enc ++ encRRs rs) := by
    intro i hi
    by_cases hlt : i < b.enc.length
    · rw [List.getElem?_append_left hlt, e.pre _ (by rw [hcur1, h.cur]; omega)]
      rw [hs1]
      exact h.bytes i hlt
    · rw [List.getElem?_append_right (by omega)]
      have := a.bytes (i - b.enc.length) (by simp at hi; omega)
      rw [hcur1, h.cur, show 12 + b.enc.length + (i - b.enc.length) = 12 + i by omega] at this
      exact this
  have hcount : getCount sec s2 = getCount sec s := by
    cases sec
    · show s2.ancount = s.ancount; rw [e.an, hs1]
    · show s2.nscount = s.nscount; rw [e.ns, hs1]
    · show s2.arcount = s.arcount; rw [e.ar, hs1]
  have hedns : s2.edns = s.edns := by rw [e.edns, hs1]
  have htsig : s2.tsig = s.tsig := by rw [e.tsig, hs1]
  have hqd : s2.qdcount = s.qdcount := by rw [e.qd, hs1]
  have hrr : s2.rrStart = s.rrStart := by rw [e.rrStart, hs1]
  have hmode : s2.mode = .disabled := by rw [a.mode, hs1]; exact h.mode
  have hcur2 : s2.cursor = 12 + (b.enc ++ encRRs rs).length := by
    rw [a.cur, hcur1, h.cur]; simp; omega
  have hsect2 : s2.sect = toSect sec := by rw [a.sect, hsect1]
  have hgc := getCount_lay h sec
  rw [hcount]
  -- which sections are empty after the call, from the section discipline before it
  have hempty1 : sec = .answer → b.ns = [] ∧ b.ar = [] := by
    intro hsec
    rcases hal1 hsec with hq | ha
    · exact ⟨(h.sq hq).2.1, (h.sq hq).2.2⟩
    · exact h.sa ha
  have hempty2 : sec = .authority → b.ar = [] := by
    intro hsec
    have := hal2 hsec
    cases hss : s.sect with
    | question => exact (h.sq hss).2.2
    | answer => exact (h.sa hss).2
    | authority => exact h.su hss
    | additional => exact absurd hss this
  cases sec with
  | answer =>
    obtain ⟨hn, ha⟩ := hempty1 rfl
    simp only [setCount, M.modify_apply]
    refine ⟨hmode, by rw [henc]; exact hbytes, by rw [henc]; exact hcur2, by rw [hrr]; exact h.rr,
      by rw [hqd]; exact h.qd, ?_, ?_, ?_, ?_, ?_, ?_⟩
    · show getCount .answer s + rs.length = (b.an ++ rs).length
      rw [hgc]; simp
    · show s2.nscount = b.ns.length
      rw [e.ns, hs1]; exact h.ns
    · show s2.arcount = b.ar.length + _ + _
      rw [e.ar, hedns, htsig, hs1]; exact h.ar
    · intro hq; rw [hsect2] at hq; cases hq
    · intro _; exact ⟨hn, ha⟩
    · intro hq; rw [hsect2] at hq; cases hq
  | authority =>
    have ha := hempty2 rfl
    simp only [setCount, M.modify_apply]
    refine ⟨hmode, by rw [henc]; exact hbytes, by rw [henc]; exact hcur2, by rw [hrr]; exact h.rr,
      by rw [hqd]; exact h.qd, ?_, ?_, ?_, ?_, ?_, ?_⟩
    · show s2.ancount = b.an.length
      rw [e.an, hs1]; exact h.an
    · show getCount .authority s + rs.length = (b.ns ++ rs).length
      rw [hgc]; simp
    · show s2.arcount = b.ar.length + _ + _
      rw [e.ar, hedns, htsig, hs1]; exact h.ar
    · intro hq; rw [hsect2] at hq; cases hq
    · intro hq; rw [hsect2] at hq; cases hq
    · intro _; exact ha
  | additional =>
    simp only [setCount, M.modify_apply]
    refine ⟨hmode, by rw [henc]; exact hbytes, by rw [henc]; exact hcur2, by rw [hrr]; exact h.rr,
      by rw [hqd]; exact h.qd, ?_, ?_, ?_, ?_, ?_, ?_⟩
    · show s2.ancount = b.an.length
      rw [e.an, hs1]; exact h.an
    · show s2.nscount = b.ns.length
      rw [e.ns, hs1]; exact h.ns
    · show getCount .additional s + rs.length = (b.ar ++ rs).length + _ + _
      rw [hgc, hedns, htsig]; simp; omega
    · intro hq; rw [hsect2] at hq; cases hq
    · intro hq; rw [hsect2] at hq; cases hq
    · intro hq; rw [hsect2] at hq; cases hq


theorem changeSection_mode (sec : RrSection) (s s1 : State) (h : changeSection sec s = (.ok (), s1)) :
    s1.mode = s.mode := by
  rw [(changeSection_ok_inv sec s s1 h).1]

theorem lay_addRrOp {s s' : State} {b : Body} (h : Lay s b) (sec : RrSection) (hint : Hint)
    (owner : WName) (ty cls ttl : Nat) (rd : List UInt8)
    (hok : addRrOp sec hint owner ty cls ttl rd s = (.ok (), s')) :
    Lay s' (b.add sec [⟨owner, ty, cls, ttlFrom ttl, rd⟩]) := by
  obtain ⟨s1, s2, h1, h2, _, hs'⟩ := addRrOp_ok_inv sec hint owner ty cls ttl rd s s' hok
  have hm1 : s1.mode = .disabled := by rw [changeSection_mode sec s s1 h1]; exact h.mode
  have a := wr_addRr hint owner ty cls (ttlFrom ttl) rd s1 hm1 () s2 h2
  have a' : App s1 s2 (encRRs [⟨owner, ty, cls, ttlFrom ttl, rd⟩]) := by
    simpa [encRRs] using a
  have := lay_append h sec [⟨owner, ty, cls, ttlFrom ttl, rd⟩] h1 a'
  rw [hs']; exact this

theorem lay_addRrsetOp {s s' : State} {b : Body} (h : Lay s b) (sec : RrSection) (hint : Hint)
    (owner : WName) (ty cls ttl : Nat) (rds : List (List UInt8))
    (hok : addRrsetOp sec hint owner ty cls ttl rds s = (.ok (), s')) :
    Lay s' (b.add sec (rds.map fun rd => ⟨owner, ty, cls, ttlFrom ttl, rd⟩)) := by
  obtain ⟨s1, s2, n, h1, h2, _, hs'⟩ := addRrsetOp_ok_inv sec hint owner ty cls ttl rds s s' hok
  have hm1 : s1.mode = .disabled := by rw [changeSection_mode sec s s1 h1]; exact h.mode
  have a := wr_addRrset hint owner ty cls (ttlFrom ttl) rds 0 s1 hm1 n s2 h2
  have a' : App s1 s2 (encRRs (rds.map fun rd => ⟨owner, ty, cls, ttlFrom ttl, rd⟩)) := by
    have : encRRs (rds.map fun rd => (⟨owner, ty, cls, ttlFrom ttl, rd⟩ : RRec)) =
        rds.flatMap (encRR owner ty cls (ttlFrom ttl)) := by
      simp [encRRs, List.flatMap_map]
    rw [this]; exact a
  have hn := addRrset_count owner ty cls (ttlFrom ttl) rds hint 0 s1 s2 n h2
  have := lay_append h sec (rds.map fun rd => ⟨owner, ty, cls, ttlFrom ttl, rd⟩) h1 a'
  rw [hs', hn]
  simpa using this


theorem addQuestion_ok_inv (qn : WName) (qt qc : Nat) (s s' : State)
    (h : addQuestion qn qt qc s = (.ok (), s')) :
    ∃ s3, s.sect = .question ∧ addQuestionBody qn qt qc s = (.ok (), s3) ∧
      s' = { s3 with qdcount := s3.qdcount + 1, rrStart := s3.cursor } := by
  unfold addQuestion at h
  simp only [M.bind_apply, M.gets_apply] at h
  by_cases h1 : s.sect ≠ .question
  · rw [if_pos h1] at h; cases h
  rw [if_neg h1] at h
  by_cases h2 : s.qdcount + 1 > 65535
  · rw [if_pos h2] at h; cases h
  rw [if_neg h2] at h
  simp only [M.bind_apply, withRollback_apply, M.modify_apply] at h
  cases hb : addQuestionBody qn qt qc s with
  | mk r s3 =>
    rw [hb] at h
    cases r with
    | ok u =>
      simp only [] at h
      cases h
      exact ⟨s3, Decidable.of_not_not h1, rfl, rfl⟩
    | err e => cases h
    | panic => cases h

theorem lay_addQuestion {s s' : State} {b : Body} (h : Lay s b) (qn : WName) (qt qc : Nat)
    (hok : addQuestion qn qt qc s = (.ok (), s')) :
    Lay s' { b with qs := b.qs ++ [⟨qn, qt, qc⟩] } := by
  obtain ⟨s3, hsq, hb, hs'⟩ := addQuestion_ok_inv qn qt qc s s' hok
  have a := wr_addQuestionBody qn qt qc s h.mode () s3 hb
  obtain ⟨han, hns, har⟩ := h.sq hsq
  have e := a.ext
  have henc : ({ b with qs := b.qs ++ [(⟨qn, qt, qc⟩ : QRec)] } : Body).enc = b.enc ++ encQ qn qt qc := by
    simp [Body.enc, encQs, han, hns, har, encRRs]
  have hbytes : BytesAt s3.octets 12 (b.enc ++ encQ qn qt qc) := by
    intro i hi
    by_cases hlt : i < b.enc.length
    · rw [List.getElem?_append_left hlt, e.pre _ (by rw [h.cur]; omega)]
      exact h.bytes i hlt
    · rw [List.getElem?_append_right (by omega)]
      have := a.bytes (i - b.enc.length) (by simp at hi; omega)
      rw [h.cur, show 12 + b.enc.length + (i - b.enc.length) = 12 + i by omega] at this
      exact this
  have hbenc : b.enc = encQs b.qs := by simp [Body.enc, han, hns, har, encRRs]
  rw [hs']
  refine ⟨by show s3.mode = _; rw [a.mode]; exact h.mode, by rw [henc]; exact hbytes, ?_, ?_, ?_, ?_, ?_, ?_,
    ?_, ?_, ?_⟩
  · show s3.cursor = 12 + _
    rw [henc, a.cur, h.cur]; simp; omega
  · show s3.cursor = 12 + (encQs (b.qs ++ [(⟨qn, qt, qc⟩ : QRec)])).length
    rw [a.cur, h.cur, hbenc]; simp [encQs]; omega
  · show s3.qdcount + 1 = (b.qs ++ [(⟨qn, qt, qc⟩ : QRec)]).length
    rw [e.qd, h.qd]; simp
  · show s3.ancount = b.an.length; rw [e.an]; exact h.an
  · show s3.nscount = b.ns.length; rw [e.ns]; exact h.ns
  · show s3.arcount = b.ar.length + _ + _; rw [e.ar, e.edns, e.tsig]; exact h.ar
  · intro _; exact ⟨han, hns, har⟩
  · intro _; exact ⟨hns, har⟩
  · intro _; exact har

theorem lay_clearRrs {s : State} {b : Body} (h : Lay s b) : Lay (clearRrs s).2 { qs := b.qs } := by
  simp only [clearRrs, M.modify_apply]
  have hsplit : b.enc = encQs b.qs ++ (encRRs b.an ++ encRRs b.ns ++ encRRs b.ar) := by
    simp [Body.enc, List.append_assoc]
  have henc : ({ qs := b.qs } : Body).enc = encQs b.qs := by simp [Body.enc, encRRs]
  refine ⟨h.mode, ?_, ?_, ?_, h.qd, rfl, rfl, ?_, (fun _ => ⟨rfl, rfl, rfl⟩), (fun _ => ⟨rfl, rfl⟩),
    fun _ => rfl⟩
  · rw [henc]
    have := h.bytes
    rw [hsplit] at this
    exact (bytesAt_append this).1
  · show s.rrStart = 12 + _; rw [henc]; exact h.rr
  · show s.rrStart = 12 + _; exact h.rr
  · show _ = ([] : List RRec).length + _ + _; simp


/-- a step that only touches the header octets and bookkeeping the layout does not depend on -/
structure HdrOnly (s s' : State) : Prop where
  pre : ∀ i, 12 ≤ i → s'.octets[i]? = s.octets[i]?
  mode : s'.mode = s.mode
  cursor : s'.cursor = s.cursor
  rrStart : s'.rrStart = s.rrStart
  qd : s'.qdcount = s.qdcount
  an : s'.ancount = s.ancount
  ns : s'.nscount = s.nscount
  ar : s'.arcount = s.arcount
  sect : s'.sect = s.sect
  edns : s'.edns.isSome = s.edns.isSome
  tsig : s'.tsig.isSome = s.tsig.isSome
  gl : s'.gLabels = s.gLabels

theorem lay_hdrOnly {s s' : State} {b : Body} (h : Lay s b) (k : HdrOnly s s') : Lay s' b :=
  lay_congr h (fun i hi _ => k.pre i hi) k.mode k.cursor k.rrStart k.qd k.an k.ns k.ar k.sect k.edns k.tsig

theorem HdrOnly.refl (s : State) : HdrOnly s s := by constructor <;> simp

theorem hdrOnly_write (pos : Nat) (d : List UInt8) (hp : pos + d.length ≤ 12) (s : State) :
    HdrOnly s (write pos d s).2 := by
  unfold write
  split
  · constructor <;> simp
    intro i hi; exact writeAt_get_ge _ _ _ _ (by omega)
  · exact HdrOnly.refl s

theorem hdrOnly_setHdr (i : Nat) (f : UInt8 → UInt8) (hi : i < 12) (s : State) :
    HdrOnly s (setHdr i f s).2 := by
  unfold setHdr
  split
  · constructor <;> simp
    intro j hj; simp only [Array.getElem?_set]; rw [if_neg (by omega)]
  · exact HdrOnly.refl s

theorem hdrOnly_setRcode (v : Nat) (s : State) : HdrOnly s (setRcode v s).2 := by
  unfold setRcode
  simp only [M.bind_apply]
  have h1 := hdrOnly_setHdr Gen.RCODE_BYTE (fun b => (b &&& ~~~ (UInt8.ofNat Gen.RCODE_MASK)) ||| UInt8.ofNat v)
    (by decide) s
  cases hs : setHdr Gen.RCODE_BYTE (fun b => (b &&& ~~~ (UInt8.ofNat Gen.RCODE_MASK)) ||| UInt8.ofNat v) s with
  | mk r s1 =>
    rw [hs] at h1
    cases r with
    | ok u =>
      simp only [M.modify_apply]
      cases he : s1.edns with
      | none => simp only [he]; exact h1
      | some e =>
        simp only [he]
        exact ⟨h1.pre, h1.mode, h1.cursor, h1.rrStart, h1.qd, h1.an, h1.ns, h1.ar, h1.sect,
          by rw [← h1.edns, he]; rfl, h1.tsig, h1.gl⟩
    | err e => exact h1
    | panic => exact h1

theorem hdrOnly_setExtendedRcode (v : Nat) (s : State) : HdrOnly s (setExtendedRcode v s).2 := by
  unfold setExtendedRcode
  simp only [M.bind_apply, M.gets_apply]
  cases he : s.edns with
  | none => exact HdrOnly.refl s
  | some e =>
    simp only []
    by_cases hv : v > 4095
    · rw [if_pos hv]; exact HdrOnly.refl s
    · rw [if_neg hv]
      simp only [M.bind_apply]
      have h1 := hdrOnly_setHdr Gen.RCODE_BYTE (fun b => (b &&& ~~~ (UInt8.ofNat Gen.RCODE_MASK)) |||
              (UInt8.ofNat (v % 256) &&& UInt8.ofNat Gen.RCODE_MASK)) (by decide) s
      cases hs : setHdr Gen.RCODE_BYTE (fun b => (b &&& ~~~ (UInt8.ofNat Gen.RCODE_MASK)) |||
              (UInt8.ofNat (v % 256) &&& UInt8.ofNat Gen.RCODE_MASK)) s with
      | mk r s1 =>
        rw [hs] at h1
        cases r with
        | ok u =>
          simp only [M.modify_apply]
          exact ⟨h1.pre, h1.mode, h1.cursor, h1.rrStart, h1.qd, h1.an, h1.ns, h1.ar, h1.sect,
            by rw [he]; rfl, h1.tsig, h1.gl⟩
        | err e => exact h1
        | panic => exact h1

theorem hdrOnly_setLimit (v : Nat) (s : State) : HdrOnly s (setLimit v s).2 := by
  unfold setLimit
  dsimp only
  repeat' split
  all_goals first
    | exact HdrOnly.refl s
    | (constructor <;> simp)

theorem hdrOnly_updateTimeSigned (t : List UInt8) (s : State) : HdrOnly s (updateTimeSigned t s).2 := by
  unfold updateTimeSigned
  split
  · rename_i ts hts
    constructor <;> simp [hts]
  · exact HdrOnly.refl s


theorem lay_setEdns {s : State} {b : Body} (h : Lay s b) (p : Nat) : Lay (setEdns p s).2 b := by
  unfold setEdns
  by_cases h1 : s.edns.isSome
  · rw [if_pos h1]; exact h
  rw [if_neg h1]
  split
  · exact h
  · split
    · exact h
    · have hn : s.edns = none := by cases he : s.edns <;> simp_all
      have har := h.ar
      rw [hn] at har
      exact ⟨h.mode, h.bytes, h.cur, h.rr, h.qd, h.an, h.ns, by simp at har ⊢; omega, h.sq, h.sa, h.su⟩

theorem lay_setTsig {s : State} {b : Body} (h : Lay s b) (m : TsigMode) (rr : TsigRr) :
    Lay (setTsig m rr s).2 b := by
  unfold setTsig
  by_cases h1 : s.tsig.isSome
  · rw [if_pos h1]; exact h
  rw [if_neg h1]
  split
  · exact h
  · split
    · exact h
    · have hn : s.tsig = none := by cases he : s.tsig <;> simp_all
      have har := h.ar
      rw [hn] at har
      exact ⟨h.mode, h.bytes, h.cur, h.rr, h.qd, h.an, h.ns, by simp at har ⊢; omega, h.sq, h.sa, h.su⟩

/-- a writer re-created from the template of `s`: same layout -/
theorem lay_template {s s' : State} {b : Body} {t : Template} (h : Lay s b) (hi : Inv s) (buf : Bytes)
    (ts : Option Tsig) (hsome : ts.isSome = s.tsig.isSome)
    (ht : intoTemplate s = .ok t) (h' : tryFromTemplateImpl buf t ts = .ok s') : Lay s' b := by
  have h1 := hi.hdr; have h2 := hi.cur_av; have h3 := hi.av_lim; have h4 := hi.lim_size
  unfold intoTemplate at ht
  rw [if_neg (by omega), if_neg (by omega)] at ht
  cases ht
  unfold tryFromTemplateImpl at h'
  simp only [extract_toList_length _ _ (show s.cursor ≤ s.octets.size by omega)] at h'
  split at h'
  · cases h'
  · split at h'
    · cases h'
    · rename_i g1 g2
      cases h'
      refine lay_congr h ?_ rfl rfl rfl rfl rfl rfl rfl rfl rfl hsome
      intro i _ hi'
      have := writeAt_get_in buf 0 (List.take s.cursor s.octets.toList) i (by simp; omega) (by simp; omega)
      simp only [Nat.zero_add] at this
      simp only [Array.toList_extract, List.extract_eq_take_drop, Nat.sub_zero, List.drop_zero]
      rw [this, List.getElem?_take]
      simp [hi']

theorem lay_retemplate {ss : Session} {b : Body} (h : Lay ss.w b) (hi : Inv ss.w) (n : Nat) (fill : UInt8)
    (mk : Bytes → Template → Out WriterErr State) (hmk : MkOK mk) :
    Lay (retemplate ss n fill mk).2.w b := by
  obtain ⟨t, ht⟩ := intoTemplate_ok hi
  have htt := intoTemplate_tsig ht
  unfold retemplate
  rw [ht]
  simp only []
  obtain ⟨sf, hsf⟩ := tryFromTemplate_fallback_ok fill hi ht
  have hlf : Lay sf b := lay_template h hi _ t.tsig (by rw [htt]) ht hsf
  cases hm : mk (Array.replicate n fill) t with
  | ok s' =>
    simp only []
    obtain ⟨ts, h1, h2⟩ := hmk.1 _ _ _ hm
    refine lay_template h hi _ ts ?_ ht h1
    rcases h2 with he | ⟨ts0, ts1, h0, h1', _⟩
    · rw [he, htt]
    · rw [h1', ← htt, h0]; rfl
  | err e => simp only []; rw [hsf]; exact hlf
  | panic => simp only []; rw [hsf]; exact hlf

/-- the effect of a successful call on the body of the message -/
def bodyStep (b : Body) : Op → Body
  | .addQuestion n t c => { b with qs := b.qs ++ [⟨n, t, c⟩] }
  | .addRr sec _ o ty cls ttl rd _ => b.add sec [⟨o, ty, cls, ttlFrom ttl, rd⟩]
  | .addRrset sec _ o ty cls ttl rds _ => b.add sec (rds.map fun rd => ⟨o, ty, cls, ttlFrom ttl, rd⟩)
  | .clearRrs => { qs := b.qs }
  | _ => b

/-- calls that keep the writer in `Disabled` mode -/
def keepsDisabled : Op → Bool
  | .setMode m => m == .disabled
  | _ => true

/-- **the layout invariant is preserved by every call** (that does not leave `Disabled` mode and
    does not panic): a successful call appends exactly the canonical encoding of what it was
    given, to the right section; a failed call changes nothing -/
theorem lay_step (ss : Session) (op : Op) (b : Body) (hi : Inv ss.w) (h : Lay ss.w b)
    (hk : keepsDisabled op = true) (hnp : (step ss op).1 ≠ .panic) :
    Lay (step ss op).2.w (if (step ss op).1 = .ok () then bodyStep b op else b) := by
  -- failed calls: nothing changed
  by_cases herr : ∃ e, (step ss op).1 = .err e
  · obtain ⟨e, he⟩ := herr
    rw [he]
    simp only [reduceCtorEq, if_false]
    exact lay_same h (step_err_same ss op hi e he)
  have hok : (step ss op).1 = .ok () := by
    cases hr : (step ss op).1 with
    | ok u => rfl
    | err e => exact absurd ⟨e, hr⟩ herr
    | panic => exact absurd hr hnp
  rw [hok]
  simp only [if_true]
  have lw : ∀ {f : M Unit}, (∀ s, HdrOnly s (f s).2) → Lay (liftW ss f).2.w b := by
    intro f hf
    unfold liftW
    have := hf ss.w
    cases hfs : f ss.w with
    | mk r s1 => rw [hfs] at this; exact lay_hdrOnly h this
  cases op with
  | setId v => exact lw (hdrOnly_write _ _ (by show _ + 2 ≤ 12; decide))
  | setQr b' => exact lw (hdrOnly_setHdr _ _ (by decide))
  | setAa b' => exact lw (hdrOnly_setHdr _ _ (by decide))
  | setTc b' => exact lw (hdrOnly_setHdr _ _ (by decide))
  | setRd b' => exact lw (hdrOnly_setHdr _ _ (by decide))
  | setRa b' => exact lw (hdrOnly_setHdr _ _ (by decide))
  | setOpcode v => exact lw (hdrOnly_setHdr _ _ (by decide))
  | setRcode v => exact lw (hdrOnly_setRcode v)
  | setExtendedRcode v => exact lw (f := setExtendedRcode v) (hdrOnly_setExtendedRcode v)
  | setLimit v => exact lw (hdrOnly_setLimit v)
  | setMode m =>
    simp only [keepsDisabled, beq_iff_eq] at hk
    subst hk
    simp only [step, liftW, setCompressionMode, M.modify_apply, bodyStep]
    exact ⟨rfl, h.bytes, h.cur, h.rr, h.qd, h.an, h.ns, h.ar, h.sq, h.sa, h.su⟩
  | addQuestion n t c =>
    simp only [step, liftW] at hok ⊢
    cases hq : addQuestion n t c ss.w with
    | mk r s1 =>
      rw [hq] at hok
      simp only at hok
      subst hok
      exact lay_addQuestion h n t c hq
  | addRr sec hn o ty cls ttl rd hv =>
    simp only [step] at hok ⊢
    rw [withHv_fst] at hok
    rw [withHv_w]
    have h0 : Lay { ss.w with hv := hv.map (hvGet ss.hvs) } b :=
      ⟨h.mode, h.bytes, h.cur, h.rr, h.qd, h.an, h.ns, h.ar, h.sq, h.sa, h.su⟩
    cases hq : addRrOp sec (resolveHint ss.hvs hn) o ty cls ttl rd { ss.w with hv := hv.map (hvGet ss.hvs) } with
    | mk r s1 =>
      rw [hq] at hok
      simp only at hok
      subst hok
      have := lay_addRrOp h0 sec _ o ty cls ttl rd hq
      exact ⟨this.mode, this.bytes, this.cur, this.rr, this.qd, this.an, this.ns, this.ar, this.sq, this.sa, this.su⟩
  | addRrset sec hn o ty cls ttl rds hv =>
    simp only [step] at hok ⊢
    rw [withHv_fst] at hok
    rw [withHv_w]
    have h0 : Lay { ss.w with hv := hv.map (hvGet ss.hvs) } b :=
      ⟨h.mode, h.bytes, h.cur, h.rr, h.qd, h.an, h.ns, h.ar, h.sq, h.sa, h.su⟩
    cases hq : addRrsetOp sec (resolveHint ss.hvs hn) o ty cls ttl rds { ss.w with hv := hv.map (hvGet ss.hvs) } with
    | mk r s1 =>
      rw [hq] at hok
      simp only at hok
      subst hok
      have := lay_addRrsetOp h0 sec _ o ty cls ttl rds hq
      exact ⟨this.mode, this.bytes, this.cur, this.rr, this.qd, this.an, this.ns, this.ar, this.sq, this.sa, this.su⟩
  | clearRrs => exact lay_clearRrs h
  | setEdns p =>
    simp only [step, liftW, bodyStep]
    have := lay_setEdns h p
    cases hq : setEdns p ss.w with
    | mk r s1 => rw [hq] at this; exact this
  | setTsig m rr =>
    simp only [step, liftW, bodyStep]
    have := lay_setTsig h m rr
    cases hq : setTsig m rr ss.w with
    | mk r s1 => rw [hq] at this; exact this
  | updateTimeSigned t => exact lw (hdrOnly_updateTimeSigned t)
  | template n fill => exact lay_retemplate h hi n fill _ mkOK_tryFromTemplate
  | templateSubsequent n fill mac => exact lay_retemplate h hi n fill _ (mkOK_subsequent mac)
  | getters => exact h


/-- the body after a sequence of calls with the given outcomes -/
def bodyRun (b : Body) : List Op → List (Out WriterErr Unit) → Body
  | op :: ops, r :: rs => bodyRun (if r = .ok () then bodyStep b op else b) ops rs
  | _, _ => b

/-- **for all sequences of calls in `Disabled` mode** that do not panic: the buffer holds the
    canonical encoding of exactly the questions and records of the calls that succeeded -/
theorem lay_run (ss : Session) (ops : List Op) (b : Body) (hi : Inv ss.w) (h : Lay ss.w b)
    (hk : ∀ op ∈ ops, keepsDisabled op = true) (hnp : ∀ r ∈ (run ss ops).2, r ≠ .panic) :
    Lay (run ss ops).1.w (bodyRun b ops (run ss ops).2) := by
  induction ops generalizing ss b with
  | nil => exact h
  | cons op ops ih =>
    unfold run at hnp ⊢
    have hstep := lay_step ss op b hi h (hk op List.mem_cons_self)
    have hinv := step_inv ss op hi
    cases hs : step ss op with
    | mk r ss' =>
      rw [hs] at hstep hinv hnp
      cases r with
      | panic => exact absurd rfl (hnp _ (by simp))
      | ok u =>
        simp only [] at hnp ⊢
        have h' := hstep (by simp)
        cases hrun : run ss' ops with
        | mk ss'' rs =>
          rw [hrun] at hnp
          have := ih ss' _ hinv h' (fun o ho => hk o (List.mem_cons_of_mem _ ho))
            (by rw [hrun]; exact fun r hr => hnp r (List.mem_cons_of_mem _ hr))
          rw [hrun] at this
          simpa [bodyRun] using this
      | err e =>
        simp only [] at hnp ⊢
        have h' := hstep (by simp)
        cases hrun : run ss' ops with
        | mk ss'' rs =>
          rw [hrun] at hnp
          have := ih ss' _ hinv h' (fun o ho => hk o (List.mem_cons_of_mem _ ho))
            (by rw [hrun]; exact fun r hr => hnp r (List.mem_cons_of_mem _ hr))
          rw [hrun] at this
          simpa [bodyRun] using this

/-- a new writer switched to `Disabled` mode has the empty layout -/
theorem lay_new (buf : Bytes) (limit : Nat) (s : State) (h : Writer.new buf limit = .ok s) :
    Lay { s with mode := .disabled } {} := by
  unfold Writer.new at h
  dsimp only at h
  split at h
  · cases h
  · have hs := Out.ok.inj h
    subst hs
    refine ⟨rfl, fun i hi => by simp [Body.enc, encQs, encRRs] at hi, rfl, rfl, rfl, rfl, rfl, rfl,
      (fun _ => ⟨rfl, rfl, rfl⟩), (fun _ => ⟨rfl, rfl⟩), fun _ => rfl⟩

end QV.Writer
