/-
  QV.Proofs.WriterLayout — C12 (d), model side: in `Disabled` mode the buffer below the cursor is,
  after any sequence of calls, the canonical uncompressed encoding of the questions and records
  of the calls that succeeded (in order, by section), and `finish` appends OPT and TSIG.
-/
import QV.Proofs.WriterDisabled
import QV.Proofs.WriterSession

namespace QV.Writer
open QV QV.Wire QV.ServerSafety

/-- inversion of a successful `add_*_rr` -/
theorem addRrOp_ok_inv (sec : RrSection) (hint : Hint) (owner : WName) (ty cls ttl : Nat)
    (rd : List UInt8) (s s' : State) (h : addRrOp sec hint owner ty cls ttl rd s = (.ok (), s')) :
    ∃ s1 s2, changeSection sec s = (.ok (), s1) ∧ addRr hint owner ty cls (ttlFrom ttl) rd s1 = (.ok (), s2) ∧
      getCount sec s2 + 1 ≤ 65535 ∧ s' = (setCount sec (getCount sec s2 + 1) s2).2 := by
  unfold addRrOp at h
  rw [withRollback_apply] at h
  simp only [M.bind_apply] at h
  cases h1 : changeSection sec s with
  | mk r1 s1 =>
    rw [h1] at h
    cases r1 with
    | err e => cases h
    | panic => cases h
    | ok u1 =>
      simp only [] at h
      cases h2 : addRr hint owner ty cls (ttlFrom ttl) rd s1 with
      | mk r2 s2 =>
        rw [h2] at h
        cases r2 with
        | err e => cases h
        | panic => cases h
        | ok u2 =>
          simp only [M.gets_apply] at h
          by_cases hc : getCount sec s2 + 1 > 65535
          · rw [if_pos hc] at h; cases h
          · rw [if_neg hc] at h
            rw [setCount_apply] at h
            simp only [] at h
            cases h
            exact ⟨s1, s2, rfl, h2, by omega, rfl⟩

theorem addRrsetOp_ok_inv (sec : RrSection) (hint : Hint) (owner : WName) (ty cls ttl : Nat)
    (rds : List (List UInt8)) (s s' : State) (h : addRrsetOp sec hint owner ty cls ttl rds s = (.ok (), s')) :
    ∃ s1 s2 n, changeSection sec s = (.ok (), s1) ∧
      addRrset hint owner ty cls (ttlFrom ttl) rds 0 s1 = (.ok n, s2) ∧
      getCount sec s2 + n ≤ 65535 ∧ s' = (setCount sec (getCount sec s2 + n) s2).2 := by
  unfold addRrsetOp at h
  rw [withRollback_apply] at h
  simp only [M.bind_apply] at h
  cases h1 : changeSection sec s with
  | mk r1 s1 =>
    rw [h1] at h
    cases r1 with
    | err e => cases h
    | panic => cases h
    | ok u1 =>
      simp only [] at h
      cases h2 : addRrset hint owner ty cls (ttlFrom ttl) rds 0 s1 with
      | mk r2 s2 =>
        rw [h2] at h
        cases r2 with
        | err e => cases h
        | panic => cases h
        | ok n =>
          simp only [M.gets_apply] at h
          by_cases hn : n > 65535
          · rw [if_pos hn] at h; cases h
          · rw [if_neg hn] at h
            by_cases hc : getCount sec s2 + n > 65535
            · rw [if_pos hc] at h; cases h
            · rw [if_neg hc] at h
              rw [setCount_apply] at h
              simp only [] at h
              cases h
              exact ⟨s1, s2, n, rfl, h2, by omega, rfl⟩


theorem addRrset_count (owner : WName) (ty cls ttl : Nat) :
    ∀ (rds : List (List UInt8)) (hint : Hint) (n0 : Nat) (s s' : State) (n : Nat),
      addRrset hint owner ty cls ttl rds n0 s = (.ok n, s') → n = n0 + rds.length := by
  intro rds
  induction rds with
  | nil => intro hint n0 s s' n h; simp only [addRrset, M.pure_apply] at h; cases h; simp
  | cons rd rds ih =>
    intro hint n0 s s' n h
    unfold addRrset at h
    simp only [M.bind_apply] at h
    cases h1 : addRr hint owner ty cls ttl rd s with
    | mk r s1 =>
      rw [h1] at h
      cases r with
      | ok u => have := ih _ _ _ _ _ h; simp; omega
      | err e => cases h
      | panic => cases h

/-- a question as given to the writer -/
structure QRec where
  qname : WName
  qtype : Nat
  qclass : Nat
  deriving Repr, DecidableEq

/-- a record as given to the writer (`ttl` = the value inside the `Ttl`) -/
structure RRec where
  owner : WName
  ty : Nat
  cls : Nat
  ttl : Nat
  rdata : List UInt8
  deriving Repr, DecidableEq

/-- the questions and records a message holds, by section -/
structure Body where
  qs : List QRec := []
  an : List RRec := []
  ns : List RRec := []
  ar : List RRec := []
  deriving Repr, DecidableEq

def encQs (qs : List QRec) : List UInt8 := qs.flatMap fun q => encQ q.qname q.qtype q.qclass
def encRRs (rs : List RRec) : List UInt8 := rs.flatMap fun r => encRR r.owner r.ty r.cls r.ttl r.rdata

/-- the canonical encoding of the body of a message (RFC 1035 §4.1, no compression) -/
def Body.enc (b : Body) : List UInt8 := encQs b.qs ++ encRRs b.an ++ encRRs b.ns ++ encRRs b.ar

/-- **the layout invariant** (`Disabled` mode): below the cursor the buffer holds the header and
    the canonical encoding of `b`; the counts are those of `b` (plus the reserved OPT / TSIG
    records); sections are written in order -/
structure Lay (s : State) (b : Body) : Prop where
  mode : s.mode = .disabled
  bytes : BytesAt s.octets 12 b.enc
  cur : s.cursor = 12 + b.enc.length
  rr : s.rrStart = 12 + (encQs b.qs).length
  qd : s.qdcount = b.qs.length
  an : s.ancount = b.an.length
  ns : s.nscount = b.ns.length
  ar : s.arcount = b.ar.length + (if s.edns.isSome then 1 else 0) + (if s.tsig.isSome then 1 else 0)
  sq : s.sect = .question → b.an = [] ∧ b.ns = [] ∧ b.ar = []
  sa : s.sect = .answer → b.ns = [] ∧ b.ar = []
  su : s.sect = .authority → b.ar = []

/-- the layout only depends on the octets from 12 up to the cursor and on the bookkeeping -/
theorem lay_congr {s s' : State} {b : Body} (h : Lay s b)
    (hpre : ∀ i, 12 ≤ i → i < s.cursor → s'.octets[i]? = s.octets[i]?)
    (hm : s'.mode = s.mode) (hc : s'.cursor = s.cursor) (hr : s'.rrStart = s.rrStart)
    (hqd : s'.qdcount = s.qdcount) (han : s'.ancount = s.ancount) (hns : s'.nscount = s.nscount)
    (har : s'.arcount = s.arcount) (hs : s'.sect = s.sect) (he : s'.edns.isSome = s.edns.isSome)
    (ht : s'.tsig.isSome = s.tsig.isSome) : Lay s' b := by
  refine ⟨by rw [hm]; exact h.mode, ?_, by rw [hc]; exact h.cur, by rw [hr]; exact h.rr,
    by rw [hqd]; exact h.qd, by rw [han]; exact h.an, by rw [hns]; exact h.ns,
    by rw [har, he, ht]; exact h.ar, by rw [hs]; exact h.sq, by rw [hs]; exact h.sa, by rw [hs]; exact h.su⟩
  exact bytesAt_frame h.bytes (fun i h1 h2 => hpre i h1 (by rw [h.cur]; exact h2))

theorem lay_same {s s' : State} {b : Body} (h : Lay s b) (e : Same s s') : Lay s' b :=
  lay_congr h (fun i _ hi => e.pre i hi) e.mode e.cursor e.rrStart e.qd e.an e.ns e.ar e.sect
    (by rw [e.edns]) (by rw [e.tsig])


def toSect : RrSection → Section
  | .answer => .answer
  | .authority => .authority
  | .additional => .additional

theorem changeSection_ok_inv (sec : RrSection) (s s1 : State) (h : changeSection sec s = (.ok (), s1)) :
    s1 = { s with sect := toSect sec } ∧ (sec = .answer → s.sect = .question ∨ s.sect = .answer) ∧
      (sec = .authority → s.sect ≠ .additional) := by
  unfold changeSection at h
  cases sec <;> cases hs : s.sect <;> simp only [hs] at h <;> cases h <;>
    (refine ⟨?_, ?_, ?_⟩ <;> simp_all [toSect])
  all_goals (cases s; simp_all)

/-- add records to a section -/
def Body.add (b : Body) (sec : RrSection) (rs : List RRec) : Body :=
  match sec with
  | .answer => { b with an := b.an ++ rs }
  | .authority => { b with ns := b.ns ++ rs }
  | .additional => { b with ar := b.ar ++ rs }

theorem encRRs_append (a b : List RRec) : encRRs (a ++ b) = encRRs a ++ encRRs b := by
  simp [encRRs]

/-- appending to a section appends to the encoding, as long as the later sections are empty -/
theorem enc_add (b : Body) (sec : RrSection) (rs : List RRec)
    (h1 : sec = .answer → b.ns = [] ∧ b.ar = []) (h2 : sec = .authority → b.ar = []) :
    (b.add sec rs).enc = b.enc ++ encRRs rs := by
  cases sec with
  | answer =>
    obtain ⟨hn, ha⟩ := h1 rfl
    simp [Body.add, Body.enc, encRRs_append, hn, ha, encRRs]
  | authority =>
    have ha := h2 rfl
    simp [Body.add, Body.enc, encRRs_append, ha, encRRs]
  | additional =>
    simp [Body.add, Body.enc, encRRs_append]

theorem getCount_lay {s : State} {b : Body} (h : Lay s b) (sec : RrSection) :
    getCount sec s = (match sec with
      | .answer => b.an.length
      | .authority => b.ns.length
      | .additional => b.ar.length + (if s.edns.isSome then 1 else 0) + (if s.tsig.isSome then 1 else 0)) := by
  cases sec
  · exact h.an
  · exact h.ns
  · exact h.ar

/-- the layout after data `d` = the encoding of records `rs` was appended to section `sec` and
    the count of that section raised by their number -/
theorem lay_append {s s1 s2 : State} {b : Body} (h : Lay s b) (sec : RrSection) (rs : List RRec)
    (h1 : changeSection sec s = (.ok (), s1)) (a : App s1 s2 (encRRs rs)) :
    Lay (setCount sec (getCount sec s2 + rs.length) s2).2 (b.add sec rs) := by
  obtain ⟨hs1, hal1, hal2⟩ := changeSection_ok_inv sec s s1 h1
  have e := a.ext
  have hcur1 : s1.cursor = s.cursor := by rw [hs1]
  have hsect1 : s1.sect = toSect sec := by rw [hs1]
  have henc : (b.add sec rs).enc = b.enc ++ encRRs rs := by
    apply enc_add
    · intro hsec
      rcases hal1 hsec with hq | ha
      · exact ⟨(h.sq hq).2.1, (h.sq hq).2.2⟩
      · exact h.sa ha
    · intro hsec
      have := hal2 hsec
      cases hss : s.sect with
      | question => exact (h.sq hss).2.2
      | answer => exact (h.sa hss).2
      | authority => exact h.su hss
      | additional => exact absurd hss this
  have hbytes : BytesAt s2.octets 12 (b.enc ++ encRRs rs) := by
    intro i hi
    by_cases hlt : i < b.enc.length
    · rw [List.getElem?_append_left hlt, e.pre _ (by rw [hcur1, h.cur]; omega)]
      rw [hs1]
      exact h.bytes i hlt
    · rw [List.getElem?_append_right (by omega)]
      have := a.bytes (i - b.enc.length) (by simp at hi; omega)
      rw [hcur1, h.cur, show 12 + b.enc.length + (i - b.enc.length) = 12 + i by omega] at this
      exact this
  have hcount : getCount sec s2 = getCount sec s := by
    cases sec
    · show s2.ancount = s.ancount; rw [e.an, hs1]
    · show s2.nscount = s.nscount; rw [e.ns, hs1]
    · show s2.arcount = s.arcount; rw [e.ar, hs1]
  have hedns : s2.edns = s.edns := by rw [e.edns, hs1]
  have htsig : s2.tsig = s.tsig := by rw [e.tsig, hs1]
  have hqd : s2.qdcount = s.qdcount := by rw [e.qd, hs1]
  have hrr : s2.rrStart = s.rrStart := by rw [e.rrStart, hs1]
  have hmode : s2.mode = .disabled := by rw [a.mode, hs1]; exact h.mode
  have hcur2 : s2.cursor = 12 + (b.enc ++ encRRs rs).length := by
    rw [a.cur, hcur1, h.cur]; simp; omega
  have hsect2 : s2.sect = toSect sec := by rw [a.sect, hsect1]
  have hgc := getCount_lay h sec
  rw [hcount]
  -- which sections are empty after the call, from the section discipline before it
  have hempty1 : sec = .answer → b.ns = [] ∧ b.ar = [] := by
    intro hsec
    rcases hal1 hsec with hq | ha
    · exact ⟨(h.sq hq).2.1, (h.sq hq).2.2⟩
    · exact h.sa ha
  have hempty2 : sec = .authority → b.ar = [] := by
    intro hsec
    have := hal2 hsec
    cases hss : s.sect with
    | question => exact (h.sq hss).2.2
    | answer => exact (h.sa hss).2
    | authority => exact h.su hss
    | additional => exact absurd hss this
  cases sec with
  | answer =>
    obtain ⟨hn, ha⟩ := hempty1 rfl
    simp only [setCount, M.modify_apply]
    refine ⟨hmode, by rw [henc]; exact hbytes, by rw [henc]; exact hcur2, by rw [hrr]; exact h.rr,
      by rw [hqd]; exact h.qd, ?_, ?_, ?_, ?_, ?_, ?_⟩
    · show getCount .answer s + rs.length = (b.an ++ rs).length
      rw [hgc]; simp
    · show s2.nscount = b.ns.length
      rw [e.ns, hs1]; exact h.ns
    · show s2.arcount = b.ar.length + _ + _
      rw [e.ar, hedns, htsig, hs1]; exact h.ar
    · intro hq; rw [hsect2] at hq; cases hq
    · intro _; exact ⟨hn, ha⟩
    · intro hq; rw [hsect2] at hq; cases hq
  | authority =>
    have ha := hempty2 rfl
    simp only [setCount, M.modify_apply]
    refine ⟨hmode, by rw [henc]; exact hbytes, by rw [henc]; exact hcur2, by rw [hrr]; exact h.rr,
      by rw [hqd]; exact h.qd, ?_, ?_, ?_, ?_, ?_, ?_⟩
    · show s2.ancount = b.an.length
      rw [e.an, hs1]; exact h.an
    · show getCount .authority s + rs.length = (b.ns ++ rs).length
      rw [hgc]; simp
    · show s2.arcount = b.ar.length + _ + _
      rw [e.ar, hedns, htsig, hs1]; exact h.ar
    · intro hq; rw [hsect2] at hq; cases hq
    · intro hq; rw [hsect2] at hq; cases hq
    · intro _; exact ha
  | additional =>
    simp only [setCount, M.modify_apply]
    refine ⟨hmode, by rw [henc]; exact hbytes, by rw [henc]; exact hcur2, by rw [hrr]; exact h.rr,
      by rw [hqd]; exact h.qd, ?_, ?_, ?_, ?_, ?_, ?_⟩
    · show s2.ancount = b.an.length
      rw [e.an, hs1]; exact h.an
    · show s2.nscount = b.ns.length
      rw [e.ns, hs1]; exact h.ns
    · show getCount .additional s + rs.length = (b.ar ++ rs).length + _ + _
      rw [hgc, hedns, htsig]; simp; omega
    · intro hq; rw [hsect2] at hq; cases hq
    · intro hq; rw [hsect2] at hq; cases hq
    · intro hq; rw [hsect2] at hq; cases hq


end QV.Writer
