/-
  QV.Proofs.ServerMsg — `Server::handle_message` as a whole: the header copy, the hand-over to
  `handle_message_with_context`, `finish`; the no-response conditions; and the octets of the
  response for every verdict the scan decides alone (FORMERR, BADVERS, NOTIMP, REFUSED, SERVFAIL for
  a zone that is not loaded).
-/
import QV.Proofs.ServerScan

namespace QV.ServerScan
open QV QV.Wire QV.Reader QV.Writer

/-! ### the fresh writer and the header copy -/

/-- `Writer::new(response_buf, limit)` on a zeroed buffer -/
def w0 (bufLen limit : Nat) : State :=
  { octets := zeroHeader (Array.replicate bufLen 0), cursor := Gen.HEADER_SIZE, limit := min limit bufLen,
    available := min limit bufLen, rrStart := Gen.HEADER_SIZE, sect := .question, qdcount := 0, ancount := 0,
    nscount := 0, arcount := 0, qname := none, mostRecentOwner := none, mostRecentNameInRdata := none,
    mode := .standard, edns := none, tsig := none }

theorem new_eq (bufLen limit : Nat) (h : 12 ≤ min limit bufLen) :
    Writer.new (Array.replicate bufLen 0) limit = .ok (w0 bufLen limit) := by
  unfold Writer.new w0
  simp only [Array.size_replicate, show ¬ min limit bufLen < Gen.HEADER_SIZE by
    show ¬ min limit bufLen < 12; omega, if_false]

def bitF (mask : Nat) (v : Bool) : UInt8 → UInt8 :=
  fun b => if v then b ||| UInt8.ofNat mask else b &&& ~~~ (UInt8.ofNat mask)

def opF (opcode : Nat) : UInt8 → UInt8 :=
  fun b => (b &&& ~~~ (UInt8.ofNat Gen.OPCODE_MASK)) ||| (UInt8.ofNat opcode <<< UInt8.ofNat Gen.OPCODE_SHIFT)

theorem setBit_eq (byte mask : Nat) (v : Bool) (s : State) (h : byte < s.octets.size) :
    setBit byte mask v s = (.ok (), stHdr byte (bitF mask v) s) := by
  unfold setBit; exact setHdr_eq _ _ s h

theorem setOpcode_eq (opcode : Nat) (s : State) (h : 2 < s.octets.size) :
    setOpcode opcode s = (.ok (), stHdr 2 (opF opcode) s) := by
  unfold setOpcode; exact setHdr_eq _ _ s h

theorem stHdr_size (i : Nat) (f : UInt8 → UInt8) (s : State) : (stHdr i f s).octets.size = s.octets.size := by
  simp [stHdr]

/-- the writer after `set_id`, `set_qr(true)`, `set_opcode`, and for QUERY `set_rd` -/
def hdrSt (w : State) (id opcode : Nat) (rd : Bool) : State :=
  let c := stHdr 2 (opF opcode) (stHdr 2 (bitF Gen.QR_MASK true) { w with octets := writeAt w.octets 0 (u16be id) })
  if opcode = 0 then stHdr 2 (bitF Gen.RD_MASK rd) c else c

theorem hdr_prog {β} (w : State) (id opcode : Nat) (rd : Bool) (k : M β) (h : 3 < w.octets.size) :
    (do setId id; setQr true; setOpcode opcode; if opcode = 0 then (do setRd rd; k) else k) w =
      k (hdrSt w id opcode rd) := by
  rw [bind_ok (setId_eq id w (by omega))]
  have h1 : 2 < ({ w with octets := writeAt w.octets 0 (u16be id) } : State).octets.size := by
    show 2 < (writeAt w.octets 0 (u16be id)).size; rw [writeAt_size]; omega
  rw [bind_ok (show setQr true _ = _ from setBit_eq Gen.QR_BYTE Gen.QR_MASK true _ h1)]
  have h2 : 2 < (stHdr Gen.QR_BYTE (bitF Gen.QR_MASK true)
      { w with octets := writeAt w.octets 0 (u16be id) }).octets.size := by
    rw [stHdr_size]; exact h1
  rw [bind_ok (setOpcode_eq opcode _ h2)]
  have h3 : 2 < (stHdr 2 (opF opcode) (stHdr Gen.QR_BYTE (bitF Gen.QR_MASK true)
      { w with octets := writeAt w.octets 0 (u16be id) })).octets.size := by
    rw [stHdr_size]; exact h2
  unfold hdrSt
  by_cases hop : opcode = 0
  · subst hop
    simp only [if_true]
    rw [bind_ok (show setRd rd _ = _ from setBit_eq Gen.RD_BYTE Gen.RD_MASK rd _ h3)]
    rfl
  · simp only [hop, if_false]
    rfl

/-- `response_buf.len()` must be at least this (else `handle_message` panics, as documented) -/
def minBuf (tr : Server.Transport) (payload : Nat) : Nat := match tr with | .tcp => 65535 | .udp => payload

theorem hdrSt_size (w : State) (id opcode : Nat) (rd : Bool) :
    (hdrSt w id opcode rd).octets.size = w.octets.size := by
  unfold hdrSt
  by_cases hop : opcode = 0
  · simp [hop, stHdr, writeAt_size]
  · simp [hop, stHdr, writeAt_size]

theorem hdrSt_fields (P : State → Prop) (hP : ∀ s o, P s → P { s with octets := o }) (w : State)
    (id opcode : Nat) (rd : Bool) (h0 : P w) : P (hdrSt w id opcode rd) := by
  unfold hdrSt
  by_cases hop : opcode = 0
  · simp only [hop, if_true]
    exact hP _ _ (hP _ _ (hP _ _ (hP _ _ h0)))
  · simp only [hop, if_false]
    exact hP _ _ (hP _ _ (hP _ _ h0))

theorem w0_size (bufLen limit : Nat) : (w0 bufLen limit).octets.size = bufLen := by
  simp [w0, zeroHeader, writeAt_size]

theorem hdrSt_ok (bufLen : Nat) (tr : Server.Transport) (payload id opcode : Nat) (rd : Bool)
    (hbuf : minBuf tr payload ≤ bufLen) (hpay : 512 ≤ payload) :
    HdrOk (hdrSt (w0 bufLen (lim0 tr)) id opcode rd) tr payload := by
  have hmin : min (lim0 tr) bufLen = lim0 tr := by
    cases tr <;> simp only [lim0, minBuf] at hbuf ⊢ <;> omega
  have hsz : (hdrSt (w0 bufLen (lim0 tr)) id opcode rd).octets.size = bufLen := by
    rw [hdrSt_size, w0_size]
  have hl : (hdrSt (w0 bufLen (lim0 tr)) id opcode rd).limit = lim0 tr :=
    hdrSt_fields (fun s => s.limit = lim0 tr) (fun _ _ h => h) _ _ _ _ hmin
  refine ⟨hdrSt_fields (fun s => s.sect = .question) (fun _ _ h => h) _ _ _ _ rfl,
    hdrSt_fields (fun s => s.qdcount = 0) (fun _ _ h => h) _ _ _ _ rfl,
    hdrSt_fields (fun s => s.arcount = 0) (fun _ _ h => h) _ _ _ _ rfl,
    hdrSt_fields (fun s => s.qname = none) (fun _ _ h => h) _ _ _ _ rfl,
    hdrSt_fields (fun s => s.mostRecentOwner = none) (fun _ _ h => h) _ _ _ _ rfl,
    hdrSt_fields (fun s => s.mostRecentNameInRdata = none) (fun _ _ h => h) _ _ _ _ rfl,
    hdrSt_fields (fun s => s.cursor = 12) (fun _ _ h => h) _ _ _ _ rfl,
    hdrSt_fields (fun s => s.edns = none) (fun _ _ h => h) _ _ _ _ rfl,
    hdrSt_fields (fun s => s.tsig = none) (fun _ _ h => h) _ _ _ _ rfl,
    hl,
    hdrSt_fields (fun s => s.available = s.limit) (fun _ _ h => h) _ _ _ _ rfl, ?_, ?_⟩
  · rw [hsz, hl]
    cases tr <;> simp only [lim0, minBuf] at hbuf ⊢ <;> omega
  · intro htr
    rw [hsz]
    subst htr
    exact hbuf

/-! ### `handle_message` -/

theorem qr_clear : ∀ x : UInt8, x.toNat < 128 → ((x.toNat &&& 128) != 0) = false := by
  apply Wire.forall_uint8; decide +kernel

/-- `handle_message` on a request that has a full header and is not a response: the header copy,
    `handle_message_with_context`, `finish` -/
theorem handleMessage_eq (cfg : Server.Cfg) (tr : Server.Transport) (now bufLen : Nat) (req : Bytes)
    (hbuf : minBuf tr cfg.payload ≤ bufLen) (hpay : 512 ≤ cfg.payload)
    (h12 : 12 ≤ req.size) (hqr : (req.getD 2 0).toNat < 128) :
    Server.handleMessage cfg tr now bufLen req =
      match Server.handleWithContext cfg tr now ⟨req, 12, none⟩
          (hdrSt (w0 bufLen (lim0 tr)) (Spec.Server.hdr req 0) (((req.getD 2 0).toNat &&& 120) >>> 3)
            (((req.getD 2 0).toNat &&& 1) != 0)) with
      | (.ok true, w1) =>
        (match Writer.finish w1 Server.macFn with
         | .ok (bytes, _) => .ok (some bytes)
         | _ => .panic)
      | (.ok false, _) => .ok none
      | _ => .panic := by
  obtain ⟨_, _, _, _, hid, hop, hq, hrd⟩ := reader_header req h12
  have htf : tryFrom req = .ok ⟨req, 12, none⟩ := by
    unfold tryFrom; simp [Gen.HEADER_SIZE, h12]
  have hqf : (((req.getD 2 0).toNat &&& 128) != 0) = false := qr_clear _ hqr
  have hmin : 12 ≤ min (lim0 tr) bufLen := by
    cases tr <;> simp only [lim0, minBuf] at hbuf ⊢ <;> omega
  have hsz : 3 < (w0 bufLen (lim0 tr)).octets.size := by
    rw [w0_size]
    cases tr <;> simp only [minBuf] at hbuf <;> omega
  have hnew := new_eq bufLen _ hmin
  unfold Server.handleMessage
  cases tr with
  | udp =>
    simp only [minBuf] at hbuf
    simp only [lim0] at hnew hsz ⊢
    simp only [show ¬ bufLen < cfg.payload by omega, if_false, htf, hq, hid, hop, hrd, hqf, Bool.false_eq_true,
      hnew]
    rw [hdr_prog _ _ _ _ _ hsz]
    rfl
  | tcp =>
    simp only [minBuf] at hbuf
    simp only [lim0] at hnew hsz ⊢
    simp only [show ¬ bufLen < 65535 by omega, if_false, htf, hq, hid, hop, hrd, hqf, Bool.false_eq_true,
      hnew]
    rw [hdr_prog _ _ _ _ _ hsz]
    rfl

end QV.ServerScan
