/-
  QV.Proofs.ServerMsg — `Server::handle_message` as a whole: the header copy, the hand-over to
  `handle_message_with_context`, `finish`; the no-response conditions; and the octets of the
  response for every verdict the scan decides alone (FORMERR, BADVERS, NOTIMP, REFUSED, SERVFAIL for
  a zone that is not loaded).
-/
import QV.Proofs.ScanRefine

namespace QV.ServerScan
open QV QV.Wire QV.Reader QV.Writer

/-! ### the fresh writer and the header copy -/

/-- `Writer::new(response_buf, limit)` on a zeroed buffer -/
def w0 (bufLen limit : Nat) : State :=
  { octets := zeroHeader (Array.replicate bufLen 0), cursor := Gen.HEADER_SIZE, limit := min limit bufLen,
    available := min limit bufLen, rrStart := Gen.HEADER_SIZE, sect := .question, qdcount := 0, ancount := 0,
    nscount := 0, arcount := 0, qname := none, mostRecentOwner := none, mostRecentNameInRdata := none,
    mode := .standard, edns := none, tsig := none }

theorem new_eq (bufLen limit : Nat) (h : 12 ≤ min limit bufLen) :
    Writer.new (Array.replicate bufLen 0) limit = .ok (w0 bufLen limit) := by
  unfold Writer.new w0
  simp only [Array.size_replicate, show ¬ min limit bufLen < Gen.HEADER_SIZE by
    show ¬ min limit bufLen < 12; omega, if_false]

def bitF (mask : Nat) (v : Bool) : UInt8 → UInt8 :=
  fun b => if v then b ||| UInt8.ofNat mask else b &&& ~~~ (UInt8.ofNat mask)

def opF (opcode : Nat) : UInt8 → UInt8 :=
  fun b => (b &&& ~~~ (UInt8.ofNat Gen.OPCODE_MASK)) ||| (UInt8.ofNat opcode <<< UInt8.ofNat Gen.OPCODE_SHIFT)

theorem setBit_eq (byte mask : Nat) (v : Bool) (s : State) (h : byte < s.octets.size) :
    setBit byte mask v s = (.ok (), stHdr byte (bitF mask v) s) := by
  unfold setBit; exact setHdr_eq _ _ s h

theorem setOpcode_eq (opcode : Nat) (s : State) (h : 2 < s.octets.size) :
    setOpcode opcode s = (.ok (), stHdr 2 (opF opcode) s) := by
  unfold setOpcode; exact setHdr_eq _ _ s h

theorem stHdr_size (i : Nat) (f : UInt8 → UInt8) (s : State) : (stHdr i f s).octets.size = s.octets.size := by
  simp [stHdr]

/-- the writer after `set_id`, `set_qr(true)`, `set_opcode`, and for QUERY `set_rd` -/
def hdrSt (w : State) (id opcode : Nat) (rd : Bool) : State :=
  let c := stHdr 2 (opF opcode) (stHdr 2 (bitF Gen.QR_MASK true) { w with octets := writeAt w.octets 0 (u16be id) })
  if opcode = 0 then stHdr 2 (bitF Gen.RD_MASK rd) c else c

theorem hdr_prog {β} (w : State) (id opcode : Nat) (rd : Bool) (k : M β) (h : 3 < w.octets.size) :
    (do setId id; setQr true; setOpcode opcode; if opcode = 0 then (do setRd rd; k) else k) w =
      k (hdrSt w id opcode rd) := by
  rw [bind_ok (setId_eq id w (by omega))]
  have h1 : 2 < ({ w with octets := writeAt w.octets 0 (u16be id) } : State).octets.size := by
    show 2 < (writeAt w.octets 0 (u16be id)).size; rw [writeAt_size]; omega
  rw [bind_ok (show setQr true _ = _ from setBit_eq Gen.QR_BYTE Gen.QR_MASK true _ h1)]
  have h2 : 2 < (stHdr Gen.QR_BYTE (bitF Gen.QR_MASK true)
      { w with octets := writeAt w.octets 0 (u16be id) }).octets.size := by
    rw [stHdr_size]; exact h1
  rw [bind_ok (setOpcode_eq opcode _ h2)]
  have h3 : 2 < (stHdr 2 (opF opcode) (stHdr Gen.QR_BYTE (bitF Gen.QR_MASK true)
      { w with octets := writeAt w.octets 0 (u16be id) })).octets.size := by
    rw [stHdr_size]; exact h2
  unfold hdrSt
  by_cases hop : opcode = 0
  · subst hop
    simp only [if_true]
    rw [bind_ok (show setRd rd _ = _ from setBit_eq Gen.RD_BYTE Gen.RD_MASK rd _ h3)]
    rfl
  · simp only [hop, if_false]
    rfl

/-- `response_buf.len()` must be at least this (else `handle_message` panics, as documented) -/
def minBuf (tr : Server.Transport) (payload : Nat) : Nat := match tr with | .tcp => 65535 | .udp => payload

theorem hdrSt_size (w : State) (id opcode : Nat) (rd : Bool) :
    (hdrSt w id opcode rd).octets.size = w.octets.size := by
  unfold hdrSt
  by_cases hop : opcode = 0
  · simp [hop, stHdr, writeAt_size]
  · simp [hop, stHdr, writeAt_size]

theorem hdrSt_fields (P : State → Prop) (hP : ∀ s o, P s → P { s with octets := o }) (w : State)
    (id opcode : Nat) (rd : Bool) (h0 : P w) : P (hdrSt w id opcode rd) := by
  unfold hdrSt
  by_cases hop : opcode = 0
  · simp only [hop, if_true]
    exact hP _ _ (hP _ _ (hP _ _ (hP _ _ h0)))
  · simp only [hop, if_false]
    exact hP _ _ (hP _ _ (hP _ _ h0))

theorem w0_size (bufLen limit : Nat) : (w0 bufLen limit).octets.size = bufLen := by
  simp [w0, zeroHeader, writeAt_size]

theorem hdrSt_ok (bufLen : Nat) (tr : Server.Transport) (payload id opcode : Nat) (rd : Bool)
    (hbuf : minBuf tr payload ≤ bufLen) (hpay : 512 ≤ payload) :
    HdrOk (hdrSt (w0 bufLen (lim0 tr)) id opcode rd) tr payload := by
  have hmin : min (lim0 tr) bufLen = lim0 tr := by
    cases tr <;> simp only [lim0, minBuf] at hbuf ⊢ <;> omega
  have hsz : (hdrSt (w0 bufLen (lim0 tr)) id opcode rd).octets.size = bufLen := by
    rw [hdrSt_size, w0_size]
  have hl : (hdrSt (w0 bufLen (lim0 tr)) id opcode rd).limit = lim0 tr :=
    hdrSt_fields (fun s => s.limit = lim0 tr) (fun _ _ h => h) _ _ _ _ hmin
  refine ⟨hdrSt_fields (fun s => s.sect = .question) (fun _ _ h => h) _ _ _ _ rfl,
    hdrSt_fields (fun s => s.qdcount = 0) (fun _ _ h => h) _ _ _ _ rfl,
    hdrSt_fields (fun s => s.ancount = 0) (fun _ _ h => h) _ _ _ _ rfl,
    hdrSt_fields (fun s => s.nscount = 0) (fun _ _ h => h) _ _ _ _ rfl,
    hdrSt_fields (fun s => s.arcount = 0) (fun _ _ h => h) _ _ _ _ rfl,
    hdrSt_fields (fun s => s.qname = none) (fun _ _ h => h) _ _ _ _ rfl,
    hdrSt_fields (fun s => s.mostRecentOwner = none) (fun _ _ h => h) _ _ _ _ rfl,
    hdrSt_fields (fun s => s.mostRecentNameInRdata = none) (fun _ _ h => h) _ _ _ _ rfl,
    hdrSt_fields (fun s => s.cursor = 12) (fun _ _ h => h) _ _ _ _ rfl,
    hdrSt_fields (fun s => s.rrStart = 12) (fun _ _ h => h) _ _ _ _ rfl,
    hdrSt_fields (fun s => s.edns = none) (fun _ _ h => h) _ _ _ _ rfl,
    hdrSt_fields (fun s => s.tsig = none) (fun _ _ h => h) _ _ _ _ rfl,
    hl,
    hdrSt_fields (fun s => s.available = s.limit) (fun _ _ h => h) _ _ _ _ rfl, ?_, ?_⟩
  · rw [hsz, hl]
    cases tr <;> simp only [lim0, minBuf] at hbuf ⊢ <;> omega
  · intro htr
    rw [hsz]
    subst htr
    exact hbuf

/-! ### `handle_message` -/

theorem qr_set : ∀ x : UInt8, x.toNat ≥ 128 → ((x.toNat &&& 128) != 0) = true := by
  apply Wire.forall_uint8; decide +kernel

theorem qr_clear : ∀ x : UInt8, x.toNat < 128 → ((x.toNat &&& 128) != 0) = false := by
  apply Wire.forall_uint8; decide +kernel

/-- `handle_message` on a request that has a full header and is not a response: the header copy,
    `handle_message_with_context`, `finish` -/
theorem handleMessage_eq (cfg : Server.Cfg) (tr : Server.Transport) (now bufLen : Nat) (req : Bytes)
    (hbuf : minBuf tr cfg.payload ≤ bufLen) (hpay : 512 ≤ cfg.payload)
    (h12 : 12 ≤ req.size) (hqr : (req.getD 2 0).toNat < 128) :
    Server.handleMessage cfg tr now bufLen req =
      match Server.handleWithContext cfg tr now ⟨req, 12, none⟩
          (hdrSt (w0 bufLen (lim0 tr)) (Spec.Server.hdr req 0) (((req.getD 2 0).toNat &&& 120) >>> 3)
            (((req.getD 2 0).toNat &&& 1) != 0)) with
      | (.ok true, w1) =>
        (match Writer.finish w1 Server.macFn with
         | .ok (bytes, _) => .ok (some bytes)
         | _ => .panic)
      | (.ok false, _) => .ok none
      | _ => .panic := by
  obtain ⟨_, _, _, _, hid, hop, hq, hrd⟩ := reader_header req h12
  have htf : tryFrom req = .ok ⟨req, 12, none⟩ := by
    unfold tryFrom; simp [Gen.HEADER_SIZE, h12]
  have hqf : (((req.getD 2 0).toNat &&& 128) != 0) = false := qr_clear _ hqr
  have hmin : 12 ≤ min (lim0 tr) bufLen := by
    cases tr <;> simp only [lim0, minBuf] at hbuf ⊢ <;> omega
  have hsz : 3 < (w0 bufLen (lim0 tr)).octets.size := by
    rw [w0_size]
    cases tr <;> simp only [minBuf] at hbuf <;> omega
  have hnew := new_eq bufLen _ hmin
  unfold Server.handleMessage
  cases tr with
  | udp =>
    simp only [minBuf] at hbuf
    simp only [lim0] at hnew hsz ⊢
    simp only [show ¬ bufLen < cfg.payload by omega, if_false, htf, hq, hid, hop, hrd, hqf, Bool.false_eq_true,
      hnew]
    rw [hdr_prog _ _ _ _ _ hsz]
    rfl
  | tcp =>
    simp only [minBuf] at hbuf
    simp only [lim0] at hnew hsz ⊢
    simp only [show ¬ bufLen < 65535 by omega, if_false, htf, hq, hid, hop, hrd, hqf, Bool.false_eq_true,
      hnew]
    rw [hdr_prog _ _ _ _ _ hsz]
    rfl


/-! ### a response is sent unless QDCOUNT > 1 -/

theorem bind_true {α} (x : M α) (f : α → M Bool)
    (hf : ∀ a s b s', f a s = (.ok b, s') → b = true) (s : State) (b : Bool) (s' : State)
    (h : (x >>= f) s = (.ok b, s')) : b = true := by
  rw [bind_apply] at h
  rcases hx : x s with ⟨(a | e | _), s1⟩
  · rw [hx] at h; exact hf a s1 b s' h
  · rw [hx] at h; cases h
  · rw [hx] at h; cases h

theorem pure_true (s : State) (b : Bool) (s' : State) (h : (pure true : M Bool) s = (.ok b, s')) : b = true := by
  rw [pure_apply] at h; cases h; rfl

theorem scanAndDispatch_true (cfg : Server.Cfg) (tr : Server.Transport) (now an ns ar opcode : Nat)
    (question : Option (WName × Nat × Nat)) (r1 : Reader) (s : State) (b : Bool) (s' : State)
    (h : Server.scanAndDispatch cfg tr now an ns ar opcode question r1 s = (.ok b, s')) : b = true := by
  unfold Server.scanAndDispatch at h
  simp only at h
  cases hs : Server.scanAnNs (an + ns) (setMark r1) with
  | none =>
    rw [hs] at h
    exact bind_true _ _ (fun _ s b s' h => pure_true s b s' h) _ _ _ h
  | some r3 =>
    rw [hs] at h
    refine bind_true _ _ (fun st s b s' h => ?_) _ _ _ h
    cases st with
    | none => exact pure_true _ _ _ h
    | some st' =>
      simp only at h
      split at h
      · exact bind_true _ _ (fun _ s b s' h => pure_true s b s' h) _ _ _ h
      · split at h
        · exact bind_true _ _ (fun _ s b s' h => pure_true s b s' h) _ _ _ h
        · exact bind_true _ _ (fun _ s b s' h => pure_true s b s' h) _ _ _ h

/-- `handle_message_with_context` clears `send_response` only for QDCOUNT > 1 -/
theorem hwc_false (cfg : Server.Cfg) (tr : Server.Transport) (now : Nat) (req : Bytes) (h12 : 12 ≤ req.size)
    (sH s' : State) (h : Server.handleWithContext cfg tr now ⟨req, 12, none⟩ sH = (.ok false, s')) :
    Spec.Server.hdr req 4 > 1 := by
  obtain ⟨hqd, han, hns, har, _, hop, _, _⟩ := reader_header req h12
  rw [Server.handleWithContext_split] at h
  unfold Server.handleWithContext' at h
  simp only [hqd, han, hns, har, hop] at h
  have tail : ∀ (question : Option (WName × Nat × Nat)) (r1 : Reader) (b : Bool) (s' : State),
      (Server.addQuestionOrServfail question >>= fun okQ =>
          if (!okQ) = true then pure true
          else Server.scanAndDispatch cfg tr now (Spec.Server.hdr req 6) (Spec.Server.hdr req 8)
            (Spec.Server.hdr req 10) (((req.getD 2 0).toNat &&& 120) >>> 3) question r1) sH = (.ok b, s') →
      b = true := by
    intro question r1 b s' hh
    refine bind_true _ _ (fun okQ s b s' h => ?_) _ _ _ hh
    split at h
    · exact pure_true _ _ _ h
    · exact scanAndDispatch_true _ _ _ _ _ _ _ _ _ _ _ _ h
  by_cases hq0 : Spec.Server.hdr req 4 = 0
  · simp only [hq0, if_true] at h
    have := tail none _ false s' h
    cases this
  · by_cases hq1 : Spec.Server.hdr req 4 = 1
    · simp only [hq1, show ¬ ((1 : Nat) = 0) by omega, if_false, if_true] at h
      rcases hrq : readQuestion (⟨req, 12, none⟩ : Reader) with ⟨(q | e | _), r1⟩
      · rw [hrq] at h
        simp only at h
        rcases hwp : WName.parse q.qname with _ | ⟨qn, rest⟩
        · rw [hwp] at h; simp only at h; cases h
        · cases rest with
          | nil =>
            rw [hwp] at h
            simp only at h
            have := tail _ _ false s' h
            cases this
          | cons x xs => rw [hwp] at h; simp only at h; cases h
      · rw [hrq] at h
        simp only [RC_FORMERR] at h
        have := bind_true _ _ (fun _ s b s' h => pure_true s b s' h) _ _ _ h
        cases this
      · rw [hrq] at h
        simp only at h
        cases h
    · omega

theorem handleMessage_short (cfg : Server.Cfg) (tr : Server.Transport) (now bufLen : Nat) (req : Bytes)
    (hbuf : minBuf tr cfg.payload ≤ bufLen) (h12 : req.size < 12) :
    Server.handleMessage cfg tr now bufLen req = .ok none := by
  have : tryFrom req = .err .HeaderTooShort := by
    unfold tryFrom; simp [Gen.HEADER_SIZE]; omega
  unfold Server.handleMessage
  cases tr with
  | udp =>
    simp only [minBuf] at hbuf
    simp only [show ¬ bufLen < cfg.payload by omega, if_false, this]
  | tcp =>
    simp only [minBuf] at hbuf
    simp only [show ¬ bufLen < 65535 by omega, if_false, this]

theorem handleMessage_qr (cfg : Server.Cfg) (tr : Server.Transport) (now bufLen : Nat) (req : Bytes)
    (hbuf : minBuf tr cfg.payload ≤ bufLen) (h12 : 12 ≤ req.size) (hqr : (req.getD 2 0).toNat ≥ 128) :
    Server.handleMessage cfg tr now bufLen req = .ok none := by
  obtain ⟨_, _, _, _, hid, hop, hq, hrd⟩ := reader_header req h12
  have hqt : (((req.getD 2 0).toNat &&& 128) != 0) = true := qr_set _ hqr
  have htf : tryFrom req = .ok ⟨req, 12, none⟩ := by
    unfold tryFrom; simp [Gen.HEADER_SIZE, h12]
  unfold Server.handleMessage
  cases tr with
  | udp =>
    simp only [minBuf] at hbuf
    simp only [show ¬ bufLen < cfg.payload by omega, if_false, htf, hq, hid, hop, hrd, hqt, if_true]
  | tcp =>
    simp only [minBuf] at hbuf
    simp only [show ¬ bufLen < 65535 by omega, if_false, htf, hq, hid, hop, hrd, hqt, if_true]

/-- **no-response conditions** (C03): `handle_message` returns no response exactly when the spec's
    scan says so — fewer than twelve octets, QR set, or QDCOUNT > 1 — for every request, transport,
    configuration and buffer -/
theorem handleMessage_none_iff (cfg : Server.Cfg) (tr : Server.Transport) (now bufLen : Nat) (req : Bytes)
    (hbuf : minBuf tr cfg.payload ≤ bufLen) (hpay : 512 ≤ cfg.payload)
    (lookup : List UInt8 → Nat → Option Spec.Server.ZoneKind) :
    Server.handleMessage cfg tr now bufLen req = .ok none ↔
      (Spec.Server.specScanWith lookup cfg.payload req).respond = false := by
  rw [specScanWith_eq]
  by_cases h12 : req.size < 12
  · simp only [h12, if_true]
    have := handleMessage_short cfg tr now bufLen req hbuf h12
    simp [this]
  · simp only [h12, if_false]
    have h12' : 12 ≤ req.size := by omega
    by_cases hqr : (req.getD 2 0).toNat ≥ 128
    · simp only [hqr, if_true]
      have := handleMessage_qr cfg tr now bufLen req hbuf h12' hqr
      simp [this]
    · simp only [hqr, if_false]
      rw [handleMessage_eq cfg tr now bufLen req hbuf hpay h12' (by omega)]
      have hresp : (specBody lookup cfg.payload req).respond = false ↔ Spec.Server.hdr req 4 > 1 := by
        unfold specBody
        by_cases hgt : Spec.Server.hdr req 4 > 1
        · simp [hgt]
        · simp only [hgt, if_false, iff_false]
          unfold specTail
          repeat' split
          all_goals simp
      rw [hresp]
      constructor
      · intro h
        split at h
        · split at h <;> cases h
        · rename_i s' heq
          exact hwc_false cfg tr now req h12' _ s' heq
        · cases h
      · intro hgt
        have hH := hdrSt_ok bufLen tr cfg.payload (Spec.Server.hdr req 0) (((req.getD 2 0).toNat &&& 120) >>> 3)
          (((req.getD 2 0).toNat &&& 1) != 0) hbuf hpay
        -- QDCOUNT > 1: `send_response = false`
        have : Server.handleWithContext cfg tr now ⟨req, 12, none⟩
            (hdrSt (w0 bufLen (lim0 tr)) (Spec.Server.hdr req 0) (((req.getD 2 0).toNat &&& 120) >>> 3)
              (((req.getD 2 0).toNat &&& 1) != 0)) = (.ok false, hdrSt (w0 bufLen (lim0 tr)) (Spec.Server.hdr req 0)
                (((req.getD 2 0).toNat &&& 120) >>> 3) (((req.getD 2 0).toNat &&& 1) != 0)) := by
          obtain ⟨hqd, han, hns, har, _, hop, _, _⟩ := reader_header req h12'
          rw [Server.handleWithContext_split]
          unfold Server.handleWithContext'
          simp only [hqd, han, hns, har, hop, show ¬ Spec.Server.hdr req 4 = 0 by omega,
            show ¬ Spec.Server.hdr req 4 = 1 by omega, if_false]
        rw [this]

end QV.ServerScan
