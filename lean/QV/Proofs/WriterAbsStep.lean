/-
  QV.Proofs.WriterAbsStep — the abstract state of the specification (`QV.Spec.Message.absOk`) keeps
  describing the writer state (`AbsNum`) along successful calls: section, counts, EDNS / TSIG
  configuration, limit, reservations, buffer length and mode evolve in the model exactly as the
  specification says (the one thing `absOk` reads off the decoded message is `cur`, the end of the
  last item written, which must be the cursor).
-/
import QV.Proofs.WriterJustified

namespace QV.Writer
open QV QV.Wire QV.Spec QV.ServerSafety

/-- the writer states agree in everything `AbsNum` looks at -/
structure KeepN (s s' : State) : Prop where
  edns : s'.edns.isSome = s.edns.isSome
  tsig : s'.tsig = s.tsig
  sect : s'.sect = s.sect
  qd : s'.qdcount = s.qdcount
  an : s'.ancount = s.ancount
  ns : s'.nscount = s.nscount
  ar : s'.arcount = s.arcount
  limit : s'.limit = s.limit
  available : s'.available = s.available
  cursor : s'.cursor = s.cursor
  size : s'.octets.size = s.octets.size
  mode : s'.mode = s.mode

/-- the abstract states agree in everything `AbsNum` looks at -/
structure SameAbs (a a' : Message.AState) : Prop where
  edns : a'.edns.isSome = a.edns.isSome
  tsig : a'.tsig = a.tsig
  sect : a'.sect = a.sect
  qd : a'.questions.length = a.questions.length
  an : a'.an.length = a.an.length
  ns : a'.ns.length = a.ns.length
  ar : a'.ar.length = a.ar.length
  limit : a'.limit = a.limit
  reserved : a'.reserved = a.reserved
  cur : a'.cur = a.cur
  buflen : a'.buflen = a.buflen
  mode : a'.mode = a.mode

theorem KeepN.refl (s : State) : KeepN s s := by constructor <;> rfl
theorem SameAbs.refl (a : Message.AState) : SameAbs a a := by constructor <;> rfl

theorem absNum_of {s s' : State} {a a' : Message.AState} (h : AbsNum s a) (k : KeepN s s') (e : SameAbs a a') :
    AbsNum s' a' := by
  refine ⟨by rw [e.edns, k.edns]; exact h.edns, by rw [e.tsig, k.tsig]; exact h.tsig, ?_,
    by rw [e.sect, k.sect]; exact h.sect, by rw [e.qd, k.qd]; exact h.qd, by rw [e.an, k.an]; exact h.an,
    by rw [e.ns, k.ns]; exact h.ns, ?_, by rw [e.limit, k.limit]; exact h.lim,
    by rw [e.reserved, k.limit, k.available]; exact h.res, by rw [e.cur, k.cursor]; exact h.cur,
    by rw [e.buflen, k.size]; exact h.buf, by rw [e.mode, k.mode]; exact h.mode⟩
  · intro t ts h1 h2
    rw [e.tsig] at h1; rw [k.tsig] at h2
    exact h.signed t ts h1 h2
  · have := h.ar
    unfold Message.secCount at this ⊢
    simp only [Nat.reduceEqDiff, if_false] at this ⊢
    rw [e.ar, e.edns, e.tsig, k.ar]; exact this

theorem keepN_write (pos : Nat) (d : List UInt8) (s : State) : KeepN s (write pos d s).2 := by
  unfold write
  split
  · constructor <;> simp
  · exact KeepN.refl s

theorem keepN_setHdr (i : Nat) (f : UInt8 → UInt8) (s : State) : KeepN s (setHdr i f s).2 := by
  unfold setHdr
  split
  · constructor <;> simp
  · exact KeepN.refl s

theorem KeepN.trans {a b c : State} (h1 : KeepN a b) (h2 : KeepN b c) : KeepN a c := by
  constructor
  · rw [h2.edns, h1.edns]
  · rw [h2.tsig, h1.tsig]
  · rw [h2.sect, h1.sect]
  · rw [h2.qd, h1.qd]
  · rw [h2.an, h1.an]
  · rw [h2.ns, h1.ns]
  · rw [h2.ar, h1.ar]
  · rw [h2.limit, h1.limit]
  · rw [h2.available, h1.available]
  · rw [h2.cursor, h1.cursor]
  · rw [h2.size, h1.size]
  · rw [h2.mode, h1.mode]

theorem keepN_setRcode (v : Nat) (s : State) : KeepN s (setRcode v s).2 := by
  unfold setRcode
  simp only [M.bind_apply]
  have h1 := keepN_setHdr Gen.RCODE_BYTE
    (fun b => (b &&& ~~~ (UInt8.ofNat Gen.RCODE_MASK)) ||| UInt8.ofNat v) s
  cases hs : setHdr Gen.RCODE_BYTE (fun b => (b &&& ~~~ (UInt8.ofNat Gen.RCODE_MASK)) ||| UInt8.ofNat v) s with
  | mk r s1 =>
    rw [hs] at h1
    cases r with
    | ok u =>
      simp only [M.modify_apply]
      refine KeepN.trans h1 ?_
      cases he : s1.edns with
      | none => simp only []; exact KeepN.refl s1
      | some e => simp only []; constructor <;> simp [he]
    | err e => exact h1
    | panic => exact h1

theorem keepN_setExtendedRcode (v : Nat) (s : State) : KeepN s (setExtendedRcode v s).2 := by
  unfold setExtendedRcode
  simp only [M.bind_apply, M.gets_apply]
  cases he : s.edns with
  | none => simp only []; exact KeepN.refl s
  | some e =>
    simp only []
    split
    · exact KeepN.refl s
    · simp only [M.bind_apply]
      generalize hf : (fun b : UInt8 => (b &&& ~~~ (UInt8.ofNat Gen.RCODE_MASK)) |||
              (UInt8.ofNat (v % 256) &&& UInt8.ofNat Gen.RCODE_MASK)) = f
      have h1 := keepN_setHdr Gen.RCODE_BYTE f s
      cases hs : setHdr Gen.RCODE_BYTE f s with
      | mk r s1 =>
        rw [hs] at h1
        cases r with
        | ok u =>
          simp only [M.modify_apply]
          refine KeepN.trans h1 ?_
          constructor <;> simp
          rw [h1.edns, he]; rfl
        | err e => exact h1
        | panic => exact h1


theorem sectNum_toSect (sec : RrSection) : sectNum (toSect sec) = Driver.secNum sec := by cases sec <;> rfl

theorem mapM_length {α β : Type} (f : α → Option β) : ∀ (l : List α) (r : List β), l.mapM f = some r → r.length = l.length := by
  intro l
  induction l with
  | nil => intro r h; simp at h; subst h; rfl
  | cons x xs ih =>
    intro r h
    simp only [List.mapM_cons] at h
    cases hx : f x with
    | none => rw [hx] at h; cases h
    | some y =>
      rw [hx] at h
      cases hxs : xs.mapM f with
      | none => rw [hxs] at h; cases h
      | some ys =>
        rw [hxs] at h
        cases h
        simp [ih ys hxs]

/-- the abstract effect of the section calls on what `AbsNum` looks at -/
theorem absNum_addRecords {s s1 s' : State} {a a' : Message.AState} {sec : RrSection} {n : Nat}
    (hA : AbsNum s a) (hcs : changeSection sec s = (.ok (), s1)) {s2 : State} (e : Ext s1 s2)
    (hsect2 : s2.sect = s1.sect)
    (hs' : s' = (setCount sec (getCount sec s2 + n) s2).2)
    (hedns : a'.edns = a.edns) (htsig : a'.tsig = a.tsig)
    (hsect : a'.sect = max a.sect (Driver.secNum sec)) (hqd : a'.questions = a.questions)
    (han : a'.an.length = a.an.length + (if sec = .answer then n else 0))
    (hns : a'.ns.length = a.ns.length + (if sec = .authority then n else 0))
    (har : a'.ar.length = a.ar.length + (if sec = .additional then n else 0))
    (hlim : a'.limit = a.limit) (hres : a'.reserved = a.reserved) (hcur : a'.cur = s'.cursor)
    (hbuf : a'.buflen = a.buflen) (hmode : a'.mode = a.mode) : AbsNum s' a' := by
  obtain ⟨h1, hA1, hB1⟩ := changeSection_ok_inv sec s s1 hcs
  have e1 : Ext s s1 := by have := frame_changeSection sec s; rwa [hcs] at this
  have e := Ext.trans e1 e
  have f1 : s'.edns = s.edns := by rw [hs', ← e.edns]; cases sec <;> rfl
  have f2 : s'.tsig = s.tsig := by rw [hs', ← e.tsig]; cases sec <;> rfl
  have f3 : s'.sect = toSect sec := by
    rw [hs']; show (setCount sec _ s2).2.sect = _
    have : (setCount sec (getCount sec s2 + n) s2).2.sect = s2.sect := by cases sec <;> rfl
    rw [this, hsect2, h1]
  have f4 : s'.limit = s.limit := by rw [hs', ← e.limit]; cases sec <;> rfl
  have f5 : s'.available = s.available := by rw [hs', ← e.available]; cases sec <;> rfl
  have f6 : s'.octets.size = s.octets.size := by rw [hs', ← e.size]; cases sec <;> rfl
  have f7 : s'.mode = s.mode := by rw [hs', ← e.mode]; cases sec <;> rfl
  have f8 : s'.qdcount = s.qdcount := by rw [hs', ← e.qd]; cases sec <;> rfl
  refine ⟨by rw [hedns, f1]; exact hA.edns, by rw [htsig, f2]; exact hA.tsig, ?_, ?_,
    by rw [hqd, f8]; exact hA.qd, ?_, ?_, ?_, by rw [hlim, f4]; exact hA.lim,
    by rw [hres, f4, f5]; exact hA.res, hcur, by rw [hbuf, f6]; exact hA.buf, by rw [hmode, f7]; exact hA.mode⟩
  · intro t ts h1 h2
    rw [htsig] at h1; rw [f2] at h2
    exact hA.signed t ts h1 h2
  · rw [hsect, f3, sectNum_toSect, hA.sect]
    cases sec with
    | answer => rcases hA1 rfl with h | h <;> rw [h] <;> rfl
    | authority =>
      have := hB1 rfl
      cases hs : s.sect <;> simp_all [sectNum, Driver.secNum]
    | additional => cases hs : s.sect <;> rfl
  · rw [han, hs']
    cases sec with
    | answer => show _ = getCount .answer s2 + n; simp only [getCount, if_true]; rw [e.an, hA.an]
    | authority => show _ = s2.ancount; simp only [reduceCtorEq, if_false, Nat.add_zero]; rw [e.an, hA.an]
    | additional => show _ = s2.ancount; simp only [reduceCtorEq, if_false, Nat.add_zero]; rw [e.an, hA.an]
  · rw [hns, hs']
    cases sec with
    | answer => show _ = s2.nscount; simp only [reduceCtorEq, if_false, Nat.add_zero]; rw [e.ns, hA.ns]
    | authority => show _ = getCount .authority s2 + n; simp only [getCount, if_true]; rw [e.ns, hA.ns]
    | additional => show _ = s2.nscount; simp only [reduceCtorEq, if_false, Nat.add_zero]; rw [e.ns, hA.ns]
  · have := hA.ar
    unfold Message.secCount at this ⊢
    simp only [Nat.reduceEqDiff, if_false] at this ⊢
    rw [har, hedns, htsig, hs']
    cases sec with
    | answer => show _ = s2.arcount; simp only [reduceCtorEq, if_false, Nat.add_zero]; rw [e.ar]; exact this
    | authority => show _ = s2.arcount; simp only [reduceCtorEq, if_false, Nat.add_zero]; rw [e.ar]; exact this
    | additional => show _ = getCount .additional s2 + n; simp only [getCount, if_true]; rw [e.ar]; omega


theorem absOk_addRrs_inv {a a' : Message.AState} {d : Message.Decoded} {secn : Nat} {owner : Message.Name}
    {ty cls ttl : Nat} {rds : List (List UInt8)} (h : Message.absOk a d (.addRrs secn owner ty cls ttl rds) = .ok a') :
    a'.edns = a.edns ∧ a'.tsig = a.tsig ∧ a'.sect = max a.sect secn ∧ a'.questions = a.questions ∧
    a'.limit = a.limit ∧ a'.reserved = a.reserved ∧ a'.buflen = a.buflen ∧ a'.mode = a.mode ∧
    a'.an.length = a.an.length + (if secn = 1 then rds.length else 0) ∧
    a'.ns.length = a.ns.length + (if secn = 1 then 0 else if secn = 2 then rds.length else 0) ∧
    a'.ar.length = a.ar.length + (if secn = 1 then 0 else if secn = 2 then 0 else rds.length) ∧
    a'.itemIdx = a.itemIdx + rds.length ∧ Message.endOf d (a.itemIdx + rds.length - 1) = some a'.cur := by
  simp only [Message.absOk] at h
  cases hm : rds.mapM (Message.givenRdata ty cls) with
  | none => rw [hm] at h; cases h
  | some fss =>
    rw [hm] at h
    simp only at h
    have hl := mapM_length _ _ _ hm
    split at h
    · cases h
    · cases he : Message.endOf d (a.itemIdx + rds.length - 1) with
      | none => rw [he] at h; cases h
      | some e =>
        rw [he] at h
        simp only at h
        split at h
        · rename_i h1
          cases h
          simp [h1, hl, he]; omega
        · split at h
          · rename_i h1 h2
            cases h
            simp [h1, h2, hl, he]; omega
          · rename_i h1 h2
            cases h
            simp [h1, h2, hl, he]; omega



theorem retemplate_ok {ss : Session} {n : Nat} {fill : UInt8} {mk : Bytes → Template → Out WriterErr State}
    (h : (retemplate ss n fill mk).1 = .ok ()) :
    ∃ t s', intoTemplate ss.w = .ok t ∧ mk (Array.replicate n fill) t = .ok s' ∧ (retemplate ss n fill mk).2.w = s' := by
  unfold retemplate at h ⊢
  cases ht : intoTemplate ss.w with
  | ok t =>
    rw [ht] at h
    simp only [] at h ⊢
    cases hm : mk (Array.replicate n fill) t with
    | ok s' => exact ⟨t, s', rfl, hm, rfl⟩
    | err e' =>
      rw [hm] at h
      simp only [] at h
      split at h <;> cases h
    | panic =>
      rw [hm] at h
      simp only [] at h
      split at h <;> cases h
  | err e' => rw [ht] at h; cases h
  | panic => rw [ht] at h; cases h

/-- what re-creating the writer from its template gives, as far as `AbsNum` looks -/
theorem absNum_template {s s' : State} {t : Template} {a : Message.AState} {n : Nat} {fill : UInt8}
    {ts : Option Tsig} (hI : I s) (hA : AbsNum s a) (ht : intoTemplate s = .ok t)
    (h' : tryFromTemplateImpl (Array.replicate n fill) t ts = .ok s')
    (hsome : ts.isSome = s.tsig.isSome)
    (hsg : ∀ t0 ts0 ts1, a.tsig = some t0 → s.tsig = some ts0 → ts = some ts1 → isUnsigned ts1.mode = isUnsigned ts0.mode) :
    AbsNum s' { a with buflen := n, limit := min a.limit n } := by
  have hi := hI.inv
  have h1 := hi.hdr; have h2 := hi.cur_av; have h3 := hi.av_lim; have h4 := hi.lim_size
  unfold intoTemplate at ht
  rw [if_neg (by omega), if_neg (by omega)] at ht
  cases ht
  unfold tryFromTemplateImpl at h'
  simp only [extract_toList_length _ _ (show s.cursor ≤ s.octets.size by omega), Array.size_replicate] at h'
  split at h'
  · cases h'
  · split at h'
    · cases h'
    · rename_i hlt hres
      cases h'
      refine ⟨hA.edns, by show a.tsig.isSome = ts.isSome; rw [hsome]; exact hA.tsig, ?_, hA.sect, hA.qd, hA.an, hA.ns,
        ?_, ?_, ?_, hA.cur, ?_, hA.mode⟩
      · intro t0 ts1 ha hts
        have hts' : ts = some ts1 := hts
        cases hs0 : s.tsig with
        | none => rw [hs0, hts'] at hsome; cases hsome
        | some ts0 =>
          rw [hA.signed t0 ts0 ha hs0]
          exact (hsg t0 ts0 ts1 ha hs0 hts').symm
      · have := hA.ar
        unfold Message.secCount at this ⊢
        simp only [Nat.reduceEqDiff, if_false] at this ⊢
        exact this
      · show min a.limit n = min s.limit n
        rw [hA.lim]
      · show a.reserved = min s.limit n - (min s.limit n - (s.limit - s.available))
        rw [hA.res]; omega
      · show n = (writeAt (Array.replicate n fill) 0 _).size
        simp

/-- the calls after which `absOk` reads the new `cur` off the decoded message -/
def movesCursor : Op → Bool
  | .addQuestion _ _ _ => true
  | .addRr _ _ _ _ _ _ _ _ => true
  | .addRrset _ _ _ _ _ _ _ _ => true
  | .clearRrs => true
  | _ => false

theorem secNum_cases (sec : RrSection) :
    (sec = .answer ∧ Driver.secNum sec = 1) ∨ (sec = .authority ∧ Driver.secNum sec = 2) ∨
    (sec = .additional ∧ Driver.secNum sec = 3) := by cases sec <;> simp [Driver.secNum]

/-- **the abstract state follows the writer**: after a successful call, the abstract state the
    specification computes (`absOk`; `cur` = the cursor) describes the new writer state -/
theorem absNum_step (ss : Session) (op : Op) (a a' : Message.AState) (d : Message.Decoded) (hI : I ss.w)
    (hop : OpOK ss op) (hA : AbsNum ss.w a) (hok : (step ss op).1 = .ok ())
    (habs : Message.absOk a d (Driver.toSpecOp op) = .ok a')
    (hcur : movesCursor op = true → a'.cur = (step ss op).2.w.cursor) :
    AbsNum (step ss op).2.w a' := by
  have hi := hI.inv
  have lw : ∀ (f : M Unit), (step ss op).2.w = (liftW ss f).2.w → KeepN ss.w (f ss.w).2 → SameAbs a a' →
      AbsNum (step ss op).2.w a' := fun f h1 k e => by rw [h1, liftW_w]; exact absNum_of hA k e
  cases op with
  | setId v =>
    simp only [Driver.toSpecOp, Message.absOk, Except.ok.injEq] at habs; subst habs
    exact lw (setId v) rfl (keepN_write _ _ _) (by constructor <;> rfl)
  | setQr b =>
    simp only [Driver.toSpecOp, Message.absOk, Except.ok.injEq] at habs; subst habs
    exact lw (setQr b) rfl (keepN_setHdr _ _ _) (by constructor <;> rfl)
  | setAa b =>
    simp only [Driver.toSpecOp, Message.absOk, Except.ok.injEq] at habs; subst habs
    exact lw (setAa b) rfl (keepN_setHdr _ _ _) (by constructor <;> rfl)
  | setTc b =>
    simp only [Driver.toSpecOp, Message.absOk, Except.ok.injEq] at habs; subst habs
    exact lw (setTc b) rfl (keepN_setHdr _ _ _) (by constructor <;> rfl)
  | setRd b =>
    simp only [Driver.toSpecOp, Message.absOk, Except.ok.injEq] at habs; subst habs
    exact lw (setRd b) rfl (keepN_setHdr _ _ _) (by constructor <;> rfl)
  | setRa b =>
    simp only [Driver.toSpecOp, Message.absOk, Except.ok.injEq] at habs; subst habs
    exact lw (setRa b) rfl (keepN_setHdr _ _ _) (by constructor <;> rfl)
  | setOpcode v =>
    simp only [Driver.toSpecOp, Message.absOk, Except.ok.injEq] at habs; subst habs
    exact lw (setOpcode v) rfl (keepN_setHdr _ _ _) (by constructor <;> rfl)
  | setRcode v =>
    simp only [Driver.toSpecOp, Message.absOk, Except.ok.injEq] at habs; subst habs
    refine lw (setRcode v) rfl (keepN_setRcode _ _) ?_
    constructor <;> try rfl
    show (a.edns.map _).isSome = _
    cases a.edns <;> rfl
  | setExtendedRcode v =>
    simp only [Driver.toSpecOp, Message.absOk] at habs
    cases he : a.edns with
    | none => rw [he] at habs; cases habs
    | some pu =>
      obtain ⟨p, u⟩ := pu
      rw [he] at habs
      simp only at habs
      split at habs
      · cases habs
      · simp only [Except.ok.injEq] at habs; subst habs
        refine lw (setExtendedRcode v) rfl (keepN_setExtendedRcode _ _) ?_
        constructor <;> try rfl
        show (some _ : Option (Nat × Nat)).isSome = a.edns.isSome
        rw [he]; rfl
  | setLimit v =>
    simp only [Driver.toSpecOp, Message.absOk, Except.ok.injEq] at habs; subst habs
    have hok' : (setLimit v ss.w).1 = .ok () := by rw [← liftW_fst]; exact hok
    show AbsNum (liftW ss (setLimit v)).2.w _
    rw [liftW_w]
    have h1 := hi.cur_av; have h2 := hi.av_lim; have h3 := hi.lim_size
    have hl := hA.lim; have hr := hA.res; have hc := hA.cur; have hb := hA.buf
    unfold setLimit at hok' ⊢
    by_cases hge : v ≥ ss.w.limit
    · rw [if_pos hge] at hok' ⊢
      simp only at hok' ⊢
      split at hok'
      · cases hok'
      · rename_i hnl
        rw [if_neg hnl]
        refine ⟨hA.edns, hA.tsig, hA.signed, hA.sect, hA.qd, hA.an, hA.ns, hA.ar, ?_, ?_, hA.cur, hA.buf, hA.mode⟩
        · show min a.buflen (max v (a.cur + a.reserved)) = min v ss.w.octets.size
          rw [hb, hc, hr]; omega
        · show a.reserved = min v ss.w.octets.size - (ss.w.available + (min v ss.w.octets.size - ss.w.limit))
          rw [hr]; omega
    · rw [if_neg hge] at hok' ⊢
      split at hok'
      · cases hok'
      · rename_i h5
        rw [if_neg h5]
        simp only at hok' ⊢
        split at hok'
        · cases hok'
        · rename_i h6
          rw [if_neg h6]
          split at hok'
          · cases hok'
          · rename_i h7
            rw [if_neg h7]
            refine ⟨hA.edns, hA.tsig, hA.signed, hA.sect, hA.qd, hA.an, hA.ns, hA.ar, ?_, ?_, hA.cur, hA.buf,
              hA.mode⟩
            · show min a.buflen (max v (a.cur + a.reserved)) = max v (ss.w.cursor + ss.w.limit - ss.w.available)
              rw [hb, hc, hr]; omega
            · show a.reserved = max v (ss.w.cursor + ss.w.limit - ss.w.available) -
                (ss.w.available - (ss.w.limit - max v (ss.w.cursor + ss.w.limit - ss.w.available)))
              rw [hr]; omega
  | setMode m =>
    simp only [Driver.toSpecOp, Message.absOk, Except.ok.injEq] at habs; subst habs
    show AbsNum (liftW ss (setCompressionMode m)).2.w _
    rw [liftW_w]
    exact ⟨hA.edns, hA.tsig, hA.signed, hA.sect, hA.qd, hA.an, hA.ns, hA.ar, hA.lim, hA.res, hA.cur, hA.buf, rfl⟩
  | addQuestion n t c =>
    have hok' : (addQuestion n t c ss.w).1 = .ok () := by rw [← liftW_fst]; exact hok
    have hw : (step ss (.addQuestion n t c)).2.w = (addQuestion n t c ss.w).2 := liftW_w ss _
    have hcur := hcur rfl
    rw [hw] at hcur ⊢
    cases hq : addQuestion n t c ss.w with
    | mk r s' =>
      rw [hq] at hok' hcur
      simp only at hok' hcur ⊢
      subst hok'
      obtain ⟨s3, hsq, hb, hs'⟩ := addQuestion_ok_inv n t c ss.w s' hq
      have e : Ext ss.w s3 := by have := frame_addQuestionBody n t c ss.w; rwa [hb] at this
      have hk := keepsSect_addQuestionBody n t c ss.w
      rw [hb] at hk
      simp only at hk
      simp only [Driver.toSpecOp, Message.absOk] at habs
      cases he : Message.endOf d a.itemIdx with
      | none => rw [he] at habs; cases habs
      | some en =>
        rw [he] at habs
        simp only [Except.ok.injEq] at habs
        subst habs
        subst hs'
        refine ⟨by show a.edns.isSome = s3.edns.isSome; rw [e.edns]; exact hA.edns,
          by show a.tsig.isSome = s3.tsig.isSome; rw [e.tsig]; exact hA.tsig, ?_,
          by show a.sect = sectNum s3.sect; rw [hk]; exact hA.sect,
          by show (_ :: a.questions).length = s3.qdcount + 1; rw [List.length_cons, e.qd, hA.qd],
          by show a.an.length = s3.ancount; rw [e.an]; exact hA.an,
          by show a.ns.length = s3.nscount; rw [e.ns]; exact hA.ns, ?_,
          by show a.limit = s3.limit; rw [e.limit]; exact hA.lim,
          by show a.reserved = s3.limit - s3.available; rw [e.limit, e.available]; exact hA.res, hcur,
          by show a.buflen = s3.octets.size; rw [e.size]; exact hA.buf,
          by show a.mode = Driver.toSpecMode s3.mode; rw [e.mode]; exact hA.mode⟩
        · intro t ts h1 h2
          have h2' : s3.tsig = some ts := h2
          rw [e.tsig] at h2'
          exact hA.signed t ts h1 h2'
        · have := hA.ar
          unfold Message.secCount at this ⊢
          simp only [Nat.reduceEqDiff, if_false] at this ⊢
          show _ = s3.arcount
          rw [e.ar]; exact this
  | addRr sec hn o ty cls ttl rd hv =>
    have hok' : (addRrOp sec (resolveHint ss.hvs hn) o ty cls ttl rd { ss.w with hv := hv.map (hvGet ss.hvs) }).1 =
        .ok () := by rw [← withHv_fst]; exact hok
    have hcur := hcur rfl
    simp only [step] at hcur ⊢
    rw [withHv_w] at hcur ⊢
    cases hq : addRrOp sec (resolveHint ss.hvs hn) o ty cls ttl rd { ss.w with hv := hv.map (hvGet ss.hvs) } with
    | mk r s' =>
      rw [hq] at hok' hcur
      simp only at hok' hcur ⊢
      subst hok'
      obtain ⟨s1, s2, h1, h2, _, hs'⟩ := addRrOp_ok_inv sec _ o ty cls ttl rd _ s' hq
      have e2 : Ext s1 s2 := by have := frame_addRr (resolveHint ss.hvs hn) o ty cls (ttlFrom ttl) rd s1; rwa [h2] at this
      have hk := keepsSect_addRr (resolveHint ss.hvs hn) o ty cls (ttlFrom ttl) rd s1
      rw [h2] at hk
      simp only at hk
      obtain ⟨g1, g2, g3, g4, g5, g6, g7, g8, g9, g10, g11, _, _⟩ := absOk_addRrs_inv habs
      have hbase := absNum_addRecords (a' := a') (n := 1) (absNum_hv hA (hv.map (hvGet ss.hvs))) h1 e2 hk hs' g1 g2 g3 g4
        (by rcases secNum_cases sec with ⟨rfl, h⟩ | ⟨rfl, h⟩ | ⟨rfl, h⟩ <;> simp [h, g9])
        (by rcases secNum_cases sec with ⟨rfl, h⟩ | ⟨rfl, h⟩ | ⟨rfl, h⟩ <;> simp [h, g10])
        (by rcases secNum_cases sec with ⟨rfl, h⟩ | ⟨rfl, h⟩ | ⟨rfl, h⟩ <;> simp [h, g11])
        g5 g6 hcur g7 g8
      exact absNum_hv hbase none
  | addRrset sec hn o ty cls ttl rds hv =>
    have hok' : (addRrsetOp sec (resolveHint ss.hvs hn) o ty cls ttl rds { ss.w with hv := hv.map (hvGet ss.hvs) }).1 =
        .ok () := by rw [← withHv_fst]; exact hok
    have hcur := hcur rfl
    simp only [step] at hcur ⊢
    rw [withHv_w] at hcur ⊢
    cases hq : addRrsetOp sec (resolveHint ss.hvs hn) o ty cls ttl rds { ss.w with hv := hv.map (hvGet ss.hvs) } with
    | mk r s' =>
      rw [hq] at hok' hcur
      simp only at hok' hcur ⊢
      subst hok'
      obtain ⟨s1, s2, n, h1, h2, _, hs'⟩ := addRrsetOp_ok_inv sec _ o ty cls ttl rds _ s' hq
      have hn' := addRrset_count o ty cls (ttlFrom ttl) rds (resolveHint ss.hvs hn) 0 s1 s2 n h2
      have e2 : Ext s1 s2 := by
        have := frame_addRrset (resolveHint ss.hvs hn) o ty cls (ttlFrom ttl) rds 0 s1; rwa [h2] at this
      have hk := keepsSect_addRrset o ty cls (ttlFrom ttl) rds (resolveHint ss.hvs hn) 0 s1
      rw [h2] at hk
      simp only at hk
      obtain ⟨g1, g2, g3, g4, g5, g6, g7, g8, g9, g10, g11, _, _⟩ := absOk_addRrs_inv habs
      have hbase := absNum_addRecords (a' := a') (n := n) (absNum_hv hA (hv.map (hvGet ss.hvs))) h1 e2 hk hs' g1 g2 g3 g4
        (by rcases secNum_cases sec with ⟨rfl, h⟩ | ⟨rfl, h⟩ | ⟨rfl, h⟩ <;> simp [h, g9, hn'])
        (by rcases secNum_cases sec with ⟨rfl, h⟩ | ⟨rfl, h⟩ | ⟨rfl, h⟩ <;> simp [h, g10, hn'])
        (by rcases secNum_cases sec with ⟨rfl, h⟩ | ⟨rfl, h⟩ | ⟨rfl, h⟩ <;> simp [h, g11, hn'])
        g5 g6 hcur g7 g8
      exact absNum_hv hbase none
  | clearRrs =>
    simp only [Driver.toSpecOp, Message.absOk, Except.ok.injEq] at habs; subst habs
    have hw : (step ss .clearRrs).2.w = (clearRrs ss.w).2 := liftW_w ss _
    have hcur := hcur rfl
    rw [hw] at hcur ⊢
    simp only [clearRrs, M.modify_apply] at hcur ⊢
    refine ⟨hA.edns, hA.tsig, hA.signed, rfl, hA.qd, rfl, rfl, ?_, hA.lim, hA.res, hcur, hA.buf, hA.mode⟩
    unfold Message.secCount
    simp only [Nat.reduceEqDiff, if_false, List.length_nil, Nat.zero_add]
    show _ = (if ss.w.edns.isSome then 1 else 0) + (if ss.w.tsig.isSome then 1 else 0)
    rw [hA.edns, hA.tsig]
  | setEdns p =>
    have hok' : (setEdns p ss.w).1 = .ok () := by rw [← liftW_fst]; exact hok
    have hw : (step ss (.setEdns p)).2.w = (setEdns p ss.w).2 := liftW_w ss _
    rw [hw]
    simp only [Driver.toSpecOp, Message.absOk] at habs
    split at habs
    · cases habs
    · simp only [Except.ok.injEq] at habs; subst habs
      have h11 : Gen.OPT_RECORD_SIZE = 11 := rfl
      unfold setEdns at hok' ⊢
      split at hok'
      · cases hok'
      · rename_i h1
        rw [if_neg h1]
        split at hok'
        · cases hok'
        · rename_i h2
          rw [if_neg h2]
          split at hok'
          · cases hok'
          · rename_i h3
            rw [if_neg h3]
            have hav := hi.av_lim
            refine ⟨rfl, hA.tsig, hA.signed, hA.sect, hA.qd, hA.an, hA.ns, ?_, hA.lim, ?_, hA.cur, hA.buf, hA.mode⟩
            · have := hA.ar
              have he : a.edns.isSome = false := by rw [hA.edns]; simpa using h1
              unfold Message.secCount at this ⊢
              simp only [Nat.reduceEqDiff, if_false, he, Bool.false_eq_true] at this ⊢
              show _ = ss.w.arcount + 1
              simp only [Option.isSome_some, if_true]
              omega
            · show a.reserved + 11 = ss.w.limit - (ss.w.available - Gen.OPT_RECORD_SIZE)
              rw [hA.res, h11]; omega
  | setTsig m rr =>
    have hok' : (setTsig m rr ss.w).1 = .ok () := by rw [← liftW_fst]; exact hok
    have hw : (step ss (.setTsig m rr)).2.w = (setTsig m rr ss.w).2 := liftW_w ss _
    rw [hw]
    obtain ⟨_, _, h6, h6'⟩ := hop
    simp only [Driver.toSpecOp, Message.absOk] at habs
    split at habs
    · cases habs
    · simp only [Except.ok.injEq] at habs; subst habs
      have hlen := atsig_rrLen m rr h6 h6' _ _ (rfl : ((match m with
        | .request a _ | .response a _ _ | .subsequent a _ _ =>
          (some (Message.algOutputSize (Driver.algNum a)), Message.algWireName (Driver.algNum a))
        | .unsigned n => ((none : Option Nat), n.wire)).1, (match m with
        | .request a _ | .response a _ _ | .subsequent a _ _ =>
          (some (Message.algOutputSize (Driver.algNum a)), Message.algWireName (Driver.algNum a))
        | .unsigned n => ((none : Option Nat), n.wire)).2) = _)
      unfold setTsig at hok' ⊢
      split at hok'
      · cases hok'
      · rename_i h1
        rw [if_neg h1]
        split at hok'
        · cases hok'
        · rename_i h2
          rw [if_neg h2]
          split at hok'
          · cases hok'
          · rename_i h3
            rw [if_neg h3]
            have hav := hi.av_lim
            refine ⟨hA.edns, rfl, ?_, hA.sect, hA.qd, hA.an, hA.ns, ?_, hA.lim, ?_, hA.cur, hA.buf, hA.mode⟩
            · intro t ts ht hts
              simp only [Option.some.injEq] at ht hts
              subst ht hts
              cases m <;> rfl
            · have := hA.ar
              have he : a.tsig.isSome = false := by rw [hA.tsig]; simpa using h1
              unfold Message.secCount at this ⊢
              simp only [Nat.reduceEqDiff, if_false, he, Bool.false_eq_true] at this ⊢
              show _ = ss.w.arcount + 1
              simp only [Option.isSome_some, if_true]
              omega
            · have key : ∀ x, x = reservedLenOf m rr → a.reserved + x = ss.w.limit - (ss.w.available - reservedLenOf m rr) :=
                fun x hx => by rw [hx, hA.res]; omega
              exact key _ hlen
  | updateTimeSigned t =>
    have hok' : (updateTimeSigned t ss.w).1 = .ok () := by rw [← liftW_fst]; exact hok
    have hw : (step ss (.updateTimeSigned t)).2.w = (updateTimeSigned t ss.w).2 := liftW_w ss _
    rw [hw]
    simp only [Driver.toSpecOp, Message.absOk] at habs
    cases hat : a.tsig with
    | none => rw [hat] at habs; cases habs
    | some at' =>
      rw [hat] at habs
      simp only [Except.ok.injEq] at habs; subst habs
      unfold updateTimeSigned at hok' ⊢
      cases hts : ss.w.tsig with
      | none => rw [hts] at hok'; cases hok'
      | some ts =>
        simp only []
        refine ⟨hA.edns, rfl, ?_, hA.sect, hA.qd, hA.an, hA.ns, ?_, hA.lim, hA.res, hA.cur, hA.buf, hA.mode⟩
        · intro t' ts' h1 h2
          simp only [Option.some.injEq] at h1 h2
          subst h1 h2
          exact hA.signed at' ts hat hts
        · have := hA.ar
          unfold Message.secCount at this ⊢
          simp only [Nat.reduceEqDiff, if_false, hat, Option.isSome_some] at this ⊢
          exact this
  | template n fill =>
    obtain ⟨t, s', ht, hm, hw⟩ := retemplate_ok hok
    have hw' : (step ss (.template n fill)).2.w = s' := hw
    rw [hw']
    simp only [Driver.toSpecOp, Message.absOk] at habs
    split at habs
    · cases habs
    · simp only [Except.ok.injEq] at habs; subst habs
      have hts := intoTemplate_tsig ht
      exact absNum_template hI hA ht hm (by rw [hts]) (fun t0 ts0 ts1 _ h0 h1 => by
        rw [hts, h0] at h1; simp only [Option.some.injEq] at h1; rw [h1])
  | templateSubsequent n fill mac =>
    obtain ⟨t, s', ht, hm, hw⟩ := retemplate_ok hok
    have hw' : (step ss (.templateSubsequent n fill mac)).2.w = s' := hw
    rw [hw']
    have hts := intoTemplate_tsig ht
    simp only [tryFromTemplateAsTsigSubsequent] at hm
    rw [hts] at hm
    simp only [Driver.toSpecOp, Message.absOk] at habs
    cases hat : a.tsig with
    | none => rw [hat] at habs; cases habs
    | some at' =>
      rw [hat] at habs
      simp only at habs
      split at habs
      · cases habs
      · split at habs
        · cases habs
        · simp only [Except.ok.injEq] at habs; subst habs
          cases hs0 : ss.w.tsig with
          | none => rw [hs0] at hm; cases hm
          | some ts0 =>
            rw [hs0] at hm
            simp only at hm
            have fin : ∀ al pm k, tryFromTemplateImpl (Array.replicate n fill) t
                (some { mode := .subsequent al pm k, reservedLen := ts0.reservedLen, rr := ts0.rr }) = .ok s' →
                isUnsigned ts0.mode = false →
                AbsNum s' { a with buflen := n, limit := min a.limit n } := by
              intro al pm k hx hun
              refine absNum_template hI hA ht hx (by rw [hs0]; rfl) (fun t0 ts0' ts1 _ h0 h1 => ?_)
              rw [hs0] at h0
              simp only [Option.some.injEq] at h0 h1
              subst h0 h1
              rw [hun]; rfl
            cases hmode : ts0.mode with
            | request al k => rw [hmode] at hm; have hx := fin _ _ _ hm (by rw [hmode]; rfl); rw [hat] at hx; exact hx
            | response al x k => rw [hmode] at hm; have hx := fin _ _ _ hm (by rw [hmode]; rfl); rw [hat] at hx; exact hx
            | subsequent al x k => rw [hmode] at hm; have hx := fin _ _ _ hm (by rw [hmode]; rfl); rw [hat] at hx; exact hx
            | unsigned nm => rw [hmode] at hm; cases hm
  | getters =>
    simp only [Driver.toSpecOp, Message.absOk, Except.ok.injEq] at habs; subst habs
    exact hA


theorem mapM_some_of_all {α β : Type} (f : α → Option β) : ∀ (l : List α), (∀ x ∈ l, (f x).isSome = true) →
    ∃ r, l.mapM f = some r := by
  intro l
  induction l with
  | nil => intro _; exact ⟨[], by simp⟩
  | cons x xs ih =>
    intro h
    obtain ⟨r, hr⟩ := ih (fun y hy => h y (List.mem_cons_of_mem _ hy))
    have hx := h x List.mem_cons_self
    cases hfx : f x with
    | none => rw [hfx] at hx; cases hx
    | some y => exact ⟨y :: r, by simp [List.mapM_cons, hfx, hr]⟩

/-- what a call needs from the decoded message and its arguments for `absOk` to go through: the
    items it wrote are in the message, and an RRset is not empty (`RdataSet` is non-empty by
    construction) -/
def AbsPre (a : Message.AState) (d : Message.Decoded) : Op → Prop
  | .addQuestion _ _ _ => (Message.endOf d a.itemIdx).isSome = true
  | .addRr _ _ _ _ _ _ _ _ => (Message.endOf d a.itemIdx).isSome = true
  | .addRrset _ _ _ _ _ _ rds _ => rds ≠ [] ∧ (Message.endOf d (a.itemIdx + rds.length - 1)).isSome = true
  | _ => True

/-- **a call the writer accepts is a call the specification accepts**: `absOk` does not reject a
    successful call (extended RCODE only with EDNS and ≤ 4095, RDATA well formed for its type, EDNS /
    TSIG not set twice, time update and subsequent template only with a (signed) TSIG, templates only
    on buffers that hold the message and the reservations) -/
theorem absOk_succeeds (ss : Session) (op : Op) (a : Message.AState) (d : Message.Decoded) (hI : I ss.w)
    (hA : AbsNum ss.w a) (hok : (step ss op).1 = .ok ()) (hpre : AbsPre a d op) :
    ∃ a', Message.absOk a d (Driver.toSpecOp op) = .ok a' := by
  cases op with
  | setId v => exact ⟨_, rfl⟩
  | setQr b => exact ⟨_, rfl⟩
  | setAa b => exact ⟨_, rfl⟩
  | setTc b => exact ⟨_, rfl⟩
  | setRd b => exact ⟨_, rfl⟩
  | setRa b => exact ⟨_, rfl⟩
  | setOpcode v => exact ⟨_, rfl⟩
  | setRcode v => exact ⟨_, rfl⟩
  | setLimit v => exact ⟨_, rfl⟩
  | setMode m => exact ⟨_, rfl⟩
  | clearRrs => exact ⟨_, rfl⟩
  | getters => exact ⟨_, rfl⟩
  | setExtendedRcode v =>
    have hok' : (setExtendedRcode v ss.w).1 = .ok () := by rw [← liftW_fst]; exact hok
    simp only [Driver.toSpecOp, Message.absOk]
    unfold setExtendedRcode at hok'
    simp only [M.bind_apply, M.gets_apply] at hok'
    cases he : ss.w.edns with
    | none => rw [he] at hok'; cases hok'
    | some ed =>
      rw [he] at hok'
      simp only [] at hok'
      have := hA.edns
      rw [he] at this
      cases hae : a.edns with
      | none => rw [hae] at this; cases this
      | some pu =>
        obtain ⟨p, u⟩ := pu
        simp only
        split at hok'
        · cases hok'
        · rename_i hv
          rw [if_neg hv]
          exact ⟨_, rfl⟩
  | addQuestion n t c =>
    simp only [Driver.toSpecOp, Message.absOk]
    simp only [AbsPre] at hpre
    cases he : Message.endOf d a.itemIdx with
    | none => rw [he] at hpre; cases hpre
    | some e => exact ⟨_, rfl⟩
  | addRr sec hn o ty cls ttl rd hv =>
    have hok' : (addRrOp sec (resolveHint ss.hvs hn) o ty cls ttl rd { ss.w with hv := hv.map (hvGet ss.hvs) }).1 =
        .ok () := by rw [← withHv_fst]; exact hok
    have hrd := (addRrOp_rdata sec _ o ty cls ttl rd _).1 hok'
    have hg := givenRdata_of_rdataOK cls ty rd hrd
    simp only [AbsPre] at hpre
    simp only [Driver.toSpecOp, Message.absOk]
    cases hgr : Message.givenRdata ty cls rd with
    | none => rw [hgr] at hg; cases hg
    | some fs =>
      simp only [List.mapM_cons, List.mapM_nil, hgr, List.length_cons, List.length_nil]
      cases he : Message.endOf d a.itemIdx with
      | none => rw [he] at hpre; cases hpre
      | some e =>
        simp only [Option.pure_def, Option.bind_eq_bind, Option.bind_some, Nat.zero_add, Nat.add_eq_zero,
          Nat.succ_ne_self, and_false, if_false, Nat.add_one_sub_one, Nat.add_zero, he]
        split
        · exact ⟨_, rfl⟩
        · split <;> exact ⟨_, rfl⟩
  | addRrset sec hn o ty cls ttl rds hv =>
    have hok' : (addRrsetOp sec (resolveHint ss.hvs hn) o ty cls ttl rds { ss.w with hv := hv.map (hvGet ss.hvs) }).1 =
        .ok () := by rw [← withHv_fst]; exact hok
    have hrd := (addRrsetOp_rdata sec _ o ty cls ttl rds _).1 hok'
    obtain ⟨hne, hend⟩ := hpre
    obtain ⟨fss, hfss⟩ := mapM_some_of_all (Message.givenRdata ty cls) rds (fun rd hm =>
      givenRdata_of_rdataOK cls ty rd (List.all_eq_true.mp hrd rd hm))
    simp only [Driver.toSpecOp, Message.absOk, hfss]
    have hl : rds.length ≠ 0 := by cases rds with
      | nil => exact absurd rfl hne
      | cons _ _ => simp
    rw [if_neg hl]
    cases he : Message.endOf d (a.itemIdx + rds.length - 1) with
    | none => rw [he] at hend; cases hend
    | some e =>
      simp only
      split
      · exact ⟨_, rfl⟩
      · split <;> exact ⟨_, rfl⟩
  | setEdns p =>
    have hok' : (setEdns p ss.w).1 = .ok () := by rw [← liftW_fst]; exact hok
    simp only [Driver.toSpecOp, Message.absOk]
    unfold setEdns at hok'
    split at hok'
    · cases hok'
    · rename_i h1
      have : a.edns.isSome = false := by rw [hA.edns]; simpa using h1
      rw [this]
      exact ⟨_, rfl⟩
  | setTsig m rr =>
    have hok' : (setTsig m rr ss.w).1 = .ok () := by rw [← liftW_fst]; exact hok
    simp only [Driver.toSpecOp, Message.absOk]
    unfold setTsig at hok'
    split at hok'
    · cases hok'
    · rename_i h1
      have : a.tsig.isSome = false := by rw [hA.tsig]; simpa using h1
      rw [this]
      exact ⟨_, rfl⟩
  | updateTimeSigned t =>
    have hok' : (updateTimeSigned t ss.w).1 = .ok () := by rw [← liftW_fst]; exact hok
    simp only [Driver.toSpecOp, Message.absOk]
    unfold updateTimeSigned at hok'
    cases hts : ss.w.tsig with
    | none => rw [hts] at hok'; cases hok'
    | some ts =>
      have := hA.tsig
      rw [hts] at this
      cases hat : a.tsig with
      | none => rw [hat] at this; cases this
      | some at' => exact ⟨_, rfl⟩
  | template n fill =>
    obtain ⟨t, s', ht, hm, _⟩ := retemplate_ok hok
    obtain ⟨f1, f2, _⟩ := intoTemplate_fields hI ht
    simp only [Driver.toSpecOp, Message.absOk]
    have hfit : ¬ n < a.cur + a.reserved := by
      rw [hA.used]
      unfold tryFromTemplate tryFromTemplateImpl at hm
      simp only [Array.size_replicate] at hm
      split at hm
      · cases hm
      · rename_i h; rw [f1, f2] at h; omega
    rw [if_neg hfit]
    exact ⟨_, rfl⟩
  | templateSubsequent n fill mac =>
    obtain ⟨t, s', ht, hm, _⟩ := retemplate_ok hok
    obtain ⟨f1, f2, f3⟩ := intoTemplate_fields hI ht
    simp only [Driver.toSpecOp, Message.absOk]
    simp only [tryFromTemplateAsTsigSubsequent] at hm
    rw [f3] at hm
    cases hs0 : ss.w.tsig with
    | none => rw [hs0] at hm; cases hm
    | some ts0 =>
      rw [hs0] at hm
      simp only at hm
      have hsome := hA.tsig
      rw [hs0] at hsome
      cases hat : a.tsig with
      | none => rw [hat] at hsome; cases hsome
      | some at' =>
        simp only
        have hsg := hA.signed at' ts0 hat hs0
        have fin : ∀ ts', tryFromTemplateImpl (Array.replicate n fill) t ts' = .ok s' → ¬ n < a.cur + a.reserved := by
          intro ts' hx
          rw [hA.used]
          unfold tryFromTemplateImpl at hx
          simp only [Array.size_replicate] at hx
          split at hx
          · cases hx
          · rename_i h; rw [f1, f2] at h; omega
        cases hmode : ts0.mode with
        | unsigned nm => rw [hmode] at hm; cases hm
        | request al k =>
          rw [hmode] at hm hsg
          simp only [isUnsigned] at hsg
          rw [hsg]; simp only [Bool.false_eq_true, if_false]
          rw [if_neg (fin _ hm)]; exact ⟨_, rfl⟩
        | response al x k =>
          rw [hmode] at hm hsg
          simp only [isUnsigned] at hsg
          rw [hsg]; simp only [Bool.false_eq_true, if_false]
          rw [if_neg (fin _ hm)]; exact ⟨_, rfl⟩
        | subsequent al x k =>
          rw [hmode] at hm hsg
          simp only [isUnsigned] at hsg
          rw [hsg]; simp only [Bool.false_eq_true, if_false]
          rw [if_neg (fin _ hm)]; exact ⟨_, rfl⟩

/-- a fresh writer put into mode `m` is described by the specification's initial state -/
theorem absNum_new (buf : Bytes) (limit : Nat) (s : State) (h : Writer.new buf limit = .ok s) (m : CMode) :
    AbsNum { s with mode := m }
      { mode := Driver.toSpecMode m, buflen := buf.size, limit := min limit buf.size } := by
  unfold Writer.new at h
  dsimp only at h
  split at h
  · cases h
  · have hs := Out.ok.inj h
    have g1 : s.edns = none := by rw [← hs]
    have g2 : s.tsig = none := by rw [← hs]
    have g3 : s.sect = .question := by rw [← hs]
    have g4 : s.qdcount = 0 ∧ s.ancount = 0 ∧ s.nscount = 0 ∧ s.arcount = 0 := by rw [← hs]; exact ⟨rfl, rfl, rfl, rfl⟩
    have g5 : s.limit = min limit buf.size ∧ s.available = min limit buf.size := by rw [← hs]; exact ⟨rfl, rfl⟩
    have g6 : s.cursor = 12 := by rw [← hs]; rfl
    have g7 : s.octets.size = buf.size := by
      have := congrArg (fun x => x.octets.size) hs
      simp only at this
      rw [← this]; unfold zeroHeader; exact writeAt_size _ _ _
    refine ⟨?_, ?_, ?_, ?_, ?_, ?_, ?_, ?_, ?_, ?_, ?_, ?_, rfl⟩
    · show (none : Option (Nat × Nat)).isSome = s.edns.isSome; rw [g1]; rfl
    · show (none : Option Message.ATsig).isSome = s.tsig.isSome; rw [g2]; rfl
    · intro t ts h1 _; cases h1
    · show 0 = sectNum s.sect; rw [g3]; rfl
    · show 0 = s.qdcount; rw [g4.1]
    · show 0 = s.ancount; rw [g4.2.1]
    · show 0 = s.nscount; rw [g4.2.2.1]
    · show Message.secCount _ 3 = s.arcount; rw [g4.2.2.2]; rfl
    · show min limit buf.size = s.limit; rw [g5.1]
    · show 0 = s.limit - s.available; rw [g5.1, g5.2]; omega
    · show 12 = s.cursor; rw [g6]
    · show buf.size = s.octets.size; rw [g7]

end QV.Writer
