/-
  QV.Proofs.ServerAnswerContent — the ghost log of the answer phase is tied to the writer's content
  layout `CLay` (Proofs/WriterContent.lean).

  `bodyOf b0 log` = the body `b0` plus the records of the logged `add_*` calls that succeeded, in
  call order, by section (reset to the questions by a logged `clear_rrs`). `Tied b0 ps` says the
  writer of `ps` is laid out as `bodyOf b0 ps.log`. The pass below threads `Tied` through every
  function of `src/server/query.rs` up to `handle_non_axfr_query`.

  The per-call facts are the writer's `clay_addRrsetOp` / `clay_addRrOp`; they need the writer
  invariant `I`, a well-formed owner and a valid hint *at each call*. Those are exactly what C01's
  pass (Proofs/ServerQuery.lean) establishes on the way; so this pass runs the same induction with
  the judgement `SafeT` = C01's `SafeP` plus "`Tied` is kept", whose rules have the same shape.
-/
import QV.Proofs.ServerQuery
import QV.Proofs.WriterContent
import QV.Proofs.ServerAnswerCap
import QV.Proofs.WriterView

namespace QV.ServerContent
open QV QV.Writer QV.Server QV.ServerSafety QV.ServerAnswer

abbrev W : WriterSafe := Writer.writerSafe

/-- the records of one logged `add_*` call, as the writer's content layout names them -/
def evRecs (a : AddEv) : List RRec := a.rdatas.map fun rd => ⟨a.owner, a.ty, a.cls, Writer.ttlFrom a.ttl, rd⟩

/-- the effect of one logged operation on the body of the message -/
def evBody (b : Body) : Ev → Body
  | .add a =>
    match a.res with
    | .ok _ => b.add a.sec (evRecs a)
    | _ => b
  | .clear => { qs := b.qs }
  | _ => b

/-- the body after the logged operations: `b0` plus the records of the successful `add_*` calls,
    in order, by section -/
def bodyOf (b0 : Body) (log : List Ev) : Body := log.foldl evBody b0

theorem bodyOf_nil (b0 : Body) : bodyOf b0 [] = b0 := rfl

theorem bodyOf_snoc (b0 : Body) (log : List Ev) (ev : Ev) :
    bodyOf b0 (log ++ [ev]) = evBody (bodyOf b0 log) ev := by
  simp [bodyOf]

theorem bodyOf_append (b0 : Body) (l1 l2 : List Ev) : bodyOf b0 (l1 ++ l2) = bodyOf (bodyOf b0 l1) l2 := by
  simp [bodyOf]

/-! ### the header octets and the view of the log -/

def aaBit (x : UInt8) : Bool := x &&& 4 != 0
def tcBit (x : UInt8) : Bool := x &&& 2 != 0

/-- the header octets 2 and 3 of the writer show the AA, TC and RCODE of a view -/
def HdrView (w : State) (v : View) : Prop :=
  aaBit (w.octets.getD 2 0) = v.aa ∧ tcBit (w.octets.getD 2 0) = v.tc ∧
  w.octets.getD 3 0 &&& 15 = UInt8.ofNat v.rcode &&& 15

theorem u8_all (p : UInt8 → Prop) (h : ∀ i : Fin 256, p (UInt8.ofNat i.val)) (x : UInt8) : p x := by
  have := h ⟨x.toNat, x.toNat_lt⟩
  simpa using this

theorem bit_set (x : UInt8) : aaBit (x ||| 4) = true ∧ tcBit (x ||| 4) = tcBit x ∧
    aaBit (x &&& ~~~4) = false ∧ tcBit (x &&& ~~~4) = tcBit x ∧
    tcBit (x ||| 2) = true ∧ aaBit (x ||| 2) = aaBit x ∧
    tcBit (x &&& ~~~2) = false ∧ aaBit (x &&& ~~~2) = aaBit x := by
  refine u8_all (fun x => aaBit (x ||| 4) = true ∧ tcBit (x ||| 4) = tcBit x ∧
    aaBit (x &&& ~~~4) = false ∧ tcBit (x &&& ~~~4) = tcBit x ∧
    tcBit (x ||| 2) = true ∧ aaBit (x ||| 2) = aaBit x ∧
    tcBit (x &&& ~~~2) = false ∧ aaBit (x &&& ~~~2) = aaBit x) ?_ x
  decide +kernel

theorem rc_set (x y : UInt8) : (x &&& ~~~15 ||| y) &&& 15 = y &&& 15 := by
  apply UInt8.eq_of_toBitVec_eq
  simp only [UInt8.toBitVec_and, UInt8.toBitVec_or, UInt8.toBitVec_not]
  ext i hi
  simp only [BitVec.getElem_and, BitVec.getElem_or, BitVec.getElem_not]
  cases x.toBitVec[i] <;> cases y.toBitVec[i] <;> cases (15 : UInt8).toBitVec[i] <;> rfl

/-- any writer shows *some* view -/
theorem hdrView_exists (w : State) : ∃ v0, HdrView w v0 :=
  ⟨{ aa := aaBit (w.octets.getD 2 0), tc := tcBit (w.octets.getD 2 0), rcode := (w.octets.getD 3 0 &&& 15).toNat },
    rfl, rfl, by
      show w.octets.getD 3 0 &&& 15 = UInt8.ofNat (w.octets.getD 3 0 &&& 15).toNat &&& 15
      rw [UInt8.ofNat_toNat, UInt8.and_assoc, UInt8.and_self]⟩

theorem hdrView_congr {w w' : State} {v : View} (h : HdrView w v) (h2 : w'.octets[2]? = w.octets[2]?)
    (h3 : w'.octets[3]? = w.octets[3]?) : HdrView w' v := by
  unfold HdrView
  rw [Array.getD_eq_getD_getElem?, Array.getD_eq_getD_getElem?, h2, h3, ← Array.getD_eq_getD_getElem?,
    ← Array.getD_eq_getD_getElem?]
  exact h

/-- what a header operation does to the header view: on success the view's step, otherwise nothing -/
def HdrStep (m : M Unit) (ev : Ev) : Prop :=
  ∀ w v, HdrView w v → ((m w).1 = .ok () → HdrView (m w).2 (v.step ev)) ∧ ((m w).1 ≠ .ok () → HdrView (m w).2 v)

theorem setHdr_self (i : Nat) (f : UInt8 → UInt8) (w : State) (h : i < w.octets.size) :
    (setHdr i f w).1 = .ok () ∧ (setHdr i f w).2.octets.getD i 0 = f (w.octets.getD i 0) := by
  unfold setHdr
  rw [dif_pos h]
  refine ⟨rfl, ?_⟩
  show (w.octets.set i _ h).getD i 0 = _
  rw [Array.getD_eq_getD_getElem?, Array.getElem?_set, if_pos rfl, Array.getD_eq_getD_getElem?,
    Array.getElem?_eq_getElem h]
  simp [h]

theorem setHdr_other (i j : Nat) (f : UInt8 → UInt8) (w : State) (hij : i ≠ j) :
    (setHdr i f w).2.octets.getD j 0 = w.octets.getD j 0 := by
  unfold setHdr
  split
  · rename_i h
    show (w.octets.set i _ h).getD j 0 = _
    rw [Array.getD_eq_getD_getElem?, Array.getElem?_set, if_neg hij, ← Array.getD_eq_getD_getElem?]
  · rfl

theorem setHdr_fail (i : Nat) (f : UInt8 → UInt8) (w : State) (h : ¬ i < w.octets.size) :
    setHdr i f w = (.panic, w) := by
  unfold setHdr; rw [dif_neg h]

theorem hdrStep_setAa (b : Bool) : HdrStep (Writer.setAa b) (.aa b) := by
  intro w v ⟨h1, h2, h3⟩
  unfold Writer.setAa setBit
  by_cases hs : Gen.AA_BYTE < w.octets.size
  · obtain ⟨e1, e2⟩ := setHdr_self Gen.AA_BYTE (fun x => if b then x ||| UInt8.ofNat Gen.AA_MASK
      else x &&& ~~~ (UInt8.ofNat Gen.AA_MASK)) w hs
    have e3 := setHdr_other Gen.AA_BYTE 3 (fun x => if b then x ||| UInt8.ofNat Gen.AA_MASK
      else x &&& ~~~ (UInt8.ofNat Gen.AA_MASK)) w (by decide)
    refine ⟨fun _ => ?_, fun h => absurd e1 h⟩
    have hb := bit_set (w.octets.getD 2 0)
    refine ⟨?_, ?_, by rw [e3]; exact h3⟩
    · rw [show (2 : Nat) = Gen.AA_BYTE from rfl, e2]
      cases b
      · exact hb.2.2.1
      · exact hb.1
    · rw [show (2 : Nat) = Gen.AA_BYTE from rfl, e2]
      show _ = v.tc
      rw [← h2]
      cases b
      · exact hb.2.2.2.1
      · exact hb.2.1
  · rw [setHdr_fail _ _ _ hs]
    exact ⟨fun h => (by cases h), fun _ => ⟨h1, h2, h3⟩⟩

theorem hdrStep_setTc (b : Bool) : HdrStep (Writer.setTc b) (.tc b) := by
  intro w v ⟨h1, h2, h3⟩
  unfold Writer.setTc setBit
  by_cases hs : Gen.TC_BYTE < w.octets.size
  · obtain ⟨e1, e2⟩ := setHdr_self Gen.TC_BYTE (fun x => if b then x ||| UInt8.ofNat Gen.TC_MASK
      else x &&& ~~~ (UInt8.ofNat Gen.TC_MASK)) w hs
    have e3 := setHdr_other Gen.TC_BYTE 3 (fun x => if b then x ||| UInt8.ofNat Gen.TC_MASK
      else x &&& ~~~ (UInt8.ofNat Gen.TC_MASK)) w (by decide)
    refine ⟨fun _ => ?_, fun h => absurd e1 h⟩
    have hb := bit_set (w.octets.getD 2 0)
    refine ⟨?_, ?_, by rw [e3]; exact h3⟩
    · rw [show (2 : Nat) = Gen.TC_BYTE from rfl, e2]
      show _ = v.aa
      rw [← h1]
      cases b
      · exact hb.2.2.2.2.2.2.2
      · exact hb.2.2.2.2.2.1
    · rw [show (2 : Nat) = Gen.TC_BYTE from rfl, e2]
      cases b
      · exact hb.2.2.2.2.2.2.1
      · exact hb.2.2.2.2.1
  · rw [setHdr_fail _ _ _ hs]
    exact ⟨fun h => (by cases h), fun _ => ⟨h1, h2, h3⟩⟩

theorem hdrStep_setRcode (r : Nat) : HdrStep (Writer.setRcode r) (.rcode r) := by
  intro w v ⟨h1, h2, h3⟩
  unfold Writer.setRcode
  simp only [M.bind_apply]
  by_cases hs : Gen.RCODE_BYTE < w.octets.size
  · obtain ⟨e1, e2⟩ := setHdr_self Gen.RCODE_BYTE (fun b => (b &&& ~~~ (UInt8.ofNat Gen.RCODE_MASK)) ||| UInt8.ofNat r) w hs
    have e3 := setHdr_other Gen.RCODE_BYTE 2 (fun b => (b &&& ~~~ (UInt8.ofNat Gen.RCODE_MASK)) ||| UInt8.ofNat r) w (by decide)
    generalize setHdr Gen.RCODE_BYTE (fun b => (b &&& ~~~ (UInt8.ofNat Gen.RCODE_MASK)) ||| UInt8.ofNat r) w = res at e1 e2 e3
    obtain ⟨o, w1⟩ := res
    simp only at e1 e2 e3
    subst e1
    simp only [M.modify_apply]
    have key : HdrView w1 (v.step (.rcode r)) := by
      refine ⟨by rw [e3]; exact h1, by rw [e3]; exact h2, ?_⟩
      rw [show (3 : Nat) = Gen.RCODE_BYTE from rfl, e2]
      exact rc_set _ _
    refine ⟨fun _ => ?_, fun h => absurd rfl h⟩
    split
    · exact hdrView_congr key rfl rfl
    · exact key
  · rw [setHdr_fail _ _ _ hs]
    exact ⟨fun h => (by cases h), fun _ => ⟨h1, h2, h3⟩⟩

theorem step_add_flags (v : View) (a : AddEv) : (v.step (.add a)).aa = v.aa ∧ (v.step (.add a)).tc = v.tc ∧
    (v.step (.add a)).rcode = v.rcode := by
  simp only [View.step]
  split
  · cases a.sec <;> exact ⟨rfl, rfl, rfl⟩
  · exact ⟨rfl, rfl, rfl⟩

theorem hdrView_add {w : State} {v : View} (h : HdrView w v) (a : AddEv) : HdrView w (v.step (.add a)) := by
  obtain ⟨f1, f2, f3⟩ := step_add_flags v a
  unfold HdrView
  rw [f1, f2, f3]; exact h

/-- the extended-RCODE octet of the EDNS slot is 0 (the answering phase only ever resets it) -/
def EdnsUp0 (w : State) : Prop := ∀ e, w.edns = some e → e.upper = 0

theorem ednsUp0_of_eq {w w' : State} (h : EdnsUp0 w) (e : w'.edns = w.edns) : EdnsUp0 w' := by
  intro x hx; rw [e] at hx; exact h x hx

theorem setHdr_edns (i : Nat) (f : UInt8 → UInt8) (s : State) : (setHdr i f s).2.edns = s.edns := by
  unfold setHdr; split <;> rfl

theorem ednsUp0_setRcode (v : Nat) (s : State) (h : EdnsUp0 s) : EdnsUp0 (Writer.setRcode v s).2 := by
  by_cases hs : 3 < s.octets.size
  · rw [setRcode_eq v s hs]
    intro x hx
    simp only at hx
    unfold stRcode at hx
    simp only at hx
    cases he : (stHdr 3 (fun b => (b &&& ~~~ (15 : UInt8)) ||| UInt8.ofNat v) s).edns with
    | none => rw [he] at hx; simp only at hx; rw [he] at hx; cases hx
    | some e0 => rw [he] at hx; simp only [Option.some.injEq] at hx; subst hx; rfl
  · have : Writer.setRcode v s = (.panic, s) := by
      unfold Writer.setRcode
      simp only [M.bind_apply]
      rw [setHdr_fail _ _ _ (by show ¬ 3 < s.octets.size; exact hs)]
    rw [this]; exact h

/-- the writer of `ps` holds exactly the questions and records `bodyOf b0 ps.log` (and its limit is
    one a DNS message can have) -/
def Tied (Pc : CMode → Prop) (b0 : Body) (v0 : View) (U : Prop) (s : PS) : Prop :=
  s.w.limit ≤ 65535 ∧ (∃ mb, CLay Pc s.w (bodyOf b0 s.log) mb) ∧ HdrView s.w (s.log.foldl View.step v0) ∧
  (U → EdnsUp0 s.w)

/-- C01's judgement plus: the tie between log and content is kept -/
def SafeT (Pc : CMode → Prop) (b0 : Body) (v0 : View) (U : Prop) {ε α : Type} (f : PS → Out ε α × PS) (s : PS)
    (Q : α → State → Prop) : Prop :=
  SafeP W f s Q ∧ (Tied Pc b0 v0 U s → Tied Pc b0 v0 U (f s).2)

variable {Pc : CMode → Prop} {b0 : Body} {v0 : View} {U : Prop}

theorem SafeT.weaken {ε α : Type} {f : PS → Out ε α × PS} {s : PS} {Q Q' : α → State → Prop}
    (h : SafeT Pc b0 v0 U f s Q) (hq : ∀ a w', W.I w' → Mono W.Den s.w w' → Q a w' → Q' a w') :
    SafeT Pc b0 v0 U f s Q' :=
  ⟨h.1.weaken W hq, h.2⟩

theorem safeT_congr {ε α : Type} {f g : PS → Out ε α × PS} {s : PS} {Q : α → State → Prop}
    (h : f s = g s) (hg : SafeT Pc b0 v0 U g s Q) : SafeT Pc b0 v0 U f s Q :=
  ⟨safeP_congr W h hg.1, by rw [h]; exact hg.2⟩

theorem safeT_bind {α β : Type} {x : PM α} {g : α → PM β} {s : PS} {Q : α → State → Prop}
    {R : β → State → Prop} (hx : SafeT Pc b0 v0 U x s Q)
    (hg : ∀ a s', W.I s'.w → Mono W.Den s.w s'.w → Q a s'.w → SafeT Pc b0 v0 U (g a) s' R) :
    SafeT Pc b0 v0 U (x >>= g) s R := by
  obtain ⟨hs, ht⟩ := hx
  refine ⟨safe_bind_PM W hs (fun a s' h1 h2 h3 => (hg a s' h1 h2 h3).1), fun htied => ?_⟩
  obtain ⟨h1, h2, h3, h4⟩ := hs
  have ht' := ht htied
  rw [PM.bind_apply]
  generalize x s = r at h1 h2 h3 h4 ht'
  obtain ⟨o, s'⟩ := r
  cases o with
  | ok a => exact (hg a s' h2 h3 (h4 a rfl)).2 ht'
  | err e => exact ht'
  | panic => exact ht'

theorem safeT_pure {α : Type} (a : α) (s : PS) (hi : W.I s.w) {Q : α → State → Prop} (hq : Q a s.w) :
    SafeT Pc b0 v0 U (pure a : PM α) s Q :=
  ⟨safe_pure_PM W a s hi hq, fun h => h⟩

theorem safeT_fail {α : Type} (e : PErr) (s : PS) (hi : W.I s.w) {Q : α → State → Prop} :
    SafeT Pc b0 v0 U (PM.fail e : PM α) s Q :=
  ⟨safe_fail_PM W e s hi, fun h => h⟩

/-- a computation that fails without touching the state -/
theorem safeT_err {α : Type} {f : PM α} {s : PS} {e : PErr} (h : f s = (.err e, s)) (hi : W.I s.w)
    {Q : α → State → Prop} : SafeT Pc b0 v0 U f s Q := by
  refine ⟨?_, fun ht => by rw [h]; exact ht⟩
  unfold SafeP; rw [h]
  exact ⟨by simp, hi, Mono.refl _ _, fun _ h => by cases h⟩

/-! ### the leaves -/

theorem foldl_snoc (v0 : View) (log : List Ev) (ev : Ev) :
    (log ++ [ev]).foldl View.step v0 = (log.foldl View.step v0).step ev := by
  simp [List.foldl_append]

/-- a logged header operation that leaves everything from octet 12 on alone -/
theorem tied_hdrOp (ev : Ev) (m : M Unit) (hev : ∀ b, evBody b ev = b) (hk : ServerAnswer.HdrKeeps m)
    (hs : HdrStep m ev) (hup : ∀ w, EdnsUp0 w → EdnsUp0 (m w).2) (s : PS) (hi : Writer.I s.w)
    (ht : Tied Pc b0 v0 U s) : Tied Pc b0 v0 U (PM.hdrOp ev m s).2 := by
  obtain ⟨hl, ⟨mb, hc⟩, hh, hu⟩ := ht
  have hc' := clay_hdrOnly hc hi (hk.hdr s.w)
  have hl' := hk.limit s.w
  obtain ⟨hs1, hs2⟩ := hs s.w _ hh
  have hu' : U → EdnsUp0 (m s.w).2 := fun x => hup s.w (hu x)
  unfold PM.hdrOp
  generalize m s.w = r at hc' hl' hs1 hs2 hu'
  obtain ⟨o, w'⟩ := r
  simp only at hl' hs1 hs2 hu'
  cases o with
  | ok u =>
    exact ⟨by show w'.limit ≤ _; rw [hl']; exact hl, ⟨mb, by
      show CLay Pc w' (bodyOf b0 (s.log ++ [ev])) mb; rw [bodyOf_snoc, hev]; exact hc'⟩, by
      show HdrView w' ((s.log ++ [ev]).foldl View.step v0); rw [foldl_snoc]; exact hs1 rfl, hu'⟩
  | err e =>
    exact ⟨by show w'.limit ≤ _; rw [hl']; exact hl, ⟨mb, by
      show CLay Pc w' (bodyOf b0 (s.log ++ [.bad])) mb; rw [bodyOf_snoc]; exact hc'⟩, by
      show HdrView w' ((s.log ++ [Ev.bad]).foldl View.step v0); rw [foldl_snoc]; exact hs2 (by simp), hu'⟩
  | panic =>
    exact ⟨by show w'.limit ≤ _; rw [hl']; exact hl, ⟨mb, by
      show CLay Pc w' (bodyOf b0 (s.log ++ [.bad])) mb; rw [bodyOf_snoc]; exact hc'⟩, by
      show HdrView w' ((s.log ++ [Ev.bad]).foldl View.step v0); rw [foldl_snoc]; exact hs2 (by simp), hu'⟩

theorem safeT_setAa (b : Bool) (s : PS) (hi : W.I s.w) : SafeT Pc b0 v0 U (PM.setAa b) s (fun _ _ => True) :=
  ⟨safe_hdr_setAa W b s hi, tied_hdrOp _ _ (fun _ => rfl)
    (ServerAnswer.hdrKeeps_setBit _ _ _ (by decide)) (hdrStep_setAa b)
    (fun w h => ednsUp0_of_eq h (setHdr_edns _ _ w)) s hi⟩

theorem safeT_setTc (b : Bool) (s : PS) (hi : W.I s.w) : SafeT Pc b0 v0 U (PM.setTc b) s (fun _ _ => True) :=
  ⟨safe_hdr_setTc W b s hi, tied_hdrOp _ _ (fun _ => rfl)
    (ServerAnswer.hdrKeeps_setBit _ _ _ (by decide)) (hdrStep_setTc b)
    (fun w h => ednsUp0_of_eq h (setHdr_edns _ _ w)) s hi⟩

theorem safeT_setRcode (v : Nat) (s : PS) (hi : W.I s.w) : SafeT Pc b0 v0 U (PM.setRcode v) s (fun _ _ => True) :=
  ⟨safe_hdr_setRcode W v s hi, tied_hdrOp _ _ (fun _ => rfl) (ServerAnswer.hdrKeeps_setRcode v)
    (hdrStep_setRcode v) (fun w h => ednsUp0_setRcode v w h) s hi⟩

/-- `clear_rrs`: the body is reset to the questions -/
theorem tied_clearRrs (s : PS) (hi : Writer.I s.w) (ht : Tied Pc b0 v0 U s) : Tied Pc b0 v0 U (PM.clearRrs s).2 := by
  obtain ⟨hl, ⟨mb, hc⟩, hh, hu⟩ := ht
  have hc' := clay_clearRrs s.w hc hi
  unfold PM.clearRrs PM.hdrOp
  rw [clearRrs_apply]
  exact ⟨hl, ⟨_, by
    show CLay Pc (Writer.clearRrs s.w).2 (bodyOf b0 (s.log ++ [.clear])) _
    rw [bodyOf_snoc]; exact hc'⟩, by
    show HdrView (Writer.clearRrs s.w).2 ((s.log ++ [Ev.clear]).foldl View.step v0)
    rw [foldl_snoc]
    exact hdrView_congr (v := (s.log.foldl View.step v0).step Ev.clear) hh rfl rfl,
    fun x => ednsUp0_of_eq (hu x) rfl⟩

/-- a logged record-adding call: on success the records of the call are appended to their
    section, on failure nothing changes -/
theorem tied_addCall (ev : AddEv) (m0 : M Unit) (s : PS)
    (hnp : (m0 { s.w with hv := some [] }).1 ≠ .panic)
    (hI0 : Writer.I { s.w with hv := some [] })
    (hlim : (m0 { s.w with hv := some [] }).2.limit = s.w.limit)
    (hoct : ∀ i, i < 12 → (m0 { s.w with hv := some [] }).2.octets[i]? = s.w.octets[i]?)
    (herr : ∀ e s', m0 { s.w with hv := some [] } = (.err e, s') → Same { s.w with hv := some [] } s')
    (hok : ∀ s' b mb, CLay Pc { s.w with hv := some [] } b mb → m0 { s.w with hv := some [] } = (.ok (), s') →
      ∃ mb', CLay Pc s' (b.add ev.sec (evRecs ev)) mb')
    (hed : (m0 { s.w with hv := some [] }).2.edns = s.w.edns)
    (ht : Tied Pc b0 v0 U s) : Tied Pc b0 v0 U (PM.addCall ev (Server.withHv [] m0) s).2 := by
  obtain ⟨hl, ⟨mb, hc⟩, hh, hu⟩ := ht
  have hc0 := clay_hv s.w (some []) hc
  unfold PM.addCall Server.withHv
  dsimp only
  generalize m0 { s.w with hv := some [] } = r at hnp herr hok hlim hoct hed
  obtain ⟨o, s1⟩ := r
  simp only at hlim hoct hed
  have hu1 : U → EdnsUp0 ({ s1 with hv := none } : State) := fun x => ednsUp0_of_eq (hu x) hed
  have hl1 : ({ s1 with hv := none } : State).limit ≤ 65535 := by show s1.limit ≤ _; rw [hlim]; exact hl
  have hh1 : ∀ a, HdrView ({ s1 with hv := none } : State) ((s.log ++ [Ev.add a]).foldl View.step v0) := by
    intro a
    rw [foldl_snoc]
    exact hdrView_add (hdrView_congr hh (hoct 2 (by omega)) (hoct 3 (by omega))) a
  cases o with
  | ok u =>
    cases u
    obtain ⟨mb', h'⟩ := hok s1 _ _ hc0 rfl
    exact ⟨hl1, ⟨mb', by
      show CLay Pc { s1 with hv := none } (bodyOf b0 (s.log ++ [.add { ev with res := .ok () }])) mb'
      rw [bodyOf_snoc]; exact clay_hv s1 none h'⟩, hh1 _, hu1⟩
  | err e =>
    have h' := clay_hv s1 none (clay_same hc0 hI0 (herr e s1 rfl))
    dsimp only
    split
    · exact ⟨hl1, ⟨mb, by
        show CLay Pc { s1 with hv := none } (bodyOf b0 (s.log ++ [.add { ev with res := .err e }])) mb
        rw [bodyOf_snoc]; exact h'⟩, hh1 _, hu1⟩
    · exact ⟨hl1, ⟨mb, by
        show CLay Pc { s1 with hv := none } (bodyOf b0 (s.log ++ [.add { ev with res := .err e }])) mb
        rw [bodyOf_snoc]; exact h'⟩, hh1 _, hu1⟩
  | panic => exact absurd rfl hnp

theorem setCount_octets (sec : RrSection) (n : Nat) (s : State) : (setCount sec n s).2.octets = s.octets := by
  cases sec <;> rfl

theorem setCount_edns (sec : RrSection) (n : Nat) (s : State) : (setCount sec n s).2.edns = s.edns := by
  cases sec <;> rfl

theorem addRrsetOp_edns (sec : RrSection) (hint : Hint) (owner : WName) (ty cls ttl : Nat)
    (rds : List (List UInt8)) (s : State) : (addRrsetOp sec hint owner ty cls ttl rds s).2.edns = s.edns := by
  have h := addRrsetOp_cases sec hint owner ty cls ttl rds s
  generalize addRrsetOp sec hint owner ty cls ttl rds s = r at h
  obtain ⟨o, s'⟩ := r
  cases o with
  | ok u => obtain ⟨s1, n, e, _, hs'⟩ := h; rw [hs', setCount_edns]; exact e.edns
  | err e => exact h.edns
  | panic => exact h.edns

theorem addRrOp_edns (sec : RrSection) (hint : Hint) (owner : WName) (ty cls ttl : Nat)
    (rd : List UInt8) (s : State) : (addRrOp sec hint owner ty cls ttl rd s).2.edns = s.edns := by
  have h := addRrOp_cases sec hint owner ty cls ttl rd s
  generalize addRrOp sec hint owner ty cls ttl rd s = r at h
  obtain ⟨o, s'⟩ := r
  cases o with
  | ok u => obtain ⟨s1, e, _, hs'⟩ := h; rw [hs', setCount_edns]; exact e.edns
  | err e => exact h.edns
  | panic => exact h.edns

theorem addRrsetOp_hdr (sec : RrSection) (hint : Hint) (owner : WName) (ty cls ttl : Nat)
    (rds : List (List UInt8)) (s : State) (i : Nat) (hi : i < s.cursor) :
    (addRrsetOp sec hint owner ty cls ttl rds s).2.octets[i]? = s.octets[i]? := by
  have h := addRrsetOp_cases sec hint owner ty cls ttl rds s
  generalize addRrsetOp sec hint owner ty cls ttl rds s = r at h
  obtain ⟨o, s'⟩ := r
  cases o with
  | ok u => obtain ⟨s1, n, e, _, hs'⟩ := h; rw [hs', setCount_octets]; exact e.pre i hi
  | err e => exact h.pre i hi
  | panic => exact h.pre i hi

theorem addRrOp_hdr (sec : RrSection) (hint : Hint) (owner : WName) (ty cls ttl : Nat)
    (rd : List UInt8) (s : State) (i : Nat) (hi : i < s.cursor) :
    (addRrOp sec hint owner ty cls ttl rd s).2.octets[i]? = s.octets[i]? := by
  have h := addRrOp_cases sec hint owner ty cls ttl rd s
  generalize addRrOp sec hint owner ty cls ttl rd s = r at h
  obtain ⟨o, s'⟩ := r
  cases o with
  | ok u => obtain ⟨s1, e, _, hs'⟩ := h; rw [hs', setCount_octets]; exact e.pre i hi
  | err e => exact h.pre i hi
  | panic => exact h.pre i hi

theorem addRrsetOp_limit (sec : RrSection) (hint : Hint) (owner : WName) (ty cls ttl : Nat)
    (rds : List (List UInt8)) (s : State) : (addRrsetOp sec hint owner ty cls ttl rds s).2.limit = s.limit := by
  have h := addRrsetOp_cases sec hint owner ty cls ttl rds s
  generalize addRrsetOp sec hint owner ty cls ttl rds s = r at h
  obtain ⟨o, s'⟩ := r
  cases o with
  | ok u => obtain ⟨s1, n, e, _, hs'⟩ := h; rw [hs', setCount_limit]; exact e.limit
  | err e => exact h.limit
  | panic => exact h.limit

theorem addRrOp_limit (sec : RrSection) (hint : Hint) (owner : WName) (ty cls ttl : Nat)
    (rd : List UInt8) (s : State) : (addRrOp sec hint owner ty cls ttl rd s).2.limit = s.limit := by
  have h := addRrOp_cases sec hint owner ty cls ttl rd s
  generalize addRrOp sec hint owner ty cls ttl rd s = r at h
  obtain ⟨o, s'⟩ := r
  cases o with
  | ok u => obtain ⟨s1, e, _, hs'⟩ := h; rw [hs', setCount_limit]; exact e.limit
  | err e => exact h.limit
  | panic => exact h.limit

theorem safeT_addRrs (optional : Bool) (sec : RrSection) (hint : Hint) (owner : WName) (ty cls ttl : Nat)
    (rds : List (List UInt8)) (s : PS) (hi : W.I s.w) (hwf : owner.WF)
    (hh : HintOK W.Den s.w hint owner) (hne : rds ≠ []) :
    SafeT Pc b0 v0 U (PM.addRrs optional sec hint owner ty cls ttl rds) s
      (fun o w' => ∀ hv, o = some hv →
        HvOK W w' hv (rds.flatMap (rdataNames cls ty)) ∧ HintOK W.Den w' .mostRecentOwner owner) := by
  refine ⟨safe_addRrs W optional sec hint owner ty cls ttl rds s hi hwf hh hne, ?_⟩
  have hi0 : Writer.I { s.w with hv := some [] } := W.I_hv s.w (some []) hi
  have hh0 := hintOK_hv W (some []) hh
  have hh1 := (hintOK_iff _ _ _).mp hh0
  have hcall := W.call (.addRrset sec hint owner ty cls ttl rds) _ hi0 ⟨hwf, hh0⟩
  have hcases := addRrsetOp_cases sec hint owner ty cls ttl rds { s.w with hv := some [] }
  refine tied_addCall _ _ s hcall.1 hi0 (addRrsetOp_limit _ _ _ _ _ _ _ _)
    (fun i hi12 => addRrsetOp_hdr _ _ _ _ _ _ _ _ i (Nat.lt_of_lt_of_le hi12 hi0.inv.hdr)) (fun e s' he => ?_)
    (fun s' b mb hc he => ?_) (addRrsetOp_edns _ _ _ _ _ _ _ _)
  · rw [he] at hcases; exact hcases
  · exact ⟨_, clay_addRrsetOp sec hint owner ty cls ttl rds _ s' hi0 hc hwf hh1 he⟩

theorem safeT_addRr1 (sec : RrSection) (hint : Hint) (owner : WName) (ty cls ttl : Nat)
    (rd : List UInt8) (s : PS) (hi : W.I s.w) (hwf : owner.WF) (hh : HintOK W.Den s.w hint owner) :
    SafeT Pc b0 v0 U (PM.addRr1 sec hint owner ty cls ttl rd) s
      (fun _ w' => ∀ n, (rdataNames cls ty rd).getLast? = some n →
        HintOK W.Den w' .mostRecentNameInRdata n) := by
  refine ⟨safe_addRr1 W sec hint owner ty cls ttl rd s hi hwf hh, fun ht => ?_⟩
  have hi0 : Writer.I { s.w with hv := some [] } := W.I_hv s.w (some []) hi
  have hh0 := hintOK_hv W (some []) hh
  have hh1 := (hintOK_iff _ _ _).mp hh0
  have hcall := W.call (.addRr sec hint owner ty cls ttl rd) _ hi0 ⟨hwf, hh0⟩
  have hcases := addRrOp_cases sec hint owner ty cls ttl rd { s.w with hv := some [] }
  have h := tied_addCall (Pc := Pc) (b0 := b0) (v0 := v0) (U := U) ⟨sec, owner, ty, cls, ttl, [rd], false, .ok ()⟩
    (addRrOp sec hint owner ty cls ttl rd) s hcall.1 hi0 (addRrOp_limit _ _ _ _ _ _ _ _)
    (fun i hi12 => addRrOp_hdr _ _ _ _ _ _ _ _ i (Nat.lt_of_lt_of_le hi12 hi0.inv.hdr))
    (fun e s' he => by rw [he] at hcases; exact hcases)
    (fun s' b mb hc he => ⟨_, clay_addRrOp sec hint owner ty cls ttl rd _ s' hi0 hc hwf hh1 he⟩)
    (addRrOp_edns _ _ _ _ _ _ _ _) ht
  unfold PM.addRr1
  rw [PM.bind_apply]
  generalize PM.addCall ⟨sec, owner, ty, cls, ttl, [rd], false, .ok ()⟩
    (Server.withHv [] (addRrOp sec hint owner ty cls ttl rd)) s = r at h
  obtain ⟨o, s'⟩ := r
  cases o <;> exact h

/-! ## the pass over `query.rs` (the induction of Proofs/ServerQuery.lean, with `SafeT`) -/

theorem addAaaa_tied (z : Zone.Zone) (hint : Hint) (owner : WName) (optional : Bool)
    (aaaa : Option Zone.Rrset) (haaaa : ∀ r, aaaa = some r → r.rdatas ≠ []) (s : PS) (hi : W.I s.w)
    (hwf : owner.WF) (hh : HintOK W.Den s.w hint owner) :
    SafeT Pc b0 v0 U (addAaaa z hint owner optional aaaa) s (fun _ _ => True) := by
  unfold addAaaa
  split
  · cases aaaa with
    | none => exact safeT_pure () s hi trivial
    | some r =>
      exact safeT_bind (safeT_addRrs optional .additional hint owner _ _ _ _ s hi hwf hh (haaaa r rfl))
        (fun _ s1 hi1 _ _ => safeT_pure () s1 hi1 trivial)
  · exact safeT_pure () s hi trivial

theorem addAdditionalAddresses_tied (z : Zone.Zone) (hz : ZoneOK z) (hint : Hint) (owner : WName)
    (sbc optional : Bool) (s : PS) (hi : W.I s.w) (hwf : owner.WF) (hh : HintOK W.Den s.w hint owner) :
    SafeT Pc b0 v0 U (addAdditionalAddresses z hint owner sbc optional) s (fun _ _ => True) := by
  unfold addAdditionalAddresses
  rcases lookupAddrs_cases z hz (fold owner) sbc (fold_wf owner hwf) with
    ⟨a, aaaa, sos, hl, ha, haaaa⟩ | ⟨x, hl, hx⟩
  · rw [hl]
    cases a with
    | none => exact addAaaa_tied z hint owner optional aaaa haaaa s hi hwf hh
    | some r =>
      refine safeT_bind (safeT_addRrs optional .additional hint owner _ _ _ _ s hi hwf hh (ha r rfl))
        (fun o s1 hi1 _ hq => ?_)
      cases o with
      | none => exact safeT_pure () s1 hi1 trivial
      | some hv => exact addAaaa_tied z .mostRecentOwner owner optional aaaa haaaa s1 hi1 hwf (hq hv rfl).2
  · rw [hl]
    cases x with
    | found a b c => exact absurd rfl (hx a b c)
    | referral c ns => exact safeT_pure () s hi trivial
    | nxDomain => exact safeT_pure () s hi trivial
    | wrongZone => exact safeT_pure () s hi trivial

/-! ### `do_additional_section_processing` -/


theorem additionalLoop_tied (z : Zone.Zone) (hz : ZoneOK z) (start : Nat) (cs : List CompType)
    (hshape : Shape cs start) (hvo : Option HV) :
    ∀ (rest pre : List (List UInt8)) (s : PS), W.I s.w →
      (cs ≠ [] → ∀ rd ∈ pre, ∃ n, compNames cs rd = [n]) →
      (∀ v, hvo = some v → HvOK W s.w v ((pre ++ rest).flatMap (compNames cs))) →
      SafeT Pc b0 v0 U (additionalLoop z start hvo rest pre.length) s (fun _ _ => True) := by
  intro rest
  induction rest with
  | nil => intro pre s hi _ _; exact safeT_pure () s hi trivial
  | cons rd rest ih =>
    intro pre s hi hpre hhv
    rcases readName_cases rd start s with ⟨n, hr, hwf, hs, hp⟩ | hr
    · have hint_ok : HintOK W.Den s.w (match (generalizing := false) hvo with | some v => hintFrom v pre.length | none => Hint.none) n := by
        cases hvo with
        | none => trivial
        | some v =>
          refine hintFrom_ok W (hhv v rfl) _ n (fun n' hn' => ?_)
          by_cases hcs : cs = []
          · subst hcs
            have : ∀ l : List (List UInt8), l.flatMap (compNames []) = [] := by
              intro l; induction l with
              | nil => rfl
              | cons a r ih => simp [List.flatMap_cons, compNames, ih]
            rw [this] at hn'; simp at hn'
          · have hl := flatMap_singletons (compNames cs) pre (hpre hcs)
            have hc := compNames_shape hshape hcs rd n hs hp
            rw [List.flatMap_append, List.flatMap_cons, hc, List.getElem?_append_right (by omega), hl] at hn'
            simp at hn'
            exact hn'.symm
      have hrec : ∀ s', W.I s'.w → Mono W.Den s.w s'.w →
          SafeT Pc b0 v0 U (additionalLoop z start hvo rest (pre.length + 1)) s' (fun _ _ => True) := by
        intro s' hi' hm
        have := ih (pre ++ [rd]) s' hi'
          (fun hcs x hx => by
            rcases List.mem_append.mp hx with hx | hx
            · exact hpre hcs x hx
            · simp at hx; subst hx; exact ⟨n, compNames_shape hshape hcs _ n hs hp⟩)
          (fun v hv => by
            have := (hhv v hv).mono W hm
            simpa [List.append_assoc] using this)
        simpa using this
      have prog : SafeT Pc b0 v0 U (do
          addAdditionalAddresses z
            (match (generalizing := false) hvo with | some v => hintFrom v pre.length | none => Hint.none) n false true
          additionalLoop z start hvo rest (pre.length + 1) : PM Unit) s (fun _ _ => True) :=
        safeT_bind (addAdditionalAddresses_tied z hz _ n false true s hi hwf hint_ok)
          (fun _ s' hi' hm _ => hrec s' hi' hm)
      refine safeT_congr ?_ prog
      simp only [additionalLoop, PM.bind_apply, hr]
      rfl
    · have e : additionalLoop z start hvo (rd :: rest) pre.length s = (.err .servFail, s) := by
        simp only [additionalLoop, PM.bind_apply, hr]
      exact safeT_err e hi

theorem doAdditionalSectionProcessing_tied (z : Zone.Zone) (hz : ZoneOK z) (rrType : Nat)
    (rrset : Zone.Rrset) (hvo : Option HV) (s : PS) (hi : W.I s.w)
    (hhv : ∀ v, hvo = some v → HvOK W s.w v (rrset.rdatas.flatMap (rdataNames z.cls rrType))) :
    SafeT Pc b0 v0 U (doAdditionalSectionProcessing z rrType rrset hvo) s (fun _ _ => True) := by
  unfold doAdditionalSectionProcessing
  have loop : ∀ start, Shape (V0.componentTypes z.cls rrType) start →
      SafeT Pc b0 v0 U (additionalLoop z start hvo rrset.rdatas 0) s (fun _ _ => True) := fun start hs =>
    additionalLoop_tied z hz start _ hs hvo rrset.rdatas [] s hi (fun _ _ h => by cases h)
      (fun v hv => by
        have := hhv v hv
        rw [show rdataNames z.cls rrType = compNames (V0.componentTypes z.cls rrType) from
          funext (rdataNames_v0 _ _)] at this
        simpa using this)
  split
  · exact safeT_pure () s hi trivial
  · split
    · rename_i h
      exact loop 0 (by rw [shape_ns z.cls rrType h]; right; left; exact ⟨rfl, rfl⟩)
    · split
      · rename_i h; subst h
        exact loop 2 (by rw [shape_mx]; right; right; left; rfl)
      · split
        · rename_i h; subst h
          exact loop 6 (shape_srv z.cls)
        · exact safeT_pure () s hi trivial

/-! ### negative answers -/

theorem addNegativeCachingSoa_tied (z : Zone.Zone) (hz : ZoneOK z) (s : PS) (hi : W.I s.w) :
    SafeT Pc b0 v0 U (addNegativeCachingSoa z) s (fun _ _ => True) := by
  unfold addNegativeCachingSoa
  cases Zone.soa z with
  | none => exact safeT_fail _ s hi
  | some rrset =>
    simp only
    cases hrd : rrset.rdatas with
    | nil => exact safeT_fail _ s hi
    | cons rd rest =>
      simp only
      rcases readSoaMinimum_cases rd s with ⟨v, hv⟩ | hv
      · have prog : SafeT Pc b0 v0 U (PM.addRr1 .authority .none (unfold z.apex) (T "SOA") z.cls
            (Nat.min (ttlFrom v) rrset.ttl) rd) s (fun _ _ => True) :=
          (safeT_addRr1 .authority .none (unfold z.apex) (T "SOA") z.cls _ rd s hi hz.apex_wf trivial).weaken
            (fun _ _ _ _ _ => trivial)
        refine safeT_congr ?_ prog
        simp only [PM.bind_apply, hv]
      · have e : ∀ (k : Nat → PM Unit), (readSoaMinimum rd >>= k) s = (.err .servFail, s) := by
          intro k; simp only [PM.bind_apply, hv]
        exact safeT_err (e _) hi

/-! ### referrals -/

/-- the two `for (index, nsdname) in …` loops of `do_referral`: safe as long as the vector's entries
    stay valid anchors (`P`, stable under the anchors' monotonicity) -/
theorem glueLoop_tied (z : Zone.Zone) (hz : ZoneOK z) (hv : HV) (optional : Bool) (P : State → Prop)
    (hPm : ∀ w w', P w → Mono W.Den w w' → P w') :
    ∀ (l : List (Nat × WName)),
      (∀ p ∈ l, ∀ w, P w → p.2.WF ∧ HintOK W.Den w (hintFrom hv p.1) p.2) →
      ∀ (s : PS), W.I s.w → P s.w → SafeT Pc b0 v0 U (glueLoop z hv optional l) s (fun _ w' => P w') := by
  intro l
  induction l with
  | nil => intro _ s hi hP; exact safeT_pure () s hi hP
  | cons p r ih =>
    intro hf s hi hP
    unfold glueLoop
    obtain ⟨hwf, hh⟩ := hf p (by simp) s.w hP
    exact safeT_bind (addAdditionalAddresses_tied z hz _ _ true optional s hi hwf hh)
      (fun _ s1 hi1 hm _ => ih (fun q hq => hf q (by simp [hq])) s1 hi1 (hPm _ _ hP hm))

theorem doReferral_tied (z : Zone.Zone) (hz : ZoneOK z) (child : NameL.Name) (hcw : (unfold child).WF)
    (ns : Zone.Rrset) (hne : ns.rdatas ≠ []) (s : PS) (hi : W.I s.w) :
    SafeT Pc b0 v0 U (doReferral z child ns) s (fun _ _ => True) := by
  unfold doReferral
  refine safeT_bind (safeT_addRrs false .authority .none (unfold child) (T "NS") z.cls ns.ttl
    ns.rdatas s hi hcw trivial hne) (fun hvo s1 hi1 _ hpost => ?_)
  -- the vector whose entries are used: the one returned, or none at all
  have hhv : HvOK W s1.w (hvo.getD []) (ns.rdatas.flatMap (rdataNames z.cls (T "NS"))) := by
    cases hvo with
    | none => intro i p h; simp at h
    | some v => exact (hpost v rfl).1
  rcases classifyNs_cases (unfold child) ns.rdatas [] s1 with ⟨g, a, hc, hall, hparse⟩ | hc
  · simp only [List.length_nil, List.nil_append] at hc hall
    have hint_ok : ∀ p ∈ g ++ a, ∀ w, HvOK W w (hvo.getD []) (ns.rdatas.flatMap (rdataNames z.cls (T "NS"))) →
        p.2.WF ∧ HintOK W.Den w (hintFrom (hvo.getD []) p.1) p.2 := by
      intro p hp w hs'
      obtain ⟨hwf, rd, hrd, hpr⟩ := hall p hp
      refine ⟨hwf, hintFrom_ok W hs' _ _ (fun n' hn' => ?_)⟩
      have hsing : ∀ rd ∈ ns.rdatas, ∃ n, rdataNames z.cls (T "NS") rd = [n] := by
        intro rd' hrd'
        obtain ⟨n, hn⟩ := hparse rd' hrd'
        exact ⟨n, by rw [rdataNames_v0, shape_ns z.cls _ (Or.inr (Or.inr (Or.inr rfl)))]; simp [compNames, hn]⟩
      obtain ⟨rd', hrd', hnames⟩ := flatMap_singletons_get _ _ hsing _ _ hn'
      rw [hrd] at hrd'; cases hrd'
      rw [rdataNames_v0] at hnames
      rw [shape_ns z.cls _ (Or.inr (Or.inr (Or.inr rfl)))] at hnames
      simp [compNames, hpr] at hnames
      exact hnames.symm
    have prog : SafeT Pc b0 v0 U (do
        glueLoop z (hvo.getD []) false g
        glueLoop z (hvo.getD []) true a : PM Unit) s1 (fun _ _ => True) := by
      refine safeT_bind (glueLoop_tied z hz (hvo.getD []) false
        (fun w => HvOK W w (hvo.getD []) (ns.rdatas.flatMap (rdataNames z.cls (T "NS"))))
        (fun _ _ h hm => h.mono W hm) g
        (fun p hp w hw => hint_ok p (List.mem_append.mpr (Or.inl hp)) w hw) s1 hi1 hhv)
        (fun _ s2 hi2 _ hs2 => ?_)
      exact (glueLoop_tied z hz (hvo.getD []) true
        (fun w => HvOK W w (hvo.getD []) (ns.rdatas.flatMap (rdataNames z.cls (T "NS"))))
        (fun _ _ h hm => h.mono W hm) a
        (fun p hp w hw => hint_ok p (List.mem_append.mpr (Or.inr hp)) w hw) s2 hi2 hs2).weaken
        (fun _ _ _ _ _ => trivial)
    refine safeT_congr ?_ prog
    simp only [PM.bind_apply, hc]
  · simp only [List.length_nil] at hc
    have e : ∀ (k : List (Nat × WName) × List (Nat × WName) → PM Unit),
        (classifyNs (unfold child) ns.rdatas 0 >>= k) s1 = (.err .servFail, s1) := by
      intro k; simp only [PM.bind_apply, hc]
    exact safeT_err (e _) hi1

/-! ### CNAME chains -/

theorem followCname_tied (z : Zone.Zone) (hz : ZoneOK z) (qname : WName) (hq : qname.WF) (rrType : Nat) :
    ∀ (fuel : Nat) (cn : Zone.Rrset) (os : List WName) (s : PS), W.I s.w → (∀ o ∈ os, o.WF) →
      ChainHint W s.w qname os →
      SafeT Pc b0 v0 U (followCname z qname rrType fuel cn os) s (fun _ _ => True) := by
  intro fuel
  induction fuel with
  | zero => intro cn os s hi _ _; exact safeT_fail _ s hi
  | succ fuel ih =>
    intro cn os s hi hos hch
    unfold followCname
    cases hrd : cn.rdatas with
    | nil => exact safeT_fail _ s hi
    | cons rd rest =>
      simp only
      cases hp : WName.parse rd with
      | none => exact safeT_fail _ s hi
      | some v =>
        obtain ⟨cname, rem⟩ := v
        cases rem with
        | cons a b => exact safeT_fail _ s hi
        | nil =>
          simp only
          have hcw : cname.WF := (parse_sound _ _ _ hp).1
          split
          · exact safeT_fail _ s hi
          · have hstep : ∀ (hint : Hint) (owner : WName), owner.WF → HintOK W.Den s.w hint owner →
                SafeT Pc b0 v0 U (PM.addRr1 .answer hint owner (T "CNAME") z.cls cn.ttl cname.wire) s
                  (fun _ w' => HintOK W.Den w' .mostRecentNameInRdata cname) := by
              intro hint owner how hho
              refine (safeT_addRr1 .answer hint owner _ _ _ _ s hi how hho).weaken
                (fun _ w' _ _ h => h cname ?_)
              rw [rdataNames_cname z.cls cname hcw]; rfl
            have hrest : ∀ s1 : PS, W.I s1.w → HintOK W.Den s1.w .mostRecentNameInRdata cname →
                SafeT Pc b0 v0 U (match Zone.lookup z (fold cname) rrType ⟨false, false⟩ with
                  | .ok (.found found _) => do
                    let hv ← PM.addRrs false .answer .mostRecentNameInRdata cname rrType z.cls found.ttl found.rdatas
                    doAdditionalSectionProcessing z rrType found hv
                  | .ok (.cname next _) =>
                    if os.length < Gen.MAX_CNAME_CHAIN_LEN - 1 then
                      followCname z qname rrType fuel next (os ++ [cname])
                    else PM.fail .servFail
                  | .ok (.referral child ns) => doReferral z child ns
                  | .ok (.noRecords _) => addNegativeCachingSoa z
                  | .ok .nxDomain => do
                    PM.setRcode (RC "NXDOMAIN")
                    addNegativeCachingSoa z
                  | .ok .wrongZone => pure ()
                  | .err _ => pure ()
                  | .panic => PM.panic : PM Unit) s1 (fun _ _ => True) := by
              intro s1 hi1 hh1
              rcases lookup_cases z hz (fold cname) rrType ⟨false, false⟩ (fold_wf cname hcw) (fun h => by cases h)
                with ⟨h, _⟩ | ⟨r, sos, h, hne⟩ | ⟨r, sos, h, hne⟩ | ⟨c, ns, h, hne, hcwf⟩ | ⟨sos, h⟩ | h
              · rw [h]; exact safeT_pure () s1 hi1 trivial
              · rw [h]
                exact safeT_bind (safeT_addRrs false .answer .mostRecentNameInRdata cname rrType
                  z.cls r.ttl r.rdatas s1 hi1 hcw hh1 hne)
                  (fun hv s2 hi2 _ hhv => doAdditionalSectionProcessing_tied z hz rrType r hv s2 hi2
                    (fun v hv' => (hhv v hv').1))
              · rw [h]
                simp only
                split
                · refine ih r (os ++ [cname]) s1 hi1 (fun o ho => ?_) ?_
                  · rcases List.mem_append.mp ho with ho | ho
                    · exact hos o ho
                    · simp at ho; subst ho; exact hcw
                  · unfold ChainHint; rw [List.getLast?_concat]; exact hh1
                · exact safeT_fail _ s1 hi1
              · rw [h]; exact doReferral_tied z hz c hcwf ns hne s1 hi1
              · rw [h]; exact addNegativeCachingSoa_tied z hz s1 hi1
              · rw [h]
                exact safeT_bind (safeT_setRcode _ s1 hi1)
                  (fun _ s2 hi2 _ _ => addNegativeCachingSoa_tied z hz s2 hi2)
            unfold ChainHint at hch
            cases hgl : os.getLast? with
            | none =>
              rw [hgl] at hch
              simp only
              exact safeT_bind (hstep .qname qname hq hch) (fun _ s1 hi1 _ hh1 => hrest s1 hi1 hh1)
            | some o =>
              rw [hgl] at hch
              simp only
              exact safeT_bind (hstep .mostRecentNameInRdata o (hos o (List.mem_of_getLast? hgl)) hch)
                (fun _ s1 hi1 _ hh1 => hrest s1 hi1 hh1)

theorem doCname_tied (z : Zone.Zone) (hz : ZoneOK z) (qname : WName) (hq : qname.WF) (cn : Zone.Rrset)
    (rrType : Nat) (s : PS) (hi : W.I s.w) (hh : HintOK W.Den s.w .qname qname) :
    SafeT Pc b0 v0 U (doCname z qname cn rrType) s (fun _ _ => True) := by
  unfold doCname
  exact safeT_bind (safeT_setAa true s hi)
    (fun _ s1 hi1 hm _ => followCname_tied z hz qname hq rrType _ cn [] s1 hi1
      (fun o ho => by cases ho) (hintOK_qname_mono W hh hm))

/-! ### `answer`, `answer_any` -/

theorem answer_tied (z : Zone.Zone) (hz : ZoneOK z) (qname : WName) (hq : qname.WF) (qtype : Nat)
    (hsub : z.apex <:+ fold qname) (s : PS) (hi : W.I s.w) (hh : HintOK W.Den s.w .qname qname) :
    SafeT Pc b0 v0 U (answer z qname qtype) s (fun _ _ => True) := by
  unfold answer
  have aa : ∀ (k : PM Unit), (∀ s1 : PS, W.I s1.w → Mono W.Den s.w s1.w → SafeT Pc b0 v0 U k s1 (fun _ _ => True)) →
      SafeT Pc b0 v0 U (do PM.setAa true; k : PM Unit) s (fun _ _ => True) := fun k hk =>
    safeT_bind (safeT_setAa true s hi) (fun _ s1 hi1 hm _ => hk s1 hi1 hm)
  rcases lookup_cases z hz (fold qname) qtype ⟨true, false⟩ (fold_wf qname hq) (fun _ => hsub)
    with ⟨_, hu⟩ | ⟨r, sos, h, hne⟩ | ⟨r, sos, h, hne⟩ | ⟨c, ns, h, hne, hcwf⟩ | ⟨sos, h⟩ | h
  · cases hu
  · rw [h]
    exact aa _ (fun s1 hi1 hm =>
      safeT_bind (safeT_addRrs false .answer .qname qname qtype z.cls r.ttl r.rdatas s1 hi1 hq
        (hintOK_qname_mono W hh hm) hne)
        (fun hv s2 hi2 _ hhv => doAdditionalSectionProcessing_tied z hz qtype r hv s2 hi2
          (fun v hv' => (hhv v hv').1)))
  · rw [h]; exact doCname_tied z hz qname hq r qtype s hi hh
  · rw [h]; exact doReferral_tied z hz c hcwf ns hne s hi
  · rw [h]; exact aa _ (fun s1 hi1 _ => addNegativeCachingSoa_tied z hz s1 hi1)
  · rw [h]
    exact safeT_bind (safeT_setRcode _ s hi)
      (fun _ s1 hi1 _ _ => safeT_bind (safeT_setAa true s1 hi1)
        (fun _ s2 hi2 _ _ => addNegativeCachingSoa_tied z hz s2 hi2))

theorem answerAnyLoop_tied (z : Zone.Zone) (qname : WName) (hq : qname.WF) :
    ∀ (rrsets : List Zone.Rrset) (n : Nat) (s : PS), W.I s.w → HintOK W.Den s.w .qname qname →
      (∀ r ∈ rrsets, r.rdatas ≠ []) →
      SafeT Pc b0 v0 U (answerAnyLoop z qname rrsets n) s (fun _ _ => True) := by
  intro rrsets
  induction rrsets with
  | nil => intro n s hi _ _; exact safeT_pure n s hi trivial
  | cons r rest ih =>
    intro n s hi hh hne
    unfold answerAnyLoop
    exact safeT_bind (safeT_addRrs false .answer .qname qname r.rtype z.cls r.ttl r.rdatas s hi hq hh
      (hne r (by simp)))
      (fun _ s1 hi1 hm _ => ih (n + 1) s1 hi1 (hintOK_qname_mono W hh hm) (fun x hx => hne x (by simp [hx])))

theorem answerAny_tied (z : Zone.Zone) (hz : ZoneOK z) (qname : WName) (hq : qname.WF)
    (hsub : z.apex <:+ fold qname) (s : PS) (hi : W.I s.w) (hh : HintOK W.Den s.w .qname qname) :
    SafeT Pc b0 v0 U (answerAny z qname) s (fun _ _ => True) := by
  unfold answerAny
  rcases lookupAll_cases z hz (fold qname) (fold_wf qname hq) hsub
    with ⟨rrsets, sos, h, hne⟩ | ⟨c, ns, h, hne, hcwf⟩ | h
  · rw [h]
    refine safeT_bind (safeT_setAa true s hi) (fun _ s1 hi1 hm _ => ?_)
    refine safeT_bind (answerAnyLoop_tied z qname hq rrsets 0 s1 hi1 (hintOK_qname_mono W hh hm) hne)
      (fun n s2 hi2 _ _ => ?_)
    split
    · exact addNegativeCachingSoa_tied z hz s2 hi2
    · exact safeT_pure () s2 hi2 trivial
  · rw [h]; exact doReferral_tied z hz c hcwf ns hne s hi
  · rw [h]
    exact safeT_bind (safeT_setRcode _ s hi)
      (fun _ s1 hi1 _ _ => safeT_bind (safeT_setAa true s1 hi1)
        (fun _ s2 hi2 _ _ => addNegativeCachingSoa_tied z hz s2 hi2))


/-! ### `handle_non_axfr_query` -/

/-- the writer invariant again, and the tie is kept (for the epilogues, where `clear_rrs` breaks
    the monotonicity of anchors that `SafeP` tracks) -/
def Keep (Pc : CMode → Prop) (b0 : Body) (v0 : View) (U : Prop) {ε α : Type} (f : PS → Out ε α × PS) (s : PS) : Prop :=
  W.I (f s).2.w ∧ (Tied Pc b0 v0 U s → Tied Pc b0 v0 U (f s).2)

theorem SafeT.keep {ε α : Type} {f : PS → Out ε α × PS} {s : PS} {Q : α → State → Prop}
    (h : SafeT Pc b0 v0 U f s Q) : Keep Pc b0 v0 U f s := ⟨h.1.2.1, h.2⟩

theorem keep_clearRrs (s : PS) (hi : W.I s.w) : Keep Pc b0 v0 U PM.clearRrs s :=
  ⟨(safeP0_clearRrs W s hi).2, tied_clearRrs s hi⟩

theorem keep_bind {α β : Type} {x : PM α} {g : α → PM β} {s : PS}
    (hx : Keep Pc b0 v0 U x s) (hg : ∀ a s', W.I s'.w → Keep Pc b0 v0 U (g a) s') : Keep Pc b0 v0 U (x >>= g) s := by
  obtain ⟨h1, h2⟩ := hx
  unfold Keep
  rw [PM.bind_apply]
  generalize x s = r at h1 h2
  obtain ⟨o, s'⟩ := r
  cases o with
  | ok a => exact ⟨(hg a s' h1).1, fun ht => (hg a s' h1).2 (h2 ht)⟩
  | err e => exact ⟨h1, h2⟩
  | panic => exact ⟨h1, h2⟩

/-- **the threading lemma**: `handle_non_axfr_query` keeps the writer invariant and the tie between
    the ghost log and the writer's content layout — through the lookup-driven body (`answer` /
    `answer_any`, every `add_*` call with a valid hint), and through both epilogues (SERVFAIL:
    `set_aa(false)`, `set_rcode`, `clear_rrs`; truncation: `clear_rrs`, then TC or SERVFAIL). -/
theorem keep_handleNonAxfrQueryL (z : Zone.Zone) (hz : ZoneOK z) (qname : WName) (hq : qname.WF)
    (qtype : Nat) (tr : Transport) (hsub : z.apex <:+ fold qname) (s : PS) (hi : W.I s.w)
    (hh : HintOK W.Den s.w .qname qname) : Keep Pc b0 v0 U (handleNonAxfrQueryL z qname qtype tr) s := by
  have hres : SafeT Pc b0 v0 U (fun s => if qtype = QT "ANY" then answerAny z qname s else answer z qname qtype s) s
      (fun _ _ => True) := by
    by_cases hq' : qtype = QT "ANY"
    · exact safeT_congr (by simp only [hq', if_true]) (answerAny_tied z hz qname hq hsub s hi hh)
    · exact safeT_congr (by simp only [hq', if_false]) (answer_tied z hz qname hq qtype hsub s hi hh)
  obtain ⟨⟨h1, h2, _, _⟩, h5⟩ := hres
  dsimp only at h1 h2 h5
  have ep1 : ∀ s' : PS, W.I s'.w →
      Keep Pc b0 v0 U (do PM.setAa false; PM.setRcode (RC "SERVFAIL"); PM.clearRrs : PM Unit) s' :=
    fun s' hi' => keep_bind (safeT_setAa false s' hi').keep (fun _ s1 hi1 =>
      keep_bind (safeT_setRcode _ s1 hi1).keep (fun _ s2 hi2 => keep_clearRrs s2 hi2))
  have ep2 : ∀ s' : PS, W.I s'.w → Keep Pc b0 v0 U (do
      PM.clearRrs
      if tr = Transport.tcp then do PM.setAa false; PM.setRcode (RC "SERVFAIL")
      else PM.setTc true : PM Unit) s' := fun s' hi' =>
    keep_bind (keep_clearRrs s' hi') (fun _ s1 hi1 => by
      split
      · exact (safeT_bind (safeT_setAa false s1 hi1)
          (fun _ s2 hi2 _ _ => safeT_setRcode _ s2 hi2)).keep
      · exact (safeT_setTc true s1 hi1).keep)
  unfold Keep handleNonAxfrQueryL
  dsimp only
  generalize (if qtype = QT "ANY" then answerAny z qname s else answer z qname qtype s) = res at h1 h2 h5
  obtain ⟨o, s'⟩ := res
  cases o with
  | panic => exact ⟨h2, h5⟩
  | ok u => exact ⟨h2, h5⟩
  | err e =>
    cases e with
    | servFail =>
      have := ep1 s' h2
      exact ⟨this.1, fun ht => this.2 (h5 ht)⟩
    | truncation =>
      have := ep2 s' h2
      exact ⟨this.1, fun ht => this.2 (h5 ht)⟩

/-- **`clay_handleNonAxfrQueryL`**: from a writer state that satisfies the writer invariant, is laid
    out as `b0` (in any session of compression modes `Pc`), has a limit a DNS message can have, and
    in which `Hint::Qname` is valid for the queried name, `handle_non_axfr_query` leaves a writer
    that satisfies the invariant, has the same kind of limit, and is laid out as `b0` plus the
    records of the logged `add_*` calls that succeeded — in call order, by section; reset to the
    questions where `clear_rrs` was logged.  And the header follows the log too: if octets 2–3 show
    the AA, TC and RCODE of a view `v0` before, they show those of `v0` stepped through the log
    after. -/
theorem clay_handleNonAxfrQueryL (z : Zone.Zone) (hz : ZoneOK z) (qname : WName) (hq : qname.WF)
    (qtype : Nat) (tr : Transport) (hsub : z.apex <:+ fold qname) (w : State) (hi : Writer.I w)
    (hh : HintOK Writer.Den w .qname qname) (hl : w.limit ≤ 65535) (mb : MBody) (hc : CLay Pc w b0 mb)
    (v0 : View) (hv0 : HdrView w v0) :
    Writer.I (handleNonAxfrQueryL z qname qtype tr ⟨w, []⟩).2.w ∧
    (handleNonAxfrQueryL z qname qtype tr ⟨w, []⟩).2.w.limit ≤ 65535 ∧
    (∃ mb', CLay Pc (handleNonAxfrQueryL z qname qtype tr ⟨w, []⟩).2.w
      (bodyOf b0 (handleNonAxfrQueryL z qname qtype tr ⟨w, []⟩).2.log) mb') ∧
    HdrView (handleNonAxfrQueryL z qname qtype tr ⟨w, []⟩).2.w
      ((handleNonAxfrQueryL z qname qtype tr ⟨w, []⟩).2.log.foldl View.step v0) := by
  obtain ⟨h1, h2⟩ := keep_handleNonAxfrQueryL (Pc := Pc) (b0 := b0) (v0 := v0) (U := False) z hz qname hq qtype tr hsub ⟨w, []⟩ hi hh
  obtain ⟨a, b, c, _⟩ := h2 ⟨hl, ⟨mb, hc⟩, hv0, fun x => x.elim⟩
  exact ⟨h1, a, b, c⟩

/-- … and the extended-RCODE octet of the EDNS slot stays 0 (only `set_rcode` touches the slot, and it
    resets that octet) -/
theorem ednsUp0_handleNonAxfrQueryL (z : Zone.Zone) (hz : ZoneOK z) (qname : WName) (hq : qname.WF)
    (qtype : Nat) (tr : Transport) (hsub : z.apex <:+ fold qname) (w : State) (hi : Writer.I w)
    (hh : HintOK Writer.Den w .qname qname) (hl : w.limit ≤ 65535) (mb : MBody) (b0 : Body)
    (hc : CLay (fun _ => True) w b0 mb) (hu : EdnsUp0 w) :
    EdnsUp0 (handleNonAxfrQueryL z qname qtype tr ⟨w, []⟩).2.w := by
  obtain ⟨v0, hv0⟩ := hdrView_exists w
  obtain ⟨_, h2⟩ := keep_handleNonAxfrQueryL (Pc := fun _ => True) (b0 := b0) (v0 := v0) (U := True) z hz qname hq qtype tr
    hsub ⟨w, []⟩ hi hh
  exact (h2 ⟨hl, ⟨mb, hc⟩, hv0, fun _ => hu⟩).2.2.2 trivial

end QV.ServerContent
